/-
  Model of the resource-lifecycle checks (C18).
  Python anchors (src/schemathesis):
    specs/openapi/checks.py : use_after_free, ensure_resource_availability, ResourcePath.get, _is_prefix_operation
    engine/recorder.py      : ScenarioRecorder.find_parent / find_related / find_response
    generation/overrides.py : store_components, get_component_diff, Override.from_components
    core/transforms.py      : diff
  Core Lean only.
-/
import SV.Json

namespace SV.Model.C18

/-! ## strings as the Python code sees them -/

/-- `s.rstrip(c)` on a character list. -/
def rstripChar (c : Char) (s : List Char) : List Char :=
  (s.reverse.dropWhile (· == c)).reverse

/-- `s.lstrip(c)`. -/
def lstripChar (c : Char) (s : List Char) : List Char := s.dropWhile (· == c)

/-- `s.split(c)` (always at least one part). -/
def splitChar (c : Char) : List Char → List (List Char)
  | [] => [[]]
  | x :: xs =>
    if x == c then [] :: splitChar c xs
    else match splitChar c xs with
      | [] => [[x]]            -- unreachable: splitChar never returns []
      | p :: ps => (x :: p) :: ps

def startsWithBrace : List Char → Bool
  | '{' :: _ => true
  | _ => false

/-- `ResourcePath`: the raw path template and the (stringified) path parameters. -/
structure RPath where
  value : List Char
  vars : List (List Char × List Char)
  deriving Repr

def lookupVar (k : List Char) : List (List Char × List Char) → Option (List Char)
  | [] => none
  | (k', v) :: rest => if k == k' then some v else lookupVar k rest

/-- `ResourcePath.get`: `variables[key.lstrip("{").rstrip("}")]`; `none` is Python's `KeyError`. -/
def RPath.get (p : RPath) (key : List Char) : Option (List Char) :=
  lookupVar (rstripChar '}' (lstripChar '{' key)) p.vars

inductive Verdict where
  | yes | no | keyError
  deriving Repr, DecidableEq

def parts (p : RPath) : List (List Char) := splitChar '/' (rstripChar '/' p.value)

/-- the `for left, right in zip(...)` loop of `_is_prefix_operation` -/
def zipLoop (l r : RPath) : List (List Char) → List (List Char) → Verdict
  | left :: ls, right :: rs =>
    if startsWithBrace left && startsWithBrace right then
      match l.get left, r.get right with
      | some a, some b => if a != b then .no else zipLoop l r ls rs
      | _, _ => .keyError
    else if left != right && rstripChar 's' left != rstripChar 's' right then .no
    else zipLoop l r ls rs
  | _, _ => .yes

def isPrefixOp (l r : RPath) : Verdict :=
  if (parts l).length > (parts r).length then .no else zipLoop l r (parts l) (parts r)

/-! ## the scenario recorder -/

structure Node where
  id : Nat
  parent : Option Nat
  method : List Char
  rpath : RPath
  status : Option Nat          -- `none`: no response recorded for this case
  deriving Repr

abbrev Tree := List Node        -- insertion order of `ScenarioRecorder.cases`

def findNode (t : Tree) (i : Nat) : Option Node := t.find? (·.id == i)

def findParent (t : Tree) (i : Nat) : Option Node :=
  match findNode t i with
  | some n => match n.parent with
    | some p => findNode t p
    | none => none
  | none => none

def findResponse (t : Tree) (i : Nat) : Option Nat :=
  match findNode t i with
  | some n => n.status
  | none => none

/-- climb to the root (`while True` loop of `find_related`), fuel = number of nodes -/
def rootOf (t : Tree) : Nat → Nat → Nat
  | 0, i => i
  | fuel + 1, i =>
    match findNode t i with
    | some n => match n.parent with
      | some p => rootOf t fuel p
      | none => i
    | none => i

/-- depth-first traversal of `find_related` with its `seen` set; returns (yielded nodes, seen).
    `traverse fuel nodeId seen` scans all cases in insertion order for unseen children of `nodeId`. -/
def traverse (t : Tree) : Nat → Nat → List Nat → List Node × List Nat
  | 0, _, seen => ([], seen)
  | fuel + 1, nodeId, seen =>
    t.foldl (fun (acc : List Node × List Nat) n =>
      if n.parent == some nodeId && !(acc.2.contains n.id) then
        let sub := traverse t fuel n.id (n.id :: acc.2)
        (acc.1 ++ [n] ++ sub.1, sub.2)
      else acc) ([], seen)

def findRelated (t : Tree) (cur : Nat) : List Node :=
  let root := rootOf t t.length cur
  let seen := [cur]
  let (first, seen) := match findNode t root with
    | some n => if seen.contains root then ([], seen) else ([n], root :: seen)
    | none => ([], seen)
  first ++ (traverse t (t.length + 1) root seen).1

def isDelete (n : Node) : Bool := n.method.map Char.toLower == "delete".toList
def isPost (n : Node) : Bool := n.method.map Char.toUpper == "POST".toList
def is2xx (s : Nat) : Bool := 200 ≤ s && s < 300

inductive Variant where
  | asFound      -- the DELETE's *parent's* response is tested (pinned snapshot)
  | repaired     -- the DELETE's own response is tested
  deriving Repr, DecidableEq

inductive Out where
  | pass | fail (byNode : Nat) | keyError
  deriving Repr, DecidableEq

/-- the `for related_case in ctx.find_related(...)` loop of `use_after_free` -/
def uafLoop (v : Variant) (t : Tree) (cur : Node) : List Node → Out
  | [] => .pass
  | rel :: rest =>
    match v with
    | .asFound =>
      match findParent t rel.id with
      | none => uafLoop v t cur rest
      | some parent =>
        match isDelete rel, findResponse t parent.id with
        | true, some ps =>
          if is2xx ps then
            match isPrefixOp rel.rpath cur.rpath with
            | .yes => .fail rel.id
            | .keyError => .keyError
            | .no => uafLoop v t cur rest
          else uafLoop v t cur rest
        | _, _ => uafLoop v t cur rest
    | .repaired =>
      if isDelete rel then
        match findResponse t rel.id with
        | some s =>
          if is2xx s then
            match isPrefixOp rel.rpath cur.rpath with
            | .yes => .fail rel.id
            | .keyError => .keyError
            | .no => uafLoop v t cur rest
          else uafLoop v t cur rest
        | none => uafLoop v t cur rest
      else uafLoop v t cur rest

/-- `use_after_free` after the schema/unexpected-method guard; `status` is the checked response's status. -/
def useAfterFree (v : Variant) (t : Tree) (cur : Node) (status : Nat) : Out :=
  if status == 404 || status ≥ 500 then .pass
  else uafLoop v t cur (findRelated t cur.id)

/-! ## ensure_resource_availability -/

/-- a request component as `store_components` / `get_component_diff` see it -/
structure Component where
  stored : Option (List (String × String))   -- value at construction (`None` or a dict)
  isGenerated : Bool
  current : Option (List (String × String))
  deriving Repr

def lookupS (k : String) : List (String × String) → Option String
  | [] => none
  | (k', v) :: rest => if k == k' then some v else lookupS k rest

/-- `core.transforms.diff` -/
def dictDiff (left right : List (String × String)) : List (String × String) :=
  right.filter fun (k, v) => match lookupS k left with
    | none => true
    | some v' => v' != v

/-- `get_component_diff` (Python truthiness: `None` and `{}` are both falsy) -/
def componentDiff (c : Component) : List (String × String) :=
  match c.current, c.stored with
  | some cur, some st =>
    if cur.isEmpty || st.isEmpty then []
    else if c.isGenerated then dictDiff st cur else cur
  | _, _ => []

structure Overrides where
  path : Component
  headers : Component
  cookies : Component
  query : Component
  deriving Repr

/-- declared parameters in `iter_parameters` order: (location, name) -/
def containerOf (o : Overrides) (loc : String) : Option Component :=
  if loc == "path" then some o.path
  else if loc == "header" then some o.headers
  else if loc == "cookie" then some o.cookies
  else if loc == "query" then some o.query
  else none

def allOverridden (o : Overrides) (params : List (String × String)) : Bool :=
  params.all fun (loc, name) =>
    match containerOf o loc with
    | some c => (componentDiff c).any (·.1 == name)
    | none => false

def eraDeleteLoop (t : Tree) (cur : Node) : List Node → Option Out
  | [] => none
  | rel :: rest =>
    if isDelete rel then
      match findResponse t rel.id with
      | some s =>
        if is2xx s then
          match isPrefixOp rel.rpath cur.rpath with
          | .yes => some .pass
          | .keyError => some .keyError
          | .no => eraDeleteLoop t cur rest
        else eraDeleteLoop t cur rest
      | none => eraDeleteLoop t cur rest
    else eraDeleteLoop t cur rest

def ensureResourceAvailability (t : Tree) (cur : Node) (status : Nat) (o : Overrides)
    (params : List (String × String)) : Out :=
  if !(400 ≤ status && status < 500) then .pass else
  match findParent t cur.id with
  | none => .pass
  | some parent =>
    match findResponse t parent.id with
    | none => .pass
    | some ps =>
      if !(isPost parent) then .pass
      else if !(200 ≤ ps && ps < 400) then .pass
      else match isPrefixOp parent.rpath cur.rpath with
        | .no => .pass
        | .keyError => .keyError
        | .yes =>
          if !(allOverridden o params) then .pass
          else match eraDeleteLoop t cur (findRelated t cur.id) with
            | some r => r
            | none => .fail parent.id

end SV.Model.C18
