/-
  Model of hook / auth registration with `apply_to` / `skip_for` filters (C19).
  Python anchors (src/schemathesis):
    hooks.py   : to_filterable_hook (register / decorator / init_filter_set closures), HookDispatcher.apply,
                 register_hook_with_name, get_all_by_name, apply_to_container, dispatch, unregister, unregister_all,
                 _should_skip_hook, apply_to_all_dispatchers, validate_filterable_hook
    schemas.py : APIOperation.as_strategy._apply_hooks  (the `*_case` hooks)
    filters.py : FilterSet.include / exclude / _add_filter (duplicate check) / match / is_empty, attach_filter_chain
    auths.py   : AuthStorage.register / apply / set_from_requests / _set_provider / unregister / set,
                 SelectiveAuthProvider.get
  Core Lean only.

  `to_filterable_hook` is modelled as a heap-and-closure machine:
    * the heap maps addresses to `FilterSet` objects (`FS`); `FilterSet()` allocates the next address;
    * one *machine* per call of `to_filterable_hook` with the closure cells `filter_used` (`used`), the outer
      `filter_set` variable (`outer`) and the set the `apply_to` / `skip_for` proxies attached to `register`
      currently write to (`proxy`);
    * one *decorator* per `register("name")` call with the set its own proxies write to;
    * `hook.filter_set` is an attribute of the function object (`attr`), whatever dispatcher it is registered on.
-/
namespace SV.Model.C19

/-! ## hook names -/

inductive Action where
  | beforeGenerate | filter | map | flatmap
  deriving Repr, DecidableEq

inductive Target where
  | pathParameters | query | headers | cookies | body | case
  deriving Repr, DecidableEq

inductive HookName where
  | gen (a : Action) (t : Target)      -- before_generate_X / filter_X / map_X / flatmap_X
  | beforeProcessPath | beforeLoadSchema | afterLoadSchema
  | beforeAddExamples | beforeInitOperation | beforeCall | afterCall
  deriving Repr, DecidableEq

/-- `validate_filterable_hook` raises for exactly these three names -/
def HookName.filterable : HookName → Bool
  | .beforeProcessPath | .beforeLoadSchema | .afterLoadSchema => false
  | _ => true

/-! ## FilterSet -/

/-- `FilterSet`: the `Filter` objects (by id) in `_includes` / `_excludes`, in insertion order. -/
structure FS where
  inc : List Nat
  exc : List Nat
  deriving Repr, DecidableEq

def FS.empty : FS := ⟨[], []⟩

/-- `FilterSet.is_empty` -/
def FS.isEmpty (s : FS) : Bool := s.inc.isEmpty && s.exc.isEmpty

def FS.has (s : FS) (f : Nat) : Bool := s.inc.contains f || s.exc.contains f

/-- `_add_filter`; `none` is `IncorrectUsage(ERROR_FILTER_EXISTS)` -/
def FS.add (s : FS) (incl : Bool) (f : Nat) : Option FS :=
  if s.has f then none
  else some (if incl then { s with inc := s.inc ++ [f] } else { s with exc := s.exc ++ [f] })

/-- `FilterSet.match`; `mt f o` says whether filter `f` matches operation `o`. -/
def FS.matches (mt : Nat → Nat → Bool) (s : FS) (o : Nat) : Bool :=
  if s.exc.any (mt · o) then false
  else if s.inc.isEmpty then true
  else s.inc.any (mt · o)

/-! ## the closure machine -/

/-- the F25 site -/
inductive V25 where
  | asFound        -- pinned snapshot
  | nonlocalOnly   -- snapshot + `nonlocal filter_set` in `init_filter_set` (a tempting, wrong repair)
  | repaired       -- proposed_fixes/F25.diff
  deriving Repr, DecidableEq

/-- the F26 site (`_apply_hooks` for `*_case` hooks) -/
inductive Variant where
  | asFound | repaired
  deriving Repr, DecidableEq

def upd {α : Type} (f : Nat → α) (k : Nat) (v : α) : Nat → α := fun x => if x = k then v else f x

structure St where
  next : Nat                          -- next heap address
  heap : Nat → FS
  nM : Nat                            -- machines (calls of `to_filterable_hook`)
  mDisp : Nat → Nat                   -- dispatcher a machine registers on
  used : Nat → Bool                   -- `filter_used`
  outer : Nat → Nat                   -- outer `filter_set` variable
  proxy : Nat → Nat                   -- set written by `register.apply_to` / `register.skip_for`
  nD : Nat                            -- decorators (`register("name")` results)
  dM : Nat → Nat                      -- decorator ↦ its machine
  dName : Nat → HookName
  dDead : Nat → Bool                  -- the `register("name")` call raised: no decorator object exists
  dProxy : Nat → Nat                  -- set written by `decorator.apply_to` / `decorator.skip_for`
  dOwn : Nat → Nat                    -- set captured by the decorator closure (repaired variant only)
  attr : Nat → Option Nat             -- hook function ↦ `hook.filter_set`
  hooks : Nat → List (HookName × Nat) -- dispatcher ↦ registrations (name, function) in order (`_hooks`)

/-- `nM` machines already constructed: machine `i` registers on dispatcher `disp i`. -/
def init (nM : Nat) (disp : Nat → Nat) : St :=
  { next := nM, heap := fun _ => FS.empty, nM := nM, mDisp := disp, used := fun _ => false,
    outer := fun m => m, proxy := fun m => m,
    nD := 0, dM := fun _ => 0, dName := fun _ => .beforeCall, dDead := fun _ => false, dProxy := fun _ => 0, dOwn := fun _ => 0,
    attr := fun _ => none, hooks := fun _ => [] }

inductive Op where
  | regApply (m : Nat) (incl : Bool) (f : Nat)     -- `register.apply_to(f)` / `register.skip_for(f)`
  | registerFn (m h : Nat) (name : HookName)       -- `register(hook)`, `hook.__name__ = name`
  | registerName (m : Nat) (name : HookName)       -- `register("name")` → decorator number `nD` (dead if it raised)
  | decoApply (d : Nat) (incl : Bool) (f : Nat)    -- `decorator.apply_to(f)` / `decorator.skip_for(f)`
  | decorate (d h : Nat)                           -- `decorator(hook)`
  | applyHook (disp h : Nat) (name : HookName)     -- `HookDispatcher.apply(hook, name=…)(test)`: no filter assigned
  | unregister (disp h : Nat)
  | unregisterAll (disp : Nat)
  deriving Repr, DecidableEq

inductive Out where
  | ok
  | okDeco (d : Nat)
  | valueError         -- "Filters are not applicable to this hook"
  | filterExists       -- IncorrectUsage("Filter already exists")
  | badRef             -- the op names a machine / decorator that does not exist (the harness calls nothing then)
  deriving Repr, DecidableEq

def addHook (s : St) (disp : Nat) (n : HookName) (h : Nat) : St :=
  { s with hooks := upd s.hooks disp (s.hooks disp ++ [(n, h)]) }

/-- a proxy call: `filter_used = True; filter_set.include/exclude(...)` on the set at `a` -/
def proxyWrite (s : St) (m a : Nat) (incl : Bool) (f : Nat) : St × Out :=
  let s := { s with used := upd s.used m true }
  match (s.heap a).add incl f with
  | none => (s, .filterExists)
  | some v => ({ s with heap := upd s.heap a v }, .ok)

/-- `init_filter_set(target)` of the snapshot: `filter_used = False`, a fresh set for the proxies of `target`.
    Returns the state with the fresh address allocated. -/
def freshSet (s : St) : St × Nat :=
  ({ s with next := s.next + 1, heap := upd s.heap s.next FS.empty }, s.next)

def step (v : V25) (s : St) : Op → St × Out
  | .regApply m incl f =>
    -- with `nonlocal filter_set` in `init_filter_set` the proxies' closures see the OUTER variable at call time
    if m < s.nM then proxyWrite s m (if v = .nonlocalOnly then s.outer m else s.proxy m) incl f else (s, .badRef)
  | .registerFn m h n =>
    if m < s.nM then
      match v with
      | .repaired =>
        -- own = filter_set; filter_set = attach_filters(register, FilterSet()); validate; hook.filter_set = own
        let own := s.outer m
        let (s, a) := freshSet s
        let s := { s with outer := upd s.outer m a, proxy := upd s.proxy m a }
        if !(s.heap own).isEmpty && !n.filterable then (s, .valueError)
        else (addHook { s with attr := upd s.attr h (some own) } (s.mDisp m) n h, .ok)
      | _ =>
        if s.used m && !n.filterable then (s, .valueError)
        else
          -- hook.filter_set = filter_set; init_filter_set(register); register_hook_with_name
          let s := { s with attr := upd s.attr h (some (s.outer m)) }
          let (s, a) := freshSet s
          let s := { s with used := upd s.used m false, proxy := upd s.proxy m a }
          let s := if v = .nonlocalOnly then { s with outer := upd s.outer m a } else s
          (addHook s (s.mDisp m) n h, .ok)
    else (s, .badRef)
  | .registerName m n =>
    if m < s.nM then
      match v with
      | .repaired =>
        let own := s.outer m
        let (s, a) := freshSet s
        let s := { s with outer := upd s.outer m a, proxy := upd s.proxy m a }
        if !(s.heap own).isEmpty && !n.filterable then
          ({ s with nD := s.nD + 1, dM := upd s.dM s.nD m, dName := upd s.dName s.nD n, dDead := upd s.dDead s.nD true,
                    dProxy := upd s.dProxy s.nD own, dOwn := upd s.dOwn s.nD own }, .valueError)
        else
          ({ s with nD := s.nD + 1, dM := upd s.dM s.nD m, dName := upd s.dName s.nD n, dDead := upd s.dDead s.nD false,
                    dProxy := upd s.dProxy s.nD own, dOwn := upd s.dOwn s.nD own }, .okDeco s.nD)
      | _ =>
        if s.used m && !n.filterable then
          ({ s with nD := s.nD + 1, dM := upd s.dM s.nD m, dName := upd s.dName s.nD n, dDead := upd s.dDead s.nD true },
           .valueError)
        else
          -- init_filter_set(decorator): the fresh set is local, only the decorator's proxies see it
          let (s, a) := freshSet s
          let s := { s with used := upd s.used m false }
          let s := if v = .nonlocalOnly then { s with outer := upd s.outer m a } else s
          ({ s with nD := s.nD + 1, dM := upd s.dM s.nD m, dName := upd s.dName s.nD n, dDead := upd s.dDead s.nD false,
                    dProxy := upd s.dProxy s.nD a, dOwn := upd s.dOwn s.nD a }, .okDeco s.nD)
    else (s, .badRef)
  | .decoApply d incl f =>
    if d < s.nD && !s.dDead d then
      proxyWrite s (s.dM d) (if v = .nonlocalOnly then s.outer (s.dM d) else s.dProxy d) incl f
    else (s, .badRef)
  | .decorate d h =>
    if d < s.nD && !s.dDead d then
      match v with
      | .repaired =>
        if !(s.heap (s.dOwn d)).isEmpty && !(s.dName d).filterable then (s, .valueError)
        else (addHook { s with attr := upd s.attr h (some (s.dOwn d)) } (s.mDisp (s.dM d)) (s.dName d) h, .ok)
      | _ =>
        if s.used (s.dM d) && !(s.dName d).filterable then (s, .valueError)
        else
          -- func.filter_set = filter_set  (the OUTER variable, read now)
          (addHook { s with attr := upd s.attr h (some (s.outer (s.dM d))) } (s.mDisp (s.dM d)) (s.dName d) h, .ok)
    else (s, .badRef)
  | .applyHook disp h n => (addHook s disp n h, .ok)
  | .unregister disp h => ({ s with hooks := upd s.hooks disp ((s.hooks disp).filter fun p => p.2 != h) }, .ok)
  | .unregisterAll disp => ({ s with hooks := upd s.hooks disp [] }, .ok)

def run (v : V25) (s : St) : List Op → St
  | [] => s
  | op :: ops => run v (step v s op).1 ops

/-- the answers of the successive calls -/
def outs (v : V25) (s : St) : List Op → List Out
  | [] => []
  | op :: ops => (step v s op).2 :: outs v (step v s op).1 ops

/-- `hook.filter_set` dereferenced: `none` = no attribute -/
def filterOf (s : St) (h : Nat) : Option FS := (s.attr h).map s.heap

/-! ## evaluation against an operation -/

/-- `_should_skip_hook(hook, ctx)`; `o = none` is `ctx.operation is None` -/
def shouldSkip (mt : Nat → Nat → Bool) (s : St) (h : Nat) (o : Option Nat) : Bool :=
  match s.attr h, o with
  | some a, some o => !(s.heap a).matches mt o
  | _, _ => false

/-- `get_all_by_name` -/
def byName (s : St) (disp : Nat) (n : HookName) : List Nat :=
  ((s.hooks disp).filter fun p => p.1 = n).map (·.2)

def actions : List Action := [.beforeGenerate, .filter, .map, .flatmap]

/-- `HookDispatcher.dispatch(name, ctx)`: the hooks called, in order -/
def dispatch (mt : Nat → Nat → Bool) (s : St) (disp : Nat) (n : HookName) (o : Option Nat) : List Nat :=
  (byName s disp n).filter fun h => !shouldSkip mt s h o

/-- `HookDispatcher.apply_to_container(strategy, container, ctx)`: the hooks applied to the strategy, in order -/
def applyToContainer (mt : Nat → Nat → Bool) (s : St) (disp : Nat) (t : Target) (o : Option Nat) :
    List (Action × Nat) :=
  actions.flatMap fun a => (dispatch mt s disp (.gen a t) o).map fun h => (a, h)

/-- `APIOperation.as_strategy._apply_hooks(dispatcher, strategy)` for the `*_case` hooks -/
def applyCaseHooks (v : Variant) (mt : Nat → Nat → Bool) (s : St) (disp : Nat) (o : Nat) : List (Action × Nat) :=
  match v with
  | .asFound => actions.flatMap fun a => (byName s disp (.gen a .case)).map fun h => (a, h)
  | .repaired => applyToContainer mt s disp .case (some o)

/-- `apply_to_all_dispatchers`: GLOBAL (0), the schema's (1), then the test's (2) if present -/
def applyAll (mt : Nat → Nat → Bool) (s : St) (withTest : Bool) (t : Target) (o : Nat) : List (Nat × Action × Nat) :=
  (applyToContainer mt s 0 t (some o)).map (fun p => (0, p)) ++
  (applyToContainer mt s 1 t (some o)).map (fun p => (1, p)) ++
  (if withTest then (applyToContainer mt s 2 t (some o)).map (fun p => (2, p)) else [])

def applyAllCase (v : Variant) (mt : Nat → Nat → Bool) (s : St) (withTest : Bool) (o : Nat) : List (Nat × Action × Nat) :=
  (applyCaseHooks v mt s 0 o).map (fun p => (0, p)) ++
  (applyCaseHooks v mt s 1 o).map (fun p => (1, p)) ++
  (if withTest then (applyCaseHooks v mt s 2 o).map (fun p => (2, p)) else [])

/-! ## AuthStorage -/

/-- a registered provider: `filt = some a` ⇔ wrapped in `SelectiveAuthProvider(provider, <set at a>)` -/
structure Provider where
  cls : Nat
  filt : Option Nat
  deriving Repr, DecidableEq

/-- kinds of filterable handles returned by `register()`, `apply(cls)`, `set_from_requests(auth)` -/
inductive HandleKind where
  | register                  -- wrapper(provider_class) appends to this storage
  | apply (cls : Nat)         -- wrapper(test) creates the test's storage (not modelled further than its provider)
  | requests                  -- provider already appended, always selective
  deriving Repr, DecidableEq

structure AuthSt where
  next : Nat
  heap : Nat → FS
  nH : Nat                            -- handles handed out so far
  hStore : Nat → Nat                  -- handle ↦ storage it belongs to
  hKind : Nat → HandleKind
  hSet : Nat → Nat                    -- handle ↦ its own FilterSet
  providers : Nat → List Provider     -- storage ↦ `providers`
  testStore : Nat → Option Provider   -- test ↦ the provider of the storage `apply` attached (`AuthStorageMark`)

def authInit : AuthSt :=
  { next := 0, heap := fun _ => FS.empty, nH := 0, hStore := fun _ => 0, hKind := fun _ => .register,
    hSet := fun _ => 0, providers := fun _ => [], testStore := fun _ => none }

inductive AuthOp where
  | register (store : Nat)                 -- `storage.register()` / `storage()` → handle `nH`
  | apply (store cls : Nat)                -- `storage.apply(cls)` / `storage(cls)` → handle `nH`
  | setFromRequests (store cls : Nat)      -- `storage.set_from_requests(auth)` → handle `nH`
  | handleApply (hd : Nat) (incl : Bool) (f : Nat)   -- `handle.apply_to(f)` / `handle.skip_for(f)`
  | decorate (hd x : Nat)                  -- `handle(provider_class x)` / `handle(test x)`
  | unregister (store : Nat)
  deriving Repr, DecidableEq

inductive AuthOut where
  | ok | okHandle (hd : Nat) | filterExists | alreadyApplied | notCallable | badRef
  deriving Repr, DecidableEq

/-- `_set_provider`: wrapped in `SelectiveAuthProvider` iff the set is non-empty NOW -/
def mkProvider (s : AuthSt) (cls a : Nat) : Provider :=
  if (s.heap a).isEmpty then ⟨cls, none⟩ else ⟨cls, some a⟩

def newHandle (s : AuthSt) (store : Nat) (k : HandleKind) : AuthSt × Nat :=
  ({ s with next := s.next + 1, heap := upd s.heap s.next FS.empty, nH := s.nH + 1,
            hStore := upd s.hStore s.nH store, hKind := upd s.hKind s.nH k, hSet := upd s.hSet s.nH s.next },
   s.next)

def authStep (s : AuthSt) : AuthOp → AuthSt × AuthOut
  | .register store => ((newHandle s store .register).1, .okHandle s.nH)
  | .apply store cls => ((newHandle s store (.apply cls)).1, .okHandle s.nH)
  | .setFromRequests store cls =>
    let (s', a) := newHandle s store .requests
    ({ s' with providers := upd s'.providers store (s'.providers store ++ [⟨cls, some a⟩]) }, .okHandle s.nH)
  | .handleApply hd incl f =>
    if hd < s.nH then
      match (s.heap (s.hSet hd)).add incl f with
      | none => (s, .filterExists)
      | some v => ({ s with heap := upd s.heap (s.hSet hd) v }, .ok)
    else (s, .badRef)
  | .decorate hd x =>
    if hd < s.nH then
      match s.hKind hd with
      | .register =>
        let st := s.hStore hd
        ({ s with providers := upd s.providers st (s.providers st ++ [mkProvider s x (s.hSet hd)]) }, .ok)
      | .apply cls =>
        match s.testStore x with
        | some _ => (s, .alreadyApplied)
        | none => ({ s with testStore := upd s.testStore x (some (mkProvider s cls (s.hSet hd))) }, .ok)
      | .requests => (s, .notCallable)
    else (s, .badRef)
  | .unregister store => ({ s with providers := upd s.providers store [] }, .ok)

def authRun (s : AuthSt) : List AuthOp → AuthSt
  | [] => s
  | op :: ops => authRun (authStep s op).1 ops

def authOuts (s : AuthSt) : List AuthOp → List AuthOut
  | [] => []
  | op :: ops => (authStep s op).2 :: authOuts (authStep s op).1 ops

/-- `SelectiveAuthProvider.get` returns data iff the filter set matches; an unwrapped provider always does
    (assuming the user's `get` returns non-None data) -/
def providerGets (mt : Nat → Nat → Bool) (s : AuthSt) (p : Provider) (o : Nat) : Bool :=
  match p.filt with
  | none => true
  | some a => (s.heap a).matches mt o

/-- `AuthStorage.set`: the provider whose data is set on the case (first one whose `get` returns data) -/
def authSet (mt : Nat → Nat → Bool) (s : AuthSt) (store : Nat) (o : Nat) : Option Provider :=
  (s.providers store).find? fun p => providerGets mt s p o

/-- `set_on_case(case, context, auth_storage)`: the storage `apply` attached to the test if there is one, else the
    schema's (storage 1) if it has providers, else the global one (storage 0) if it has providers -/
def setOnCase (mt : Nat → Nat → Bool) (s : AuthSt) (test : Option Nat) (o : Nat) : Option Provider :=
  match test.bind s.testStore with
  | some p => if providerGets mt s p o then some p else none
  | none =>
    if !(s.providers 1).isEmpty then authSet mt s 1 o
    else if !(s.providers 0).isEmpty then authSet mt s 0 o
    else none

end SV.Model.C19
