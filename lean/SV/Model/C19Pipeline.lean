/-
  C19, second part of the model: the hook-application loops as *closure-building code* and what the strategy they
  build does when a value is drawn from it.

  Python anchors (src/schemathesis):
    hooks.py   : HookDispatcher.apply_to_container   (four `for hook in self.get_all_by_name(...)` loops)
    schemas.py : APIOperation.as_strategy._apply_hooks (the same four loops for the `*_case` hooks, one call per scope)

      for hook in dispatcher.get_all_by_name("flatmap_case"):
          if _should_skip_hook(hook, context):
              continue
          hook = partial(hook, context)            # the closure handed to Hypothesis
          _strategy = _strategy.flatmap(hook)

  `SV.Model.C19` says which (action, hook) pairs a loop selects.  Here the loops are modelled one level lower:
    * the function that runs the loops has ONE local variable `hook` (`Frame.hookVar`), assigned by every iteration,
      skipped or not, of every one of the four loops;
    * every non-skipped iteration appends a stage whose callee is a closure.  `partial(hook, context)` evaluates the
      variable when the closure is CREATED (`Callee.bound`); a closure that mentions the variable instead
      (`lambda v: hook(context, v)`) evaluates it when it is CALLED, i.e. when Hypothesis draws (`Callee.loopVar`),
      after all loops have run;
    * `Frame.resolve` gives, for every stage, the hook function that really runs at draw time and the context it gets;
    * `denote` is the meaning of the resulting strategy (Hypothesis' `filter` / `map` / `flatmap` as a state-and-failure
      monad over the choice sequence), instrumented with the list of hook calls (hook, context, argument) it makes.
  Core Lean only.
-/
import SV.Model.C19

namespace SV.Model.C19

/-! ## closures built by the loops -/

/-- when the closure handed to `.filter/.map/.flatmap` reads the loop variable `hook` -/
inductive Capture where
  | byValue   -- `partial(hook, context)` (the code as it is)
  | byCell    -- a closure over the variable itself (late binding)
  deriving Repr, DecidableEq

inductive Callee where
  | bound (h : Nat)   -- the hook function is fixed
  | loopVar           -- whatever the enclosing function's variable `hook` holds when the closure is called
  deriving Repr, DecidableEq

/-- one `.filter/.map/.flatmap` call on the strategy (or a `before_generate_*` hook called on the spot) -/
structure Stage where
  act : Action
  callee : Callee
  ctx : Option Nat     -- the `HookContext` the closure captured (`none`: `context.operation is None`)
  deriving Repr, DecidableEq

/-- local state of one run of `apply_to_container` / `_apply_hooks` -/
structure Frame where
  stages : List Stage
  hookVar : Option Nat
  deriving Repr, DecidableEq

/-- `before_generate_*` hooks are called inside the loop (`strategy = hook(context, strategy)`), the other three are
    wrapped in a closure -/
def closureFor (cap : Capture) (a : Action) (h : Nat) : Callee :=
  match a, cap with
  | .beforeGenerate, _ => .bound h
  | _, .byValue => .bound h
  | _, .byCell => .loopVar

/-- one iteration of `for hook in get_all_by_name(name): if _should_skip_hook(hook, context): continue; …`;
    `skips = false` is the F26 snapshot of `_apply_hooks`, which had no skip test -/
def loopBody (cap : Capture) (skips : Bool) (mt : Nat → Nat → Bool) (s : St) (o : Option Nat) (a : Action)
    (fr : Frame) (h : Nat) : Frame :=
  if skips && shouldSkip mt s h o then { fr with hookVar := some h }
  else { stages := fr.stages ++ [⟨a, closureFor cap a h, o⟩], hookVar := some h }

def forLoop (cap : Capture) (skips : Bool) (mt : Nat → Nat → Bool) (s : St) (disp : Nat) (t : Target) (o : Option Nat)
    (fr : Frame) (a : Action) : Frame :=
  (byName s disp (.gen a t)).foldl (loopBody cap skips mt s o a) fr

/-- the four loops, in the order of the source -/
def frameOf (cap : Capture) (skips : Bool) (mt : Nat → Nat → Bool) (s : St) (disp : Nat) (t : Target) (o : Option Nat) :
    Frame :=
  actions.foldl (forLoop cap skips mt s disp t o) ⟨[], none⟩

/-- what every stage calls when the strategy is drawn from: (action, hook function, operation of its context) -/
def Frame.resolve (fr : Frame) : List (Action × Nat × Option Nat) :=
  fr.stages.filterMap fun st =>
    match st.callee with
    | .bound h => some (st.act, h, st.ctx)
    | .loopVar => fr.hookVar.map fun h => (st.act, h, st.ctx)

/-- does this application site test `_should_skip_hook`? (`apply_to_container` always; `_apply_hooks` since F26) -/
def skipsFor (v : Variant) (t : Target) : Bool := t != .case || v == .repaired

/-- the scopes consulted: GLOBAL (0), the schema's (1), the test's (2) if a dispatcher was passed -/
def scopes (withTest : Bool) : List Nat := if withTest then [0, 1, 2] else [0, 1]

/-- `apply_to_all_dispatchers(operation, HookContext(operation), hooks, strategy, container)` for a container,
    `APIOperation.as_strategy(hooks=…)` for `case`: all stages put on the strategy, tagged with the scope -/
def stagesOf (cap : Capture) (v : Variant) (mt : Nat → Nat → Bool) (s : St) (withTest : Bool) (t : Target) (o : Nat) :
    List (Nat × Action × Nat × Option Nat) :=
  (scopes withTest).flatMap fun d => (frameOf cap (skipsFor v t) mt s d t (some o)).resolve.map fun x => (d, x)

/-- `BaseSchema.dispatch_hook(name, context, …)`: `dispatch` on the GLOBAL dispatcher, the schema's, then the one of the
    test function the schema is bound to, if it has one; (scope, hook) in call order -/
def dispatchAll (mt : Nat → Nat → Bool) (s : St) (withTest : Bool) (n : HookName) (o : Option Nat) : List (Nat × Nat) :=
  (scopes withTest).flatMap fun d => (dispatch mt s d n o).map fun h => (d, h)

/-! ## meaning of the strategy -/

/-- a hook function being called -/
structure Call (α : Type) where
  act : Action
  hook : Nat
  ctx : Option Nat
  arg : α
  deriving Repr, DecidableEq

/-- a strategy: choice sequence ↦ (hook calls made, drawn value and remaining choices | rejected) -/
abbrev Strat (α : Type) := List Nat → List (Call α) × Option (α × List Nat)

def sPure {α : Type} (v : α) : Strat α := fun cs => ([], some (v, cs))

/-- `strategy.filter(partial(hook, context))` -/
def sFilter {α : Type} (h : Nat) (c : Option Nat) (p : α → Bool) (st : Strat α) : Strat α := fun cs =>
  match st cs with
  | (log, some (v, rest)) => (log ++ [⟨.filter, h, c, v⟩], if p v then some (v, rest) else none)
  | (log, none) => (log, none)

/-- `strategy.map(partial(hook, context))` -/
def sMap {α : Type} (h : Nat) (c : Option Nat) (f : α → α) (st : Strat α) : Strat α := fun cs =>
  match st cs with
  | (log, some (v, rest)) => (log ++ [⟨.map, h, c, v⟩], some (f v, rest))
  | (log, none) => (log, none)

/-- `strategy.flatmap(partial(hook, context))`: the hook returns a strategy, which is drawn from -/
def sFlatmap {α : Type} (h : Nat) (c : Option Nat) (f : α → Strat α) (st : Strat α) : Strat α := fun cs =>
  match st cs with
  | (log, some (v, rest)) => (log ++ [⟨.flatmap, h, c, v⟩] ++ (f v rest).1, (f v rest).2)
  | (log, none) => (log, none)

/-- what the user's hook functions do (arbitrary) -/
structure Interp (α : Type) where
  filt : Nat → Option Nat → α → Bool
  map : Nat → Option Nat → α → α
  flat : Nat → Option Nat → α → Strat α
  bg : Nat → Option Nat → Strat α → Strat α

def applyStage {α : Type} (I : Interp α) (st : Strat α) (x : Action × Nat × Option Nat) : Strat α :=
  match x with
  | (.beforeGenerate, h, c) => I.bg h c st
  | (.filter, h, c) => sFilter h c (I.filt h c) st
  | (.map, h, c) => sMap h c (I.map h c) st
  | (.flatmap, h, c) => sFlatmap h c (I.flat h c) st

/-- the strategy obtained by putting the stages on `base`, first stage innermost -/
def denote {α : Type} (I : Interp α) (xs : List (Action × Nat × Option Nat)) (base : Strat α) : Strat α :=
  xs.foldl (applyStage I) base

/-- the stages that make calls at draw time -/
def drawStages (xs : List (Action × Nat × Option Nat)) : List (Action × Nat × Option Nat) :=
  xs.filter fun x => x.1 != .beforeGenerate

/-- the hooks that change the value (in the order they do) -/
def valueStages (xs : List (Action × Nat × Option Nat)) : List Nat :=
  (xs.filter fun x => x.1 == .map || x.1 == .flatmap).map (·.2.1)

def Call.key {α : Type} (c : Call α) : Action × Nat × Option Nat := (c.act, c.hook, c.ctx)

/-- the hooks of the correspondence harness: values are the list of `map` / `flatmap` hooks applied so far; filters
    accept; `before_generate` hooks return the strategy they got -/
def probe : Interp (List Nat) :=
  { filt := fun _ _ _ => true, map := fun h _ v => v ++ [h], flat := fun h _ v => sPure (v ++ [h]), bg := fun _ _ st => st }

end SV.Model.C19
