/-
  Model of the GraphQL operation index, selection, lookup cache and strategy request (C20).
  Python anchors (src/schemathesis):
    specs/graphql/schemas.py : GraphQLSchema.__iter__, _get_operation_map, _measure_statistic, get_all_operations,
                               _should_skip, _build_operation, FieldMap.__len__/__iter__/_init_operation/__getitem__,
                               graphql_cases (strategy factory choice + keyword arguments)
    specs/graphql/_cache.py  : OperationCache (get_map / insert_map / get_operation / insert_operation)
    specs/graphql/scalars.py : CUSTOM_SCALARS, get_extra_scalar_strategies (here only the `{**extra, **CUSTOM}` merge; the
                               nine strategies, their value spaces and `scalar()` are in SV/Model/C20Scalars.lean)
    filters.py               : get_operation_attribute, by_value, by_value_list, by_regex, Filter.match, FilterSet.match
    transport/prepare.py     : prepare_body
    graphql-core             : build_client_schema's `{t["name"]: build(t) for t in types}` (last entry wins) and
                               `{f["name"]: … for f in fields}` (first position kept) — contract, see `client`.
  Not modelled: hypothesis-graphql (the generator), regular expressions beyond `^?literal$?`, `operation_id=` filters
  (they raise AttributeError on GraphQL operations), hooks applied to the body strategy.
  Core Lean only.
-/
import SV.Json

namespace SV.Model.C20

abbrev Name := List Char

/-- `RootType` -/
inductive Root where
  | query | mutation
  deriving DecidableEq, Repr

/-- one entry of `raw_schema["__schema"]["types"]` of kind OBJECT: its name and the names of its fields, in order -/
structure TypeDef where
  name : Name
  fields : List Name
  deriving DecidableEq, Repr

/-- `raw_schema["__schema"]`: `queryType.name`, `mutationType.name` (absent / null = none), `types` -/
structure Raw where
  queryType : Option Name
  mutationType : Option Name
  types : List TypeDef
  deriving Repr

/-! ## graphql-core's view of the raw schema (`client_schema`) -/

/-- `{t["name"]: t for t in types}[n]`: the **last** entry named `n` -/
def typeMapGet : List TypeDef → Name → Option TypeDef
  | [], _ => none
  | t :: ts, n =>
    match typeMapGet ts n with
    | some r => some r
    | none => if t.name == n then some t else none

/-- keys of `{f: … for f in fields}`: first occurrence keeps its position -/
def dedupAux (seen : List Name) : List Name → List Name
  | [] => []
  | x :: xs => if seen.contains x then dedupAux seen xs else x :: dedupAux (x :: seen) xs

def dedup (xs : List Name) : List Name := dedupAux [] xs

/-- `client_schema.query_type` / `.mutation_type` with their `fields` mapping (keys only) -/
structure Client where
  query : Option TypeDef
  mutation : Option TypeDef
  deriving Repr, DecidableEq

def clientType (types : List TypeDef) (n : Option Name) : Option TypeDef :=
  match n with
  | none => none
  | some n => match typeMapGet types n with
    | none => none                       -- graphql-core raises here; never generated (see harness)
    | some t => some ⟨t.name, dedup t.fields⟩

def client (r : Raw) : Client := ⟨clientType r.types r.queryType, clientType r.types r.mutationType⟩

/-! ## operations and what filters see of them -/

/-- `APIOperation` as far as this property is concerned: `definition.root_type`, `definition.type_.name`,
    `definition.field_name` -/
structure Op where
  root : Root
  typeName : Name
  field : Name
  deriving DecidableEq, Repr

/-- `f"{operation_type.name}.{field_name}"` -/
def mkLabel (typeName field : Name) : Name := typeName ++ '.' :: field

def Op.label (o : Op) : Name := mkLabel o.typeName o.field

/-- the attributes of `ctx.operation` a matcher can read -/
structure OpView where
  label : Name
  method : Name          -- always "POST"
  path : Name            -- `schema.base_path`
  deriving Repr, DecidableEq

def POST : Name := "POST".toList

def viewOf (basePath : Name) (label : Name) : OpView := ⟨label, POST, basePath⟩

inductive Attr where
  | label | method | path | tag
  deriving DecidableEq, Repr

def upper (s : Name) : Name := s.map Char.toUpper
def lower (s : Name) : Name := s.map Char.toLower

/-- `get_operation_attribute`; `tag` is `schema.get_tags(operation)` = `None` for GraphQL -/
def attrValue (a : Attr) (v : OpView) : Option Name :=
  match a with
  | .label => some v.label
  | .method => some (upper v.method)
  | .path => some v.path
  | .tag => none

/-- `needle in haystack` -/
def isInfix (needle : Name) : Name → Bool
  | [] => needle.isEmpty
  | x :: xs => needle.isPrefixOf (x :: xs) || isInfix needle xs

/-- `re.search(("^" if pre else "") + re.escape(lit) + ("$" if post else ""), s)` on text without newlines -/
def searchLit (pre post : Bool) (lit s : Name) : Bool :=
  match pre, post with
  | true, true => s == lit
  | true, false => lit.isPrefixOf s
  | false, true => lit.isSuffixOf s
  | false, false => isInfix lit s

/-- `Matcher` (for_value with a string / with a list, for_regex on the literal fragment, for_function) -/
inductive Matcher where
  | value (a : Attr) (expected : Name)
  | valueList (a : Attr) (expected : List Name)
  | regex (a : Attr) (pre post : Bool) (lit : Name)
  | func (f : OpView → Bool)

/-- `_normalize_method` (applied by `_add_filter` to `method=` values only) -/
def normExpected (a : Attr) (s : Name) : Name := if a = .method then upper s else s

/-- `by_value` / `by_value_list` / `by_regex` (IGNORECASE for `method_regex`) / the user function -/
def Matcher.matches (m : Matcher) (v : OpView) : Bool :=
  match m with
  | .value a e => match attrValue a v with
    | none => false
    | some x => x == normExpected a e
  | .valueList a es => match attrValue a v with
    | none => false
    | some x => (es.map (normExpected a)).contains x
  | .regex a pre post lit => match attrValue a v with
    | none => false
    | some x => if a = .method then searchLit pre post (lower lit) (lower x) else searchLit pre post lit x
  | .func f => f v

/-- `Filter.match`: all matchers -/
def filterMatch (f : List Matcher) (v : OpView) : Bool := f.all (·.matches v)

structure FilterSet where
  includes : List (List Matcher)
  excludes : List (List Matcher)

/-- the `for filter_ in self._excludes` loop -/
def excludedBy : List (List Matcher) → OpView → Bool
  | [], _ => false
  | f :: fs, v => if filterMatch f v then true else excludedBy fs v

/-- `FilterSet.match` -/
def FilterSet.matchView (F : FilterSet) (v : OpView) : Bool :=
  if excludedBy F.excludes v then false
  else if F.includes.isEmpty then true
  else F.includes.any (filterMatch · v)

/-- `_should_skip` -/
def shouldSkip (F : FilterSet) (basePath label : Name) : Bool := !(F.matchView (viewOf basePath label))

/-! ## get_all_operations -/

/-- the inner `for field_name, field_ in operation_type.fields.items()` loop -/
def opsOfType (F : FilterSet) (basePath : Name) (root : Root) (typeName : Name) : List Name → List Op
  | [] => []
  | f :: fs =>
    let op : Op := ⟨root, typeName, f⟩
    if shouldSkip F basePath op.label then opsOfType F basePath root typeName fs
    else op :: opsOfType F basePath root typeName fs

def opsOfRoot (F : FilterSet) (basePath : Name) (root : Root) : Option TypeDef → List Op
  | none => []
  | some t => opsOfType F basePath root t.name t.fields

/-- `get_all_operations` -/
def getAllOperations (c : Client) (F : FilterSet) (basePath : Name) : List Op :=
  opsOfRoot F basePath .query c.query ++ opsOfRoot F basePath .mutation c.mutation

/-! ## _measure_statistic (works on the raw introspection JSON) -/

structure Stat where
  total : Nat
  selected : Nat
  deriving DecidableEq, Repr

/-- `for field in type_def["fields"]` -/
def statFields (F : FilterSet) (basePath typeName : Name) : List Name → Stat → Stat
  | [], s => s
  | f :: fs, s =>
    let s1 : Stat := ⟨s.total + 1, s.selected⟩
    let s2 : Stat := if shouldSkip F basePath (mkLabel typeName f) then s1 else ⟨s1.total, s1.selected + 1⟩
    statFields F basePath typeName fs s2

/-- `for type_def in raw_schema.get("types", [])` -/
def statTypes (F : FilterSet) (basePath typeName : Name) : List TypeDef → Stat → Stat
  | [], s => s
  | t :: ts, s =>
    if t.name == typeName then statTypes F basePath typeName ts (statFields F basePath typeName t.fields s)
    else statTypes F basePath typeName ts s

def statRoot (F : FilterSet) (basePath : Name) (types : List TypeDef) : Option Name → Stat → Stat
  | none, s => s
  | some n, s => statTypes F basePath n types s

/-- `_measure_statistic().operations` -/
def measureStatistic (r : Raw) (F : FilterSet) (basePath : Name) : Stat :=
  statRoot F basePath r.types r.mutationType (statRoot F basePath r.types r.queryType ⟨0, 0⟩)

/-! ## schema[T][f]: `_get_operation_map`, `FieldMap._init_operation`, `OperationCache` -/

inductive Variant where
  | asFound      -- operation cache keyed by the field name only (pinned snapshot)
  | repaired     -- operation cache keyed by (root type name, field name)
  deriving DecidableEq, Repr

/-- the `FieldMap` behind an `APIOperationMap`: (`_root_type`, `_operation_type`) -/
structure FieldMap where
  root : Root
  type : TypeDef
  deriving DecidableEq, Repr

abbrev OpKey := Name × Name

structure Cache where
  maps : List (Name × FieldMap)        -- `_maps`, newest first
  ops : List (OpKey × Op)              -- `_operations`, newest first
  deriving Repr, DecidableEq

def Cache.empty : Cache := ⟨[], []⟩

def assocGet {α β : Type} [DecidableEq α] (k : α) : List (α × β) → Option β
  | [] => none
  | (k', v) :: rest => if k' = k then some v else assocGet k rest

/-- key under which `_init_operation` reads and writes the operation cache -/
def opKey (v : Variant) (typeName field : Name) : OpKey :=
  match v with
  | .asFound => ([], field)
  | .repaired => (typeName, field)

inductive Result where
  | ok (op : Op)
  | typeNotFound       -- `OperationNotFound` from `on_missing_operation`
  | fieldNotFound      -- `KeyError` from `FieldMap.__getitem__`
  deriving DecidableEq, Repr

/-- the `for root_type, operation_type in ((QUERY, query_type), (MUTATION, mutation_type))` search -/
def findRoot (c : Client) (key : Name) : Option FieldMap :=
  match c.query with
  | some t => if t.name == key then some ⟨.query, t⟩ else
    match c.mutation with
    | some m => if m.name == key then some ⟨.mutation, m⟩ else none
    | none => none
  | none =>
    match c.mutation with
    | some m => if m.name == key then some ⟨.mutation, m⟩ else none
    | none => none

/-- `_get_operation_map` -/
def getOperationMap (c : Client) (st : Cache) (key : Name) : Cache × Option FieldMap :=
  match assocGet key st.maps with
  | some m => (st, some m)
  | none =>
    match findRoot c key with
    | some m => (⟨(key, m) :: st.maps, st.ops⟩, some m)
    | none => (st, none)

/-- `FieldMap._init_operation` -/
def initOperation (v : Variant) (st : Cache) (m : FieldMap) (field : Name) : Cache × Result :=
  match assocGet (opKey v m.type.name field) st.ops with
  | some op => (st, .ok op)
  | none =>
    if m.type.fields.contains field then
      let op : Op := ⟨m.root, m.type.name, field⟩
      (⟨st.maps, (opKey v m.type.name field, op) :: st.ops⟩, .ok op)
    else (st, .fieldNotFound)

/-- `schema[typeName][field]` -/
def lookup (v : Variant) (c : Client) (st : Cache) (q : Name × Name) : Cache × Result :=
  match getOperationMap c st q.1 with
  | (st', none) => (st', .typeNotFound)
  | (st', some m) => initOperation v st' m q.2

/-- a whole history of lookups on one schema object -/
def runLookups (v : Variant) (c : Client) : Cache → List (Name × Name) → List Result
  | _, [] => []
  | st, q :: qs => let r := lookup v c st q; r.2 :: runLookups v c r.1 qs

/-- `list(schema)` -/
def iterSchema (c : Client) : List Name :=
  (match c.query with | some t => [t.name] | none => []) ++ (match c.mutation with | some t => [t.name] | none => [])

/-! ## graphql_cases: what is asked of hypothesis-graphql -/

structure GenConfig where
  allowX00 : Bool
  allowNull : Bool            -- `graphql_allow_null`
  codec : Option Name
  deriving DecidableEq, Repr

/-- `{**a, **b}`: keys of `a` in order (values from `b` when present), then the keys only in `b` -/
def overrideEntry {β : Type} (b : List (Name × β)) (p : Name × β) : Name × β :=
  match assocGet p.1 b with
  | some y => (p.1, y)
  | none => p

def dictMerge {β : Type} (a b : List (Name × β)) : List (Name × β) :=
  a.map (overrideEntry b) ++ b.filter (fun p => (assocGet p.1 a).isNone)

/-- the call `strategy_factory(client_schema, fields=[…], custom_scalars=…, allow_x00=…, allow_null=…, codec=…)` -/
structure StrategyCall (β : Type) where
  factory : Root              -- `gql_st.queries` | `gql_st.mutations`
  fields : List Name
  scalars : List (Name × β)
  allowX00 : Bool
  allowNull : Bool
  codec : Option Name

def strategyCall {β : Type} (op : Op) (cfg : GenConfig) (extra custom : List (Name × β)) : StrategyCall β :=
  ⟨op.root, [op.field], dictMerge extra custom, cfg.allowX00, cfg.allowNull, cfg.codec⟩

/-! ## prepare_body -/

inductive Body where
  | notSet
  | bytes (b : List Nat)
  | text (s : Name)            -- the printed document
  | other (j : Json)
  deriving Repr

inductive Payload where
  | notSet
  | bytes (b : List Nat)
  | json (j : Json)
  deriving Repr

def bodyJson : Body → Json
  | .text s => .str (String.ofList s)
  | .other j => j
  | _ => .null

/-- `prepare_body` for a GraphQL schema -/
def prepareBody : Body → Payload
  | .notSet => .notSet
  | .bytes b => .bytes b
  | b => .json (.obj [("query", bodyJson b)])

end SV.Model.C20
