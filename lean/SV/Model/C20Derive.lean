/-
  C20 / C19 — filtered schemas derived from one another (`schema.include(...)`, `schema.exclude(...)`).

  `BaseSchema.include` clones the schema's `FilterSet` and adds the new filter to the clone.  `FilterSet` keeps its
  include and exclude filters in two mutable sets; whether `clone` copies them decides whether a child shares its parent's
  storage.  Modelled with an explicit heap: a cell holds the filters (numbers) of one mutable set.
-/
namespace SV.Model.C20Derive

abbrev Heap := List (List Nat)

/-- a `FilterSet`: the addresses of its include / exclude cells -/
structure FS where
  inc : Nat
  exc : Nat
  deriving DecidableEq, Repr

def readCell (h : Heap) (a : Nat) : List Nat := (h[a]?).getD []

inductive CloneMode where
  | copyBoth        -- the tree: `FilterSet(_includes=self._includes.copy(), _excludes=self._excludes.copy())`
  | shareIncludes   -- `_includes=self._includes`
  deriving DecidableEq, Repr

/-- `FilterSet.clone` -/
def clone (m : CloneMode) (h : Heap) (fs : FS) : Heap × FS :=
  match m with
  | .copyBoth => (h ++ [readCell h fs.inc, readCell h fs.exc], ⟨h.length, h.length + 1⟩)
  | .shareIncludes => (h ++ [readCell h fs.exc], ⟨fs.inc, h.length⟩)

def addTo (h : Heap) (a : Nat) (f : Nat) : Heap := h.set a (readCell h a ++ [f])

/-- one derivation: `child = parent.include(f)` (`isInclude`) or `parent.exclude(f)` -/
structure Derive where
  parent : FS
  isInclude : Bool
  filter : Nat
  deriving Repr

def derive (m : CloneMode) (h : Heap) (d : Derive) : Heap × FS :=
  let (h', c) := clone m h d.parent
  (addTo h' (if d.isInclude then c.inc else c.exc) d.filter, c)

/-- a history of derivations; each may start from any schema that exists at that point (the harness supplies the
    parents, which are results of earlier derivations or the root) -/
def deriveAll (m : CloneMode) (h : Heap) : List Derive → Heap
  | [] => h
  | d :: rest => deriveAll m (derive m h d).1 rest

/-- the filters a schema sees: (includes, excludes) -/
def view (h : Heap) (fs : FS) : List Nat × List Nat := (readCell h fs.inc, readCell h fs.exc)

end SV.Model.C20Derive
