/-
  Model of the built-in ("extra") GraphQL scalar strategies of schemathesis (C20, value spaces).
  Python anchors:
    src/schemathesis/specs/graphql/scalars.py : get_extra_scalar_strategies (the nine entries, their Hypothesis base
                                                strategies, bounds and `.map` chains)
    src/schemathesis/specs/graphql/nodes.py   : `Int`, `String` (re-exports of hypothesis_graphql.nodes)
    hypothesis_graphql/nodes.py               : Int(value) = IntValueNode(value=str(value)),
                                                String(value) = StringValueNode(value=str(value))
    CPython                                   : str(int), str(datetime.date), str(datetime.time), "%sZ" % x, "T".join,
                                                str(ipaddress.IPv4Address/IPv6Address) (incl. `_compress_hextets`),
                                                str(uuid.UUID)
    Hypothesis                                : the supports of integers(min,max), dates(), times(), ip_addresses(v),
                                                uuids() (contract: every value inside the support can be drawn)
  A strategy is described by a `ScalarGen`; the Python value Hypothesis draws by a `Drawn`; `render g d` is the AST node
  the mapped strategy `g` yields when the base strategy draws `d` (`none`: `d` lies outside the support of `g`).
  Core Lean only.
-/
import SV.Model.C20

namespace SV.Model.C20

/-! ## leaf value nodes -/

/-- a leaf `graphql.ValueNode` as far as scalars are concerned -/
inductive ValueNode where
  | int (text : List Char)      -- `IntValueNode(value=text)`; `print_ast` prints `text` verbatim
  | str (value : List Char)     -- `StringValueNode(value=value)`
  | null                        -- `NullValueNode`
  | other                       -- float / boolean / enum / list / object / variable
  deriving DecidableEq, Repr

/-! ## text utilities (decimal / hexadecimal, Python's `str.split`) -/

def digitChar : Nat → Char
  | 0 => '0' | 1 => '1' | 2 => '2' | 3 => '3' | 4 => '4'
  | 5 => '5' | 6 => '6' | 7 => '7' | 8 => '8' | _ => '9'

def hexChar : Nat → Char
  | 10 => 'a' | 11 => 'b' | 12 => 'c' | 13 => 'd' | 14 => 'e' | 15 => 'f'
  | d => digitChar d

def isDigit (c : Char) : Bool := 48 ≤ c.toNat && c.toNat ≤ 57
def digitVal (c : Char) : Nat := c.toNat - 48

def isHexDigit (c : Char) : Bool :=
  isDigit c || (97 ≤ c.toNat && c.toNat ≤ 102) || (65 ≤ c.toNat && c.toNat ≤ 70)

def hexVal (c : Char) : Nat :=
  if isDigit c then digitVal c else if 97 ≤ c.toNat then c.toNat - 87 else c.toNat - 55

/-- value of a digit string (Horner) -/
def natVal (t : List Char) : Nat := t.foldl (fun a c => 10 * a + digitVal c) 0
def hexNatVal (t : List Char) : Nat := t.foldl (fun a c => 16 * a + hexVal c) 0

/-- `t.split(sep)` -/
def splitOn (sep : Char) : List Char → List (List Char)
  | [] => [[]]
  | c :: cs =>
    if c = sep then [] :: splitOn sep cs
    else match splitOn sep cs with
      | g :: gs => (c :: g) :: gs
      | [] => [[c]]

/-- `str(n)` for `n ≥ 0`, fuel-indexed (`fuel > n` is plenty) -/
def natTextF : Nat → Nat → List Char
  | 0, _ => []
  | f + 1, n => if n < 10 then [digitChar n] else natTextF f (n / 10) ++ [digitChar (n % 10)]

def natText (n : Nat) : List Char := natTextF (n + 1) n

/-- `str(i)` for a Python `int` -/
def intText : Int → List Char
  | .ofNat n => natText n
  | .negSucc n => '-' :: natText (n + 1)

/-- `'%x' % h` for a 16-bit group -/
def hextetText (h : Nat) : List Char :=
  if h < 16 then [hexChar h]
  else if h < 256 then [hexChar (h / 16), hexChar (h % 16)]
  else if h < 4096 then [hexChar (h / 256), hexChar (h / 16 % 16), hexChar (h % 16)]
  else [hexChar (h / 4096 % 16), hexChar (h / 256 % 16), hexChar (h / 16 % 16), hexChar (h % 16)]

/-- `'%02d' % n`, `'%04d' % n`, `'%06d' % n` for `n` below 10², 10⁴, 10⁶ -/
def pad2 (n : Nat) : List Char := [digitChar (n / 10 % 10), digitChar (n % 10)]
def pad4 (n : Nat) : List Char :=
  [digitChar (n / 1000 % 10), digitChar (n / 100 % 10), digitChar (n / 10 % 10), digitChar (n % 10)]
def pad6 (n : Nat) : List Char :=
  [digitChar (n / 100000 % 10), digitChar (n / 10000 % 10), digitChar (n / 1000 % 10),
   digitChar (n / 100 % 10), digitChar (n / 10 % 10), digitChar (n % 10)]

/-! ## CPython renderings -/

/-- `calendar`: proleptic Gregorian leap years, days per month (`datetime._days_in_month`) -/
def isLeap (y : Nat) : Bool := y % 4 == 0 && (y % 100 != 0 || y % 400 == 0)

def daysInMonth (y m : Nat) : Nat :=
  match m with
  | 2 => if isLeap y then 29 else 28
  | 4 => 30 | 6 => 30 | 9 => 30 | 11 => 30
  | _ => 31

/-- `str(datetime.date(y, m, d))` = `"%04d-%02d-%02d"` -/
def dateText (y m d : Nat) : List Char := pad4 y ++ '-' :: pad2 m ++ '-' :: pad2 d

/-- `str(datetime.time(h, mi, s, us))`: microseconds only when non-zero -/
def timeText (h mi s us : Nat) : List Char :=
  pad2 h ++ ':' :: pad2 mi ++ ':' :: pad2 s ++ (if us = 0 then [] else '.' :: pad6 us)

/-- `"%sZ" % t` -/
def timeZText (h mi s us : Nat) : List Char := timeText h mi s us ++ ['Z']

/-- `str(ipaddress.IPv4Address(n))` -/
def ipv4Text (n : Nat) : List Char :=
  natText (n / 16777216 % 256) ++ '.' :: natText (n / 65536 % 256) ++ '.' :: natText (n / 256 % 256) ++
    '.' :: natText (n % 256)

/-- the eight 16-bit groups of a 128-bit address, most significant first -/
def hextets (n : Nat) : List Nat :=
  [n / 2 ^ 112 % 65536, n / 2 ^ 96 % 65536, n / 2 ^ 80 % 65536, n / 2 ^ 64 % 65536,
   n / 2 ^ 48 % 65536, n / 2 ^ 32 % 65536, n / 2 ^ 16 % 65536, n % 65536]

/-- state of the scan in `IPv6Address._compress_hextets`: (best start, best length, current start, current length),
    starts are `none` for Python's `-1` -/
structure ZeroRun where
  bestStart : Nat
  bestLen : Nat
  curStart : Option Nat
  curLen : Nat

/-- the loop of `_compress_hextets` over the flags `hextet == '0'` -/
def scanZeros : List Bool → Nat → ZeroRun → ZeroRun
  | [], _, st => st
  | z :: zs, i, st =>
    if z then
      let len := st.curLen + 1
      let start := match st.curStart with | some s => s | none => i
      if len > st.bestLen then scanZeros zs (i + 1) ⟨start, len, some start, len⟩
      else scanZeros zs (i + 1) ⟨st.bestStart, st.bestLen, some start, len⟩
    else scanZeros zs (i + 1) ⟨st.bestStart, st.bestLen, none, 0⟩

/-- the pieces `_compress_hextets` returns for the group texts `texts` whose zero flags are `zs` -/
def compressParts {α : Type} (empty : α) (zs : List Bool) (texts : List α) : List α :=
  let run := scanZeros zs 0 ⟨0, 0, none, 0⟩
  if run.bestLen > 1 then
    let stop := run.bestStart + run.bestLen
    let mid : List α := if stop = zs.length then [empty, empty] else [empty]
    let parts := texts.take run.bestStart ++ mid ++ texts.drop stop
    if run.bestStart = 0 then empty :: parts else parts
  else texts

/-- `":".join(parts)` -/
def joinColon : List (List Char) → List Char
  | [] => []
  | [p] => p
  | p :: ps => p ++ ':' :: joinColon ps

/-- `str(ipaddress.IPv6Address(n))` (CPython 3.12: RFC 5952 compression of the longest run of ≥ 2 zero groups,
    leftmost on ties; no dotted tail) -/
def ipv6Text (n : Nat) : List Char :=
  let hs := hextets n
  joinColon (compressParts [] (hs.map (· == 0)) (hs.map hextetText))

/-- the `i`-th (0 = most significant) of the 32 hexadecimal digits of a 128-bit number: `('%032x' % n)[i]` -/
def hexDigitAt (n i : Nat) : Char := hexChar (n / 16 ^ (31 - i) % 16)

def hexSeg (n start len : Nat) : List Char := (List.range len).map fun j => hexDigitAt n (start + j)

/-- `str(uuid.UUID(int=n))` -/
def uuidText (n : Nat) : List Char :=
  hexSeg n 0 8 ++ '-' :: hexSeg n 8 4 ++ '-' :: hexSeg n 12 4 ++ '-' :: hexSeg n 16 4 ++ '-' :: hexSeg n 20 12

/-! ## strategies -/

inductive IpVersion where
  | v4 | v6
  deriving DecidableEq, Repr

/-- the shapes of strategy `get_extra_scalar_strategies` builds -/
inductive ScalarGen where
  | ints (lo hi : Option Int)        -- `st.integers(min_value=lo, max_value=hi).map(nodes.Int)`
  | dates                            -- `st.dates().map(str).map(nodes.String)`
  | times                            -- `st.times().map("%sZ".__mod__).map(nodes.String)`
  | dateTimes                        -- `st.tuples(dates, times).map("T".join).map(nodes.String)`
  | ips (v : Option IpVersion)       -- `st.ip_addresses(v=…).map(str).map(nodes.String)`
  | uuids                            -- `st.uuids().map(str).map(nodes.String)`
  deriving DecidableEq, Repr

/-- what the base Hypothesis strategy draws -/
inductive Drawn where
  | int (n : Int)
  | date (y m d : Nat)
  | time (h mi s us : Nat)
  | dateTime (y m d h mi s us : Nat)
  | ip4 (n : Nat)
  | ip6 (n : Nat)
  | uuid (n : Nat)
  deriving DecidableEq, Repr

/-- support of `st.integers(min_value, max_value)` (both ends inclusive, `None` = unbounded) -/
def inRange (lo hi : Option Int) (n : Int) : Bool :=
  (match lo with | none => true | some l => decide (l ≤ n)) &&
  (match hi with | none => true | some h => decide (n ≤ h))

/-- support of `st.dates()`: `date.min … date.max` -/
def validDate (y m d : Nat) : Bool :=
  decide (1 ≤ y) && decide (y ≤ 9999) && decide (1 ≤ m) && decide (m ≤ 12) && decide (1 ≤ d) &&
  decide (d ≤ daysInMonth y m)

/-- support of `st.times()`: `time.min … time.max` (naive) -/
def validTime (h mi s us : Nat) : Bool :=
  decide (h ≤ 23) && decide (mi ≤ 59) && decide (s ≤ 59) && decide (us ≤ 999999)

def renderInts (lo hi : Option Int) (n : Int) : Option ValueNode :=
  if inRange lo hi n then some (.int (intText n)) else none

def renderDate (y m d : Nat) : Option ValueNode :=
  if validDate y m d then some (.str (dateText y m d)) else none

def renderTime (h mi s us : Nat) : Option ValueNode :=
  if validTime h mi s us then some (.str (timeZText h mi s us)) else none

def renderDateTime (y m d h mi s us : Nat) : Option ValueNode :=
  if validDate y m d && validTime h mi s us then some (.str (dateText y m d ++ 'T' :: timeZText h mi s us))
  else none

def renderIp4 (n : Nat) : Option ValueNode := if n < 2 ^ 32 then some (.str (ipv4Text n)) else none
def renderIp6 (n : Nat) : Option ValueNode := if n < 2 ^ 128 then some (.str (ipv6Text n)) else none
def renderUuid (n : Nat) : Option ValueNode := if n < 2 ^ 128 then some (.str (uuidText n)) else none

/-- the node the mapped strategy yields for a base draw; `none` when the draw is outside the strategy's support -/
def render (g : ScalarGen) (d : Drawn) : Option ValueNode :=
  match g with
  | .ints lo hi => (match d with | .int n => renderInts lo hi n | _ => none)
  | .dates => (match d with | .date y m dd => renderDate y m dd | _ => none)
  | .times => (match d with | .time h mi s us => renderTime h mi s us | _ => none)
  | .dateTimes => (match d with | .dateTime y m dd h mi s us => renderDateTime y m dd h mi s us | _ => none)
  | .ips v =>
    (match d with
     | .ip4 n => if v = some .v6 then none else renderIp4 n
     | .ip6 n => if v = some .v4 then none else renderIp6 n
     | _ => none)
  | .uuids => (match d with | .uuid n => renderUuid n | _ => none)

/-- `-(2**63)` and `2**63 - 1` -/
def longMin : Int := -9223372036854775808
def longMax : Int := 9223372036854775807

private def nm (s : String) : Name := s.toList

/-- `get_extra_scalar_strategies()`: the dict, in order -/
def extraScalars : List (Name × ScalarGen) :=
  [(nm "Date", .dates), (nm "Time", .times), (nm "DateTime", .dateTimes),
   (nm "IP", .ips none), (nm "IPv4", .ips (some .v4)), (nm "IPv6", .ips (some .v6)),
   (nm "BigInt", .ints none none), (nm "Long", .ints (some longMin) (some longMax)),
   (nm "UUID", .uuids)]

/-! ## `schemathesis.graphql.scalar(name, strategy)`: the registry `CUSTOM_SCALARS` -/

/-- `d[k] = v` on an insertion-ordered dict: an existing key keeps its position -/
def dictSet {β : Type} (d : List (Name × β)) (k : Name) (v : β) : List (Name × β) :=
  match d with
  | [] => [(k, v)]
  | (k', v') :: rest => if k' = k then (k, v) :: rest else (k', v') :: dictSet rest k v

/-- `scalar(name, strategy)`: `name` is `none` when the argument is not a `str`, `isStrategy` tells whether the second
    argument is a Hypothesis `SearchStrategy`; `none` = `IncorrectUsage` (the registry is left as it was) -/
def registerScalar {β : Type} (custom : List (Name × β)) (name : Option Name) (isStrategy : Bool) (s : β) :
    Option (List (Name × β)) :=
  match name with
  | none => none
  | some n => if isStrategy then some (dictSet custom n s) else none

/-- a sequence of registrations, failed ones skipped (the caller sees the exception, the registry is unchanged) -/
def registerAll {β : Type} (custom : List (Name × β)) : List (Option Name × Bool × β) → List (Name × β)
  | [] => custom
  | (n, ok, s) :: rest =>
    match registerScalar custom n ok s with
    | some c => registerAll c rest
    | none => registerAll custom rest

/-! ## reading a node back (inverse of `render`, used to decide membership in a strategy's value space) -/

def isNatLiteral (t : List Char) : Bool :=
  !t.isEmpty && t.all isDigit && (t.head? != some '0' || t.length == 1)

/-- GraphQL `IntValue`: `-?(0|[1-9][0-9]*)` -/
def isIntLiteral : List Char → Bool
  | [] => false
  | c :: r => if c = '-' then isNatLiteral r else isNatLiteral (c :: r)

def intValue : List Char → Int
  | [] => 0
  | c :: r => if c = '-' then -(natVal r : Int) else (natVal (c :: r) : Int)

def digitsVal (t : List Char) : Option Nat := if !t.isEmpty && t.all isDigit then some (natVal t) else none

/-- dotted quad → 32-bit value -/
def ipv4Value (t : List Char) : Option Nat :=
  match splitOn '.' t with
  | [a, b, c, d] =>
    if [a, b, c, d].all (fun p => isNatLiteral p && decide (p.length ≤ 3) && decide (natVal p ≤ 255)) then
      some (((natVal a * 256 + natVal b) * 256 + natVal c) * 256 + natVal d)
    else none
  | _ => none

def isHextet (t : List Char) : Bool := decide (1 ≤ t.length) && decide (t.length ≤ 4) && t.all isHexDigit

def groupsVal (gs : List (List Char)) : Nat := gs.foldl (fun a g => a * 65536 + hexNatVal g) 0

/-- the ':'-separated pieces of an IPv6 text; a dotted-quad tail (RFC 4291 §2.2 form 3) is rewritten as two groups -/
def ipv6Parts (t : List Char) : Option (List (List Char)) :=
  let parts := splitOn ':' t
  let last := parts.getLast?.getD []
  if last.contains '.' then
    match ipv4Value last with
    | some v => some (parts.dropLast ++ [hextetText (v / 65536), hextetText (v % 65536)])
    | none => none
  else some parts

/-- what the validity of an IPv6 text depends on, per piece -/
structure PartInfo where
  empty : Bool
  hextet : Bool
  deriving DecidableEq, Repr

def partInfo (p : List Char) : PartInfo := ⟨p.isEmpty, isHextet p⟩

/-- RFC 4291 §2.2 on the pieces: eight groups of 1–4 hexadecimal digits, or fewer with exactly one `::` (an empty
    piece strictly inside; a leading / trailing empty piece is only allowed next to it) standing for one or more zero
    groups.  Answer: how many leading and how many trailing pieces are groups. -/
def ipv6Shape (ps : List PartInfo) : Option (Nat × Nat) :=
  if ps.length < 3 || ps.length > 9 then none else
  let inner := (ps.drop 1).dropLast
  let empties := (inner.filter (·.empty)).length
  let firstEmpty := (ps.head?.map (·.empty)).getD true
  let lastEmpty := (ps.getLast?.map (·.empty)).getD true
  if empties > 1 then none
  else if empties = 1 then
    let skip := inner.findIdx (·.empty) + 1
    let hi := ps.take skip
    let lo := ps.drop (skip + 1)
    if firstEmpty && hi.length ≠ 1 then none
    else if lastEmpty && lo.length ≠ 1 then none
    else
      let hi' := if firstEmpty then [] else hi
      let lo' := if lastEmpty then [] else lo
      if hi'.length + lo'.length > 7 then none
      else if !(hi' ++ lo').all (·.hextet) then none
      else some (hi'.length, lo'.length)
  else
    if ps.length ≠ 8 || !ps.all (·.hextet) then none else some (8, 0)

def ipv6Core (parts : List (List Char)) : Option Nat :=
  match ipv6Shape (parts.map partInfo) with
  | none => none
  | some (hiN, loN) =>
    some (groupsVal (parts.take hiN) * 65536 ^ (8 - hiN) + groupsVal (parts.drop (parts.length - loN)))

/-- RFC 4291 §2.2 text forms → 128-bit value -/
def ipv6Value (t : List Char) : Option Nat := (ipv6Parts t).bind ipv6Core

/-- 8-4-4-4-12 hexadecimal → 128-bit value -/
def uuidValue (t : List Char) : Option Nat :=
  match splitOn '-' t with
  | [a, b, c, d, e] =>
    if a.length = 8 && b.length = 4 && c.length = 4 && d.length = 4 && e.length = 12 &&
       (a ++ b ++ c ++ d ++ e).all isHexDigit then some (hexNatVal (a ++ b ++ c ++ d ++ e)) else none
  | _ => none

def dateValue (t : List Char) : Option (Nat × Nat × Nat) :=
  match t with
  | [y1, y2, y3, y4, s1, m1, m2, s2, d1, d2] =>
    if s1 = '-' && s2 = '-' && [y1, y2, y3, y4, m1, m2, d1, d2].all isDigit then
      some (natVal [y1, y2, y3, y4], natVal [m1, m2], natVal [d1, d2])
    else none
  | _ => none

/-- `HH:MM:SS[.ffffff]Z` exactly as `str(time) + "Z"` prints it -/
def timeZValue (t : List Char) : Option (Nat × Nat × Nat × Nat) :=
  match t with
  | h1 :: h2 :: c1 :: m1 :: m2 :: c2 :: s1 :: s2 :: rest =>
    if c1 = ':' && c2 = ':' && [h1, h2, m1, m2, s1, s2].all isDigit then
      match rest with
      | [z] => if z = 'Z' then some (natVal [h1, h2], natVal [m1, m2], natVal [s1, s2], 0) else none
      | [dot, u1, u2, u3, u4, u5, u6, z] =>
        if dot = '.' && z = 'Z' && [u1, u2, u3, u4, u5, u6].all isDigit then
          some (natVal [h1, h2], natVal [m1, m2], natVal [s1, s2], natVal [u1, u2, u3, u4, u5, u6])
        else none
      | _ => none
    else none
  | _ => none

/-- the base draw a node can only have come from -/
def unrender (g : ScalarGen) (v : ValueNode) : Option Drawn :=
  match g, v with
  | .ints _ _, .int t => if isIntLiteral t then some (.int (intValue t)) else none
  | .dates, .str t => (dateValue t).map fun (y, m, d) => .date y m d
  | .times, .str t => (timeZValue t).map fun (h, mi, s, us) => .time h mi s us
  | .dateTimes, .str t =>
    (match dateValue (t.take 10), t.drop 10 with
     | some (y, m, d), sep :: rest =>
       if sep = 'T' then (timeZValue rest).map fun (h, mi, s, us) => .dateTime y m d h mi s us else none
     | _, _ => none)
  | .ips _, .str t =>
    (match ipv4Value t with
     | some n => some (.ip4 n)
     | none => (ipv6Value t).map .ip6)
  | .uuids, .str t => (uuidValue t).map .uuid
  | _, _ => none

/-- `v` lies in the value space of strategy `g` -/
def inSupport (g : ScalarGen) (v : ValueNode) : Bool :=
  match unrender g v with
  | some d => render g d == some v
  | none => false

/-! ## extreme draws of a strategy (what boundary exploration of the real strategy should reach) -/

def boundaryDraws : ScalarGen → List Drawn
  | .ints lo hi =>
    (match lo with | some l => [.int l, .int (l + 1)] | none => []) ++
    (match hi with | some h => [.int (h - 1), .int h] | none => []) ++ [.int 0, .int (-1), .int 1]
  | .dates => [.date 1 1 1, .date 9999 12 31, .date 1 12 31, .date 9999 1 1]
  | .times => [.time 0 0 0 0, .time 23 59 59 999999, .time 23 59 59 0, .time 0 0 0 999999, .time 0 0 0 1]
  | .dateTimes => [.dateTime 1 1 1 0 0 0 0, .dateTime 9999 12 31 23 59 59 999999]
  | .ips v =>
    (if v = some .v6 then [] else [.ip4 0, .ip4 (2 ^ 32 - 1)]) ++
    (if v = some .v4 then [] else [.ip6 0, .ip6 (2 ^ 128 - 1)])
  | .uuids => []

end SV.Model.C20
