/-
  SV.Model.Engine — the engine's unit-phase machinery as a labelled transition system, shared by C05, C11, C12.
  Python anchors (src/schemathesis/engine):
    control.py                 ExecutionControl (stop event, failure counter, limit flag)
    phases/unit/__init__.py    execute (consumer loop, status fold, closing events), worker_task, on_error
    phases/unit/_pool.py       TaskProducer.next_operation, WorkerPool (start/join)
    phases/unit/_executor.py   run_test (event shape of one scenario), cached_test_func (stop test before each send)
  The consumer is additionally given as a *function of its inputs* (`cStep`) so that the real generator can be driven
  step by step by the harness with a scripted queue; workers likewise (`wStep`).
  Core Lean only.
-/
namespace SV.Model.Engine

inductive Status where
  | success | failure | error | interrupted | skip
  deriving DecidableEq, Repr

/-- `_STATUS_ORDER` (engine/__init__.py); re-extracted from the source on every run and compared in Props -/
def Status.rank : Status → Nat
  | .success => 0 | .failure => 1 | .error => 2 | .interrupted => 3 | .skip => 4

def Status.failing (s : Status) : Bool := s == .failure || s == .error

inductive Ev where
  | scenStarted (id : Nat)
  | scenFinished (id : Nat) (st : Status)
  | nonFatal (id : Nat)
  | interrupted (byConsumer : Bool)   -- the flag is a ghost: both are `events.Interrupted`
  | suiteStarted
  | suiteFinished (st : Status)
  | phaseFinished (st : Status) (nothingToTest : Bool)
  deriving DecidableEq, Repr

structure Ctl where
  stop : Bool := false              -- stop_event.is_set()
  failures : Nat := 0               -- _failures_counter
  maxFailures : Option Nat := none
  limit : Bool := false             -- has_reached_the_failure_limit
  deriving DecidableEq, Repr

def Ctl.hasToStop (c : Ctl) : Bool := c.stop || c.limit

/-- `ExecutionControl.count_failure` -/
def Ctl.countFailure (c : Ctl) : Ctl :=
  match c.maxFailures with
  | none => c
  | some m => { c with failures := c.failures + 1, limit := c.limit || decide (c.failures + 1 ≥ m) }

/-! ## the consumer: `unit.execute` -/

inductive CPc where
  | preSuite | loop | sawEmpty | closing | done
  deriving DecidableEq, Repr

structure CSt where
  pc : CPc := .preSuite
  status : Option Status := none
  executed : Bool := false
  ctl : Ctl := {}
  out : List Ev := []
  deriving DecidableEq, Repr

inductive Variant where
  | asFound    -- leaves the loop as soon as no worker is alive after a `queue.Empty`
  | repaired   -- additionally requires the queue to be empty at that moment
  deriving DecidableEq, Repr

/-- `event.status != SKIP and (status is None or status < event.status)` -/
def better (status : Option Status) (st : Status) : Bool :=
  st != .skip && (match status with | none => true | some s => decide (s.rank < st.rank))

/-- status fold of the consumer loop for one yielded event -/
def foldStatus (status : Option Status) (e : Ev) : Option Status :=
  match e with
  | .nonFatal _ => some .error
  | .scenFinished _ st => if better status st then some st else status
  | _ => status

def countIfFailing (c : Ctl) (e : Ev) : Ctl :=
  match e with
  | .scenFinished _ st => if st.failing then c.countFailure else c
  | _ => c

/-- the `except KeyboardInterrupt` arm of the consumer -/
def cInterrupt (s : CSt) : CSt :=
  { s with pc := .closing, status := some .interrupted, ctl := { s.ctl with stop := true },
           out := s.out ++ [.interrupted true] }

/-- counter/limit update of the loop body for a yielded event -/
def gotCtl2 (ctl : Ctl) (e : Ev) (stopDuringYield : Bool) : Ctl :=
  countIfFailing (if stopDuringYield then { ctl with stop := true } else ctl) e

/-- `isinstance(event, events.Interrupted) or engine.is_interrupted` -/
def gotIntr (ctl : Ctl) (e : Ev) (stopDuringYield : Bool) : Bool :=
  e == .interrupted false || (gotCtl2 ctl e stopDuringYield).stop

/-- control state after the loop body ran for a yielded event -/
def gotCtl (ctl : Ctl) (e : Ev) (stopDuringYield : Bool) : Ctl :=
  if gotIntr ctl e stopDuringYield then { gotCtl2 ctl e stopDuringYield with stop := true }
  else gotCtl2 ctl e stopDuringYield

def gotStatus (status : Option Status) (ctl : Ctl) (e : Ev) (stopDuringYield : Bool) : Option Status :=
  if gotIntr ctl e stopDuringYield then some .interrupted else foldStatus status e

/-- `event = queue.get()` returned `e`; `stopDuringYield`: the stream's consumer called `stop()` while the generator
    was suspended at `yield event`. -/
def cGot (s : CSt) (e : Ev) (stopDuringYield : Bool) : CSt :=
  let s := { s with executed := true }
  if s.ctl.stop then cInterrupt s
  else
    { s with pc := if (gotCtl s.ctl e stopDuringYield).hasToStop then .closing else .loop,
             status := gotStatus s.status s.ctl e stopDuringYield,
             ctl := gotCtl s.ctl e stopDuringYield, out := s.out ++ [e] }

def finalStatus (s : CSt) : Status × Bool :=
  if !s.executed then (.skip, true) else (s.status.getD .skip, false)

/-- after `pool.stop()`: SuiteFinished and PhaseFinished -/
def cClose (s : CSt) : CSt :=
  let (st, ntt) := finalStatus s
  { s with pc := .done, out := s.out ++ [.suiteFinished st, .phaseFinished st ntt] }

inductive CIn where
  | start
  | got (e : Ev) (stopDuringYield : Bool)
  | empty
  | alive (anyAlive : Bool) (queueEmpty : Bool)
  | ki
  | joined
  deriving DecidableEq, Repr

/-- the consumer as a function of its inputs (`none`: input not possible at this control point) -/
def cStep (v : Variant) (s : CSt) : CIn → Option CSt
  | .start => if s.pc == .preSuite then some { s with pc := .loop, out := s.out ++ [.suiteStarted] } else none
  | .got e sdy => if s.pc == .loop then some (cGot s e sdy) else none
  | .empty => if s.pc == .loop then some { s with pc := .sawEmpty } else none
  | .alive anyAlive queueEmpty =>
    if s.pc == .sawEmpty then
      if anyAlive then some { s with pc := .loop }
      else match v with
        | .asFound => some { s with pc := .closing }
        | .repaired => some { s with pc := if queueEmpty then .closing else .loop }
    else none
  | .ki => if s.pc == .loop || s.pc == .sawEmpty then some (cInterrupt s) else none
  | .joined => if s.pc == .closing then some (cClose s) else none

/-! ## workers: `worker_task` + `run_test` + `cached_test_func` -/

/-- what one operation will do: `bare` = a load error without method/path (a lone NonFatalError) -/
structure Script where
  id : Nat
  sends : Nat          -- requests sent before the test ends
  errs : Nat           -- NonFatalError events emitted before ScenarioFinished
  final : Status
  bare : Bool := false
  deriving DecidableEq, Repr

inductive RunPc where
  | toStart
  | cases (k : Nat) (checked : Bool)
  | errs (k : Nat)
  | toFinish
  | intr1 | intr2
  | bare
  deriving DecidableEq, Repr

inductive WSt where
  | head                       -- `while not ctx.has_to_stop`
  | fetching                   -- `producer.next_operation()`
  | run (sc : Script) (pc : RunPc)
  | dead
  deriving DecidableEq, Repr

structure W where
  st : WSt := .head
  late : Nat := 0              -- ghost: sends performed although a stop/limit was already requested
  deriving DecidableEq, Repr

/-- one step of a worker; returns (worker, remaining ops, events put) -/
def wStep (ctl : Ctl) (w : W) (ops : List Script) : Option (W × List Script × List Ev) :=
  match w.st with
  | .dead => none
  | .head => some (if ctl.hasToStop then { w with st := .dead } else { w with st := .fetching }, ops, [])
  | .fetching =>
    match ops with
    | [] => some ({ w with st := .dead }, [], [])
    | sc :: rest => some ({ w with st := .run sc (if sc.bare then .bare else .toStart) }, rest, [])
  | .run sc pc =>
    match pc with
    | .bare => some ({ w with st := .head }, ops, [.nonFatal sc.id])
    | .toStart => some ({ w with st := .run sc (.cases sc.sends false) }, ops, [.scenStarted sc.id])
    | .cases 0 _ => some ({ w with st := .run sc (.errs sc.errs) }, ops, [])
    | .cases (k + 1) false =>
      if ctl.hasToStop then some ({ w with st := .run sc .intr1 }, ops, [])
      else some ({ w with st := .run sc (.cases (k + 1) true) }, ops, [])
    | .cases (k + 1) true =>
      some ({ st := .run sc (.cases k false), late := if ctl.hasToStop then w.late + 1 else w.late }, ops, [])
    | .errs 0 => some ({ w with st := .run sc .toFinish }, ops, [])
    | .errs (k + 1) => some ({ w with st := .run sc (.errs k) }, ops, [.nonFatal sc.id])
    | .toFinish => some ({ w with st := .head }, ops, [.scenFinished sc.id sc.final])
    | .intr1 => some ({ w with st := .run sc .intr2 }, ops, [.scenFinished sc.id .interrupted])
    | .intr2 => some ({ w with st := .head }, ops, [.interrupted false])

/-! ## the composed system -/

structure St where
  ops : List Script
  ws : List W
  queue : List Ev := []
  c : CSt := {}
  hist : List Ev := []        -- ghost: every event ever put, in order
  deriving DecidableEq, Repr

def allDead (ws : List W) : Bool := ws.all (·.st == .dead)

inductive Step (v : Variant) : St → St → Prop where
  | worker (s : St) (l r : List W) (w w' : W) (ops' : List Script) (evs : List Ev)
      (hws : s.ws = l ++ w :: r) (hstarted : s.c.pc ≠ .preSuite)
      (h : wStep s.c.ctl w s.ops = some (w', ops', evs)) :
      Step v s { s with ops := ops', ws := l ++ w' :: r, queue := s.queue ++ evs, hist := s.hist ++ evs }
  | cStart (s : St) (c' : CSt) (h : cStep v s.c .start = some c') : Step v s { s with c := c' }
  | cGot (s : St) (e : Ev) (q : List Ev) (sdy : Bool) (c' : CSt) (hq : s.queue = e :: q)
      (h : cStep v s.c (.got e sdy) = some c') : Step v s { s with c := c', queue := q }
  | cEmpty (s : St) (c' : CSt) (hq : s.queue = []) (h : cStep v s.c .empty = some c') : Step v s { s with c := c' }
  | cAlive (s : St) (c' : CSt)
      (h : cStep v s.c (.alive (!allDead s.ws) s.queue.isEmpty) = some c') : Step v s { s with c := c' }
  | cKi (s : St) (c' : CSt) (h : cStep v s.c .ki = some c') : Step v s { s with c := c' }
  | cJoined (s : St) (c' : CSt) (hdead : allDead s.ws = true) (h : cStep v s.c .joined = some c') :
      Step v s { s with c := c' }
  | envStop (s : St) : Step v s { s with c := { s.c with ctl := { s.c.ctl with stop := true } } }

def init (ops : List Script) (n : Nat) (maxFailures : Option Nat) : St :=
  { ops := ops, ws := List.replicate n {}, c := { ctl := { maxFailures := maxFailures } } }

inductive Reach (v : Variant) (s0 : St) : St → Prop where
  | refl : Reach v s0 s0
  | step (s s' : St) : Reach v s0 s → Step v s s' → Reach v s0 s'

/-! ## an executable schedule replayer (used by the driver) -/

inductive Label where
  | worker (i : Nat)
  | cStart | cGot (stopDuringYield : Bool) | cEmpty | cAlive | cKi | cJoined | envStop
  deriving DecidableEq, Repr

def fire (v : Variant) (s : St) : Label → Option St
  | .worker i =>
    if s.c.pc == .preSuite then none else
    match s.ws[i]? with
    | none => none
    | some w =>
      match wStep s.c.ctl w s.ops with
      | none => none
      | some (w', ops', evs) =>
        some { s with ops := ops', ws := s.ws.set i w', queue := s.queue ++ evs, hist := s.hist ++ evs }
  | .cStart => (cStep v s.c .start).map fun c' => { s with c := c' }
  | .cGot sdy =>
    match s.queue with
    | [] => none
    | e :: q => (cStep v s.c (.got e sdy)).map fun c' => { s with c := c', queue := q }
  | .cEmpty => if s.queue.isEmpty then (cStep v s.c .empty).map fun c' => { s with c := c' } else none
  | .cAlive => (cStep v s.c (.alive (!allDead s.ws) s.queue.isEmpty)).map fun c' => { s with c := c' }
  | .cKi => (cStep v s.c .ki).map fun c' => { s with c := c' }
  | .cJoined => if allDead s.ws then (cStep v s.c .joined).map fun c' => { s with c := c' } else none
  | .envStop => some { s with c := { s.c with ctl := { s.c.ctl with stop := true } } }

def fireAll (v : Variant) : St → List Label → Option St
  | s, [] => some s
  | s, l :: ls => match fire v s l with
    | some s' => fireAll v s' ls
    | none => none

end SV.Model.Engine
