/-
  SV.Model.Plan — the sequential top of the engine: `ExecutionPlan.execute` (engine/core.py), the phase dispatch
  (`Phase.should_execute`, the FAILURE_LIMIT_REACHED skip reason) and the CLI's exit-code fold
  (`ExecutionContext.on_event`, cli/commands/run/context.py).  A phase body is whatever the phase generator yields
  (for the unit phases: the `out` of a terminal state of the LTS in SV.Model.Engine) together with the control state it
  leaves behind and whether a KeyboardInterrupt escaped from it.
  Core Lean only.
-/
import SV.Model.Engine

namespace SV.Model.Plan
open SV.Model.Engine

inductive Reason where
  | disabled | notSupported | notApplicable | failureLimit | nothingToTest
  deriving DecidableEq, Repr

inductive PEv where
  | engineStarted
  | phaseStarted (i : Nat)
  | phaseFinished (i : Nat) (st : Status) (reason : Option Reason)
  | inner (i : Nat) (e : Ev)                 -- suite / scenario / error events of phase i
  | interrupted                              -- `Interrupted(phase=None)` of the plan's own handler
  | engineFinished
  deriving DecidableEq, Repr

structure PhaseCfg where
  idx : Nat
  enabled : Bool
  reason : Option Reason      -- the skip reason computed by `get_phase_config`
  deriving DecidableEq, Repr

/-- result of running one phase generator to its end -/
structure PhaseRun where
  evs : List Ev               -- everything it yielded before its PhaseFinished
  status : Status             -- status of its PhaseFinished
  nothingToTest : Bool
  ctl : Ctl                   -- control state afterwards
  escapedKi : Bool := false   -- a KeyboardInterrupt left the generator (then no PhaseFinished was yielded)
  deriving DecidableEq, Repr

/-- the `for phase in self.phases` loop; `run i ctl` is the behaviour of phase `i` started under `ctl` -/
def runPhases (run : Nat → Ctl → PhaseRun) : Ctl → List PhaseCfg → List PEv
  | _, [] => []
  | ctl, p :: rest =>
    let reason := if ctl.limit then some Reason.failureLimit else p.reason
    if p.enabled && !ctl.hasToStop then
      let r := run p.idx ctl
      if r.escapedKi then
        -- `except KeyboardInterrupt: engine.stop(); yield Interrupted(phase=None)`
        [.phaseStarted p.idx] ++ r.evs.map (.inner p.idx) ++ [.interrupted]
      else
        [.phaseStarted p.idx] ++ r.evs.map (.inner p.idx) ++
          [.phaseFinished p.idx r.status (if r.nothingToTest then some .nothingToTest else reason)] ++
          (if r.ctl.stop then [] else runPhases run r.ctl rest)
    else
      [.phaseStarted p.idx, .phaseFinished p.idx .skip reason] ++
        (if ctl.stop then [] else runPhases run ctl rest)

def execute (run : Nat → Ctl → PhaseRun) (ctl : Ctl) (phases : List PhaseCfg) : List PEv :=
  [.engineStarted] ++ (if ctl.stop then [] else runPhases run ctl phases) ++ [.engineFinished]

/-- `ExecutionContext.on_event` folded over the stream -/
def exitCode (enabled : Nat → Bool) : List PEv → Nat
  | [] => 0
  | .inner _ (.nonFatal _) :: _ => 1
  | .phaseFinished i st _ :: rest => if enabled i && st.failing then 1 else exitCode enabled rest
  | _ :: rest => exitCode enabled rest

end SV.Model.Plan
