/-
  SV.Model.Stateful — the stateful phase: `stateful.execute` (consumer, engine/phases/stateful/__init__.py) and the suite
  loop of `execute_state_machine_loop` (engine/phases/stateful/_executor.py) that runs in its own thread.
  The state-machine run itself (Hypothesis) is a parameter: each suite is described by the scenario events the
  instrumented machine puts and by how `InstrumentedStateMachine.run` ends.
  Core Lean only.
-/
import SV.Model.Engine

namespace SV.Model.Stateful
open SV.Model.Engine (Status)

inductive SEv where
  | suiteStarted (k : Nat)
  | suiteFinished (k : Nat) (st : Status)
  | scenStarted (id : Nat)
  | scenFinished (id : Nat) (st : Status)
  | nonFatal
  | interrupted
  | phaseFinished (st : Status) (nothingToTest : Bool)
  deriving DecidableEq, Repr

/-- how `InstrumentedStateMachine.run(...)` ended -/
inductive RunEnd where
  | ok                      -- returned normally
  | keyboardInterrupt       -- stop event seen inside `step`, or raised by user code
  | skipTest                -- unittest.SkipTest (explicit phase without examples)
  | failureGroup            -- a check failed
  | flaky                   -- Flaky, and the suite collected some check failure (mark them as seen, run again)
  | flakyNoFailure          -- Flaky without any check failure in the suite (repaired loop: an error, leave the loop)
  | unsatisfiableRetry      -- Unsatisfiable after some completed scenarios, below max_examples: run again
  | unsatisfiableGiveUp     -- … at or above max_examples: leave the loop
  | otherException
  deriving DecidableEq, Repr

structure Suite where
  scen : List SEv           -- what setup/teardown put during the run (ScenarioStarted/ScenarioFinished pairs)
  ending : RunEnd
  interruptedAtStart : Bool := false    -- `engine.is_interrupted` right after SuiteStarted
  limitReached : Bool := false          -- `engine.has_reached_the_failure_limit` when the failure is handled
  deriving DecidableEq, Repr

/-- (suite status, events put by the handler before `finally`, does the `while True` loop continue?) -/
def endOf (s : Suite) : Status × List SEv × Bool :=
  match s.ending with
  | .ok => (.success, [], false)
  | .keyboardInterrupt => (.interrupted, [.interrupted], false)
  | .skipTest => (.skip, [], false)
  | .failureGroup => (.failure, [], !s.limitReached)
  | .flaky => (.failure, [], !s.limitReached)
  | .flakyNoFailure => if s.limitReached then (.failure, [], false) else (.error, [.nonFatal], false)
  | .unsatisfiableRetry => (.success, [], true)
  | .unsatisfiableGiveUp => (.success, [], false)
  | .otherException => (.error, [.nonFatal], false)

/-- everything the thread puts, suite by suite (`k` numbers the suites) -/
def threadEvents : Nat → List Suite → List SEv
  | _, [] => []
  | k, s :: rest =>
    if s.interruptedAtStart then
      [.suiteStarted k, .interrupted, .suiteFinished k .interrupted]
    else
      let (st, evs, cont) := endOf s
      [.suiteStarted k] ++ s.scen ++ evs ++ [.suiteFinished k st] ++ (if cont then threadEvents (k + 1) rest else [])

/-! ## the consumer -/

structure CSt where
  status : Option Status := none
  executed : Bool := false
  out : List SEv := []
  deriving DecidableEq, Repr

/-- `isinstance(event, SuiteFinished) and event.status != SKIP and (status is None or status < event.status)` -/
def foldSuite (status : Option Status) (e : SEv) : Option Status :=
  match e with
  | .suiteFinished _ st => if SV.Model.Engine.better status st then some st else status
  | _ => status

def got (c : CSt) (e : SEv) : CSt :=
  { status := foldSuite c.status e, executed := true, out := c.out ++ [e] }

/-- the `except KeyboardInterrupt` arm -/
def interrupt (c : CSt) : CSt := { c with status := some .interrupted, out := c.out ++ [.interrupted] }

def close (c : CSt) : CSt :=
  let (st, ntt) := if !c.executed then (Status.skip, true) else (c.status.getD .skip, false)
  { c with out := c.out ++ [.phaseFinished st ntt] }

inductive Variant where
  | asFound | repaired
  deriving DecidableEq, Repr

/-- the consumer as a function of what it observes: `gets` = the events it obtains before leaving the loop (with the
    repaired loop: all of them), `ki` = whether a KeyboardInterrupt ended the loop -/
def consume (gets : List SEv) (ki : Bool) : CSt :=
  let c := gets.foldl got {}
  close (if ki then interrupt c else c)

end SV.Model.Stateful
