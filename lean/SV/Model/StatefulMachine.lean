/-
  SV.Model.StatefulMachine — the instrumented state machine of the stateful phase and the suite loop *with its state*.
  Python anchors (src/schemathesis/engine/phases/stateful):
    _executor.py   _InstrumentedStateMachine.setup / step / validate_response / teardown, validate_response + on_failure,
                   execute_state_machine_loop (every arm of the `while True` loop, the `finally`)
    context.py     StatefulContext (seen_in_run, seen_in_suite, current_step_status, completed_scenarios, step_outcomes)
  and engine/control.py (ExecutionControl.count_failure, the stop / limit flags), checks.py run_checks.
  Hypothesis is the *environment*: it decides which scenarios are run (construct the machine = `setup`, call `step`
  until one raises or it stops drawing, always `teardown`) and how `run` ends.  API and checks are environment too:
  every step says what its call and each configured check do.
  `SV.Model.Stateful` (the suite loop as a function of abstract suites) is the abstraction of this model: `toSuite`.
  Core Lean only.
-/
import SV.Model.Stateful

namespace SV.Model.SM
open SV.Model.Engine (Status Ctl)
open SV.Model.Stateful (SEv)

abbrev FKey := Nat       -- identity of a failure (`Failure.__eq__` / `__hash__`)
abbrev CaseKey := Nat    -- `hash(case)`

/-- what one check of the configured list does on the step's response -/
inductive CheckOut where
  | pass                     -- returned (recorded as success, or skipped)
  | fail (fs : List FKey)    -- raised Failure / AssertionError (one key) or FailureGroup (its members)
  | crash                    -- raised anything else: escapes `run_checks`
  deriving DecidableEq, Repr

/-- what happens in a step once the stop test and the unique-input cache let it through -/
inductive Call where
  | responds (checks : List CheckOut)
  | raises          -- before_call / transport / after_call raised an Exception
  | interrupted     -- KeyboardInterrupt raised inside the step (user code, Ctrl-C in the thread)
  | baseExc         -- any other BaseException
  deriving DecidableEq, Repr

/-- `StatefulContext.step_outcomes` values, by kind -/
inductive Cached where
  | none_ | failure | exception | baseExc
  deriving DecidableEq, Repr

structure Step where
  case : CaseKey
  stopBefore : Bool := false     -- another thread sets the stop event before this step's test
  call : Call
  deriving DecidableEq, Repr

structure MSt where
  ctl : Ctl := {}
  unique : Bool := false                 -- config.execution.unique_inputs
  maxExamples : Nat := 100               -- hypothesis_settings.max_examples
  seenRun : List FKey := []
  seenSuite : List FKey := []
  stepStatus : Option Status := none     -- current_step_status
  completed : Nat := 0                   -- completed_scenarios
  outcomes : List (CaseKey × Cached) := []
  out : List SEv := []                   -- everything put into the event queue
  recorded : List (Nat × FKey) := []     -- record_check_failure(scenario, failure) + count_failure, in order
  calls : Nat := 0                       -- call attempts (requests)
  nextId : Nat := 1                      -- fresh scenario ids
  current : Option Nat := none           -- self._scenario_id of the live machine
  deriving DecidableEq, Repr

/-! ## validate_response -/

/-- `on_failure` -/
def onFailure (sid : Nat) (s : MSt × List FKey) (f : FKey) : MSt × List FKey :=
  if s.1.seenSuite.contains f || s.1.seenRun.contains f then s
  else ({ s.1 with recorded := s.1.recorded ++ [(sid, f)], ctl := s.1.ctl.countFailure,
                   seenSuite := s.1.seenSuite ++ [f] }, s.2 ++ [f])

/-- `run_checks`: the Bool says whether a check crashed (the exception escapes, later checks do not run) -/
def runChecks (sid : Nat) : MSt × List FKey → List CheckOut → (MSt × List FKey) × Bool
  | s, [] => (s, false)
  | s, .pass :: cs => runChecks sid s cs
  | s, .fail fs :: cs => runChecks sid (fs.foldl (onFailure sid) s) cs
  | s, .crash :: _ => (s, true)

inductive VRes where
  | ok | group (fs : List FKey) | crash
  deriving DecidableEq, Repr

def validate (sid : Nat) (m : MSt) (checks : List CheckOut) : MSt × VRes :=
  let r := runChecks sid (m, []) checks
  if r.2 then (r.1.1, .crash)
  else if r.1.2.isEmpty then (r.1.1, .ok)
  else (r.1.1, .group r.1.2)

/-! ## step -/

inductive StepRes where
  | returned | returnedNone | failureGroup (fs : List FKey) | exception | ki | baseExc
  deriving DecidableEq, Repr

def store (m : MSt) (c : CaseKey) (o : Cached) : MSt :=
  if m.unique then { m with outcomes := (c, o) :: m.outcomes } else m

def lookup (m : MSt) (c : CaseKey) : Option Cached :=
  if m.unique then (m.outcomes.find? (·.1 == c)).map (·.2) else none

/-- the `except Exception` arm -/
def errored (m : MSt) (c : CaseKey) : MSt × StepRes :=
  ({ store m c .exception with stepStatus := some .error }, .exception)

def requestStop (m : MSt) (b : Bool) : MSt :=
  if b then { m with ctl := { m.ctl with stop := true } } else m

def attempt (m : MSt) : MSt := { m with calls := m.calls + 1 }

/-- `_InstrumentedStateMachine.step` -/
def step (m0 : MSt) (s : Step) : MSt × StepRes :=
  let m := requestStop m0 s.stopBefore
  if m.ctl.hasToStop then (m, .ki)          -- raised before the `try`: the status is not touched
  else
    match lookup m s.case with
    | some .none_ => (m, .returnedNone)
    | some .failure =>                       -- `raise cached` with a Failure lands in `except Exception`, which stores it again
      ({ store m s.case .failure with stepStatus := some .error }, .exception)
    | some .exception => errored m s.case
    | some .baseExc => (store m s.case .baseExc, .baseExc)
    | none =>
      match s.call with
      | .raises => errored (attempt m) s.case
      | .interrupted => ({ attempt m with stepStatus := some .interrupted }, .ki)
      | .baseExc => (store (attempt m) s.case .baseExc, .baseExc)
      | .responds checks =>
        let r := validate (m.current.getD 0) (attempt m) checks
        match r.2 with
        | .ok => ({ store r.1 s.case .none_ with stepStatus := some .success }, .returned)
        | .group fs => ({ store r.1 s.case .failure with stepStatus := some .failure }, .failureGroup fs)
        | .crash => errored r.1 s.case

/-! ## one scenario, as Hypothesis runs it -/

/-- `setup`; `fails` = building the check context raised (nothing is announced then) -/
def setup (m : MSt) (fails : Bool) : MSt × Bool :=
  if fails then (m, false)
  else ({ m with current := some m.nextId, nextId := m.nextId + 1, out := m.out ++ [.scenStarted m.nextId] }, true)

/-- `teardown` (+ `ctx.reset_scenario()`) -/
def teardown (m : MSt) : MSt :=
  { m with out := m.out ++ [.scenFinished (m.current.getD 0) (m.stepStatus.getD .skip)],
           completed := m.completed + 1, stepStatus := none, outcomes := [], current := none }

/-- `teardown` when `ctx.maximize_metrics()` raises: the closing event is already in the queue, `reset_scenario` is not
    reached (status, cache and the scenario counter keep their values) -/
def teardownFailing (m : MSt) : MSt :=
  { m with out := m.out ++ [.scenFinished (m.current.getD 0) (m.stepStatus.getD .skip)], current := none }

structure Scenario where
  setupFails : Bool := false
  steps : List Step := []        -- what Hypothesis would run; it stops at the first step that raises
  teardownFails : Bool := false  -- `ctx.maximize_metrics()` raises (a target metric that cannot be aggregated)
  deriving DecidableEq, Repr

/-- what escapes the scenario into Hypothesis -/
inductive ScenEnd where
  | clean | failureGroup (fs : List FKey) | exception | ki | baseExc
  deriving DecidableEq, Repr

def runSteps : MSt → List Step → MSt × ScenEnd
  | m, [] => (m, .clean)
  | m, s :: rest =>
    match step m s with
    | (m', .returned) => runSteps m' rest
    | (m', .returnedNone) => runSteps m' rest
    | (m', .failureGroup fs) => (m', .failureGroup fs)
    | (m', .exception) => (m', .exception)
    | (m', .ki) => (m', .ki)
    | (m', .baseExc) => (m', .baseExc)

def runScenario (m : MSt) (sc : Scenario) : MSt × ScenEnd :=
  match setup m sc.setupFails with
  | (m', false) => (m', .exception)
  | (m1, true) =>
    let r := runSteps m1 sc.steps
    -- an exception out of `teardown` (called in a `finally`) replaces whatever was propagating
    if sc.teardownFails then (teardownFailing r.1, .exception) else (teardown r.1, r.2)

def ScenEnd.propagates : ScenEnd → Bool
  | .ki => true | .baseExc => true | _ => false

/-- one `InstrumentedStateMachine.run`: scenarios one after the other; a KeyboardInterrupt (or another BaseException)
    is not caught by Hypothesis and ends the run at once -/
def runMachine : MSt → List Scenario → MSt × List ScenEnd
  | m, [] => (m, [])
  | m, sc :: rest =>
    let r := runScenario m sc
    if r.2.propagates then (r.1, [r.2])
    else let r' := runMachine r.1 rest; (r'.1, r.2 :: r'.2)

/-! ## the suite loop with its state -/

/-- how Hypothesis ends `run` when no KeyboardInterrupt escaped -/
inductive HypEnd where
  | ok | skipTest | failureGroup (marked : List FKey) | flaky | unsatisfiable | otherException
  deriving DecidableEq, Repr

structure Run where
  scens : List Scenario := []
  hyp : HypEnd := .ok
  stopBeforeSuite : Bool := false      -- the stop event is set before the `is_interrupted` test
  deriving DecidableEq, Repr

inductive Variant where
  | asFound     -- `except Flaky`: mark the suite's failures as seen and run again, whatever they are
  | repaired    -- … but when the suite has no failure to mark (the flakiness is an intermittent error) report an
                --   error and leave the loop: running again would not make progress
  deriving DecidableEq, Repr

def put (m : MSt) (evs : List SEv) : MSt := { m with out := m.out ++ evs }

/-- the `finally` of the loop body: SuiteFinished + `ctx.reset()` -/
def finish (m : MSt) (k : Nat) (st : Status) : MSt :=
  { m with out := m.out ++ [.suiteFinished k st], seenSuite := [],
           completed := m.completed + 1, stepStatus := none, outcomes := [] }

/-- the handler chosen by how `run` ended: (suite status, events put by the handler, state, continue?) -/
def handle (v : Variant) (m : MSt) (ki : Bool) (hyp : HypEnd) : Status × List SEv × MSt × Bool :=
  if ki then (.interrupted, [.interrupted], { m with ctl := { m.ctl with stop := true } }, false)
  else match hyp with
  | .ok => (.success, [], m, false)
  | .skipTest => (.skip, [], m, false)
  | .failureGroup marked =>
    if m.ctl.limit then (.failure, [], m, false)
    else (.failure, [], { m with seenRun := m.seenRun ++ marked }, true)
  | .flaky =>
    if m.ctl.limit then (.failure, [], m, false)
    else match v with
      | .asFound => (.failure, [], { m with seenRun := m.seenRun ++ m.seenSuite }, true)
      | .repaired =>
        if m.seenSuite.isEmpty then (.error, [.nonFatal], m, false)
        else (.failure, [], { m with seenRun := m.seenRun ++ m.seenSuite }, true)
  | .unsatisfiable =>
    if m.completed > 0 then (.success, [], m, decide (m.completed < m.maxExamples))
    else (.error, [.nonFatal], m, false)
  | .otherException => (.error, [.nonFatal], m, false)

/-- one iteration of `while True`; the Bool says whether the loop continues -/
def suiteStep (v : Variant) (k : Nat) (m0 : MSt) (r : Run) : MSt × Bool :=
  let m := put (requestStop m0 r.stopBeforeSuite) [.suiteStarted k]
  if m.ctl.stop then (put m [.interrupted, .suiteFinished k .interrupted], false)
  else
    let rm := runMachine m r.scens
    if rm.2.any (· == .baseExc) then (finish rm.1 k .success, false)   -- escapes every handler; only the `finally` runs
    else
    let h := handle v rm.1 (rm.2.any (· == .ki)) r.hyp
    (finish (put h.2.2.1 h.2.1) k h.1, h.2.2.2)

/-- the whole thread: `runs` is what the environment would do in the 1st, 2nd, … iteration -/
def thread (v : Variant) : Nat → MSt → List Run → MSt
  | _, m, [] => m
  | k, m, r :: rest =>
    let s := suiteStep v k m r
    if s.2 then thread v (k + 1) s.1 rest else s.1

/-- number of iterations actually executed -/
def suitesRun (v : Variant) : Nat → MSt → List Run → Nat
  | _, _, [] => 0
  | k, m, r :: rest =>
    let s := suiteStep v k m r
    if s.2 then suitesRun v (k + 1) s.1 rest + 1 else 1

end SV.Model.SM
