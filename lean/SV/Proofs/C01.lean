/-
  Helper lemmas for C01 (association lists, `transform` on inert values).  No property statements here.
-/
import SV.Model.C01
import SV.Spec.JsonSchema
import SV.Spec.C01

namespace SV.Proofs.C01
open SV SV.Model.C01 SV.Spec.JsonSchema SV.Spec.C01

/-! ### association lists -/

theorem lookup_setKey_self (k : String) (v : Json) (kvs : Kvs) : Json.lookup k (setKey k v kvs) = some v := by
  induction kvs with
  | nil => simp [setKey, Json.lookup]
  | cons h t ih =>
    obtain ⟨k', v'⟩ := h
    by_cases hk : k = k'
    · subst hk; simp [setKey, Json.lookup]
    · simp [setKey, Json.lookup, hk, ih]

theorem lookup_setKey_ne (k k2 : String) (v : Json) (kvs : Kvs) (h : k2 ≠ k) :
    Json.lookup k2 (setKey k v kvs) = Json.lookup k2 kvs := by
  induction kvs with
  | nil => simp [setKey, Json.lookup, h]
  | cons hd t ih =>
    obtain ⟨k', v'⟩ := hd
    by_cases hk : k = k'
    · subst hk; simp [setKey, Json.lookup, h]
    · by_cases hk2 : k2 = k' <;> simp [setKey, Json.lookup, hk, hk2, ih]

theorem lookup_eraseKey_self (k : String) (kvs : Kvs) : Json.lookup k (eraseKey k kvs) = none := by
  induction kvs with
  | nil => simp [eraseKey, Json.lookup]
  | cons hd t ih =>
    obtain ⟨k', v'⟩ := hd
    by_cases hk : k = k'
    · subst hk; simp [eraseKey, ih]
    · simp [eraseKey, Json.lookup, hk, ih]

theorem lookup_eraseKey_ne (k k2 : String) (kvs : Kvs) (h : k2 ≠ k) :
    Json.lookup k2 (eraseKey k kvs) = Json.lookup k2 kvs := by
  induction kvs with
  | nil => simp [eraseKey, Json.lookup]
  | cons hd t ih =>
    obtain ⟨k', v'⟩ := hd
    by_cases hk : k = k'
    · subst hk; simp [eraseKey, Json.lookup, h, ih]
    · by_cases hk2 : k2 = k' <;> simp [eraseKey, Json.lookup, hk, hk2, ih]

theorem lookup_mapVals (g : Json → Json) (k : String) (kvs : Kvs) :
    Json.lookup k (mapVals g kvs) = (Json.lookup k kvs).map g := by
  induction kvs with
  | nil => simp [mapVals, Json.lookup]
  | cons hd t ih =>
    obtain ⟨k', v'⟩ := hd
    by_cases hk : k = k'
    · subst hk; simp [mapVals, Json.lookup]
    · simp only [mapVals] at ih
      simp [mapVals, Json.lookup, hk, ih]

theorem lookup_append_none (k : String) (a b : Kvs) (h : Json.lookup k a = none) :
    Json.lookup k (a ++ b) = Json.lookup k b := by
  induction a with
  | nil => rfl
  | cons hd t ih =>
    obtain ⟨k', v'⟩ := hd
    by_cases hk : k = k'
    · subst hk; simp [Json.lookup] at h
    · simp only [Json.lookup, hk, beq_iff_eq, if_false] at h
      simp [Json.lookup, hk, ih h]

/-! ### keyword checks: agreement and relational lemmas -/


theorem validF_obj (f : Nat) (env : Env) (kvs : Kvs) (v : Json) (h : Json.lookup "$ref" kvs = none) :
    validF (f + 1) env (.obj kvs) v =
      if isNullable env kvs && v.isNull then true else keywordsOk env (validF f env) kvs v := by
  simp [validF, h]

theorem scalarPart_agree (env : Env) (A B : Kvs) (v : Json)
    (h : ∀ k ∈ scalarKeys, Json.lookup k A = Json.lookup k B) :
    (typeOk A v && enumOk A v && constOk A v && numberOk A v && stringOk env A v && formatOk env A v) =
    (typeOk B v && enumOk B v && constOk B v && numberOk B v && stringOk env B v && formatOk env B v) := by
  simp only [typeOk, enumOk, constOk, numberOk, minimumOk, maximumOk, multipleOfOk, stringOk, lenBoundsOk, natKw, formatOk,
    h "type" (by decide), h "enum" (by decide), h "const" (by decide), h "minimum" (by decide),
    h "exclusiveMinimum" (by decide), h "maximum" (by decide), h "exclusiveMaximum" (by decide),
    h "multipleOf" (by decide), h "minLength" (by decide), h "maxLength" (by decide), h "pattern" (by decide),
    h "format" (by decide)]

/-- relation between a converted sub-schema and its original: same validity on every instance -/
def SubRel (recA recB : Json → Json → Bool) (a b : Json) : Prop := ∀ x, recA a x = recB b x

def OptRel (R : Json → Json → Prop) : Option Json → Option Json → Prop
  | none, none => True
  | some a, some b => R a b
  | _, _ => False


theorem arrayOk_rel (recA recB : Json → Json → Bool) (A B : Kvs) (v : Json)
    (h : ∀ k ∈ scalarKeys, Json.lookup k A = Json.lookup k B)
    (hi : OptRel (fun a b => notArr a = true ∧ notArr b = true ∧ SubRel recA recB a b)
            (Json.lookup "items" A) (Json.lookup "items" B)) :
    arrayOk recA A v = arrayOk recB B v := by
  cases v <;> simp only [arrayOk]
  rename_i xs
  simp only [lenBoundsOk, natKw, h "minItems" (by decide), h "maxItems" (by decide), h "uniqueItems" (by decide)]
  congr 1
  cases ha : Json.lookup "items" A with
  | none =>
    cases hb : Json.lookup "items" B with
    | none => rfl
    | some b => simp [ha, hb, OptRel] at hi
  | some a =>
    cases hb : Json.lookup "items" B with
    | none => simp [ha, hb, OptRel] at hi
    | some b =>
      simp only [ha, hb, OptRel] at hi
      obtain ⟨h1, h2, h3⟩ := hi
      cases a <;> cases b <;> simp_all [notArr, SubRel]

inductive Forall2 (R : Json → Json → Prop) : List Json → List Json → Prop
  | nil : Forall2 R [] []
  | cons {a b as bs} : R a b → Forall2 R as bs → Forall2 R (a :: as) (b :: bs)

def ListRel (R : Json → Json → Prop) : Json → Json → Prop
  | .arr as, .arr bs => Forall2 R as bs
  | _, _ => False

theorem all_rel (recA recB : Json → Json → Bool) (v : Json) (as bs : List Json)
    (h : Forall2 (SubRel recA recB) as bs) : as.all (recA · v) = bs.all (recB · v) := by
  induction h with
  | nil => rfl
  | cons hab _ ih => simp only [List.all_cons, ih, hab v]

theorem any_rel (recA recB : Json → Json → Bool) (v : Json) (as bs : List Json)
    (h : Forall2 (SubRel recA recB) as bs) : as.any (recA · v) = bs.any (recB · v) := by
  induction h with
  | nil => rfl
  | cons hab _ ih => simp only [List.any_cons, ih, hab v]

theorem countTrue_rel (recA recB : Json → Json → Bool) (v : Json) (as bs : List Json)
    (h : Forall2 (SubRel recA recB) as bs) : countTrue recA v as = countTrue recB v bs := by
  induction h with
  | nil => rfl
  | cons hab _ ih => simp only [countTrue, ih, hab v]

theorem combinatorsOk_rel (recA recB : Json → Json → Bool) (A B : Kvs) (v : Json)
    (hall : OptRel (ListRel (SubRel recA recB)) (Json.lookup "allOf" A) (Json.lookup "allOf" B))
    (hany : OptRel (ListRel (SubRel recA recB)) (Json.lookup "anyOf" A) (Json.lookup "anyOf" B))
    (hone : OptRel (ListRel (SubRel recA recB)) (Json.lookup "oneOf" A) (Json.lookup "oneOf" B))
    (hnot : OptRel (SubRel recA recB) (Json.lookup "not" A) (Json.lookup "not" B)) :
    combinatorsOk recA A v = combinatorsOk recB B v := by
  unfold combinatorsOk
  congr 1
  congr 1
  congr 1
  · cases ha : Json.lookup "allOf" A <;> cases hb : Json.lookup "allOf" B <;> simp only [ha, hb, OptRel] at hall ⊢
    rename_i a b
    cases a <;> cases b <;> simp only [ListRel] at hall
    exact all_rel recA recB v _ _ hall
  · cases ha : Json.lookup "anyOf" A <;> cases hb : Json.lookup "anyOf" B <;> simp only [ha, hb, OptRel] at hany ⊢
    rename_i a b
    cases a <;> cases b <;> simp only [ListRel] at hany
    exact any_rel recA recB v _ _ hany
  · cases ha : Json.lookup "oneOf" A <;> cases hb : Json.lookup "oneOf" B <;> simp only [ha, hb, OptRel] at hone ⊢
    rename_i a b
    cases a <;> cases b <;> simp only [ListRel] at hone
    show (countTrue recA v _ == 1) = (countTrue recB v _ == 1)
    rw [countTrue_rel recA recB v _ _ hone]
  · cases ha : Json.lookup "not" A <;> cases hb : Json.lookup "not" B <;> simp only [ha, hb, OptRel] at hnot ⊢
    rw [hnot v]

/-! ### objectOk -/

theorem objectOk_agree (env : Env) (rec : Json → Json → Bool) (A B : Kvs) (v : Json)
    (h1 : Json.lookup "minProperties" A = Json.lookup "minProperties" B)
    (h2 : Json.lookup "maxProperties" A = Json.lookup "maxProperties" B)
    (h3 : requiredOf A = requiredOf B) (h4 : propsOf A = propsOf B) (h5 : patternPropsOf A = patternPropsOf B)
    (h6 : Json.lookup "additionalProperties" A = Json.lookup "additionalProperties" B) :
    objectOk env rec A v = objectOk env rec B v := by
  cases v <;> simp only [objectOk, lenBoundsOk, natKw, h1, h2, h3, h4, h5, h6]

/-- property maps: same keys in the same order, related values -/
inductive PropsRel (R : Json → Json → Prop) : Kvs → Kvs → Prop
  | nil : PropsRel R [] []
  | cons {k a b as bs} : R a b → PropsRel R as bs → PropsRel R ((k, a) :: as) ((k, b) :: bs)

theorem PropsRel.lookup {R : Json → Json → Prop} {as bs : Kvs} (h : PropsRel R as bs) (k : String) :
    OptRel R (Json.lookup k as) (Json.lookup k bs) := by
  induction h with
  | nil => simp [Json.lookup, OptRel]
  | @cons k' a b as bs hab _ ih =>
    by_cases hk : k = k'
    · subst hk; simpa [Json.lookup, OptRel] using hab
    · simpa [Json.lookup, hk] using ih

theorem PropsRel.all_re {recA recB : Json → Json → Bool} {as bs : Kvs} (h : PropsRel (SubRel recA recB) as bs)
    (re : String → String → Bool) (k : String) (x : Json) :
    (as.all fun (p, ps) => !(re p k) || recA ps x) = (bs.all fun (p, ps) => !(re p k) || recB ps x) := by
  induction h with
  | nil => rfl
  | cons hab _ ih => simp only [List.all_cons, ih, hab x]

theorem PropsRel.any_re {R : Json → Json → Prop} {as bs : Kvs} (h : PropsRel R as bs)
    (re : String → String → Bool) (k : String) :
    (as.any fun (p, _) => re p k) = (bs.any fun (p, _) => re p k) := by
  induction h with
  | nil => rfl
  | cons _ _ ih => simp only [List.any_cons, ih]

theorem objectOk_rel (envA envB : Env) (recA recB : Json → Json → Bool) (A B : Kvs) (v : Json)
    (hre : envA.re = envB.re)
    (h1 : Json.lookup "minProperties" A = Json.lookup "minProperties" B)
    (h2 : Json.lookup "maxProperties" A = Json.lookup "maxProperties" B)
    (h3 : requiredOf A = requiredOf B)
    (hfa : ∀ s, forbiddenProp envA s = false)
    (hfb : ∀ k s, Json.lookup k (propsOf B) = some s → forbiddenProp envB s = false)
    (h4 : PropsRel (SubRel recA recB) (propsOf A) (propsOf B))
    (h5 : PropsRel (SubRel recA recB) (patternPropsOf A) (patternPropsOf B))
    (h6 : OptRel (SubRel recA recB) (Json.lookup "additionalProperties" A) (Json.lookup "additionalProperties" B)) :
    objectOk envA recA A v = objectOk envB recB B v := by
  cases v <;> simp only [objectOk]
  rename_i members
  simp only [lenBoundsOk, natKw, h1, h2, h3, hre]
  have hl := fun k => h4.lookup k
  congr 1
  congr 1
  congr 1
  congr 1
  · -- required
    apply List.all_congr rfl
    intro k
    congr 1
    have := hl k
    cases ha : Json.lookup k (propsOf A) <;> cases hb : Json.lookup k (propsOf B) <;> simp only [ha, hb, OptRel] at this ⊢
    rw [hfa, hfb k _ hb]
  · -- declared properties
    apply List.all_congr rfl
    intro ⟨k, x⟩
    have := hl k
    cases ha : Json.lookup k (propsOf A) <;> cases hb : Json.lookup k (propsOf B) <;> simp only [ha, hb, OptRel] at this ⊢
    rw [hfa, hfb k _ hb, this x]
  · -- patternProperties
    apply List.all_congr rfl
    intro ⟨k, x⟩
    exact h5.all_re envB.re k x
  · -- additionalProperties
    cases ha : Json.lookup "additionalProperties" A <;> cases hb : Json.lookup "additionalProperties" B <;>
      simp only [ha, hb, OptRel] at h6 ⊢
    apply List.all_congr rfl
    intro ⟨k, x⟩
    have := hl k
    rw [h5.any_re envB.re k, h6 x]
    congr 2
    cases ha : Json.lookup k (propsOf A) <;> cases hb : Json.lookup k (propsOf B) <;> simp only [ha, hb, OptRel] at this ⊢ <;> rfl

/-! ### `transform` / `callback` facts -/

theorem transform_scalar (cfg : Cfg) (c : Nat) (x : Json) (h : isScalar x = true) : transform cfg c x = x := by
  cases c with
  | zero => rfl
  | succ c => cases x <;> simp_all [transform, isScalar]

theorem transform_inert (cfg : Cfg) (c : Nat) (x : Json) (h : inert x = true) : transform cfg c x = x := by
  cases c with
  | zero => rfl
  | succ c =>
    cases x with
    | arr xs =>
      simp only [inert, List.all_eq_true] at h
      simp only [transform]
      congr 1
      have : ∀ y ∈ xs, transform cfg c y = y := fun y hy => transform_scalar cfg c y (h y hy)
      calc xs.map (transform cfg c) = xs.map id := List.map_congr_left this
        _ = xs := List.map_id xs
    | obj kvs => simp [inert] at h
    | _ => rfl

theorem transform_bool (cfg : Cfg) (c : Nat) (b : Bool) : transform cfg c (.bool b) = .bool b := by
  cases c <;> rfl

theorem lookup_mem {k : String} {x : Json} {kvs : Kvs} (h : Json.lookup k kvs = some x) : (k, x) ∈ kvs := by
  induction kvs with
  | nil => simp [Json.lookup] at h
  | cons hd t ih =>
    obtain ⟨k', v'⟩ := hd
    by_cases hk : k = k'
    · subst hk; simp [Json.lookup] at h; simp [h]
    · simp only [Json.lookup, hk, beq_iff_eq, if_false] at h
      exact List.mem_cons_of_mem _ (ih h)

/-- the callback leaves a `properties` map alone when all its values are dicts -/
theorem callback_props (cfg : Cfg) (ps : Kvs) (h : ∀ k s, (k, s) ∈ ps → s.isObj = true) : callback cfg ps = ps := by
  have hno : ∀ k x, Json.lookup k ps = some x → x.isObj = true := fun k x hx => h k x (lookup_mem hx)
  have h1 : callback cfg ps = callbackBody cfg ps := by
    unfold callback
    cases hl : Json.lookup cfg.nn ps with
    | none => rfl
    | some x => have := hno _ _ hl; cases x <;> simp_all [Json.isObj]
  rw [h1]
  unfold callbackBody
  have hty : ∀ x, Json.lookup "type" ps = some x → x.isObj = true := hno "type"
  have hpat : updatePattern cfg ps = ps := by
    unfold updatePattern
    cases hl : Json.lookup "pattern" ps with
    | none => rfl
    | some x => have := hno _ _ hl; cases x <;> simp_all [Json.isObj]
  cases hl : Json.lookup "type" ps with
  | none => simp [isFileType, isObjectType, hpat]
  | some x =>
    have := hty x hl
    cases x <;> simp_all [Json.isObj, isFileType, isObjectType]

structure SubsOK (t : Json → Json) (recA recB : Json → Json → Bool) (envB : Env) (K : Kvs) : Prop where
  scalars : ∀ k ∈ scalarKeys, ∀ x, Json.lookup k K = some x → t x = x
  items : ∀ s, Json.lookup "items" K = some s → notArr (t s) = true ∧ notArr s = true ∧ SubRel recA recB (t s) s
  not_ : ∀ s, Json.lookup "not" K = some s → SubRel recA recB (t s) s
  addl : ∀ s, Json.lookup "additionalProperties" K = some s → SubRel recA recB (t s) s
  lists : ∀ k ∈ listKeys, ∀ x, Json.lookup k K = some x → ListRel (SubRel recA recB) (t x) x
  props : ∀ x, Json.lookup "properties" K = some x → ∃ psA psB, t x = .obj psA ∧ x = .obj psB ∧
    PropsRel (SubRel recA recB) psA psB ∧ ∀ k s, Json.lookup k psB = some s → forbiddenProp envB s = false
  pprops : ∀ x, Json.lookup "patternProperties" K = some x → ∃ psA psB, t x = .obj psA ∧ x = .obj psB ∧
    PropsRel (SubRel recA recB) psA psB

theorem optRel_map {R : Json → Json → Prop} (t : Json → Json) (o : Option Json)
    (h : ∀ x, o = some x → R (t x) x) : OptRel R (o.map t) o := by
  cases o with
  | none => trivial
  | some x => exact h x rfl

theorem lookup_map_scalar (t : Json → Json) (K : Kvs) (k : String)
    (h : ∀ x, Json.lookup k K = some x → t x = x) : Json.lookup k (mapVals t K) = Json.lookup k K := by
  rw [lookup_mapVals]
  cases hl : Json.lookup k K with
  | none => rfl
  | some x => simp [h x hl]

theorem propsOf_map (t : Json → Json) (K : Kvs) (R : Json → Json → Prop)
    (h : ∀ x, Json.lookup "properties" K = some x → ∃ psA psB, t x = .obj psA ∧ x = .obj psB ∧ PropsRel R psA psB) :
    PropsRel R (propsOf (mapVals t K)) (propsOf K) := by
  unfold propsOf
  rw [lookup_mapVals]
  cases hl : Json.lookup "properties" K with
  | none => exact .nil
  | some x =>
    obtain ⟨psA, psB, h1, h2, h3⟩ := h x hl
    subst h2
    simp only [Option.map, h1]
    exact h3

theorem patternPropsOf_map (t : Json → Json) (K : Kvs) (R : Json → Json → Prop)
    (h : ∀ x, Json.lookup "patternProperties" K = some x → ∃ psA psB, t x = .obj psA ∧ x = .obj psB ∧ PropsRel R psA psB) :
    PropsRel R (patternPropsOf (mapVals t K)) (patternPropsOf K) := by
  unfold patternPropsOf
  rw [lookup_mapVals]
  cases hl : Json.lookup "patternProperties" K with
  | none => exact .nil
  | some x =>
    obtain ⟨psA, psB, h1, h2, h3⟩ := h x hl
    subst h2
    simp only [Option.map, h1]
    exact h3

/-- the keyword checks of a dict whose values were converted = the keyword checks of the original dict -/
theorem keywordsOk_map (t : Json → Json) (envA envB : Env) (recA recB : Json → Json → Bool) (K : Kvs) (v : Json)
    (hre : envA.re = envB.re) (hfmt : envA.fmt = envB.fmt) (hfa : ∀ s, forbiddenProp envA s = false)
    (H : SubsOK t recA recB envB K) :
    keywordsOk envA recA (mapVals t K) v = keywordsOk envB recB K v := by
  have hs : ∀ k ∈ scalarKeys, Json.lookup k (mapVals t K) = Json.lookup k K :=
    fun k hk => lookup_map_scalar t K k (H.scalars k hk)
  unfold keywordsOk
  congr 1
  congr 1
  congr 1
  · rw [scalarPart_agree envA _ _ v hs]
    simp only [stringOk, formatOk, hre, hfmt]
  · apply arrayOk_rel _ _ _ _ _ hs
    rw [lookup_mapVals]
    exact optRel_map t _ (fun s hs' => H.items s hs')
  · apply objectOk_rel envA envB recA recB _ _ v hre (hs _ (by decide)) (hs _ (by decide))
    · simp only [requiredOf, hs "required" (by decide)]
    · exact hfa
    · intro k s hk
      unfold propsOf at hk
      cases hl : Json.lookup "properties" K with
      | none => simp [hl, Json.lookup] at hk
      | some x =>
        obtain ⟨psA, psB, _, h2, _, h4⟩ := H.props x hl
        subst h2
        simp only [hl] at hk
        exact h4 k s hk
    · exact propsOf_map t K _ (fun x hx => by
        obtain ⟨psA, psB, h1, h2, h3, _⟩ := H.props x hx
        exact ⟨psA, psB, h1, h2, h3⟩)
    · exact patternPropsOf_map t K _ H.pprops
    · rw [lookup_mapVals]; exact optRel_map t _ H.addl
  · apply combinatorsOk_rel
    · rw [lookup_mapVals]; exact optRel_map t _ (H.lists "allOf" (by decide))
    · rw [lookup_mapVals]; exact optRel_map t _ (H.lists "anyOf" (by decide))
    · rw [lookup_mapVals]; exact optRel_map t _ (H.lists "oneOf" (by decide))
    · rw [lookup_mapVals]; exact optRel_map t _ H.not_


/-! ### `callbackBody` on a dict without forbidden properties -/

theorem lookup_setKey_same (k : String) (v : Json) (K : Kvs) (h : Json.lookup k K = some v) (k2 : String) :
    Json.lookup k2 (setKey k v K) = Json.lookup k2 K := by
  by_cases hk : k2 = k
  · subst hk; rw [lookup_setKey_self, h]
  · exact lookup_setKey_ne k k2 v K hk

theorem updatePattern_cases (cfg : Cfg) (K : Kvs) :
    updatePattern cfg K = K ∨
    ∃ p lo hi, Json.lookup "pattern" K = some (.str p) ∧ decLen (Json.lookup "minLength" K) = some lo ∧
      decLen (Json.lookup "maxLength" K) = some hi ∧ cfg.upd p lo hi ≠ p ∧
      (updatePattern cfg K = setKey "pattern" (.str (cfg.upd p lo hi)) K ∨
       updatePattern cfg K = setKey "pattern" (.str (cfg.upd p lo hi)) (eraseKey "maxLength" (eraseKey "minLength" K))) := by
  unfold updatePattern
  cases hp : Json.lookup "pattern" K with
  | none => left; rfl
  | some x =>
    cases x with
    | str p =>
      dsimp only
      by_cases hc : (p != "" && (truthyOpt (Json.lookup "minLength" K) || truthyOpt (Json.lookup "maxLength" K))) = true
      · simp only [hc, if_true]
        cases hlo : decLen (Json.lookup "minLength" K) with
        | none => left; rfl
        | some lo =>
          cases hhi : decLen (Json.lookup "maxLength" K) with
          | none => left; rfl
          | some hi =>
            dsimp only
            by_cases hn : (cfg.upd p lo hi != p) = true
            · right
              refine ⟨p, lo, hi, rfl, rfl, rfl, by simpa using hn, ?_⟩
              simp only [hn, if_true]
              by_cases hk : (cfg.vLen == Variant.repaired && !cfg.anch p) = true
              · left; simp only [hk, if_true]
              · right; simp only [hk, Bool.false_eq_true, if_false]
            · left; simp only [hn, Bool.false_eq_true, if_false]
      · left; simp only [hc, Bool.false_eq_true, if_false]
    | _ => left; rfl

theorem updatePattern_lookup_ne (cfg : Cfg) (K : Kvs) (k : String)
    (h1 : k ≠ "pattern") (h2 : k ≠ "minLength") (h3 : k ≠ "maxLength") :
    Json.lookup k (updatePattern cfg K) = Json.lookup k K := by
  rcases updatePattern_cases cfg K with h | ⟨p, lo, hi, _, _, _, _, h | h⟩ <;> rw [h]
  · exact lookup_setKey_ne _ _ _ _ h1
  · rw [lookup_setKey_ne _ _ _ _ h1, lookup_eraseKey_ne _ _ _ h3, lookup_eraseKey_ne _ _ _ h2]

theorem updatePattern_lookup_some (cfg : Cfg) (K : Kvs) (k : String) (x : Json)
    (h : Json.lookup k (updatePattern cfg K) = some x) :
    Json.lookup k K = some x ∨ (k = "pattern" ∧ ∃ p, x = .str p) := by
  rcases updatePattern_cases cfg K with e | ⟨p, lo, hi, _, _, _, _, e | e⟩ <;> rw [e] at h
  · left; exact h
  · by_cases hk : k = "pattern"
    · subst hk; rw [lookup_setKey_self] at h; right; exact ⟨rfl, _, (Option.some.inj h).symm⟩
    · rw [lookup_setKey_ne _ _ _ _ hk] at h; left; exact h
  · by_cases hk : k = "pattern"
    · subst hk; rw [lookup_setKey_self] at h; right; exact ⟨rfl, _, (Option.some.inj h).symm⟩
    · rw [lookup_setKey_ne _ _ _ _ hk] at h
      left
      by_cases h3 : k = "maxLength"
      · subst h3; rw [lookup_eraseKey_self] at h; cases h
      · rw [lookup_eraseKey_ne _ _ _ h3] at h
        by_cases h2 : k = "minLength"
        · subst h2; rw [lookup_eraseKey_self] at h; cases h
        · rw [lookup_eraseKey_ne _ _ _ h2] at h; exact h


theorem natKw_decLen (K : Kvs) (k : String) (o : Option Nat) (h : decLen (Json.lookup k K) = some o) : natKw K k = o := by
  unfold natKw
  cases hl : Json.lookup k K with
  | none => simp [hl, decLen] at h; exact h
  | some x =>
    rw [hl] at h
    cases x with
    | num m e =>
      cases e with
      | zero =>
        by_cases hm : m ≥ 0
        · simp only [decLen, hm, if_true, Option.some.injEq] at h; simp [hm, h]
        · simp [decLen, hm] at h
      | succ e => simp [decLen] at h
    | null => simp [decLen] at h; exact h
    | _ => simp [decLen] at h

theorem lenBoundsOk_lenIn (K : Kvs) (lo hi : Option Nat) (n : Nat)
    (h1 : natKw K "minLength" = lo) (h2 : natKw K "maxLength" = hi) :
    lenBoundsOk K "minLength" "maxLength" n = lenIn lo hi n := by
  unfold lenBoundsOk lenIn
  rw [h1, h2]
  cases lo <;> cases hi <;> simp

theorem natKw_congr (A B : Kvs) (k : String) (h : Json.lookup k A = Json.lookup k B) : natKw A k = natKw B k := by
  unfold natKw; rw [h]

theorem updatePattern_stringOk (env : Env) (cfg : Cfg) (hp : PatExact env cfg) (K : Kvs) (v : Json) :
    stringOk env (updatePattern cfg K) v = stringOk env K v := by
  rcases updatePattern_cases cfg K with e | ⟨p, lo, hi, hpat, hlo, hhi, hne, e | e⟩ <;> rw [e]
  · cases v <;> simp only [stringOk]
    rename_i s
    have a1 : natKw (setKey "pattern" (.str (cfg.upd p lo hi)) K) "minLength" = lo := by
      rw [natKw_congr _ K _ (lookup_setKey_ne _ _ _ _ (by decide))]; exact natKw_decLen K _ lo hlo
    have a2 : natKw (setKey "pattern" (.str (cfg.upd p lo hi)) K) "maxLength" = hi := by
      rw [natKw_congr _ K _ (lookup_setKey_ne _ _ _ _ (by decide))]; exact natKw_decLen K _ hi hhi
    rw [lenBoundsOk_lenIn _ lo hi _ a1 a2, lenBoundsOk_lenIn K lo hi _ (natKw_decLen K _ lo hlo) (natKw_decLen K _ hi hhi),
      lookup_setKey_self, hpat]
    simp only [hp p lo hi s hne]
    cases env.re p s <;> cases lenIn lo hi s.length <;> rfl
  · cases v <;> simp only [stringOk]
    rename_i s
    have a1 : natKw (setKey "pattern" (.str (cfg.upd p lo hi)) (eraseKey "maxLength" (eraseKey "minLength" K))) "minLength" = none := by
      unfold natKw
      rw [lookup_setKey_ne _ _ _ _ (by decide), lookup_eraseKey_ne _ _ _ (by decide), lookup_eraseKey_self]
    have a2 : natKw (setKey "pattern" (.str (cfg.upd p lo hi)) (eraseKey "maxLength" (eraseKey "minLength" K))) "maxLength" = none := by
      unfold natKw
      rw [lookup_setKey_ne _ _ _ _ (by decide), lookup_eraseKey_self]
    rw [lenBoundsOk_lenIn _ none none _ a1 a2, lenBoundsOk_lenIn K lo hi _ (natKw_decLen K _ lo hlo) (natKw_decLen K _ hi hhi),
      lookup_setKey_self, hpat]
    simp only [hp p lo hi s hne]
    cases env.re p s <;> cases lenIn lo hi s.length <;> simp [lenIn]


theorem filter_none_forbidden (cfg : Cfg) (ps : Kvs)
    (h : ((ps.filter fun (_, s) => forbiddenPred cfg s).map (·.1)) = []) :
    (ps.filter fun (_, s) => !forbiddenPred cfg s) = ps := by
  rw [List.filter_eq_self]
  intro ⟨k, s⟩ hm
  have : (ps.filter fun (_, s) => forbiddenPred cfg s) = [] := List.map_eq_nil_iff.mp h
  rw [List.filter_eq_nil_iff] at this
  have := this (k, s) hm
  simpa using this

theorem rewriteProps_nil (cfg : Cfg) (K : Kvs) (h : forbiddenNames cfg K = []) :
    ∃ K2, (∀ k, Json.lookup k K2 = Json.lookup k K) ∧ rewriteProps cfg K = popFalsy "properties" (popFalsy "required" K2) := by
  unfold rewriteProps
  simp only [h, List.isEmpty_nil, if_true]
  refine ⟨_, ?_, rfl⟩
  have e1 : ∀ k, Json.lookup k (rpRequired [] K) = Json.lookup k K := by
    intro k
    unfold rpRequired
    split
    · rename_i req hr; exact lookup_setKey_same _ _ _ hr k
    · rfl
  intro k
  unfold rpProps
  split
  · rename_i ps hps
    have hps' := hps
    rw [e1] at hps'
    have hf : (ps.filter fun (_, s) => !forbiddenPred cfg s) = ps := by
      apply filter_none_forbidden
      unfold forbiddenNames propsMap at h
      simpa [hps'] using h
    rw [hf, lookup_setKey_same _ _ _ hps, e1]
  · exact e1 k


theorem popFalsy_lookup_ne (k k2 : String) (K : Kvs) (h : k2 ≠ k) : Json.lookup k2 (popFalsy k K) = Json.lookup k2 K := by
  unfold popFalsy; split
  · rfl
  · exact lookup_eraseKey_ne _ _ _ h

theorem popFalsy_lookup_some (k k2 : String) (K : Kvs) (x : Json) (h : Json.lookup k2 (popFalsy k K) = some x) :
    Json.lookup k2 K = some x := by
  unfold popFalsy at h; split at h
  · exact h
  · by_cases hk : k2 = k
    · subst hk; rw [lookup_eraseKey_self] at h; cases h
    · rwa [lookup_eraseKey_ne _ _ _ hk] at h

theorem requiredOf_popFalsy (K : Kvs) : requiredOf (popFalsy "required" K) = requiredOf K := by
  unfold popFalsy; split
  · rfl
  · rename_i ht
    unfold requiredOf
    rw [lookup_eraseKey_self]
    cases hl : Json.lookup "required" K with
    | none => rfl
    | some x =>
      cases x with
      | arr xs => cases xs <;> simp_all [truthyOpt, truthy]
      | _ => rfl

theorem propsOf_popFalsy (K : Kvs) : propsOf (popFalsy "properties" K) = propsOf K := by
  unfold popFalsy; split
  · rfl
  · rename_i ht
    unfold propsOf
    rw [lookup_eraseKey_self]
    cases hl : Json.lookup "properties" K with
    | none => rfl
    | some x =>
      cases x with
      | obj ps => cases ps <;> simp_all [truthyOpt, truthy]
      | _ => rfl

theorem requiredOf_congr (A B : Kvs) (h : Json.lookup "required" A = Json.lookup "required" B) : requiredOf A = requiredOf B := by
  unfold requiredOf; rw [h]
theorem propsOf_congr (A B : Kvs) (h : Json.lookup "properties" A = Json.lookup "properties" B) : propsOf A = propsOf B := by
  unfold propsOf; rw [h]

/-- keys whose lookups `callbackBody` leaves untouched on a dict without forbidden properties -/
def agreeKeys : List String :=
  ["type", "enum", "const", "minimum", "exclusiveMinimum", "maximum", "exclusiveMaximum", "multipleOf", "format",
   "minItems", "maxItems", "uniqueItems", "items", "minProperties", "maxProperties", "patternProperties",
   "additionalProperties", "allOf", "anyOf", "oneOf", "not"]

theorem keywordsOk_agree (env : Env) (rec : Json → Json → Bool) (A B : Kvs) (v : Json)
    (h : ∀ k ∈ agreeKeys, Json.lookup k A = Json.lookup k B)
    (hs : stringOk env A v = stringOk env B v) (hr : requiredOf A = requiredOf B) (hp : propsOf A = propsOf B) :
    keywordsOk env rec A v = keywordsOk env rec B v := by
  have ho : objectOk env rec A v = objectOk env rec B v := by
    cases v <;> simp only [objectOk, lenBoundsOk, natKw, patternPropsOf, hr, hp, h "minProperties" (by decide),
      h "maxProperties" (by decide), h "patternProperties" (by decide), h "additionalProperties" (by decide)]
  have ha : arrayOk rec A v = arrayOk rec B v := by
    cases v <;> simp only [arrayOk, lenBoundsOk, natKw, h "minItems" (by decide), h "maxItems" (by decide),
      h "uniqueItems" (by decide), h "items" (by decide)]
  simp only [keywordsOk, hs, ho, ha, typeOk, enumOk, constOk, numberOk, minimumOk, maximumOk, multipleOfOk, formatOk,
    combinatorsOk, h "type" (by decide), h "enum" (by decide), h "const" (by decide), h "minimum" (by decide),
    h "exclusiveMinimum" (by decide), h "maximum" (by decide), h "exclusiveMaximum" (by decide),
    h "multipleOf" (by decide), h "format" (by decide), h "allOf" (by decide), h "anyOf" (by decide),
    h "oneOf" (by decide), h "not" (by decide)]


/-- what the conversion theorems need to know about `callbackBody` on a dict that is not `type: file` and has no
    forbidden (readOnly / writeOnly) property -/
structure BodyFacts (env : Env) (cfg : Cfg) (K K' : Kvs) : Prop where
  some_ : ∀ k x, Json.lookup k K' = some x → Json.lookup k K = some x ∨ (k = "pattern" ∧ ∃ p, x = .str p)
  agree : ∀ k ∈ agreeKeys, Json.lookup k K' = Json.lookup k K
  ref : Json.lookup "$ref" K' = Json.lookup "$ref" K
  req : requiredOf K' = requiredOf K
  props : propsOf K' = propsOf K
  str : ∀ v, stringOk env K' v = stringOk env K v

theorem forbiddenNames_congr (cfg : Cfg) (A B : Kvs) (h : Json.lookup "properties" A = Json.lookup "properties" B) :
    forbiddenNames cfg A = forbiddenNames cfg B := by
  unfold forbiddenNames propsMap; rw [h]

theorem stringOk_congr (env : Env) (A B : Kvs) (v : Json)
    (h1 : Json.lookup "pattern" A = Json.lookup "pattern" B) (h2 : Json.lookup "minLength" A = Json.lookup "minLength" B)
    (h3 : Json.lookup "maxLength" A = Json.lookup "maxLength" B) : stringOk env A v = stringOk env B v := by
  cases v <;> simp only [stringOk, lenBoundsOk, natKw, h1, h2, h3]

theorem mem_agreeKeys_ne {k : String} (h : k ∈ agreeKeys) :
    k ≠ "pattern" ∧ k ≠ "minLength" ∧ k ≠ "maxLength" ∧ k ≠ "required" ∧ k ≠ "properties" ∧ k ≠ "$ref" := by
  simp only [agreeKeys, List.mem_cons, List.mem_nil_iff, or_false] at h
  rcases h with h | h | h | h | h | h | h | h | h | h | h | h | h | h | h | h | h | h | h | h | h <;> subst h <;> decide

theorem callbackBody_facts (env : Env) (cfg : Cfg) (hp : cfg.updQ = true → PatExact env cfg) (K : Kvs)
    (hfile : isFileType (Json.lookup "type" K) = false)
    (hro : forbiddenNames cfg K = []) : BodyFacts env cfg K (callbackBody cfg K) := by
  -- the pattern step
  have hK2 : BodyFacts env cfg K (if cfg.updQ then updatePattern cfg K else K) := by
    by_cases hq : cfg.updQ = true
    · simp only [hq, if_true]
      have ne := fun k (h : k ∈ agreeKeys) => mem_agreeKeys_ne h
      exact {
        some_ := updatePattern_lookup_some cfg K
        agree := fun k hk => updatePattern_lookup_ne cfg K k (ne k hk).1 (ne k hk).2.1 (ne k hk).2.2.1
        ref := updatePattern_lookup_ne cfg K _ (by decide) (by decide) (by decide)
        req := requiredOf_congr _ _ (updatePattern_lookup_ne cfg K _ (by decide) (by decide) (by decide))
        props := propsOf_congr _ _ (updatePattern_lookup_ne cfg K _ (by decide) (by decide) (by decide))
        str := updatePattern_stringOk env cfg (hp hq) K }
    · simp only [hq, Bool.false_eq_true, if_false]
      exact ⟨fun _ _ h => .inl h, fun _ _ => rfl, rfl, rfl, rfl, fun _ => rfl⟩
  unfold callbackBody
  simp only [hfile, Bool.false_eq_true, if_false]
  split
  · -- type: object, nothing to forbid
    generalize hK2def : (if cfg.updQ = true then updatePattern cfg K else K) = K2 at hK2 ⊢
    have hprops : Json.lookup "properties" K2 = Json.lookup "properties" K := by
      have := hK2.props
      by_cases hq : cfg.updQ = true
      · rw [← hK2def]; simp only [hq, if_true]
        exact updatePattern_lookup_ne cfg K _ (by decide) (by decide) (by decide)
      · rw [← hK2def]; simp only [hq, Bool.false_eq_true, if_false]
    obtain ⟨K3, h3, e⟩ := rewriteProps_nil cfg K2 (by rw [forbiddenNames_congr cfg K2 K hprops]; exact hro)
    rw [e]
    exact {
      some_ := fun k x h => hK2.some_ k x (by
        have := popFalsy_lookup_some _ _ _ _ (popFalsy_lookup_some _ _ _ _ h)
        rwa [h3] at this)
      agree := fun k hk => by
        have ne := mem_agreeKeys_ne hk
        rw [popFalsy_lookup_ne _ _ _ ne.2.2.2.2.1, popFalsy_lookup_ne _ _ _ ne.2.2.2.1, h3, hK2.agree k hk]
      ref := by rw [popFalsy_lookup_ne _ _ _ (by decide), popFalsy_lookup_ne _ _ _ (by decide), h3, hK2.ref]
      req := by
        rw [requiredOf_congr _ (popFalsy "required" K3) (popFalsy_lookup_ne _ _ _ (by decide)), requiredOf_popFalsy,
          requiredOf_congr _ K2 (h3 _), hK2.req]
      props := by
        rw [propsOf_popFalsy, propsOf_congr _ K3 (popFalsy_lookup_ne _ _ _ (by decide)), propsOf_congr _ K2 (h3 _), hK2.props]
      str := fun v => by
        rw [← hK2.str v]
        apply stringOk_congr <;>
          rw [popFalsy_lookup_ne _ _ _ (by decide), popFalsy_lookup_ne _ _ _ (by decide), h3] }
  · exact hK2


/-! ### the conversion is exact on the fragment -/

theorem frag_shape (nn : String) (f c : Nat) (s : Json) (h : Frag nn f c s = true) :
    (∃ b, s = .bool b) ∨ (∃ kvs, s = .obj kvs) := by
  cases f with
  | zero => simp [Frag] at h
  | succ f => cases s <;> simp_all [Frag]

theorem transform_obj_isObj (cfg : Cfg) (c : Nat) (kvs : Kvs) : ∃ K, transform cfg c (.obj kvs) = .obj K := by
  cases c with
  | zero => exact ⟨_, rfl⟩
  | succ c => exact ⟨_, rfl⟩

theorem frag_notArr (cfg : Cfg) (nn : String) (f c c2 : Nat) (s : Json) (h : Frag nn f c s = true) :
    notArr (transform cfg c2 s) = true := by
  rcases frag_shape nn f c s h with ⟨b, rfl⟩ | ⟨kvs, rfl⟩
  · rw [transform_bool]; rfl
  · obtain ⟨K, hK⟩ := transform_obj_isObj cfg c2 kvs; rw [hK]; rfl

theorem forall2_map (R : Json → Json → Prop) (t : Json → Json) (ss : List Json) (h : ∀ s ∈ ss, R (t s) s) :
    Forall2 R (ss.map t) ss := by
  induction ss with
  | nil => exact .nil
  | cons a as ih =>
    exact .cons (h a (by simp)) (ih (fun s hs => h s (by simp [hs])))

theorem propsRel_mapVals (R : Json → Json → Prop) (t : Json → Json) (ps : Kvs) (h : ∀ k s, (k, s) ∈ ps → R (t s) s) :
    PropsRel R (mapVals t ps) ps := by
  induction ps with
  | nil => exact .nil
  | cons a as ih =>
    obtain ⟨k, s⟩ := a
    exact .cons (h k s (by simp)) (ih (fun k' s' hs => h k' s' (by simp [hs])))

theorem isReadOnly_flagTrue (s : Json) (h : isReadOnly s = false) : flagTrue s "readOnly" = false := by
  cases s <;> simp only [flagTrue]
  rename_i kvs
  simp only [isReadOnly] at h
  cases hl : Json.lookup "readOnly" kvs with
  | none => rfl
  | some x =>
    rw [hl] at h
    cases x <;> simp_all [truthyOpt, truthy]


theorem optAll_some {p : Json → Bool} {o : Option Json} (h : optAll p o = true) {x : Json} (hx : o = some x) : p x = true := by
  subst hx; exact h

/-- one schema object (after the nullable test): converted keywords under the plain reading = original keywords
    under the request-side reading, given the same for all sub-schemas (`IH`) -/
theorem core (cfg : Cfg) (env : Env) (hresp : cfg.resp = false) (hp : cfg.updQ = true → PatExact env cfg)
    (f g c : Nat)
    (IH : ∀ c s x g', Frag cfg.nn f c s = true → 2 * f ≤ g' →
      validF g' (envPlain env) (transform cfg c s) x = validF f (envRequest env cfg.nn) s x)
    (K : Kvs) (hfb : fragBody (fun c' s => Frag cfg.nn f c' s) c K = true) (hg : 2 * f ≤ g) (v : Json) :
    Json.lookup "$ref" (mapVals (transform cfg c) (callbackBody cfg K)) = none ∧
    keywordsOk (envPlain env) (validF g (envPlain env)) (mapVals (transform cfg c) (callbackBody cfg K)) v =
      keywordsOk (envRequest env cfg.nn) (validF f (envRequest env cfg.nn)) K v := by
  simp only [fragBody, Bool.and_eq_true] at hfb
  obtain ⟨⟨⟨⟨⟨⟨⟨⟨href, hsc⟩, hfile⟩, hitems⟩, hnot⟩, haddl⟩, hlists⟩, hprops⟩, hpprops⟩ := hfb
  have href' : Json.lookup "$ref" K = none := by simpa using href
  have hfile' : isFileType (Json.lookup "type" K) = false := by simpa using hfile
  rw [List.all_eq_true] at hsc hlists
  have sub : ∀ c s, Frag cfg.nn f c s = true → ∀ c2, c2 = c →
      SubRel (validF g (envPlain env)) (validF f (envRequest env cfg.nn)) (transform cfg c2 s) s :=
    fun c s h c2 hc x => by subst hc; exact IH c2 s x g h hg
  -- no forbidden property
  have hro : forbiddenNames cfg K = [] := by
    unfold forbiddenNames propsMap
    cases hl : Json.lookup "properties" K with
    | none => rfl
    | some x =>
      have hx := optAll_some hprops hl
      cases x with
      | obj ps =>
        simp only [fragProps, Bool.and_eq_true, List.all_eq_true] at hx
        simp only [List.map_eq_nil_iff, List.filter_eq_nil_iff]
        intro ⟨k, s⟩ hm
        have := (hx.2 (k, s) hm).2
        simp only [forbiddenPred, hresp]
        simpa using this
      | _ => rfl
  have facts := callbackBody_facts (envRequest env cfg.nn) cfg hp K hfile' hro
  -- every value of the converted dict is related to the original one
  have H : SubsOK (transform cfg c) (validF g (envPlain env)) (validF f (envRequest env cfg.nn)) (envRequest env cfg.nn)
      (callbackBody cfg K) := by
    refine ⟨?_, ?_, ?_, ?_, ?_, ?_, ?_⟩
    · intro k hk x hx
      rcases facts.some_ k x hx with h | ⟨_, p, rfl⟩
      · exact transform_inert cfg c x (optAll_some (hsc k hk) h)
      · exact transform_inert cfg c _ rfl
    · intro s hs
      rcases facts.some_ _ s hs with h | ⟨h, _⟩
      · have := optAll_some hitems h
        simp only [Bool.and_eq_true] at this
        exact ⟨frag_notArr cfg _ _ _ _ s this.2, this.1, sub c s this.2 c rfl⟩
      · exact absurd h (by decide)
    · intro s hs
      rcases facts.some_ _ s hs with h | ⟨h, _⟩
      · exact sub c s (optAll_some hnot h) c rfl
      · exact absurd h (by decide)
    · intro s hs
      rcases facts.some_ _ s hs with h | ⟨h, _⟩
      · exact sub c s (optAll_some haddl h) c rfl
      · exact absurd h (by decide)
    · intro k hk x hx
      rcases facts.some_ k x hx with h | ⟨h, _⟩
      · have hx' := optAll_some (hlists k hk) h
        cases x with
        | arr ss =>
          simp only [fragList, Bool.and_eq_true, decide_eq_true_eq, List.all_eq_true] at hx'
          obtain ⟨c', rfl⟩ : ∃ c', c = c' + 1 := ⟨c - 1, by omega⟩
          simp only [transform, ListRel]
          exact forall2_map _ _ ss (fun s hs' => sub _ s (hx'.2 s hs') c' (by omega))
        | _ => simp [fragList] at hx'
      · subst h; simp [listKeys] at hk
    · intro x hx
      rcases facts.some_ _ x hx with h | ⟨h, _⟩
      · have hx' := optAll_some hprops h
        cases x with
        | obj ps =>
          simp only [fragProps, Bool.and_eq_true, decide_eq_true_eq, List.all_eq_true] at hx'
          obtain ⟨c', rfl⟩ : ∃ c', c = c' + 1 := ⟨c - 1, by omega⟩
          refine ⟨mapVals (transform cfg c') ps, ps, ?_, rfl, ?_, ?_⟩
          · simp only [transform]
            rw [callback_props cfg ps (fun k s hm => (hx'.2 (k, s) hm).1.1)]
          · exact propsRel_mapVals _ _ ps (fun k s hm => sub _ s (hx'.2 (k, s) hm).1.2 c' (by omega))
          · intro k s hl
            have := (hx'.2 (k, s) (lookup_mem hl)).2
            simp only [Bool.true_and, Bool.not_eq_true'] at this
            simp only [forbiddenProp, envRequest]
            exact isReadOnly_flagTrue s this
        | _ => simp [fragProps] at hx'
      · exact absurd h (by decide)
    · intro x hx
      rcases facts.some_ _ x hx with h | ⟨h, _⟩
      · have hx' := optAll_some hpprops h
        cases x with
        | obj ps =>
          simp only [fragProps, Bool.and_eq_true, decide_eq_true_eq, List.all_eq_true] at hx'
          obtain ⟨c', rfl⟩ : ∃ c', c = c' + 1 := ⟨c - 1, by omega⟩
          refine ⟨mapVals (transform cfg c') ps, ps, ?_, rfl, ?_⟩
          · simp only [transform]
            rw [callback_props cfg ps (fun k s hm => (hx'.2 (k, s) hm).1.1)]
          · exact propsRel_mapVals _ _ ps (fun k s hm => sub _ s (hx'.2 (k, s) hm).1.2 c' (by omega))
        | _ => simp [fragProps] at hx'
      · exact absurd h (by decide)
  constructor
  · rw [lookup_mapVals, facts.ref, href']; rfl
  · rw [keywordsOk_map (transform cfg c) (envPlain env) (envRequest env cfg.nn) _ _ _ v rfl rfl
        (fun s => by simp [forbiddenProp, envPlain]) H]
    exact keywordsOk_agree _ _ _ _ v facts.agree (facts.str v) facts.req facts.props


theorem transform_nullS (cfg : Cfg) (hne : cfg.nn ≠ "type") (c : Nat) :
    transform cfg c (.obj [("type", .str "null")]) = .obj [("type", .str "null")] := by
  cases c with
  | zero => rfl
  | succ c =>
    have h1 : Json.lookup cfg.nn [("type", Json.str "null")] = none := by simp [Json.lookup, hne]
    have h2 : callback cfg [("type", Json.str "null")] = [("type", Json.str "null")] := by
      unfold callback
      rw [h1]
      simp [callbackBody, Json.lookup, isFileType, isObjectType, updatePattern]
    simp only [transform, h2, mapVals, List.map]
    rw [transform_scalar cfg c _ rfl]

theorem validF_nullS (env : Env) (n : Nat) (x : Json) :
    validF (n + 1) (envPlain env) (.obj [("type", .str "null")]) x = x.isNull := by
  cases x <;> simp [validF, Json.lookup, isNullable, envPlain, keywordsOk, typeOk, typeNameOk, enumOk, constOk, numberOk,
    stringOk, formatOk, arrayOk, objectOk, combinatorsOk, lenBoundsOk, natKw, propsOf, patternPropsOf, requiredOf,
    Json.isNull, minimumOk, maximumOk, multipleOfOk]

theorem validF_anyOf2 (env : Env) (n : Nat) (a b x : Json) :
    validF (n + 1) (envPlain env) (.obj [("anyOf", .arr [a, b])]) x =
      (validF n (envPlain env) a x || validF n (envPlain env) b x) := by
  cases x <;> simp [validF, Json.lookup, isNullable, envPlain, keywordsOk, typeOk, enumOk, constOk, numberOk,
    stringOk, formatOk, arrayOk, objectOk, combinatorsOk, lenBoundsOk, natKw, propsOf, patternPropsOf, requiredOf,
    minimumOk, maximumOk, multipleOfOk]


theorem nn_ne (cfg : Cfg) (hnn : cfg.nn = "nullable" ∨ cfg.nn = "x-nullable") :
    cfg.nn ≠ "type" ∧ cfg.nn ≠ "$ref" ∧ cfg.nn ≠ "pattern" ∧ cfg.nn ≠ "minLength" ∧ cfg.nn ≠ "maxLength" ∧
    cfg.nn ≠ "required" ∧ cfg.nn ≠ "properties" ∧ ∀ k ∈ agreeKeys, k ≠ cfg.nn := by
  rcases hnn with h | h <;> rw [h] <;> decide

theorem keywordsOk_eraseNn (cfg : Cfg) (hnn : cfg.nn = "nullable" ∨ cfg.nn = "x-nullable") (env : Env)
    (rec : Json → Json → Bool) (K : Kvs) (v : Json) :
    keywordsOk env rec (eraseKey cfg.nn K) v = keywordsOk env rec K v := by
  obtain ⟨_, _, h3, h4, h5, h6, h7, h8⟩ := nn_ne cfg hnn
  apply keywordsOk_agree
  · intro k hk; exact lookup_eraseKey_ne _ _ _ (h8 k hk)
  · apply stringOk_congr <;> apply lookup_eraseKey_ne <;> exact Ne.symm ‹_›
  · exact requiredOf_congr _ _ (lookup_eraseKey_ne _ _ _ (Ne.symm h6))
  · exact propsOf_congr _ _ (lookup_eraseKey_ne _ _ _ (Ne.symm h7))

theorem isNullable_plain (env : Env) (K : Kvs) : isNullable (envPlain env) K = false := by
  simp [isNullable, envPlain]

theorem conv_exact (cfg : Cfg) (env : Env) (hnn : cfg.nn = "nullable" ∨ cfg.nn = "x-nullable") (hresp : cfg.resp = false)
    (hp : cfg.updQ = true → PatExact env cfg) :
    ∀ f c s x g, Frag cfg.nn f c s = true → 2 * f ≤ g →
      validF g (envPlain env) (transform cfg c s) x = validF f (envRequest env cfg.nn) s x := by
  intro f
  induction f with
  | zero => intro c s x g h; simp [Frag] at h
  | succ f ih =>
    intro c s x g hF hg
    obtain ⟨hne_type, hne_ref, _⟩ := nn_ne cfg hnn
    cases s with
    | bool b =>
      obtain ⟨g', rfl⟩ : ∃ g', g = g' + 1 := ⟨g - 1, by omega⟩
      rw [transform_bool]; simp [validF]
    | obj kvs =>
      by_cases hl : Json.lookup cfg.nn kvs = some (.bool true)
      · -- nullable: wrapper around the converted body
        simp only [Frag, hl, Bool.and_eq_true, decide_eq_true_eq] at hF
        obtain ⟨hc, hfb⟩ := hF
        obtain ⟨c', rfl⟩ : ∃ c', c = c' + 3 := ⟨c - 3, by omega⟩
        obtain ⟨g', rfl⟩ : ∃ g', g = g' + 2 := ⟨g - 2, by omega⟩
        have hE : Json.lookup cfg.nn (eraseKey cfg.nn kvs) = none := lookup_eraseKey_self _ _
        have hcb : callback cfg (eraseKey cfg.nn kvs) = callbackBody cfg (eraseKey cfg.nn kvs) := by
          unfold callback; rw [hE]
        have hT : transform cfg (c' + 3) (.obj kvs) =
            .obj [("anyOf", .arr [.obj (mapVals (transform cfg c') (callbackBody cfg (eraseKey cfg.nn kvs))),
                                  .obj [("type", .str "null")]])] := by
          have : callback cfg kvs = [("anyOf", .arr [.obj (eraseKey cfg.nn kvs), .obj [("type", .str "null")]])] := by
            unfold callback; rw [hl]
          simp only [transform, this, mapVals, List.map, hcb]
          have := transform_nullS cfg hne_type (c' + 1)
          simp only [transform, mapVals] at this
          rw [this]
        have hco := core cfg env hresp hp f g' c' ih (eraseKey cfg.nn kvs) (by simpa using hfb) (by omega) x
        rw [hT, validF_anyOf2, validF_nullS, validF_obj _ _ _ _ hco.1, isNullable_plain, hco.2]
        have href : Json.lookup "$ref" kvs = none := by
          have : Json.lookup "$ref" (eraseKey cfg.nn kvs) = none := by
            simp only [fragBody, Bool.and_eq_true] at hfb
            simpa using hfb.1.1.1.1.1.1.1.1
          rwa [lookup_eraseKey_ne _ _ _ (Ne.symm hne_ref)] at this
        rw [validF_obj _ _ _ _ href, keywordsOk_eraseNn cfg hnn]
        have hn : isNullable (envRequest env cfg.nn) kvs = true := by
          simp [isNullable, envRequest, hl]
        rw [hn]
        cases x <;> simp [Json.isNull]
      · -- not nullable
        have hF' : decide (1 ≤ c) = true ∧ fragBody (fun c' s => Frag cfg.nn f c' s) (c - 1) kvs = true := by
          simp only [Frag] at hF
          simpa using hF
        obtain ⟨hc, hfb⟩ := hF'
        simp only [decide_eq_true_eq] at hc
        obtain ⟨c', rfl⟩ : ∃ c', c = c' + 1 := ⟨c - 1, by omega⟩
        obtain ⟨g', rfl⟩ : ∃ g', g = g' + 1 := ⟨g - 1, by omega⟩
        have hcb : callback cfg kvs = callbackBody cfg kvs := by
          unfold callback
          split
          · rename_i h; exact absurd h hl
          · rfl
        have hco := core cfg env hresp hp f g' c' ih kvs (by simpa using hfb) (by omega) x
        have href : Json.lookup "$ref" kvs = none := by
          simp only [fragBody, Bool.and_eq_true] at hfb
          simpa using hfb.1.1.1.1.1.1.1.1
        simp only [transform, hcb]
        rw [validF_obj _ _ _ _ hco.1, isNullable_plain, validF_obj _ _ _ _ href, hco.2]
        have hn : isNullable (envRequest env cfg.nn) kvs = false := by
          simp only [isNullable, envRequest]
          cases h : Json.lookup cfg.nn kvs with
          | none => simp
          | some y => cases y <;> simp_all
        rw [hn]; try simp
    | _ => simp [Frag] at hF


/-! ### readOnly properties are forbidden by the converted schema -/

/-- `{"required": [n]}` survives `transform` unchanged -/
theorem transform_reqS (cfg : Cfg) (hne : cfg.nn ≠ "required") (c : Nat) (n : String) :
    transform cfg c (.obj [("required", .arr [.str n])]) = .obj [("required", .arr [.str n])] := by
  cases c with
  | zero => rfl
  | succ c =>
    have h1 : Json.lookup cfg.nn [("required", Json.arr [Json.str n])] = none := by simp [Json.lookup, hne]
    have h2 : callback cfg [("required", Json.arr [Json.str n])] = [("required", Json.arr [Json.str n])] := by
      unfold callback
      rw [h1]
      simp [callbackBody, Json.lookup, isFileType, isObjectType, updatePattern]
    simp only [transform, h2, mapVals, List.map]
    rw [transform_inert cfg c _ rfl]

theorem validF_reqS (env : Env) (g : Nat) (n : String) (members : Kvs) :
    validF (g + 1) (envPlain env) (.obj [("required", .arr [.str n])]) (.obj members) = (Json.lookup n members).isSome := by
  simp [validF, Json.lookup, isNullable, envPlain, keywordsOk, typeOk, enumOk, constOk, numberOk,
    stringOk, formatOk, arrayOk, objectOk, combinatorsOk, lenBoundsOk, natKw, propsOf, patternPropsOf, requiredOf,
    Json.str?]

theorem validF_anyOfL (env : Env) (g : Nat) (L : List Json) (x : Json) :
    validF (g + 1) (envPlain env) (.obj [("anyOf", .arr L)]) x = L.any (validF g (envPlain env) · x) := by
  cases x <;> simp [validF, Json.lookup, isNullable, envPlain, keywordsOk, typeOk, enumOk, constOk, numberOk,
    stringOk, formatOk, arrayOk, objectOk, combinatorsOk, lenBoundsOk, natKw, propsOf, patternPropsOf, requiredOf,
    minimumOk, maximumOk, multipleOfOk]

theorem transform_anyOfS (cfg : Cfg) (hne : cfg.nn ≠ "anyOf") (c : Nat) (L : List Json) :
    transform cfg (c + 2) (.obj [("anyOf", .arr L)]) = .obj [("anyOf", .arr (L.map (transform cfg c)))] := by
  have h1 : Json.lookup cfg.nn [("anyOf", Json.arr L)] = none := by simp [Json.lookup, hne]
  have h2 : callback cfg [("anyOf", Json.arr L)] = [("anyOf", Json.arr L)] := by
    unfold callback
    rw [h1]
    simp [callbackBody, Json.lookup, isFileType, isObjectType, updatePattern]
  simp only [transform, h2, mapVals, List.map]

/-- from validity of a converted dict to the falsity of its `not` sub-schema -/
theorem not_of_valid (env : Env) (g : Nat) (K : Kvs) (s v : Json) (href : Json.lookup "$ref" K = none)
    (hnot : Json.lookup "not" K = some s) (hv : validF (g + 1) (envPlain env) (.obj K) v = true) :
    validF g (envPlain env) s v = false := by
  rw [validF_obj _ _ _ _ href, isNullable_plain] at hv
  simp only [Bool.false_and, Bool.false_eq_true, if_false, keywordsOk, Bool.and_eq_true] at hv
  have := hv.2
  simp only [combinatorsOk, hnot, Bool.and_eq_true] at this
  simpa using this.2


theorem rpRequired_lookup_ne (ns : List String) (K : Kvs) (k : String) (h : k ≠ "required") :
    Json.lookup k (rpRequired ns K) = Json.lookup k K := by
  unfold rpRequired; split
  · exact lookup_setKey_ne _ _ _ _ h
  · rfl

theorem rpProps_lookup_ne (cfg : Cfg) (K : Kvs) (k : String) (h : k ≠ "properties") :
    Json.lookup k (rpProps cfg K) = Json.lookup k K := by
  unfold rpProps; split
  · exact lookup_setKey_ne _ _ _ _ h
  · rfl

theorem forbid_lookup_ne (cfg : Cfg) (K : Kvs) (ns : List String) (k : String) (h : k ≠ "not") :
    Json.lookup k (forbid cfg K ns) = Json.lookup k K := by
  unfold forbid
  split
  · exact lookup_setKey_ne _ _ _ _ h
  · unfold forbidRepaired
    split
    · exact lookup_setKey_ne _ _ _ _ h
    · exact lookup_setKey_ne _ _ _ _ h

/-- the `not` value `forbid` installs, in the two shapes that do forbid every name -/
inductive NotShape (K : Kvs) (ns : List String) : Json → Prop
  | single (n : String) : ns = [n] → NotShape K ns (.obj [("required", .arr [.str n])])
  | many (prior : List Json) : NotShape K ns (.obj [("anyOf", .arr (prior ++ ns.map fun n => Json.obj [("required", .arr [.str n])]))])

theorem dedup_pair (x : Json) (h : Json.beq x x = true) : dedup [x, x] = [x] := by
  simp [dedup, h]

theorem beq_str (n : String) : Json.beq (.str n) (.str n) = true := by simp [Json.beq]

theorem forbidAsFound_single (K : Kvs) (n : String) (h : Json.lookup "not" K = none) :
    Json.lookup "not" (forbidAsFound K [n]) = some (.obj [("required", .arr [.str n])]) := by
  unfold forbidAsFound
  rw [lookup_setKey_self, h]
  simp [Json.lookup, setKey, dedup_pair _ (beq_str n)]

theorem forbidRepaired_shape (K : Kvs) (ns : List String) (hne : ns ≠ []) :
    ∃ s, Json.lookup "not" (forbidRepaired K ns) = some s ∧ NotShape K ns s := by
  cases hp : Json.lookup "not" K with
  | none =>
    match ns, hne with
    | [n], _ =>
      refine ⟨_, ?_, .single n rfl⟩
      simp only [forbidRepaired, hp]
      exact forbidAsFound_single K n hp
    | n1 :: n2 :: rest, _ =>
      refine ⟨_, ?_, .many []⟩
      simp only [forbidRepaired, hp, lookup_setKey_self, List.nil_append]
  | some p =>
    refine ⟨_, ?_, .many [p]⟩
    simp only [forbidRepaired, hp, lookup_setKey_self, List.cons_append, List.nil_append]


theorem readonly_core (cfg : Cfg) (hnn : cfg.nn = "nullable" ∨ cfg.nn = "x-nullable") (env : Env)
    (kvs members : Kvs) (c g : Nat)
    (hty : Json.lookup "type" kvs = some (.str "object")) (hnull : Json.lookup cfg.nn kvs ≠ some (.bool true))
    (href : Json.lookup "$ref" kvs = none)
    (hshape : ∀ X, Json.lookup "not" X = Json.lookup "not" kvs →
      ∃ s, Json.lookup "not" (forbid cfg X (forbiddenNames cfg kvs)) = some s ∧ NotShape X (forbiddenNames cfg kvs) s)
    (hv : validF (g + 3) (envPlain env) (transform cfg (c + 4) (.obj kvs)) (.obj members) = true) :
    ∀ n ∈ forbiddenNames cfg kvs, Json.lookup n members = none := by
  intro n hn
  have hne_req : cfg.nn ≠ "required" := by rcases hnn with h | h <;> rw [h] <;> decide
  have hne_any : cfg.nn ≠ "anyOf" := by rcases hnn with h | h <;> rw [h] <;> decide
  have hcb : callback cfg kvs = callbackBody cfg kvs := by
    unfold callback
    split
    · rename_i h; exact absurd h hnull
    · rfl
  -- the dict after the pattern step
  generalize hK2 : (if cfg.updQ then updatePattern cfg kvs else kvs) = K2
  have hK2l : ∀ k, k ≠ "pattern" → k ≠ "minLength" → k ≠ "maxLength" → Json.lookup k K2 = Json.lookup k kvs := by
    intro k h1 h2 h3
    rw [← hK2]
    by_cases hq : cfg.updQ = true
    · simp only [hq, if_true]; exact updatePattern_lookup_ne cfg kvs k h1 h2 h3
    · simp only [hq, Bool.false_eq_true, if_false]
  have hbody : callbackBody cfg kvs = rewriteProps cfg K2 := by
    have e1 : isFileType (some (Json.str "object")) = false := by decide
    have e2 : isObjectType (some (Json.str "object")) = true := by decide
    unfold callbackBody
    simp only [hty, e1, e2, Bool.false_eq_true, if_false, if_true, hK2]
  have hnames : forbiddenNames cfg K2 = forbiddenNames cfg kvs :=
    forbiddenNames_congr cfg K2 kvs (hK2l _ (by decide) (by decide) (by decide))
  have hnonempty : (forbiddenNames cfg kvs).isEmpty = false := by
    cases h : forbiddenNames cfg kvs with
    | nil => rw [h] at hn; cases hn
    | cons _ _ => rfl
  have hrw : rewriteProps cfg K2 = popFalsy "properties" (popFalsy "required"
      (forbid cfg (rpProps cfg (rpRequired (forbiddenNames cfg kvs) K2)) (forbiddenNames cfg kvs))) := by
    unfold rewriteProps
    simp only [hnames, hnonempty, Bool.false_eq_true, if_false]
  have hX : Json.lookup "not" (rpProps cfg (rpRequired (forbiddenNames cfg kvs) K2)) = Json.lookup "not" kvs := by
    rw [rpProps_lookup_ne _ _ _ (by decide), rpRequired_lookup_ne _ _ _ (by decide), hK2l _ (by decide) (by decide) (by decide)]
  obtain ⟨s, hs, shape⟩ := hshape _ hX
  have hnot : Json.lookup "not" (rewriteProps cfg K2) = some s := by
    rw [hrw, popFalsy_lookup_ne _ _ _ (by decide), popFalsy_lookup_ne _ _ _ (by decide), hs]
  have hrefK : Json.lookup "$ref" (rewriteProps cfg K2) = none := by
    rw [hrw, popFalsy_lookup_ne _ _ _ (by decide), popFalsy_lookup_ne _ _ _ (by decide),
      forbid_lookup_ne _ _ _ _ (by decide), rpProps_lookup_ne _ _ _ (by decide), rpRequired_lookup_ne _ _ _ (by decide),
      hK2l _ (by decide) (by decide) (by decide), href]
  have hT : transform cfg (c + 4) (.obj kvs) = .obj (mapVals (transform cfg (c + 3)) (rewriteProps cfg K2)) := by
    simp only [transform, hcb, hbody]
  rw [hT] at hv
  have hfalse := not_of_valid env (g + 2) _ (transform cfg (c + 3) s) (.obj members)
    (by rw [lookup_mapVals, hrefK]; rfl) (by rw [lookup_mapVals, hnot]; rfl) hv
  cases shape with
  | single n1 h1 =>
    rw [transform_reqS cfg hne_req, validF_reqS] at hfalse
    rw [h1] at hn
    simp only [List.mem_singleton] at hn
    subst hn
    cases h : Json.lookup n members <;> simp_all
  | many prior =>
    rw [transform_anyOfS cfg hne_any (c + 1), validF_anyOfL] at hfalse
    rw [List.any_eq_false] at hfalse
    have hmem : transform cfg (c + 1) (.obj [("required", .arr [.str n])]) ∈
        (prior ++ (forbiddenNames cfg kvs).map fun n => Json.obj [("required", .arr [.str n])]).map (transform cfg (c + 1)) := by
      apply List.mem_map_of_mem
      apply List.mem_append_right
      exact List.mem_map_of_mem hn
    have := hfalse _ hmem
    rw [transform_reqS cfg hne_req, validF_reqS] at this
    cases h : Json.lookup n members <;> simp_all


/-! ### the per-location object schema -/

/-- the dict `parameters_to_json_schema` returns -/
def paramsK (props : Kvs) (req : List String) : Kvs :=
  [("properties", .obj props), ("additionalProperties", .bool false), ("type", .str "object"),
   ("required", .arr (req.map Json.str))]

theorem paramsK_lookup (props : Kvs) (req : List String) (k : String)
    (h1 : k ≠ "properties") (h2 : k ≠ "additionalProperties") (h3 : k ≠ "type") (h4 : k ≠ "required") :
    Json.lookup k (paramsK props req) = none := by
  simp [paramsK, Json.lookup, h1, h2, h3, h4]

theorem filterMap_strs (req : List String) : (req.map Json.str).filterMap Json.str? = req := by
  induction req with
  | nil => rfl
  | cons a as ih => simp only [List.map_cons, List.filterMap_cons, Json.str?, ih]

theorem requiredOf_paramsK (props : Kvs) (req : List String) : requiredOf (paramsK props req) = req := by
  have : Json.lookup "required" (paramsK props req) = some (.arr (req.map Json.str)) := by
    simp [paramsK, Json.lookup]
  simp only [requiredOf, this, filterMap_strs]

theorem propsOf_paramsK (props : Kvs) (req : List String) : propsOf (paramsK props req) = props := by
  have : Json.lookup "properties" (paramsK props req) = some (.obj props) := by simp [paramsK, Json.lookup]
  simp only [propsOf, this]

theorem objectOk_paramsK (env : Env) (rec : Json → Json → Bool) (props : Kvs) (req : List String) (members : Kvs)
    (hrec : ∀ x, rec (.bool false) x = false) :
    objectOk (envPlain env) rec (paramsK props req) (.obj members) =
      (req.all (fun k => (Json.lookup k members).isSome) &&
       members.all (fun (k, x) => match Json.lookup k props with | some s => rec s x | none => false)) := by
  have hap : Json.lookup "additionalProperties" (paramsK props req) = some (.bool false) := by simp [paramsK, Json.lookup]
  have hpp : patternPropsOf (paramsK props req) = [] := by
    simp only [patternPropsOf, paramsK_lookup props req "patternProperties" (by decide) (by decide) (by decide) (by decide)]
  have hmin : natKw (paramsK props req) "minProperties" = none := by
    simp only [natKw, paramsK_lookup props req "minProperties" (by decide) (by decide) (by decide) (by decide)]
  have hmax : natKw (paramsK props req) "maxProperties" = none := by
    simp only [natKw, paramsK_lookup props req "maxProperties" (by decide) (by decide) (by decide) (by decide)]
  simp only [objectOk, lenBoundsOk, hmin, hmax, requiredOf_paramsK, propsOf_paramsK, hpp, hap, forbiddenProp, envPlain,
    Bool.true_and, List.all_nil, List.any_nil, Bool.or_false, Bool.and_true, Bool.not_false, hrec]
  rw [Bool.eq_iff_iff]
  simp only [Bool.and_eq_true, List.all_eq_true, Bool.or_eq_true]
  constructor
  · rintro ⟨⟨⟨h1, h2⟩, _⟩, h4⟩
    refine ⟨fun k hk => ?_, fun kx hm => ?_⟩
    · rcases h1 k hk with h | h
      · exact h
      · cases hl : Json.lookup k props <;> simp [hl] at h
    · have a := h2 kx hm
      have b := h4 kx hm
      cases hl : Json.lookup kx.1 props with
      | none => simp [hl] at b
      | some s => simpa [hl] using a
  · rintro ⟨h1, h2⟩
    refine ⟨⟨⟨fun k hk => .inl (h1 k hk), fun kx hm => ?_⟩, fun _ _ => trivial⟩, fun kx hm => ?_⟩
    · have a := h2 kx hm
      cases hl : Json.lookup kx.1 props with
      | none => simp [hl] at a
      | some s => simpa [hl] using a
    · have a := h2 kx hm
      cases hl : Json.lookup kx.1 props with
      | none => simp [hl] at a
      | some s => rfl


/-- the object schema `parameters_to_json_schema` builds accepts exactly the objects that contain every required name,
    only declared names, and a valid value for each -/
theorem params_object (env : Env) (props : Kvs) (req : List String) (g : Nat) (v : Json) :
    validF (g + 2) (envPlain env) (.obj (paramsK props req)) v = true ↔
    ∃ members, v = .obj members ∧ (∀ k ∈ req, (Json.lookup k members).isSome = true) ∧
      ∀ k x, (k, x) ∈ members → ∃ s, Json.lookup k props = some s ∧ validF (g + 1) (envPlain env) s x = true := by
  have hty : Json.lookup "type" (paramsK props req) = some (.str "object") := by simp [paramsK, Json.lookup]
  have hn := fun k h1 h2 h3 h4 => paramsK_lookup props req k h1 h2 h3 h4
  rw [validF_obj _ _ _ _ (hn "$ref" (by decide) (by decide) (by decide) (by decide)), isNullable_plain]
  simp only [Bool.false_and, Bool.false_eq_true, if_false]
  have hcomb : combinatorsOk (validF (g + 1) (envPlain env)) (paramsK props req) v = true := by
    simp only [combinatorsOk, hn "allOf" (by decide) (by decide) (by decide) (by decide),
      hn "anyOf" (by decide) (by decide) (by decide) (by decide), hn "oneOf" (by decide) (by decide) (by decide) (by decide),
      hn "not" (by decide) (by decide) (by decide) (by decide), Bool.and_self]
  cases v with
  | obj members =>
    have hrest : (typeOk (paramsK props req) (.obj members) && enumOk (paramsK props req) (.obj members) &&
        constOk (paramsK props req) (.obj members) && numberOk (paramsK props req) (.obj members) &&
        stringOk (envPlain env) (paramsK props req) (.obj members) && formatOk (envPlain env) (paramsK props req) (.obj members) &&
        arrayOk (validF (g + 1) (envPlain env)) (paramsK props req) (.obj members)) = true := by
      simp only [typeOk, hty, typeNameOk, enumOk, constOk, numberOk, stringOk, formatOk, arrayOk,
        hn "enum" (by decide) (by decide) (by decide) (by decide), hn "const" (by decide) (by decide) (by decide) (by decide),
        hn "format" (by decide) (by decide) (by decide) (by decide)]
      decide
    simp only [keywordsOk, hrest, hcomb, Bool.true_and, Bool.and_true]
    rw [objectOk_paramsK env _ props req members (fun x => by simp [validF])]
    simp only [Bool.and_eq_true, List.all_eq_true]
    constructor
    · rintro ⟨h1, h2⟩
      refine ⟨members, rfl, h1, fun k x hm => ?_⟩
      have a := h2 (k, x) hm
      cases hl : Json.lookup k props with
      | none => simp [hl] at a
      | some s => exact ⟨s, rfl, by simpa [hl] using a⟩
    · rintro ⟨m, hm, h1, h2⟩
      cases hm
      refine ⟨h1, fun kx hmem => ?_⟩
      obtain ⟨s, hs, hv⟩ := h2 kx.1 kx.2 hmem
      simp only [hs]; exact hv
  | _ =>
    simp only [keywordsOk, typeOk, hty, typeNameOk]
    simp


end SV.Proofs.C01
