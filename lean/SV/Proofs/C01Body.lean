/-
  Helper lemmas for the body-alternative part of C01: a memo table is transparent when its key separates requests that
  build different things; the body-strategy cache of one operation is such a table.  No property statements here.
-/
import SV.Spec.C01Body
open SV SV.Model.C01 SV.Model.C01Body SV.Spec.C01Body
namespace SV.Proofs.C01Body

section Cache
variable {R K S : Type} [DecidableEq K]

theorem lookupK_cons (k k' : K) (s : S) (c : List (K × S)) :
    lookupK k ((k', s) :: c) = if k = k' then some s else lookupK k c := rfl

/-- every cached entry was built from a request of the history with that key -/
def CacheInv (key : R → K) (build : R → S) (all : List R) (c : List (K × S)) : Prop :=
  ∀ k s, lookupK k c = some s → ∃ r ∈ all, key r = k ∧ s = build r

theorem getOrBuild_spec (key : R → K) (build : R → S) (all : List R)
    (hsep : ∀ r ∈ all, ∀ r' ∈ all, key r = key r' → build r = build r')
    (c : List (K × S)) (hc : CacheInv key build all c) (r : R) (hr : r ∈ all) :
    (getOrBuild key build c r).1 = build r ∧ CacheInv key build all (getOrBuild key build c r).2 := by
  unfold getOrBuild
  cases hl : lookupK (key r) c with
  | some s =>
    obtain ⟨r0, hr0, hk, hs⟩ := hc _ _ hl
    exact ⟨by rw [hs]; exact hsep r0 hr0 r hr hk, hc⟩
  | none =>
    refine ⟨rfl, ?_⟩
    intro k s hks
    rw [lookupK_cons] at hks
    by_cases hk : k = key r
    · simp only [hk, if_true, Option.some.injEq] at hks
      exact ⟨r, hr, hk.symm, hks.symm⟩
    · simp only [hk, if_false] at hks
      exact hc k s hks

theorem runCache_spec (key : R → K) (build : R → S) (all : List R)
    (hsep : ∀ r ∈ all, ∀ r' ∈ all, key r = key r' → build r = build r') :
    ∀ (rs : List R) (c : List (K × S)), (∀ r ∈ rs, r ∈ all) → CacheInv key build all c →
      runCache key build c rs = rs.map build := by
  intro rs
  induction rs with
  | nil => intro c _ _; rfl
  | cons r rest ih =>
    intro c hsub hc
    obtain ⟨h1, h2⟩ := getOrBuild_spec key build all hsep c hc r (hsub r (by simp))
    simp only [runCache, List.map_cons]
    rw [h1, ih _ (fun x hx => hsub x (by simp [hx])) h2]

theorem cacheInv_nil (key : R → K) (build : R → S) (all : List R) : CacheInv key build all [] := by
  intro k s h; cases h

end Cache

/-! ### the body-strategy cache of one operation -/

theorem buildBody_congr (cfg : Cfg) (fuel : Nat) (r r' : BodyReq) (ha : r.alt = r'.alt) (hf : r.factory = r'.factory) :
    buildBody cfg fuel r = buildBody cfg fuel r' := by
  unfold buildBody; rw [ha, hf]

theorem bodyKey_separates (alts : List Alt) (rs : List BodyReq) (hop : FromOperation alts rs) (cfg : Cfg) (fuel : Nat) :
    ∀ r ∈ rs, ∀ r' ∈ rs, bodyKey r = bodyKey r' → buildBody cfg fuel r = buildBody cfg fuel r' := by
  intro r hr r' hr' hk
  simp only [bodyKey, Prod.mk.injEq] at hk
  have h1 := hop r hr
  have h2 := hop r' hr'
  rw [hk.1] at h1
  rw [h1] at h2
  exact buildBody_congr cfg fuel r r' (Option.some.inj h2) hk.2

theorem runBody_spec (cfg : Cfg) (fuel : Nat) (custom : String → Bool) (all : List BodyReq)
    (hsep : ∀ r ∈ all, ∀ r' ∈ all, bodyKey r = bodyKey r' → buildBody cfg fuel r = buildBody cfg fuel r') :
    ∀ (rs : List BodyReq) (c : List ((Nat × Factory) × Strat)), (∀ r ∈ rs, r ∈ all) →
      CacheInv bodyKey (buildBody cfg fuel) all c →
      runBody cfg fuel custom c rs = rs.map (freshBody cfg fuel custom) := by
  intro rs
  induction rs with
  | nil => intro c _ _; rfl
  | cons r rest ih =>
    intro c hsub hc
    simp only [runBody, List.map_cons]
    by_cases hcu : custom r.alt.mediaType = true
    · have e1 : getBodyStrategy cfg fuel custom c r = (.custom r.alt.mediaType, c) := by simp [getBodyStrategy, hcu]
      have e2 : freshBody cfg fuel custom r = .custom r.alt.mediaType := by simp [freshBody, hcu]
      rw [e1, e2, ih c (fun x hx => hsub x (by simp [hx])) hc]
    · have e1 : getBodyStrategy cfg fuel custom c r = getOrBuild bodyKey (buildBody cfg fuel) c r := by
        simp [getBodyStrategy, hcu]
      have e2 : freshBody cfg fuel custom r = buildBody cfg fuel r := by simp [freshBody, hcu]
      obtain ⟨h1, h2⟩ := getOrBuild_spec bodyKey (buildBody cfg fuel) all hsep c hc r (hsub r (by simp))
      rw [e1, e2, h1, ih _ (fun x hx => hsub x (by simp [hx])) h2]

/-- the converted schema of an alternative that is not a form is the recursive conversion of its own schema -/
theorem bodySchema_plain (cfg : Cfg) (fuel : Nat) (a : Alt) (hk : a.kind ≠ .v2form) (hf : a.isForm = false) :
    bodySchema cfg fuel a = transform cfg fuel (.obj a.schema) := by
  unfold bodySchema
  cases hkind : a.kind with
  | v2form => exact absurd hkind hk
  | v3 => simp only [hf]; cases transform cfg fuel (.obj a.schema) <;> simp
  | v2body => simp only [hf]; cases transform cfg fuel (.obj a.schema) <;> simp

/-! ### the parameter-strategy cache key -/

theorem mem_insertSorted (x y : String) (l : List String) : y ∈ insertSorted x l ↔ y = x ∨ y ∈ l := by
  induction l with
  | nil => simp [insertSorted]
  | cons z zs ih =>
    simp only [insertSorted]
    split
    · simp
    · simp only [List.mem_cons, ih]
      constructor
      · rintro (h | h | h)
        · exact .inr (.inl h)
        · exact .inl h
        · exact .inr (.inr h)
      · rintro (h | h | h)
        · exact .inr (.inl h)
        · exact .inl h
        · exact .inr (.inr h)

theorem mem_sortNames (y : String) (l : List String) : y ∈ sortNames l ↔ y ∈ l := by
  induction l with
  | nil => simp [sortNames]
  | cons x xs ih => simp only [sortNames, mem_insertSorted, ih, List.mem_cons]

theorem contains_congr (a b : List String) (h : ∀ y, y ∈ a ↔ y ∈ b) (k : String) : a.contains k = b.contains k := by
  have := h k
  by_cases ha : k ∈ a
  · have hb := this.mp ha
    simp [ha, hb]
  · have hb : k ∉ b := fun hb => ha (this.mpr hb)
    simp [ha, hb]

theorem excludeNames_congr (a b : List String) (h : ∀ y, y ∈ a ↔ y ∈ b) (s : Kvs) : excludeNames a s = excludeNames b s := by
  unfold excludeNames
  rw [show (fun n => a.contains n) = (fun n => b.contains n) from funext (contains_congr a b h)]

end SV.Proofs.C01Body
