/-
  Helper lemmas for the schema-level statement about `update_pattern_in_schema` (C01): search semantics with arbitrary
  positional assertions (`SeqAt`, `Search`), monotonicity of the rewriting under search, the bridge between `Search` on
  a pattern anchored at both ends and full matching, and the shape of `mergeLengths`.  No property statements here.
-/
import SV.Proofs.C01Regex
open SV.Model.C01Regex SV.Spec.C01Regex
namespace SV.Proofs.C01Merge
open SV.Proofs.C01Regex

variable {α : Type} {sat : α → Char → Bool} {bnd : List Char → List Char → Bool}

/-! ### `SeqAt` basics -/

theorem seqAt_nil_inv {pre mid post : List Char} (h : SeqAt sat bnd ([] : List (Item α)) pre mid post) : mid = [] := by
  cases h; rfl

theorem seqAt_at_inv {k : AtKind} {rest : List (Item α)} {pre mid post : List Char}
    (h : SeqAt sat bnd (.at k :: rest) pre mid post) :
    atOK bnd k pre (mid ++ post) = true ∧ SeqAt sat bnd rest pre mid post := by
  cases h with
  | «at» h1 h2 => exact ⟨h1, h2⟩
  | item hx _ _ => simp [Item.isAt] at hx

theorem seqAt_item_inv {x : Item α} {rest : List (Item α)} {pre mid post : List Char} (hx : x.isAt = false)
    (h : SeqAt sat bnd (x :: rest) pre mid post) :
    ∃ u w, mid = u ++ w ∧ Matches sat (itemRe x) u ∧ SeqAt sat bnd rest (pre ++ u) w post := by
  cases h with
  | «at» _ _ => simp [Item.isAt] at hx
  | item _ h1 h2 => exact ⟨_, _, rfl, h1, h2⟩

/-- forgetting the context: what `SeqAt` matches, the sequence expression matches (assertions read as ε) -/
theorem seqAt_matches {items : List (Item α)} {pre mid post : List Char} (h : SeqAt sat bnd items pre mid post) :
    Matches sat (seqRe items) mid := by
  induction h with
  | nil => exact .eps
  | «at» _ _ ih => exact Matches.cat (u := []) .eps ih
  | item _ h1 _ ih => exact .cat h1 ih

def noAt : List (Item α) → Bool
  | [] => true
  | x :: rest => !x.isAt && noAt rest

theorem simpleMiddle_noAt (m : List (Item α)) (h : simpleMiddle m = true) : noAt m = true := by
  induction m with
  | nil => rfl
  | cons x rest ih => cases x <;> simp_all [simpleMiddle, noAt, Item.isAt]

/-- without assertions the context does not matter -/
theorem matches_seqAt (items : List (Item α)) (hn : noAt items = true) :
    ∀ (pre mid post : List Char), Matches sat (seqRe items) mid → SeqAt sat bnd items pre mid post := by
  induction items with
  | nil =>
    intro pre mid post h
    have := eps_inv h; subst this; exact .nil
  | cons x rest ih =>
    intro pre mid post h
    simp only [noAt, Bool.and_eq_true, Bool.not_eq_true'] at hn
    obtain ⟨u, w, rfl, h1, h2⟩ := cat_inv h
    exact .item hn.1 h1 (ih hn.2 _ _ _ h2)

/-- an assertion appended at the end looks at everything matched so far and at what follows -/
theorem seqAt_snoc_at {items : List (Item α)} {pre mid post : List Char} (k : AtKind)
    (h : SeqAt sat bnd items pre mid post) (hk : atOK bnd k (pre ++ mid) post = true) :
    SeqAt sat bnd (items ++ [.at k]) pre mid post := by
  induction h with
  | nil =>
    simp only [List.append_nil] at hk
    exact .at (by simpa using hk) .nil
  | «at» h1 _ ih => exact .at h1 (ih hk)
  | @item x rest pre u w post hx h1 _ ih =>
    refine .item hx h1 (ih ?_)
    simpa [List.append_assoc] using hk

theorem seqAt_snoc_end_inv {items : List (Item α)} {last : Item α} (he : isEnd last = true) :
    ∀ {pre mid post : List Char}, SeqAt sat bnd (items ++ [last]) pre mid post → post = [] := by
  induction items with
  | nil =>
    intro pre mid post h
    cases last with
    | «at» k =>
      obtain ⟨h1, _⟩ := seqAt_at_inv h
      cases k <;> simp_all [isEnd, atOK]
    | _ => simp [isEnd] at he
  | cons x rest ih =>
    intro pre mid post h
    by_cases hx : x.isAt = true
    · cases x with
      | «at» k => exact ih (seqAt_at_inv h).2
      | _ => simp [Item.isAt] at hx
    · simp only [Bool.not_eq_true] at hx
      obtain ⟨u, w, _, _, h2⟩ := seqAt_item_inv hx h
      exact ih h2

theorem seqAt_begin_inv {first : Item α} {rest : List (Item α)} (hb : isBegin first = true) {pre mid post : List Char}
    (h : SeqAt sat bnd (first :: rest) pre mid post) : pre = [] ∧ SeqAt sat bnd rest pre mid post := by
  cases first with
  | «at» k =>
    obtain ⟨h1, h2⟩ := seqAt_at_inv h
    refine ⟨?_, h2⟩
    cases k <;> simp_all [isBegin, atOK]
  | _ => simp [isBegin] at hb

/-- `re.search` on a pattern anchored at both ends is a full match of what stands between the anchors -/
theorem search_anchored_matches {first last : Item α} {middle : List (Item α)} (hb : isBegin first = true)
    (he : isEnd last = true) {s : List Char} (h : Search sat bnd (first :: middle ++ [last]) s) :
    Matches sat (seqRe middle) s := by
  obtain ⟨pre, mid, post, rfl, hs⟩ := h
  rw [List.cons_append] at hs
  obtain ⟨hpre, hs'⟩ := seqAt_begin_inv hb hs
  have hpost := seqAt_snoc_end_inv he hs'
  subst hpre; subst hpost
  have hm := seqAt_matches hs'
  -- seqRe (middle ++ [last]) = middle followed by ε
  have hsplit : ∀ (m : List (Item α)) (t : List Char), Matches sat (seqRe (m ++ [last])) t → Matches sat (seqRe m) t := by
    intro m
    induction m with
    | nil =>
      intro t ht
      cases last with
      | «at» k =>
        simp only [List.nil_append, seqRe, itemRe] at ht
        obtain ⟨u, w, rfl, h1, h2⟩ := cat_inv ht
        have := eps_inv h1; subst this
        have := eps_inv h2; subst this
        exact .eps
      | _ => simp [isEnd] at he
    | cons x rest ih =>
      intro t ht
      simp only [List.cons_append, seqRe] at ht ⊢
      obtain ⟨u, w, rfl, h1, h2⟩ := cat_inv ht
      exact .cat h1 (ih w h2)
  simpa using hsplit middle _ hm

theorem matches_search_anchored {first last : Item α} {middle : List (Item α)} (hb : isBegin first = true)
    (he : isEnd last = true) (hn : noAt middle = true) {s : List Char} (h : Matches sat (seqRe middle) s) :
    Search sat bnd (first :: middle ++ [last]) s := by
  refine ⟨[], s, [], by simp, ?_⟩
  have h1 : SeqAt sat bnd middle [] s [] := matches_seqAt middle hn _ _ _ h
  cases first with
  | «at» kf =>
    cases last with
    | «at» kl =>
      have hl : atOK bnd kl ([] ++ s) [] = true := by cases kl <;> simp_all [isEnd, atOK]
      have h2 := seqAt_snoc_at kl h1 hl
      rw [List.cons_append]
      refine .at ?_ h2
      cases kf <;> simp_all [isBegin, atOK]
    | _ => simp [isEnd] at he
  | _ => simp [isBegin] at hb

/-! ### monotonicity of the rewriting under search -/

/-- `x'` may stand where `x` stood: the same item, or a non-assertion whose language is included -/
def ItemLe (sat : α → Char → Bool) (x' x : Item α) : Prop :=
  x' = x ∨ (x'.isAt = false ∧ x.isAt = false ∧ ∀ u, Matches sat (itemRe x') u → Matches sat (itemRe x) u)

inductive AllLe (sat : α → Char → Bool) : List (Item α) → List (Item α) → Prop
  | nil : AllLe sat [] []
  | cons {x' x xs' xs} : ItemLe sat x' x → AllLe sat xs' xs → AllLe sat (x' :: xs') (x :: xs)

theorem allLe_refl (xs : List (Item α)) : AllLe sat xs xs := by
  induction xs with
  | nil => exact .nil
  | cons x rest ih => exact .cons (.inl rfl) ih

theorem allLe_append {a' a b' b : List (Item α)} (h1 : AllLe sat a' a) (h2 : AllLe sat b' b) : AllLe sat (a' ++ b') (a ++ b) := by
  induction h1 with
  | nil => exact h2
  | cons hx _ ih => exact .cons hx ih

theorem seqAt_mono {new old : List (Item α)} (hle : AllLe sat new old) :
    ∀ {pre mid post : List Char}, SeqAt sat bnd new pre mid post → SeqAt sat bnd old pre mid post := by
  induction hle with
  | nil => intro pre mid post h; exact h
  | @cons x' x xs' xs hx _ ih =>
    intro pre mid post h
    rcases hx with rfl | ⟨h1, h2, h3⟩
    · cases h with
      | «at» ha hr => exact .at ha (ih hr)
      | item hxa hm hr => exact .item hxa hm (ih hr)
    · obtain ⟨u, w, rfl, hm, hr⟩ := seqAt_item_inv h1 h
      exact .item h2 (h3 u hm) (ih hr)

theorem search_mono {new old : List (Item α)} (hle : AllLe sat new old) {s : List Char}
    (h : Search sat bnd new s) : Search sat bnd old s := by
  obtain ⟨pre, mid, post, e, hs⟩ := h
  exact ⟨pre, mid, post, e, seqAt_mono hle hs⟩

/-- a repeat whose bounds were narrowed by `_build_size` -/
theorem buildSize_le (rlo rhi : Nat) (body : Re α) (lo hi : Option Nat) :
    ItemLe sat (.rep (buildSize rlo rhi lo hi).1 (buildSize rlo rhi lo hi).2 body) (.rep rlo rhi body) := by
  refine .inr ⟨rfl, rfl, ?_⟩
  intro u hu
  simp only [itemRe] at hu ⊢
  refine rep_mono hu ?_ ?_
  · unfold buildSize; cases lo <;> simp <;> omega
  · unfold buildSize
    cases hi with
    | none => right; simp
    | some h =>
      by_cases hm : (rhi == MAXREPEAT) = true
      · left; simp only [beq_iff_eq] at hm; omega
      · right; simp only [hm, Bool.false_eq_true, if_false]; omega

/-- `updateItem` on a repeat (or on anything but a bare literal/class) only narrows -/
theorem updateItem_le (v : RxV) (x y : Item α) (lo hi : Option Nat) (w : Bool)
    (hx : x.isLit = false ∧ (∀ a, x ≠ .cls a)) (h : updateItem v x lo hi = some (y, w)) : ItemLe sat y x := by
  cases x with
  | rep rlo rhi body =>
    simp only [updateItem] at h
    by_cases hgt : (buildSize rlo rhi lo hi).1 > (buildSize rlo rhi lo hi).2
    · simp only [hgt, if_true, Option.some.injEq, Prod.mk.injEq] at h; exact .inl h.1.symm
    · simp only [hgt, if_false, Option.some.injEq, Prod.mk.injEq] at h
      rw [← h.1]; exact buildSize_le rlo rhi body lo hi
  | lit a => simp [Item.isLit] at hx
  | cls a => exact absurd rfl (hx.2 a)
  | «at» k => simp only [updateItem, Option.some.injEq, Prod.mk.injEq] at h; exact .inl h.1.symm
  | other r => simp only [updateItem, Option.some.injEq, Prod.mk.injEq] at h; exact .inl h.1.symm

def amin : Option Nat → Nat
  | none => 1
  | some l => max l 1

theorem amin_pos (lo : Option Nat) : 1 ≤ amin lo := by cases lo <;> simp [amin] <;> omega

/-- `_handle_literal_or_in_quantifier` for the bare item `x` whose atom is `a` -/
def atomUpd (v : RxV) (x : Item α) (a : α) (lo hi : Option Nat) : Option (Item α × Bool) :=
  if hi == some 0 then some (x, false)
  else match hi with
    | none => some (.rep (amin lo) MAXREPEAT (.atom a), true)
    | some h => if h < amin lo then (match v.atom with | .asFound => none | .repaired => some (x, false))
                else some (.rep (amin lo) h (.atom a), true)

theorem updateItem_lit_eq (v : RxV) (a : α) (lo hi : Option Nat) :
    updateItem v (.lit a) lo hi = atomUpd v (.lit a) a lo hi := by
  cases lo <;> cases hi <;> rfl

theorem updateItem_cls_eq (v : RxV) (a : α) (lo hi : Option Nat) :
    updateItem v (.cls a) lo hi = atomUpd v (.cls a) a lo hi := by
  cases lo <;> cases hi <;> rfl

theorem atomUpd_shape (v : RxV) (x y : Item α) (a : α) (lo hi : Option Nat) (w : Bool)
    (h : atomUpd v x a lo hi = some (y, w)) : y = x ∨ ∃ n m, 1 ≤ n ∧ y = .rep n m (.atom a) := by
  unfold atomUpd at h
  by_cases h0 : (hi == some 0) = true
  · simp only [h0, if_true, Option.some.injEq, Prod.mk.injEq] at h; exact .inl h.1.symm
  · simp only [h0, Bool.false_eq_true, if_false] at h
    cases hi with
    | none =>
      simp only [Option.some.injEq, Prod.mk.injEq] at h
      exact .inr ⟨_, _, amin_pos lo, h.1.symm⟩
    | some h' =>
      simp only at h
      by_cases hlt : h' < amin lo
      · simp only [hlt, if_true] at h
        cases hv : v.atom with
        | asFound => simp [hv] at h
        | repaired => simp only [hv, Option.some.injEq, Prod.mk.injEq] at h; exact .inl h.1.symm
      · simp only [hlt, if_false, Option.some.injEq, Prod.mk.injEq] at h
        exact .inr ⟨_, _, amin_pos lo, h.1.symm⟩

/-- a bare literal/class that got a quantifier: the new item is `(a){n, m}` with `n >= 1`, or nothing changed -/
theorem updateItem_atom (v : RxV) (a : α) (x y : Item α) (hx : x = .lit a ∨ x = .cls a) (lo hi : Option Nat) (w : Bool)
    (h : updateItem v x lo hi = some (y, w)) :
    y = x ∨ ∃ n m, 1 ≤ n ∧ y = .rep n m (.atom a) := by
  rcases hx with rfl | rfl
  · rw [updateItem_lit_eq] at h; exact atomUpd_shape v _ y a lo hi w h
  · rw [updateItem_cls_eq] at h; exact atomUpd_shape v _ y a lo hi w h

/-- a string matching `(a){n,m}` with `n >= 1` starts with a character matching `a` -/
theorem rep_atom_head {a : α} {n m : Nat} (hn : 1 ≤ n) {u : List Char} (h : Matches sat (.rep (.atom a) n m) u) :
    ∃ c t, u = c :: t ∧ Matches sat (.atom a) [c] := by
  cases h with
  | rep ws hall hlo _ =>
    cases ws with
    | nil => simp at hlo; omega
    | cons w ws' =>
      have hw := hall w (by simp)
      cases hw with
      | atom hc => exact ⟨_, ws'.flatten, by simp, .atom hc⟩

/-- … and ends with one -/
theorem rep_atom_last {a : α} {n m : Nat} (hn : 1 ≤ n) {u : List Char} (h : Matches sat (.rep (.atom a) n m) u) :
    ∃ t c, u = t ++ [c] ∧ Matches sat (.atom a) [c] := by
  cases h with
  | rep ws hall hlo _ =>
    rcases List.eq_nil_or_concat ws with rfl | ⟨ws', w, rfl⟩
    · simp at hlo; omega
    · have hw := hall w (by simp)
      cases hw with
      | atom hc => exact ⟨ws'.flatten, _, by simp, .atom hc⟩

theorem itemRe_atom {a : α} {x : Item α} (hx : x = .lit a ∨ x = .cls a) : itemRe x = .atom a ∧ x.isAt = false := by
  rcases hx with rfl | rfl <;> exact ⟨rfl, rfl⟩

/-! ### the distribution refines the bounds (no width condition needed for monotonicity) -/

theorem distribute_dist (v : RxV) (bounds : List (Nat × Nat)) (hwf : wfBounds bounds) (lo hi : Option Nat)
    (d : List (Nat × Nat)) (h : distribute v bounds lo hi = some d) : Dist bounds d := by
  unfold distribute at h
  by_cases hex : isExact lo hi = true
  · simp only [hex, if_true] at h
    cases hf : findComb bounds (lo.getD 0) with
    | none => simp [hf] at h
    | some ls =>
      simp only [hf, Option.some.injEq] at h
      subst h
      exact (findComb_sound bounds _ _ hf).1
  · simp only [hex, Bool.false_eq_true, if_false] at h
    exact (distRange_sound bounds hwf _ _ d h).1

theorem rebuild_le (m : List (Item α)) : ∀ d, Dist (repBounds m) d → AllLe sat (rebuild m d) m := by
  induction m with
  | nil => intro d _; cases d <;> exact .nil
  | cons x rest ih =>
    intro d hd
    cases x with
    | rep lo hi body =>
      simp only [repBounds] at hd
      cases hd with
      | @cons _ _ a b _ ds hlo hhi hrest =>
        simp only [rebuild]
        refine .cons (.inr ⟨rfl, rfl, ?_⟩) (ih ds hrest)
        intro u hu
        simp only [itemRe] at hu ⊢
        exact rep_mono hu hlo hhi
    | lit a =>
      have hr : rebuild (Item.lit a :: rest) d = Item.lit a :: rebuild rest d := by cases d <;> rfl
      rw [hr]; exact .cons (.inl rfl) (ih d hd)
    | cls a =>
      have hr : rebuild (Item.cls a :: rest) d = Item.cls a :: rebuild rest d := by cases d <;> rfl
      rw [hr]; exact .cons (.inl rfl) (ih d hd)
    | «at» k =>
      have hr : rebuild (Item.at k :: rest) d = Item.at k :: rebuild rest d := by cases d <;> rfl
      rw [hr]; exact .cons (.inl rfl) (ih d hd)
    | other r =>
      have hr : rebuild (Item.other r :: rest) d = Item.other r :: rebuild rest d := by cases d <;> rfl
      rw [hr]; exact .cons (.inl rfl) (ih d hd)

theorem wfItems_bounds (m : List (Item α)) (h : wfItems m) : wfBounds (repBounds m) := by
  induction m with
  | nil => trivial
  | cons x rest ih =>
    cases x with
    | rep lo hi body => simp only [wfItems] at h; exact ⟨h.1, ih h.2⟩
    | lit a => simp only [wfItems] at h; exact ih h
    | cls a => simp only [wfItems] at h; exact ih h
    | «at» k => simp only [wfItems] at h; exact ih h
    | other r => simp only [wfItems] at h; exact ih h

theorem wfItems_append (a b : List (Item α)) : wfItems (a ++ b) ↔ wfItems a ∧ wfItems b := by
  induction a with
  | nil => simp [wfItems]
  | cons x rest ih =>
    cases x <;> simp only [List.cons_append, wfItems, ih, and_assoc]

theorem handleAnchored_le (v : RxV) (f l : Item α) (m : List (Item α)) (lo hi : Option Nat) (hwf : wfItems m) :
    AllLe sat (handleAnchored v f m l lo hi).1 (f :: m ++ [l]) := by
  rcases handleAnchored_cases v f m l lo hi with h | ⟨lo', hi', d, _, _, hd, h⟩
  · rw [h]; exact allLe_refl _
  · rw [h]
    have := rebuild_le (sat := sat) m d (distribute_dist v _ (wfItems_bounds m hwf) lo' hi' d hd)
    exact .cons (.inl rfl) (allLe_append this (allLe_refl _))

/-! ### a bare atom that got a quantifier, next to at most one assertion -/

theorem search_single_atom {a : α} {x : Item α} (hx : x = .lit a ∨ x = .cls a) {n m : Nat} (hn : 1 ≤ n) {s : List Char}
    (h : Search sat bnd [.rep n m (.atom a)] s) : Search sat bnd [x] s := by
  obtain ⟨hre, hat⟩ := itemRe_atom hx
  obtain ⟨pre, mid, post, rfl, hs⟩ := h
  obtain ⟨u, w, rfl, hm, hr⟩ := seqAt_item_inv rfl hs
  have := seqAt_nil_inv hr; subst this
  obtain ⟨c, t, rfl, hc⟩ := rep_atom_head hn hm
  refine ⟨pre, [c], t ++ post, by simp, ?_⟩
  have : SeqAt sat bnd [x] pre ([c] ++ []) (t ++ post) := .item hat (by rw [hre]; exact hc) .nil
  simpa using this

theorem search_at_atom {a : α} {x : Item α} (hx : x = .lit a ∨ x = .cls a) {n m : Nat} (hn : 1 ≤ n) (k : AtKind)
    {s : List Char} (h : Search sat bnd [.at k, .rep n m (.atom a)] s) : Search sat bnd [.at k, x] s := by
  obtain ⟨hre, hat⟩ := itemRe_atom hx
  obtain ⟨pre, mid, post, rfl, hs⟩ := h
  obtain ⟨hk, hs'⟩ := seqAt_at_inv hs
  obtain ⟨u, w, rfl, hm, hr⟩ := seqAt_item_inv rfl hs'
  have := seqAt_nil_inv hr; subst this
  obtain ⟨c, t, rfl, hc⟩ := rep_atom_head hn hm
  refine ⟨pre, [c], t ++ post, by simp, ?_⟩
  have h1 : SeqAt sat bnd [x] pre ([c] ++ []) (t ++ post) := .item hat (by rw [hre]; exact hc) .nil
  refine .at ?_ (by simpa using h1)
  simpa using hk

theorem search_atom_at {a : α} {x : Item α} (hx : x = .lit a ∨ x = .cls a) {n m : Nat} (hn : 1 ≤ n) (k : AtKind)
    {s : List Char} (h : Search sat bnd [.rep n m (.atom a), .at k] s) : Search sat bnd [x, .at k] s := by
  obtain ⟨hre, hat⟩ := itemRe_atom hx
  obtain ⟨pre, mid, post, rfl, hs⟩ := h
  obtain ⟨u, w, rfl, hm, hr⟩ := seqAt_item_inv rfl hs
  obtain ⟨hk, hr'⟩ := seqAt_at_inv hr
  have := seqAt_nil_inv hr'; subst this
  obtain ⟨t, c, rfl, hc⟩ := rep_atom_last hn hm
  refine ⟨pre ++ t, [c], post, by simp, ?_⟩
  have h2 : SeqAt sat bnd [.at k] (pre ++ t ++ [c]) [] post := .at (by simpa [List.append_assoc] using hk) .nil
  have : SeqAt sat bnd [x, .at k] (pre ++ t) ([c] ++ []) post := .item hat (by rw [hre]; exact hc) h2
  simpa using this

theorem bare_cases (x : Item α) : (∃ a, x = .lit a ∨ x = .cls a) ∨ (x.isLit = false ∧ ∀ a, x ≠ .cls a) := by
  cases x with
  | lit a => exact .inl ⟨a, .inl rfl⟩
  | cls a => exact .inl ⟨a, .inr rfl⟩
  | «at» k => exact .inr ⟨rfl, fun _ h => by cases h⟩
  | rep lo hi b => exact .inr ⟨rfl, fun _ h => by cases h⟩
  | other r => exact .inr ⟨rfl, fun _ h => by cases h⟩

theorem isAt_eq {x : Item α} (h : x.isAt = true) : ∃ k, x = .at k := by
  cases x <;> simp_all [Item.isAt]

/-- **monotonicity of `update_quantifier` under search**: except for the shape of F32, whatever the rewritten pattern
    finds in a string the original pattern finds too — for every mix of positional assertions -/
theorem updateQuantifier_mono (v : RxV) (items out : List (Item α)) (lo hi : Option Nat) (w : Bool)
    (hwf : wfItems items) (hb : bareBetweenAt items = false)
    (hq : updateQuantifier v items lo hi = .ok out w) {s : List Char} (h : Search sat bnd out s) : Search sat bnd items s := by
  unfold updateQuantifier at hq
  split at hq
  · cases hq; exact h
  · rcases items with _ | ⟨a, _ | ⟨x, _ | ⟨b, _ | ⟨z, rest⟩⟩⟩⟩
    · simp only [handleParsed] at hq; cases hq; exact h
    · -- [a]
      simp only [handleParsed] at hq
      cases hu : updateItem v a lo hi with
      | none => simp [hu] at hq
      | some p =>
        obtain ⟨y, w'⟩ := p
        simp only [hu] at hq
        cases hq
        rcases bare_cases a with ⟨c, hc⟩ | hnb
        · rcases updateItem_atom v c a y hc lo hi _ hu with rfl | ⟨n, m, hn, rfl⟩
          · exact h
          · exact search_single_atom hc hn h
        · exact search_mono (.cons (updateItem_le v a y lo hi _ hnb hu) .nil) h
    · -- [a, x]
      rw [handleParsed_two] at hq
      by_cases ha : a.isAt = true
      · simp only [ha, if_true] at hq
        cases hu : updateItem v x lo hi with
        | none => simp [hu] at hq
        | some p =>
          obtain ⟨y, w'⟩ := p
          simp only [hu] at hq
          cases hq
          obtain ⟨k, rfl⟩ := isAt_eq ha
          rcases bare_cases x with ⟨c, hc⟩ | hnb
          · rcases updateItem_atom v c x y hc lo hi _ hu with rfl | ⟨n, m, hn, rfl⟩
            · exact h
            · exact search_at_atom hc hn k h
          · exact search_mono (.cons (.inl rfl) (.cons (updateItem_le v x y lo hi _ hnb hu) .nil)) h
      · simp only [ha, Bool.false_eq_true, if_false] at hq
        by_cases hxa : x.isAt = true
        · simp only [hxa, if_true] at hq
          cases hu : updateItem v a lo hi with
          | none => simp [hu] at hq
          | some p =>
            obtain ⟨y, w'⟩ := p
            simp only [hu] at hq
            cases hq
            obtain ⟨k, rfl⟩ := isAt_eq hxa
            rcases bare_cases a with ⟨c, hc⟩ | hnb
            · rcases updateItem_atom v c a y hc lo hi _ hu with rfl | ⟨n, m, hn, rfl⟩
              · exact h
              · exact search_atom_at hc hn k h
            · exact search_mono (.cons (updateItem_le v a y lo hi _ hnb hu) (.cons (.inl rfl) .nil)) h
        · simp only [hxa, Bool.false_eq_true, if_false] at hq
          cases hq; exact h
    · -- [a, x, b]
      rw [handleParsed_three] at hq
      by_cases hab : (a.isAt && b.isAt) = true
      · simp only [hab, if_true] at hq
        cases hu : updateItem v x lo hi with
        | none => simp [hu] at hq
        | some p =>
          obtain ⟨y, w'⟩ := p
          simp only [hu] at hq
          cases hq
          rcases bare_cases x with ⟨c, hc⟩ | hnb
          · exfalso
            have : isBareAtom x = true := by rcases hc with rfl | rfl <;> rfl
            simp [bareBetweenAt, hab, this] at hb
          · exact search_mono (.cons (.inl rfl) (.cons (updateItem_le v x y lo hi _ hnb hu) (.cons (.inl rfl) .nil))) h
      · simp only [hab, Bool.false_eq_true, if_false] at hq
        cases hq; exact h
    · -- more than three items
      rw [handleParsed_many] at hq
      have hne : (x :: b :: z :: rest) ≠ [] := by simp
      have hlast : (x :: b :: z :: rest).getLast? = some ((x :: b :: z :: rest).getLast hne) := List.getLast?_eq_some_getLast hne
      rw [hlast] at hq
      simp only at hq
      split at hq
      · cases hq
        have hsplit : (x :: b :: z :: rest) = (x :: b :: z :: rest).dropLast ++ [(x :: b :: z :: rest).getLast hne] :=
          (List.dropLast_concat_getLast hne).symm
        have hwf' : wfItems (x :: b :: z :: rest).dropLast := by
          have h1 : wfItems (x :: b :: z :: rest) := by
            cases a with
            | rep _ _ _ => exact hwf.2
            | _ => exact hwf
          rw [hsplit, wfItems_append] at h1
          exact h1.1
        have hle := handleAnchored_le (sat := sat) v a ((x :: b :: z :: rest).getLast hne) (x :: b :: z :: rest).dropLast lo hi hwf'
        have hitems : a :: (x :: b :: z :: rest).dropLast ++ [(x :: b :: z :: rest).getLast hne] = a :: x :: b :: z :: rest := by
          rw [List.cons_append, ← hsplit]
        rw [hitems] at hle
        exact search_mono hle h
      · cases hq; exact h

/-! ### `is_anchored` and `mergeLengths` -/

theorem isBegin_eq (x : Item α) : isBegin x = x.isBeginAt := by
  cases x with
  | «at» k => cases k <;> rfl
  | _ => rfl

theorem isEnd_eq (x : Item α) : isEnd x = x.isEndAt := by
  cases x with
  | «at» k => cases k <;> rfl
  | _ => rfl

/-- an anchored pattern is `first :: middle ++ [last]` with a begin anchor first and an end anchor last -/
theorem isAnchored_shape (items : List (Item α)) (h : isAnchored items = true) :
    ∃ first middle last, items = first :: middle ++ [last] ∧ isBegin first = true ∧ isEnd last = true := by
  rcases items with _ | ⟨a, _ | ⟨x, rest⟩⟩
  · simp [isAnchored] at h
  · simp [isAnchored] at h
  · simp only [isAnchored, Bool.and_eq_true] at h
    have hne : (x :: rest) ≠ [] := by simp
    rw [List.getLast?_eq_some_getLast hne] at h
    refine ⟨a, (x :: rest).dropLast, (x :: rest).getLast hne, ?_, by rw [isBegin_eq]; exact h.1, by rw [isEnd_eq]; exact h.2⟩
    rw [List.cons_append, List.dropLast_concat_getLast hne]

/-- what the anchored, length-dropping case needs (the hypotheses of `updateQuantifier_sound`) -/
def AnchoredOK (v : RxV) (items : List (Item α)) (hi : Option Nat) : Prop :=
  ∀ first middle last, items = first :: middle ++ [last] → isBegin first = true → isEnd last = true →
    simpleMiddle middle = true ∧ (v.zeroMax = .repaired ∨ ∀ h, hi = some h → h ≠ countLits middle) ∧
      ∀ h, hi = some h → h < MAXREPEAT

theorem mergeLengths_cases (v : RxV) (vLen : Variant) (sameText : Bool) (items out : List (Item α)) (lo hi : Option Nat)
    (keep : Bool) (hm : mergeLengths v vLen sameText items lo hi = .ok ⟨out, keep⟩) :
    (out = items ∧ keep = true) ∨
    (updateQuantifier v items lo hi = .ok out true ∧ keep = (vLen == .repaired && !isAnchored items)) := by
  unfold mergeLengths at hm
  by_cases ht : (lenTruthy lo || lenTruthy hi) = true
  · simp only [ht, if_true] at hm
    cases hq : updateQuantifier v items lo hi with
    | internalError => simp [hq] at hm
    | ok o r =>
      simp only [hq] at hm
      by_cases hr : (r && !sameText) = true
      · simp only [hr, if_true, MergeRes.ok.injEq, Merged.mk.injEq] at hm
        simp only [Bool.and_eq_true] at hr
        right
        rw [hr.1, hm.1]
        exact ⟨rfl, hm.2.symm⟩
      · simp only [hr, Bool.false_eq_true, if_false, MergeRes.ok.injEq, Merged.mk.injEq] at hm
        exact .inl ⟨hm.1.symm, hm.2.symm⟩
  · simp only [ht, Bool.false_eq_true, if_false, MergeRes.ok.injEq, Merged.mk.injEq] at hm
    exact .inl ⟨hm.1.symm, hm.2.symm⟩

/-- **soundness of `update_pattern_in_schema` (repaired length-drop site) for every anchoring**: whatever the string
    schema it leaves accepts, the original pattern + minLength/maxLength accept -/
theorem mergeLengths_sound (v : RxV) (sameText : Bool) (items out : List (Item α)) (lo hi : Option Nat) (keep : Bool)
    (hwf : wfItems items) (hb : bareBetweenAt items = false) (hanch : AnchoredOK v items hi)
    (hm : mergeLengths v .repaired sameText items lo hi = .ok ⟨out, keep⟩) (s : List Char)
    (h : Accepts sat bnd out keep lo hi s) : Accepts sat bnd items true lo hi s := by
  rcases mergeLengths_cases v .repaired sameText items out lo hi keep hm with ⟨rfl, rfl⟩ | ⟨hq, hk⟩
  · exact h
  · by_cases ha : isAnchored items = true
    · obtain ⟨first, middle, last, rfl, hbeg, hend⟩ := isAnchored_shape items ha
      obtain ⟨hs, hv, hhi⟩ := hanch first middle last rfl hbeg hend
      have hwfm : wfBounds (repBounds middle) := by
        have h1 : wfItems (middle ++ [last]) := by
          cases first with
          | «at» k => exact hwf
          | _ => simp [isBegin] at hbeg
        rw [wfItems_append] at h1
        exact wfItems_bounds middle h1.1
      have hbare : ∀ a, middle ≠ [.lit a] := by
        intro a e
        subst e
        have h1 := isBegin_isAt first hbeg
        have h2 := isEnd_isAt last hend
        simp [bareBetweenAt, h1, h2, isBareAtom] at hb
      obtain ⟨middle', rfl, hsound⟩ := updateQuantifier_sound (sat := sat) v first last middle lo hi out hbeg hend hs hwfm hbare hv hhi hq
      obtain ⟨i1, i2, i3⟩ := hsound s (search_anchored_matches hbeg hend h.1)
      exact ⟨matches_search_anchored hbeg hend (simpleMiddle_noAt middle hs) i1, fun _ => ⟨i2, i3⟩⟩
    · have hkeep : keep = true := by rw [hk]; simp [ha]
      exact ⟨updateQuantifier_mono v items out lo hi true hwf hb hq h.1, fun _ => h.2 hkeep⟩

/-- the length keywords go only for a pattern anchored at both ends (repaired site) -/
theorem mergeLengths_dropped (v : RxV) (sameText : Bool) (items out : List (Item α)) (lo hi : Option Nat)
    (hm : mergeLengths v .repaired sameText items lo hi = .ok ⟨out, false⟩) :
    isAnchored items = true ∧ updateQuantifier v items lo hi = .ok out true := by
  rcases mergeLengths_cases v .repaired sameText items out lo hi false hm with ⟨_, h⟩ | ⟨hq, hk⟩
  · cases h
  · refine ⟨?_, hq⟩
    by_cases ha : isAnchored items = true
    · exact ha
    · simp [ha] at hk

end SV.Proofs.C01Merge
