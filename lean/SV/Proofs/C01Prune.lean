import SV.Model.C01Prune
namespace SV.Proofs.C01Prune
open SV.Model.C01Prune

theorem lookup_mem (name : String) (ps : List PropIn) (p : PropIn) (h : lookup name ps = some p) : p ∈ ps := by
  induction ps with
  | nil => simp [lookup] at h
  | cons q r ih =>
    simp only [lookup] at h
    split at h
    · simp only [Option.some.injEq] at h; subst h; simp
    · exact List.mem_cons_of_mem _ (ih h)

/-- with the repaired pruning an entry leaves `properties` only in the residual case: a *required* single-member
    combinator over a reference -/
theorem cleanOne_repaired_none (required : List String) (p : PropIn) (h : cleanOne .repaired required p = none) :
    p.singleComb = true ∧ required.contains p.name = true := by
  unfold cleanOne at h
  split at h
  · simp at h
  · split at h
    · rename_i hs
      split at h
      · rename_i hr; exact ⟨hs, hr⟩
      · simp at h
    · simp at h

theorem pruned_narrows (s : ObjSchema) (o : Inst)
    (hres : ∀ p, p ∈ s.props → p.singleComb = true → s.required.contains p.name = false)
    (h : validPruned .repaired s o = true) : validOrig s o = true := by
  simp only [validPruned, Bool.and_eq_true, List.all_eq_true] at h
  simp only [validOrig, Bool.and_eq_true, List.all_eq_true]
  refine ⟨h.1, ?_⟩
  intro x hx
  have hx' := h.2 x hx
  obtain ⟨k, ok⟩ := x
  simp only at hx' ⊢
  cases hl : lookup k s.props with
  | none => simpa [hl] using hx'
  | some p =>
    simp only [hl] at hx' ⊢
    cases hc : cleanOne .repaired s.required p with
    | none =>
      have := cleanOne_repaired_none s.required p hc
      have hp := hres p (lookup_mem k s.props p hl) this.1
      rw [this.2] at hp; simp at hp
    | some d =>
      cases d with
      | keep => simpa [hc] using hx'
      | never => simp [hc] at hx'

end SV.Proofs.C01Prune
