/-
  Helper lemmas for the regex part of C01: inversion of `Matches`, soundness of the length distribution
  (`_distribute_length_constraints`, both branches) and of the rebuilt pattern.  No property statements here.
-/
import SV.Spec.C01Regex
open SV.Model.C01Regex SV.Spec.C01Regex
namespace SV.Proofs.C01Regex

variable {α : Type} {sat : α → Char → Bool}

theorem width1_len {r : Re α} (hw : width1 r = true) {s : List Char} (h : Matches sat r s) : s.length = 1 := by
  induction h with
  | eps => simp [width1] at hw
  | atom _ => rfl
  | cat _ _ _ _ => simp [width1] at hw
  | altL _ ih => simp only [width1, Bool.and_eq_true] at hw; exact ih hw.1
  | altR _ ih => simp only [width1, Bool.and_eq_true] at hw; exact ih hw.2
  | rep _ _ _ _ _ => simp [width1] at hw

theorem flatten_len_of_width1 (ws : List (List Char)) (h : ∀ w ∈ ws, w.length = 1) : ws.flatten.length = ws.length := by
  induction ws with
  | nil => rfl
  | cons w ws ih =>
    simp only [List.flatten_cons, List.length_append, List.length_cons]
    rw [ih (fun w' hw' => h w' (by simp [hw'])), h w (by simp)]
    omega

/-- inversion of `rep` with a one-character body: the repeat count is the string length -/
theorem rep_inv {r : Re α} {lo hi : Nat} {s : List Char} (hw : width1 r = true) (h : Matches sat (.rep r lo hi) s) :
    lo ≤ s.length ∧ (MAXREPEAT ≤ hi ∨ s.length ≤ hi) ∧
    ∃ ws : List (List Char), s = ws.flatten ∧ (∀ w ∈ ws, Matches sat r w) ∧ ws.length = s.length := by
  cases h with
  | rep ws hall hlo hhi =>
    have hl := flatten_len_of_width1 ws (fun w hw' => width1_len hw (hall w hw'))
    rw [hl]
    exact ⟨hlo, hhi, ws, rfl, hall, rfl⟩

theorem rep_mono {r : Re α} {lo hi lo' hi' : Nat} {s : List Char} (h : Matches sat (.rep r lo hi) s)
    (h1 : lo' ≤ lo) (h2 : MAXREPEAT ≤ hi' ∨ hi ≤ hi') : Matches sat (.rep r lo' hi') s := by
  cases h with
  | rep ws hall hlo hhi =>
    refine .rep ws hall (by omega) ?_
    rcases h2 with h2 | h2
    · exact .inl h2
    · rcases hhi with hhi | hhi
      · exact .inl (by omega)
      · exact .inr (by omega)

theorem cat_inv {r t : Re α} {s : List Char} (h : Matches sat (.cat r t) s) :
    ∃ u w, s = u ++ w ∧ Matches sat r u ∧ Matches sat t w := by
  cases h with
  | cat h1 h2 => exact ⟨_, _, rfl, h1, h2⟩

theorem atom_len {a : α} {s : List Char} (h : Matches sat (.atom a) s) : s.length = 1 := by
  cases h; rfl

theorem eps_inv {s : List Char} (h : Matches sat (.eps : Re α) s) : s = [] := by
  cases h; rfl


/-- `d` refines `bounds` position by position -/
inductive Dist : List (Nat × Nat) → List (Nat × Nat) → Prop
  | nil : Dist [] []
  | cons {mn mx a b bs ds} : mn ≤ a → (MAXREPEAT ≤ mx ∨ b ≤ mx) → Dist bs ds → Dist ((mn, mx) :: bs) ((a, b) :: ds)

def sumFst : List (Nat × Nat) → Nat
  | [] => 0
  | (a, _) :: ds => a + sumFst ds

def sumSnd : List (Nat × Nat) → Nat
  | [] => 0
  | (_, b) :: ds => b + sumSnd ds

def allFinite : List (Nat × Nat) → Prop
  | [] => True
  | (_, b) :: ds => b < MAXREPEAT ∧ allFinite ds

/-- a string matching the rebuilt middle matches the original middle, and its length is the number of literals plus
    a repeat count within each new bound -/
theorem rebuild_sound (middle : List (Item α)) (d : List (Nat × Nat)) (hs : simpleMiddle middle = true)
    (hd : Dist (repBounds middle) d) (s : List Char) (h : Matches sat (seqRe (rebuild middle d)) s) :
    Matches sat (seqRe middle) s ∧ countLits middle + sumFst d ≤ s.length ∧
      (allFinite d → s.length ≤ countLits middle + sumSnd d) := by
  induction middle generalizing d s with
  | nil =>
    cases hd
    simp only [rebuild, seqRe] at h
    have := eps_inv h; subst this
    exact ⟨.eps, by simp [countLits, sumFst], fun _ => by simp⟩
  | cons x rest ih =>
    cases x with
    | lit a =>
      simp only [simpleMiddle] at hs
      simp only [repBounds] at hd
      have hr : rebuild (Item.lit a :: rest) d = Item.lit a :: rebuild rest d := by cases d <;> rfl
      rw [hr] at h
      simp only [seqRe, itemRe] at h ⊢
      obtain ⟨u, w, rfl, h1, h2⟩ := cat_inv h
      obtain ⟨i1, i2, i3⟩ := ih d hs hd w h2
      have hu := atom_len h1
      refine ⟨.cat h1 i1, ?_, ?_⟩
      · simp only [countLits, List.length_append]; omega
      · intro hf; have := i3 hf; simp only [countLits, List.length_append]; omega
    | rep lo hi body =>
      simp only [simpleMiddle, Bool.and_eq_true] at hs
      simp only [repBounds] at hd
      cases hd with
      | @cons _ _ a b _ ds hlo hhi hrest =>
        simp only [rebuild, seqRe, itemRe] at h ⊢
        obtain ⟨u, w, rfl, h1, h2⟩ := cat_inv h
        obtain ⟨i1, i2, i3⟩ := ih ds hs.2 hrest w h2
        obtain ⟨j1, j2, _⟩ := rep_inv hs.1 h1
        refine ⟨.cat (rep_mono h1 hlo hhi) i1, ?_, ?_⟩
        · simp only [countLits, sumFst, List.length_append]; omega
        · intro hf
          simp only [allFinite] at hf
          have := i3 hf.2
          have hb : u.length ≤ b := by
            rcases j2 with j2 | j2
            · have := hf.1; omega
            · exact j2
          simp only [countLits, sumSnd, List.length_append]; omega
    | _ => simp [simpleMiddle] at hs


def wfBounds : List (Nat × Nat) → Prop
  | [] => True
  | (mn, mx) :: bs => mn ≤ mx ∧ wfBounds bs

theorem distRange_sound (bounds : List (Nat × Nat)) (hwf : wfBounds bounds) :
    ∀ remMin remMax d, distRange bounds remMin remMax = some d →
      Dist bounds d ∧ remMin ≤ sumFst d ∧ (remMax < MAXREPEAT → sumSnd d ≤ remMax ∧ allFinite d) := by
  induction bounds with
  | nil =>
    intro remMin remMax d h
    simp only [distRange] at h
    by_cases h0 : remMin > 0
    · simp [h0] at h
    · simp only [h0, if_false, Option.some.injEq] at h
      subst h
      exact ⟨.nil, by simp [sumFst]; omega, fun _ => ⟨by simp [sumSnd], trivial⟩⟩
  | cons b rest ih =>
    obtain ⟨mn, mx⟩ := b
    intro remMin remMax d h
    simp only [wfBounds] at hwf
    simp only [distRange] at h
    by_cases hgt : partMinOf remMin mn mx > partMaxOf remMax mx
    · simp [hgt] at h
    · simp only [hgt, if_false] at h
      cases hr : distRange rest (remMin - partMinOf remMin mn mx) (nextMax remMax (partMaxOf remMax mx)) with
      | none => simp [hr] at h
      | some r =>
        simp only [hr, Option.some.injEq] at h
        subst h
        obtain ⟨i1, i2, i3⟩ := ih hwf.2 _ _ r hr
        have hmin : mn ≤ partMinOf remMin mn mx := by unfold partMinOf; split <;> omega
        have hmax : partMaxOf remMax mx ≤ mx := by unfold partMaxOf; split <;> omega
        refine ⟨.cons hmin (.inr hmax) i1, ?_, ?_⟩
        · simp only [sumFst]; omega
        · intro hfin
          have hpm : partMaxOf remMax mx ≤ remMax := by unfold partMaxOf; simp only [hfin, if_true]; omega
          have hne : partMaxOf remMax mx ≠ MAXREPEAT := by omega
          have hnext : nextMax remMax (partMaxOf remMax mx) = remMax - partMaxOf remMax mx := by
            unfold nextMax; simp [hne]
          rw [hnext] at i3
          have := i3 (by omega)
          simp only [sumSnd, allFinite]
          exact ⟨by omega, by omega, this.2⟩


theorem tryLens_some (k : Nat → Option (List Nat)) (rem : Nat) :
    ∀ count len r, tryLens k rem len count = some r →
      ∃ l r', r = l :: r' ∧ len ≤ l ∧ l < len + count ∧ l ≤ rem ∧ k (rem - l) = some r' := by
  intro count
  induction count with
  | zero => intro len r h; simp [tryLens] at h
  | succ n ih =>
    intro len r h
    simp only [tryLens] at h
    by_cases hgt : len > rem
    · simp [hgt] at h
    · simp only [hgt, if_false] at h
      cases hk : k (rem - len) with
      | some r' =>
        simp only [hk, Option.some.injEq] at h
        exact ⟨len, r', h.symm, by omega, by omega, by omega, hk⟩
      | none =>
        simp only [hk] at h
        obtain ⟨l, r', h1, h2, h3, h4, h5⟩ := ih (len + 1) r h
        exact ⟨l, r', h1, by omega, by omega, h4, h5⟩

def diag (ls : List Nat) : List (Nat × Nat) := ls.map fun l => (l, l)

theorem findComb_sound (bounds : List (Nat × Nat)) :
    ∀ rem ls, findComb bounds rem = some ls →
      Dist bounds (diag ls) ∧ sumFst (diag ls) = rem ∧ sumSnd (diag ls) = rem ∧ (rem < MAXREPEAT → allFinite (diag ls)) := by
  induction bounds with
  | nil =>
    intro rem ls h
    simp only [findComb] at h
    by_cases h0 : (rem == 0) = true
    · simp only [h0, if_true, Option.some.injEq] at h
      subst h
      simp only [beq_iff_eq] at h0
      exact ⟨.nil, by simp [diag, sumFst, h0], by simp [diag, sumSnd, h0], fun _ => trivial⟩
    · simp [h0] at h
  | cons b rest ih =>
    obtain ⟨mn, mx⟩ := b
    intro rem ls h
    simp only [findComb] at h
    obtain ⟨l, r', h1, h2, h3, h4, h5⟩ := tryLens_some _ _ _ _ _ h
    subst h1
    obtain ⟨i1, i2, i3, i4⟩ := ih _ _ h5
    have hup : MAXREPEAT ≤ mx ∨ l ≤ mx := by
      by_cases hm : (mx == MAXREPEAT) = true
      · left; simp only [beq_iff_eq] at hm; omega
      · right; simp only [hm, Bool.false_eq_true, if_false] at h3; omega
    refine ⟨.cons h2 hup i1, ?_, ?_, ?_⟩
    · simp only [diag, List.map_cons, sumFst] at i2 ⊢; omega
    · simp only [diag, List.map_cons, sumSnd] at i3 ⊢; omega
    · intro hfin
      simp only [diag, List.map_cons, allFinite]
      exact ⟨by omega, i4 (by omega)⟩

/-- `_distribute_length_constraints` (repaired at the zero test, or no zero maximum): the distribution refines the
    bounds, its minima add up to at least `lo`, its maxima to at most `hi` -/
theorem distribute_sound (v : RxV) (bounds : List (Nat × Nat)) (hwf : wfBounds bounds) (lo hi : Option Nat)
    (hv : v.zeroMax = .repaired ∨ hi ≠ some 0) (hhi : ∀ h, hi = some h → h < MAXREPEAT)
    (d : List (Nat × Nat)) (h : distribute v bounds lo hi = some d) :
    Dist bounds d ∧ lo.getD 0 ≤ sumFst d ∧ (∀ h, hi = some h → sumSnd d ≤ h ∧ allFinite d) := by
  unfold distribute at h
  by_cases hex : isExact lo hi = true
  · simp only [hex, if_true] at h
    cases hf : findComb bounds (lo.getD 0) with
    | none => simp [hf] at h
    | some ls =>
      simp only [hf, Option.some.injEq] at h
      subst h
      obtain ⟨i1, i2, i3, i4⟩ := findComb_sound bounds _ _ hf
      cases lo with
      | none => simp [isExact] at hex
      | some a =>
        cases hi with
        | none => simp [isExact] at hex
        | some b =>
          simp only [isExact, beq_iff_eq] at hex
          subst hex
          refine ⟨i1, by simp only [Option.getD_some]; exact Nat.le_of_eq i2.symm, ?_⟩
          intro h' hh
          cases hh
          have := hhi a rfl
          exact ⟨by simp only [Option.getD_some] at i3; exact Nat.le_of_eq i3, i4 (by simpa using this)⟩
  · simp only [hex, Bool.false_eq_true, if_false] at h
    obtain ⟨i1, i2, i3⟩ := distRange_sound bounds hwf _ _ d h
    refine ⟨i1, i2, ?_⟩
    intro h' hh
    subst hh
    have hlt := hhi h' rfl
    have hrm : remMaxOf v (some h') = h' := by
      unfold remMaxOf
      rcases hv with hv | hv
      · simp [hv]
      · have : h' ≠ 0 := fun e => hv (by rw [e])
        simp [this]
    rw [hrm] at i3
    exact i3 hlt


theorem handleAnchored_cases (v : RxV) (f : Item α) (m : List (Item α)) (l : Item α) (lo hi : Option Nat) :
    handleAnchored v f m l lo hi = (f :: m ++ [l], false) ∨
    ∃ lo' hi' d, subLen lo (countLits m) = some lo' ∧ subLen hi (countLits m) = some hi' ∧
      distribute v (repBounds m) lo' hi' = some d ∧ handleAnchored v f m l lo hi = (f :: rebuild m d ++ [l], true) := by
  unfold handleAnchored
  cases h1 : subLen lo (countLits m) with
  | none => left; rfl
  | some lo' =>
    cases h2 : subLen hi (countLits m) with
    | none => left; rfl
    | some hi' =>
      dsimp only
      by_cases he : (repBounds m).isEmpty = true
      · left; simp [he]
      · simp only [he, Bool.false_eq_true, if_false]
        cases hd : distribute v (repBounds m) lo' hi' with
        | none => left; rfl
        | some d => right; exact ⟨lo', hi', d, rfl, rfl, hd, rfl⟩

theorem simpleMiddle_all (m : List (Item α)) (h : simpleMiddle m = true) : m.all (fun i => i.isLit || i.isRep) = true := by
  induction m with
  | nil => rfl
  | cons x rest ih =>
    cases x <;> simp_all [simpleMiddle, Item.isLit, Item.isRep]

theorem isBegin_isAt (x : Item α) (h : isBegin x = true) : x.isAt = true := by
  cases x <;> simp_all [isBegin, Item.isAt]
theorem isEnd_isAt (x : Item α) (h : isEnd x = true) : x.isAt = true := by
  cases x <;> simp_all [isEnd, Item.isAt]

/-- what the rewriting theorem promises about the new middle part -/
def Sound (sat : α → Char → Bool) (middle middle' : List (Item α)) (lo hi : Option Nat) : Prop :=
  ∀ s, Matches sat (seqRe middle') s →
    Matches sat (seqRe middle) s ∧ lo.getD 0 ≤ s.length ∧ ∀ h, hi = some h → s.length ≤ h

theorem sound_of_dist (middle : List (Item α)) (d : List (Nat × Nat)) (lo hi : Option Nat)
    (hs : simpleMiddle middle = true) (hd : Dist (repBounds middle) d)
    (h1 : lo.getD 0 ≤ countLits middle + sumFst d)
    (h2 : ∀ h, hi = some h → countLits middle + sumSnd d ≤ h ∧ allFinite d) :
    Sound sat middle (rebuild middle d) lo hi := by
  intro s hm
  obtain ⟨i1, i2, i3⟩ := rebuild_sound middle d hs hd s hm
  refine ⟨i1, by omega, ?_⟩
  intro h hh
  obtain ⟨j1, j2⟩ := h2 h hh
  have := i3 j2
  omega

theorem single_rep_sound (rlo rhi : Nat) (body : Re α) (lo hi : Option Nat) (hw : width1 body = true)
    (hhi : ∀ h, hi = some h → h < MAXREPEAT) :
    Sound sat [.rep rlo rhi body] [.rep (buildSize rlo rhi lo hi).1 (buildSize rlo rhi lo hi).2 body] lo hi := by
  have := sound_of_dist (sat := sat) [.rep rlo rhi body] [((buildSize rlo rhi lo hi).1, (buildSize rlo rhi lo hi).2)] lo hi
    (by simp [simpleMiddle, hw])
    (by
      simp only [repBounds]
      refine .cons ?_ ?_ .nil
      · unfold buildSize; cases lo <;> simp <;> omega
      · unfold buildSize
        cases hi with
        | none => right; simp
        | some h =>
          by_cases hm : (rhi == MAXREPEAT) = true
          · left; simp only [beq_iff_eq] at hm; omega
          · right; simp only [hm, Bool.false_eq_true, if_false]; omega)
    (by unfold buildSize; cases lo <;> simp [countLits, sumFst] <;> omega)
    (by
      intro h hh
      subst hh
      have := hhi h rfl
      unfold buildSize
      simp only [countLits, sumSnd, allFinite]
      by_cases hm : (rhi == MAXREPEAT) = true
      · simp only [hm, if_true]; exact ⟨by omega, by omega, trivial⟩
      · simp only [hm, Bool.false_eq_true, if_false]; exact ⟨by omega, by omega, trivial⟩)
  simpa [rebuild] using this


theorem subLen_some {x : Option Nat} {fixed : Nat} {y : Option Nat} (h : subLen x fixed = some y) :
    (x = none ∧ y = none) ∨ ∃ l, x = some l ∧ fixed ≤ l ∧ y = some (l - fixed) := by
  unfold subLen at h
  cases x with
  | none => left; simp at h; exact ⟨rfl, h.symm⟩
  | some l =>
    right
    by_cases hl : l < fixed
    · simp [hl] at h
    · simp only [hl, if_false, Option.some.injEq] at h
      exact ⟨l, rfl, by omega, h.symm⟩

/-- soundness of the anchored multi-part rewrite -/
theorem handleAnchored_sound (v : RxV) (f l : Item α) (m : List (Item α)) (lo hi : Option Nat)
    (hs : simpleMiddle m = true) (hwf : wfBounds (repBounds m))
    (hv : v.zeroMax = .repaired ∨ ∀ h, hi = some h → h ≠ countLits m) (hhi : ∀ h, hi = some h → h < MAXREPEAT) :
    (handleAnchored v f m l lo hi).2 = false ∨
    ∃ m', (handleAnchored v f m l lo hi).1 = f :: m' ++ [l] ∧ Sound sat m m' lo hi := by
  rcases handleAnchored_cases v f m l lo hi with h | ⟨lo', hi', d, h1, h2, hd, h⟩
  · left; rw [h]
  · right
    refine ⟨rebuild m d, by rw [h], ?_⟩
    have hv' : v.zeroMax = .repaired ∨ hi' ≠ some 0 := by
      rcases hv with hv | hv
      · left; exact hv
      · right
        rcases subLen_some h2 with ⟨_, e⟩ | ⟨h', e1, e2, e3⟩
        · rw [e]; simp
        · rw [e3]; have := hv h' e1; simp; omega
    have hhi' : ∀ h, hi' = some h → h < MAXREPEAT := by
      intro h hh
      rcases subLen_some h2 with ⟨_, e⟩ | ⟨h', e1, e2, e3⟩
      · rw [e] at hh; cases hh
      · rw [e3] at hh; cases hh; have := hhi h' e1; omega
    obtain ⟨i1, i2, i3⟩ := distribute_sound v (repBounds m) hwf lo' hi' hv' hhi' d hd
    apply sound_of_dist m d lo hi hs i1
    · rcases subLen_some h1 with ⟨e1, e2⟩ | ⟨l', e1, e2, e3⟩
      · rw [e1]; simp
      · rw [e1]; rw [e3] at i2; simp at i2 ⊢; omega
    · intro h hh
      rcases subLen_some h2 with ⟨e1, _⟩ | ⟨h', e1, e2, e3⟩
      · rw [e1] at hh; cases hh
      · rw [e1] at hh; cases hh
        obtain ⟨j1, j2⟩ := i3 (h - countLits m) e3
        exact ⟨by omega, j2⟩

theorem handleParsed_two (v : RxV) (a x : Item α) (lo hi : Option Nat) :
    handleParsed v [a, x] lo hi =
      if a.isAt then match updateItem v x lo hi with | some (y, w) => .ok [a, y] w | none => .internalError
      else if x.isAt then match updateItem v a lo hi with | some (y, w) => .ok [y, x] w | none => .internalError
      else .ok [a, x] false := rfl

theorem handleParsed_three (v : RxV) (a x b : Item α) (lo hi : Option Nat) :
    handleParsed v [a, x, b] lo hi =
      if a.isAt && b.isAt then match updateItem v x lo hi with | some (y, w) => .ok [a, y, b] w | none => .internalError
      else .ok [a, x, b] false := rfl

theorem handleParsed_many (v : RxV) (a x y z : Item α) (rest : List (Item α)) (lo hi : Option Nat) :
    handleParsed v (a :: x :: y :: z :: rest) lo hi =
      match (x :: y :: z :: rest).getLast? with
      | some last =>
        if a.isAt && last.isAt && (x :: y :: z :: rest).dropLast.all (fun i => i.isLit || i.isRep) then
          .ok (handleAnchored v a (x :: y :: z :: rest).dropLast last lo hi).1
              (handleAnchored v a (x :: y :: z :: rest).dropLast last lo hi).2
        else .ok (a :: x :: y :: z :: rest) false
      | none => .ok (a :: x :: y :: z :: rest) false := rfl

/-- **soundness of `update_quantifier` on patterns anchored at both ends whose repeats are one character wide**:
    whenever the pattern text is re-rendered (which is when the length keywords get dropped), every string matching
    the new pattern matches the old one and has a length within the bounds -/
theorem updateQuantifier_sound (v : RxV) (first last : Item α) (middle : List (Item α)) (lo hi : Option Nat)
    (out : List (Item α))
    (hb : isBegin first = true) (he : isEnd last = true) (hs : simpleMiddle middle = true)
    (hwf : wfBounds (repBounds middle)) (hbare : ∀ a, middle ≠ [.lit a])
    (hv : v.zeroMax = .repaired ∨ ∀ h, hi = some h → h ≠ countLits middle) (hhi : ∀ h, hi = some h → h < MAXREPEAT)
    (hq : updateQuantifier v (first :: middle ++ [last]) lo hi = .ok out true) :
    ∃ middle', out = first :: middle' ++ [last] ∧ Sound sat middle middle' lo hi := by
  have hfa := isBegin_isAt first hb
  have hla := isEnd_isAt last he
  unfold updateQuantifier at hq
  split at hq
  · cases hq
  · rcases middle with _ | ⟨x, _ | ⟨y, rest⟩⟩
    · have hl : updateItem v last lo hi = some (last, false) := by cases last <;> simp_all [isEnd, updateItem]
      have e0 : first :: ([] : List (Item α)) ++ [last] = [first, last] := rfl
      rw [e0, handleParsed_two] at hq
      simp only [hfa, if_true, hl] at hq
      cases hq
    · have e0 : first :: [x] ++ [last] = [first, x, last] := rfl
      rw [e0, handleParsed_three] at hq
      simp only [hfa, hla, Bool.and_self, if_true] at hq
      cases x with
      | rep rlo rhi body =>
        simp only [simpleMiddle, Bool.and_true] at hs
        simp only [updateItem] at hq
        by_cases hgt : (buildSize rlo rhi lo hi).1 > (buildSize rlo rhi lo hi).2
        · simp only [hgt, if_true] at hq; cases hq
        · simp only [hgt, if_false] at hq
          cases hq
          exact ⟨[.rep (buildSize rlo rhi lo hi).1 (buildSize rlo rhi lo hi).2 body], rfl,
            single_rep_sound rlo rhi body lo hi hs hhi⟩
      | lit a => exact absurd rfl (hbare a)
      | _ => simp [simpleMiddle] at hs
    · have hshape : ∃ z rest', rest ++ [last] = z :: rest' := by
        cases rest with
        | nil => exact ⟨last, [], rfl⟩
        | cons z r => exact ⟨z, r ++ [last], rfl⟩
      obtain ⟨z, rest', hz⟩ := hshape
      have hitems : first :: (x :: y :: rest) ++ [last] = first :: x :: y :: z :: rest' := by
        simp only [List.cons_append, hz]
      have hback : x :: y :: z :: rest' = (x :: y :: rest) ++ [last] := by simp only [List.cons_append, hz]
      rw [hitems, handleParsed_many] at hq
      rw [hback, List.dropLast_concat, List.getLast?_concat] at hq
      simp only [hfa, hla, simpleMiddle_all _ hs, Bool.and_self, if_true] at hq
      rcases handleAnchored_sound (sat := sat) v first last (x :: y :: rest) lo hi hs hwf hv hhi with h | ⟨m', h, hsound⟩
      · rw [h] at hq; cases hq
      · injection hq with h1 h2
        exact ⟨m', by rw [← h1, h], hsound⟩

/-! ### the re-rendered pattern stays satisfiable -/

def okPairs : List (Nat × Nat) → Prop
  | [] => True
  | (a, b) :: ds => a ≤ b ∧ okPairs ds

theorem distRange_ok (bounds : List (Nat × Nat)) :
    ∀ remMin remMax d, distRange bounds remMin remMax = some d → okPairs d := by
  induction bounds with
  | nil =>
    intro remMin remMax d h
    simp only [distRange] at h
    by_cases h0 : remMin > 0
    · simp [h0] at h
    · simp only [h0, if_false, Option.some.injEq] at h; subst h; trivial
  | cons b rest ih =>
    obtain ⟨mn, mx⟩ := b
    intro remMin remMax d h
    simp only [distRange] at h
    by_cases hgt : partMinOf remMin mn mx > partMaxOf remMax mx
    · simp [hgt] at h
    · simp only [hgt, if_false] at h
      cases hr : distRange rest (remMin - partMinOf remMin mn mx) (nextMax remMax (partMaxOf remMax mx)) with
      | none => simp [hr] at h
      | some r =>
        simp only [hr, Option.some.injEq] at h
        subst h
        exact ⟨by omega, ih _ _ r hr⟩

theorem diag_ok (ls : List Nat) : okPairs (diag ls) := by
  induction ls with
  | nil => trivial
  | cons l ls ih => exact ⟨Nat.le_refl l, ih⟩

theorem distribute_ok (v : RxV) (bounds : List (Nat × Nat)) (lo hi : Option Nat) (d : List (Nat × Nat))
    (h : distribute v bounds lo hi = some d) : okPairs d := by
  unfold distribute at h
  by_cases hex : isExact lo hi = true
  · simp only [hex, if_true] at h
    cases hf : findComb bounds (lo.getD 0) with
    | none => simp [hf] at h
    | some ls => simp only [hf, Option.some.injEq] at h; subst h; exact diag_ok ls
  · simp only [hex, Bool.false_eq_true, if_false] at h
    exact distRange_ok bounds _ _ d h

theorem width1_inhabited (hinh : ∀ a, ∃ c, sat a c = true) (r : Re α) (hw : width1 r = true) :
    ∃ c, Matches sat r [c] := by
  induction r with
  | atom a => obtain ⟨c, hc⟩ := hinh a; exact ⟨c, .atom hc⟩
  | alt r s ihr _ =>
    simp only [width1, Bool.and_eq_true] at hw
    obtain ⟨c, hc⟩ := ihr hw.1
    exact ⟨c, .altL hc⟩
  | _ => simp [width1] at hw

theorem rep_replicate {r : Re α} {c : Char} (h : Matches sat r [c]) (a b : Nat) (hab : a ≤ b) :
    Matches sat (.rep r a b) (List.replicate a c) := by
  have := Matches.rep (sat := sat) (r := r) (lo := a) (hi := b) (List.replicate a [c])
    (fun w hw => by rw [List.eq_of_mem_replicate hw]; exact h) (by simp) (.inr (by simpa using hab))
  have e : (List.replicate a [c]).flatten = List.replicate a c := by
    induction a with
    | zero => rfl
    | succ n ih => simp [List.replicate_succ]
  rwa [e] at this

/-- the rebuilt middle is matched by some string whenever every new bound pair is consistent and atoms are inhabited -/
theorem rebuild_nonempty (hinh : ∀ a, ∃ c, sat a c = true) (middle : List (Item α)) (d : List (Nat × Nat))
    (hs : simpleMiddle middle = true) (hd : Dist (repBounds middle) d) (hok : okPairs d) :
    ∃ s, Matches sat (seqRe (rebuild middle d)) s := by
  induction middle generalizing d with
  | nil => cases hd; exact ⟨[], .eps⟩
  | cons x rest ih =>
    cases x with
    | lit a =>
      simp only [simpleMiddle] at hs
      simp only [repBounds] at hd
      have hr : rebuild (Item.lit a :: rest) d = Item.lit a :: rebuild rest d := by cases d <;> rfl
      rw [hr]
      obtain ⟨s, hs'⟩ := ih d hs hd hok
      obtain ⟨c, hc⟩ := hinh a
      exact ⟨[c] ++ s, .cat (.atom hc) hs'⟩
    | rep lo hi body =>
      simp only [simpleMiddle, Bool.and_eq_true] at hs
      simp only [repBounds] at hd
      cases hd with
      | @cons _ _ a b _ ds _ _ hrest =>
        simp only [okPairs] at hok
        obtain ⟨s, hs'⟩ := ih ds hs.2 hrest hok.2
        obtain ⟨c, hc⟩ := width1_inhabited hinh body hs.1
        exact ⟨List.replicate a c ++ s, .cat (rep_replicate hc a b hok.1) hs'⟩
    | _ => simp [simpleMiddle] at hs


/-- the re-rendered pattern is still matched by some string (it is not turned into an impossible one) -/
theorem updateQuantifier_keeps (hinh : ∀ a, ∃ c, sat a c = true) (v : RxV) (first last : Item α) (middle : List (Item α))
    (lo hi : Option Nat) (out : List (Item α))
    (hb : isBegin first = true) (he : isEnd last = true) (hs : simpleMiddle middle = true)
    (hwf : wfBounds (repBounds middle)) (hbare : ∀ a, middle ≠ [.lit a])
    (hv : v.zeroMax = .repaired ∨ ∀ h, hi = some h → h ≠ countLits middle) (hhi : ∀ h, hi = some h → h < MAXREPEAT)
    (hq : updateQuantifier v (first :: middle ++ [last]) lo hi = .ok out true) :
    ∃ middle' s, out = first :: middle' ++ [last] ∧ Matches sat (seqRe middle') s := by
  have hfa := isBegin_isAt first hb
  have hla := isEnd_isAt last he
  unfold updateQuantifier at hq
  split at hq
  · cases hq
  · rcases middle with _ | ⟨x, _ | ⟨y, rest⟩⟩
    · have hl : updateItem v last lo hi = some (last, false) := by cases last <;> simp_all [isEnd, updateItem]
      have e0 : first :: ([] : List (Item α)) ++ [last] = [first, last] := rfl
      rw [e0, handleParsed_two] at hq
      simp only [hfa, if_true, hl] at hq
      cases hq
    · have e0 : first :: [x] ++ [last] = [first, x, last] := rfl
      rw [e0, handleParsed_three] at hq
      simp only [hfa, hla, Bool.and_self, if_true] at hq
      cases x with
      | rep rlo rhi body =>
        simp only [simpleMiddle, Bool.and_true] at hs
        simp only [updateItem] at hq
        by_cases hgt : (buildSize rlo rhi lo hi).1 > (buildSize rlo rhi lo hi).2
        · simp only [hgt, if_true] at hq; cases hq
        · simp only [hgt, if_false] at hq
          cases hq
          obtain ⟨c, hc⟩ := width1_inhabited hinh body hs
          exact ⟨[.rep (buildSize rlo rhi lo hi).1 (buildSize rlo rhi lo hi).2 body], _, rfl,
            .cat (rep_replicate hc _ _ (by omega)) .eps⟩
      | lit a => exact absurd rfl (hbare a)
      | _ => simp [simpleMiddle] at hs
    · have hshape : ∃ z rest', rest ++ [last] = z :: rest' := by
        cases rest with
        | nil => exact ⟨last, [], rfl⟩
        | cons z r => exact ⟨z, r ++ [last], rfl⟩
      obtain ⟨z, rest', hz⟩ := hshape
      have hitems : first :: (x :: y :: rest) ++ [last] = first :: x :: y :: z :: rest' := by
        simp only [List.cons_append, hz]
      have hback : x :: y :: z :: rest' = (x :: y :: rest) ++ [last] := by simp only [List.cons_append, hz]
      rw [hitems, handleParsed_many] at hq
      rw [hback, List.dropLast_concat, List.getLast?_concat] at hq
      simp only [hfa, hla, simpleMiddle_all _ hs, Bool.and_self, if_true] at hq
      rcases handleAnchored_cases v first (x :: y :: rest) last lo hi with h | ⟨lo', hi', d, h1, h2, hd, h⟩
      · rw [h] at hq; cases hq
      · rw [h] at hq
        injection hq with e1 _
        have hv' : v.zeroMax = .repaired ∨ hi' ≠ some 0 := by
          rcases hv with hv | hv
          · left; exact hv
          · right
            rcases subLen_some h2 with ⟨_, e⟩ | ⟨h', e1, e2, e3⟩
            · rw [e]; simp
            · rw [e3]; have := hv h' e1; simp; omega
        have hhi' : ∀ h, hi' = some h → h < MAXREPEAT := by
          intro h hh
          rcases subLen_some h2 with ⟨_, e⟩ | ⟨h', e1, e2, e3⟩
          · rw [e] at hh; cases hh
          · rw [e3] at hh; cases hh; have := hhi h' e1; omega
        obtain ⟨i1, _, _⟩ := distribute_sound v _ hwf lo' hi' hv' hhi' d hd
        obtain ⟨s, hs'⟩ := rebuild_nonempty hinh (x :: y :: rest) d hs i1 (distribute_ok v _ lo' hi' d hd)
        exact ⟨rebuild (x :: y :: rest) d, s, e1.symm, hs'⟩


end SV.Proofs.C01Regex
