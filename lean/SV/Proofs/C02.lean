/-
  Helper lemmas for the C02 property theorems (not property statements themselves).
-/
import SV.Spec.C02

namespace SV.Proofs.C02
open SV SV.Model.C02 SV.Spec.C02 SV.Spec.JsonSchema

/-! ## `Json.beq` is equality -/
mutual
theorem beq_eq : ∀ a b : Json, Json.beq a b = true → a = b
  | .null, b, h => by cases b <;> simp_all [Json.beq]
  | .bool x, b, h => by cases b <;> simp_all [Json.beq]
  | .num m e, b, h => by cases b <;> simp_all [Json.beq]
  | .str s, b, h => by cases b <;> simp_all [Json.beq]
  | .arr xs, b, h => by
    cases b <;> simp_all [Json.beq]
    exact beqList_eq _ _ h
  | .obj xs, b, h => by
    cases b <;> simp_all [Json.beq]
    exact beqKvs_eq _ _ h
theorem beqList_eq : ∀ xs ys : List Json, Json.beqList xs ys = true → xs = ys
  | [], ys, h => by cases ys <;> simp_all [Json.beqList]
  | x :: xs, ys, h => by
    cases ys with
    | nil => simp_all [Json.beqList]
    | cons y ys =>
      simp [Json.beqList] at h
      rw [beq_eq x y h.1, beqList_eq xs ys h.2]
theorem beqKvs_eq : ∀ xs ys : List (String × Json), Json.beqKvs xs ys = true → xs = ys
  | [], ys, h => by cases ys <;> simp_all [Json.beqKvs]
  | (k, x) :: xs, ys, h => by
    cases ys with
    | nil => simp_all [Json.beqKvs]
    | cons y ys =>
      obtain ⟨k', y⟩ := y
      simp [Json.beqKvs] at h
      rw [h.1.1, beq_eq x y h.1.2, beqKvs_eq xs ys h.2]
end

/-! ## the validator cache -/

/-- every cache entry stores the validator of its own key's schema -/
def CacheInv (c : Cache) : Prop := ∀ p ∈ c, p.2 = p.1.schema

theorem cacheFind_sound (c : Cache) (k : CacheKey) (s : Json) (hc : CacheInv c) (h : cacheFind k c = some s) :
    s = k.schema := by
  induction c with
  | nil => simp [cacheFind] at h
  | cons p rest ih =>
    obtain ⟨k', s'⟩ := p
    unfold cacheFind at h
    split at h
    · rename_i hk
      simp only [Bool.and_eq_true] at hk
      have hs : k'.schema = k.schema := by
        have := hk.2
        unfold CacheKey.eq at this
        simp only [Bool.and_eq_true] at this
        exact beq_eq _ _ this.2
      have := hc (k', s') (by simp)
      simp at this h
      rw [← h, this, hs]
    · exact ih (fun p hp => hc p (by simp [hp])) h

theorem getValidator_inv (c : Cache) (k : CacheKey) (hc : CacheInv c) : CacheInv (getValidator c k).2 := by
  unfold getValidator
  split
  · exact hc
  · intro p hp
    simp at hp
    rcases hp with rfl | hp
    · rfl
    · exact hc p hp

theorem runCache_inv (c : Cache) (ks : List CacheKey) (hc : CacheInv c) : CacheInv (runCache c ks) := by
  induction ks generalizing c with
  | nil => exact hc
  | cons k ks ih => exact ih _ (getValidator_inv c k hc)

/-! ## labelling -/

theorem mem_componentsOf (v : Variant) (cs : List Container) (l : Loc) (m : Mode)
    (h : (l, m) ∈ componentsOf v cs) :
    ∃ c ∈ cs, c.loc = l ∧ c.generator = some m ∧ labelled v c = true := by
  induction cs with
  | nil => simp [componentsOf] at h
  | cons c cs ih =>
    unfold componentsOf at h
    split at h
    · rename_i g hg
      split at h
      · rename_i hl
        simp at h
        rcases h with ⟨rfl, rfl⟩ | h
        · exact ⟨c, by simp, rfl, hg, hl⟩
        · obtain ⟨c', hc', h'⟩ := ih h
          exact ⟨c', by simp [hc'], h'⟩
      · obtain ⟨c', hc', h'⟩ := ih h
        exact ⟨c', by simp [hc'], h'⟩
    · obtain ⟨c', hc', h'⟩ := ih h
      exact ⟨c', by simp [hc'], h'⟩

theorem componentsOf_of_mem (v : Variant) (cs : List Container) (c : Container) (m : Mode)
    (hc : c ∈ cs) (hg : c.generator = some m) (hl : labelled v c = true) :
    (c.loc, m) ∈ componentsOf v cs := by
  induction cs with
  | nil => simp at hc
  | cons c' cs ih =>
    simp at hc
    unfold componentsOf
    rcases hc with rfl | hc
    · simp [hg, hl]
    · have := ih hc
      split
      · split <;> simp [this]
      · exact this

theorem isGenerated_labelled (v : Variant) (c : Container) (h : c.isGenerated = true) : labelled v c = true := by
  cases v
  · unfold Container.isGenerated at h
    simp only [Bool.and_eq_true] at h
    simp [labelled, h.1]
  · simpa [labelled] using h

theorem anyNegated_component (v : Variant) (cs : List Container) (h : anyNegated cs = true) :
    (componentsOf v cs).any (fun lm => lm.2 == Mode.negative) = true := by
  unfold anyNegated at h
  simp only [List.any_eq_true, Bool.and_eq_true, beq_iff_eq] at h
  obtain ⟨c, hc, hgen, hneg⟩ := h
  have := componentsOf_of_mem v cs c .negative hc hneg (isGenerated_labelled v c hgen)
  simp only [List.any_eq_true]
  exact ⟨(c.loc, .negative), this, by simp⟩

theorem bodyContainer_loc (op : Op) (mode : Mode) (d : Draws) : (bodyContainer op mode d).loc = .body := by
  unfold bodyContainer; split <;> rfl

theorem lookup_loc_value (cs : List Container) (c : Container) (hc : c ∈ cs)
    (hn : (cs.map (·.loc)).Nodup) :
    (cs.map fun c => (c.loc, c.value)).lookup c.loc = some c.value := by
  induction cs with
  | nil => simp at hc
  | cons c' cs ih =>
    simp only [List.map_cons, List.nodup_cons, List.mem_map, not_exists, not_and] at hn
    simp only [List.mem_cons] at hc
    rcases hc with rfl | hc
    · simp
    · have hne : c.loc ≠ c'.loc := fun h => hn.1 c hc h
      have : (c.loc == c'.loc) = false := by simpa using hne
      simp only [List.map_cons, List.lookup, this]
      exact ih hc hn.2

/-- the case's value at a container's location is the container's value (the five locations are distinct) -/
theorem valueOf_container (op : Op) (mode : Mode) (d : Draws) (m : Mode) (comps : List (Loc × Mode))
    (c : Container) (hc : c ∈ containers op mode d) :
    valueOf ⟨m, comps, (containers op mode d).map fun c => (c.loc, c.value)⟩ c.loc = c.value := by
  have hn : ((containers op mode d).map (·.loc)).Nodup := by
    simp [containers, generateParameter, bodyContainer_loc]
  simp only [valueOf, lookup_loc_value _ c hc hn]

/-- what a generated container holds, given the strategies' contract -/
def ContainerSound (valid : Loc → Json → Bool) (ok : Loc → Bool) (c : Container) : Prop :=
  ∀ m, c.generator = some m →
    (m = .negative → ∃ x, c.value = some x ∧ valid c.loc x = false) ∧
    (m = .positive → match c.value with | some x => valid c.loc x = true | none => ok c.loc = true)

theorem paramContainer_sound (valid : Loc → Json → Bool) (op : Op) (d : Draws) (l : Loc) (hl : l ∈ paramLocs)
    (h : paramDrawOK valid op .negative d l = true)
    (hg : (generateParameter op .negative d l).isGenerated = true) :
    ContainerSound valid (absentOk op .negative d) (generateParameter op .negative d l) := by
  intro m hm
  simp only [generateParameter, Option.some.injEq] at hm
  unfold paramDrawOK at h
  have hlb : (l == Loc.body) = false := by
    simp [paramLocs] at hl; rcases hl with rfl | rfl | rfl | rfl <;> rfl
  simp only [Container.isGenerated, generateParameter, Option.isSome_some, Bool.true_and, hlb, Bool.false_or] at hg
  split at h
  · simp_all
  · cases hv : d.param l with
    | none => simp [hv] at hg
    | some x =>
      simp only [hv] at h
      simp only [generateParameter, hv]
      subst hm
      constructor
      · intro hneg
        refine ⟨x, rfl, ?_⟩
        simp [hneg] at h
        exact h
      · intro hpos
        simp [hpos] at h
        exact h

theorem bodyContainer_sound (v : Variant) (valid : Loc → Json → Bool) (op : Op) (d : Draws)
    (h : bodyDrawOK v valid op .negative d = true)
    (hv : v = .asFound → d.body.isSome = true ∨ op.body.isEmpty = true) :
    ContainerSound valid (absentOk op .negative d) (bodyContainer op .negative d) := by
  intro m hm
  unfold bodyContainer at hm ⊢
  unfold bodyDrawOK at h
  by_cases he : op.body.isEmpty = true
  · simp [he] at hm
  · simp only [he, Bool.false_eq_true, if_false] at hm h ⊢
    simp only [Option.some.injEq] at hm
    split at h
    · simp at h
    · rename_i item hitem
      cases hb : d.body with
      | some x =>
        simp only [hb] at h ⊢
        subst hm
        constructor
        · intro hneg; refine ⟨x, rfl, ?_⟩; simp [hneg] at h; exact h
        · intro hpos; simp [hpos] at h; exact h
      | none =>
        simp only [hb, Bool.and_eq_true, Bool.or_eq_true, Bool.not_eq_true', beq_iff_eq] at h ⊢
        have hpos : (bodyCandidates Mode.negative op.body).2 = .positive := by
          rcases h.2 with h2 | h2
          · have := hv h2; simp [hb, he] at this
          · exact h2
        subst hm
        constructor
        · intro hneg; rw [hpos] at hneg; cases hneg
        · intro _
          simp only [absentOk, hitem, Bool.not_eq_true']
          exact h.1

/-- every container of `openapi_cases` is sound w.r.t. the draws' contract, as soon as it counts as generated -/
theorem containers_sound (v : Variant) (valid : Loc → Json → Bool) (op : Op) (d : Draws)
    (hd : drawOK v valid op .negative d = true)
    (hv : v = .asFound → d.body.isSome = true ∨ op.body.isEmpty = true)
    (cn : Container) (hcn : cn ∈ containers op .negative d) (hgen : cn.isGenerated = true) :
    ContainerSound valid (absentOk op .negative d) cn := by
  unfold drawOK at hd
  simp only [Bool.and_eq_true, List.all_eq_true] at hd
  simp only [containers, List.mem_cons, List.not_mem_nil, or_false] at hcn
  rcases hcn with rfl | rfl | rfl | rfl | rfl
  · exact paramContainer_sound valid op d .query (by simp [paramLocs]) (hd.1 _ (by simp [paramLocs])) hgen
  · exact paramContainer_sound valid op d .path (by simp [paramLocs]) (hd.1 _ (by simp [paramLocs])) hgen
  · exact paramContainer_sound valid op d .header (by simp [paramLocs]) (hd.1 _ (by simp [paramLocs])) hgen
  · exact paramContainer_sound valid op d .cookie (by simp [paramLocs]) (hd.1 _ (by simp [paramLocs])) hgen
  · exact bodyContainer_sound v valid op d hd.2 hv

/-- the shape of a produced case -/
theorem openapiCases_case (v : Variant) (op : Op) (only : Bool) (d : Draws) (c : Case)
    (hc : openapiCases v op only .negative d = .case c) :
    anyNegated (containers op .negative d) = true ∧
    c = ⟨.negative, componentsOf v (containers op .negative d),
         (containers op .negative d).map fun c => (c.loc, c.value)⟩ := by
  unfold openapiCases at hc
  simp only [beq_self_eq_true, Bool.true_and] at hc
  cases hany : anyNegated (containers op .negative d) with
  | false => simp [hany] at hc; split at hc <;> cases hc
  | true =>
    simp [hany] at hc
    exact ⟨rfl, hc.symm⟩

/-- the common core of the label-soundness theorems: whenever only generated containers are labelled -/
theorem labels_sound_core (v : Variant) (valid : Loc → Json → Bool) (op : Op) (only : Bool) (d : Draws) (c : Case)
    (hd : drawOK v valid op .negative d = true)
    (hv : v = .asFound → d.body.isSome = true ∨ op.body.isEmpty = true)
    (hlab : ∀ cn ∈ containers op .negative d, labelled v cn = true → cn.isGenerated = true)
    (hc : openapiCases v op only .negative d = .case c) :
    labelsSound valid (absentOk op .negative d) c = true := by
  unfold openapiCases at hc
  simp only [beq_self_eq_true, Bool.true_and] at hc
  split at hc
  · split at hc <;> cases hc
  · rename_i hneg
    simp only [Bool.not_eq_true', Bool.not_eq_false] at hneg
    injection hc with hc
    subst hc
    unfold labelsSound
    simp only [beq_self_eq_true, Bool.true_and, Bool.and_eq_true]
    refine ⟨anyNegated_component _ _ hneg, ?_⟩
    simp only [List.all_eq_true]
    intro ⟨l, m⟩ hlm
    obtain ⟨cn, hcn, hloc, hgen, hl⟩ := mem_componentsOf _ _ l m hlm
    have hs := containers_sound v valid op d hd hv cn hcn (hlab cn hcn hl)
    have hval := valueOf_container op .negative d .negative (componentsOf v (containers op .negative d)) cn hcn
    obtain ⟨hN, hP⟩ := hs m hgen
    subst hloc
    unfold partSound
    simp only [hval]
    cases m with
    | negative =>
      obtain ⟨x, hx, hxv⟩ := hN rfl
      simp [hx, hxv]
    | positive =>
      have := hP rfl
      cases hx : cn.value with
      | none => simp [hx] at this ⊢; exact this
      | some x => simp [hx] at this ⊢; exact this

/-- with parameters declared, the contract gives the location a value -/
theorem param_value_isSome (valid : Loc → Json → Bool) (op : Op) (d : Draws) (l : Loc)
    (h : paramDrawOK valid op .negative d l = true) (hne : (op.params l).isEmpty = false) :
    (d.param l).isSome = true := by
  unfold paramDrawOK at h
  simp only [hne, Bool.false_eq_true, if_false] at h
  cases hv : d.param l with
  | none => simp [hv] at h
  | some x => rfl

theorem param_value_isNone (valid : Loc → Json → Bool) (op : Op) (d : Draws) (l : Loc)
    (h : paramDrawOK valid op .negative d l = true) (he : (op.params l).isEmpty = true) :
    d.param l = none := by
  unfold paramDrawOK at h
  simp only [he, if_true] at h
  cases hv : d.param l with
  | none => rfl
  | some x => simp [hv] at h

theorem bodyCandidates_negative_iff (items : List BodyItem) :
    (bodyCandidates .negative items).2 = .negative ↔ items.any (·.canNeg) = true := by
  unfold bodyCandidates
  simp only [beq_self_eq_true, if_true]
  split
  · rename_i h
    simp only [List.isEmpty_iff, List.filter_eq_nil_iff] at h
    simp only [List.any_eq_true, reduceCtorEq, false_iff, not_exists, not_and]
    intro x hx; exact h x hx
  · rename_i h
    simp only [List.isEmpty_iff, List.filter_eq_nil_iff] at h
    simp only [true_iff]
    cases hany : items.any (·.canNeg) with
    | true => rfl
    | false =>
      exfalso; apply h
      intro x hx hc
      have : items.any (·.canNeg) = true := List.any_eq_true.mpr ⟨x, hx, hc⟩
      simp [hany] at this

/-! ## dictionaries, validity helpers, mutations -/

theorem lookup_dset_self (k : String) (v : Json) (d : Dict) : Json.lookup k (dset k v d) = some v := by
  induction d with
  | nil => simp [dset, Json.lookup]
  | cons p rest ih =>
    obtain ⟨k', x⟩ := p
    unfold dset
    by_cases h : k = k'
    · subst h; simp [Json.lookup]
    · have : (k == k') = false := by simpa using h
      simp [this, Json.lookup, ih]

theorem lookup_dset_ne (k k' : String) (v : Json) (d : Dict) (h : k' ≠ k) :
    Json.lookup k' (dset k v d) = Json.lookup k' d := by
  induction d with
  | nil =>
    have : (k' == k) = false := by simpa using h
    simp [dset, Json.lookup, this]
  | cons p rest ih =>
    obtain ⟨k2, x⟩ := p
    unfold dset
    by_cases h2 : k = k2
    · subst h2
      have : (k' == k) = false := by simpa using h
      simp [Json.lookup, this]
    · have : (k == k2) = false := by simpa using h2
      simp only [this, Bool.false_eq_true, if_false, Json.lookup]
      split <;> simp_all

theorem lookup_filter_key (f : String → Bool) (k : String) (d : Dict) :
    Json.lookup k (d.filter fun p => f p.1) = if f k then Json.lookup k d else none := by
  induction d with
  | nil => simp [Json.lookup]
  | cons p rest ih =>
    obtain ⟨k2, x⟩ := p
    simp only [List.filter]
    by_cases hf : f k2 = true
    · simp only [hf, Json.lookup]
      by_cases hk : k = k2
      · subst hk; simp [hf]
      · have : (k == k2) = false := by simpa using hk
        simp [this, ih]
    · have hf' : f k2 = false := by simpa using hf
      simp only [hf', Json.lookup]
      by_cases hk : k = k2
      · subst hk; simp [hf', ih]
      · have : (k == k2) = false := by simpa using hk
        simp [this, ih]

theorem lookup_ddel_ne (k k' : String) (d : Dict) (h : k' ≠ k) :
    Json.lookup k' (ddel k d) = Json.lookup k' d := by
  unfold ddel
  rw [lookup_filter_key (fun x => !(x == k)) k' d]
  have : (k' == k) = false := by simpa using h
  simp [this]

theorem validF_obj_noref (f : Nat) (env : Env) (kvs : Dict) (v : Json)
    (href : Json.lookup "$ref" kvs = none) (hoas : env.oas = .none) :
    validF (f + 1) env (.obj kvs) v = keywordsOk env (validF f env) kvs v := by
  simp [validF, href, isNullable, hoas]

theorem keywordsOk_typeOk (env : Env) (rec : Json → Json → Bool) (kvs : Dict) (v : Json)
    (h : keywordsOk env rec kvs v = true) : typeOk kvs v = true := by
  simp only [keywordsOk, Bool.and_eq_true] at h
  exact h.1.1.1.1.1.1.1.1

theorem keywordsOk_false_of_typeOk (env : Env) (rec : Json → Json → Bool) (kvs : Dict) (v : Json)
    (h : typeOk kvs v = false) : keywordsOk env rec kvs v = false := by
  simp [keywordsOk, h]

theorem keywordsOk_false_of_objectOk (env : Env) (rec : Json → Json → Bool) (kvs : Dict) (v : Json)
    (h : objectOk env rec kvs v = false) : keywordsOk env rec kvs v = false := by
  simp [keywordsOk, h]

theorem hasStr_mem (name : String) (req : List Json) (h : hasStr name req = true) :
    name ∈ req.filterMap Json.str? := by
  unfold hasStr at h
  simp only [List.any_eq_true] at h
  obtain ⟨x, hx, hxs⟩ := h
  simp only [List.mem_filterMap]
  refine ⟨x, hx, ?_⟩
  cases x <;> simp_all [Json.str?]

/-- success of `remove_required_property` means `name` was listed under `required` -/
theorem removeRequired_success (d d' : Dict) (name : String) (h : removeRequired d name = (.success, d')) :
    ∃ req, Json.lookup "required" d = some (.arr req) ∧ hasStr name req = true := by
  unfold removeRequired at h
  split at h
  · cases h
  · split at h
    · rename_i req hreq
      split at h
      · cases h
      · rename_i hc
        simp only [Bool.or_eq_true, Bool.not_eq_true', not_or, Bool.not_eq_true, Bool.not_eq_false] at hc
        exact ⟨req, hreq, hc.2⟩
    · cases h


theorem removeRequired_negates' (d d' : Dict) (name : String) (fuel : Nat) (env : Env)
    (members : List (String × Json))
    (h : removeRequired d name = (.success, d'))
    (hoas : env.oas = .none) (href : Json.lookup "$ref" d = none)
    (habs : Json.lookup name members = none) :
    validF (fuel + 1) env (.obj d) (.obj members) = false := by
  obtain ⟨req, hreq, hs⟩ := removeRequired_success d d' name h
  rw [validF_obj_noref fuel env d _ href hoas]
  apply keywordsOk_false_of_objectOk
  have hmem : name ∈ requiredOf d := by
    simp only [requiredOf, hreq]
    exact hasStr_mem name req hs
  cases hobj : objectOk env (validF fuel env) d (.obj members) with
  | false => rfl
  | true =>
    exfalso
    simp only [objectOk, Bool.and_eq_true, List.all_eq_true] at hobj
    have := hobj.1.1.1.2 name hmem
    simp only [habs, Option.isSome_none, Bool.false_or] at this
    split at this <;> simp_all [forbiddenProp]

/-! ### change_type -/

theorem typeNameOk_two (t t0 : String) (v : Json) (h : typeNameOk t v = true) (h0 : typeNameOk t0 v = true) :
    t = t0 ∨ (t = "integer" ∧ t0 = "number") ∨ (t = "number" ∧ t0 = "integer") := by
  cases v <;> simp_all [typeNameOk]
  rcases h with h | h <;> rcases h0 with h0 | h0 <;> simp_all

theorem lookup_preventUnsat (t k : String) (d : Dict) (hk : k ≠ "not") (hkeep : anyTypeKeys.contains k = true) :
    Json.lookup k (preventUnsat t d) = Json.lookup k d := by
  unfold preventUnsat
  have h1 : Json.lookup k (dropNotTypeSpecific t d) = Json.lookup k d := by
    unfold dropNotTypeSpecific
    rw [lookup_filter_key (fun x => (typeSpecificKeys t).contains x || anyTypeKeys.contains x) k d]
    simp only [hkeep, Bool.or_true, if_true]
  simp only
  split
  · split
    · rw [lookup_ddel_ne _ _ _ hk, h1]
    · rw [lookup_dset_ne _ _ _ _ hk, h1]
  · exact h1

theorem mem_typeCandidates (ctx : Ctx) (d : Dict) (t : String) (h : t ∈ typeCandidates ctx d) :
    (getType d).contains t = false ∧ ((getType d).contains "integer" = true → t ≠ "number") := by
  unfold typeCandidates at h
  simp only at h
  split at h
  · rename_i hi
    simp only [List.mem_filter, bne_iff_ne, ne_eq, decide_not,
      Bool.not_eq_eq_eq_not, Bool.not_true] at h
    exact ⟨h.1.2, fun _ => h.2⟩
  · rename_i hi
    simp only [List.mem_filter, Bool.not_eq_eq_eq_not, Bool.not_true] at h
    exact ⟨h.2, fun hc => absurd hc hi⟩

theorem changeType_success (ctx : Ctx) (d d' : Dict) (choice : String) (h : changeType ctx d choice = (.success, d')) :
    ∃ t, t ∈ typeCandidates ctx d ∧ d' = preventUnsat t (dset "type" (.str t) d) ∧ dhas "type" d = true := by
  unfold changeType at h
  split at h
  · cases h
  · rename_i hty
    split at h
    · cases h
    · split at h
      · cases h
      · split at h
        · cases h
        · rename_i t hc
          injection h with _ h2
          exact ⟨t, by simp [hc], h2.symm, by simpa using hty⟩
        · rename_i cands _ _
          split at h
          · rename_i hc
            injection h with _ h2
            exact ⟨choice, by simpa using hc, h2.symm, by simpa using hty⟩
          · cases h


theorem changeType_negates' (ctx : Ctx) (d d' : Dict) (choice : String) (fuel fuel' : Nat) (env : Env) (v : Json)
    (h : changeType ctx d choice = (.success, d'))
    (hoas : env.oas = .none) (href : Json.lookup "$ref" d = none)
    (hwf : ∀ x, Json.lookup "type" d = some x → (∃ t, x = .str t) ∨ (∃ ts, x = .arr ts))
    (hint : ¬ (Json.lookup "type" d' = some (.str "integer") ∧ (getType d).contains "number" = true))
    (hv : validF (fuel + 1) env (.obj d') v = true) :
    validF (fuel' + 1) env (.obj d) v = false := by
  obtain ⟨t, htc, hd', hhas⟩ := changeType_success ctx d d' choice h
  have hty' : Json.lookup "type" d' = some (.str t) := by
    rw [hd', lookup_preventUnsat t "type" _ (by decide) (by decide), lookup_dset_self]
  have href' : Json.lookup "$ref" d' = none := by
    rw [hd', lookup_preventUnsat t "$ref" _ (by decide) (by decide), lookup_dset_ne _ _ _ _ (by decide), href]
  rw [validF_obj_noref _ _ _ _ href' hoas] at hv
  have hto := keywordsOk_typeOk _ _ _ _ hv
  simp only [typeOk, hty'] at hto
  rw [validF_obj_noref _ _ _ _ href hoas]
  apply keywordsOk_false_of_typeOk
  obtain ⟨hnot, hnum⟩ := mem_typeCandidates ctx d t htc
  have key : ∀ t0, (getType d).contains t0 = true → typeNameOk t0 v = false := by
    intro t0 h0
    cases h1 : typeNameOk t0 v with
    | false => rfl
    | true =>
      exfalso
      rcases typeNameOk_two t t0 v hto h1 with rfl | ⟨rfl, rfl⟩ | ⟨rfl, rfl⟩
      · rw [h0] at hnot; cases hnot
      · exact hint ⟨hty', h0⟩
      · exact hnum h0 rfl
  unfold dhas at hhas
  cases hl : Json.lookup "type" d with
  | none => simp [hl] at hhas
  | some x =>
    rcases hwf x hl with ⟨t0, rfl⟩ | ⟨ts, rfl⟩
    · simp only [typeOk, hl]
      exact key t0 (by simp [getType, hl])
    · cases hok : typeOk d v with
      | false => rfl
      | true =>
        exfalso
        simp only [typeOk, hl, List.any_eq_true] at hok
        obtain ⟨j, hj, hjv⟩ := hok
        cases j with
        | str t0 =>
          simp only at hjv
          have : (getType d).contains t0 = true := by
            simp only [getType, hl, List.contains_iff_mem, List.mem_filterMap]
            exact ⟨.str t0, hj, rfl⟩
          rw [key t0 this] at hjv
          cases hjv
        | _ => simp at hjv

/-- `n` is a sub-dictionary of `d`: every key of `n` is bound to the same value in `d` -/
def SubDict (n d : Dict) : Prop := ∀ k, Json.lookup k n = none ∨ Json.lookup k n = Json.lookup k d

theorem numLt_le (a : Int) (b : Nat) (c : Int) (e : Nat) (h : numLt a b c e = true) : numLe a b c e = true := by
  simp only [numLt, numLe, decide_eq_true_eq] at *
  omega

variable {n d : Dict}

theorem typeOk_mono (h : SubDict n d) (v : Json) (hv : typeOk d v = true) : typeOk n v = true := by
  unfold typeOk at *
  rcases h "type" with hk | hk
  · simp [hk]
  · rw [hk]; exact hv

theorem enumOk_mono (h : SubDict n d) (v : Json) (hv : enumOk d v = true) : enumOk n v = true := by
  unfold enumOk at *
  rcases h "enum" with hk | hk
  · simp [hk]
  · rw [hk]; exact hv

theorem constOk_mono (h : SubDict n d) (v : Json) (hv : constOk d v = true) : constOk n v = true := by
  unfold constOk at *
  rcases h "const" with hk | hk
  · simp [hk]
  · rw [hk]; exact hv

theorem formatOk_mono (env : Env) (h : SubDict n d) (v : Json) (hv : formatOk env d v = true) : formatOk env n v = true := by
  unfold formatOk at *
  rcases h "format" with hk | hk
  · simp [hk]
  · rw [hk]; exact hv

theorem minimumOk_mono (h : SubDict n d) (m : Int) (e : Nat) (hv : minimumOk d m e = true) : minimumOk n m e = true := by
  unfold minimumOk at *
  simp only [Bool.and_eq_true] at hv ⊢
  obtain ⟨hv1, hv2⟩ := hv
  constructor
  · rcases h "minimum" with h1 | h1
    · simp [h1]
    · rw [h1]
      rcases h "exclusiveMinimum" with h2 | h2
      · rw [h2]
        revert hv1
        split
        · split
          · intro hlt; exact numLt_le _ _ _ _ hlt
          · intro hle; exact hle
        · intro _; rfl
      · rw [h2]; exact hv1
  · rcases h "exclusiveMinimum" with h2 | h2
    · simp [h2]
    · rw [h2]; exact hv2

theorem maximumOk_mono (h : SubDict n d) (m : Int) (e : Nat) (hv : maximumOk d m e = true) : maximumOk n m e = true := by
  unfold maximumOk at *
  simp only [Bool.and_eq_true] at hv ⊢
  obtain ⟨hv1, hv2⟩ := hv
  constructor
  · rcases h "maximum" with h1 | h1
    · simp [h1]
    · rw [h1]
      rcases h "exclusiveMaximum" with h2 | h2
      · rw [h2]
        revert hv1
        split
        · split
          · intro hlt; exact numLt_le _ _ _ _ hlt
          · intro hle; exact hle
        · intro _; rfl
      · rw [h2]; exact hv1
  · rcases h "exclusiveMaximum" with h2 | h2
    · simp [h2]
    · rw [h2]; exact hv2

theorem multipleOfOk_mono (h : SubDict n d) (m : Int) (e : Nat) (hv : multipleOfOk d m e = true) :
    multipleOfOk n m e = true := by
  unfold multipleOfOk at *
  rcases h "multipleOf" with hk | hk
  · simp [hk]
  · rw [hk]; exact hv

theorem numberOk_mono (h : SubDict n d) (v : Json) (hv : numberOk d v = true) : numberOk n v = true := by
  unfold numberOk at *
  cases v <;> simp_all
  exact ⟨⟨minimumOk_mono h _ _ hv.1.1, maximumOk_mono h _ _ hv.1.2⟩, multipleOfOk_mono h _ _ hv.2⟩

theorem natKw_mono (h : SubDict n d) (k : String) : natKw n k = none ∨ natKw n k = natKw d k := by
  unfold natKw
  rcases h k with hk | hk
  · left; simp [hk]
  · right; rw [hk]

theorem lenBoundsOk_mono (h : SubDict n d) (lo hi : String) (len : Nat) (hv : lenBoundsOk d lo hi len = true) :
    lenBoundsOk n lo hi len = true := by
  unfold lenBoundsOk at *
  simp only [Bool.and_eq_true] at hv ⊢
  constructor
  · rcases natKw_mono h lo with hk | hk
    · simp [hk]
    · rw [hk]; exact hv.1
  · rcases natKw_mono h hi with hk | hk
    · simp [hk]
    · rw [hk]; exact hv.2

theorem stringOk_mono (env : Env) (h : SubDict n d) (v : Json) (hv : stringOk env d v = true) :
    stringOk env n v = true := by
  unfold stringOk at *
  cases v <;> simp_all
  refine ⟨lenBoundsOk_mono h _ _ _ hv.1, ?_⟩
  rcases h "pattern" with hk | hk
  · simp [hk]
  · rw [hk]; exact hv.2


theorem arrayOk_mono (rec : Json → Json → Bool) (h : SubDict n d) (v : Json) (hv : arrayOk rec d v = true) :
    arrayOk rec n v = true := by
  unfold arrayOk at *
  cases v <;> simp_all
  refine ⟨⟨lenBoundsOk_mono h _ _ _ hv.1.1, ?_⟩, ?_⟩
  · rcases h "uniqueItems" with hk | hk
    · simp [hk]
    · rw [hk]; exact hv.1.2
  · rcases h "items" with hk | hk
    · simp [hk]
    · rw [hk]; exact hv.2

theorem combinatorsOk_mono (rec : Json → Json → Bool) (h : SubDict n d) (v : Json)
    (hv : combinatorsOk rec d v = true) : combinatorsOk rec n v = true := by
  unfold combinatorsOk at *
  simp only [Bool.and_eq_true] at hv ⊢
  refine ⟨⟨⟨?_, ?_⟩, ?_⟩, ?_⟩
  · rcases h "allOf" with hk | hk
    · simp [hk]
    · rw [hk]; exact hv.1.1.1
  · rcases h "anyOf" with hk | hk
    · simp [hk]
    · rw [hk]; exact hv.1.1.2
  · rcases h "oneOf" with hk | hk
    · simp [hk]
    · rw [hk]; exact hv.1.2
  · rcases h "not" with hk | hk
    · simp [hk]
    · rw [hk]; exact hv.2

theorem propsOf_mono (h : SubDict n d) : propsOf n = [] ∨ propsOf n = propsOf d := by
  unfold propsOf
  rcases h "properties" with hk | hk
  · left; simp [hk]
  · right; rw [hk]

theorem patternPropsOf_mono (h : SubDict n d) : patternPropsOf n = [] ∨ patternPropsOf n = patternPropsOf d := by
  unfold patternPropsOf
  rcases h "patternProperties" with hk | hk
  · left; simp [hk]
  · right; rw [hk]

theorem requiredOf_mono (h : SubDict n d) : requiredOf n = [] ∨ requiredOf n = requiredOf d := by
  unfold requiredOf
  rcases h "required" with hk | hk
  · left; simp [hk]
  · right; rw [hk]

theorem objectOk_mono (env : Env) (rec : Json → Json → Bool) (h : SubDict n d) (v : Json)
    (hoas : env.oas = .none) (hap : Json.lookup "additionalProperties" n = none)
    (hv : objectOk env rec d v = true) : objectOk env rec n v = true := by
  unfold objectOk at *
  cases v with
  | obj members =>
    simp only [Bool.and_eq_true, List.all_eq_true] at hv ⊢
    obtain ⟨⟨⟨⟨h1, h2⟩, h3⟩, h4⟩, _⟩ := hv
    refine ⟨⟨⟨⟨lenBoundsOk_mono h _ _ _ h1, ?_⟩, ?_⟩, ?_⟩, by simp [hap]⟩
    · intro k hk
      rcases requiredOf_mono h with hr | hr
      · simp [hr] at hk
      · rw [hr] at hk
        have := h2 k hk
        simp only [Bool.or_eq_true] at this ⊢
        rcases this with hs | hs
        · exact Or.inl hs
        · exfalso
          split at hs
          · simp [forbiddenProp, hoas] at hs
          · cases hs
    · intro p hp
      rcases propsOf_mono h with hr | hr
      · simp [hr, Json.lookup]
      · rw [hr]; exact h3 p hp
    · intro p hp
      rcases patternPropsOf_mono h with hr | hr
      · simp [hr]
      · rw [hr]; exact h4 p hp
  | _ => rfl

theorem keywordsOk_mono (env : Env) (rec : Json → Json → Bool) (h : SubDict n d) (v : Json)
    (hoas : env.oas = .none) (hap : Json.lookup "additionalProperties" n = none)
    (hv : keywordsOk env rec d v = true) : keywordsOk env rec n v = true := by
  unfold keywordsOk at *
  simp only [Bool.and_eq_true] at hv ⊢
  obtain ⟨⟨⟨⟨⟨⟨⟨⟨a, b⟩, c⟩, e⟩, f⟩, g⟩, i⟩, j⟩, k⟩ := hv
  exact ⟨⟨⟨⟨⟨⟨⟨⟨typeOk_mono h v a, enumOk_mono h v b⟩, constOk_mono h v c⟩, numberOk_mono h v e⟩,
    stringOk_mono env h v f⟩, formatOk_mono env h v g⟩, arrayOk_mono rec h v i⟩,
    objectOk_mono env rec h v hoas hap j⟩, combinatorsOk_mono rec h v k⟩


/-! ### negate_constraints -/

theorem subDict_nil (d : Dict) : SubDict [] d := fun _ => Or.inl rfl

theorem subDict_dset (h : SubDict n d) (k : String) (v : Json) (hk : Json.lookup k d = some v) :
    SubDict (dset k v n) d := by
  intro k'
  by_cases hkk : k' = k
  · subst hkk; right; rw [lookup_dset_self, hk]
  · rw [lookup_dset_ne _ _ _ _ hkk]; exact h k'

theorem negLoop_subDict (var : Variant) (ctx : Ctx) (d : Dict) (cand : String) (en : List String) :
    ∀ (rest acc r : Dict), (∀ p ∈ rest, Json.lookup p.1 d = some p.2) → SubDict acc d →
      negLoop var ctx d cand en rest acc = some r → SubDict r d := by
  intro rest
  induction rest with
  | nil => intro acc r _ hacc h; simp [negLoop] at h; subst h; exact hacc
  | cons p rest ih =>
    intro acc r hrest hacc h
    obtain ⟨k, v⟩ := p
    have hkv : Json.lookup k d = some v := hrest (k, v) (by simp)
    have hrest' : ∀ p ∈ rest, Json.lookup p.1 d = some p.2 := fun p hp => hrest p (by simp [hp])
    unfold negLoop at h
    by_cases hc : (isMutationCandidate ctx k v && selectedKey cand en k) = true
    · simp only [hc, if_true] at h
      have h1 := subDict_dset hacc k v hkv
      cases hdep : dependency k with
      | none => simp only [hdep] at h; exact ih _ _ hrest' h1 h
      | some dep =>
        simp only [hdep] at h
        by_cases hh : dhas dep (dset k v acc) = true
        · simp only [hh, if_true] at h; exact ih _ _ hrest' h1 h
        · simp only [hh, Bool.false_eq_true, if_false] at h
          cases hdv : Json.lookup dep d with
          | none =>
            simp only [hdv] at h
            cases var with
            | asFound => simp at h
            | repaired => exact ih _ _ hrest' h1 h
          | some dv => simp only [hdv] at h; exact ih _ _ hrest' (subDict_dset h1 dep dv hdv) h
    · simp only [hc, Bool.false_eq_true, if_false] at h; exact ih _ _ hrest' hacc h

theorem lookup_append (k : String) (a b : Dict) :
    Json.lookup k (a ++ b) = match Json.lookup k a with | some v => some v | none => Json.lookup k b := by
  induction a with
  | nil => simp [Json.lookup]
  | cons p rest ih =>
    obtain ⟨k', x⟩ := p
    simp only [List.cons_append, Json.lookup]
    split
    · rfl
    · exact ih

theorem lookup_filter_none (k : String) (p : String × Json → Bool) (d : Dict) (h : ∀ v, p (k, v) = false) :
    Json.lookup k (d.filter p) = none := by
  induction d with
  | nil => simp [Json.lookup]
  | cons q rest ih =>
    obtain ⟨k', x⟩ := q
    simp only [List.filter]
    by_cases hk : k = k'
    · subst hk; simp [h x, ih]
    · split
      · have : (k == k') = false := by simpa using hk
        simp [Json.lookup, this, ih]
      · exact ih

theorem negate_success (var : Variant) (ctx : Ctx) (canNeg : Bool) (d d' : Dict) (cand : String) (en : List String)
    (h : negateConstraints var ctx canNeg d cand en = (.success, d')) :
    ∃ neg, negLoop var ctx d cand en d [] = some neg ∧
      d' = (d.filter fun p => !(isMutationCandidate ctx p.1 p.2)) ++ [("not", .obj neg)] := by
  unfold negateConstraints at h
  split at h
  · cases h
  · simp only at h
    split at h
    · cases h
    · split at h
      · cases h
      · split at h
        · cases h
        · rename_i neg hneg
          split at h
          · cases h
          · injection h with _ h2
            exact ⟨neg, hneg, h2.symm⟩

theorem negate_negates' (var : Variant) (ctx : Ctx) (canNeg : Bool) (d d' : Dict) (cand : String) (en : List String)
    (fuel : Nat) (env : Env) (v : Json)
    (h : negateConstraints var ctx canNeg d cand en = (.success, d'))
    (hoas : env.oas = .none) (href : Json.lookup "$ref" d = none) (hfun : DictFun d)
    (hap : ∀ neg, Json.lookup "not" d' = some (.obj neg) → Json.lookup "additionalProperties" neg = none)
    (hv : validF (fuel + 2) env (.obj d') v = true) :
    validF (fuel + 1) env (.obj d) v = false := by
  obtain ⟨neg, hneg, hd'⟩ := negate_success var ctx canNeg d d' cand en h
  have hsub : SubDict neg d := negLoop_subDict var ctx d cand en d [] neg hfun (subDict_nil d) hneg
  have hnot : Json.lookup "not" d' = some (.obj neg) := by
    rw [hd', lookup_append, lookup_filter_none "not" _ d (by intro v; simp [isMutationCandidate])]
    simp [Json.lookup]
  have href' : Json.lookup "$ref" d' = none := by
    rw [hd', lookup_append, lookup_filter_none "$ref" _ d (by intro v; simp [isMutationCandidate])]
    simp [Json.lookup]
  have hrefn : Json.lookup "$ref" neg = none := by
    rcases hsub "$ref" with hk | hk
    · exact hk
    · rw [hk, href]
  rw [validF_obj_noref _ _ _ _ href' hoas] at hv
  have hcomb : combinatorsOk (validF (fuel + 1) env) d' v = true := by
    simp only [keywordsOk, Bool.and_eq_true] at hv
    exact hv.2
  simp only [combinatorsOk, hnot, Bool.and_eq_true, Bool.not_eq_true'] at hcomb
  have hnegF := hcomb.2
  cases hd : validF (fuel + 1) env (.obj d) v with
  | false => rfl
  | true =>
    exfalso
    rw [validF_obj_noref _ _ _ _ href hoas] at hd
    have := keywordsOk_mono env (validF fuel env) hsub v hoas (hap neg hnot) hd
    rw [← validF_obj_noref _ _ _ _ hrefn hoas] at this
    rw [this] at hnegF
    cases hnegF


/-! ### change_properties (relative to the nested mutation's progress) -/

theorem lookup_dsetDefault_ne (k k' : String) (v : Json) (d : Dict) (h : k' ≠ k) :
    Json.lookup k' (dsetDefault k v d) = Json.lookup k' d := by
  unfold dsetDefault
  split
  · rfl
  · exact lookup_dset_ne _ _ _ _ h

theorem lookup_mem (k : String) (x : Json) (l : Dict) (h : Json.lookup k l = some x) : (k, x) ∈ l := by
  induction l with
  | nil => simp [Json.lookup] at h
  | cons p rest ih =>
    obtain ⟨k', y⟩ := p
    simp only [Json.lookup] at h
    split at h
    · rename_i hk
      have : k = k' := by simpa using hk
      injection h with h
      simp [this, h]
    · simp [ih h]

theorem lookup_addRequired_ne (name k : String) (d : Dict) (h : k ≠ "required") :
    Json.lookup k (addRequired name d) = Json.lookup k d := by
  unfold addRequired
  split
  · split
    · rfl
    · exact lookup_dset_ne _ _ _ _ h
  · exact lookup_dset_ne _ _ _ _ h

theorem addRequired_mem (name : String) (d : Dict) : name ∈ requiredOf (addRequired name d) := by
  unfold addRequired
  split
  · rename_i req hreq
    split
    · rename_i hs
      simp only [requiredOf, hreq]
      exact hasStr_mem name req hs
    · simp [requiredOf, lookup_dset_self, Json.str?]
  · simp [requiredOf, lookup_dset_self, Json.str?]

theorem changeProperties_success (d d' props' : Dict) (name : String)
    (h : changeProperties d props' (some name) = (.success, d')) :
    Json.lookup "properties" d' = some (.obj props') ∧ name ∈ requiredOf d' ∧
    (Json.lookup "$ref" d = none → Json.lookup "$ref" d' = none) := by
  unfold changeProperties at h
  split at h
  · cases h
  · split at h
    · split at h
      · cases h
      · simp only at h
        injection h with _ h2
        subst h2
        refine ⟨?_, ?_, ?_⟩
        · rw [lookup_dsetDefault_ne _ _ _ _ (by decide), lookup_addRequired_ne _ _ _ (by decide)]
          exact lookup_dset_self _ _ _
        · unfold requiredOf
          rw [lookup_dsetDefault_ne _ _ _ _ (by decide)]
          exact addRequired_mem name _
        · intro href
          rw [lookup_dsetDefault_ne _ _ _ _ (by decide), lookup_addRequired_ne _ _ _ (by decide),
            lookup_dset_ne _ _ _ _ (by decide)]
          exact href
    · cases h

theorem changeProperties_negates' (d d' props' : Dict) (name : String) (sp sp' : Json) (fuel : Nat) (env : Env)
    (members : List (String × Json))
    (h : changeProperties d props' (some name) = (.success, d'))
    (hoas : env.oas = .none) (href : Json.lookup "$ref" d = none)
    (hsp : Json.lookup name (propsOf d) = some sp)
    (hsp' : Json.lookup name props' = some sp')
    (hprog : ∀ x, validF fuel env sp' x = true → validF fuel env sp x = false)
    (hv : validF (fuel + 1) env (.obj d') (.obj members) = true) :
    validF (fuel + 1) env (.obj d) (.obj members) = false := by
  obtain ⟨hprops, hreq, href'⟩ := changeProperties_success d d' props' name h
  rw [validF_obj_noref _ _ _ _ (href' href) hoas] at hv
  have hobj : objectOk env (validF fuel env) d' (.obj members) = true := by
    simp only [keywordsOk, Bool.and_eq_true] at hv
    exact hv.1.2
  simp only [objectOk, Bool.and_eq_true, List.all_eq_true] at hobj
  have hpres := hobj.1.1.1.2 name hreq
  have hpo : propsOf d' = props' := by simp [propsOf, hprops]
  obtain ⟨x, hx⟩ : ∃ x, Json.lookup name members = some x := by
    cases hl : Json.lookup name members with
    | some x => exact ⟨x, rfl⟩
    | none =>
      exfalso
      simp only [hl, Option.isSome_none, Bool.false_or, hpo, hsp'] at hpres
      simp [forbiddenProp, hoas] at hpres
  have hmem := lookup_mem name x members hx
  have hdecl := hobj.1.1.2 (name, x) hmem
  simp only [hpo, hsp', Bool.and_eq_true] at hdecl
  have hbad := hprog x hdecl.2
  rw [validF_obj_noref _ _ _ _ href hoas]
  apply keywordsOk_false_of_objectOk
  cases hobjd : objectOk env (validF fuel env) d (.obj members) with
  | false => rfl
  | true =>
    exfalso
    simp only [objectOk, Bool.and_eq_true, List.all_eq_true] at hobjd
    have := hobjd.1.1.2 (name, x) hmem
    simp only [hsp, Bool.and_eq_true] at this
    rw [hbad] at this
    cases this.2

/-! ### FAILURE leaves the schema unchanged; `mutate` rejects iff nothing succeeded -/

theorem removeRequired_failure (d d' : Dict) (name : String) (h : removeRequired d name = (.failure, d')) : d' = d := by
  unfold removeRequired at h
  split at h
  · injection h with _ h; exact h.symm
  · split at h
    · split at h
      · injection h with _ h; exact h.symm
      · cases h
    · injection h with _ h; exact h.symm

theorem changeType_failure (ctx : Ctx) (d d' : Dict) (c : String) (h : changeType ctx d c = (.failure, d')) : d' = d := by
  unfold changeType at h
  repeat' split at h
  all_goals first | (injection h with _ h; exact h.symm) | cases h

theorem changeProperties_failure (d d' props' : Dict) (first : Option String)
    (h : changeProperties d props' first = (.failure, d')) : d' = d := by
  unfold changeProperties at h
  repeat' split at h
  all_goals first | (injection h with _ h; exact h.symm) | cases h

theorem foldl_or_success (rs : List MResult) (a : MResult) :
    rs.foldl MResult.or a = .success ↔ a = .success ∨ .success ∈ rs := by
  induction rs generalizing a with
  | nil => simp
  | cons r rs ih =>
    simp only [List.foldl, ih, List.mem_cons]
    cases a <;> cases r <;> simp [MResult.or]

theorem negLoop_repaired_some (ctx : Ctx) (d : Dict) (cand : String) (en : List String) :
    ∀ (rest acc : Dict), ∃ r, negLoop .repaired ctx d cand en rest acc = some r := by
  intro rest
  induction rest with
  | nil => intro acc; exact ⟨acc, rfl⟩
  | cons p rest ih =>
    intro acc
    obtain ⟨k, v⟩ := p
    unfold negLoop
    by_cases hc : (isMutationCandidate ctx k v && selectedKey cand en k) = true
    · simp only [hc, if_true]
      cases hdep : dependency k with
      | none => exact ih _
      | some dep =>
        simp only
        by_cases hh : dhas dep (dset k v acc) = true
        · simp only [hh, if_true]; exact ih _
        · simp only [hh, Bool.false_eq_true, if_false]
          cases hdv : Json.lookup dep d with
          | none => exact ih _
          | some dv => exact ih _
    · simp only [hc, Bool.false_eq_true, if_false]; exact ih _

end SV.Proofs.C02
