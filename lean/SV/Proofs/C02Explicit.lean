/-
  Helper lemmas for the explicit-values part of C02 (not property statements themselves).
-/
import SV.Proofs.C02
import SV.Spec.C02Explicit

namespace SV.Proofs.C02
open SV SV.Model.C02 SV.Spec.C02

/-! ## `Json.beq` is reflexive -/
mutual
theorem beq_refl : ∀ a : Json, Json.beq a a = true
  | .null => by simp [Json.beq]
  | .bool _ => by simp [Json.beq]
  | .num _ _ => by simp [Json.beq]
  | .str _ => by simp [Json.beq]
  | .arr xs => by simp [Json.beq, beqList_refl xs]
  | .obj xs => by simp [Json.beq, beqKvs_refl xs]
theorem beqList_refl : ∀ xs : List Json, Json.beqList xs xs = true
  | [] => by simp [Json.beqList]
  | x :: xs => by simp [Json.beqList, beq_refl x, beqList_refl xs]
theorem beqKvs_refl : ∀ xs : List (String × Json), Json.beqKvs xs xs = true
  | [] => by simp [Json.beqKvs]
  | (k, x) :: xs => by simp [Json.beqKvs, beq_refl x, beqKvs_refl xs]
end

theorem sameAsExplicit_self (e : Dict) : sameAsExplicit (some (.obj e)) (some e) = true := by
  simp only [sameAsExplicit]
  exact beq_refl _

/-! ## the strategy of a location -/

theorem remaining_nil (ps : List Param) : remaining ps [] = ps := by
  simp [remaining]

/-- what it takes for `get_parameters_strategy` to call a factory -/
theorem parametersStrategy_factory (ps : List Param) (rq : List String) (f : Mode) (exc : List String)
    (m : Mode) (rem : List Param) (req : List String)
    (h : parametersStrategy ps rq f exc = .factory m rem req) :
    m = f ∧ rem = remaining ps exc ∧ ps.isEmpty = false ∧ (rem.isEmpty = true → f = .positive) := by
  unfold parametersStrategy at h
  split at h
  · cases h
  · rename_i hps
    dsimp only at h
    split at h
    · cases h
    · rename_i hrem
      injection h with h1 h2 h3
      subst h1 h2
      refine ⟨rfl, rfl, by simpa using hps, ?_⟩
      intro he
      simp only [he, Bool.true_and, beq_iff_eq] at hrem
      cases f
      · rfl
      · exact absurd rfl hrem

theorem parametersStrategy_none_or_factory (ps : List Param) (rq : List String) (f : Mode) (exc : List String) :
    parametersStrategy ps rq f exc = .none ∨
    ∃ rem req, parametersStrategy ps rq f exc = .factory f rem req := by
  unfold parametersStrategy
  split
  · exact Or.inl rfl
  · dsimp only
    split
    · exact Or.inl rfl
    · exact Or.inr ⟨_, _, rfl⟩

theorem generatorForX_none (vx : Variant) (op : Op) (mode : Mode) (l : Loc) :
    generatorForX vx op Explicits.none mode l = generatorFor op mode l := by
  cases vx <;> cases l <;>
    simp [generatorForX, generatorFor, judged, Explicits.none, Explicits.param, excludeNames, remaining_nil, Op.params,
      isHeaderLoc]

theorem generateParameterX_none (vs : Variants) (op : Op) (mode : Mode) (d : Draws) (l : Loc) :
    generateParameterX vs op Explicits.none mode d l = generateParameter op mode d l := by
  have hp : Explicits.none.param l = none := by cases l <;> rfl
  unfold generateParameterX generateParameter
  rw [generatorForX_none, hp]
  cases hv : vs.unchanged <;> simp [mergeValue, generatorDropped, sameAsExplicit]

theorem bodyContainerX_loc (op : Op) (ex : Explicits) (mode : Mode) (d : Draws) :
    (bodyContainerX op ex mode d).loc = .body := by
  unfold bodyContainerX
  split
  · rfl
  · exact bodyContainer_loc op mode d

theorem lookup_loc_valueX (vs : Variants) (op : Op) (ex : Explicits) (mode : Mode) (d : Draws) (m : Mode)
    (comps : List (Loc × Mode)) (c : Container) (hc : c ∈ containersX vs op ex mode d) :
    valueOf ⟨m, comps, (containersX vs op ex mode d).map fun c => (c.loc, c.value)⟩ c.loc = c.value := by
  have hn : ((containersX vs op ex mode d).map (·.loc)).Nodup := by
    simp [containersX, generateParameterX, bodyContainerX_loc]
  simp only [valueOf, lookup_loc_value _ c hc hn]

theorem paramLoc_ne_body (l : Loc) (hl : l ∈ paramLocs) : (l == Loc.body) = false := by
  simp [paramLocs] at hl; rcases hl with rfl | rfl | rfl | rfl <;> rfl

theorem mem_containersX (vs : Variants) (op : Op) (ex : Explicits) (mode : Mode) (d : Draws) (cn : Container)
    (h : cn ∈ containersX vs op ex mode d) :
    (∃ l ∈ paramLocs, cn = generateParameterX vs op ex mode d l) ∨ cn = bodyContainerX op ex mode d := by
  simp only [containersX, List.mem_cons, List.not_mem_nil, or_false] at h
  rcases h with rfl | rfl | rfl | rfl | rfl
  · exact Or.inl ⟨.query, by simp [paramLocs], rfl⟩
  · exact Or.inl ⟨.path, by simp [paramLocs], rfl⟩
  · exact Or.inl ⟨.header, by simp [paramLocs], rfl⟩
  · exact Or.inl ⟨.cookie, by simp [paramLocs], rfl⟩
  · exact Or.inr rfl

theorem generateParameterX_mem (vs : Variants) (op : Op) (ex : Explicits) (mode : Mode) (d : Draws) (l : Loc)
    (hl : l ∈ paramLocs) : generateParameterX vs op ex mode d l ∈ containersX vs op ex mode d := by
  simp [paramLocs] at hl
  rcases hl with rfl | rfl | rfl | rfl <;> simp [containersX]

/-- the strategy is `st.none()` and the contract holds: the container is either absent or the caller's own value,
    and in both cases it does not count as generated -/
theorem container_of_none_strategy (vs : Variants) (valid : Loc → Json → Bool) (op : Op) (rq : Reqs) (ex : Explicits)
    (d : Draws) (l : Loc) (hl : l ∈ paramLocs)
    (hs : strategyFor vs.exclusion op rq ex .negative l = .none)
    (hd : paramDrawOKX valid vs.exclusion op rq ex .negative d l = true) :
    (generateParameterX vs op ex .negative d l).isGenerated = false := by
  unfold paramDrawOKX at hd
  rw [hs] at hd
  have hnone : d.param l = none := by
    cases h : d.param l with
    | none => rfl
    | some _ => simp [h] at hd
  have hlb := paramLoc_ne_body l hl
  unfold generateParameterX Container.isGenerated
  simp only [hnone, hlb, Bool.false_or]
  cases hex : ex.param l with
  | none => simp [mergeValue]
  | some e =>
    cases e with
    | nil => simp [mergeValue]
    | cons p e =>
      cases hv : vs.unchanged
      · simp [mergeValue, generatorDropped, sameAsExplicit_self]
      · simp [mergeValue, generatorDropped]

/-- the strategy is a factory strategy and the contract holds -/
theorem container_of_factory_strategy (vs : Variants) (valid : Loc → Json → Bool) (op : Op) (rq : Reqs)
    (ex : Explicits) (d : Draws) (l : Loc) (m : Mode) (rem : List Param) (req : List String)
    (hs : strategyFor vs.exclusion op rq ex .negative l = .factory m rem req)
    (hd : paramDrawOKX valid vs.exclusion op rq ex .negative d l = true) :
    generatorForX vs.exclusion op ex .negative l = m ∧
    ∃ new x, d.param l = some (.obj new) ∧ mergeValue (ex.param l) (d.param l) = some x ∧
      valid l x = (m == .positive) := by
  have hm := (parametersStrategy_factory _ _ _ _ _ _ _ hs).1
  refine ⟨hm.symm, ?_⟩
  unfold paramDrawOKX at hd
  rw [hs] at hd
  cases hdraw : d.param l with
  | none => simp [hdraw] at hd
  | some j =>
    cases j with
    | obj new =>
      cases hmerge : mergeValue (ex.param l) (some (.obj new)) with
      | none => simp [hdraw, hmerge] at hd
      | some x =>
        simp only [hdraw, hmerge, beq_iff_eq] at hd
        exact ⟨new, x, rfl, rfl, hd⟩
    | _ => simp [hdraw] at hd

/-- every container that counts as generated is sound w.r.t. the contract -/
theorem paramContainerX_sound (vs : Variants) (valid : Loc → Json → Bool) (op : Op) (rq : Reqs) (ex : Explicits)
    (d : Draws) (l : Loc) (hl : l ∈ paramLocs)
    (hd : paramDrawOKX valid vs.exclusion op rq ex .negative d l = true)
    (hg : (generateParameterX vs op ex .negative d l).isGenerated = true) :
    ContainerSound valid (absentOk op .negative d) (generateParameterX vs op ex .negative d l) := by
  rcases parametersStrategy_none_or_factory (op.params l) (rq.at l) (generatorForX vs.exclusion op ex .negative l)
      (excludeNames (ex.param l)) with hs | ⟨rem, req, hs⟩
  · have := container_of_none_strategy vs valid op rq ex d l hl hs hd
    rw [this] at hg; cases hg
  · obtain ⟨_, new, x, hdraw, hmerge, hv⟩ := container_of_factory_strategy vs valid op rq ex d l _ rem req hs hd
    intro m hm
    unfold generateParameterX at hm ⊢
    simp only at hm ⊢
    split at hm
    · cases hm
    · injection hm with hm
      rw [hmerge]
      rw [hm] at hv
      constructor
      · intro hneg; subst hneg; exact ⟨x, rfl, by rw [hv]; rfl⟩
      · intro hpos; subst hpos; show valid l x = true; rw [hv]; rfl

theorem bodyContainerX_sound (valid : Loc → Json → Bool) (op : Op) (ex : Explicits) (d : Draws)
    (h : bodyDrawOKX .repaired valid op ex .negative d = true) :
    ContainerSound valid (absentOk op .negative d) (bodyContainerX op ex .negative d) := by
  unfold bodyContainerX
  cases hb : ex.body with
  | some b => intro m hm; cases hm
  | none =>
    unfold bodyDrawOKX at h
    simp only [hb, Option.isSome_none, Bool.false_or] at h
    exact bodyContainer_sound .repaired valid op d h (by intro hv; cases hv)

theorem openapiCasesX_case (vs : Variants) (op : Op) (ex : Explicits) (only : Bool) (d : Draws) (c : Case)
    (hc : openapiCasesX vs op ex only .negative d = .case c) :
    anyNegated (containersX vs op ex .negative d) = true ∧
    c = ⟨.negative, componentsOf vs.labels (containersX vs op ex .negative d),
         (containersX vs op ex .negative d).map fun c => (c.loc, c.value)⟩ := by
  unfold openapiCasesX at hc
  simp only [beq_self_eq_true, Bool.true_and] at hc
  cases hany : anyNegated (containersX vs op ex .negative d) with
  | false => simp [hany] at hc; split at hc <;> cases hc
  | true =>
    simp [hany] at hc
    exact ⟨rfl, hc.symm⟩

theorem openapiCasesX_of_anyNegated (vs : Variants) (op : Op) (ex : Explicits) (only : Bool) (d : Draws)
    (h : anyNegated (containersX vs op ex .negative d) = true) :
    ∃ c, openapiCasesX vs op ex only .negative d = .case c := by
  refine ⟨⟨.negative, componentsOf vs.labels (containersX vs op ex .negative d),
    (containersX vs op ex .negative d).map fun c => (c.loc, c.value)⟩, ?_⟩
  simp [openapiCasesX, h]

theorem labels_sound_X' (vs : Variants) (hl : vs.labels = .repaired) (valid : Loc → Json → Bool) (op : Op) (rq : Reqs)
    (ex : Explicits) (only : Bool) (d : Draws) (c : Case)
    (hd : drawOKX vs valid op rq ex .negative d = true)
    (hc : openapiCasesX vs op ex only .negative d = .case c) :
    labelsSound valid (absentOk op .negative d) c = true := by
  obtain ⟨hneg, hc⟩ := openapiCasesX_case vs op ex only d c hc
  subst hc
  unfold drawOKX at hd
  simp only [Bool.and_eq_true, List.all_eq_true] at hd
  unfold labelsSound
  simp only [beq_self_eq_true, Bool.true_and, Bool.and_eq_true]
  refine ⟨anyNegated_component _ _ hneg, ?_⟩
  simp only [List.all_eq_true]
  intro ⟨l, m⟩ hlm
  obtain ⟨cn, hcn, hloc, hgen, hlab⟩ := mem_componentsOf _ _ l m hlm
  have hisgen : cn.isGenerated = true := by rw [hl] at hlab; simpa [labelled] using hlab
  have hs : ContainerSound valid (absentOk op .negative d) cn := by
    rcases mem_containersX vs op ex .negative d cn hcn with ⟨l', hl', rfl⟩ | rfl
    · exact paramContainerX_sound vs valid op rq ex d l' hl' (hd.1 l' hl') hisgen
    · have := hd.2; rw [hl] at this
      exact bodyContainerX_sound valid op ex d this
  have hval := lookup_loc_valueX vs op ex .negative d .negative
    (componentsOf vs.labels (containersX vs op ex .negative d)) cn hcn
  obtain ⟨hN, hP⟩ := hs m hgen
  subst hloc
  unfold partSound
  simp only [hval]
  cases m with
  | negative =>
    obtain ⟨x, hx, hxv⟩ := hN rfl
    simp [hx, hxv]
  | positive =>
    have := hP rfl
    cases hx : cn.value with
    | none => simp [hx] at this ⊢; exact this
    | some x => simp [hx] at this ⊢; exact this

/-! ## "does get negative cases" / "skipped, not failed" -/

theorem isNegativeFactory_iff (s : Strat) : isNegativeFactory s = true ↔ ∃ rem req, s = .factory .negative rem req := by
  cases s with
  | none => simp [isNegativeFactory]
  | factory m rem req => cases m <;> simp [isNegativeFactory]

/-- the common core: a case is produced as soon as, for some location whose strategy is the negative factory, the
    generator is not dropped — or the body is negatable and not supplied -/
theorem gets_cases_core (vs : Variants) (valid : Loc → Json → Bool) (op : Op) (rq : Reqs) (ex : Explicits)
    (only : Bool) (d : Draws)
    (hn : negatableX vs.exclusion op rq ex = true)
    (hd : drawOKX vs valid op rq ex .negative d = true)
    (hkeep : ∀ l ∈ paramLocs, isNegativeFactory (strategyFor vs.exclusion op rq ex .negative l) = true →
      generatorDropped vs.unchanged (ex.param l) (d.param l) (mergeValue (ex.param l) (d.param l)) = false) :
    ∃ c, openapiCasesX vs op ex only .negative d = .case c := by
  apply openapiCasesX_of_anyNegated
  unfold negatableX at hn
  simp only [Bool.or_eq_true, List.any_eq_true, Bool.and_eq_true, Option.isNone_iff_eq_none] at hn
  unfold drawOKX at hd
  simp only [Bool.and_eq_true, List.all_eq_true] at hd
  unfold anyNegated
  simp only [List.any_eq_true, Bool.and_eq_true, beq_iff_eq]
  rcases hn with ⟨l, hl, hneg⟩ | ⟨hb, x, hx, hxc⟩
  · obtain ⟨rem, req, hs⟩ := (isNegativeFactory_iff _).mp hneg
    obtain ⟨hg, new, y, hdraw, hmerge, _⟩ := container_of_factory_strategy vs valid op rq ex d l _ rem req hs (hd.1 l hl)
    have hk := hkeep l hl hneg
    rw [hmerge] at hk
    refine ⟨generateParameterX vs op ex .negative d l, generateParameterX_mem vs op ex .negative d l hl, ?_, ?_⟩
    · simp [generateParameterX, Container.isGenerated, hk, hmerge]
    · simp [generateParameterX, hmerge, hk, hg]
  · have hne : op.body.isEmpty = false := by
      cases hbb : op.body with
      | nil => simp [hbb] at hx
      | cons _ _ => rfl
    have hg : (bodyCandidates Mode.negative op.body).2 = .negative :=
      (bodyCandidates_negative_iff op.body).mpr (List.any_eq_true.mpr ⟨x, hx, hxc⟩)
    refine ⟨bodyContainerX op ex .negative d, by simp [containersX], ?_, ?_⟩
    · simp [bodyContainerX, hb, bodyContainer, hne, Container.isGenerated]
    · simp [bodyContainerX, hb, bodyContainer, hne, hg]

theorem skip_not_fail_X' (vs : Variants) (valid : Loc → Json → Bool) (op : Op) (rq : Reqs) (ex : Explicits)
    (only : Bool) (d : Draws)
    (hn : negatableX vs.exclusion op rq ex = false)
    (hd : drawOKX vs valid op rq ex .negative d = true) :
    openapiCasesX vs op ex only .negative d = if only then .skip else .reject := by
  unfold negatableX at hn
  simp only [Bool.or_eq_false_iff, List.any_eq_false, Bool.and_eq_false_iff] at hn
  unfold drawOKX at hd
  simp only [Bool.and_eq_true, List.all_eq_true] at hd
  have hany : anyNegated (containersX vs op ex .negative d) = false := by
    unfold anyNegated
    simp only [List.any_eq_false, Bool.and_eq_true, beq_iff_eq, not_and]
    intro cn hcn hgen
    rcases mem_containersX vs op ex .negative d cn hcn with ⟨l, hl, rfl⟩ | rfl
    · rcases parametersStrategy_none_or_factory (op.params l) (rq.at l)
          (generatorForX vs.exclusion op ex .negative l) (excludeNames (ex.param l)) with hs | ⟨rem, req, hs⟩
      · have := container_of_none_strategy vs valid op rq ex d l hl hs (hd.1 l hl)
        rw [this] at hgen; cases hgen
      · have hnf := hn.1 l hl
        unfold generateParameterX
        simp only
        split
        · simp
        · cases hg : generatorForX vs.exclusion op ex .negative l with
          | positive => simp
          | negative =>
            exfalso
            have : strategyFor vs.exclusion op rq ex .negative l = .factory .negative rem req := by
              unfold strategyFor; rw [hs, hg]
            rw [this] at hnf
            simp [isNegativeFactory] at hnf
    · unfold bodyContainerX at hgen ⊢
      cases hb : ex.body with
      | some b => simp
      | none =>
        simp only [hb] at hgen ⊢
        unfold bodyContainer
        split
        · simp
        · cases hg : (bodyCandidates Mode.negative op.body).2 with
          | positive => simp
          | negative =>
            exfalso
            have := (bodyCandidates_negative_iff op.body).mp hg
            obtain ⟨x, hx, hxc⟩ := List.any_eq_true.mp this
            rcases hn.2 with h2 | h2
            · simp [hb] at h2
            · exact h2 x hx hxc
  simp [openapiCasesX, hany]

/-! ## the strategy cache key -/

theorem contains_of_sort_eq (e1 e2 : List String)
    (h : e1.mergeSort (fun a b => decide (a ≤ b)) = e2.mergeSort (fun a b => decide (a ≤ b))) (n : String) :
    e1.contains n = e2.contains n := by
  have p1 := List.mergeSort_perm e1 (fun a b => decide (a ≤ b))
  have p2 := List.mergeSort_perm e2 (fun a b => decide (a ≤ b))
  rw [h] at p1
  have p : e1.Perm e2 := p1.symm.trans p2
  have := p.mem_iff (a := n)
  by_cases h1 : n ∈ e1
  · have h2 := this.mp h1
    simp [h1, h2]
  · have h2 : n ∉ e2 := fun h2 => h1 (this.mpr h2)
    simp [h1, h2]

theorem parametersStrategy_congr (ps : List Param) (rq : List String) (f : Mode) (e1 e2 : List String)
    (h : ∀ n, e1.contains n = e2.contains n) :
    parametersStrategy ps rq f e1 = parametersStrategy ps rq f e2 := by
  have hr : remaining ps e1 = remaining ps e2 := by
    unfold remaining
    apply List.filter_congr
    intro p _
    rw [h]
  have hq : (rq.filter fun n => !(e1.contains n)) = (rq.filter fun n => !(e2.contains n)) := by
    apply List.filter_congr
    intro n _
    rw [h]
  unfold parametersStrategy
  rw [hr, hq]

/-! ## merging the drawn part into the explicit part -/

theorem lookup_none_of_not_mem (k : String) (d : Dict) (h : k ∉ d.map (·.1)) : Json.lookup k d = none := by
  induction d with
  | nil => rfl
  | cons p rest ih =>
    obtain ⟨k', x⟩ := p
    simp only [List.map_cons, List.mem_cons, not_or] at h
    have : (k == k') = false := by simpa using h.1
    simp [Json.lookup, this, ih h.2]

theorem lookup_isSome_of_mem (k : String) (d : Dict) (h : k ∈ d.map (·.1)) : (Json.lookup k d).isSome = true := by
  induction d with
  | nil => simp at h
  | cons p rest ih =>
    obtain ⟨k', x⟩ := p
    simp only [List.map_cons, List.mem_cons] at h
    by_cases hk : k = k'
    · subst hk; simp [Json.lookup]
    · have : (k == k') = false := by simpa using hk
      rcases h with h | h
      · exact absurd h hk
      · simp [Json.lookup, this, ih h]

theorem mem_keys_of_lookup (k : String) (x : Json) (d : Dict) (h : Json.lookup k d = some x) : k ∈ d.map (·.1) := by
  have := lookup_mem k x d h
  exact List.mem_map.mpr ⟨(k, x), this, rfl⟩

/-- names the drawn part does not mention keep the caller's value -/
theorem lookup_dupdate_not_mem (k : String) (new : Dict) : ∀ d : Dict, k ∉ new.map (·.1) →
    Json.lookup k (dupdate d new) = Json.lookup k d := by
  induction new with
  | nil => intro d _; rfl
  | cons p rest ih =>
    intro d h
    obtain ⟨k', v⟩ := p
    simp only [List.map_cons, List.mem_cons, not_or] at h
    simp only [dupdate]
    rw [ih _ h.2, lookup_dset_ne _ _ _ _ h.1]

/-- names the drawn part mentions get the drawn value -/
theorem lookup_dupdate_mem (k : String) (v : Json) (new : Dict) : ∀ d : Dict, uniqueKeys new → (k, v) ∈ new →
    Json.lookup k (dupdate d new) = some v := by
  induction new with
  | nil => intro d _ h; simp at h
  | cons p rest ih =>
    intro d hu h
    obtain ⟨k', v'⟩ := p
    simp only [uniqueKeys, List.map_cons, List.nodup_cons] at hu
    simp only [dupdate]
    simp only [List.mem_cons, Prod.mk.injEq] at h
    rcases h with ⟨rfl, rfl⟩ | h
    · rw [lookup_dupdate_not_mem _ _ _ hu.1, lookup_dset_self]
    · exact ih _ hu.2 h

theorem mem_dset (p : String × Json) (k : String) (v : Json) (d : Dict) (h : p ∈ dset k v d) : p = (k, v) ∨ p ∈ d := by
  induction d with
  | nil => simp [dset] at h; exact Or.inl h
  | cons q rest ih =>
    obtain ⟨k', x⟩ := q
    unfold dset at h
    split at h
    · rename_i hk
      have hk' : k = k' := by simpa using hk
      simp only [List.mem_cons] at h
      rcases h with h | h
      · left; rw [h, hk']
      · right; simp [h]
    · simp only [List.mem_cons] at h
      rcases h with h | h
      · right; simp [h]
      · rcases ih h with h | h
        · exact Or.inl h
        · right; simp [h]

theorem mem_dupdate (p : String × Json) (new : Dict) : ∀ d : Dict, p ∈ dupdate d new → p ∈ new ∨ p ∈ d := by
  induction new with
  | nil => intro d h; exact Or.inr h
  | cons q rest ih =>
    intro d h
    obtain ⟨k', v'⟩ := q
    simp only [dupdate] at h
    rcases ih _ h with h | h
    · left; simp [h]
    · rcases mem_dset p k' v' d h with h | h
      · left; simp [h]
      · exact Or.inr h

theorem mem_without (n : String) (names exc : List String) :
    n ∈ without names exc ↔ n ∈ names ∧ exc.contains n = false := by
  simp [without]

theorem merge_keeps_violation' (pv : String → Json → Bool) (names req : List String) (e new : Dict)
    (hu : uniqueKeys new)
    (hno : ∀ kv ∈ new, (e.map (·.1)).contains kv.1 = false)
    (h : locValid pv (without names (e.map (·.1))) (without req (e.map (·.1))) new = false) :
    locValid pv names req (dupdate e new) = false := by
  unfold locValid at h ⊢
  simp only [Bool.and_eq_false_iff, List.all_eq_false] at h ⊢
  rcases h with ⟨n, hn, hl⟩ | ⟨kv, hkv, hbad⟩
  · left
    have hn' := (mem_without n req _).mp hn
    refine ⟨n, hn'.1, ?_⟩
    have hnone : Json.lookup n new = none := by
      cases hh : Json.lookup n new with
      | none => rfl
      | some _ => simp [hh] at hl
    have hnk : n ∉ new.map (·.1) := by
      intro hm
      have := lookup_isSome_of_mem n new hm
      simp [hnone] at this
    have hne : n ∉ e.map (·.1) := by
      intro hm
      have : (e.map (·.1)).contains n = true := by simpa using hm
      rw [hn'.2] at this; cases this
    rw [lookup_dupdate_not_mem n new e hnk, lookup_none_of_not_mem n e hne]
    simp
  · right
    obtain ⟨k, x⟩ := kv
    have hlk := lookup_dupdate_mem k x new e hu hkv
    refine ⟨(k, x), lookup_mem k x _ hlk, ?_⟩
    simp only [Bool.not_eq_true, Bool.and_eq_false_iff] at hbad ⊢
    rcases hbad with hb | hb
    · left
      have hke := hno (k, x) hkv
      cases hc : names.contains k with
      | false => rfl
      | true =>
        exfalso
        have : k ∈ without names (e.map (·.1)) := (mem_without k names _).mpr ⟨by simpa using hc, hke⟩
        have : (without names (e.map (·.1))).contains k = true := by simpa using this
        rw [hb] at this; cases this
    · exact Or.inr hb

theorem merge_keeps_conformance' (pv : String → Json → Bool) (names req : List String) (e new : Dict)
    (hu : uniqueKeys new)
    (he : ∀ kv ∈ e, names.contains kv.1 = true ∧ pv kv.1 kv.2 = true)
    (h : locValid pv (without names (e.map (·.1))) (without req (e.map (·.1))) new = true) :
    locValid pv names req (dupdate e new) = true := by
  unfold locValid at h ⊢
  simp only [Bool.and_eq_true, List.all_eq_true] at h ⊢
  constructor
  · intro n hn
    by_cases hne : n ∈ e.map (·.1)
    · by_cases hnn : n ∈ new.map (·.1)
      · obtain ⟨⟨k, x⟩, hkx, hk⟩ := List.mem_map.mp hnn
        simp only at hk; subst hk
        rw [lookup_dupdate_mem k x new e hu hkx]; rfl
      · rw [lookup_dupdate_not_mem n new e hnn]
        exact lookup_isSome_of_mem n e hne
    · have hw : n ∈ without req (e.map (·.1)) := (mem_without n req _).mpr ⟨hn, by simpa using hne⟩
      have hs := h.1 n hw
      cases hl : Json.lookup n new with
      | none => simp [hl] at hs
      | some x =>
        rw [lookup_dupdate_mem n x new e hu (lookup_mem n x new hl)]; rfl
  · intro kv hkv
    rcases mem_dupdate kv new e hkv with hm | hm
    · have := h.2 kv hm
      refine ⟨?_, this.2⟩
      have hw : kv.1 ∈ without names (e.map (·.1)) := by simpa using this.1
      have := ((mem_without kv.1 names _).mp hw).1
      simpa using this
    · exact he kv hm

end SV.Proofs.C02
