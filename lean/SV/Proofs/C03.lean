/-
  Helper lemmas for C03 (not property statements): floor-multiple arithmetic, reading the numeric keywords of a raw
  schema, the numeric keyword family on integer instances in arithmetic form.
-/
import SV.Spec.C03

namespace SV.Proofs.C03
open SV SV.Spec.JsonSchema SV.Model.C03 SV.Spec.C03

/-! ### floor multiples -/
theorem closest_mod (y x : Int) (hx : 0 < x) : closestMultiple y x % x = 0 := by
  unfold closestMultiple
  rw [Int.fmod_eq_emod_of_nonneg y (Int.le_of_lt hx), Int.fdiv_eq_ediv_of_nonneg y (Int.le_of_lt hx)]
  split
  · rename_i h; simpa using h
  · simp

theorem closest_ge (y x : Int) (hx : 0 < x) : y ≤ closestMultiple y x := by
  unfold closestMultiple
  rw [Int.fmod_eq_emod_of_nonneg y (Int.le_of_lt hx), Int.fdiv_eq_ediv_of_nonneg y (Int.le_of_lt hx)]
  split
  · exact Int.le_refl _
  · have := Int.lt_mul_ediv_self_add (x := y) hx
    rw [Int.mul_add, Int.mul_one]; omega

theorem closest_least (y x k : Int) (hx : 0 < x) (hk : k % x = 0) (hy : y ≤ k) : closestMultiple y x ≤ k := by
  unfold closestMultiple
  rw [Int.fmod_eq_emod_of_nonneg y (Int.le_of_lt hx), Int.fdiv_eq_ediv_of_nonneg y (Int.le_of_lt hx)]
  split
  · exact hy
  · rename_i h
    have hne : y % x ≠ 0 := by simpa using h
    -- k = x * (k / x), y / x < k / x
    have hkx : x * (k / x) = k := by
      have := Int.mul_ediv_add_emod k x; omega
    have h1 : y / x < k / x := by
      have hlt : y < k := by
        rcases Int.lt_or_eq_of_le hy with h | h
        · exact h
        · subst h; exact absurd hk hne
      -- x*(y/x) ≤ y < k = x*(k/x)
      have h2 : x * (y / x) ≤ y := Int.mul_ediv_self_le (Int.ne_of_gt hx)
      have h3 : x * (y / x) < x * (k / x) := by omega
      exact Int.lt_of_mul_lt_mul_left h3 (Int.le_of_lt hx)
    have h4 : x * (y / x + 1) ≤ x * (k / x) := Int.mul_le_mul_of_nonneg_left (by omega) (Int.le_of_lt hx)
    omega

theorem floorMul_mod (m x : Int) (hx : 0 < x) : (m - m.fmod x) % x = 0 := by
  rw [Int.fmod_eq_emod_of_nonneg m (Int.le_of_lt hx)]
  have := Int.mul_ediv_add_emod m x
  have h : m - m % x = x * (m / x) := by omega
  rw [h]; simp

theorem floorMul_le (m x : Int) (hx : 0 < x) : m - m.fmod x ≤ m := by
  rw [Int.fmod_eq_emod_of_nonneg m (Int.le_of_lt hx)]
  have := Int.emod_nonneg m (Int.ne_of_gt hx); omega

theorem floorMul_greatest (m x k : Int) (hx : 0 < x) (hk : k % x = 0) (hm : k ≤ m) : k ≤ m - m.fmod x := by
  rw [Int.fmod_eq_emod_of_nonneg m (Int.le_of_lt hx)]
  have hkx : x * (k / x) = k := by
    have := Int.mul_ediv_add_emod k x; omega
  have h0 : m - m % x = x * (m / x) := by
    have := Int.mul_ediv_add_emod m x; omega
  rw [h0, ← hkx]
  apply Int.mul_le_mul_of_nonneg_left _ (Int.le_of_lt hx)
  exact Int.ediv_le_ediv hx hm

/-! ### reading keywords -/
theorem intKw_none {kvs k} (h : intKw? kvs k = some none) :
    Json.lookup k kvs = none ∨ Json.lookup k kvs = some .null := by
  unfold intKw? getK at h
  cases hl : Json.lookup k kvs with
  | none => simp
  | some j => cases j <;> simp_all <;> (split at h <;> simp_all)

theorem intKw_some {kvs k m} (h : intKw? kvs k = some (some m)) : Json.lookup k kvs = some (.num m 0) := by
  unfold intKw? getK at h
  cases hl : Json.lookup k kvs with
  | none => simp_all
  | some j =>
    cases j <;> simp_all
    split at h <;> simp_all

theorem exKw_none {kvs k} (h : exKw? kvs k = some none) :
    Json.lookup k kvs = none ∨ Json.lookup k kvs = some .null := by
  unfold exKw? getK at h
  cases hl : Json.lookup k kvs with
  | none => simp
  | some j => cases j <;> simp_all <;> (split at h <;> simp_all)

theorem exKw_flag {kvs k b} (h : exKw? kvs k = some (some (.flag b))) : Json.lookup k kvs = some (.bool b) := by
  unfold exKw? getK at h
  cases hl : Json.lookup k kvs with
  | none => simp_all
  | some j =>
    cases j <;> simp_all
    split at h <;> simp_all

theorem exKw_num {kvs k n} (h : exKw? kvs k = some (some (.num n))) : Json.lookup k kvs = some (.num n 0) := by
  unfold exKw? getK at h
  cases hl : Json.lookup k kvs with
  | none => simp_all
  | some j =>
    cases j <;> simp_all
    split at h <;> simp_all

theorem parse_fields {kvs k} (h : parseNumKw kvs = some k) :
    intKw? kvs "minimum" = some k.minimum ∧ intKw? kvs "maximum" = some k.maximum ∧
    exKw? kvs "exclusiveMinimum" = some k.exMin ∧ exKw? kvs "exclusiveMaximum" = some k.exMax ∧
    intKw? kvs "multipleOf" = some k.multipleOf ∧ k.multipleOf ≠ some 0 := by
  unfold parseNumKw at h
  split at h
  · split at h
    · simp at h
    · rename_i hne
      simp at h; subst h; simp_all
  · simp at h

/-! ### the numeric keyword family on integer instances -/

theorem minimumOk_int {kvs k} (h : parseNumKw kvs = some k) (n : Int) :
    minimumOk kvs n 0 = true ↔ (∀ lo, effMin .repaired k = some lo → lo ≤ n) := by
  obtain ⟨h1, _, h3, _, _, _⟩ := parse_fields h
  obtain ⟨mn, mx, en, ex, mo⟩ := k
  simp only at h1 h3
  unfold minimumOk effMin
  cases mn with
  | none =>
    have hl := intKw_none h1
    cases en with
    | none =>
      have he := exKw_none h3
      rcases hl with hl | hl <;> rcases he with he | he <;> simp [hl, he]
    | some e =>
      cases e with
      | flag b =>
        have he := exKw_flag h3
        rcases hl with hl | hl <;> cases b <;> simp [hl, he]
      | num x =>
        have he := exKw_num h3
        rcases hl with hl | hl <;> simp [hl, he, numLt, pow10] <;> omega
  | some m =>
    have hl := intKw_some h1
    cases en with
    | none =>
      have he := exKw_none h3
      rcases he with he | he <;> simp [hl, he, numLe, pow10]
    | some e =>
      cases e with
      | flag b =>
        have he := exKw_flag h3
        cases b <;> simp [hl, he, numLe, numLt, pow10]
        omega
      | num x =>
        have he := exKw_num h3
        simp [hl, he, numLe, numLt, pow10]
        omega

theorem maximumOk_int {kvs k} (h : parseNumKw kvs = some k) (n : Int) :
    maximumOk kvs n 0 = true ↔ (∀ hi, effMax .repaired k = some hi → n ≤ hi) := by
  obtain ⟨_, h1, _, h3, _, _⟩ := parse_fields h
  obtain ⟨mn, mx, en, ex, mo⟩ := k
  simp only at h1 h3
  unfold maximumOk effMax
  cases mx with
  | none =>
    have hl := intKw_none h1
    cases ex with
    | none =>
      have he := exKw_none h3
      rcases hl with hl | hl <;> rcases he with he | he <;> simp [hl, he]
    | some e =>
      cases e with
      | flag b =>
        have he := exKw_flag h3
        rcases hl with hl | hl <;> cases b <;> simp [hl, he]
      | num x =>
        have he := exKw_num h3
        rcases hl with hl | hl <;> simp [hl, he, numLt, pow10] <;> omega
  | some m =>
    have hl := intKw_some h1
    cases ex with
    | none =>
      have he := exKw_none h3
      rcases he with he | he <;> simp [hl, he, numLe, pow10]
    | some e =>
      cases e with
      | flag b =>
        have he := exKw_flag h3
        cases b <;> simp [hl, he, numLe, numLt, pow10]
        omega
      | num x =>
        have he := exKw_num h3
        simp [hl, he, numLe, numLt, pow10]
        omega

theorem multipleOfOk_int {kvs k} (h : parseNumKw kvs = some k) (n : Int) :
    multipleOfOk kvs n 0 = true ↔ (∀ x, k.multipleOf = some x → n % x = 0) := by
  obtain ⟨_, _, _, _, h5, hne⟩ := parse_fields h
  obtain ⟨mn, mx, en, ex, mo⟩ := k
  simp only at h5 hne
  unfold multipleOfOk
  cases mo with
  | none =>
    rcases intKw_none h5 with hl | hl <;> simp [hl]
  | some x =>
    have hl := intKw_some h5
    have hx : x ≠ 0 := by intro h0; subst h0; simp at hne
    simp [hl, numMultipleOf, pow10, hx]

theorem numberOk_int {kvs k} (h : parseNumKw kvs = some k) (n : Int) :
    numberOk kvs (.num n 0) = true ↔ NumKw.okInt k n := by
  unfold numberOk NumKw.okInt
  simp only [Bool.and_eq_true, minimumOk_int h, maximumOk_int h, multipleOfOk_int h]
  constructor
  · rintro ⟨⟨a, b⟩, c⟩; exact ⟨a, b, c⟩
  · rintro ⟨a, b, c⟩; exact ⟨⟨a, b⟩, c⟩

/-! ### boundary values of `_positive_number` -/

theorem numLower_mem {vz vc mn mx mo n d} (h : (n, d) ∈ (numLower vz vc mn mx mo).1) :
    ∃ lo, mn = some lo ∧
      ((n = smallestOf lo mo ∧ (vc = .asFound ∨ leOpt n mx = true)) ∨
       (n = largerOf lo mo ∧ (isAbsent vz mx = true ∨ leOpt n mx = true))) := by
  cases mn with
  | none => simp [numLower] at h
  | some lo =>
    refine ⟨lo, rfl, ?_⟩
    simp only [numLower, List.mem_append] at h
    rcases h with h | h
    · simp only [List.mem_ite_nil_right, List.mem_cons, Prod.mk.injEq, List.mem_nil_iff, or_false] at h
      obtain ⟨hfirst, hn, _⟩ := h
      left; rw [hn]
      refine ⟨rfl, ?_⟩
      cases vc with
      | asFound => left; rfl
      | repaired => right; simpa [crossOk] using hfirst
    · simp only [List.mem_ite_nil_right, List.mem_cons, Prod.mk.injEq, List.mem_nil_iff, or_false,
        Bool.and_eq_true, Bool.or_eq_true] at h
      obtain ⟨⟨_, hc⟩, hn, _⟩ := h
      right; rw [hn]; exact ⟨rfl, hc⟩

theorem numUpper_mem {vc mn mx mo seen n d} (h : (n, d) ∈ numUpper vc mn mx mo seen) :
    ∃ hi, mx = some hi ∧
      ((n = largestOf hi mo ∧ (vc = .asFound ∨ geOpt n mn = true)) ∨ (n = smallerOf hi mo ∧ geOpt n mn = true)) := by
  cases mx with
  | none => simp [numUpper] at h
  | some hi =>
    refine ⟨hi, rfl, ?_⟩
    simp only [numUpper, List.mem_append] at h
    rcases h with h | h
    · simp only [List.mem_ite_nil_right, List.mem_cons, Prod.mk.injEq, List.mem_nil_iff, or_false,
        Bool.and_eq_true] at h
      obtain ⟨⟨_, hfirst⟩, hn, _⟩ := h
      left; rw [hn]
      refine ⟨rfl, ?_⟩
      cases vc with
      | asFound => left; rfl
      | repaired => right; simpa [crossOk] using hfirst
    · simp only [List.mem_ite_nil_right, List.mem_cons, Prod.mk.injEq, List.mem_nil_iff, or_false,
        Bool.and_eq_true] at h
      obtain ⟨⟨_, hc⟩, hn, _⟩ := h
      right; rw [hn]; exact ⟨rfl, hc⟩

/-- Every boundary value lies within the effective bounds and is a multiple.  With the crossing guard (`vc = .repaired`)
    nothing is assumed about the schema: each value is tested against the opposite bound before it is emitted.
    Without it (`vc = .asFound`) the "Minimum value" / "Maximum value" are only known to be the least / greatest multiple
    on their own side, so some number `n0` satisfying all three constraints is needed. -/
theorem boundary_ok (vc : Variant) (mn mx mo : Option Int) (hpos : ∀ x, mo = some x → 0 < x)
    (hsat : vc = .asFound → ∃ n0 : Int,
      (∀ lo, mn = some lo → lo ≤ n0) ∧ (∀ hi, mx = some hi → n0 ≤ hi) ∧ (∀ x, mo = some x → n0 % x = 0)) :
    ∀ p ∈ (numLower .repaired vc mn mx mo).1 ++ numUpper vc mn mx mo (numLower .repaired vc mn mx mo).2,
      (∀ lo, mn = some lo → lo ≤ p.1) ∧ (∀ hi, mx = some hi → p.1 ≤ hi) ∧ (∀ x, mo = some x → p.1 % x = 0) := by
  intro ⟨n, d⟩ hp
  simp only [List.mem_append] at hp
  rcases hp with hp | hp
  · obtain ⟨lo, hmn, hcase⟩ := numLower_mem hp
    have hupper : ∀ hi, mx = some hi → (isAbsent .repaired mx = true ∨ leOpt n mx = true) → n ≤ hi := by
      intro hi hhi hc
      rcases hc with hc | hc
      · simp [isAbsent, hhi] at hc
      · simpa [leOpt, hhi] using hc
    -- the "Minimum value" against the maximum: by the guard, or through the satisfying number
    have hsmall : ∀ hi, mx = some hi → n = smallestOf lo mo → (vc = .asFound ∨ leOpt n mx = true) → n ≤ hi := by
      intro hi hhi hn hc
      rcases hc with hc | hc
      · obtain ⟨n0, hlo0, hhi0, hm0⟩ := hsat hc
        have h1 := hlo0 lo hmn
        have h2 := hhi0 hi hhi
        cases mo with
        | none => simp only [smallestOf] at hn; omega
        | some x =>
          simp only [smallestOf] at hn
          have := closest_least lo x n0 (hpos x rfl) (hm0 x rfl) h1
          omega
      · simpa [leOpt, hhi] using hc
    cases mo with
    | none =>
      simp only [smallestOf, largerOf] at hcase hsmall
      refine ⟨?_, ?_, by intro x hx; simp at hx⟩
      · intro lo' hlo'; rw [hmn] at hlo'; cases hlo'
        rcases hcase with ⟨h, _⟩ | ⟨h, _⟩ <;> simp only [h] <;> omega
      · intro hi hhi
        rcases hcase with ⟨h, hc⟩ | ⟨h, hc⟩
        · exact hsmall hi hhi h hc
        · exact hupper hi hhi hc
    | some x =>
      have hx := hpos x rfl
      simp only [smallestOf, largerOf] at hcase hsmall
      refine ⟨?_, ?_, ?_⟩
      · intro lo' hlo'; rw [hmn] at hlo'; cases hlo'
        have := closest_ge lo x hx
        rcases hcase with ⟨h, _⟩ | ⟨h, _⟩ <;> simp only [h] <;> omega
      · intro hi hhi
        rcases hcase with ⟨h, hc⟩ | ⟨h, hc⟩
        · exact hsmall hi hhi h hc
        · exact hupper hi hhi hc
      · intro x' hx'; cases hx'
        have := closest_mod lo x hx
        rcases hcase with ⟨h, _⟩ | ⟨h, _⟩ <;> simp only [h]
        · exact this
        · rw [Int.add_emod, this]; simp
  · obtain ⟨hi, hmx, hcase⟩ := numUpper_mem hp
    have hlower : ∀ lo, mn = some lo → geOpt n mn = true → lo ≤ n := by
      intro lo hlo hc
      simpa [geOpt, hlo] using hc
    have hlarge : ∀ lo, mn = some lo → n = largestOf hi mo → (vc = .asFound ∨ geOpt n mn = true) → lo ≤ n := by
      intro lo hlo hn hc
      rcases hc with hc | hc
      · obtain ⟨n0, hlo0, hhi0, hm0⟩ := hsat hc
        have h1 := hlo0 lo hlo
        have h2 := hhi0 hi hmx
        cases mo with
        | none => simp only [largestOf] at hn; omega
        | some x =>
          simp only [largestOf] at hn
          have := floorMul_greatest hi x n0 (hpos x rfl) (hm0 x rfl) h2
          omega
      · exact hlower lo hlo hc
    cases mo with
    | none =>
      simp only [largestOf, smallerOf] at hcase hlarge
      refine ⟨?_, ?_, by intro x hx; simp at hx⟩
      · intro lo hlo
        rcases hcase with ⟨h, hc⟩ | ⟨h, hc⟩
        · exact hlarge lo hlo h hc
        · exact hlower lo hlo hc
      · intro hi' hhi'; rw [hmx] at hhi'; cases hhi'
        rcases hcase with ⟨h, _⟩ | ⟨h, _⟩ <;> simp only [h] <;> omega
    | some x =>
      have hx := hpos x rfl
      simp only [largestOf, smallerOf] at hcase hlarge
      refine ⟨?_, ?_, ?_⟩
      · intro lo hlo
        rcases hcase with ⟨h, hc⟩ | ⟨h, hc⟩
        · exact hlarge lo hlo h hc
        · exact hlower lo hlo hc
      · intro hi' hhi'; rw [hmx] at hhi'; cases hhi'
        have := floorMul_le hi x hx
        rcases hcase with ⟨h, _⟩ | ⟨h, _⟩ <;> simp only [h] <;> omega
      · intro x' hx'; cases hx'
        have := floorMul_mod hi x hx
        rcases hcase with ⟨h, _⟩ | ⟨h, _⟩ <;> simp only [h]
        · exact this
        · rw [Int.sub_emod, this]; simp

/-- every boundary value of `_positive_number` with the zero-bound and exclusive-bound sites repaired lies within the
    effective bounds and is a multiple — unconditionally with the crossing guard, provided some integer does without -/
theorem numBoundary_repaired_ok (vc : Variant) (k : NumKw) (hpos : ∀ x, k.multipleOf = some x → 0 < x)
    (hsat : vc = .asFound → ∃ n0, NumKw.okInt k n0) :
    ∀ p ∈ numBoundary .repaired .repaired vc k, NumKw.okInt k p.1 := by
  intro p hp
  exact boundary_ok vc (effMin .repaired k) (effMax .repaired k) k.multipleOf hpos hsat p hp

/-! ### compositional soundness of generators -/

/-- every value a generator emits satisfies `P`, provided every oracle call it made satisfies `C` -/
def Sound (P : GV → Prop) (C : Call → Prop) (g : Gen) : Prop :=
  ∀ st, (∀ c ∈ (g st).calls, C c) → ∀ gv ∈ (g st).out, P gv

theorem sound_nil {P C} : Sound P C Gen.nil := by
  intro st _ gv h; simp [Gen.nil] at h

theorem sound_emit {P C gvs} (h : ∀ gv ∈ gvs, P gv) : Sound P C (Gen.emit gvs) := by
  intro st _ gv hg; exact h gv (by simpa [Gen.emit] using hg)

theorem sound_fail {P C s} : Sound P C (Gen.fail s) := by
  intro st _ gv h; simp [Gen.fail] at h

theorem sound_unsupported {P C} : Sound P C Gen.unsupported := sound_fail

theorem sound_seq {P C a b} (ha : Sound P C a) (hb : Sound P C b) : Sound P C (Gen.seq a b) := by
  intro st hc gv hg
  unfold Gen.seq at hc hg
  simp only at hc hg
  split at hg
  · rename_i hs
    simp only [hs] at hc
    simp only [List.mem_append] at hg hc
    rcases hg with hg | hg
    · exact ha st (fun c h => hc c (Or.inl h)) gv hg
    · exact hb _ (fun c h => hc c (Or.inr h)) gv hg
  · rename_i hs
    have : ∀ c ∈ (a st).calls, C c := by
      intro c h
      apply hc c
      split
      · rename_i h'; exact absurd h' (by intro h''; exact hs h'')
      · exact h
    exact ha st this gv hg

theorem sound_guard {P C a} (ha : Sound P C a) : Sound P C (Gen.guard a) := by
  intro st hc gv hg
  unfold Gen.guard at hc hg
  simp only at hc hg
  split at hg
  · rename_i hs; simp only [hs] at hc; exact ha st hc gv hg
  · rename_i hs
    apply ha st _ gv hg
    intro c h; apply hc c
    split
    · exact h
    · exact h

theorem sound_ask {P C req k} (hk : ∀ j, C ⟨req, .val j⟩ → Sound P C (k j)) : Sound P C (Gen.ask req k) := by
  intro st hc gv hg
  unfold Gen.ask at hc hg
  split at hg
  · simp at hg
  · simp at hg
  · rename_i v rest ho
    simp only [ho] at hc
    simp only at hg hc
    have h1 : C ⟨req, .val v⟩ := hc _ (by simp)
    exact hk v h1 _ (fun c h => hc c (by simp [h])) gv hg

theorem sound_freshSeen {P C a} (ha : Sound P C a) : Sound P C (Gen.freshSeen a) := by
  intro st hc gv hg
  exact ha _ hc gv hg

theorem sound_withSeen {P C k} (hk : ∀ s, Sound P C (k s)) : Sound P C (Gen.withSeen k) := by
  intro st hc gv hg
  exact hk st.seen st hc gv hg

theorem sound_addSeen {P C key} : Sound P C (Gen.addSeen key) := by
  intro st _ gv h; simp [Gen.addSeen] at h

theorem sound_forEach {P C} {α} {xs : List α} {body : α → Gen} (h : ∀ x ∈ xs, Sound P C (body x)) :
    Sound P C (Gen.forEach xs body) := by
  induction xs with
  | nil => exact sound_nil
  | cons x rest ih =>
    unfold Gen.forEach
    exact sound_seq (h x (by simp)) (ih (fun y hy => h y (by simp [hy])))

theorem sound_mapOut {P Q C a f} (ha : Sound Q C a) (hf : ∀ gv, Q gv → P (f gv)) : Sound P C (Gen.mapOut f a) := by
  intro st hc gv hg
  unfold Gen.mapOut at hc hg
  simp only [List.mem_map] at hg
  obtain ⟨g0, h0, rfl⟩ := hg
  exact hf g0 (ha st hc g0 h0)

theorem sound_mono {P Q C a} (ha : Sound Q C a) (h : ∀ gv, Q gv → P gv) : Sound P C a := by
  intro st hc gv hg; exact h gv (ha st hc gv hg)

/-! ### schema-level facts -/

theorem validF_num_plain (fuel : Nat) (env : Env) (kvs : List (String × Json)) (m : Int) (e : Nat)
    (hp : plainKeys kvs) :
    validF (fuel + 1) env (.obj kvs) (.num m e) = (typeOk kvs (.num m e) && numberOk kvs (.num m e)) := by
  obtain ⟨h1, h2, h3, h4, h5, h6, h7, h8⟩ := hp
  simp [validF, h1, Json.isNull, keywordsOk, enumOk, constOk, formatOk, combinatorsOk, stringOk, arrayOk, objectOk,
    h2, h3, h4, h5, h6, h7, h8]

theorem exPart_exempt {e l gv} (hg : gv ∈ exPart e l) : exempt gv.desc = true := by
  unfold exPart at hg
  split at hg
  · split at hg
    · simp only [List.mem_cons, List.mem_nil_iff, or_false] at hg; rw [hg]; rfl
    · simp at hg
  · simp at hg

theorem exsPart_exempt {e l gv} (hg : gv ∈ exsPart e l) : exempt gv.desc = true := by
  unfold exsPart at hg
  simp only [List.mem_map] at hg
  obtain ⟨a, _, rfl⟩ := hg; rfl

theorem dfltPart_exempt {e h x d l gv} (hg : gv ∈ dfltPart e h x d l) : exempt gv.desc = true := by
  unfold dfltPart at hg
  split at hg
  · split at hg
    · simp only [List.mem_cons, List.mem_nil_iff, or_false] at hg; rw [hg]; rfl
    · simp at hg
  · simp at hg

theorem examplePrologue_exempt {kvs locOk gvs gv} (h : examplePrologue kvs locOk = some gvs) (hg : gv ∈ gvs) :
    exempt gv.desc = true := by
  unfold examplePrologue at h
  split at h
  · simp at h
  · simp only [Option.some.injEq] at h
    subst h
    simp only [List.mem_append] at hg
    rcases hg with (hg | hg) | hg
    · exact exPart_exempt hg
    · exact exsPart_exempt hg
    · exact dfltPart_exempt hg


/-! ### `_positive_number` -/

theorem labelOk_of_exempt {fuel env S gv} (h : exempt gv.desc = true) : labelOk fuel env S gv = true := by
  simp [labelOk, h]

/-- `_positive_number` is sound whenever its boundary values are those of the repaired variant -/
theorem positive_number_valid_of (vz vx vc : Variant) (fuel : Nat) (env : Env) (kvs : List (String × Json)) (k : NumKw)
    (hnb : numBoundary vz vx vc k = numBoundary .repaired .repaired vc k)
    (hparse : parseNumKw kvs = some k)
    (htype : Json.lookup "type" kvs = some (.str "integer") ∨ Json.lookup "type" kvs = some (.str "number"))
    (hplain : plainKeys kvs)
    (hpos : ∀ x, k.multipleOf = some x → 0 < x)
    (hsat : vc = .asFound → ∃ n0 : Int, validF (fuel + 1) env (.obj kvs) (.num n0 0) = true) :
    Sound (fun gv => labelOk (fuel + 1) env (.obj kvs) gv = true) (callSound (fuel + 1) env)
      (positiveNumber vz vx vc kvs) := by
  have htyp : ∀ n : Int, typeOk kvs (.num n 0) = true := by
    intro n; rcases htype with h | h <;> simp [typeOk, h, typeNameOk]
  have hv : ∀ n : Int, validF (fuel + 1) env (.obj kvs) (.num n 0) = true ↔ NumKw.okInt k n := by
    intro n
    rw [validF_num_plain fuel env kvs n 0 hplain, htyp n, Bool.true_and, numberOk_int hparse]
  have hsat' : vc = .asFound → ∃ n0, NumKw.okInt k n0 := by
    intro hc; obtain ⟨n0, h⟩ := hsat hc; exact ⟨n0, (hv n0).1 h⟩
  have hb : Sound (fun gv => labelOk (fuel + 1) env (.obj kvs) gv = true) (callSound (fuel + 1) env)
      (Gen.emit ((numBoundary vz vx vc k).map fun (n, d) => GV.pos (.num n 0) d)) := by
    rw [hnb]
    apply sound_emit
    intro gv hg
    simp only [List.mem_map] at hg
    obtain ⟨⟨n, d⟩, hm, rfl⟩ := hg
    have := numBoundary_repaired_ok vc k hpos hsat' (n, d) hm
    simp [labelOk, GV.pos, (hv n).2 this]
  unfold positiveNumber
  simp only [hparse]
  split
  · split
    · exact sound_unsupported
    · rename_i gvs hpro
      apply sound_seq _ hb
      apply sound_emit
      intro gv hg
      exact labelOk_of_exempt (examplePrologue_exempt hpro hg)
  · split
    · apply sound_seq _ hb
      apply sound_ask
      intro j hj
      apply sound_emit
      intro gv hg
      simp only [List.mem_cons, List.mem_nil_iff, or_false] at hg
      subst hg
      simp only [callSound] at hj
      simp [labelOk, GV.pos, hj]
    · exact hb

/-! ### generic soundness of the positive emitters -/

theorem sound_true {C g} : Sound (fun _ => True) C g := by intro _ _ _ _; trivial

theorem sound_post {P Q C a f} (ha : Sound Q C a) (hf : ∀ outs, (∀ g ∈ outs, Q g) → ∀ g' ∈ f outs, P g') :
    Sound P C (Gen.post f a) := by
  intro st hc gv hg
  unfold Gen.post at hc hg
  exact hf _ (fun g h => ha st hc g h) gv hg

theorem sound_scopedTmpl {P C a} (ha : Sound P C a) : Sound P C (Gen.scopedTmpl a) := by
  intro st hc gv hg; exact ha _ hc gv hg

theorem sound_setTmpl {P C t} : Sound P C (Gen.setTmpl t) := by
  intro st _ gv h; simp [Gen.setTmpl] at h

theorem sound_withTmpl {P C k} (hk : ∀ t, Sound P C (k t)) : Sound P C (Gen.withTmpl k) := by
  intro st hc gv hg; exact hk st.tmpl st hc gv hg

theorem sound_ite {P C} {c : Prop} [Decidable c] {a b : Gen} (ha : Sound P C a) (hb : Sound P C b) :
    Sound P C (if c then a else b) := by split <;> assumption

/-- `P` holds of everything built with `GV.pos` -/
def OnPos (P : GV → Prop) : Prop := ∀ v d, P (GV.pos v d)
/-- `P` holds of every value labelled negative -/
def OnNeg (P : GV → Prop) : Prop := ∀ v d loc param, P ⟨v, .negative, d, loc, param⟩

theorem sound_askSchema {P C s d} (h : OnPos P) : Sound P C (askSchema s d) := by
  unfold askSchema
  apply sound_ask; intro j _
  apply sound_emit; intro gv hg
  simp only [List.mem_cons, List.mem_nil_iff, or_false] at hg; subst hg; exact h j d

theorem examplePrologue_pos {P kvs l gvs gv} (hP : OnPos P) (h : examplePrologue kvs l = some gvs) (hg : gv ∈ gvs) : P gv := by
  unfold examplePrologue at h
  split at h
  · simp at h
  · simp only [Option.some.injEq] at h
    subst h
    simp only [List.mem_append] at hg
    rcases hg with (hg | hg) | hg
    · unfold exPart at hg
      split at hg
      · split at hg
        · simp only [List.mem_cons, List.mem_nil_iff, or_false] at hg; rw [hg]; exact hP _ _
        · simp at hg
      · simp at hg
    · unfold exsPart at hg
      simp only [List.mem_map] at hg
      obtain ⟨a, _, rfl⟩ := hg; exact hP _ _
    · unfold dfltPart at hg
      split at hg
      · split at hg
        · simp only [List.mem_cons, List.mem_nil_iff, or_false] at hg; rw [hg]; exact hP _ _
        · simp at hg
      · simp at hg

theorem sound_prologue {P C kvs l} (hP : OnPos P) :
    Sound P C (match examplePrologue kvs l with | none => Gen.unsupported | some gvs => Gen.emit gvs) := by
  split
  · exact sound_unsupported
  · rename_i gvs h
    exact sound_emit fun gv hg => examplePrologue_pos hP h hg

theorem sound_emit_pos1 {P C v d} (hP : OnPos P) : Sound P C (Gen.emit [GV.pos v d]) := by
  apply sound_emit; intro gv hg
  simp only [List.mem_cons, List.mem_nil_iff, or_false] at hg; subst hg; exact hP _ _

/-- discharge `Sound P C g` for generators built from seq / if / match over the basic positive emitters -/
macro "sound_pos" : tactic => `(tactic| repeat (first
  | exact sound_nil | exact sound_unsupported
  | exact sound_askSchema (by assumption) | exact sound_prologue (by assumption) | exact sound_emit_pos1 (by assumption)
  | apply sound_seq | split))

theorem sound_positiveNumber_any {P C vz vx vc kvs} (hP : OnPos P) : Sound P C (positiveNumber vz vx vc kvs) := by
  have hb : ∀ k, Sound P C (Gen.emit ((numBoundary vz vx vc k).map fun (n, d) => GV.pos (.num n 0) d)) := by
    intro k
    apply sound_emit; intro gv hg
    simp only [List.mem_map] at hg
    obtain ⟨⟨n, d⟩, _, rfl⟩ := hg; exact hP _ _
  unfold positiveNumber
  split
  · exact sound_unsupported
  · split
    · split
      · exact sound_unsupported
      · rename_i gvs h
        exact sound_seq (sound_emit fun gv hg => examplePrologue_pos hP h hg) (hb _)
    · split
      · apply sound_seq _ (hb _)
        apply sound_ask; intro j _
        exact sound_emit_pos1 hP
      · exact hb _

theorem sound_positiveString_any {P C vl ctx kvs} (hP : OnPos P) : Sound P C (positiveString vl ctx kvs) := by
  unfold positiveString strLower strUpper
  sound_pos

theorem sound_positiveArray_any {P C kvs template} (hP : OnPos P) : Sound P C (positiveArray kvs template) := by
  unfold positiveArray
  sound_pos

theorem dedupeWrap_pos {P name tkvs} (hP : OnPos P) : ∀ (outs : List GV) (seen : List SeenKey),
    ∀ g ∈ dedupeWrap name tkvs seen outs, P g := by
  intro outs
  induction outs with
  | nil => intro seen g hg; simp [dedupeWrap] at hg
  | cons x rest ih =>
    intro seen g hg
    unfold dedupeWrap at hg
    split at hg
    · exact ih _ g hg
    · simp only [List.mem_cons] at hg
      rcases hg with hg | hg
      · subst hg; exact hP _ _
      · exact ih _ g hg

theorem sound_positiveObject_any {P C vm rec kvs template} (hP : OnPos P) : Sound P C (positiveObject vm rec kvs template) := by
  unfold positiveObject
  split
  · exact sound_unsupported
  · split
    · apply sound_seq
      · split
        · exact sound_prologue hP
        · apply sound_emit; intro gv hg
          simp only [List.mem_cons, List.mem_nil_iff, or_false] at hg; subst hg; exact hP _ _
      · apply sound_seq
        · apply sound_emit; intro gv hg
          simp only [List.mem_append, List.mem_filterMap] at hg
          rcases hg with (⟨name, _, hn⟩ | ⟨sel, _, hn⟩) | hg
          · split at hn
            · simp only [Option.some.injEq] at hn; subst hn; exact hP _ _
            · simp at hn
          · split at hn
            · simp only [Option.some.injEq] at hn; subst hn; exact hP _ _
            · simp at hn
          · split at hg
            · simp at hg
            · split at hg
              · simp only [List.mem_cons, List.mem_nil_iff, or_false] at hg; subst hg; exact hP _ _
              · simp at hg
        · apply sound_forEach
          intro ⟨name, sub⟩ _
          exact sound_post (Q := fun _ => True) sound_true (fun outs _ g' hg' => dedupeWrap_pos hP outs _ g' hg')
    · exact sound_unsupported

/-! ### generic soundness of the negative arms -/

theorem sound_emit_neg1 {P C v d path param} (hN : OnNeg P) : Sound P C (Gen.emit [GV.neg v d path param]) := by
  apply sound_emit; intro gv hg
  simp only [List.mem_cons, List.mem_nil_iff, or_false] at hg; subst hg; exact hN _ _ _ _

theorem sound_emit_neg1' {P C v d loc param} (hN : OnNeg P) : Sound P C (Gen.emit [⟨v, .negative, d, loc, param⟩]) := by
  apply sound_emit; intro gv hg
  simp only [List.mem_cons, List.mem_nil_iff, or_false] at hg; subst hg; exact hN _ _ _ _

theorem sound_needTemplate_any {P C vt kvs k} (hk : ∀ t, Sound P C (k t)) : Sound P C (needTemplate vt kvs k) := by
  unfold needTemplate
  apply sound_withTmpl; intro t
  split
  · exact hk _
  · split
    · exact sound_unsupported
    · apply sound_ask; intro j _
      exact sound_seq sound_setTmpl (hk j)

macro "sound_neg" : tactic => `(tactic| repeat (first
  | exact sound_nil | exact sound_unsupported | exact sound_addSeen | exact sound_setTmpl
  | exact sound_emit_neg1 (by assumption) | exact sound_emit_neg1' (by assumption)
  | with_reducible apply sound_seq | with_reducible apply sound_guard
  | (with_reducible apply sound_ask; intro _ _) | (with_reducible apply sound_withSeen; intro _)
  | (with_reducible apply sound_withTmpl; intro _)
  | (with_reducible apply sound_needTemplate_any; intro _)
  | split))

theorem sound_negEnum_any {P C ctx value b} (hN : OnNeg P) : Sound P C (negEnum ctx value b) := by
  unfold negEnum; sound_neg

theorem sound_emitUnseen_any {P C v d ctx} (hN : OnNeg P) : Sound P C (emitUnseen v d ctx) := by
  unfold emitUnseen; sound_neg

theorem sound_negType_any {P C ctx value} (hN : OnNeg P) : Sound P C (negType ctx value) := by
  unfold negType
  split
  · exact sound_unsupported
  · apply sound_forEach; intro tag _
    sound_neg

theorem sound_negProperties_any {P C rec ctx template value} (hN : OnNeg P) : Sound P C (negProperties rec ctx template value) := by
  unfold negProperties
  split
  · apply sound_forEach; intro ⟨key, sub⟩ _
    exact sound_mapOut (Q := fun _ => True) (sound_freshSeen sound_true) (fun g _ => hN _ _ _ _)
  · exact sound_unsupported

theorem sound_negItems_any {P C rec ctx value} (hN : OnNeg P) : Sound P C (negItems rec ctx value) := by
  unfold negItems
  exact sound_mapOut (Q := fun _ => True) (sound_freshSeen sound_true) (fun g _ => hN _ _ _ _)

theorem sound_negRequired_any {P C ctx template value} (hN : OnNeg P) : Sound P C (negRequired ctx template value) := by
  unfold negRequired
  split
  · split
    · apply sound_emit; intro gv hg
      simp only [List.mem_map] at hg
      obtain ⟨key, _, rfl⟩ := hg; exact hN _ _ _ _
    · exact sound_unsupported
  · exact sound_unsupported

theorem sound_negLength_any {P C ctx kvs n d} (hN : OnNeg P) : Sound P C (negLength ctx kvs n d) := by
  unfold negLength
  split
  · exact sound_unsupported
  · apply sound_guard; apply sound_ask; intro j _; exact sound_emitUnseen_any hN

/-- every value of a negative arm is labelled negative (more generally: satisfies any `P` that holds of all
    negative-labelled values), provided the recursive calls — all made with a negative-only context — do -/
theorem sound_negArm_any {P C rec vx va vt ctx kvs types key value} (hN : OnNeg P)
    (hrec : ∀ c s, c.pos = false → Sound P C (rec c s)) :
    Sound P C (negArm rec vx va vt ctx kvs types key value) := by
  unfold negArm
  cases armOf key <;> simp only [negArmTag]
  case enum => exact sound_negEnum_any hN
  case const => exact sound_negEnum_any hN
  case type => exact sound_negType_any hN
  case properties => exact sound_needTemplate_any fun t => sound_negProperties_any hN
  case patternProperties => exact sound_unsupported
  case items =>
    split
    · exact sound_negItems_any hN
    · exact sound_nil
  case pattern => sound_neg
  case format => sound_neg
  case maximum => sound_neg
  case minimum => sound_neg
  case exclusiveMaximum => sound_neg
  case exclusiveMinimum => sound_neg
  case multipleOf => apply sound_ask; intro j _; exact sound_emitUnseen_any hN
  case minLength =>
    split
    · split
      · exact sound_negLength_any hN
      · exact sound_nil
    · exact sound_unsupported
  case maxLength =>
    split
    · split
      · exact sound_unsupported
      · split
        · exact sound_negLength_any hN
        · exact sound_nil
    · exact sound_unsupported
  case uniqueItems => sound_neg
  case required => exact sound_needTemplate_any fun t => sound_negRequired_any hN
  case additionalProperties => sound_neg
  case allOf =>
    split
    · exact hrec _ _ rfl
    · exact sound_unsupported
  case anyOf =>
    split
    · apply sound_forEach; intro ⟨sub, i⟩ _
      exact hrec _ _ rfl
    · exact sound_unsupported
  case other => exact sound_nil

/-! ### generic soundness of cover_schema_iter; the mode theorems -/

theorem sound_positiveBlock_any {P C rec vs ctx kvs ty template} (hP : OnPos P)
    (hrec : ∀ c s, c.neg = false → Sound P C (rec c s)) : Sound P C (positiveBlock rec vs ctx kvs ty template) := by
  unfold positiveBlock
  split
  · apply sound_seq
    · apply sound_forEach; intro sub _
      exact sound_freshSeen (hrec _ _ rfl)
    · apply sound_seq
      · split
        · exact sound_nil
        · exact sound_freshSeen (hrec _ _ rfl)
        · exact sound_unsupported
      · split
        · apply sound_emit; intro gv hg
          simp only [List.mem_map] at hg
          obtain ⟨x, _, rfl⟩ := hg; exact hP _ _
        · exact sound_unsupported
        · split
          · exact sound_emit_pos1 hP
          · split
            · exact sound_nil
            · split
              · exact sound_emit_pos1 hP
              · split
                · apply sound_emit; intro gv hg
                  simp only [List.mem_cons, List.mem_nil_iff, or_false] at hg
                  rcases hg with rfl | rfl <;> exact hP _ _
                · split
                  · exact sound_positiveString_any hP
                  · split
                    · exact sound_positiveNumber_any hP
                    · split
                      · exact sound_positiveArray_any hP
                      · split
                        · exact sound_positiveObject_any hP
                        · exact sound_nil
  · exact sound_unsupported

theorem sound_positiveForType_any {P C rec vs ctx kvs ty}
    (hP : ctx.pos = true → OnPos P ∧ ∀ c s, c.neg = false → Sound P C (rec c s)) :
    Sound P C (positiveForType rec vs ctx kvs ty) := by
  unfold positiveForType
  split
  · split
    · exact sound_unsupported
    · apply sound_ask; intro template _
      split
      · rename_i hp
        exact sound_positiveBlock_any (hP hp).1 (hP hp).2
      · exact sound_nil
  · split
    · rename_i hp
      exact sound_positiveBlock_any (hP hp).1 (hP hp).2
    · exact sound_nil

theorem sound_coverCore_any {P C rec vs ctx kvs types}
    (hP : ctx.pos = true → OnPos P ∧ ∀ c s, c.neg = false → Sound P C (rec c s))
    (hN : ctx.neg = true → OnNeg P ∧ ∀ c s, c.pos = false → Sound P C (rec c s)) :
    Sound P C (coverCore rec vs ctx kvs types) := by
  unfold coverCore
  apply sound_seq
  · split
    · exact sound_guard (sound_positiveForType_any hP)
    · exact sound_nil
  · apply sound_seq
    · apply sound_forEach; intro ty _
      exact sound_guard (sound_positiveForType_any hP)
    · split
      · rename_i hn
        apply sound_scopedTmpl
        apply sound_forEach; intro ⟨key, value⟩ _
        exact sound_guard (sound_negArm_any (hN hn).1 (hN hn).2)
      · exact sound_nil

theorem sound_coverBody_any {P C rec vs ctx schema}
    (hP : ctx.pos = true → OnPos P ∧ ∀ c s, c.neg = false → Sound P C (rec c s))
    (hN : ctx.neg = true → OnNeg P ∧ ∀ c s, c.pos = false → Sound P C (rec c s)) :
    Sound P C (coverBody rec vs ctx schema) := by
  unfold coverBody
  split
  · split
    · exact sound_nil
    · exact sound_coverCore_any hP hN
  · split
    · exact sound_unsupported
    · split
      · exact sound_unsupported
      · exact sound_coverCore_any hP hN
  · exact sound_unsupported

/-- a positive-only context yields only values labelled positive (all schemas, all oracles, whole recursion) -/
theorem cover_positive_only_aux : ∀ (fuel : Nat) (vs : Vs) (ctx : Ctx) (schema : Json), ctx.neg = false →
    Sound (fun gv => gv.mode = Mode.positive) (fun _ => True) (cover fuel vs ctx schema) := by
  intro fuel
  induction fuel with
  | zero => intro vs ctx schema _; exact sound_unsupported
  | succ n ih =>
    intro vs ctx schema hneg
    unfold cover
    apply sound_coverBody_any
    · intro _
      exact ⟨fun v d => rfl, fun c s hc => ih vs c s hc⟩
    · intro hn; rw [hneg] at hn; cases hn

theorem cover_negative_only_aux : ∀ (fuel : Nat) (vs : Vs) (ctx : Ctx) (schema : Json), ctx.pos = false →
    Sound (fun gv => gv.mode = Mode.negative) (fun _ => True) (cover fuel vs ctx schema) := by
  intro fuel
  induction fuel with
  | zero => intro vs ctx schema _; exact sound_unsupported
  | succ n ih =>
    intro vs ctx schema hpos
    unfold cover
    apply sound_coverBody_any
    · intro hp; rw [hpos] at hp; cases hp
    · intro _
      exact ⟨fun v d loc param => rfl, fun c s hc => ih vs c s hc⟩

/-! ### the negative numeric arms -/

/-- a schema object without `$ref` rejects a non-null value as soon as one keyword family does -/
theorem validF_false_of_number {fuel env kvs m e} (href : Json.lookup "$ref" kvs = none)
    (h : numberOk kvs (.num m e) = false) : validF (fuel + 1) env (.obj kvs) (.num m e) = false := by
  simp [validF, href, Json.isNull, keywordsOk, h]

theorem validF_false_of_type {fuel env kvs v} (href : Json.lookup "$ref" kvs = none) (hnull : env.oas = Oas.none)
    (h : typeOk kvs v = false) : validF (fuel + 1) env (.obj kvs) v = false := by
  have : isNullable env kvs = false := by simp [isNullable, hnull]
  simp [validF, href, this, keywordsOk, h]

theorem numLt_irrefl (m : Int) (e : Nat) : numLt m e m e = false := by simp [numLt]

/-- `maximum + 1` violates `maximum` (whatever else the schema says) -/
theorem neg_maximum_rejected {fuel env kvs} {n : Int} (href : Json.lookup "$ref" kvs = none)
    (h : Json.lookup "maximum" kvs = some (.num n 0)) :
    validF (fuel + 1) env (.obj kvs) (.num (n + 1) 0) = false ∧ maximumOk kvs (n + 1) 0 = false := by
  have hm : maximumOk kvs (n + 1) 0 = false := by
    unfold maximumOk
    simp only [h]
    have h1 : numLe (n + 1) 0 n 0 = false := by simp [numLe, pow10]; omega
    have h2 : numLt (n + 1) 0 n 0 = false := by simp [numLt, pow10]; omega
    split <;> simp [h1, h2]
  exact ⟨validF_false_of_number href (by simp [numberOk, hm]), hm⟩

theorem neg_minimum_rejected {fuel env kvs} {n : Int} (href : Json.lookup "$ref" kvs = none)
    (h : Json.lookup "minimum" kvs = some (.num n 0)) :
    validF (fuel + 1) env (.obj kvs) (.num (n - 1) 0) = false ∧ minimumOk kvs (n - 1) 0 = false := by
  have hm : minimumOk kvs (n - 1) 0 = false := by
    unfold minimumOk
    simp only [h]
    have h1 : numLe n 0 (n - 1) 0 = false := by simp [numLe, pow10]; omega
    have h2 : numLt n 0 (n - 1) 0 = false := by simp [numLt, pow10]; omega
    split <;> simp [h1, h2]
  exact ⟨validF_false_of_number href (by simp [numberOk, hm]), hm⟩

/-- the numeric form of an exclusive bound is itself outside the range -/
theorem neg_exclusiveMaximum_rejected {fuel env kvs} {m : Int} {e : Nat} (href : Json.lookup "$ref" kvs = none)
    (h : Json.lookup "exclusiveMaximum" kvs = some (.num m e)) :
    validF (fuel + 1) env (.obj kvs) (.num m e) = false ∧ maximumOk kvs m e = false := by
  have hm : maximumOk kvs m e = false := by
    unfold maximumOk
    simp [h, numLt_irrefl]
  exact ⟨validF_false_of_number href (by simp [numberOk, hm]), hm⟩

theorem neg_exclusiveMinimum_rejected {fuel env kvs} {m : Int} {e : Nat} (href : Json.lookup "$ref" kvs = none)
    (h : Json.lookup "exclusiveMinimum" kvs = some (.num m e)) :
    validF (fuel + 1) env (.obj kvs) (.num m e) = false ∧ minimumOk kvs m e = false := by
  have hm : minimumOk kvs m e = false := by
    unfold minimumOk
    simp [h, numLt_irrefl]
  exact ⟨validF_false_of_number href (by simp [numberOk, hm]), hm⟩

/-! ### the `type` arm -/

theorem strList_any {ts : List Json} {types : List String} (h : strList? ts = some types) (f : String → Bool) :
    (ts.any fun t => match t with | .str t => f t | _ => false) = types.any f := by
  induction ts generalizing types with
  | nil => simp [strList?] at h; subst h; rfl
  | cons x rest ih =>
    cases x <;> simp [strList?] at h
    rename_i s
    cases hr : strList? rest with
    | none => simp [hr] at h
    | some r =>
      simp [hr] at h; subst h
      simp [List.any_cons, ih hr]

theorem typeOk_of_types {kvs value types v} (ht : typeList? value = some types)
    (hl : Json.lookup "type" kvs = some value) : typeOk kvs v = types.any (typeNameOk · v) := by
  unfold typeOk
  rw [hl]
  cases value <;> simp [typeList?] at ht
  · rename_i s; subst ht; simp
  · rename_i ts; simp only; exact strList_any ht _

/-- a value of the JSON type named by a tag `_negative_type` draws from is rejected by `type` -/
theorem negType_typeOk_false {types tags : List String} {tag : String} {v : Json}
    (hg : negTypeTags types = some tags) (hm : tag ∈ tags) (hv : tagOk tag v = true) :
    types.any (typeNameOk · v) = false := by
  unfold negTypeTags at hg
  split at hg
  · simp at hg
  · rename_i hboth
    simp only [Option.some.injEq] at hg
    subst hg
    simp only [List.mem_map, List.mem_filter] at hm
    obtain ⟨t, ⟨ht, hc⟩, rfl⟩ := hm
    simp only [Bool.and_eq_true, Bool.not_eq_true', Bool.and_eq_false_imp, beq_iff_eq] at hc
    rw [List.any_eq_false]
    intro t' ht' habs
    have hin : ∀ s, types.contains s = false → t' ≠ s := by
      intro s hs e; subst e
      have : types.contains t' = true := by simpa using ht'
      rw [hs] at this; cases this
    simp only [typeOrder, List.mem_cons, List.mem_nil_iff, or_false] at ht
    rcases ht with rfl | rfl | rfl | rfl | rfl | rfl | rfl
    all_goals (cases v <;> simp [tagOk, typeNameOk] at hv habs hc ⊢)
    all_goals (first | done | grind)

/-! ### the `multipleOf` arm -/

theorem isNullable_none {env : Env} (h : env.oas = Oas.none) (kvs) : isNullable env kvs = false := by
  simp [isNullable, h]

theorem validF_allOf2 {f env s1 s2 v} (hoas : env.oas = Oas.none) :
    validF (f + 1) env (.obj [("allOf", .arr [s1, s2])]) v = (validF f env s1 v && validF f env s2 v) := by
  cases v <;>
  simp [validF, Json.lookup, isNullable_none hoas, keywordsOk, typeOk, enumOk, constOk, numberOk, minimumOk, maximumOk,
    multipleOfOk, stringOk, formatOk, arrayOk, objectOk, combinatorsOk, lenBoundsOk, natKw, propsOf, patternPropsOf,
    requiredOf]

theorem validF_not {f env s v} (hoas : env.oas = Oas.none) :
    validF (f + 1) env (.obj [("not", s)]) v = !(validF f env s v) := by
  cases v <;>
  simp [validF, Json.lookup, isNullable_none hoas, keywordsOk, typeOk, enumOk, constOk, numberOk, minimumOk, maximumOk,
    multipleOfOk, stringOk, formatOk, arrayOk, objectOk, combinatorsOk, lenBoundsOk, natKw, propsOf, patternPropsOf,
    requiredOf]

theorem validF_only_multipleOf {f env x v} (hoas : env.oas = Oas.none) :
    validF (f + 1) env (.obj [("multipleOf", x)]) v = numberOk [("multipleOf", x)] v := by
  cases v <;>
  simp [validF, Json.lookup, isNullable_none hoas, keywordsOk, typeOk, enumOk, constOk, numberOk, minimumOk, maximumOk,
    multipleOfOk, stringOk, formatOk, arrayOk, objectOk, combinatorsOk, lenBoundsOk, natKw, propsOf, patternPropsOf,
    requiredOf]

/-- an answer to `generate_from_schema(_with_negated_key(schema, "multipleOf", x))` is rejected by the schema itself -/
theorem neg_multipleOf_rejected {fuel fuel' env kvs x v} (hoas : env.oas = Oas.none)
    (href : Json.lookup "$ref" kvs = none) (hx : Json.lookup "multipleOf" kvs = some x)
    (h : validF (fuel + 3) env (withNegatedKey kvs "multipleOf" x) v = true) :
    validF (fuel' + 1) env (.obj kvs) v = false := by
  unfold withNegatedKey at h
  rw [validF_allOf2 hoas, Bool.and_eq_true, validF_not hoas, validF_only_multipleOf hoas] at h
  have h2 := h.2
  cases v with
  | num m e =>
    apply validF_false_of_number href
    simp only [Bool.not_eq_true', numberOk, minimumOk, maximumOk, multipleOfOk, Json.lookup] at h2
    simp only [numberOk, multipleOfOk, hx]
    cases x <;> simp_all
  | _ => simp [numberOk] at h2

/-! ### plain numeric schemas, arm by arm -/

theorem sound_mono_calls {P C C' g} (h : ∀ c, C' c → C c) (hg : Sound P C g) : Sound P C' g := by
  intro st hc gv hgv; exact hg st (fun c hm => h c (hc c hm)) gv hgv

theorem oracleOk_callSound {fuel env c} (h : oracleOk fuel env c) : callSound fuel env c := by
  unfold oracleOk at h; unfold callSound
  split <;> simp_all

theorem labelOk_neg {fuel env S v d loc param} (h : validF fuel env S v = false) :
    labelOk fuel env S ⟨v, .negative, d, loc, param⟩ = true := by
  simp [labelOk, h]

abbrev NumP (fuel : Nat) (env : Env) (kvs : List (String × Json)) : GV → Prop :=
  fun gv => labelOk (fuel + 3) env (.obj kvs) gv = true

/-- the `type` arm on a plain numeric schema -/
theorem sound_negType_numeric {fuel env kvs ctx t} (hoas : env.oas = Oas.none)
    (href : Json.lookup "$ref" kvs = none) (ht : Json.lookup "type" kvs = some (.str t)) :
    Sound (NumP fuel env kvs) (oracleOk (fuel + 3) env) (negType ctx (.str t)) := by
  unfold negType
  cases hg : (typeList? (.str t)).bind negTypeTags with
  | none => exact sound_unsupported
  | some tags =>
    have hg' : negTypeTags [t] = some tags := by simpa [typeList?] using hg
    apply sound_forEach; intro tag htag
    apply sound_ask; intro v hv
    apply sound_withSeen; intro seen
    split
    · exact sound_nil
    · refine sound_seq ?_ sound_addSeen
      apply sound_emit; intro gv hgv
      simp only [List.mem_cons, List.mem_nil_iff, or_false] at hgv; subst hgv
      apply labelOk_neg
      apply validF_false_of_type href hoas
      rw [typeOk_of_types (types := [t]) (by simp [typeList?]) ht]
      exact negType_typeOk_false hg' htag (by simpa [oracleOk] using hv)

theorem lookup_num_of_intKw {kvs key value o} (hl : Json.lookup key kvs = some value) (hk : intKw? kvs key = some o) :
    value = .null ∨ ∃ m, value = .num m 0 := by
  cases o with
  | none => rcases intKw_none hk with h | h <;> rw [hl] at h <;> simp at h; left; exact h
  | some m => have := intKw_some hk; rw [hl] at this; right; exact ⟨m, by simpa using this⟩

theorem lookup_of_exKw {kvs key value o} (hl : Json.lookup key kvs = some value) (hk : exKw? kvs key = some o) :
    value = .null ∨ (∃ b, value = .bool b) ∨ ∃ m, value = .num m 0 := by
  cases o with
  | none => rcases exKw_none hk with h | h <;> rw [hl] at h <;> simp at h; left; exact h
  | some e =>
    cases e with
    | flag b => have := exKw_flag hk; rw [hl] at this; right; left; exact ⟨b, by simpa using this⟩
    | num m => have := exKw_num hk; rw [hl] at this; right; right; exact ⟨m, by simpa using this⟩

/-- every negative arm of a plain numeric schema labels its values correctly (repaired exclusive-bound site) -/
theorem sound_negArm_numeric {fuel env kvs k rec va vt ctx types key value} (hoas : env.oas = Oas.none)
    (hp : PlainNumeric kvs) (hparse : parseNumKw kvs = some k) (hmem : (key, value) ∈ kvs) :
    Sound (NumP fuel env kvs) (oracleOk (fuel + 3) env) (negArm rec .repaired va vt ctx kvs types key value) := by
  have href : Json.lookup "$ref" kvs = none := hp.plain.1
  have hl := hp.noShadow key value hmem
  obtain ⟨f1, f2, f3, f4, f5, _⟩ := parse_fields hparse
  unfold negArm
  rcases hp.keys key value hmem with rfl | rfl | rfl | rfl | rfl | rfl | hother
  · -- type
    obtain ⟨t, ht, _⟩ := hp.typed
    rw [hl] at ht; cases ht
    show Sound _ _ (negType ctx (.str t))
    exact sound_negType_numeric hoas href hl
  · -- maximum
    show Sound _ _ (negArmTag rec .repaired va vt ctx kvs types .maximum value)
    simp only [negArmTag]
    rcases lookup_num_of_intKw hl f2 with rfl | ⟨m, rfl⟩
    · simp only [pyInt?]; exact sound_unsupported
    · simp only [pyInt?]
      apply sound_withSeen; intro seen
      split
      · exact sound_nil
      · refine sound_seq ?_ sound_addSeen
        apply sound_emit; intro gv hgv
        simp only [List.mem_cons, List.mem_nil_iff, or_false] at hgv; subst hgv
        exact labelOk_neg (neg_maximum_rejected href hl).1
  · -- minimum
    show Sound _ _ (negArmTag rec .repaired va vt ctx kvs types .minimum value)
    simp only [negArmTag]
    rcases lookup_num_of_intKw hl f1 with rfl | ⟨m, rfl⟩
    · simp only [pyInt?]; exact sound_unsupported
    · simp only [pyInt?]
      apply sound_withSeen; intro seen
      split
      · exact sound_nil
      · refine sound_seq ?_ sound_addSeen
        apply sound_emit; intro gv hgv
        simp only [List.mem_cons, List.mem_nil_iff, or_false] at hgv; subst hgv
        exact labelOk_neg (neg_minimum_rejected href hl).1
  · -- exclusiveMaximum
    show Sound _ _ (negArmTag rec .repaired va vt ctx kvs types .exclusiveMaximum value)
    simp only [negArmTag]
    rcases lookup_of_exKw hl f4 with rfl | ⟨b, rfl⟩ | ⟨m, rfl⟩
    · exact sound_unsupported
    · exact sound_nil
    · apply sound_withSeen; intro seen
      split
      · exact sound_nil
      · refine sound_seq ?_ sound_addSeen
        apply sound_emit; intro gv hgv
        simp only [List.mem_cons, List.mem_nil_iff, or_false] at hgv; subst hgv
        exact labelOk_neg (neg_exclusiveMaximum_rejected href hl).1
  · -- exclusiveMinimum
    show Sound _ _ (negArmTag rec .repaired va vt ctx kvs types .exclusiveMinimum value)
    simp only [negArmTag]
    rcases lookup_of_exKw hl f3 with rfl | ⟨b, rfl⟩ | ⟨m, rfl⟩
    · exact sound_unsupported
    · exact sound_nil
    · apply sound_withSeen; intro seen
      split
      · exact sound_nil
      · refine sound_seq ?_ sound_addSeen
        apply sound_emit; intro gv hgv
        simp only [List.mem_cons, List.mem_nil_iff, or_false] at hgv; subst hgv
        exact labelOk_neg (neg_exclusiveMinimum_rejected href hl).1
  · -- multipleOf
    show Sound _ _ (negArmTag rec .repaired va vt ctx kvs types .multipleOf value)
    simp only [negArmTag]
    apply sound_ask; intro v hv
    unfold emitUnseen
    apply sound_withSeen; intro seen
    split
    · exact sound_nil
    · refine sound_seq ?_ sound_addSeen
      apply sound_emit; intro gv hgv
      simp only [List.mem_cons, List.mem_nil_iff, or_false] at hgv; subst hgv
      exact labelOk_neg (neg_multipleOf_rejected hoas href hl (by simpa [oracleOk] using hv))
  · rw [hother]; simp only [negArmTag]; exact sound_nil

/-! ### plain numeric schemas, end to end -/

theorem getK_none_of_lookup {kvs k} (h : Json.lookup k kvs = none) : getK kvs k = none := by
  simp [getK, h]

/-- the positive block of a plain numeric schema is `_positive_number` -/
theorem sound_positiveBlock_numeric {fuel env kvs k rec ctx t template} {vs : Vs}
    (hz : vs.zero = .repaired) (hx : vs.excl = .repaired) (hc : vs.cross = .repaired) (hp : PlainNumeric kvs)
    (ht : Json.lookup "type" kvs = some (.str t)) (htt : t = "integer" ∨ t = "number")
    (hparse : parseNumKw kvs = some k) (hpos : ∀ x, k.multipleOf = some x → 0 < x) :
    Sound (NumP fuel env kvs) (oracleOk (fuel + 3) env) (positiveBlock rec vs ctx kvs (some t) template) := by
  obtain ⟨h1, h2, h3, h4, h5, h6, h7, h8⟩ := hp.plain
  unfold positiveBlock
  simp only [subSchemas?, getK_none_of_lookup h5, getK_none_of_lookup h6, getK_none_of_lookup h7, h2, h3, hz, hx, hc]
  apply sound_seq
  · exact sound_nil
  · apply sound_seq
    · exact sound_nil
    · have hnum : Sound (NumP fuel env kvs) (oracleOk (fuel + 3) env) (positiveNumber .repaired .repaired .repaired kvs) :=
        sound_mono_calls (fun c h => oracleOk_callSound h)
          (positive_number_valid_of .repaired .repaired .repaired (fuel + 2) env kvs k rfl hparse
            (by rcases htt with rfl | rfl; exact Or.inl ht; exact Or.inr ht) hp.plain hpos (by intro h; cases h))
      rcases htt with rfl | rfl <;> simpa using hnum

/-- C03 for the numeric keyword family, end to end: any variant vector whose three `_positive_number` sites are repaired
    (the other sites are not reached from a plain numeric schema) -/
theorem cover_numeric_sound (fuel n : Nat) (env : Env) (hoas : env.oas = Oas.none) (ctx : Ctx) (vs : Vs)
    (hz : vs.zero = .repaired) (hx : vs.excl = .repaired) (hc : vs.cross = .repaired)
    (kvs : List (String × Json)) (k : NumKw) (hp : PlainNumeric kvs)
    (hparse : parseNumKw kvs = some k) (hpos : ∀ x, k.multipleOf = some x → 0 < x) :
    Sound (NumP fuel env kvs) (oracleOk (fuel + 3) env) (coverTop (n + 1) vs ctx (.obj kvs)) := by
  obtain ⟨t, ht, htt⟩ := hp.typed
  unfold coverTop
  apply sound_freshSeen
  unfold cover coverBody
  simp only
  split
  · exact sound_unsupported
  · have hty : typesOf? kvs = some [t] := by simp [typesOf?, ht, typeList?]
    simp only [hty]
    unfold coverCore
    have hpft : Sound (NumP fuel env kvs) (oracleOk (fuel + 3) env)
        (positiveForType (cover n vs) vs ctx kvs (some t)) := by
      unfold positiveForType
      have hne : (some t == some "object" || some t == some "array") = false := by
        rcases htt with rfl | rfl <;> decide
      simp only [hne, Bool.false_eq_true, if_false]
      split
      · exact sound_positiveBlock_numeric hz hx hc hp ht htt hparse hpos
      · exact sound_nil
    apply sound_seq
    · simp only [List.isEmpty_cons, Bool.false_eq_true, if_false]; exact sound_nil
    · apply sound_seq
      · apply sound_forEach; intro ty hty'
        simp only [List.mem_cons, List.mem_nil_iff, or_false] at hty'; subst hty'
        exact sound_guard hpft
      · split
        · apply sound_scopedTmpl
          apply sound_forEach; intro ⟨key, value⟩ hm
          rw [hx]
          exact sound_guard (sound_negArm_numeric hoas hp hparse hm)
        · exact sound_nil

/-! ### derived length schemas (`{**schema, "minLength": a, "maxLength": b}`) -/

theorem lookup_setKey_eq (k : String) (v : Json) (kvs : List (String × Json)) :
    Json.lookup k (setKey k v kvs) = some v := by
  induction kvs with
  | nil => simp [setKey, Json.lookup]
  | cons p rest ih =>
    obtain ⟨a, b⟩ := p
    simp only [setKey]
    by_cases h : a = k
    · subst h; simp [Json.lookup]
    · have h1 : (a == k) = false := by simpa using h
      have h2 : (k == a) = false := by simpa using (fun e : k = a => h e.symm)
      simp [h1, Json.lookup, h2, ih]

theorem lookup_setKey_ne (k k' : String) (v : Json) (kvs : List (String × Json)) (h : k' ≠ k) :
    Json.lookup k' (setKey k v kvs) = Json.lookup k' kvs := by
  have hk : (k' == k) = false := by simpa using h
  induction kvs with
  | nil => simp [setKey, Json.lookup, hk]
  | cons p rest ih =>
    obtain ⟨a, b⟩ := p
    simp only [setKey]
    by_cases ha : a = k
    · subst ha; simp [Json.lookup, hk]
    · have h1 : (a == k) = false := by simpa using ha
      simp only [h1, Bool.false_eq_true, if_false, Json.lookup]
      by_cases hka : (k' == a) = true
      · simp [hka]
      · simp [hka, ih]

/-- the two schemas agree on every keyword except the listed ones -/
def SameExcept (keys : List String) (kvs kvs' : List (String × Json)) : Prop :=
  ∀ k, k ∉ keys → Json.lookup k kvs' = Json.lookup k kvs

theorem sameExcept_setKey {keys kvs kvs' k v} (h : SameExcept keys kvs kvs') (hk : k ∈ keys) :
    SameExcept keys kvs (setKey k v kvs') := by
  intro k' hk'
  have : k' ≠ k := by intro e; subst e; exact hk' hk
  rw [lookup_setKey_ne k k' v kvs' this]; exact h k' hk'

theorem sameExcept_refl (keys kvs) : SameExcept keys kvs kvs := fun _ _ => rfl

/-- a value valid for a schema that differs only in its length keywords is valid for the schema itself as soon as
    it meets the schema's own length bounds -/
theorem validF_of_lengths {fuel env kvs kvs' v} (hoas : env.oas = Oas.none)
    (hs : SameExcept ["minLength", "maxLength"] kvs kvs')
    (hv : validF (fuel + 1) env (.obj kvs') v = true)
    (hlen : ∀ s, v = .str s → lenBoundsOk kvs "minLength" "maxLength" s.length = true) :
    validF (fuel + 1) env (.obj kvs) v = true := by
  have L : ∀ k, k ∉ ["minLength", "maxLength"] → Json.lookup k kvs' = Json.lookup k kvs := hs
  have e1 := L "$ref" (by decide)
  have e2 := L "type" (by decide)
  have e3 := L "enum" (by decide)
  have e4 := L "const" (by decide)
  have e5 := L "minimum" (by decide)
  have e6 := L "maximum" (by decide)
  have e7 := L "exclusiveMinimum" (by decide)
  have e8 := L "exclusiveMaximum" (by decide)
  have e9 := L "multipleOf" (by decide)
  have e10 := L "pattern" (by decide)
  have e11 := L "format" (by decide)
  have e12 := L "uniqueItems" (by decide)
  have e13 := L "items" (by decide)
  have e14 := L "minItems" (by decide)
  have e15 := L "maxItems" (by decide)
  have e16 := L "properties" (by decide)
  have e17 := L "patternProperties" (by decide)
  have e18 := L "required" (by decide)
  have e19 := L "minProperties" (by decide)
  have e20 := L "maxProperties" (by decide)
  have e21 := L "additionalProperties" (by decide)
  have e22 := L "allOf" (by decide)
  have e23 := L "anyOf" (by decide)
  have e24 := L "oneOf" (by decide)
  have e25 := L "not" (by decide)
  simp only [validF, isNullable_none hoas, e1] at hv ⊢
  have key : keywordsOk env (validF fuel env) kvs' v = true → keywordsOk env (validF fuel env) kvs v = true := by
    intro hk
    simp only [keywordsOk, typeOk, enumOk, constOk, numberOk, minimumOk, maximumOk, multipleOfOk, formatOk, arrayOk, objectOk,
      combinatorsOk, lenBoundsOk, natKw, propsOf, patternPropsOf, requiredOf, stringOk,
      e2, e3, e4, e5, e6, e7, e8, e9, e10, e11, e12, e13, e14, e15, e16, e17, e18, e19, e20, e21, e22, e23, e24, e25,
      Bool.and_eq_true] at hk ⊢
    obtain ⟨⟨⟨⟨⟨⟨⟨⟨h1, h2⟩, h3⟩, h4⟩, h5⟩, h6⟩, h7⟩, h8⟩, h9⟩ := hk
    refine ⟨⟨⟨⟨⟨⟨⟨⟨h1, h2⟩, h3⟩, h4⟩, ?_⟩, h6⟩, h7⟩, h8⟩, h9⟩
    cases v with
    | str s =>
      have := hlen s rfl
      simp only [lenBoundsOk, natKw, Bool.and_eq_true] at this
      simp only at h5 ⊢
      simp only [Bool.and_eq_true] at h5 ⊢
      exact ⟨this, h5.2⟩
    | _ => trivial
  cases hr : Json.lookup "$ref" kvs with
  | none => simp only [hr, Bool.false_and, Bool.false_eq_true, if_false] at hv ⊢; exact key hv
  | some r =>
    cases r <;> simp only [hr, Bool.false_and, Bool.false_eq_true, if_false] at hv ⊢ <;> first | exact hv | exact key hv

/-! ### `_positive_string` -/

theorem natKw_of_lenKw {kvs k o} (h : lenKw? kvs k = some o) : natKw kvs k = o := by
  unfold lenKw? getK at h
  unfold natKw
  cases hl : Json.lookup k kvs with
  | none => simp [hl] at h; exact h
  | some j =>
    cases j <;> simp [hl] at h ⊢
    · exact h
    · rename_i m e
      cases e with
      | zero =>
        simp at h ⊢
        simp [h.1]; exact h.2
      | succ e' => simp at h

theorem natKw_setKey_eq (k : String) (n : Nat) (kvs) : natKw (setKey k (jnat n) kvs) k = some n := by
  unfold natKw; rw [lookup_setKey_eq]; simp [jnat]

theorem natKw_setKey_ne (k k' : String) (v : Json) (kvs) (h : k' ≠ k) : natKw (setKey k v kvs) k' = natKw kvs k' := by
  unfold natKw; rw [lookup_setKey_ne k k' v kvs h]

/-- the string-length bounds a valid string meets -/
theorem lenBounds_of_valid {fuel env kvs s} (hoas : env.oas = Oas.none) (href : Json.lookup "$ref" kvs = none)
    (h : validF (fuel + 1) env (.obj kvs) (.str s) = true) : lenBoundsOk kvs "minLength" "maxLength" s.length = true := by
  simp only [validF, href, isNullable_none hoas, Bool.false_and, Bool.false_eq_true, if_false, keywordsOk, stringOk,
    Bool.and_eq_true] at h
  exact h.1.1.1.1.2.1

abbrev StrP (fuel : Nat) (env : Env) (kvs : List (String × Json)) : GV → Prop :=
  fun gv => labelOk (fuel + 1) env (.obj kvs) gv = true

/-- one derived request of `_positive_string` -/
theorem sound_askDerived {fuel env kvs kvs' d} (hoas : env.oas = Oas.none) (href : Json.lookup "$ref" kvs = none)
    (hs : SameExcept ["minLength", "maxLength"] kvs kvs')
    (hlen : ∀ n, lenBoundsOk kvs' "minLength" "maxLength" n = true → lenBoundsOk kvs "minLength" "maxLength" n = true) :
    Sound (StrP fuel env kvs) (callSound (fuel + 1) env) (askSchema (.obj kvs') d) := by
  unfold askSchema
  apply sound_ask; intro j hj
  apply sound_emit; intro gv hg
  simp only [List.mem_cons, List.mem_nil_iff, or_false] at hg; subst hg
  simp only [callSound] at hj
  have href' : Json.lookup "$ref" kvs' = none := by rw [hs "$ref" (by decide)]; exact href
  have : validF (fuel + 1) env (.obj kvs) j = true := by
    apply validF_of_lengths hoas hs hj
    intro s hsj; subst hsj
    exact hlen _ (lenBounds_of_valid hoas href' hj)
  simp [StrP, labelOk, GV.pos, this]

theorem lenBoundsOk_iff (kvs : List (String × Json)) (n : Nat) :
    lenBoundsOk kvs "minLength" "maxLength" n = true ↔
      (∀ a, natKw kvs "minLength" = some a → a ≤ n) ∧ (∀ b, natKw kvs "maxLength" = some b → n ≤ b) := by
  unfold lenBoundsOk
  cases natKw kvs "minLength" <;> cases natKw kvs "maxLength" <;> simp

theorem same_max (kvs) (b : Nat) : SameExcept ["minLength", "maxLength"] kvs (setKey "maxLength" (jnat b) kvs) :=
  sameExcept_setKey (sameExcept_refl _ _) (by decide)
theorem same_min (kvs) (a : Nat) : SameExcept ["minLength", "maxLength"] kvs (setKey "minLength" (jnat a) kvs) :=
  sameExcept_setKey (sameExcept_refl _ _) (by decide)
theorem same_both (kvs) (a b : Nat) :
    SameExcept ["minLength", "maxLength"] kvs (setKey "maxLength" (jnat b) (setKey "minLength" (jnat a) kvs)) :=
  sameExcept_setKey (same_min kvs a) (by decide)

theorem sound_ite_nil {P C} {c : Bool} {a : Gen} (h : c = true → Sound P C a) :
    Sound P C (if c = true then a else Gen.nil) := by
  by_cases hc : c = true
  · simp only [hc, if_true]; exact h hc
  · simp only [hc, if_false]; exact sound_nil

/-- `_positive_string`: every non-exempt value conforms — unconditionally with the crossing guard (`vl = .repaired`),
    on schemas whose length bounds do not cross without it -/
theorem positive_string_sound (vl : Variant) (fuel : Nat) (env : Env) (hoas : env.oas = Oas.none) (ctx : Ctx)
    (kvs : List (String × Json)) (mn0 mx : Option Nat) (href : Json.lookup "$ref" kvs = none)
    (hmn : lenKw? kvs "minLength" = some mn0) (hmx : lenKw? kvs "maxLength" = some mx)
    (hsat : vl = .asFound → ∀ a b, mn0 = some a → mx = some b → a ≤ b) :
    Sound (StrP fuel env kvs) (callSound (fuel + 1) env) (positiveString vl ctx kvs) := by
  have nmin : natKw kvs "minLength" = mn0 := natKw_of_lenKw hmn
  have nmax : natKw kvs "maxLength" = mx := natKw_of_lenKw hmx
  have hdirect : ∀ d, Sound (StrP fuel env kvs) (callSound (fuel + 1) env) (askSchema (.obj kvs) d) := by
    intro d
    exact sound_askDerived hoas href (sameExcept_refl _ _) (fun n h => h)
  -- what the crossing guard / the hypothesis give
  have hcross : ∀ (c : Bool) (a b : Nat), crossOk vl c = true → (c = true → a ≤ b) → mn0 = some a → mx = some b → a ≤ b := by
    intro c a b hc hyes ha hb
    cases vl with
    | asFound => exact hsat rfl a b ha hb
    | repaired => exact hyes (by simpa [crossOk] using hc)
  unfold positiveString
  simp only [hmn, hmx]
  -- normalise `min_length == 0 -> None`
  have hnorm : ((if mn0 == some 0 then none else mn0) = none ∧ (mn0 = none ∨ mn0 = some 0)) ∨
      ∃ m, (if mn0 == some 0 then none else mn0) = some m ∧ mn0 = some m ∧ m ≠ 0 := by
    cases mn0 with
    | none => left; simp
    | some a =>
      by_cases ha : a = 0
      · subst ha; left; simp
      · right; exact ⟨a, by simp [ha], rfl, ha⟩
  have hpro : ∀ mn : Option Nat, Sound (StrP fuel env kvs) (callSound (fuel + 1) env)
      (if hasExamples kvs then
        (match examplePrologue kvs (locOk ctx) with
         | none => Gen.unsupported
         | some gvs => Gen.emit gvs)
      else if mn.isNone && isNoneOrZero mx then askSchema (.obj kvs) .validString
      else if hasKey kvs "pattern" && crossOk vl (!(lenCross mn mx)) then askSchema (.obj kvs) .validString
      else Gen.nil) := by
    intro mn
    by_cases he : hasExamples kvs = true
    · simp only [he, if_true]
      cases hpro : examplePrologue kvs (locOk ctx) with
      | none => exact sound_unsupported
      | some gvs =>
        apply sound_emit; intro gv hg
        exact labelOk_of_exempt (examplePrologue_exempt hpro hg)
    · simp only [he, Bool.false_eq_true, if_false]
      by_cases h1 : (mn.isNone && isNoneOrZero mx) = true
      · simp only [h1, if_true]; exact hdirect _
      · simp only [h1, Bool.false_eq_true, if_false]
        by_cases h2 : (hasKey kvs "pattern" && crossOk vl (!(lenCross mn mx))) = true
        · simp only [h2, if_true]; exact hdirect _
        · simp only [h2, Bool.false_eq_true, if_false]; exact sound_nil
  -- the "Maximum length" / near-boundary requests of the upper block, whatever the local `seen` set is
  have hupper : ∀ (mn : Option Nat) (seen : List Nat), (mn = none ∧ (mn0 = none ∨ mn0 = some 0)) ∨ (∃ m, mn = some m ∧ mn0 = some m ∧ m ≠ 0) →
      Sound (StrP fuel env kvs) (callSound (fuel + 1) env) (strUpper vl kvs mn mx seen) := by
    intro mn seen hmnc
    unfold strUpper
    cases hM : mx with
    | none => exact sound_nil
    | some M =>
      simp only
      apply sound_seq
      · by_cases hc : (decide (M < BUFFER) && !(seen.contains M) && crossOk vl (geOptNat M mn)) = true
        · simp only [hc, if_true]
          apply sound_askDerived hoas href (same_min kvs M)
          intro n h
          rw [lenBoundsOk_iff] at h ⊢
          rw [natKw_setKey_eq, natKw_setKey_ne _ _ _ _ (by decide), nmax, hM] at h
          rw [nmin, nmax, hM]
          have h1 := h.1 M rfl
          have h2 := h.2 M rfl
          refine ⟨fun a ha => ?_, fun b hb => by cases hb; exact h2⟩
          simp only [Bool.and_eq_true] at hc
          have : a ≤ M := by
            rcases hmnc with ⟨hn, hz⟩ | ⟨m, hm, hm0, _⟩
            · rcases hz with hz | hz
              · rw [hz] at ha; cases ha
              · rw [hz] at ha; cases ha; omega
            · rw [hm0] at ha; cases ha
              apply hcross (geOptNat M mn) a M hc.2 _ hm0 hM
              intro hge; rw [hm] at hge; simpa [geOptNat] using hge
          omega
        · simp only [hc, Bool.false_eq_true, if_false]; exact sound_nil
      · cases M with
        | zero => exact sound_nil
        | succ s =>
          simp only
          apply sound_ite_nil; intro hcond
          · apply sound_askDerived hoas href (same_both kvs s s)
            intro n h
            rw [lenBoundsOk_iff] at h ⊢
            rw [natKw_setKey_eq, natKw_setKey_ne _ _ _ _ (by decide), natKw_setKey_eq] at h
            rw [nmin, nmax, hM]
            have h1 := h.1 s rfl
            have h2 := h.2 s rfl
            refine ⟨fun a ha => ?_, fun b hb => by cases hb; omega⟩
            simp only [Bool.and_eq_true, decide_eq_true_eq] at hcond
            have hge := hcond.2
            rcases hmnc with ⟨hn, hz⟩ | ⟨m, hm, hm0, _⟩
            · rcases hz with hz | hz
              · rw [hz] at ha; cases ha
              · rw [hz] at ha; cases ha; omega
            · subst hm
              rw [hm0] at ha; cases ha
              simp only [geOptNat, decide_eq_true_eq] at hge; omega
  apply sound_seq (hpro _)
  rcases hnorm with ⟨hn, hz⟩ | ⟨m, hm, hm0, hmne⟩
  · rw [hn]
    apply sound_seq
    · simp only [strLower]; exact sound_nil
    · exact hupper none _ (Or.inl ⟨rfl, hz⟩)
  · rw [hm]
    apply sound_seq
    · simp only [strLower]
      by_cases hb : m < BUFFER
      · simp only [hb, if_true]
        apply sound_seq
        · apply sound_ite_nil; intro hfirst
          apply sound_askDerived hoas href (same_max kvs m)
          intro n h
          rw [lenBoundsOk_iff] at h ⊢
          rw [natKw_setKey_ne _ _ _ _ (by decide), natKw_setKey_eq, nmin] at h
          rw [nmin, nmax]
          have h1 := h.1 m hm0
          have h2 := h.2 m rfl
          refine ⟨fun a ha => by rw [hm0] at ha; cases ha; exact h1, fun b hb' => ?_⟩
          have : m ≤ b := by
            apply hcross (leOptNat m mx) m b hfirst _ hm0 hb'
            intro hle; rw [hb'] at hle; simpa [leOptNat] using hle
          omega
        · apply sound_ite_nil; intro hcond
          · apply sound_askDerived hoas href (same_both kvs (m + 1) (m + 1))
            intro n h
            rw [lenBoundsOk_iff] at h ⊢
            rw [natKw_setKey_eq, natKw_setKey_ne _ _ _ _ (by decide), natKw_setKey_eq] at h
            rw [nmin, nmax]
            have h1 := h.1 (m + 1) rfl
            have h2 := h.2 (m + 1) rfl
            refine ⟨fun a ha => by rw [hm0] at ha; cases ha; omega, fun b hb' => ?_⟩
            subst hb'
            simp only [strLowerSecond, Bool.and_eq_true, Bool.or_eq_true, decide_eq_true_eq] at hcond
            rcases hcond.2 with hc | hc
            · cases vl with
              | asFound =>
                have hs := hsat rfl m b hm0 rfl
                simp [maxAbsent, isNoneOrZero] at hc; omega
              | repaired => simp [maxAbsent] at hc
            · simp [leOptNat] at hc; omega
      · simp only [hb, if_false]; exact sound_nil
    · exact hupper (some m) _ (Or.inr ⟨m, rfl, hm0, hmne⟩)

end SV.Proofs.C03
