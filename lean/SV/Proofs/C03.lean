/-
  Helper lemmas for C03 (not property statements): floor-multiple arithmetic, reading the numeric keywords of a raw
  schema, the numeric keyword family on integer instances in arithmetic form.
-/
import SV.Spec.C03

namespace SV.Proofs.C03
open SV SV.Spec.JsonSchema SV.Model.C03 SV.Spec.C03

/-! ### floor multiples -/
theorem closest_mod (y x : Int) (hx : 0 < x) : closestMultiple y x % x = 0 := by
  unfold closestMultiple
  rw [Int.fmod_eq_emod_of_nonneg y (Int.le_of_lt hx), Int.fdiv_eq_ediv_of_nonneg y (Int.le_of_lt hx)]
  split
  · rename_i h; simpa using h
  · simp

theorem closest_ge (y x : Int) (hx : 0 < x) : y ≤ closestMultiple y x := by
  unfold closestMultiple
  rw [Int.fmod_eq_emod_of_nonneg y (Int.le_of_lt hx), Int.fdiv_eq_ediv_of_nonneg y (Int.le_of_lt hx)]
  split
  · exact Int.le_refl _
  · have := Int.lt_mul_ediv_self_add (x := y) hx
    rw [Int.mul_add, Int.mul_one]; omega

theorem closest_least (y x k : Int) (hx : 0 < x) (hk : k % x = 0) (hy : y ≤ k) : closestMultiple y x ≤ k := by
  unfold closestMultiple
  rw [Int.fmod_eq_emod_of_nonneg y (Int.le_of_lt hx), Int.fdiv_eq_ediv_of_nonneg y (Int.le_of_lt hx)]
  split
  · exact hy
  · rename_i h
    have hne : y % x ≠ 0 := by simpa using h
    -- k = x * (k / x), y / x < k / x
    have hkx : x * (k / x) = k := by
      have := Int.mul_ediv_add_emod k x; omega
    have h1 : y / x < k / x := by
      have hlt : y < k := by
        rcases Int.lt_or_eq_of_le hy with h | h
        · exact h
        · subst h; exact absurd hk hne
      -- x*(y/x) ≤ y < k = x*(k/x)
      have h2 : x * (y / x) ≤ y := Int.mul_ediv_self_le (Int.ne_of_gt hx)
      have h3 : x * (y / x) < x * (k / x) := by omega
      exact Int.lt_of_mul_lt_mul_left h3 (Int.le_of_lt hx)
    have h4 : x * (y / x + 1) ≤ x * (k / x) := Int.mul_le_mul_of_nonneg_left (by omega) (Int.le_of_lt hx)
    omega

theorem floorMul_mod (m x : Int) (hx : 0 < x) : (m - m.fmod x) % x = 0 := by
  rw [Int.fmod_eq_emod_of_nonneg m (Int.le_of_lt hx)]
  have := Int.mul_ediv_add_emod m x
  have h : m - m % x = x * (m / x) := by omega
  rw [h]; simp

theorem floorMul_le (m x : Int) (hx : 0 < x) : m - m.fmod x ≤ m := by
  rw [Int.fmod_eq_emod_of_nonneg m (Int.le_of_lt hx)]
  have := Int.emod_nonneg m (Int.ne_of_gt hx); omega

theorem floorMul_greatest (m x k : Int) (hx : 0 < x) (hk : k % x = 0) (hm : k ≤ m) : k ≤ m - m.fmod x := by
  rw [Int.fmod_eq_emod_of_nonneg m (Int.le_of_lt hx)]
  have hkx : x * (k / x) = k := by
    have := Int.mul_ediv_add_emod k x; omega
  have h0 : m - m % x = x * (m / x) := by
    have := Int.mul_ediv_add_emod m x; omega
  rw [h0, ← hkx]
  apply Int.mul_le_mul_of_nonneg_left _ (Int.le_of_lt hx)
  exact Int.ediv_le_ediv hx hm

/-! ### reading keywords -/
theorem intKw_none {kvs k} (h : intKw? kvs k = some none) :
    Json.lookup k kvs = none ∨ Json.lookup k kvs = some .null := by
  unfold intKw? getK at h
  cases hl : Json.lookup k kvs with
  | none => simp
  | some j => cases j <;> simp_all <;> (split at h <;> simp_all)

theorem intKw_some {kvs k m} (h : intKw? kvs k = some (some m)) : Json.lookup k kvs = some (.num m 0) := by
  unfold intKw? getK at h
  cases hl : Json.lookup k kvs with
  | none => simp_all
  | some j =>
    cases j <;> simp_all
    split at h <;> simp_all

theorem exKw_none {kvs k} (h : exKw? kvs k = some none) :
    Json.lookup k kvs = none ∨ Json.lookup k kvs = some .null := by
  unfold exKw? getK at h
  cases hl : Json.lookup k kvs with
  | none => simp
  | some j => cases j <;> simp_all <;> (split at h <;> simp_all)

theorem exKw_flag {kvs k b} (h : exKw? kvs k = some (some (.flag b))) : Json.lookup k kvs = some (.bool b) := by
  unfold exKw? getK at h
  cases hl : Json.lookup k kvs with
  | none => simp_all
  | some j =>
    cases j <;> simp_all
    split at h <;> simp_all

theorem exKw_num {kvs k n} (h : exKw? kvs k = some (some (.num n))) : Json.lookup k kvs = some (.num n 0) := by
  unfold exKw? getK at h
  cases hl : Json.lookup k kvs with
  | none => simp_all
  | some j =>
    cases j <;> simp_all
    split at h <;> simp_all

theorem parse_fields {kvs k} (h : parseNumKw kvs = some k) :
    intKw? kvs "minimum" = some k.minimum ∧ intKw? kvs "maximum" = some k.maximum ∧
    exKw? kvs "exclusiveMinimum" = some k.exMin ∧ exKw? kvs "exclusiveMaximum" = some k.exMax ∧
    intKw? kvs "multipleOf" = some k.multipleOf ∧ k.multipleOf ≠ some 0 := by
  unfold parseNumKw at h
  split at h
  · split at h
    · simp at h
    · rename_i hne
      simp at h; subst h; simp_all
  · simp at h

/-! ### the numeric keyword family on integer instances -/

theorem minimumOk_int {kvs k} (h : parseNumKw kvs = some k) (n : Int) :
    minimumOk kvs n 0 = true ↔ (∀ lo, effMin .repaired k = some lo → lo ≤ n) := by
  obtain ⟨h1, _, h3, _, _, _⟩ := parse_fields h
  obtain ⟨mn, mx, en, ex, mo⟩ := k
  simp only at h1 h3
  unfold minimumOk effMin
  cases mn with
  | none =>
    have hl := intKw_none h1
    cases en with
    | none =>
      have he := exKw_none h3
      rcases hl with hl | hl <;> rcases he with he | he <;> simp [hl, he]
    | some e =>
      cases e with
      | flag b =>
        have he := exKw_flag h3
        rcases hl with hl | hl <;> cases b <;> simp [hl, he]
      | num x =>
        have he := exKw_num h3
        rcases hl with hl | hl <;> simp [hl, he, numLt, pow10] <;> omega
  | some m =>
    have hl := intKw_some h1
    cases en with
    | none =>
      have he := exKw_none h3
      rcases he with he | he <;> simp [hl, he, numLe, pow10]
    | some e =>
      cases e with
      | flag b =>
        have he := exKw_flag h3
        cases b <;> simp [hl, he, numLe, numLt, pow10]
        omega
      | num x =>
        have he := exKw_num h3
        simp [hl, he, numLe, numLt, pow10]
        omega

theorem maximumOk_int {kvs k} (h : parseNumKw kvs = some k) (n : Int) :
    maximumOk kvs n 0 = true ↔ (∀ hi, effMax .repaired k = some hi → n ≤ hi) := by
  obtain ⟨_, h1, _, h3, _, _⟩ := parse_fields h
  obtain ⟨mn, mx, en, ex, mo⟩ := k
  simp only at h1 h3
  unfold maximumOk effMax
  cases mx with
  | none =>
    have hl := intKw_none h1
    cases ex with
    | none =>
      have he := exKw_none h3
      rcases hl with hl | hl <;> rcases he with he | he <;> simp [hl, he]
    | some e =>
      cases e with
      | flag b =>
        have he := exKw_flag h3
        rcases hl with hl | hl <;> cases b <;> simp [hl, he]
      | num x =>
        have he := exKw_num h3
        rcases hl with hl | hl <;> simp [hl, he, numLt, pow10] <;> omega
  | some m =>
    have hl := intKw_some h1
    cases ex with
    | none =>
      have he := exKw_none h3
      rcases he with he | he <;> simp [hl, he, numLe, pow10]
    | some e =>
      cases e with
      | flag b =>
        have he := exKw_flag h3
        cases b <;> simp [hl, he, numLe, numLt, pow10]
        omega
      | num x =>
        have he := exKw_num h3
        simp [hl, he, numLe, numLt, pow10]
        omega

theorem multipleOfOk_int {kvs k} (h : parseNumKw kvs = some k) (n : Int) :
    multipleOfOk kvs n 0 = true ↔ (∀ x, k.multipleOf = some x → n % x = 0) := by
  obtain ⟨_, _, _, _, h5, hne⟩ := parse_fields h
  obtain ⟨mn, mx, en, ex, mo⟩ := k
  simp only at h5 hne
  unfold multipleOfOk
  cases mo with
  | none =>
    rcases intKw_none h5 with hl | hl <;> simp [hl]
  | some x =>
    have hl := intKw_some h5
    have hx : x ≠ 0 := by intro h0; subst h0; simp at hne
    simp [hl, numMultipleOf, pow10, hx]

theorem numberOk_int {kvs k} (h : parseNumKw kvs = some k) (n : Int) :
    numberOk kvs (.num n 0) = true ↔ NumKw.okInt k n := by
  unfold numberOk NumKw.okInt
  simp only [Bool.and_eq_true, minimumOk_int h, maximumOk_int h, multipleOfOk_int h]
  constructor
  · rintro ⟨⟨a, b⟩, c⟩; exact ⟨a, b, c⟩
  · rintro ⟨a, b, c⟩; exact ⟨⟨a, b⟩, c⟩

/-! ### boundary values of `_positive_number` -/

theorem numLower_mem {v mn mx mo n d} (h : (n, d) ∈ (numLower v mn mx mo).1) :
    ∃ lo, mn = some lo ∧
      (n = smallestOf lo mo ∨
       (n = largerOf lo mo ∧ (isAbsent v mx = true ∨ leOpt n mx = true))) := by
  unfold numLower at h
  cases mn with
  | none => simp at h
  | some lo =>
    refine ⟨lo, rfl, ?_⟩
    simp only at h
    split at h
    · rename_i hc
      simp only [Bool.and_eq_true, Bool.or_eq_true] at hc
      simp only [List.mem_cons, Prod.mk.injEq, List.mem_nil_iff, or_false] at h
      rcases h with ⟨h, _⟩ | ⟨h, _⟩
      · left; exact h
      · right; subst h; exact ⟨rfl, hc.2⟩
    · simp only [List.mem_cons, Prod.mk.injEq, List.mem_nil_iff, or_false] at h
      left; exact h.1

theorem numUpper_mem {mn mx mo seen n d} (h : (n, d) ∈ numUpper mn mx mo seen) :
    ∃ hi, mx = some hi ∧
      (n = largestOf hi mo ∨ (n = smallerOf hi mo ∧ geOpt n mn = true)) := by
  unfold numUpper at h
  cases mx with
  | none => simp at h
  | some hi =>
    refine ⟨hi, rfl, ?_⟩
    simp only [List.mem_append] at h
    rcases h with h | h
    · split at h
      · simp at h
      · simp only [List.mem_cons, Prod.mk.injEq, List.mem_nil_iff, or_false] at h
        left; exact h.1
    · split at h
      · rename_i hc
        simp only [Bool.and_eq_true] at hc
        simp only [List.mem_cons, Prod.mk.injEq, List.mem_nil_iff, or_false] at h
        right; rw [h.1]; exact ⟨rfl, hc.2⟩
      · simp at h

theorem boundary_ok (mn mx mo : Option Int) (hpos : ∀ x, mo = some x → 0 < x) (n0 : Int)
    (hlo0 : ∀ lo, mn = some lo → lo ≤ n0) (hhi0 : ∀ hi, mx = some hi → n0 ≤ hi) (hm0 : ∀ x, mo = some x → n0 % x = 0) :
    ∀ p ∈ (numLower .repaired mn mx mo).1 ++ numUpper mn mx mo (numLower .repaired mn mx mo).2,
      (∀ lo, mn = some lo → lo ≤ p.1) ∧ (∀ hi, mx = some hi → p.1 ≤ hi) ∧ (∀ x, mo = some x → p.1 % x = 0) := by
  intro ⟨n, d⟩ hp
  simp only [List.mem_append] at hp
  rcases hp with hp | hp
  · obtain ⟨lo, hmn, hcase⟩ := numLower_mem hp
    have hlo0' := hlo0 lo hmn
    have hupper : ∀ hi, mx = some hi → (isAbsent .repaired mx = true ∨ leOpt n mx = true) → n ≤ hi := by
      intro hi hhi hc
      rcases hc with hc | hc
      · simp [isAbsent, hhi] at hc
      · simpa [leOpt, hhi] using hc
    cases mo with
    | none =>
      simp only [smallestOf, largerOf] at hcase
      refine ⟨?_, ?_, by intro x hx; simp at hx⟩
      · intro lo' hlo'; rw [hmn] at hlo'; cases hlo'
        rcases hcase with h | ⟨h, _⟩ <;> simp only [h] <;> omega
      · intro hi hhi
        rcases hcase with h | ⟨h, hc⟩
        · simp only [h]; have := hhi0 hi hhi; omega
        · exact hupper hi hhi hc
    | some x =>
      have hx := hpos x rfl
      have hm0' := hm0 x rfl
      simp only [smallestOf, largerOf] at hcase
      refine ⟨?_, ?_, ?_⟩
      · intro lo' hlo'; rw [hmn] at hlo'; cases hlo'
        have := closest_ge lo x hx
        rcases hcase with h | ⟨h, _⟩ <;> simp only [h] <;> omega
      · intro hi hhi
        rcases hcase with h | ⟨h, hc⟩
        · simp only [h]
          have := closest_least lo x n0 hx hm0' hlo0'
          have := hhi0 hi hhi; omega
        · exact hupper hi hhi hc
      · intro x' hx'; cases hx'
        have := closest_mod lo x hx
        rcases hcase with h | ⟨h, _⟩ <;> simp only [h]
        · exact this
        · rw [Int.add_emod, this]; simp
  · obtain ⟨hi, hmx, hcase⟩ := numUpper_mem hp
    have hhi0' := hhi0 hi hmx
    have hlower : ∀ lo, mn = some lo → geOpt n mn = true → lo ≤ n := by
      intro lo hlo hc
      simpa [geOpt, hlo] using hc
    cases mo with
    | none =>
      simp only [largestOf, smallerOf] at hcase
      refine ⟨?_, ?_, by intro x hx; simp at hx⟩
      · intro lo hlo
        rcases hcase with h | ⟨h, hc⟩
        · simp only [h]; have := hlo0 lo hlo; omega
        · exact hlower lo hlo hc
      · intro hi' hhi'; rw [hmx] at hhi'; cases hhi'
        rcases hcase with h | ⟨h, _⟩ <;> simp only [h] <;> omega
    | some x =>
      have hx := hpos x rfl
      have hm0' := hm0 x rfl
      simp only [largestOf, smallerOf] at hcase
      refine ⟨?_, ?_, ?_⟩
      · intro lo hlo
        rcases hcase with h | ⟨h, hc⟩
        · simp only [h]
          have := floorMul_greatest hi x n0 hx hm0' hhi0'
          have := hlo0 lo hlo; omega
        · exact hlower lo hlo hc
      · intro hi' hhi'; rw [hmx] at hhi'; cases hhi'
        have := floorMul_le hi x hx
        rcases hcase with h | ⟨h, _⟩ <;> simp only [h] <;> omega
      · intro x' hx'; cases hx'
        have := floorMul_mod hi x hx
        rcases hcase with h | ⟨h, _⟩ <;> simp only [h]
        · exact this
        · rw [Int.sub_emod, this]; simp

/-- every boundary value of the repaired `_positive_number` lies within the effective bounds and is a multiple,
    provided some integer does -/
theorem numBoundary_repaired_ok (k : NumKw) (hpos : ∀ x, k.multipleOf = some x → 0 < x)
    (hsat : ∃ n0, NumKw.okInt k n0) :
    ∀ p ∈ numBoundary .repaired .repaired k, NumKw.okInt k p.1 := by
  obtain ⟨n0, hlo0, hhi0, hm0⟩ := hsat
  intro p hp
  exact boundary_ok (effMin .repaired k) (effMax .repaired k) k.multipleOf hpos n0 hlo0 hhi0 hm0 p hp

/-! ### compositional soundness of generators -/

/-- every value a generator emits satisfies `P`, provided every oracle call it made satisfies `C` -/
def Sound (P : GV → Prop) (C : Call → Prop) (g : Gen) : Prop :=
  ∀ st, (∀ c ∈ (g st).calls, C c) → ∀ gv ∈ (g st).out, P gv

theorem sound_nil {P C} : Sound P C Gen.nil := by
  intro st _ gv h; simp [Gen.nil] at h

theorem sound_emit {P C gvs} (h : ∀ gv ∈ gvs, P gv) : Sound P C (Gen.emit gvs) := by
  intro st _ gv hg; exact h gv (by simpa [Gen.emit] using hg)

theorem sound_fail {P C s} : Sound P C (Gen.fail s) := by
  intro st _ gv h; simp [Gen.fail] at h

theorem sound_unsupported {P C} : Sound P C Gen.unsupported := sound_fail

theorem sound_seq {P C a b} (ha : Sound P C a) (hb : Sound P C b) : Sound P C (Gen.seq a b) := by
  intro st hc gv hg
  unfold Gen.seq at hc hg
  simp only at hc hg
  split at hg
  · rename_i hs
    simp only [hs] at hc
    simp only [List.mem_append] at hg hc
    rcases hg with hg | hg
    · exact ha st (fun c h => hc c (Or.inl h)) gv hg
    · exact hb _ (fun c h => hc c (Or.inr h)) gv hg
  · rename_i hs
    have : ∀ c ∈ (a st).calls, C c := by
      intro c h
      apply hc c
      split
      · rename_i h'; exact absurd h' (by intro h''; exact hs h'')
      · exact h
    exact ha st this gv hg

theorem sound_guard {P C a} (ha : Sound P C a) : Sound P C (Gen.guard a) := by
  intro st hc gv hg
  unfold Gen.guard at hc hg
  simp only at hc hg
  split at hg
  · rename_i hs; simp only [hs] at hc; exact ha st hc gv hg
  · rename_i hs
    apply ha st _ gv hg
    intro c h; apply hc c
    split
    · exact h
    · exact h

theorem sound_ask {P C req k} (hk : ∀ j, C ⟨req, .val j⟩ → Sound P C (k j)) : Sound P C (Gen.ask req k) := by
  intro st hc gv hg
  unfold Gen.ask at hc hg
  split at hg
  · simp at hg
  · simp at hg
  · rename_i v rest ho
    simp only [ho] at hc
    simp only at hg hc
    have h1 : C ⟨req, .val v⟩ := hc _ (by simp)
    exact hk v h1 _ (fun c h => hc c (by simp [h])) gv hg

theorem sound_freshSeen {P C a} (ha : Sound P C a) : Sound P C (Gen.freshSeen a) := by
  intro st hc gv hg
  exact ha _ hc gv hg

theorem sound_withSeen {P C k} (hk : ∀ s, Sound P C (k s)) : Sound P C (Gen.withSeen k) := by
  intro st hc gv hg
  exact hk st.seen st hc gv hg

theorem sound_addSeen {P C key} : Sound P C (Gen.addSeen key) := by
  intro st _ gv h; simp [Gen.addSeen] at h

theorem sound_forEach {P C} {α} {xs : List α} {body : α → Gen} (h : ∀ x ∈ xs, Sound P C (body x)) :
    Sound P C (Gen.forEach xs body) := by
  induction xs with
  | nil => exact sound_nil
  | cons x rest ih =>
    unfold Gen.forEach
    exact sound_seq (h x (by simp)) (ih (fun y hy => h y (by simp [hy])))

theorem sound_mapOut {P Q C a f} (ha : Sound Q C a) (hf : ∀ gv, Q gv → P (f gv)) : Sound P C (Gen.mapOut f a) := by
  intro st hc gv hg
  unfold Gen.mapOut at hc hg
  simp only [List.mem_map] at hg
  obtain ⟨g0, h0, rfl⟩ := hg
  exact hf g0 (ha st hc g0 h0)

theorem sound_mono {P Q C a} (ha : Sound Q C a) (h : ∀ gv, Q gv → P gv) : Sound P C a := by
  intro st hc gv hg; exact h gv (ha st hc gv hg)

/-! ### schema-level facts -/

theorem validF_num_plain (fuel : Nat) (env : Env) (kvs : List (String × Json)) (m : Int) (e : Nat)
    (hp : plainKeys kvs) :
    validF (fuel + 1) env (.obj kvs) (.num m e) = (typeOk kvs (.num m e) && numberOk kvs (.num m e)) := by
  obtain ⟨h1, h2, h3, h4, h5, h6, h7, h8⟩ := hp
  simp [validF, h1, Json.isNull, keywordsOk, enumOk, constOk, formatOk, combinatorsOk, stringOk, arrayOk, objectOk,
    h2, h3, h4, h5, h6, h7, h8]

theorem exPart_exempt {e l gv} (hg : gv ∈ exPart e l) : exempt gv.desc = true := by
  unfold exPart at hg
  split at hg
  · split at hg
    · simp only [List.mem_cons, List.mem_nil_iff, or_false] at hg; rw [hg]; rfl
    · simp at hg
  · simp at hg

theorem exsPart_exempt {e l gv} (hg : gv ∈ exsPart e l) : exempt gv.desc = true := by
  unfold exsPart at hg
  simp only [List.mem_map] at hg
  obtain ⟨a, _, rfl⟩ := hg; rfl

theorem dfltPart_exempt {e h x d l gv} (hg : gv ∈ dfltPart e h x d l) : exempt gv.desc = true := by
  unfold dfltPart at hg
  split at hg
  · split at hg
    · simp only [List.mem_cons, List.mem_nil_iff, or_false] at hg; rw [hg]; rfl
    · simp at hg
  · simp at hg

theorem examplePrologue_exempt {kvs locOk gvs gv} (h : examplePrologue kvs locOk = some gvs) (hg : gv ∈ gvs) :
    exempt gv.desc = true := by
  unfold examplePrologue at h
  split at h
  · simp at h
  · simp only [Option.some.injEq] at h
    subst h
    simp only [List.mem_append] at hg
    rcases hg with (hg | hg) | hg
    · exact exPart_exempt hg
    · exact exsPart_exempt hg
    · exact dfltPart_exempt hg


/-! ### `_positive_number` -/

theorem labelOk_of_exempt {fuel env S gv} (h : exempt gv.desc = true) : labelOk fuel env S gv = true := by
  simp [labelOk, h]

/-- `_positive_number` is sound whenever its boundary values are those of the repaired variant -/
theorem positive_number_valid_of (vz vx : Variant) (fuel : Nat) (env : Env) (kvs : List (String × Json)) (k : NumKw)
    (hnb : numBoundary vz vx k = numBoundary .repaired .repaired k)
    (hparse : parseNumKw kvs = some k)
    (htype : Json.lookup "type" kvs = some (.str "integer") ∨ Json.lookup "type" kvs = some (.str "number"))
    (hplain : plainKeys kvs)
    (hpos : ∀ x, k.multipleOf = some x → 0 < x)
    (hsat : ∃ n0 : Int, validF (fuel + 1) env (.obj kvs) (.num n0 0) = true) :
    Sound (fun gv => labelOk (fuel + 1) env (.obj kvs) gv = true) (callSound (fuel + 1) env)
      (positiveNumber vz vx kvs) := by
  have htyp : ∀ n : Int, typeOk kvs (.num n 0) = true := by
    intro n; rcases htype with h | h <;> simp [typeOk, h, typeNameOk]
  have hv : ∀ n : Int, validF (fuel + 1) env (.obj kvs) (.num n 0) = true ↔ NumKw.okInt k n := by
    intro n
    rw [validF_num_plain fuel env kvs n 0 hplain, htyp n, Bool.true_and, numberOk_int hparse]
  have hsat' : ∃ n0, NumKw.okInt k n0 := by
    obtain ⟨n0, h⟩ := hsat; exact ⟨n0, (hv n0).1 h⟩
  have hb : Sound (fun gv => labelOk (fuel + 1) env (.obj kvs) gv = true) (callSound (fuel + 1) env)
      (Gen.emit ((numBoundary vz vx k).map fun (n, d) => GV.pos (.num n 0) d)) := by
    rw [hnb]
    apply sound_emit
    intro gv hg
    simp only [List.mem_map] at hg
    obtain ⟨⟨n, d⟩, hm, rfl⟩ := hg
    have := numBoundary_repaired_ok k hpos hsat' (n, d) hm
    simp [labelOk, GV.pos, (hv n).2 this]
  unfold positiveNumber
  simp only [hparse]
  split
  · split
    · exact sound_unsupported
    · rename_i gvs hpro
      apply sound_seq _ hb
      apply sound_emit
      intro gv hg
      exact labelOk_of_exempt (examplePrologue_exempt hpro hg)
  · split
    · apply sound_seq _ hb
      apply sound_ask
      intro j hj
      apply sound_emit
      intro gv hg
      simp only [List.mem_cons, List.mem_nil_iff, or_false] at hg
      subst hg
      simp only [callSound] at hj
      simp [labelOk, GV.pos, hj]
    · exact hb

end SV.Proofs.C03
