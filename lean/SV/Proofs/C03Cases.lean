/-
  Helper lemmas for the case-level theorems of C03: association lists, the template invariant, the case constructors.
-/
import SV.Spec.C03Cases
namespace SV.Proofs.C03
open SV SV.Model.C03 SV.Spec.C03

theorem getAssoc_setAssoc {α β} [DecidableEq α] (k k' : α) (v : β) (l : List (α × β)) :
    getAssoc k' (setAssoc k v l) = if k' = k then some v else getAssoc k' l := by
  induction l with
  | nil =>
    simp only [setAssoc, getAssoc]
    by_cases h : k = k'
    · subst h; simp
    · have : ¬ k' = k := fun e => h e.symm
      simp [h, this]
  | cons p rest ih =>
    obtain ⟨a, b⟩ := p
    simp only [setAssoc]
    by_cases h : a = k
    · subst h
      simp only [if_true, getAssoc]
      by_cases h2 : a = k'
      · subst h2; simp
      · have : ¬ k' = a := fun e => h2 e.symm
        simp [h2, this]
    · simp only [h, if_false, getAssoc]
      by_cases h2 : a = k'
      · subst h2
        have : ¬ a = k := h
        simp [this]
      · simp only [h2, if_false]; exact ih

theorem getAssoc_map {α β γ} [DecidableEq α] (k : α) (f : β → γ) (l : List (α × β)) :
    getAssoc k (l.map fun p => (p.1, f p.2)) = (getAssoc k l).map f := by
  induction l with
  | nil => simp [getAssoc]
  | cons p rest ih =>
    obtain ⟨a, b⟩ := p
    simp only [List.map, getAssoc]
    by_cases h : a = k
    · simp [h]
    · simp [h]; exact ih

theorem getAssoc_append {α β} [DecidableEq α] (k : α) (l1 l2 : List (α × β)) :
    getAssoc k (l1 ++ l2) = match getAssoc k l1 with | some v => some v | none => getAssoc k l2 := by
  induction l1 with
  | nil => simp [getAssoc]
  | cons p rest ih =>
    obtain ⟨a, b⟩ := p
    simp only [List.cons_append, getAssoc]
    by_cases h : a = k
    · simp [h]
    · simp [h]; exact ih

theorem mem_allKinds (k : Kind) : k ∈ allKinds := by cases k <;> simp [allKinds]

theorem anyNegative_setSlot_neg (n : String) (xs : List Slot) : anyNegative (setSlot n .negative xs) = true := by
  induction xs with
  | nil => simp [setSlot, anyNegative]
  | cons s rest ih =>
    simp only [setSlot]
    split
    · simp [anyNegative]
    · simp only [anyNegative, List.any_cons] at ih ⊢
      simp [ih]

theorem anyNegative_setSlot_pos (n : String) (xs : List Slot) (h : anyNegative xs = false) :
    anyNegative (setSlot n .positive xs) = false := by
  induction xs with
  | nil => simp [setSlot, anyNegative]
  | cons s rest ih =>
    simp only [anyNegative, List.any_cons, Bool.or_eq_false_iff] at h
    simp only [setSlot]
    split
    · simp only [anyNegative, List.any_cons, Bool.or_eq_false_iff]
      exact ⟨by decide, h.2⟩
    · simp only [anyNegative, List.any_cons, Bool.or_eq_false_iff]
      exact ⟨h.1, ih h.2⟩

theorem anyNegative_filter (p : Slot → Bool) (xs : List Slot) (h : anyNegative xs = false) :
    anyNegative (xs.filter p) = false := by
  simp only [anyNegative, List.any_eq_false] at h ⊢
  intro s hs
  exact h s (List.mem_filter.1 hs).1

end SV.Proofs.C03
