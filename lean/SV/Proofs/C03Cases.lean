/-
  Helper lemmas for the case-level theorems of C03: association lists, the template invariant, the case constructors.
-/
import SV.Spec.C03Cases
namespace SV.Proofs.C03
open SV SV.Model.C03 SV.Spec.C03

theorem getAssoc_setAssoc {α β} [DecidableEq α] (k k' : α) (v : β) (l : List (α × β)) :
    getAssoc k' (setAssoc k v l) = if k' = k then some v else getAssoc k' l := by
  induction l with
  | nil =>
    simp only [setAssoc, getAssoc]
    by_cases h : k = k'
    · subst h; simp
    · have : ¬ k' = k := fun e => h e.symm
      simp [h, this]
  | cons p rest ih =>
    obtain ⟨a, b⟩ := p
    simp only [setAssoc]
    by_cases h : a = k
    · subst h
      simp only [if_true, getAssoc]
      by_cases h2 : a = k'
      · subst h2; simp
      · have : ¬ k' = a := fun e => h2 e.symm
        simp [h2, this]
    · simp only [h, if_false, getAssoc]
      by_cases h2 : a = k'
      · subst h2
        have : ¬ a = k := h
        simp [this]
      · simp only [h2, if_false]; exact ih

theorem getAssoc_map {α β γ} [DecidableEq α] (k : α) (f : β → γ) (l : List (α × β)) :
    getAssoc k (l.map fun p => (p.1, f p.2)) = (getAssoc k l).map f := by
  induction l with
  | nil => simp [getAssoc]
  | cons p rest ih =>
    obtain ⟨a, b⟩ := p
    simp only [List.map, getAssoc]
    by_cases h : a = k
    · simp [h]
    · simp [h]; exact ih

theorem getAssoc_append {α β} [DecidableEq α] (k : α) (l1 l2 : List (α × β)) :
    getAssoc k (l1 ++ l2) = match getAssoc k l1 with | some v => some v | none => getAssoc k l2 := by
  induction l1 with
  | nil => simp [getAssoc]
  | cons p rest ih =>
    obtain ⟨a, b⟩ := p
    simp only [List.cons_append, getAssoc]
    by_cases h : a = k
    · simp [h]
    · simp [h]; exact ih

theorem mem_allKinds (k : Kind) : k ∈ allKinds := by cases k <;> simp [allKinds]

theorem anyNegative_setSlot_neg (n : String) (xs : List Slot) : anyNegative (setSlot n .negative xs) = true := by
  induction xs with
  | nil => simp [setSlot, anyNegative]
  | cons s rest ih =>
    simp only [setSlot]
    split
    · simp [anyNegative]
    · simp only [anyNegative, List.any_cons] at ih ⊢
      simp [ih]

theorem anyNegative_setSlot_pos (n : String) (xs : List Slot) (h : anyNegative xs = false) :
    anyNegative (setSlot n .positive xs) = false := by
  induction xs with
  | nil => simp [setSlot, anyNegative]
  | cons s rest ih =>
    simp only [anyNegative, List.any_cons, Bool.or_eq_false_iff] at h
    simp only [setSlot]
    split
    · simp only [anyNegative, List.any_cons, Bool.or_eq_false_iff]
      exact ⟨by decide, h.2⟩
    · simp only [anyNegative, List.any_cons, Bool.or_eq_false_iff]
      exact ⟨h.1, ih h.2⟩

theorem anyNegative_filter (p : Slot → Bool) (xs : List Slot) (h : anyNegative xs = false) :
    anyNegative (xs.filter p) = false := by
  simp only [anyNegative, List.any_eq_false] at h ⊢
  intro s hs
  exact h s (List.mem_filter.1 hs).1

/-! ### the template invariant -/

/-- labels by kind of a contents list -/
def labelAt (contents : List (Kind × Content)) (k : Kind) : Option Mode := (getAssoc k contents).map labelOf

/-- component labels and contents agree, and the case label is right for them -/
def GoodCC (mode : Mode) (cc : List (Kind × Mode) × List (Kind × Content)) : Prop :=
  (∀ k, getAssoc k cc.1 = labelAt cc.2 k) ∧ (mode = .negative ↔ ∃ k, labelAt cc.2 k = some .negative)

/-- template invariant: component labels = labels of the contents, all equal to `m0`; no parameter container of kind body -/
structure TI (m0 : Mode) (t : Template) : Prop where
  comps : ∀ k, getAssoc k t.comps = labelAt t.contents k
  uniform : ∀ k m, labelAt t.contents k = some m → m = m0
  nobody : getAssoc Kind.body t.conts = none

theorem contents_at (t : Template) (k : Kind) :
    getAssoc k t.contents =
      match getAssoc k t.conts with
      | some xs => some (Content.slots xs)
      | none => (match t.body with | some m => if k = Kind.body then some (Content.bodyValue m) else none | none => none) := by
  unfold Template.contents
  rw [getAssoc_append]
  have := getAssoc_map k Content.slots t.conts
  rw [show (t.conts.map fun x => match x with | (k, xs) => (k, Content.slots xs)) =
        (t.conts.map fun p => (p.1, Content.slots p.2)) from by
          apply List.map_congr_left; intro ⟨a, b⟩ _; rfl]
  rw [this]
  cases h : getAssoc k t.conts with
  | some xs => simp
  | none =>
    simp only [Option.map_none]
    cases t.body with
    | none => simp [getAssoc]
    | some m =>
      simp only [getAssoc]
      by_cases hk : Kind.body = k
      · subst hk; simp
      · have : ¬ k = Kind.body := fun e => hk e.symm
        simp [hk, this]

theorem TI_empty (m0 : Mode) : TI m0 {} := by
  refine ⟨?_, ?_, ?_⟩
  · intro k; simp [labelAt, Template.contents, getAssoc]
  · intro k m h; simp [labelAt, Template.contents, getAssoc] at h
  · simp [getAssoc]

theorem mkCase_good {mode cc desc p pl} (h : GoodCC mode cc) :
    caseLabelOk (mkCase mode cc desc p pl) = true ∧ compsOk (mkCase mode cc desc p pl) = true := by
  obtain ⟨h1, h2⟩ := h
  constructor
  · unfold caseLabelOk caseSpecNegative mkCase
    simp only [Option.isSome_none, Bool.false_or]
    by_cases hm : mode = .negative
    · obtain ⟨k, hk⟩ := h2.1 hm
      have : (allKinds.any fun k => (getAssoc k cc.2).map labelOf == some Mode.negative) = true := by
        rw [List.any_eq_true]; exact ⟨k, mem_allKinds k, by simpa [labelAt] using hk⟩
      simp [hm, this]
    · have : (allKinds.any fun k => (getAssoc k cc.2).map labelOf == some Mode.negative) = false := by
        rw [List.any_eq_false]
        intro k _ hk
        apply hm; apply h2.2; exact ⟨k, by simpa [labelAt] using hk⟩
      rw [this]
      cases mode
      · rfl
      · exact absurd rfl hm
  · unfold compsOk mkCase
    rw [List.all_eq_true]
    intro k _
    simp only [h1 k, labelAt, beq_self_eq_true]

theorem labelAt_template (t : Template) (k : Kind) :
    labelAt t.contents k =
      match getAssoc k t.conts with
      | some xs => some (labelOf (Content.slots xs))
      | none => (match t.body with | some m => if k = Kind.body then some m else none | none => none) := by
  unfold labelAt
  rw [contents_at]
  cases getAssoc k t.conts with
  | some xs => rfl
  | none =>
    cases t.body with
    | none => rfl
    | some m => by_cases hk : k = Kind.body <;> simp [hk, labelOf]

theorem labelOf_slots_setSlot (m0 : Mode) (name : String) (cont : List Slot)
    (h : labelOf (Content.slots cont) = m0 ∨ cont = []) : labelOf (Content.slots (setSlot name m0 cont)) = m0 := by
  cases m0 with
  | negative => simp [labelOf, anyNegative_setSlot_neg]
  | positive =>
    have hc : anyNegative cont = false := by
      rcases h with h | h
      · simp only [labelOf] at h
        by_cases ha : anyNegative cont = true
        · simp [ha] at h
        · simpa using ha
      · subst h; rfl
    simp [labelOf, anyNegative_setSlot_pos name cont hc]

/-- `add_parameter` with a value labelled `m0` keeps the invariant -/
theorem TI_addParameter {m0 t} (h : TI m0 t) (kind : Kind) (hk : kind ≠ Kind.body) (name : String) (v : LV)
    (hv : v.mode = m0) : TI m0 (t.addParameter kind name v) := by
  have hcont : labelOf (Content.slots ((getAssoc kind t.conts).getD [])) = m0 ∨ (getAssoc kind t.conts).getD [] = [] := by
    cases hc : getAssoc kind t.conts with
    | none => right; rfl
    | some xs =>
      left
      have := h.uniform kind (labelOf (Content.slots xs)) (by rw [labelAt_template, hc])
      simpa using this
  have hnew := labelOf_slots_setSlot m0 name _ hcont
  -- the new component table, pointwise
  have hcomps : ∀ k, getAssoc k (t.addParameter kind name v).comps = if k = kind then some m0 else getAssoc k t.comps := by
    intro k
    unfold Template.addParameter
    simp only
    cases hg : getAssoc kind t.comps with
    | none => simp only [getAssoc_setAssoc, hv]
    | some old =>
      have hold : old = m0 := h.uniform kind old (by rw [← h.comps kind, hg])
      subst hold
      simp only
      by_cases hn : v.mode = Mode.negative
      · simp only [hn, if_true, getAssoc_setAssoc]
        rw [← hv, hn]
      · simp only [hn, if_false]
        by_cases hkk : k = kind
        · subst hkk; simp [hg]
        · simp [hkk]
  have hconts : ∀ k, getAssoc k (t.addParameter kind name v).conts =
      if k = kind then some (setSlot name v.mode ((getAssoc kind t.conts).getD [])) else getAssoc k t.conts := by
    intro k; unfold Template.addParameter; simp only [getAssoc_setAssoc]
  have hbody : (t.addParameter kind name v).body = t.body := rfl
  refine ⟨?_, ?_, ?_⟩
  · intro k
    rw [hcomps, labelAt_template, hconts, hbody]
    by_cases hkk : k = kind
    · subst hkk; simp only [if_true]; rw [hv, hnew]
    · simp only [hkk, if_false]; rw [h.comps k, labelAt_template]
  · intro k m hm
    rw [labelAt_template, hconts, hbody] at hm
    by_cases hkk : k = kind
    · subst hkk; simp only [if_true] at hm; rw [hv, hnew] at hm; cases hm; rfl
    · simp only [hkk, if_false] at hm
      exact h.uniform k m (by rw [labelAt_template]; exact hm)
  · rw [hconts]
    have : ¬ Kind.body = kind := fun e => hk e.symm
    simp only [this, if_false]; exact h.nobody

/-- `set_body` with a value labelled `m0` keeps the invariant -/
theorem TI_setBody {m0 t} (h : TI m0 t) (v : LV) (hv : v.mode = m0) : TI m0 (t.setBody v) := by
  have hconts : (t.setBody v).conts = t.conts := rfl
  have hbody : (t.setBody v).body = some v.mode := rfl
  refine ⟨?_, ?_, ?_⟩
  · intro k
    rw [labelAt_template, hconts, hbody]
    unfold Template.setBody
    simp only [getAssoc_setAssoc]
    by_cases hk : k = Kind.body
    · subst hk; simp [h.nobody]
    · simp only [hk, if_false]
      rw [h.comps k, labelAt_template]
      cases hc : getAssoc k t.conts with
      | some xs => rfl
      | none =>
        simp only
        cases t.body with
        | none => rfl
        | some m => simp [hk]
  · intro k m hm
    rw [labelAt_template, hconts, hbody] at hm
    cases hc : getAssoc k t.conts with
    | some xs =>
      simp only [hc] at hm
      exact h.uniform k m (by rw [labelAt_template, hc]; exact hm)
    | none =>
      simp only [hc] at hm
      by_cases hk : k = Kind.body
      · simp only [hk, if_true] at hm; cases hm; exact hv
      · simp [hk] at hm
  · exact h.nobody

/-! ### the case constructors -/

/-- the unmodified template: all labels are `m0` -/
theorem good_template {m0 t} (h : TI m0 t) (hm : m0 = .positive) : GoodCC .positive (t.comps, t.contents) := by
  refine ⟨h.comps, ?_⟩
  constructor
  · intro e; cases e
  · rintro ⟨k, hk⟩
    have := h.uniform k _ hk
    rw [hm] at this; cases this

theorem comps_template {m0 t} (h : TI m0 t) : ∀ k, getAssoc k t.comps = labelAt t.contents k := h.comps

/-- `with_container`: fine when the new content deserves the new label and either that label is negative or the
    rest of the template is positive -/
theorem good_withContainer {m0 t} (h : TI m0 t) (kind : Kind) (c : Content) (mode : Mode)
    (hl : labelOf c = mode) (hm : mode = .negative ∨ m0 = .positive) :
    GoodCC mode (t.withContainer kind c mode) := by
  unfold Template.withContainer
  have hat : ∀ k, labelAt (setAssoc kind c t.contents) k = if k = kind then some mode else labelAt t.contents k := by
    intro k; unfold labelAt; rw [getAssoc_setAssoc]
    by_cases hk : k = kind <;> simp [hk, hl]
  refine ⟨?_, ?_⟩
  · intro k
    simp only [getAssoc_setAssoc, hat]
    by_cases hk : k = kind
    · simp [hk]
    · simp only [hk, if_false]; exact h.comps k
  · simp only [hat]
    constructor
    · intro e; exact ⟨kind, by simp [e]⟩
    · rintro ⟨k, hk⟩
      by_cases hkk : k = kind
      · simp only [hkk, if_true] at hk; exact Option.some.inj hk
      · simp only [hkk, if_false] at hk
        have := h.uniform k _ hk
        rcases hm with hm | hm
        · exact hm
        · rw [hm] at this; cases this

/-- `with_body` -/
theorem good_withBody {m0 t} (h : TI m0 t) (v : LV) (hm : v.mode = .negative ∨ m0 = .positive) :
    GoodCC v.mode (t.withBody v) := by
  unfold Template.withBody
  have hat : ∀ k, labelAt ((t.conts.map fun x => match x with | (k, xs) => (k, Content.slots xs)) ++
        [(Kind.body, Content.bodyValue v.mode)]) k =
      if k = Kind.body then some v.mode else labelAt t.contents k := by
    intro k
    unfold labelAt
    rw [getAssoc_append]
    rw [show (t.conts.map fun x => match x with | (k, xs) => (k, Content.slots xs)) =
        (t.conts.map fun p => (p.1, Content.slots p.2)) from by
          apply List.map_congr_left; intro ⟨a, b⟩ _; rfl]
    rw [getAssoc_map]
    by_cases hk : k = Kind.body
    · subst hk; simp [h.nobody, getAssoc, labelOf]
    · simp only [hk, if_false]
      rw [contents_at]
      cases hc : getAssoc k t.conts with
      | some xs => simp
      | none =>
        have : ¬ Kind.body = k := fun e => hk e.symm
        simp only [Option.map_none, getAssoc, this, if_false]
        cases t.body with
        | none => rfl
        | some m => simp [hk]
  refine ⟨?_, ?_⟩
  · intro k
    simp only [getAssoc_setAssoc, hat]
    by_cases hk : k = Kind.body
    · simp [hk]
    · simp only [hk, if_false]; exact h.comps k
  · simp only [hat]
    constructor
    · intro e; exact ⟨Kind.body, by simp [e]⟩
    · rintro ⟨k, hk⟩
      by_cases hkk : k = Kind.body
      · simp only [hkk, if_true] at hk; exact Option.some.inj hk
      · simp only [hkk, if_false] at hk
        have := h.uniform k _ hk
        rcases hm with hm | hm
        · exact hm
        · rw [hm] at this; cases this

/-- a case sent with an undocumented method: negative whatever it contains; component labels are the template's -/
theorem methodCase_good {m0 t} (h : TI m0 t) (m : String) :
    let c := mkCase .negative (t.comps, t.contents) (.unspecifiedMethod m) none none (some m)
    caseLabelOk c = true ∧ compsOk c = true := by
  constructor
  · simp [caseLabelOk, caseSpecNegative, mkCase]
  · unfold compsOk mkCase
    rw [List.all_eq_true]
    intro k _
    have := h.comps k
    simp only [this, labelAt, beq_self_eq_true]

/-! ### the blocks of `_iter_coverage_cases` -/

def Good (c : Case) : Prop := caseLabelOk c = true ∧ compsOk c = true

theorem buildTemplate_TI {m0} : ∀ (ps : List ParamIn) (t t' : Template), TI m0 t →
    (∀ p ∈ ps, kindOfLocation p.location ≠ some Kind.body ∧ ∀ v rest, p.values = v :: rest → v.mode = m0) →
    buildTemplate ps t = some t' → TI m0 t' := by
  intro ps
  induction ps with
  | nil => intro t t' h _ he; simp [buildTemplate] at he; subst he; exact h
  | cons p rest ih =>
    intro t t' h hp he
    have hp1 := hp p (by simp)
    have hrest : ∀ q ∈ rest, _ := fun q hq => hp q (by simp [hq])
    unfold buildTemplate at he
    cases hv : p.values with
    | nil => simp only [hv] at he; exact ih t t' h hrest he
    | cons v more =>
      simp only [hv] at he
      cases hk : kindOfLocation p.location with
      | none => simp [hk] at he
      | some k =>
        simp only [hk] at he
        have hkb : k ≠ Kind.body := by intro e; subst e; exact hp1.1 hk
        exact ih _ t' (TI_addParameter h k hkb p.name v (hp1.2 v more hv)) hrest he

theorem bodyCases_good {m0} : ∀ (bs : List BodyIn) (t : Template), TI m0 t →
    (∀ b ∈ bs, (∀ v rest, b.values = v :: rest → v.mode = m0) ∧ ∀ v ∈ b.values, v.mode = .negative ∨ m0 = .positive) →
    (∀ c ∈ (bodyCases .repaired bs t).1, Good c) ∧ TI m0 (bodyCases .repaired bs t).2 := by
  intro bs
  induction bs with
  | nil => intro t h _; simp [bodyCases]; exact h
  | cons b rest ih =>
    intro t h hb
    have hb1 := hb b (by simp)
    have hrest : ∀ q ∈ rest, _ := fun q hq => hb q (by simp [hq])
    unfold bodyCases
    cases hv : b.values with
    | nil => simp only; exact ih t h hrest
    | cons v more =>
      simp only
      have hvm : v.mode = m0 := hb1.1 v more hv
      have ht' : TI m0 (if t.body.isNone then t.setBody v else t) := by
        split
        · exact TI_setBody h v hvm
        · exact h
      have ih' := ih _ ht' hrest
      refine ⟨?_, ih'.2⟩
      intro c hc
      rw [List.mem_append, List.mem_cons, List.mem_map] at hc
      rcases hc with (hc | ⟨nv, hnv, hc⟩) | hc
      · subst hc
        exact mkCase_good (good_withBody ht' v (hb1.2 v (by simp [hv])))
      · subst hc
        exact mkCase_good (good_withBody ht' nv (hb1.2 nv (by simp [hv, hnv])))
      · exact ih'.1 c hc

theorem labelOf_varied {m0 t} (h : TI m0 t) (k : Kind) (cont : List Slot) (hc : getAssoc k t.conts = some cont)
    (name : String) (mode : Mode) (hm : mode = .negative ∨ m0 = .positive) :
    labelOf (Content.slots (setSlot name mode cont)) = mode := by
  cases mode with
  | negative => simp [labelOf, anyNegative_setSlot_neg]
  | positive =>
    have hm0 : m0 = .positive := by rcases hm with e | e; cases e; exact e
    apply labelOf_slots_setSlot
    left
    have := h.uniform k (labelOf (Content.slots cont)) (by rw [labelAt_template, hc])
    rw [this, hm0]

theorem parameterCases_good {m0 t} (h : TI m0 t) : ∀ (ps : List ParamIn) (cs : List Case),
    (∀ p ∈ ps, ∀ v ∈ p.values, v.mode = .negative ∨ m0 = .positive) →
    parameterCases t ps = some cs → ∀ c ∈ cs, Good c := by
  intro ps
  induction ps with
  | nil => intro cs _ he c hc; simp [parameterCases] at he; subst he; simp at hc
  | cons p rest ih =>
    intro cs hp he c hc
    have hp1 := hp p (by simp)
    have hrest : ∀ q ∈ rest, _ := fun q hq => hp q (by simp [hq])
    unfold parameterCases at he
    cases hv : p.values with
    | nil => simp only [hv] at he; exact ih cs hrest he c hc
    | cons v more =>
      simp only [hv] at he
      cases hk : kindOfLocation p.location with
      | none => simp [hk] at he
      | some k =>
        cases htail : parameterCases t rest with
        | none => simp [hk, htail] at he
        | some tail =>
          simp only [hk, htail] at he
          cases hcont : getAssoc k t.conts with
          | none => simp [hcont] at he
          | some cont =>
            simp only [hcont, Option.some.injEq] at he
            subst he
            simp only [List.mem_append, List.mem_map] at hc
            rcases hc with ⟨w, hw, rfl⟩ | hc
            · have hwm := hp1 w (by simp [hv, hw])
              exact mkCase_good (good_withContainer h k _ w.mode (labelOf_varied h k cont hcont p.name w.mode hwm) hwm)
            · exact ih tail hrest htail c hc

theorem duplicateCases_good {m0 t} (h : TI m0 t) (query : List ParamIn) (cs : List Case)
    (he : duplicateCases t query = some cs) : ∀ c ∈ cs, Good c := by
  unfold duplicateCases at he
  split at he
  · simp at he; subst he; intro c hc; simp at hc
  · cases hcont : getAssoc Kind.query t.conts with
    | none => simp [hcont] at he
    | some cont =>
      simp only [hcont, Option.some.injEq] at he
      subst he
      intro c hc
      simp only [List.mem_filterMap] at hc
      obtain ⟨p, _, hp⟩ := hc
      split at hp
      · simp only [Option.some.injEq] at hp; subst hp
        exact mkCase_good (good_withContainer h .query _ .negative rfl (Or.inl rfl))
      · simp at hp

theorem missingCases_good {m0 t} (h : TI m0 t) : ∀ (ps : List ParamIn) (cs : List Case),
    missingCases t ps = some cs → ∀ c ∈ cs, Good c := by
  intro ps
  induction ps with
  | nil => intro cs he c hc; simp [missingCases] at he; subst he; simp at hc
  | cons p rest ih =>
    intro cs he c hc
    unfold missingCases at he
    split at he
    · cases hk : kindOfLocation p.location with
      | none => simp [hk] at he
      | some k =>
        cases htail : missingCases t rest with
        | none => simp [hk, htail] at he
        | some tail =>
          simp only [hk, htail] at he
          cases hcont : getAssoc k t.conts with
          | none => simp [hcont] at he
          | some cont =>
            simp only [hcont, Option.some.injEq] at he
            subst he
            simp only [List.mem_cons] at hc
            rcases hc with hc | hc
            · subst hc
              exact mkCase_good (good_withContainer h k _ .negative rfl (Or.inl rfl))
            · exact ih tail htail c hc
    · exact ih cs he c hc

theorem methodCases_good {m0 t} (h : TI m0 t) (methods : List String) : ∀ c ∈ methodCases t methods, Good c := by
  intro c hc
  simp only [methodCases, List.mem_map] at hc
  obtain ⟨m, _, rfl⟩ := hc
  exact methodCase_good h m

theorem yieldNegative_good {m0 t} (h : TI m0 t) (kind : Kind) (location : String) (vals : List LV) :
    ∀ c ∈ yieldNegative t kind location vals, Good c := by
  intro c hc
  simp only [yieldNegative, List.mem_map] at hc
  obtain ⟨v, _, rfl⟩ := hc
  exact mkCase_good (good_withContainer h kind _ .negative rfl (Or.inl rfl))

theorem base_clean {t} (h : TI .positive t) (kind : Kind) : anyNegative ((getAssoc kind t.conts).getD []) = false := by
  cases hc : getAssoc kind t.conts with
  | none => rfl
  | some xs =>
    have := h.uniform kind (labelOf (Content.slots xs)) (by rw [labelAt_template, hc])
    simp only [labelOf] at this
    by_cases ha : anyNegative xs = true
    · simp [ha] at this
    · simpa using ha

theorem positiveCombo_good {t} (h : TI .positive t) (kind : Kind) (p : Slot → Bool) (d : CaseDesc) (pl : Option String) :
    Good (mkCase .positive (t.withContainer kind (.slots (((getAssoc kind t.conts).getD []).filter p)) .positive) d none pl) := by
  apply mkCase_good
  apply good_withContainer h kind _ .positive _ (Or.inr rfl)
  simp [labelOf, anyNegative_filter p _ (base_clean h kind)]

theorem optionalCombos_good {m0 t} (h : TI m0 t) (kind : Kind) (location : String) (required : List String)
    (pos neg : Bool) (hpos : pos = true → m0 = .positive) :
    ∀ (opts : List String) (calls : List (List LV)),
      ∀ c ∈ (optionalCombos t kind location ((getAssoc kind t.conts).getD []) required pos neg opts calls).1, Good c := by
  intro opts
  induction opts with
  | nil => intro calls c hc; simp [optionalCombos] at hc
  | cons opt rest ih =>
    intro calls c hc
    unfold optionalCombos at hc
    simp only at hc
    split at hc
    · rename_i hcond
      have hp : pos = true := by
        simp only [Bool.and_eq_true] at hcond; exact hcond.2
      have hm0 := hpos hp
      subst hm0
      split at hc
      · rw [List.mem_append, List.mem_cons] at hc
        rcases hc with (hc | hc) | hc
        · subst hc; exact positiveCombo_good h kind _ _ _
        · exact yieldNegative_good h kind location _ c hc
        · exact ih _ c hc
      · simp only [List.mem_cons] at hc
        rcases hc with hc | hc
        · subst hc; exact positiveCombo_good h kind _ _ _
        · exact ih _ c hc
    · exact ih _ c hc

theorem comboBlock_good {m0 t} (h : TI m0 t) (location : String) (pset : List ParamIn) (pos neg : Bool)
    (hpos : pos = true → m0 = .positive) (calls : List (List LV)) (cs : List Case) (calls' : List (List LV))
    (he : comboBlock t location pset pos neg calls = some (cs, calls')) : ∀ c ∈ cs, Good c := by
  unfold comboBlock at he
  split at he
  · simp only [Option.some.injEq, Prod.mk.injEq] at he
    obtain ⟨rfl, _⟩ := he
    intro c hc; simp at hc
  · cases hk : kindOfLocation location with
    | none => simp [hk] at he
    | some kind =>
      simp only [hk, Option.some.injEq, Prod.mk.injEq] at he
      obtain ⟨he, _⟩ := he
      subst he
      intro c hc
      simp only [List.mem_append] at hc
      rcases hc with (hc | hc) | hc
      · -- step 1
        split at hc
        · split at hc
          · simp only [List.mem_append] at hc
            rcases hc with hc | hc
            · split at hc
              · rename_i hp
                have hm0 := hpos hp; subst hm0
                simp only [List.mem_cons, List.mem_nil_iff, or_false] at hc
                subst hc; exact positiveCombo_good h kind _ _ _
              · simp at hc
            · exact yieldNegative_good h kind location _ c hc
          · split at hc
            · rename_i hp
              have hm0 := hpos hp; subst hm0
              simp only [List.mem_cons, List.mem_nil_iff, or_false] at hc
              subst hc; exact positiveCombo_good h kind _ _ _
            · simp at hc
        · simp at hc
      · exact optionalCombos_good h kind location _ pos neg hpos _ _ c hc
      · -- step 3
        split at hc
        · rename_i hcond
          have hp : pos = true := by
            simp only [Bool.and_eq_true] at hcond; exact hcond.2
          have hm0 := hpos hp; subst hm0
          simp only [List.mem_flatMap, List.mem_filterMap] at hc
          obtain ⟨size, _, sel, _, hsel⟩ := hc
          split at hsel
          · simp only [Option.some.injEq] at hsel; subst hsel
            exact positiveCombo_good h kind _ _ _
          · simp at hsel
        · simp at hc

theorem wf_facts (inp : OpIn) (hwf : WF inp) :
    (∀ p ∈ inp.params, kindOfLocation p.location ≠ some Kind.body ∧ ∀ v rest, p.values = v :: rest → v.mode = baseMode inp) ∧
    (∀ p ∈ inp.params, ∀ v ∈ p.values, v.mode = .negative ∨ baseMode inp = .positive) ∧
    (∀ b ∈ inp.bodies, (∀ v rest, b.values = v :: rest → v.mode = baseMode inp) ∧
        ∀ v ∈ b.values, v.mode = .negative ∨ baseMode inp = .positive) ∧
    (inp.pos = true → baseMode inp = .positive) := by
  unfold baseMode
  cases hp : inp.pos with
  | true =>
    obtain ⟨h1, h2⟩ := hwf.headsPos hp
    refine ⟨?_, ?_, ?_, ?_⟩
    · intro p hpm; exact ⟨hwf.nobody p hpm, fun v rest hv => by simpa using h1 p hpm v rest hv⟩
    · intro p _ v _; right; rfl
    · intro b hb; exact ⟨fun v rest hv => by simpa using h2 b hb v rest hv, fun v _ => Or.inr rfl⟩
    · intro _; rfl
  | false =>
    obtain ⟨h1, h2⟩ := hwf.allNeg hp
    refine ⟨?_, ?_, ?_, ?_⟩
    · intro p hpm
      exact ⟨hwf.nobody p hpm, fun v rest hv => by simpa using h1 p hpm v (by simp [hv])⟩
    · intro p hpm v hv; left; exact h1 p hpm v hv
    · intro b hb
      exact ⟨fun v rest hv => by simpa using h2 b hb v (by simp [hv]), fun v hv => Or.inl (h2 b hb v hv)⟩
    · intro e; cases e

/-- all cases of the repaired `_iter_coverage_cases` are good under the well-formedness of its inputs -/
theorem iterCases_good (inp : OpIn) (hwf : WF inp) (cs : List Case) (he : iterCases .repaired inp = some cs) :
    ∀ c ∈ cs, Good c := by
  obtain ⟨hheads, hvals, hbodies, hposm⟩ := wf_facts inp hwf
  unfold iterCases at he
  cases ht0 : buildTemplate inp.params {} with
  | none => simp [ht0] at he
  | some t0 =>
    simp only [ht0] at he
    have hti0 : TI (baseMode inp) t0 := buildTemplate_TI inp.params {} t0 (TI_empty _) hheads ht0
    -- the body block / default case
    have hbp : (∀ c ∈ (if inp.hasBody then bodyCases .repaired inp.bodies t0
                       else if inp.pos then ([mkCase .positive (t0.comps, t0.contents) .defaultPositive none none], t0)
                       else ([], t0)).1, Good c) ∧
               TI (baseMode inp) (if inp.hasBody then bodyCases .repaired inp.bodies t0
                       else if inp.pos then ([mkCase .positive (t0.comps, t0.contents) .defaultPositive none none], t0)
                       else ([], t0)).2 := by
      split
      · exact bodyCases_good inp.bodies t0 hti0 hbodies
      · split
        · rename_i hp
          refine ⟨?_, hti0⟩
          intro c hc
          simp only [List.mem_cons, List.mem_nil_iff, or_false] at hc
          subst hc
          exact mkCase_good (good_template hti0 (hposm hp))
        · exact ⟨by intro c hc; simp at hc, hti0⟩
    generalize (if inp.hasBody then bodyCases .repaired inp.bodies t0
                else if inp.pos then ([mkCase .positive (t0.comps, t0.contents) .defaultPositive none none], t0)
                else ([], t0)) = bp at he hbp
    obtain ⟨hbcases, hti⟩ := hbp
    cases hpc : parameterCases bp.2 inp.params with
    | none => simp [hpc] at he
    | some pcs =>
      simp only [hpc] at he
      have hpcs := parameterCases_good hti inp.params pcs hvals hpc
      split at he
      · simp at he
      · rename_i ncs hneg
        have hncs : ∀ c ∈ ncs, Good c := by
          split at hneg
          · cases hd : duplicateCases bp.2 (inp.params.filter (·.location == "query")) with
            | none => simp [hd] at hneg
            | some d =>
              cases hm : missingCases bp.2 inp.params with
              | none => simp [hd, hm] at hneg
              | some m =>
                simp only [hd, hm, Option.some.injEq] at hneg
                subst hneg
                intro c hc
                simp only [List.mem_append] at hc
                rcases hc with (hc | hc) | hc
                · exact methodCases_good hti inp.methods c hc
                · exact duplicateCases_good hti _ d hd c hc
                · exact missingCases_good hti inp.params m hm c hc
          · simp only [Option.some.injEq] at hneg; subst hneg; intro c hc; simp at hc
        split at he
        · simp at he
        · rename_i c1 calls1 hc1
          split at he
          · simp at he
          · rename_i c2 calls2 hc2
            split at he
            · simp at he
            · rename_i c3 calls3 hc3
              simp only [Option.some.injEq] at he
              subst he
              intro c hc
              simp only [List.mem_append] at hc
              rcases hc with ((((hc | hc) | hc) | hc) | hc) | hc
              · exact hbcases c hc
              · exact hpcs c hc
              · exact hncs c hc
              · exact comboBlock_good hti "query" _ inp.pos inp.neg hposm _ c1 calls1 hc1 c hc
              · exact comboBlock_good hti "header" _ inp.pos inp.neg hposm _ c2 calls2 hc2 c hc
              · exact comboBlock_good hti "cookie" _ inp.pos inp.neg hposm _ c3 calls3 hc3 c hc

/-- away from the F8 site the two variants of the body block coincide -/
theorem bodyCases_asFound_eq : ∀ (bs : List BodyIn) (t : Template),
    (∀ b ∈ bs, ∀ v rest, b.values = v :: rest → ∀ w ∈ rest, w.mode = v.mode) →
    bodyCases .asFound bs t = bodyCases .repaired bs t := by
  intro bs
  induction bs with
  | nil => intro t _; rfl
  | cons b rest ih =>
    intro t hb
    have hrest : ∀ q ∈ rest, _ := fun q hq => hb q (by simp [hq])
    unfold bodyCases
    cases hv : b.values with
    | nil => simp only; exact ih t hrest
    | cons v more =>
      simp only
      rw [ih _ hrest]
      have hm := hb b (by simp) v more hv
      have : (more.map fun nv => mkCase v.mode ((if t.body.isNone then t.setBody v else t).withBody nv) (.value nv.desc)
                (some b.mediaType) (some "body")) =
             (more.map fun nv => mkCase nv.mode ((if t.body.isNone then t.setBody v else t).withBody nv) (.value nv.desc)
                (some b.mediaType) (some "body")) := by
        apply List.map_congr_left
        intro w hw; rw [hm w hw]
      rw [this]

end SV.Proofs.C03
