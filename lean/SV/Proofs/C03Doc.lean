/-
  Helper lemmas for the document-level theorems of C03: which cases of `_iter_coverage_cases` carry a method of their
  own, where 'Missing …' descriptions come from, and how the model's reading of the document (resolved path item,
  merged parameter declarations) relates to the reference reading in SV/Spec/C03Doc.lean.
-/
import SV.Proofs.C03Cases
import SV.Spec.C03Doc

namespace SV.Proofs.C03
open SV SV.Model.C03 SV.Spec.C03

/-! ### sorted sets -/

theorem mem_insertSortedS (s y : String) : ∀ (l : List String), y ∈ insertSortedS s l ↔ y = s ∨ y ∈ l := by
  intro l
  induction l with
  | nil => simp [insertSortedS]
  | cons x rest ih =>
    unfold insertSortedS
    split
    · simp
    · split
      · rename_i _ he
        have : s = x := by simpa using he
        subst this
        simp
      · simp only [List.mem_cons, ih]
        constructor
        · rintro (h | h | h)
          · exact Or.inr (Or.inl h)
          · exact Or.inl h
          · exact Or.inr (Or.inr h)
        · rintro (h | h | h)
          · exact Or.inr (Or.inl h)
          · exact Or.inl h
          · exact Or.inr (Or.inr h)

theorem mem_foldl_insertSortedS (y : String) : ∀ (xs acc : List String),
    y ∈ xs.foldl (fun acc x => insertSortedS x acc) acc ↔ y ∈ xs ∨ y ∈ acc := by
  intro xs
  induction xs with
  | nil => intro acc; simp
  | cons x rest ih =>
    intro acc
    simp only [List.foldl_cons, ih, mem_insertSortedS, List.mem_cons]
    constructor
    · rintro (h | h | h)
      · exact Or.inl (Or.inr h)
      · exact Or.inl (Or.inl h)
      · exact Or.inr h
    · rintro ((h | h) | h)
      · exact Or.inr (Or.inl h)
      · exact Or.inl h
      · exact Or.inr (Or.inr h)

theorem mem_sortedSet (y : String) (xs : List String) : y ∈ sortedSet xs ↔ y ∈ xs := by
  simp [sortedSet, mem_foldl_insertSortedS]

/-! ### the two readings of the document agree -/

theorem getAssoc_eq_find {β} (k : String) : ∀ (l : List (String × β)),
    getAssoc k l = (l.find? fun p => p.1 == k).map (·.2) := by
  intro l
  induction l with
  | nil => rfl
  | cons x rest ih =>
    obtain ⟨k', v⟩ := x
    unfold getAssoc
    by_cases h : k' = k
    · subst h; simp
    · have : (k' == k) = false := by simpa using h
      simp [h, this, ih]

theorem resolve_eq_pathItemOf (d : Doc) : resolvePathItem d = pathItemOf d := by
  unfold resolvePathItem pathItemOf
  cases d.entry with
  | inline item => rfl
  | ref name => exact getAssoc_eq_find name d.pathItems

theorem mem_unexpectedMethods (item : PathItem) (cfg : Option (List String)) (m : String) :
    m ∈ unexpectedMethods item cfg ↔ m ∈ effectiveUnexpected cfg ∧ item.keys.contains m = false := by
  simp [unexpectedMethods, mem_sortedSet, operationMapKeys]

/-! ### parameter declarations -/

theorem declared_of_mem : ∀ (ds : List Decl) (x : Decl), noDupDecls ds = true → x ∈ ds →
    declared? ds x.name x.loc = some x := by
  intro ds
  induction ds with
  | nil => intro x _ h; simp at h
  | cons y rest ih =>
    intro x hn hx
    simp only [noDupDecls, Bool.and_eq_true, Bool.not_eq_true'] at hn
    obtain ⟨hy, hrest⟩ := hn
    unfold declared?
    rw [List.find?_cons]
    rcases List.mem_cons.mp hx with rfl | hx'
    · simp
    · have hne : (y.name == x.name && y.loc == x.loc) = false := by
        rw [List.any_eq_false] at hy
        have := hy x hx'
        simpa [sameParam] using this
      simp only [hne]
      exact ih x hrest hx'

theorem declared_none_of_not_any (own : List Decl) (s : Decl) (h : (own.any fun o => sameParam o s) = false) :
    declared? own s.name s.loc = none := by
  unfold declared?
  rw [List.find?_eq_none]
  intro o ho
  rw [List.any_eq_false] at h
  have := h o ho
  simpa [sameParam] using this

theorem mem_iterParameters (ds : List Decl) (x : Decl) (h : x ∈ iterParameters ds) : x ∈ ds := by
  simp only [iterParameters, List.mem_append, List.mem_filter] at h
  rcases h with ((h | h) | h) | h <;> exact h.1

theorem mem_zipStreams : ∀ (ds : List Decl) (ss : List (List LV)) (p : ParamIn), p ∈ zipStreams ds ss →
    ∃ x ∈ ds, p.name = x.name ∧ p.location = x.loc ∧ p.required = x.required := by
  intro ds
  induction ds with
  | nil => intro ss p h; simp [zipStreams] at h
  | cons d rest ih =>
    intro ss p h
    cases ss with
    | nil =>
      simp only [zipStreams, List.mem_cons] at h
      rcases h with rfl | h
      · exact ⟨d, by simp, rfl, rfl, rfl⟩
      · obtain ⟨x, hx, hh⟩ := ih [] p h
        exact ⟨x, by simp [hx], hh⟩
    | cons s ss =>
      simp only [zipStreams, List.mem_cons] at h
      rcases h with rfl | h
      · exact ⟨d, by simp, rfl, rfl, rfl⟩
      · obtain ⟨x, hx, hh⟩ := ih ss p h
        exact ⟨x, by simp [hx], hh⟩

/-- a parameter the model hands to the case assembly is required exactly when the document says so -/
theorem required_of_operationParameters (d : Doc) (item : PathItem) (hres : pathItemOf d = some item) (m : String)
    (hown : noDupDecls ((getAssoc m item.own).getD []) = true) (hshared : noDupDecls item.shared = true)
    (x : Decl) (hx : x ∈ operationParameters item m) : requiresParam d m x.name x.loc = x.required := by
  unfold requiresParam
  rw [hres]
  simp only
  rw [← getAssoc_eq_find]
  have hx' := mem_iterParameters _ _ hx
  simp only [mergeParameters, List.mem_append, List.mem_filter] at hx'
  rcases hx' with h | ⟨hs, hno⟩
  · rw [declared_of_mem _ x hown h]
  · have hno' : (((getAssoc m item.own).getD []).any fun o => sameParam o x) = false := by simpa using hno
    rw [declared_none_of_not_any _ x hno', declared_of_mem _ x hshared hs]

/-! ### which cases carry a method of their own / a 'Missing …' description -/

/-- an ordinary case: sent with the operation's own method; if it claims a missing parameter, that parameter is one of
    the operation's required parameters -/
def Plain (ps : List ParamIn) (c : Case) : Prop :=
  c.method = none ∧ (∀ m, c.desc ≠ .unspecifiedMethod m) ∧
  ∀ n l, c.desc = .missing n l → c.parameter = some n ∧ c.parameterLocation = some l ∧
    ∃ p ∈ ps, p.name = n ∧ p.location = l ∧ p.required = true

theorem plain_mkCase (ps : List ParamIn) (mode : Mode) (cc) (desc : CaseDesc) (p pl : Option String)
    (h1 : ∀ m, desc ≠ .unspecifiedMethod m) (h2 : ∀ n l, desc ≠ .missing n l) :
    Plain ps (mkCase mode cc desc p pl) :=
  ⟨rfl, h1, fun n l h => absurd h (h2 n l)⟩

theorem plain_value (ps : List ParamIn) (mode : Mode) (cc) (d : Desc) (p pl : Option String) :
    Plain ps (mkCase mode cc (.value d) p pl) :=
  plain_mkCase ps mode cc _ p pl (by intro m h; cases h) (by intro n l h; cases h)

theorem bodyCases_plain (ps : List ParamIn) (vb : Variant) : ∀ (bs : List BodyIn) (t : Template),
    ∀ c ∈ (bodyCases vb bs t).1, Plain ps c := by
  intro bs
  induction bs with
  | nil => intro t c hc; simp [bodyCases] at hc
  | cons b rest ih =>
    intro t c hc
    unfold bodyCases at hc
    cases hv : b.values with
    | nil => simp only [hv] at hc; exact ih t c hc
    | cons v more =>
      simp only [hv] at hc
      rw [List.mem_append, List.mem_cons, List.mem_map] at hc
      rcases hc with (hc | ⟨nv, _, hc⟩) | hc
      · subst hc; exact plain_value ..
      · subst hc; exact plain_value ..
      · exact ih _ c hc

theorem parameterCases_plain (ps : List ParamIn) (t : Template) : ∀ (qs : List ParamIn) (cs : List Case),
    parameterCases t qs = some cs → ∀ c ∈ cs, Plain ps c := by
  intro qs
  induction qs with
  | nil => intro cs he c hc; simp [parameterCases] at he; subst he; simp at hc
  | cons p rest ih =>
    intro cs he c hc
    unfold parameterCases at he
    cases hv : p.values with
    | nil => simp only [hv] at he; exact ih cs he c hc
    | cons v more =>
      simp only [hv] at he
      cases hk : kindOfLocation p.location with
      | none => simp [hk] at he
      | some k =>
        cases htail : parameterCases t rest with
        | none => simp [hk, htail] at he
        | some tail =>
          simp only [hk, htail] at he
          cases hcont : getAssoc k t.conts with
          | none => simp [hcont] at he
          | some cont =>
            simp only [hcont, Option.some.injEq] at he
            subst he
            simp only [List.mem_append, List.mem_map] at hc
            rcases hc with ⟨w, _, rfl⟩ | hc
            · exact plain_value ..
            · exact ih tail htail c hc

theorem duplicateCases_plain (ps : List ParamIn) (t : Template) (query : List ParamIn) (cs : List Case)
    (he : duplicateCases t query = some cs) : ∀ c ∈ cs, Plain ps c := by
  unfold duplicateCases at he
  split at he
  · simp at he; subst he; intro c hc; simp at hc
  · cases hcont : getAssoc Kind.query t.conts with
    | none => simp [hcont] at he
    | some cont =>
      simp only [hcont, Option.some.injEq] at he
      subst he
      intro c hc
      simp only [List.mem_filterMap] at hc
      obtain ⟨p, _, hp⟩ := hc
      split at hp
      · simp only [Option.some.injEq] at hp; subst hp
        exact plain_mkCase _ _ _ _ _ _ (by intro m h; cases h) (by intro n l h; cases h)
      · simp at hp

theorem missingCases_plain (t : Template) : ∀ (qs : List ParamIn) (cs : List Case),
    missingCases t qs = some cs → ∀ c ∈ cs, Plain qs c := by
  intro qs
  induction qs with
  | nil => intro cs he c hc; simp [missingCases] at he; subst he; simp at hc
  | cons p rest ih =>
    intro cs he c hc
    have lift : ∀ c, Plain rest c → Plain (p :: rest) c := by
      intro c ⟨h1, h2, h3⟩
      refine ⟨h1, h2, ?_⟩
      intro n l h
      obtain ⟨hp1, hp2, q, hq, hh⟩ := h3 n l h
      exact ⟨hp1, hp2, q, by simp [hq], hh⟩
    unfold missingCases at he
    split at he
    · rename_i hreq
      cases hk : kindOfLocation p.location with
      | none => simp [hk] at he
      | some k =>
        cases htail : missingCases t rest with
        | none => simp [hk, htail] at he
        | some tail =>
          simp only [hk, htail] at he
          cases hcont : getAssoc k t.conts with
          | none => simp [hcont] at he
          | some cont =>
            simp only [hcont, Option.some.injEq] at he
            subst he
            simp only [List.mem_cons] at hc
            rcases hc with hc | hc
            · subst hc
              refine ⟨rfl, (by intro m h; cases h), ?_⟩
              intro n l h
              simp only [mkCase, CaseDesc.missing.injEq] at h
              obtain ⟨rfl, rfl⟩ := h
              simp only [Bool.and_eq_true] at hreq
              exact ⟨rfl, rfl, p, by simp, rfl, rfl, hreq.1⟩
            · exact lift c (ih tail htail c hc)
    · exact lift c (ih cs he c hc)

theorem yieldNegative_plain (ps : List ParamIn) (t : Template) (kind : Kind) (location : String) (vals : List LV) :
    ∀ c ∈ yieldNegative t kind location vals, Plain ps c := by
  intro c hc
  simp only [yieldNegative, List.mem_map] at hc
  obtain ⟨v, _, rfl⟩ := hc
  exact plain_value ..

theorem optionalCombos_plain (ps : List ParamIn) (t : Template) (kind : Kind) (location : String) (base : List Slot)
    (required : List String) (pos neg : Bool) :
    ∀ (opts : List String) (calls : List (List LV)),
      ∀ c ∈ (optionalCombos t kind location base required pos neg opts calls).1, Plain ps c := by
  intro opts
  induction opts with
  | nil => intro calls c hc; simp [optionalCombos] at hc
  | cons opt rest ih =>
    intro calls c hc
    unfold optionalCombos at hc
    simp only at hc
    split at hc
    · split at hc
      · rw [List.mem_append, List.mem_cons] at hc
        rcases hc with (hc | hc) | hc
        · subst hc; exact plain_mkCase _ _ _ _ _ _ (by intro m h; cases h) (by intro n l h; cases h)
        · exact yieldNegative_plain ps t kind location _ c hc
        · exact ih _ c hc
      · simp only [List.mem_cons] at hc
        rcases hc with hc | hc
        · subst hc; exact plain_mkCase _ _ _ _ _ _ (by intro m h; cases h) (by intro n l h; cases h)
        · exact ih _ c hc
    · exact ih _ c hc

theorem comboBlock_plain (ps : List ParamIn) (t : Template) (location : String) (pset : List ParamIn) (pos neg : Bool)
    (calls : List (List LV)) (cs : List Case) (calls' : List (List LV))
    (he : comboBlock t location pset pos neg calls = some (cs, calls')) : ∀ c ∈ cs, Plain ps c := by
  unfold comboBlock at he
  split at he
  · simp only [Option.some.injEq, Prod.mk.injEq] at he
    obtain ⟨rfl, _⟩ := he
    intro c hc; simp at hc
  · cases hk : kindOfLocation location with
    | none => simp [hk] at he
    | some kind =>
      simp only [hk, Option.some.injEq, Prod.mk.injEq] at he
      obtain ⟨he, _⟩ := he
      subst he
      intro c hc
      simp only [List.mem_append] at hc
      rcases hc with (hc | hc) | hc
      · split at hc
        · split at hc
          · simp only [List.mem_append] at hc
            rcases hc with hc | hc
            · split at hc
              · simp only [List.mem_cons, List.mem_nil_iff, or_false] at hc
                subst hc; exact plain_mkCase _ _ _ _ _ _ (by intro m h; cases h) (by intro n l h; cases h)
              · simp at hc
            · exact yieldNegative_plain ps t kind location _ c hc
          · split at hc
            · simp only [List.mem_cons, List.mem_nil_iff, or_false] at hc
              subst hc; exact plain_mkCase _ _ _ _ _ _ (by intro m h; cases h) (by intro n l h; cases h)
            · simp at hc
        · simp at hc
      · exact optionalCombos_plain ps t kind location _ _ pos neg _ _ c hc
      · split at hc
        · simp only [List.mem_flatMap, List.mem_filterMap] at hc
          obtain ⟨size, _, sel, _, hsel⟩ := hc
          split at hsel
          · simp only [Option.some.injEq] at hsel; subst hsel
            exact plain_mkCase _ _ _ _ _ _ (by intro m h; cases h) (by intro n l h; cases h)
          · simp at hsel
        · simp at hc

/-- a case of the 'Unspecified HTTP method' block -/
def MethodCase (methods : List String) (c : Case) : Prop :=
  ∃ m ∈ methods, c.method = some m ∧ c.desc = .unspecifiedMethod m ∧ c.mode = .negative

/-- every case of `_iter_coverage_cases` is an ordinary one or one of the 'Unspecified HTTP method' block (which
    exists only in negative mode) -/
theorem iterCases_shape (vb : Variant) (inp : OpIn) (cs : List Case) (he : iterCases vb inp = some cs) :
    ∀ c ∈ cs, Plain inp.params c ∨ (inp.neg = true ∧ MethodCase inp.methods c) := by
  unfold iterCases at he
  cases ht0 : buildTemplate inp.params {} with
  | none => simp [ht0] at he
  | some t0 =>
    simp only [ht0] at he
    have hbp : ∀ c ∈ (if inp.hasBody then bodyCases vb inp.bodies t0
                       else if inp.pos then ([mkCase .positive (t0.comps, t0.contents) .defaultPositive none none], t0)
                       else ([], t0)).1, Plain inp.params c := by
      split
      · exact bodyCases_plain inp.params vb inp.bodies t0
      · split
        · intro c hc
          simp only [List.mem_cons, List.mem_nil_iff, or_false] at hc
          subst hc
          exact plain_mkCase _ _ _ _ _ _ (by intro m h; cases h) (by intro n l h; cases h)
        · intro c hc; simp at hc
    generalize (if inp.hasBody then bodyCases vb inp.bodies t0
                else if inp.pos then ([mkCase .positive (t0.comps, t0.contents) .defaultPositive none none], t0)
                else ([], t0)) = bp at he hbp
    cases hpc : parameterCases bp.2 inp.params with
    | none => simp [hpc] at he
    | some pcs =>
      simp only [hpc] at he
      have hpcs := parameterCases_plain inp.params bp.2 inp.params pcs hpc
      split at he
      · simp at he
      · rename_i ncs hneg
        have hncs : ∀ c ∈ ncs, Plain inp.params c ∨ (inp.neg = true ∧ MethodCase inp.methods c) := by
          split at hneg
          · rename_i hn
            cases hd : duplicateCases bp.2 (inp.params.filter (·.location == "query")) with
            | none => simp [hd] at hneg
            | some d =>
              cases hm : missingCases bp.2 inp.params with
              | none => simp [hd, hm] at hneg
              | some m =>
                simp only [hd, hm, Option.some.injEq] at hneg
                subst hneg
                intro c hc
                simp only [List.mem_append] at hc
                rcases hc with (hc | hc) | hc
                · right
                  refine ⟨hn, ?_⟩
                  simp only [methodCases, List.mem_map] at hc
                  obtain ⟨mm, hmm, rfl⟩ := hc
                  exact ⟨mm, hmm, rfl, rfl, rfl⟩
                · exact Or.inl (duplicateCases_plain inp.params _ _ d hd c hc)
                · exact Or.inl (missingCases_plain _ inp.params m hm c hc)
          · simp only [Option.some.injEq] at hneg; subst hneg; intro c hc; simp at hc
        split at he
        · simp at he
        · rename_i c1 calls1 hc1
          split at he
          · simp at he
          · rename_i c2 calls2 hc2
            split at he
            · simp at he
            · rename_i c3 calls3 hc3
              simp only [Option.some.injEq] at he
              subst he
              intro c hc
              simp only [List.mem_append] at hc
              rcases hc with ((((hc | hc) | hc) | hc) | hc) | hc
              · exact Or.inl (hbp c hc)
              · exact Or.inl (hpcs c hc)
              · exact hncs c hc
              · exact Or.inl (comboBlock_plain inp.params _ "query" _ inp.pos inp.neg _ c1 calls1 hc1 c hc)
              · exact Or.inl (comboBlock_plain inp.params _ "header" _ inp.pos inp.neg _ c2 calls2 hc2 c hc)
              · exact Or.inl (comboBlock_plain inp.params _ "cookie" _ inp.pos inp.neg _ c3 calls3 hc3 c hc)

/-- conversely, in negative mode every method of the block gets its case -/
theorem iterCases_methods_complete (vb : Variant) (inp : OpIn) (cs : List Case) (he : iterCases vb inp = some cs)
    (hneg : inp.neg = true) (m : String) (hm : m ∈ inp.methods) :
    ∃ c ∈ cs, c.method = some m ∧ c.desc = .unspecifiedMethod m ∧ c.mode = .negative := by
  unfold iterCases at he
  cases ht0 : buildTemplate inp.params {} with
  | none => simp [ht0] at he
  | some t0 =>
    simp only [ht0] at he
    generalize (if inp.hasBody then bodyCases vb inp.bodies t0
                else if inp.pos then ([mkCase .positive (t0.comps, t0.contents) .defaultPositive none none], t0)
                else ([], t0)) = bp at he
    cases hpc : parameterCases bp.2 inp.params with
    | none => simp [hpc] at he
    | some pcs =>
      simp only [hpc, hneg, if_true] at he
      cases hd : duplicateCases bp.2 (inp.params.filter (·.location == "query")) with
      | none => simp [hd] at he
      | some d =>
        cases hmi : missingCases bp.2 inp.params with
        | none => simp [hd, hmi] at he
        | some mi =>
          simp only [hd, hmi] at he
          split at he
          · simp at he
          · split at he
            · simp at he
            · split at he
              · simp at he
              · simp only [Option.some.injEq] at he
                subst he
                refine ⟨mkCase .negative (bp.2.comps, bp.2.contents) (.unspecifiedMethod m) none none (some m), ?_, rfl, rfl, rfl⟩
                simp only [List.mem_append, methodCases, List.mem_map]
                exact Or.inl (Or.inl (Or.inl (Or.inr (Or.inl (Or.inl ⟨m, hm, rfl⟩)))))

end SV.Proofs.C03
