/-
  Helper lemmas for C04 (not property statements): digit strings and instances of status keys, lookups,
  the media-type parser, and the per-aspect/core forms behind the theorems of SV/Props/C04.lean.
-/
import SV.Spec.C04
import SV.Spec.JsonSchema
open SV SV.Model.C04 SV.Spec.C04
namespace SV.Proofs.C04

theorem isDigit_bounds (c : Char) (h : c.isDigit = true) : 48 ≤ c.toNat ∧ c.toNat ≤ 57 := by
  simp [Char.isDigit] at h
  have a := UInt32.le_iff_toNat_le.mp h.1
  have b := UInt32.le_iff_toNat_le.mp h.2
  simp at a b
  exact ⟨a, b⟩

theorem digit_toUpper (c : Char) (h : c.isDigit = true) : c.toUpper = c := by
  have hb := isDigit_bounds c h
  simp only [Char.toUpper]
  split
  · next h1 =>
    exfalso
    have b : 97 ≤ c.val.toNat := by simpa using UInt32.le_iff_toNat_le.mp h1.1
    have : c.toNat = c.val.toNat := rfl
    omega
  · rfl

theorem digit_not_X (c : Char) (h : c.isDigit = true) : isX c = false := by
  have hb := isDigit_bounds c h
  simp only [isX, Bool.or_eq_false_iff, beq_eq_false_iff_ne, ne_eq]
  constructor <;> (intro e; subst e; revert hb; decide)

theorem digitVal_eq (c : Char) : digitVal c = c.toNat - 48 := rfl

theorem digitVal_lt (c : Char) (h : c.isDigit = true) : digitVal c < 10 := by
  have hb := isDigit_bounds c h
  rw [digitVal_eq]; omega

theorem mem_digitChars (d : Char) (h : d ∈ digitChars) : d.isDigit = true := by
  simp [digitChars] at h
  rcases h with h | h | h | h | h | h | h | h | h | h <;> subst h <;> decide

theorem exists_digitChar (m : Nat) (h : m < 10) : ∃ d, d ∈ digitChars ∧ digitVal d = m := by
  have : ∀ m : Fin 10, ∃ d, d ∈ digitChars ∧ digitVal d = m.val := by decide
  exact this ⟨m, h⟩

def Inst : List Char → List Char → Prop
  | [], [] => True
  | c :: k, d :: s => d ∈ choices c ∧ Inst k s
  | _, _ => False

theorem mem_product (k s : List Char) : s ∈ product (k.map choices) ↔ Inst k s := by
  induction k generalizing s with
  | nil => cases s <;> simp [product, Inst]
  | cons c k ih =>
    cases s with
    | nil => simp [product, Inst]
    | cons d s =>
      simp only [List.map_cons, product, List.mem_flatMap, List.mem_map, Inst]
      constructor
      · rintro ⟨a, ha, t, ht, e⟩
        simp only [List.cons.injEq] at e
        obtain ⟨e1, e2⟩ := e
        subst e1; subst e2
        exact ⟨ha, (ih _).mp ht⟩
      · rintro ⟨h1, h2⟩
        exact ⟨d, h1, s, (ih s).mpr h2, rfl⟩

theorem inst_snoc (k : List Char) (c : Char) (s : List Char) :
    Inst (k ++ [c]) s ↔ ∃ s' d, s = s' ++ [d] ∧ Inst k s' ∧ d ∈ choices c := by
  induction k generalizing s with
  | nil =>
    cases s with
    | nil => simp [Inst]
    | cons d s =>
      cases s with
      | nil =>
        simp only [List.nil_append, Inst, and_true]
        constructor
        · intro h; exact ⟨[], d, rfl, trivial, h⟩
        · rintro ⟨s', d', e, h1, h2⟩
          cases s' with
          | nil => simp at e; subst e; exact h2
          | cons x xs => simp [Inst] at h1
      | cons e s =>
        simp only [List.nil_append, Inst, and_false, false_iff]
        rintro ⟨s', d', e', h1, h2⟩
        cases s' with
        | nil => simp at e'
        | cons x xs => simp [Inst] at h1
  | cons c' k ih =>
    cases s with
    | nil => simp [Inst]
    | cons d s =>
      simp only [List.cons_append, Inst, ih s]
      constructor
      · rintro ⟨h1, s', d', e, h2, h3⟩
        exact ⟨d :: s', d', by simp [e], ⟨h1, h2⟩, h3⟩
      · rintro ⟨s', d', e, h2, h3⟩
        cases s' with
        | nil => simp [Inst] at h2
        | cons x xs =>
          simp only [List.cons_append, List.cons.injEq] at e
          obtain ⟨e1, e2⟩ := e
          subst e1
          exact ⟨h2.1, xs, d', e2, h2.2, h3⟩

theorem valOf_snoc (s : List Char) (d : Char) : valOf (s ++ [d]) = valOf s * 10 + digitVal d := by
  simp [valOf, List.foldl_append]


def keyChar (c : Char) : Bool := c.isDigit || isX c

theorem choices_X (c : Char) (h : isX c = true) : choices c = digitChars := by
  simp only [isX] at h
  simp [choices, h]

theorem choices_digit (c : Char) (h : c.isDigit = true) : choices c = [c] := by
  have hx := digit_not_X c h
  simp only [isX] at hx
  simp [choices, hx, digit_toUpper c h]

theorem choices_isDigit (c d : Char) (hc : keyChar c = true) (hd : d ∈ choices c) : d.isDigit = true := by
  by_cases hx : isX c = true
  · rw [choices_X c hx] at hd; exact mem_digitChars d hd
  · have : c.isDigit = true := by simpa [keyChar, hx] using hc
    rw [choices_digit c this] at hd
    simp at hd; subst hd; exact this

/-- instances of a key and their values: the arithmetic reading, least significant digit first -/
theorem inst_val_rev (kr : List Char) (hk : kr.all keyChar = true) (n : Nat) :
    (∃ s, Inst kr.reverse s ∧ valOf s = n) ↔ matchRev kr n = true := by
  induction kr generalizing n with
  | nil =>
    simp only [List.reverse_nil, matchRev, beq_iff_eq]
    constructor
    · rintro ⟨s, hs, hv⟩
      cases s with
      | nil => simpa [valOf] using hv.symm
      | cons d s => simp [Inst] at hs
    · intro h; exact ⟨[], trivial, by simp [valOf, h]⟩
  | cons c kr ih =>
    have hk' : kr.all keyChar = true := by
      simp only [List.all_cons, Bool.and_eq_true] at hk; exact hk.2
    have hc : keyChar c = true := by
      simp only [List.all_cons, Bool.and_eq_true] at hk; exact hk.1
    generalize hkk : kr.reverse = k at ih
    simp only [List.reverse_cons, hkk, matchRev, Bool.and_eq_true, Bool.or_eq_true, beq_iff_eq]
    constructor
    · rintro ⟨s, hs, hv⟩
      obtain ⟨s', d, e, h1, h2⟩ := (inst_snoc k c s).mp hs
      subst e
      rw [valOf_snoc] at hv
      have hd := choices_isDigit c d hc h2
      have hlt := digitVal_lt d hd
      have hmod : n % 10 = digitVal d := by omega
      have hdiv : n / 10 = valOf s' := by omega
      refine ⟨?_, ?_⟩
      · by_cases hx : isX c = true
        · exact Or.inl hx
        · have hcd : c.isDigit = true := by simpa [keyChar, hx] using hc
          rw [choices_digit c hcd] at h2
          simp at h2; subst h2
          exact Or.inr ⟨hcd, hmod.symm⟩
      · rw [hdiv]; exact (ih hk' _).mp ⟨s', h1, rfl⟩
    · rintro ⟨h1, h2⟩
      obtain ⟨s', hs', hv'⟩ := (ih hk' _).mpr h2
      by_cases hx : isX c = true
      · obtain ⟨d, hd, hdv⟩ := exists_digitChar (n % 10) (Nat.mod_lt _ (by omega))
        refine ⟨s' ++ [d], (inst_snoc k c _).mpr ⟨s', d, rfl, hs', by rw [choices_X c hx]; exact hd⟩, ?_⟩
        rw [valOf_snoc, hv', hdv]; omega
      · have hcd : c.isDigit = true ∧ digitVal c = n % 10 := by
          rcases h1 with h1 | h1
          · exact absurd h1 hx
          · exact h1
        refine ⟨s' ++ [c], (inst_snoc k c _).mpr ⟨s', c, rfl, hs', by rw [choices_digit c hcd.1]; simp⟩, ?_⟩
        rw [valOf_snoc, hv', hcd.2]; omega

theorem inst_val (k : List Char) (hk : k.all keyChar = true) (n : Nat) :
    (∃ s, Inst k s ∧ valOf s = n) ↔ matchRev k.reverse n = true := by
  have := inst_val_rev k.reverse (by simpa using hk) n
  simpa using this

theorem inst_digits (k s : List Char) (hk : k.all keyChar = true) (h : Inst k s) :
    s.all Char.isDigit = true ∧ s.length = k.length := by
  induction k generalizing s with
  | nil => cases s <;> simp_all [Inst]
  | cons c k ih =>
    cases s with
    | nil => simp [Inst] at h
    | cons d s =>
      simp only [List.all_cons, Bool.and_eq_true] at hk
      obtain ⟨h1, h2⟩ := h
      have := ih s hk.2 h2
      simp [choices_isDigit c d hk.1 h1, this.1, this.2]

theorem mapM_some {α β : Type} (f : α → Option β) (g : α → β) (l : List α) (h : ∀ x ∈ l, f x = some (g x)) :
    l.mapM f = some (l.map g) := by
  induction l with
  | nil => simp
  | cons a l ih =>
    have h1 := h a (by simp)
    have h2 := ih (fun x hx => h x (by simp [hx]))
    simp [List.mapM_cons, h1, h2]

theorem expand_eq (k : List Char) (hk : k.all keyChar = true) (hne : k ≠ []) :
    expandStatusCode k = some ((product (k.map choices)).map valOf) := by
  unfold expandStatusCode
  apply mapM_some
  intro s hs
  have hi := (mem_product k s).mp hs
  obtain ⟨h1, h2⟩ := inst_digits k s hk hi
  have : s ≠ [] := by
    intro e; subst e; simp at h2; exact hne (List.eq_nil_of_length_eq_zero h2.symm)
  simp [pyIntDigits, h1, this]

/-- `expand_status_code` enumerates exactly the statuses the key covers arithmetically -/
theorem keyCovers_eq (k : List Char) (hk : k.all keyChar = true) (hne : k ≠ []) (n : Nat) :
    keyCovers k n = keyMatches k n := by
  unfold keyCovers keyMatches
  rw [expand_eq k hk hne]
  have hne' : k.isEmpty = false := by cases k <;> simp_all
  simp only [hne', Bool.not_false, Bool.true_and]
  rw [Bool.eq_iff_iff, ← inst_val k hk n]
  simp only [List.contains_iff_mem, List.mem_map]
  constructor
  · rintro ⟨s, hs, hv⟩; exact ⟨s, (mem_product k s).mp hs, hv⟩
  · rintro ⟨s, hs, hv⟩; exact ⟨s, (mem_product k s).mpr hs, hv⟩

theorem default_not_covered (n : Nat) : keyCovers defaultKey n = false := by
  have : expandStatusCode defaultKey = none := by decide
  simp [keyCovers, this]

theorem default_not_matched (n : Nat) : keyMatches defaultKey n = false := by
  simp [keyMatches, defaultKey, matchRev, isX]

theorem keyCovers_eq_wf (k : List Char) (hk : keyWf k = true) (n : Nat) : keyCovers k n = keyMatches k n := by
  unfold keyWf at hk
  by_cases hd : k = defaultKey
  · subst hd; rw [default_not_covered, default_not_matched]
  · have h2 : (!k.isEmpty && k.all fun c => c.isDigit || isX c) = true := by
      have : (k == defaultKey) = false := by simpa using hd
      simpa [this] using hk
    simp only [Bool.and_eq_true, Bool.not_eq_true'] at h2
    exact keyCovers_eq k h2.2 (by intro e; subst e; simp at h2) n

/-- `str(n)` is a key that covers `n` -/
theorem digitsFuel_spec (fuel n : Nat) (h : n < fuel) :
    (digitsFuel fuel n).all Char.isDigit = true ∧ digitsFuel fuel n ≠ [] ∧
      matchRev (digitsFuel fuel n).reverse n = true := by
  induction fuel generalizing n with
  | zero => omega
  | succ fuel ih =>
    unfold digitsFuel
    by_cases hn : n < 10
    · obtain ⟨d, hd, hv⟩ := exists_digitChar n hn
      have hdd := mem_digitChars d hd
      have : digitChar n = d := by
        have : ∀ m : Fin 10, ∀ d ∈ digitChars, digitVal d = m.val → digitChar m.val = d := by decide
        exact this ⟨n, hn⟩ d hd hv
      simp only [hn, if_true, this, List.all_cons, hdd, List.all_nil, Bool.and_self, ne_eq, reduceCtorEq,
        not_false_eq_true, List.reverse_cons, List.reverse_nil, List.nil_append, matchRev, Bool.true_and, true_and]
      simp [hv, Nat.mod_eq_of_lt hn]; omega
    · have hlt : n / 10 < fuel := by omega
      obtain ⟨h1, h2, h3⟩ := ih (n / 10) hlt
      obtain ⟨d, hd, hv⟩ := exists_digitChar (n % 10) (Nat.mod_lt _ (by omega))
      have hdd := mem_digitChars d hd
      have : digitChar (n % 10) = d := by
        have : ∀ m : Fin 10, ∀ d ∈ digitChars, digitVal d = m.val → digitChar m.val = d := by decide
        exact this ⟨n % 10, Nat.mod_lt _ (by omega)⟩ d hd hv
      simp only [hn, if_false, this]
      refine ⟨by simp [h1, hdd], by simp, ?_⟩
      simp [matchRev, hdd, hv, h3]

theorem digitsOf_spec (n : Nat) :
    (digitsOf n).all Char.isDigit = true ∧ digitsOf n ≠ [] ∧ keyMatches (digitsOf n) n = true := by
  obtain ⟨h1, h2, h3⟩ := digitsFuel_spec (n + 1) n (by omega)
  refine ⟨h1, h2, ?_⟩
  unfold keyMatches digitsOf
  have : (digitsFuel (n + 1) n).isEmpty = false := by
    cases h : digitsFuel (n + 1) n <;> simp_all
  simp [this, h3]

/-! ### lookups -/

theorem findKey_mem (k : List Char) (rs : List (List Char × RespDef)) (d : RespDef) (h : findKey k rs = some d) :
    (k, d) ∈ rs := by
  induction rs with
  | nil => simp [findKey] at h
  | cons kd rs ih =>
    obtain ⟨k', d'⟩ := kd
    unfold findKey at h
    by_cases e : k = k'
    · subst e; simp at h; subst h; simp
    · have : (k == k') = false := by simpa using e
      simp only [this, Bool.false_eq_true, if_false] at h
      exact List.mem_cons_of_mem _ (ih h)

theorem findKey_none (k : List Char) (rs : List (List Char × RespDef)) (h : findKey k rs = none) :
    ∀ kd ∈ rs, kd.1 ≠ k := by
  induction rs with
  | nil => simp
  | cons kd rs ih =>
    obtain ⟨k', d'⟩ := kd
    unfold findKey at h
    by_cases e : k = k'
    · subst e; simp at h
    · have : (k == k') = false := by simpa using e
      simp only [this, Bool.false_eq_true, if_false] at h
      intro kd hkd
      simp only [List.mem_cons] at hkd
      rcases hkd with hkd | hkd
      · subst hkd; exact fun e' => e e'.symm
      · exact ih h kd hkd

theorem findCovering_eq (rs : List (List Char × RespDef)) (hk : rs.all (fun kd => keyWf kd.1) = true) (n : Nat) :
    findCovering n rs = (rs.find? (fun kd => keyMatches kd.1 n)).map (·.2) := by
  induction rs with
  | nil => simp [findCovering]
  | cons kd rs ih =>
    obtain ⟨k, d⟩ := kd
    simp only [List.all_cons, Bool.and_eq_true] at hk
    unfold findCovering
    rw [keyCovers_eq_wf k hk.1 n, ih hk.2]
    by_cases h : keyMatches k n = true
    · simp [h]
    · simp [h]

/-- the repaired lookup is the documented order: explicit code, then range key, then `default` -/
theorem lookup_repaired_eq_spec (doc : Doc) (hk : keysWf doc = true) (n : Nat) :
    lookupDef .repaired doc n = specLookup doc n := by
  unfold lookupDef specLookup
  cases findKey (digitsOf n) doc.responses with
  | some d => rfl
  | none =>
    simp only [findCovering_eq doc.responses hk n]
    cases doc.responses.find? (fun kd => keyMatches kd.1 n) <;> rfl

theorem exact_matches (rs : List (List Char × RespDef)) (n : Nat) (d : RespDef)
    (h : findKey (digitsOf n) rs = some d) : rs.any (fun kd => keyMatches kd.1 n) = true := by
  have := findKey_mem _ _ _ h
  simp only [List.any_eq_true]
  exact ⟨_, this, (digitsOf_spec n).2.2⟩

theorem devStatus_eq (doc : Doc) (r : Resp) :
    devStatus doc r = (!(doc.responses.any fun kd => keyMatches kd.1 r.status) &&
      (findKey defaultKey doc.responses).isNone) := by
  unfold devStatus specLookup
  cases h : findKey (digitsOf r.status) doc.responses with
  | some d => simp [exact_matches _ _ _ h]
  | none =>
    cases h2 : doc.responses.find? (fun kd => keyMatches kd.1 r.status) with
    | some kd =>
      have := List.find?_some h2
      have hm := List.mem_of_find?_eq_some h2
      have : doc.responses.any (fun kd => keyMatches kd.1 r.status) = true := by
        simp only [List.any_eq_true]; exact ⟨kd, hm, this⟩
      simp [this]
    | none =>
      have : doc.responses.any (fun kd => keyMatches kd.1 r.status) = false := by
        simpa [List.find?_eq_none] using h2
      simp [this]

theorem expansions (rs : List (List Char × RespDef)) (hk : rs.all (fun kd => keyWf kd.1) = true)
    (hd : findKey defaultKey rs = none) (n : Nat) :
    ∃ ls, rs.mapM (fun kd => expandStatusCode kd.1) = some ls ∧
      ls.flatten.contains n = rs.any (fun kd => keyMatches kd.1 n) := by
  induction rs with
  | nil => exact ⟨[], by simp, by simp⟩
  | cons kd rs ih =>
    obtain ⟨k, d⟩ := kd
    simp only [List.all_cons, Bool.and_eq_true] at hk
    have hne : k ≠ defaultKey := fun e => by
      have := findKey_none _ _ hd (k, d) (by simp); exact this e
    have hd' : findKey defaultKey rs = none := by
      unfold findKey at hd
      have : (defaultKey == k) = false := by simpa using fun e => hne e.symm
      simpa [this] using hd
    obtain ⟨ls, h1, h2⟩ := ih hk.2 hd'
    have hwf : (!k.isEmpty && k.all fun c => c.isDigit || isX c) = true := by
      have : (k == defaultKey) = false := by simpa using hne
      have h := hk.1; unfold keyWf at h; simpa [this] using h
    simp only [Bool.and_eq_true, Bool.not_eq_true'] at hwf
    have hne' : k ≠ [] := by intro e; subst e; simp at hwf
    have he := expand_eq k hwf.2 hne'
    refine ⟨(product (k.map choices)).map valOf :: ls, by simp [List.mapM_cons, he, h1], ?_⟩
    have hc := keyCovers_eq_wf k hk.1 n
    unfold keyCovers at hc
    rw [he] at hc
    simp only [List.flatten_cons, List.any_cons, ← hc, ← h2]
    simp

theorem status_exact (doc : Doc) (r : Resp) (hk : keysWf doc = true) :
    statusCheck doc r = if devStatus doc r then .ok [.undefinedStatus] else .ok [] := by
  unfold statusCheck
  rw [devStatus_eq]
  cases hd : findKey defaultKey doc.responses with
  | some d => simp
  | none =>
    obtain ⟨ls, h1, h2⟩ := expansions doc.responses hk hd r.status
    simp only [Option.isSome_none, Bool.false_eq_true, if_false, h1, h2, Option.isNone_none, Bool.and_true]
    cases doc.responses.any fun kd => keyMatches kd.1 r.status <;> simp

/-! ### media types -/

abbrev notSemi : Char → Bool := fun c => c != ';'

theorem take_takeWhile (p : Char → Bool) (s : List Char) : s.take (s.takeWhile p).length = s.takeWhile p := by
  induction s with
  | nil => simp
  | cons c s ih =>
    by_cases h : p c = true
    · simp [h, ih]
    · simp [h]

theorem semis_head (s : List Char) (i : Nat) :
    (semis s i = [] ∧ s.takeWhile notSemi = s) ∨
    (∃ rest, semis s i = (i + (s.takeWhile notSemi).length) :: rest) := by
  induction s generalizing i with
  | nil => left; simp [semis]
  | cons c s ih =>
    by_cases h : c = ';'
    · right; subst h; exact ⟨semis s (i + 1), by simp [semis]⟩
    · have h1 : (c == ';') = false := by simpa using h
      have h2 : notSemi c = true := by simpa [notSemi] using h
      rcases ih (i + 1) with ⟨a, b⟩ | ⟨rest, a⟩
      · left; simp [semis, h1, a, h2, b]
      · right; refine ⟨rest, ?_⟩
        simp only [semis, h1, Bool.false_eq_true, if_false, a, List.takeWhile_cons, h2, if_true, List.length_cons]
        congr 1; omega

theorem count_zero (c : Char) (s : List Char) (h : s.contains c = false) : count c s = 0 := by
  induction s with
  | nil => rfl
  | cons x s ih =>
    simp only [List.contains_cons, Bool.or_eq_false_iff] at h
    have hne : x ≠ c := by intro e; subst e; simp at h
    have : (x == c) = false := by simpa using hne
    simp [count, this, ih h.2]

theorem take_keyEnd (s : List Char) (hp : plainMedia s = true) :
    s.take (keyEnd s) = s.takeWhile notSemi := by
  unfold keyEnd
  rcases semis_head s 0 with ⟨a, b⟩ | ⟨rest, a⟩
  · simp [a, b]
  · rw [Nat.zero_add] at a
    have hq : oddQuotes (s.takeWhile notSemi) = false := by
      unfold plainMedia at hp
      have : (s.takeWhile notSemi).contains '"' = false := by simpa using hp
      simp [oddQuotes, count_zero _ _ this]
    simp only [a, List.find?_cons, take_takeWhile, hq, Bool.and_false, Bool.not_false]

/-- `media_types.parse` is the plain type/subtype reading whenever no quote precedes the first `;` -/
theorem parse_eq_refParse (s : List Char) (hp : plainMedia s = true) : parseMedia s = refParse s := by
  unfold parseMedia refParse headerKey
  rw [take_keyEnd s hp]
  rfl

theorem splitFirst_none (c : Char) (s : List Char) : splitFirst c s = none ↔ s.contains c = false := by
  induction s with
  | nil => simp [splitFirst]
  | cons x s ih =>
    unfold splitFirst
    by_cases h : x = c
    · subst h; simp
    · have h1 : (x == c) = false := by simpa using h
      have h2 : (c == x) = false := by simpa using fun e => h e.symm
      simp only [h1, Bool.false_eq_true, if_false, List.contains_cons, h2, Bool.false_or]
      cases hs : splitFirst c s with
      | none => simpa [hs] using ih
      | some ab => simp only [reduceCtorEq, false_iff]; rw [hs] at ih; simpa using ih

theorem rangeMatch_eq_covers (e r : List Char × List Char) : rangeMatch e r = covers e r := by
  obtain ⟨e1, e2⟩ := e
  obtain ⟨r1, r2⟩ := r
  simp only [rangeMatch, covers]
  generalize (e1 == ['*']) = a
  generalize (e2 == ['*']) = b
  generalize (e1 == r1) = c
  generalize (e2 == r2) = d
  cases a <;> cases b <;> cases c <;> cases d <;> rfl

/-- the loop of `content_type_conformance` over readable documented media types -/
theorem ctLoop_spec (ct : List Char) (opts : List (List Char)) (hopts : opts.all mediaWf = true)
    (hct : plainMedia ct = true) :
    ctLoop ct opts =
      if opts.isEmpty then [.undefinedContentType]
      else match refParse ct with
        | none => [.malformedMediaType]
        | some rc => if coveredBy rc opts then [] else [.undefinedContentType] := by
  induction opts with
  | nil => simp [ctLoop]
  | cons opt rest ih =>
    simp only [List.all_cons, Bool.and_eq_true] at hopts
    obtain ⟨ho, hr⟩ := hopts
    unfold mediaWf at ho
    simp only [Bool.and_eq_true] at ho
    have h1 := parse_eq_refParse opt ho.1
    have h2 := parse_eq_refParse ct hct
    obtain ⟨e, he⟩ := Option.isSome_iff_exists.mp ho.2
    unfold ctLoop
    simp only [h1, he, h2, List.isEmpty_cons, Bool.false_eq_true, if_false]
    cases hrc : refParse ct with
    | none => rfl
    | some rc =>
      simp only [rangeMatch_eq_covers, coveredBy, List.any_cons, he]
      by_cases hc : covers e rc = true
      · simp [hc]
      · have hc' : covers e rc = false := by simpa using hc
        simp only [hc', Bool.false_eq_true, if_false, Bool.false_or]
        rw [ih hr, hrc]
        cases rest with
        | nil => simp
        | cons x xs => simp [coveredBy]

theorem specLookup_mem (doc : Doc) (n : Nat) (d : RespDef) (h : specLookup doc n = some d) :
    ∃ k, (k, d) ∈ doc.responses := by
  unfold specLookup at h
  cases h1 : findKey (digitsOf n) doc.responses with
  | some d' => rw [h1] at h; simp at h; subst h; exact ⟨_, findKey_mem _ _ _ h1⟩
  | none =>
    rw [h1] at h
    cases h2 : doc.responses.find? (fun kd => keyMatches kd.1 n) with
    | some kd =>
      rw [h2] at h; simp at h; subst h
      exact ⟨kd.1, List.mem_of_find?_eq_some h2⟩
    | none => rw [h2] at h; exact ⟨_, findKey_mem _ _ _ h⟩

theorem documented_wf (doc : Doc) (r : Resp) (hm : docMediaWf doc = true) :
    (specDocumentedTypes doc r).all mediaWf = true := by
  unfold docMediaWf at hm
  simp only [Bool.and_eq_true] at hm
  unfold specDocumentedTypes
  by_cases hv : doc.v2 = true
  · simp only [hv, if_true]; exact hm.1
  · simp only [hv, Bool.false_eq_true, if_false]
    cases hl : specLookup doc r.status with
    | none => simp
    | some d =>
      obtain ⟨k, hk⟩ := specLookup_mem doc _ d hl
      have := (List.all_eq_true.mp hm.2) (k, d) hk
      simpa [List.all_map] using this

theorem documented_core (vs : Variants) (doc : Doc) (r : Resp)
    (hl : lookupDef vs.lookup doc r.status = specLookup doc r.status) :
    documentedTypes vs doc r = specDocumentedTypes doc r := by
  unfold documentedTypes specDocumentedTypes
  rw [hl]
  rfl

theorem content_type_core (vs : Variants) (doc : Doc) (r : Resp)
    (hl : lookupDef vs.lookup doc r.status = specLookup doc r.status)
    (hm : docMediaWf doc = true) (hp : respMediaPlain r = true) :
    (contentTypeCheck vs doc r).reports = devContentType doc r := by
  unfold contentTypeCheck devContentType
  simp only [documented_core vs doc r hl]
  have hwf := documented_wf doc r hm
  generalize specDocumentedTypes doc r = documented at hwf
  cases hd : documented with
  | nil => simp [Out.reports]
  | cons o os =>
    simp only [List.isEmpty_cons, Bool.false_eq_true, if_false, Bool.not_false, Bool.true_and]
    cases hct : r.contentType with
    | none => simp [Out.reports]
    | some ct =>
      have hp' : plainMedia ct = true := by simpa [respMediaPlain, hct] using hp
      rw [hd] at hwf
      simp only [ctLoop_spec ct (o :: os) hwf hp', List.isEmpty_cons, Bool.false_eq_true, if_false]
      cases refParse ct with
      | none => simp [Out.reports]
      | some rc => by_cases hcv : coveredBy rc (o :: os) = true <;> simp [Out.reports, hcv]

/-! ### headers -/

theorem valueInvalid_repaired (V : Json → Json → Bool) (vs : Variants) (fl : Flavour) (h : HeaderDef)
    (value : List Char) (hk : vs.hdrKw = .repaired) (ht : vs.hdrType = .repaired) :
    valueInvalid V vs fl h value = !((readings fl h value).any (V (prepSchema h.schema))) := by
  unfold valueInvalid keptSchema
  rw [hk, ht]

theorem lookup_append_none (k : String) (kvs rest : List (String × Json)) (h : Json.lookup k kvs = none) :
    Json.lookup k (kvs ++ rest) = Json.lookup k rest := by
  induction kvs with
  | nil => rfl
  | cons kv kvs ih =>
    obtain ⟨k', v⟩ := kv
    simp only [Json.lookup, List.cons_append] at h ⊢
    split at h
    · cases h
    · rename_i hne; simp only [hne]; exact ih h

/-- on plain header schemas (inline, supported keywords, not nullable, one type name or none) the preparation and
    coercion as found coincide with the repaired reading -/
theorem valueInvalid_asFound_plain (V : Json → Json → Bool) (fl : Flavour) (h : HeaderDef) (value : List Char)
    (hk : keywordsSupported fl h.schema = true) (hp : plainType fl h = true) :
    valueInvalid V Variants.allAsFound fl h value = valueInvalid V Variants.allRepaired fl h value := by
  obtain ⟨name, isRef, required, schema, target⟩ := h
  simp only [plainType, Bool.and_eq_true, Option.isNone_iff_eq_none] at hp
  obtain ⟨ht, hs⟩ := hp
  subst ht
  cases schema with
  | obj kvs =>
    simp only [Bool.and_eq_true, Option.isNone_iff_eq_none, Bool.not_eq_true'] at hs
    obtain ⟨⟨href, hnull⟩, htype⟩ := hs
    have hfilter : filterKw fl (.obj kvs) = .obj kvs := by
      simp only [keywordsSupported] at hk
      simp only [filterKw]
      congr 1
      exact List.filter_eq_self.mpr (fun kv hkv => by simpa using List.all_eq_true.mp hk kv hkv)
    have hconv : convertDefault fl (.obj kvs) = headerSchema (.obj kvs) := by
      simp only [convertDefault, hnull, Bool.false_eq_true, if_false]
    have hprep : prepSchema (.obj kvs) = headerSchema (.obj kvs) := by
      simp only [prepSchema, href, Option.isSome_none, Bool.false_eq_true, if_false]
    simp only [valueInvalid, preparedAsFound, Variants.allAsFound, Variants.allRepaired, keptSchema, Bool.and_false,
      hfilter, hconv, hprep, readings,
      Option.getD_none, docTypes, hnull, Bool.false_eq_true, if_false]
    cases hty : Json.lookup "type" kvs with
    | none =>
      have h1 : typeNames (.obj kvs) = [] := by simp [typeNames, Json.get?, hty]
      have h2 : schemaType (headerSchema (.obj kvs)) = some "string" := by
        simp [headerSchema, hty, schemaType, Json.get?, lookup_append_none _ _ _ hty, Json.lookup]
      simp [h1, coerceHeader, h2]
    | some t =>
      rw [hty] at htype
      cases t with
      | str tn =>
        have h1 : typeNames (.obj kvs) = [tn] := by simp [typeNames, Json.get?, hty]
        have h2 : schemaType (headerSchema (.obj kvs)) = some tn := by
          simp [headerSchema, hty, schemaType, Json.get?]
        simp [h1, coerceHeader, h2]
      | _ => simp at htype
  | _ => simp at hs

theorem headerDeviates_eq (V : Json → Json → Bool) (fl : Flavour) (r : Resp) (h : HeaderDef) :
    headerDeviates V fl r h = (headerMissing .repaired r h || headerInvalid V Variants.allRepaired fl r h) := by
  unfold headerDeviates headerMissing headerInvalid requiredFlag
  cases lookupHeader (lower h.name) r.headers with
  | none => simp
  | some value => simp [valueInvalid_repaired V Variants.allRepaired fl h value rfl rfl]

theorem any_or' {α : Type} (f g : α → Bool) (l : List α) :
    l.any (fun x => f x || g x) = (l.any f || l.any g) := by
  induction l with
  | nil => simp
  | cons a l ih =>
    simp only [List.any_cons, ih]
    cases f a <;> cases g a <;> cases l.any f <;> cases l.any g <;> rfl

theorem reports_append_map (A : List Fail) (l : List HeaderDef) :
    (Out.ok (A ++ l.map fun _ => Fail.headerSchema)).reports = (!A.isEmpty || !l.isEmpty) := by
  cases A <;> cases l <;> simp [Out.reports]

theorem any_congr_mem {α : Type} (f g : α → Bool) (l : List α) (h : ∀ x ∈ l, f x = g x) : l.any f = l.any g := by
  induction l with
  | nil => rfl
  | cons a l ih =>
    simp only [List.any_cons, h a (by simp), ih (fun x hx => h x (by simp [hx]))]

theorem headers_core (V : Json → Json → Bool) (vs : Variants) (doc : Doc) (r : Resp)
    (hl : lookupDef vs.lookup doc r.status = specLookup doc r.status)
    (hh : ∀ d, specLookup doc r.status = some d → ∀ h ∈ d.headers, requiredFlag vs.hdrRef h = h.required)
    (hi : ∀ d, specLookup doc r.status = some d → ∀ h ∈ d.headers, ∀ value,
      valueInvalid V vs doc.flavour h value = valueInvalid V Variants.allRepaired doc.flavour h value) :
    (headersCheck V vs doc r).reports = devHeaders V doc r := by
  unfold headersCheck devHeaders
  rw [hl]
  cases hs : specLookup doc r.status with
  | none => simp [Out.reports]
  | some d =>
    simp only [reports_append_map]
    have hmiss : d.headers.any (headerMissing vs.hdrRef r) = d.headers.any (headerMissing .repaired r) := by
      apply any_congr_mem
      intro h hmem
      unfold headerMissing
      rw [hh d hs h hmem]; rfl
    have hinv : d.headers.any (headerInvalid V vs doc.flavour r) =
        d.headers.any (headerInvalid V Variants.allRepaired doc.flavour r) := by
      apply any_congr_mem
      intro h hmem
      unfold headerInvalid
      cases lookupHeader (lower h.name) r.headers with
      | none => rfl
      | some value => exact hi d hs h hmem value
    have : (fun h => headerDeviates V doc.flavour r h) =
        fun h => (headerMissing .repaired r h || headerInvalid V Variants.allRepaired doc.flavour r h) := by
      funext h; exact headerDeviates_eq V doc.flavour r h
    rw [show d.headers.any (headerDeviates V doc.flavour r) = d.headers.any (fun h => headerDeviates V doc.flavour r h)
      from rfl, this, any_or', hmiss, ← hinv]
    congr 1
    · cases d.headers.any (headerMissing .repaired r) <;> simp
    · rw [Bool.eq_iff_iff]
      simp [List.filter_eq_nil_iff, List.any_eq_true]

/-! ### body -/

theorem firstCovering_eq (rc : List Char × List Char) (ms : List Media)
    (h : ms.all (fun m => mediaWf m.name) = true) :
    firstCovering rc ms =
      ms.find? (fun m => match refParse m.name with | some e => covers e rc | none => false) := by
  induction ms with
  | nil => simp [firstCovering]
  | cons m ms ih =>
    simp only [List.all_cons, Bool.and_eq_true] at h
    obtain ⟨hm, hr⟩ := h
    unfold mediaWf at hm
    simp only [Bool.and_eq_true] at hm
    obtain ⟨e, he⟩ := Option.isSome_iff_exists.mp hm.2
    unfold firstCovering
    simp only [parse_eq_refParse m.name hm.1, he, rangeMatch_eq_covers, List.find?_cons, ih hr]
    cases covers e rc <;> simp

theorem selectSchema_repaired (doc : Doc) (d : RespDef) (r : Resp) (ct : List Char) (rc : List Char × List Char)
    (hct : r.contentType = some ct) (hp : plainMedia ct = true) (hrc : refParse ct = some rc)
    (hm : d.content.all (fun m => mediaWf m.name) = true) :
    selectSchema .repaired doc d r = specSchema doc d rc := by
  unfold selectSchema specSchema
  by_cases hv : doc.v2 = true
  · simp [hv]
  · simp only [hv, Bool.false_eq_true, if_false, hct, parse_eq_refParse ct hp, hrc, firstCovering_eq rc d.content hm]
    rfl

theorem refParse_nil : refParse [] = none := by decide

theorem reports_validateBody (V : Json → Json → Bool) (S : Json) (b : Option Json) :
    (Out.ok (validateBody V S b)).reports = (match b with | some v => !(V S v) | none => true) := by
  cases b with
  | none => simp [validateBody, Out.reports]
  | some v => cases h : V S v <;> simp [validateBody, Out.reports, h]

theorem content_wf (doc : Doc) (n : Nat) (d : RespDef) (hm : docMediaWf doc = true) (hl : specLookup doc n = some d) :
    d.content.all (fun m => mediaWf m.name) = true := by
  unfold docMediaWf at hm
  simp only [Bool.and_eq_true] at hm
  obtain ⟨k, hk⟩ := specLookup_mem doc _ d hl
  exact (List.all_eq_true.mp hm.2) (k, d) hk

theorem body_core (V : Json → Json → Bool) (vs : Variants) (doc : Doc) (r : Resp)
    (hl : lookupDef vs.lookup doc r.status = specLookup doc r.status)
    (ct : List Char) (rc : List Char × List Char)
    (hct : r.contentType = some ct) (hp : plainMedia ct = true) (hrc : refParse ct = some rc)
    (hsel : ∀ d, specLookup doc r.status = some d → selectSchema vs.media doc d r = specSchema doc d rc) :
    (bodyCheck V vs doc r).reports = devBody V doc r ∧ (bodyCheck V vs doc r).isError = false := by
  unfold bodyCheck devBody
  rw [hl]
  cases hs : specLookup doc r.status with
  | none => simp [Out.reports, Out.isError]
  | some d =>
    have hne : ct.isEmpty = false := by
      cases ct with
      | nil => rw [refParse_nil] at hrc; cases hrc
      | cons _ _ => rfl
    simp only [hsel d hs, hct, hrc]
    cases specSchema doc d rc with
    | none => simp [Out.reports, Out.isError]
    | some S =>
      by_cases he : emptySchema S = true
      · simp [he, Out.reports, Out.isError]
      · simp only [he, Bool.false_eq_true, if_false, hne, parse_eq_refParse ct hp, hrc, Bool.not_false, Bool.true_and]
        by_cases hj : isJsonMedia rc = true
        · simp only [hj, if_true, reports_validateBody, Bool.true_and]
          exact ⟨rfl, rfl⟩
        · simp [hj, Out.reports, Out.isError]

/-! ### the four checks together -/

theorem reports_ok (fs : List Fail) : (Out.ok fs).reports = !fs.isEmpty := by
  cases fs <;> rfl

theorem combine4 (a b c d : List Fail) :
    combine [.ok a, .ok b, .ok c, .ok d] = .ok (a ++ (b ++ (c ++ (d ++ [])))) := rfl

theorem reports_combine4 (a b c d : Out) (ha : a.isError = false) (hb : b.isError = false)
    (hc : c.isError = false) (hd : d.isError = false) :
    (combine [a, b, c, d]).reports = (a.reports || b.reports || c.reports || d.reports) ∧
      (combine [a, b, c, d]).isError = false := by
  cases a with
  | error => simp [Out.isError] at ha
  | ok fa => cases b with
    | error => simp [Out.isError] at hb
    | ok fb => cases c with
      | error => simp [Out.isError] at hc
      | ok fc => cases d with
        | error => simp [Out.isError] at hd
        | ok fd =>
          rw [combine4]
          simp only [reports_ok, Out.isError, and_true]
          cases fa <;> cases fb <;> cases fc <;> cases fd <;> simp

theorem status_noerr (doc : Doc) (r : Resp) (hk : keysWf doc = true) : (statusCheck doc r).isError = false := by
  rw [status_exact doc r hk]; split <;> rfl

theorem status_reports (doc : Doc) (r : Resp) (hk : keysWf doc = true) :
    (statusCheck doc r).reports = devStatus doc r := by
  rw [status_exact doc r hk]; cases devStatus doc r <;> rfl

theorem ct_noerr (vs : Variants) (doc : Doc) (r : Resp) : (contentTypeCheck vs doc r).isError = false := by
  unfold contentTypeCheck
  simp only
  split
  · rfl
  · split <;> rfl

theorem headers_noerr (V : Json → Json → Bool) (vs : Variants) (doc : Doc) (r : Resp) :
    (headersCheck V vs doc r).isError = false := by
  unfold headersCheck
  split <;> rfl

theorem body_noerr (V : Json → Json → Bool) (vs : Variants) (doc : Doc) (r : Resp) (hc : vs.ctError = .repaired) :
    (bodyCheck V vs doc r).isError = false := by
  unfold bodyCheck
  rw [hc]
  split
  · rfl
  · split
    · rfl
    · split
      · rfl
      · split
        · rfl
        · split
          · rfl
          · split
            · rfl
            · split <;> rfl

/-- a reported body failure means a non-empty schema was selected for a documented response -/
theorem body_reports_selected (V : Json → Json → Bool) (vs : Variants) (doc : Doc) (r : Resp)
    (h : (bodyCheck V vs doc r).reports = true) :
    ∃ d S, lookupDef vs.lookup doc r.status = some d ∧ selectSchema vs.media doc d r = some S ∧ emptySchema S = false := by
  unfold bodyCheck at h
  cases hl : lookupDef vs.lookup doc r.status with
  | none => simp [hl, Out.reports] at h
  | some d =>
    cases hs : selectSchema vs.media doc d r with
    | none => simp [hl, hs, Out.reports] at h
    | some S =>
      by_cases he : emptySchema S = true
      · simp [hl, hs, he, Out.reports] at h
      · exact ⟨d, S, rfl, hs, by simpa using he⟩

theorem selected_documented (vs : Variants) (doc : Doc) (r : Resp) (d : RespDef) (S : Json)
    (hw : producesWf doc = true) (hne : ∀ ct, r.contentType = some ct → parseMedia ct = none)
    (hl : lookupDef vs.lookup doc r.status = some d) (hmem : ∃ k, (k, d) ∈ doc.responses)
    (hs : selectSchema vs.media doc d r = some S) (he : emptySchema S = false) :
    (documentedTypes vs doc r).isEmpty = false := by
  unfold documentedTypes
  by_cases hv : doc.v2 = true
  · simp only [hv, if_true]
    unfold selectSchema at hs
    simp only [hv, if_true] at hs
    unfold producesWf at hw
    simp only [hv, Bool.not_true, Bool.false_or, Bool.or_eq_true, Bool.not_eq_true'] at hw
    rcases hw with hw | hw
    · exact hw
    · obtain ⟨k, hk⟩ := hmem
      have := (List.all_eq_true.mp hw) (k, d) hk
      simp [hs, he] at this
  · simp only [hv, Bool.false_eq_true, if_false, hl]
    unfold selectSchema at hs
    simp only [hv, Bool.false_eq_true, if_false] at hs
    cases hc : d.content with
    | cons m ms => simp
    | nil =>
      exfalso
      rw [hc] at hs
      cases hvm : vs.media with
      | asFound => simp [hvm] at hs
      | repaired =>
        simp only [hvm] at hs
        cases hct : r.contentType with
        | none => simp [hct] at hs
        | some ct => simp [hct, hne ct hct] at hs

theorem findCovering_mem (n : Nat) (rs : List (List Char × RespDef)) (d : RespDef) (h : findCovering n rs = some d) :
    ∃ k, (k, d) ∈ rs := by
  induction rs with
  | nil => simp [findCovering] at h
  | cons kd rs ih =>
    obtain ⟨k, d'⟩ := kd
    unfold findCovering at h
    by_cases hc : keyCovers k n = true
    · simp [hc] at h; subst h; exact ⟨k, by simp⟩
    · simp only [hc, Bool.false_eq_true, if_false] at h
      obtain ⟨k', hk'⟩ := ih h
      exact ⟨k', List.mem_cons_of_mem _ hk'⟩

theorem lookupDef_mem (v : Variant) (doc : Doc) (n : Nat) (d : RespDef) (h : lookupDef v doc n = some d) :
    ∃ k, (k, d) ∈ doc.responses := by
  unfold lookupDef at h
  cases h1 : findKey (digitsOf n) doc.responses with
  | some d' => rw [h1] at h; simp at h; subst h; exact ⟨_, findKey_mem _ _ _ h1⟩
  | none =>
    rw [h1] at h
    cases v with
    | asFound => exact ⟨_, findKey_mem _ _ _ h⟩
    | repaired =>
      simp only at h
      cases h2 : findCovering n doc.responses with
      | some d' => rw [h2] at h; simp at h; subst h; exact findCovering_mem _ _ _ h2
      | none => rw [h2] at h; exact ⟨_, findKey_mem _ _ _ h⟩

/-- with a missing or unreadable Content-Type a reported body failure comes with a reported content-type failure -/
theorem body_reports_ct (V : Json → Json → Bool) (vs : Variants) (doc : Doc) (r : Resp)
    (hw : producesWf doc = true) (hne : ∀ ct, r.contentType = some ct → parseMedia ct = none)
    (h : (bodyCheck V vs doc r).reports = true) : (contentTypeCheck vs doc r).reports = true := by
  obtain ⟨d, S, hl, hs, he⟩ := body_reports_selected V vs doc r h
  have hd := selected_documented vs doc r d S hw hne hl (lookupDef_mem _ _ _ _ hl) hs he
  unfold contentTypeCheck
  simp only [hd, Bool.false_eq_true, if_false]
  cases hct : r.contentType with
  | none => rfl
  | some ct =>
    simp only
    cases hdoc : documentedTypes vs doc r with
    | nil => simp [hdoc] at hd
    | cons o os =>
      unfold ctLoop
      cases parseMedia o with
      | none => rfl
      | some e => simp [hne ct hct, Out.reports]

/-- C04, repaired variants: the four checks together report iff the response deviates, and never crash -/
theorem verdict_repaired (V : Json → Json → Bool) (doc : Doc) (r : Resp)
    (hk : keysWf doc = true) (hm : docMediaWf doc = true) (hp : respMediaPlain r = true)
    (hw : producesWf doc = true) :
    (runAll V Variants.allRepaired doc r).reports = deviates V doc r ∧
      (runAll V Variants.allRepaired doc r).isError = false := by
  unfold runAll
  have h4 := reports_combine4 (statusCheck doc r) (contentTypeCheck Variants.allRepaired doc r)
    (headersCheck V Variants.allRepaired doc r) (bodyCheck V Variants.allRepaired doc r)
    (status_noerr doc r hk) (ct_noerr _ doc r) (headers_noerr V _ doc r) (body_noerr V _ doc r rfl)
  refine ⟨?_, h4.2⟩
  rw [h4.1, status_reports doc r hk, content_type_core _ doc r (lookup_repaired_eq_spec doc hk _) hm hp, headers_core V _ doc r (lookup_repaired_eq_spec doc hk _) (fun _ _ _ _ => rfl) (fun _ _ _ _ _ => rfl)]
  unfold deviates
  -- the body aspect
  cases hct : r.contentType with
  | none =>
    have hdb : devBody V doc r = false := by
      unfold devBody; rw [hct]; cases specLookup doc r.status <;> rfl
    rw [hdb, Bool.or_false]
    cases hb : (bodyCheck V Variants.allRepaired doc r).reports with
    | false => simp
    | true =>
      have := body_reports_ct V _ doc r hw (by intro ct h; rw [hct] at h; cases h) hb
      rw [content_type_core _ doc r (lookup_repaired_eq_spec doc hk _) hm hp] at this
      simp [this]
  | some ct =>
    have hp' : plainMedia ct = true := by simpa [respMediaPlain, hct] using hp
    cases hrc : refParse ct with
    | some rc =>
      rw [(body_core V _ doc r (lookup_repaired_eq_spec doc hk _) ct rc hct hp' hrc
        (fun d hd => selectSchema_repaired doc d r ct rc hct hp' hrc (content_wf doc _ d hm hd))).1]
    | none =>
      have hdb : devBody V doc r = false := by
        unfold devBody; rw [hct]; cases specLookup doc r.status <;> simp [hrc]
      rw [hdb, Bool.or_false]
      cases hb : (bodyCheck V Variants.allRepaired doc r).reports with
      | false => simp
      | true =>
        have := body_reports_ct V _ doc r hw (by
          intro ct' h; rw [hct] at h; cases h; rw [parse_eq_refParse ct hp', hrc]) hb
        rw [content_type_core _ doc r (lookup_repaired_eq_spec doc hk _) hm hp] at this
        simp [this]

/-! ### the code as found, on the sub-domain where it is right -/

theorem lookup_asFound_eq_spec (doc : Doc) (n : Nat) (hk : keysWf doc = true) (hr : noRangeOnly doc n = true) :
    lookupDef .asFound doc n = specLookup doc n := by
  rw [← lookup_repaired_eq_spec doc hk]
  unfold lookupDef
  cases h1 : findKey (digitsOf n) doc.responses with
  | some d => rfl
  | none =>
    simp only
    unfold noRangeOnly at hr
    simp only [h1, Option.isSome_none, Bool.false_or] at hr
    have : doc.responses.find? (fun kd => keyMatches kd.1 n) = none := by
      simp only [List.find?_eq_none]
      intro kd hkd
      have := (List.all_eq_true.mp hr) kd hkd
      simpa using this
    rw [findCovering_eq doc.responses hk n, this]
    rfl

theorem requiredFlag_asFound (doc : Doc) (n : Nat) (hn : noRequiredRefHeader doc = true) (d : RespDef)
    (hd : specLookup doc n = some d) (h : HeaderDef) (hh : h ∈ d.headers) :
    requiredFlag .asFound h = h.required := by
  obtain ⟨k, hk⟩ := specLookup_mem doc n d hd
  have := (List.all_eq_true.mp ((List.all_eq_true.mp hn) (k, d) hk)) h hh
  unfold requiredFlag
  generalize h.isRef = a at this ⊢
  generalize h.required = b at this ⊢
  cases a <;> cases b <;> simp_all

theorem plainHeaders_mem (doc : Doc) (n : Nat) (hn : plainHeaders doc = true) (d : RespDef)
    (hd : specLookup doc n = some d) (h : HeaderDef) (hh : h ∈ d.headers) :
    keywordsSupported doc.flavour h.schema = true ∧ plainType doc.flavour h = true := by
  obtain ⟨k, hk⟩ := specLookup_mem doc n d hd
  have := (List.all_eq_true.mp ((List.all_eq_true.mp hn) (k, d) hk)) h hh
  simpa using this

/-- single documented media type + Content-Type check passes ⇒ the first media type is the one that applies -/
theorem selectSchema_asFound (doc : Doc) (r : Resp) (d : RespDef) (ct : List Char) (rc : List Char × List Char)
    (hd : specLookup doc r.status = some d) (hs : singleMedia doc = true)
    (hct : r.contentType = some ct) (hrc : refParse ct = some rc) (hc : devContentType doc r = false) :
    selectSchema .asFound doc d r = specSchema doc d rc := by
  unfold selectSchema specSchema
  by_cases hv : doc.v2 = true
  · simp [hv]
  · simp only [hv, Bool.false_eq_true, if_false]
    obtain ⟨k, hk⟩ := specLookup_mem doc _ d hd
    have hlen := (List.all_eq_true.mp hs) (k, d) hk
    simp only [decide_eq_true_eq] at hlen
    cases hcon : d.content with
    | nil => rfl
    | cons m ms =>
      have : ms = [] := by
        rw [hcon] at hlen; simp only [List.length_cons] at hlen
        exact List.eq_nil_of_length_eq_zero (by omega)
      subst this
      unfold devContentType specDocumentedTypes at hc
      simp only [hv, Bool.false_eq_true, if_false, hd, hcon, List.map_cons, List.map_nil, List.isEmpty_cons,
        Bool.not_false, Bool.true_and, hct, hrc, Bool.not_eq_false'] at hc
      unfold coveredBy at hc
      simp only [List.any_cons, List.any_nil, Bool.or_false] at hc
      simp only [List.find?_cons, hc]

theorem body_noerr_asFound (V : Json → Json → Bool) (vs : Variants) (doc : Doc) (r : Resp)
    (hp : respMediaPlain r = true) (hc : ctNoCrash r = true) : (bodyCheck V vs doc r).isError = false := by
  unfold bodyCheck
  split
  · rfl
  · split
    · rfl
    · split
      · rfl
      · cases hct : r.contentType with
        | none => rfl
        | some ct =>
          have hp' : plainMedia ct = true := by simpa [respMediaPlain, hct] using hp
          simp only
          by_cases he : ct.isEmpty = true
          · simp [he, Out.isError]
          · have : (refParse ct).isSome = true := by simpa [ctNoCrash, hct, he] using hc
            obtain ⟨rc, hrc⟩ := Option.isSome_iff_exists.mp this
            simp only [he, Bool.false_eq_true, if_false, parse_eq_refParse ct hp', hrc]
            split <;> rfl

/-- C04 for the code as found, on the sub-domain where it is right -/
theorem verdict_asFound_partial (V : Json → Json → Bool) (doc : Doc) (r : Resp)
    (hk : keysWf doc = true) (hm : docMediaWf doc = true) (hp : respMediaPlain r = true)
    (hw : producesWf doc = true)
    (h1 : noRangeOnly doc r.status = true) (h2 : singleMedia doc = true) (h3 : noRequiredRefHeader doc = true)
    (h4 : ctNoCrash r = true) (h5 : plainHeaders doc = true) :
    (runAll V Variants.allAsFound doc r).reports = deviates V doc r ∧
      (runAll V Variants.allAsFound doc r).isError = false := by
  unfold runAll
  have hl := lookup_asFound_eq_spec doc r.status hk h1
  have e4 := reports_combine4 (statusCheck doc r) (contentTypeCheck Variants.allAsFound doc r)
    (headersCheck V Variants.allAsFound doc r) (bodyCheck V Variants.allAsFound doc r)
    (status_noerr doc r hk) (ct_noerr _ doc r) (headers_noerr V _ doc r) (body_noerr_asFound V _ doc r hp h4)
  refine ⟨?_, e4.2⟩
  rw [e4.1, status_reports doc r hk, content_type_core _ doc r hl hm hp,
    headers_core V _ doc r hl (fun d hd h hh => requiredFlag_asFound doc _ h3 d hd h hh)
      (fun d hd h hh value =>
        valueInvalid_asFound_plain V doc.flavour h value (plainHeaders_mem doc _ h5 d hd h hh).1
          (plainHeaders_mem doc _ h5 d hd h hh).2)]
  unfold deviates
  have noBody : ∀ (hne : ∀ ct, r.contentType = some ct → parseMedia ct = none) (hdb : devBody V doc r = false),
      (devStatus doc r || devContentType doc r || devHeaders V doc r ||
        (bodyCheck V Variants.allAsFound doc r).reports) =
      (devStatus doc r || devContentType doc r || devHeaders V doc r || devBody V doc r) := by
    intro hne hdb
    rw [hdb, Bool.or_false]
    cases hb : (bodyCheck V Variants.allAsFound doc r).reports with
    | false => simp
    | true =>
      have := body_reports_ct V _ doc r hw hne hb
      rw [content_type_core _ doc r hl hm hp] at this
      simp [this]
  cases hct : r.contentType with
  | none =>
    apply noBody
    · intro ct h; rw [hct] at h; cases h
    · unfold devBody; rw [hct]; cases specLookup doc r.status <;> rfl
  | some ct =>
    have hp' : plainMedia ct = true := by simpa [respMediaPlain, hct] using hp
    cases hrc : refParse ct with
    | some rc =>
      cases hdc : devContentType doc r with
      | true => simp
      | false =>
        rw [(body_core V _ doc r hl ct rc hct hp' hrc
          (fun d hd => selectSchema_asFound doc r d ct rc hd h2 hct hrc hdc)).1]
    | none =>
      apply noBody
      · intro ct' h; rw [hct] at h; cases h; rw [parse_eq_refParse ct hp', hrc]
      · unfold devBody; rw [hct]; cases specLookup doc r.status <;> simp [hrc]

/-! ### witness documents used by SV/Props/C04.lean (and replayed on the real code by harness/corr/c04.py) -/

def V0 : Json → Json → Bool := SV.Spec.JsonSchema.validF 4 {}
def objSchema : Json := .obj [("type", .str "object"), ("required", .arr [.str "id"]),
  ("properties", .obj [("id", .obj [("type", .str "integer")])])]
def strSchema : Json := .obj [("type", .str "string")]
def intSchema : Json := .obj [("type", .str "integer")]
def jsonMedia : Media := ⟨"application/json".toList, some objSchema⟩
def xmlMedia : Media := ⟨"application/xml".toList, some strSchema⟩
def idOne : Json := .obj [("id", .num 1 0)]

/-- responses: {2XX: {content: {application/json: obj}, headers: {X-Rate: required integer}}} -/
def docRange : Doc :=
  ⟨false, [("2XX".toList, ⟨[jsonMedia], none, [⟨"X-Rate".toList, false, true, intSchema, none⟩]⟩)], [], false⟩
/-- responses: {200: {content: {application/xml: string, application/json: obj}}} -/
def docTwoMedia : Doc := ⟨false, [("200".toList, ⟨[xmlMedia, jsonMedia], none, []⟩)], [], false⟩
/-- responses: {200: {headers: {X-Rate: {$ref → required integer}}}} -/
def docRefHeader : Doc := ⟨false, [("200".toList, ⟨[], none, [⟨"X-Rate".toList, true, true, intSchema, none⟩]⟩)], [], false⟩
/-- responses: {200: {content: {application/json: obj}}} -/
def docJson : Doc := ⟨false, [("200".toList, ⟨[jsonMedia], none, []⟩)], [], false⟩


/-! ### witnesses for the header-schema preparation and the format checkers -/

def rootA : Json := .obj [("components", .obj [("schemas", .obj [("A", intSchema)])])]
/-- validity under the OpenAPI response reading (nullable), with a root document for `$ref` -/
def V1 : Json → Json → Bool := SV.Spec.JsonSchema.validF 5 { oas := .response, root := rootA }
def nullIntSchema : Json := .obj [("type", .str "integer"), ("nullable", .bool true)]
def refSchema : Json := .obj [("$ref", .str "#/components/schemas/A")]
def typeListSchema : Json := .obj [("type", .arr [.str "integer", .str "null"])]
def constSchema : Json := .obj [("const", .str "a")]
/-- responses: {200: {headers: {X-Rate: {schema: S}}}} in OpenAPI 3.0 / 3.1 -/
def hdrDoc (v31 : Bool) (S : Json) (target : Option Json) : Doc :=
  ⟨false, [("200".toList, ⟨[], none, [⟨"X-Rate".toList, false, false, S, target⟩]⟩)], [], v31⟩
def hdrResp (value : String) : Resp := ⟨200, none, [("x-rate".toList, value.toList)], none⟩

def uuidSchema : Json := .obj [("type", .str "string"), ("format", .str "uuid")]
def goodUuid : String := "123e4567-e89b-12d3-a456-426614174000"
/-- a truth of the format predicates: `goodUuid` is the only uuid, `a@b` the only e-mail address, every other format
    accepts everything; formats constrain strings only -/
def F0 (f : String) (v : Json) : Bool :=
  match v with
  | .str s => (!(f == "uuid") || s == goodUuid) && (!(f == "email") || s == "a@b")
  | _ => true
/-- JSON-Schema validity as a function of the format predicate it is given -/
def W0 (fmt : String → Json → Bool) : Json → Json → Bool :=
  SV.Spec.JsonSchema.validF 5 { oas := .response, root := rootA, fmt := fmt }
/-- responses: {200: {content: {application/json: uuid string}, headers: {X-Rate: uuid string}}} -/
def docUuid (v2 v31 : Bool) : Doc :=
  ⟨v2, [("200".toList, ⟨[⟨"application/json".toList, some uuidSchema⟩], some uuidSchema,
    [⟨"X-Rate".toList, false, false, uuidSchema, none⟩]⟩)], ["application/json".toList], v31⟩
def uuidResp (hdr body : String) : Resp :=
  ⟨200, some "application/json".toList, [("x-rate".toList, hdr.toList)], some (.str body)⟩

end SV.Proofs.C04
