/-
  SV.Proofs.C05Stat — lemmas about the failure store of the CLI (SV/Model/C05Stat.lean); the property statements are
  in SV/Props/C05.lean.
-/
import SV.Spec.C05Stat

namespace SV.Proofs.C05Stat
open SV.Model.C05Stat SV.Spec.C05Stat

/-! ### insertion-ordered dicts -/

theorem ndGet_ndSet_same {α : Type} (k : Nat) (v : α) (d : List (Nat × α)) : ndGet k (ndSet k v d) = some v := by
  induction d with
  | nil => simp [ndSet, ndGet]
  | cons q d ih =>
    obtain ⟨k', v'⟩ := q
    simp only [ndSet]
    split
    · simp [ndGet]
    · simp [ndGet, *]

theorem ndGet_ndSet_ne {α : Type} (k k' : Nat) (v : α) (d : List (Nat × α)) (h : k ≠ k') :
    ndGet k (ndSet k' v d) = ndGet k d := by
  induction d with
  | nil => simp [ndSet, ndGet, h]
  | cons q d ih =>
    obtain ⟨k'', v'⟩ := q
    simp only [ndSet]
    split
    · subst_vars; simp [ndGet, h]
    · simp only [ndGet, ih]

theorem ndSet_fresh {α : Type} (k : Nat) (v : α) (d : List (Nat × α)) (h : ndGet k d = none) :
    ndSet k v d = d ++ [(k, v)] := by
  induction d with
  | nil => simp [ndSet]
  | cons q d ih =>
    obtain ⟨k', v'⟩ := q
    simp only [ndGet] at h
    split at h
    · cases h
    · rename_i hne
      simp [ndSet, hne, ih h]

theorem mem_ndSet {α : Type} (k : Nat) (v : α) (d : List (Nat × α)) (x : Nat × α) (h : x ∈ ndSet k v d) :
    x ∈ d ∨ x = (k, v) := by
  induction d with
  | nil => simp [ndSet] at h; exact Or.inr h
  | cons q d ih =>
    obtain ⟨k', v'⟩ := q
    simp only [ndSet] at h
    split at h
    · simp only [List.mem_cons] at h
      rcases h with h | h
      · exact Or.inr h
      · exact Or.inl (by simp [h])
    · simp only [List.mem_cons] at h
      rcases h with h | h
      · exact Or.inl (by simp [h])
      · rcases ih h with h | h
        · exact Or.inl (by simp [h])
        · exact Or.inr h

theorem ndGet_mem {α : Type} (k : Nat) (v : α) (d : List (Nat × α)) (h : ndGet k d = some v) : (k, v) ∈ d := by
  induction d with
  | nil => simp [ndGet] at h
  | cons q d ih =>
    obtain ⟨k', v'⟩ := q
    simp only [ndGet] at h
    split at h
    · simp at h; subst_vars; simp
    · simp [ih h]

theorem ndGet_none_of_keys {α : Type} (k : Nat) (d : List (Nat × α)) (h : ∀ x ∈ d, x.1 ≠ k) : ndGet k d = none := by
  induction d with
  | nil => simp [ndGet]
  | cons q d ih =>
    obtain ⟨k', v'⟩ := q
    have h1 : k' ≠ k := h (k', v') (by simp)
    simp only [ndGet]
    split
    · subst_vars; exact absurd rfl h1
    · exact ih (fun x hx => h x (by simp [hx]))

theorem ndSet_ne_nil {α : Type} (k : Nat) (v : α) (d : List (Nat × α)) : ndSet k v d ≠ [] := by
  cases d with
  | nil => simp [ndSet]
  | cons q d => obtain ⟨k', v'⟩ := q; simp only [ndSet]; split <;> simp

/-! ### the indicator "failure `f` is in `unique_failures_map`" -/

def ind (u : List (Nat × Nat)) (f : Nat) : Nat := if (ndGet f u).isSome then 1 else 0

theorem ind_le_one (u : List (Nat × Nat)) (f : Nat) : ind u f ≤ 1 := by
  unfold ind; split <;> simp

theorem ind_ndSet (u : List (Nat × Nat)) (f f0 c : Nat) (h : ndGet f0 u = none) :
    ind (ndSet f0 c u) f = ind u f + (if f0 = f then 1 else 0) := by
  unfold ind
  by_cases e : f0 = f
  · subst e; simp [ndGet_ndSet_same, h]
  · have : f ≠ f0 := fun h => e h.symm
    simp [ndGet_ndSet_ne _ _ _ _ this, e]

/-! ### `for check in checks` -/

theorem checkLoop_count (id f : Nat) (cs : List Check) : ∀ (u cur : List (Nat × Nat)),
    ((checkLoop id cs u cur).2.map (·.1)).count f + ind u f = (cur.map (·.1)).count f + ind (checkLoop id cs u cur).1 f := by
  induction cs with
  | nil => intro u cur; simp [checkLoop]
  | cons c cs ih =>
    intro u cur
    cases c with
    | none => simpa [checkLoop] using ih u cur
    | some p =>
      obtain ⟨f0, s⟩ := p
      simp only [checkLoop]
      split
      · exact ih u cur
      · rename_i hn
        have := ih (ndSet f0 id u) (cur ++ [(f0, s)])
        rw [ind_ndSet _ _ _ _ hn] at this
        simp only [List.map_append, List.map_cons, List.map_nil, List.count_append, List.count_cons, List.count_nil] at this
        by_cases e : f0 = f
        · simp [e] at this ⊢; omega
        · simp [e] at this ⊢; omega

/-- entries of the map are never overwritten -/
theorem checkLoop_keeps (id f x : Nat) (cs : List Check) : ∀ (u cur : List (Nat × Nat)),
    ndGet f u = some x → ndGet f (checkLoop id cs u cur).1 = some x := by
  induction cs with
  | nil => intro u cur h; simpa [checkLoop] using h
  | cons c cs ih =>
    intro u cur h
    cases c with
    | none => simpa [checkLoop] using ih u cur h
    | some p =>
      obtain ⟨f0, s⟩ := p
      simp only [checkLoop]
      split
      · exact ih u cur h
      · rename_i hn
        apply ih
        have : f ≠ f0 := by intro e; subst e; rw [hn] at h; cases h
        rw [ndGet_ndSet_ne _ _ _ _ this]; exact h

/-- every failing check's failure is in the map afterwards -/
theorem checkLoop_adds (id f s : Nat) (cs : List Check) : ∀ (u cur : List (Nat × Nat)),
    some (f, s) ∈ cs → (ndGet f (checkLoop id cs u cur).1).isSome = true := by
  induction cs with
  | nil => intro u cur h; cases h
  | cons c cs ih =>
    intro u cur h
    simp only [List.mem_cons] at h
    cases c with
    | none =>
      rcases h with h | h
      · cases h
      · simpa [checkLoop] using ih u cur h
    | some p =>
      obtain ⟨f0, s0⟩ := p
      simp only [checkLoop]
      rcases h with h | h
      · simp only [Option.some.injEq, Prod.mk.injEq] at h
        obtain ⟨rfl, rfl⟩ := h
        split
        · rename_i x hx
          rw [checkLoop_keeps id f x cs u cur hx]; rfl
        · rw [checkLoop_keeps id f id cs _ _ (ndGet_ndSet_same _ _ _)]; rfl
      · split
        · exact ih u cur h
        · exact ih _ _ h

/-- a failure absent from the map and from the checks stays absent -/
theorem checkLoop_only (id f : Nat) (cs : List Check) : ∀ (u cur : List (Nat × Nat)),
    ndGet f u = none → (∀ s, some (f, s) ∉ cs) → ndGet f (checkLoop id cs u cur).1 = none := by
  induction cs with
  | nil => intro u cur h _; simpa [checkLoop] using h
  | cons c cs ih =>
    intro u cur h hn
    have hn' : ∀ s, some (f, s) ∉ cs := fun s hs => hn s (by simp [hs])
    cases c with
    | none => simpa [checkLoop] using ih u cur h hn'
    | some p =>
      obtain ⟨f0, s0⟩ := p
      simp only [checkLoop]
      split
      · exact ih u cur h hn'
      · apply ih _ _ _ hn'
        have : f ≠ f0 := by intro e; subst e; exact hn s0 (by simp)
        rw [ndGet_ndSet_ne _ _ _ _ this]; exact h

/-- a failure absent from the map and carried by a check is among the new failures of the case, and the map then
    points to this case -/
theorem checkLoop_new (id f s : Nat) (cs : List Check) : ∀ (u cur : List (Nat × Nat)),
    ndGet f u = none → some (f, s) ∈ cs →
      f ∈ (checkLoop id cs u cur).2.map (·.1) ∧ ndGet f (checkLoop id cs u cur).1 = some id := by
  intro u cur hu hm
  have hc := checkLoop_count id f cs u cur
  have ha := checkLoop_adds id f s cs u cur hm
  constructor
  · have h1 : ind u f = 0 := by simp [ind, hu]
    have h2 : ind (checkLoop id cs u cur).1 f = 1 := by simp [ind, ha]
    have : 0 < ((checkLoop id cs u cur).2.map (·.1)).count f := by omega
    exact List.count_pos_iff.1 this
  · clear hc ha
    induction cs generalizing u cur with
    | nil => cases hm
    | cons c cs ih =>
      simp only [List.mem_cons] at hm
      cases c with
      | none =>
        rcases hm with h | h
        · cases h
        · simpa [checkLoop] using ih u cur hu h
      | some p =>
        obtain ⟨f0, s0⟩ := p
        simp only [checkLoop]
        by_cases e : f0 = f
        · subst e
          rw [hu]
          exact checkLoop_keeps id f0 id cs _ _ (ndGet_ndSet_same _ _ _)
        · have hm' : some (f, s) ∈ cs := by
            rcases hm with h | h
            · simp only [Option.some.injEq, Prod.mk.injEq] at h; exact absurd h.1.symm e
            · exact h
          have hne : f ≠ f0 := fun h => e h.symm
          split
          · exact ih u cur hu hm'
          · exact ih _ _ (by rw [ndGet_ndSet_ne _ _ _ _ hne]; exact hu) hm'

/-- the new failures of a case come from its checks -/
theorem checkLoop_sub (id : Nat) (cs : List Check) : ∀ (u cur : List (Nat × Nat)) (p : Nat × Nat),
    p ∈ (checkLoop id cs u cur).2 → p ∈ cur ∨ some p ∈ cs := by
  induction cs with
  | nil => intro u cur p h; simp [checkLoop] at h; exact Or.inl h
  | cons c cs ih =>
    intro u cur p h
    cases c with
    | none =>
      simp only [checkLoop] at h
      rcases ih u cur p h with h | h
      · exact Or.inl h
      · exact Or.inr (by simp [h])
    | some q =>
      obtain ⟨f0, s0⟩ := q
      simp only [checkLoop] at h
      split at h
      · rcases ih u cur p h with h | h
        · exact Or.inl h
        · exact Or.inr (by simp [h])
      · rcases ih _ _ p h with h | h
        · simp only [List.mem_append, List.mem_singleton] at h
          rcases h with h | h
          · exact Or.inl h
          · exact Or.inr (by simp [h])
        · exact Or.inr (by simp [h])

/-! ### `for case_id, case in recorder.cases.items()` -/

theorem flatG_append (a b : List (Nat × Group)) : flatG (a ++ b) = flatG a ++ flatG b := by
  simp [flatG]

theorem flatG_single (k : Nat) (g : Group) : flatG [(k, g)] = g.failures := by
  simp [flatG]

theorem caseHas_false (f : Nat) (c : CaseRec) (h : caseHas f c = false) : ∀ s, some (f, s) ∉ c.checks := by
  intro s hs
  have : caseHas f c = true := by
    simp only [caseHas, List.any_eq_true]
    exact ⟨some (f, s), hs, by simp [checkHas]⟩
  rw [h] at this; cases this

theorem caseHas_true (f : Nat) (c : CaseRec) (h : caseHas f c = true) : ∃ s, some (f, s) ∈ c.checks := by
  simp only [caseHas, List.any_eq_true] at h
  obtain ⟨k, hk, hc⟩ := h
  cases k with
  | none => simp [checkHas] at hc
  | some p =>
    obtain ⟨g, s⟩ := p
    simp [checkHas] at hc
    subst hc
    exact ⟨s, hk⟩

theorem mkGroup_failures (c : CaseRec) (cur : List (Nat × Nat)) : (mkGroup c cur).failures = cur.map (·.1) := rfl

theorem caseLoop_count (f : Nat) (cs : List CaseRec) : ∀ a : Acc,
    (∀ c ∈ cs, ndGet c.id a.groups = none) → (cs.map (·.id)).Nodup →
    (flatG (caseLoop cs a).groups).count f + ind a.unique f =
      (flatG a.groups).count f + ind (caseLoop cs a).unique f := by
  induction cs with
  | nil => intro a _ _; simp [caseLoop]
  | cons c cs ih =>
    intro a hfresh hnd
    simp only [List.map_cons, List.nodup_cons, List.mem_map, not_exists, not_and] at hnd
    have hfresh' : ∀ c' ∈ cs, ndGet c'.id a.groups = none := fun c' hc' => hfresh c' (by simp [hc'])
    have hc := checkLoop_count c.id f c.checks a.unique []
    simp only [caseLoop]
    split
    · exact ih _ hfresh' hnd.2
    · split
      · rename_i he
        have he' : (checkLoop c.id c.checks a.unique []).2 = [] := by simpa using he
        rw [he'] at hc
        have := ih { a with unique := (checkLoop c.id c.checks a.unique []).1 } hfresh' hnd.2
        simp at hc this ⊢
        omega
      · have hf0 := hfresh c (by simp)
        rw [ndSet_fresh _ _ _ hf0]
        have := ih { a with unique := (checkLoop c.id c.checks a.unique []).1,
                            groups := a.groups ++ [(c.id, mkGroup c (checkLoop c.id c.checks a.unique []).2)],
                            withFailures := a.withFailures + 1 }
          (by
            intro c' hc'
            have hne : c'.id ≠ c.id := fun e => hnd.1 c' hc' e
            simp only
            rw [← ndSet_fresh _ _ _ hf0, ndGet_ndSet_ne _ _ _ _ hne]
            exact hfresh' c' hc') hnd.2
        simp only [flatG_append, flatG_single, List.count_append, mkGroup_failures] at this
        simp at hc this ⊢
        omega

theorem caseLoop_keeps (f x : Nat) (cs : List CaseRec) : ∀ a : Acc,
    ndGet f a.unique = some x → ndGet f (caseLoop cs a).unique = some x := by
  induction cs with
  | nil => intro a h; simpa [caseLoop] using h
  | cons c cs ih =>
    intro a h
    simp only [caseLoop]
    split
    · exact ih _ h
    · split
      · exact ih _ (checkLoop_keeps c.id f x c.checks a.unique [] h)
      · exact ih _ (checkLoop_keeps c.id f x c.checks a.unique [] h)

theorem caseLoop_adds (f s : Nat) (cs : List CaseRec) : ∀ (a : Acc) (c : CaseRec),
    c ∈ cs → some (f, s) ∈ c.checks → (ndGet f (caseLoop cs a).unique).isSome = true := by
  induction cs with
  | nil => intro a c h; cases h
  | cons c0 cs ih =>
    intro a c hc hs
    simp only [List.mem_cons] at hc
    simp only [caseLoop]
    rcases hc with rfl | hc
    · have hne : c.checks.isEmpty = false := by
        cases hh : c.checks with
        | nil => rw [hh] at hs; cases hs
        | cons _ _ => rfl
      have ha := checkLoop_adds c.id f s c.checks a.unique [] hs
      obtain ⟨x, hx⟩ := Option.isSome_iff_exists.1 ha
      simp only [hne, Bool.false_eq_true, if_false]
      split
      · rw [caseLoop_keeps f x cs _ hx]; rfl
      · rw [caseLoop_keeps f x cs _ hx]; rfl
    · split
      · exact ih _ c hc hs
      · split
        · exact ih _ c hc hs
        · exact ih _ c hc hs

theorem caseLoop_only (f : Nat) (cs : List CaseRec) : ∀ a : Acc,
    ndGet f a.unique = none → (∀ c ∈ cs, caseHas f c = false) → ndGet f (caseLoop cs a).unique = none := by
  induction cs with
  | nil => intro a h _; simpa [caseLoop] using h
  | cons c cs ih =>
    intro a h hn
    have hn' : ∀ c' ∈ cs, caseHas f c' = false := fun c' hc' => hn c' (by simp [hc'])
    have h0 := checkLoop_only c.id f c.checks a.unique [] h (caseHas_false f c (hn c (by simp)))
    simp only [caseLoop]
    split
    · exact ih _ h hn'
    · split
      · exact ih _ h0 hn'
      · exact ih _ h0 hn'

theorem caseLoop_groups_mem (cs : List CaseRec) : ∀ (a : Acc) (cg : Nat × Group),
    cg ∈ (caseLoop cs a).groups → cg ∈ a.groups ∨ ∃ c ∈ cs, cg.1 = c.id := by
  induction cs with
  | nil => intro a cg h; simp [caseLoop] at h; exact Or.inl h
  | cons c cs ih =>
    intro a cg h
    simp only [caseLoop] at h
    split at h
    · rcases ih _ cg h with h | ⟨c', hc', e⟩
      · exact Or.inl h
      · exact Or.inr ⟨c', by simp [hc'], e⟩
    · split at h
      · rcases ih _ cg h with h | ⟨c', hc', e⟩
        · exact Or.inl h
        · exact Or.inr ⟨c', by simp [hc'], e⟩
      · rcases ih _ cg h with h | ⟨c', hc', e⟩
        · rcases mem_ndSet _ _ _ _ h with h | h
          · exact Or.inl h
          · exact Or.inr ⟨c, by simp, by rw [h]⟩
        · exact Or.inr ⟨c', by simp [hc'], e⟩

theorem caseLoop_preserves (k : Nat) (cs : List CaseRec) : ∀ a : Acc,
    (∀ c ∈ cs, c.id ≠ k) → ndGet k (caseLoop cs a).groups = ndGet k a.groups := by
  induction cs with
  | nil => intro a _; simp [caseLoop]
  | cons c cs ih =>
    intro a hn
    have hn' : ∀ c' ∈ cs, c'.id ≠ k := fun c' hc' => hn c' (by simp [hc'])
    have h0 : k ≠ c.id := fun e => hn c (by simp) e.symm
    simp only [caseLoop]
    split
    · exact ih _ hn'
    · split
      · exact ih _ hn'
      · rw [ih _ hn']; exact ndGet_ndSet_ne _ _ _ _ h0

theorem mkGroup_sample (c : CaseRec) (cur : List (Nat × Nat)) (hne : cur ≠ [])
    (hsub : ∀ p ∈ cur, some p ∈ c.checks) : (mkGroup c cur).sample ∈ samplesOf c := by
  obtain ⟨p, hp⟩ : ∃ p, cur.getLast? = some p := by
    cases h : cur.getLast? with
    | none => exact absurd (List.getLast?_eq_none_iff.1 h) hne
    | some p => exact ⟨p, rfl⟩
  have hm : p ∈ cur := List.mem_of_getLast? hp
  simp only [mkGroup, hp, Option.map_some, Option.getD_some, samplesOf, List.mem_filterMap]
  exact ⟨some p, hsub p hm, by simp⟩

/-- the group created for the first case of the scenario that carries the new failure `f` -/
theorem caseLoop_creates (f : Nat) (cs : List CaseRec) : ∀ (a : Acc) (c : CaseRec),
    ndGet f a.unique = none → cs.find? (caseHas f) = some c → (cs.map (·.id)).Nodup →
    (∃ g, ndGet c.id (caseLoop cs a).groups = some g ∧ g.caseId = c.id ∧ f ∈ g.failures ∧ g.resp = c.resp ∧
      g.sample ∈ samplesOf c) ∧ ndGet f (caseLoop cs a).unique = some c.id := by
  induction cs with
  | nil => intro a c _ h; simp at h
  | cons c0 cs ih =>
    intro a c hu hfind hnd
    simp only [List.map_cons, List.nodup_cons, List.mem_map, not_exists, not_and] at hnd
    simp only [List.find?_cons] at hfind
    cases hh : caseHas f c0 with
    | true =>
      rw [hh] at hfind
      simp only [Option.some.injEq] at hfind
      subst hfind
      obtain ⟨s, hs⟩ := caseHas_true f c0 hh
      have hne : c0.checks.isEmpty = false := by
        cases h' : c0.checks with
        | nil => rw [h'] at hs; cases hs
        | cons _ _ => rfl
      obtain ⟨hnew, huniq⟩ := checkLoop_new c0.id f s c0.checks a.unique [] hu hs
      have hcur : (checkLoop c0.id c0.checks a.unique []).2 ≠ [] := by
        intro e; rw [e] at hnew; simp at hnew
      have hcur' : (checkLoop c0.id c0.checks a.unique []).2.isEmpty = false := by
        cases h' : (checkLoop c0.id c0.checks a.unique []).2 with
        | nil => exact absurd h' hcur
        | cons _ _ => rfl
      have hothers : ∀ c' ∈ cs, c'.id ≠ c0.id := fun c' hc' e => hnd.1 c' hc' e
      simp only [caseLoop, hne, Bool.false_eq_true, if_false, hcur']
      refine ⟨⟨mkGroup c0 (checkLoop c0.id c0.checks a.unique []).2, ?_, rfl, ?_, rfl, ?_⟩, ?_⟩
      · rw [caseLoop_preserves c0.id cs _ hothers]; exact ndGet_ndSet_same _ _ _
      · simpa [mkGroup] using hnew
      · apply mkGroup_sample _ _ hcur
        intro p hp
        rcases checkLoop_sub c0.id c0.checks a.unique [] p hp with h | h
        · cases h
        · exact h
      · exact caseLoop_keeps f c0.id cs _ huniq
    | false =>
      rw [hh] at hfind
      have h0 := checkLoop_only c0.id f c0.checks a.unique [] hu (caseHas_false f c0 hh)
      simp only [caseLoop]
      split
      · exact ih _ c hu hfind hnd.2
      · split
        · exact ih _ c h0 hfind hnd.2
        · exact ih _ c h0 hfind hnd.2

theorem caseLoop_withoutChecks (cs : List CaseRec) : ∀ a : Acc,
    (caseLoop cs a).withoutChecks = a.withoutChecks + (cs.filter (·.checks.isEmpty)).length := by
  induction cs with
  | nil => intro a; simp [caseLoop]
  | cons c cs ih =>
    intro a
    simp only [caseLoop]
    split
    · rename_i he; rw [ih]; simp [he]; omega
    · rename_i he
      split
      · rw [ih]; simp [he]
      · rw [ih]; simp [he]

/-- `cases_with_failures` counts exactly the groups that were added -/
theorem caseLoop_withFailures (cs : List CaseRec) : ∀ a : Acc,
    (∀ c ∈ cs, ndGet c.id a.groups = none) → (cs.map (·.id)).Nodup →
    (caseLoop cs a).withFailures + a.groups.length = a.withFailures + (caseLoop cs a).groups.length := by
  induction cs with
  | nil => intro a _ _; simp only [caseLoop]
  | cons c cs ih =>
    intro a hfresh hnd
    simp only [List.map_cons, List.nodup_cons, List.mem_map, not_exists, not_and] at hnd
    have hfresh' : ∀ c' ∈ cs, ndGet c'.id a.groups = none := fun c' hc' => hfresh c' (by simp [hc'])
    simp only [caseLoop]
    split
    · exact ih _ hfresh' hnd.2
    · split
      · exact ih _ hfresh' hnd.2
      · have hf0 := hfresh c (by simp)
        rw [ndSet_fresh _ _ _ hf0]
        have := ih { a with unique := (checkLoop c.id c.checks a.unique []).1,
                            groups := a.groups ++ [(c.id, mkGroup c (checkLoop c.id c.checks a.unique []).2)],
                            withFailures := a.withFailures + 1 }
          (by
            intro c' hc'
            have hne : c'.id ≠ c.id := fun e => hnd.1 c' hc' e
            simp only
            rw [← ndSet_fresh _ _ _ hf0, ndGet_ndSet_ne _ _ _ _ hne]
            exact hfresh' c' hc') hnd.2
        simp only [List.length_append, List.length_singleton] at this
        omega

/-! ### one finished scenario -/

/-- the accumulator after the case loop of `on_scenario_finished` -/
def acc (st : Stat) (r : Recorder) : Acc :=
  caseLoop r.cases ⟨st.unique, (ndGet r.label st.failures).getD [], st.withFailures, st.withoutChecks⟩

theorem osf_failures (st : Stat) (r : Recorder) : (onScenarioFinished st r).failures =
    if (acc st r).groups.isEmpty then st.failures else ndSet r.label (acc st r).groups st.failures := rfl
theorem osf_unique (st : Stat) (r : Recorder) : (onScenarioFinished st r).unique = (acc st r).unique := rfl
theorem osf_total (st : Stat) (r : Recorder) : (onScenarioFinished st r).total = st.total + r.cases.length := rfl
theorem osf_withFailures (st : Stat) (r : Recorder) : (onScenarioFinished st r).withFailures = (acc st r).withFailures := rfl
theorem osf_withoutChecks (st : Stat) (r : Recorder) : (onScenarioFinished st r).withoutChecks = (acc st r).withoutChecks := rfl

/-- every failure the store holds is held once, and exactly the failures of `unique_failures_map` are held -/
def Inv (st : Stat) : Prop := ∀ f, (allF st.failures).count f = ind st.unique f

/-- every case id used as a key of the store is in `S` -/
def KeysIn (F : List (Nat × List (Nat × Group))) (S : List Nat) : Prop := ∀ lg ∈ F, ∀ cg ∈ lg.2, cg.1 ∈ S

theorem allF_cons (x : Nat × List (Nat × Group)) (F : List (Nat × List (Nat × Group))) :
    allF (x :: F) = flatG x.2 ++ allF F := by simp [allF]

theorem count_allF_ndSet (f l : Nat) (gs' : List (Nat × Group)) (F : List (Nat × List (Nat × Group))) (a b : Nat)
    (h : (flatG gs').count f + a = (flatG ((ndGet l F).getD [])).count f + b) :
    (allF (ndSet l gs' F)).count f + a = (allF F).count f + b := by
  induction F with
  | nil => simpa [allF, ndSet, ndGet, flatG] using h
  | cons q F ih =>
    obtain ⟨l', g'⟩ := q
    simp only [ndGet] at h
    simp only [ndSet]
    split
    · rename_i e
      simp only [e, if_true, Option.getD_some] at h
      simp only [allF_cons, List.count_append]
      omega
    · rename_i e
      simp only [e, if_false] at h
      have := ih h
      simp only [allF_cons, List.count_append]
      omega

theorem fresh_of_keys (F : List (Nat × List (Nat × Group))) (S : List Nat) (hk : KeysIn F S) (l k : Nat) (hn : k ∉ S) :
    ndGet k ((ndGet l F).getD []) = none := by
  cases h : ndGet l F with
  | none => simp [ndGet]
  | some gs =>
    simp only [Option.getD_some]
    apply ndGet_none_of_keys
    intro cg hcg e
    exact hn (e ▸ hk (l, gs) (ndGet_mem _ _ _ h) cg hcg)

theorem ind_mono_acc (st : Stat) (r : Recorder) (f : Nat) : ind st.unique f ≤ ind (acc st r).unique f := by
  unfold ind
  cases h : ndGet f st.unique with
  | none => simp
  | some x =>
    have := caseLoop_keeps f x r.cases ⟨st.unique, (ndGet r.label st.failures).getD [], st.withFailures, st.withoutChecks⟩ h
    simp [acc, this]

theorem step_inv (st : Stat) (r : Recorder) (S : List Nat) (hinv : Inv st) (hk : KeysIn st.failures S)
    (hfresh : ∀ c ∈ r.cases, c.id ∉ S) (hnd : (r.cases.map (·.id)).Nodup) :
    Inv (onScenarioFinished st r) ∧ KeysIn (onScenarioFinished st r).failures (S ++ r.cases.map (·.id)) := by
  constructor
  · intro f
    have hc := caseLoop_count f r.cases ⟨st.unique, (ndGet r.label st.failures).getD [], st.withFailures, st.withoutChecks⟩
      (fun c hc => fresh_of_keys _ S hk r.label c.id (hfresh c hc)) hnd
    have hm := ind_mono_acc st r f
    have hi := hinv f
    rw [osf_failures, osf_unique]
    simp only at hc
    change (flatG (acc st r).groups).count f + ind st.unique f =
      (flatG ((ndGet r.label st.failures).getD [])).count f + ind (acc st r).unique f at hc
    split
    · rename_i he
      have he' : (acc st r).groups = [] := by simpa using he
      rw [he'] at hc
      simp [flatG] at hc
      omega
    · have := count_allF_ndSet f r.label (acc st r).groups st.failures _ _ hc
      omega
  · intro lg hlg cg hcg
    rw [osf_failures] at hlg
    have old : ∀ lg' ∈ st.failures, ∀ cg' ∈ lg'.2, cg'.1 ∈ S ++ r.cases.map (·.id) :=
      fun lg' h1 cg' h2 => by simp [hk lg' h1 cg' h2]
    split at hlg
    · exact old lg hlg cg hcg
    · rcases mem_ndSet _ _ _ _ hlg with h | h
      · exact old lg h cg hcg
      · subst h
        rcases caseLoop_groups_mem r.cases _ cg hcg with h | ⟨c, hc, e⟩
        · simp only at h
          cases hg : ndGet r.label st.failures with
          | none => rw [hg] at h; simp at h
          | some gs =>
            rw [hg] at h
            simp only [Option.getD_some] at h
            simp [hk (r.label, gs) (ndGet_mem _ _ _ hg) cg h]
        · simp only [List.mem_append, List.mem_map]
          exact Or.inr ⟨c, hc, e.symm⟩

theorem step_preserves (st : Stat) (r : Recorder) (l k : Nat) (gs : List (Nat × Group)) (g : Group)
    (h1 : ndGet l st.failures = some gs) (h2 : ndGet k gs = some g) (hne : ∀ c ∈ r.cases, c.id ≠ k) :
    ∃ gs', ndGet l (onScenarioFinished st r).failures = some gs' ∧ ndGet k gs' = some g := by
  rw [osf_failures]
  by_cases hl : r.label = l
  · have hk : ndGet k (acc st r).groups = some g := by
      unfold acc
      rw [caseLoop_preserves k r.cases _ hne]
      simp only [hl, h1, Option.getD_some]
      exact h2
    have hne' : (acc st r).groups.isEmpty = false := by
      cases hh : (acc st r).groups with
      | nil => rw [hh] at hk; simp [ndGet] at hk
      | cons _ _ => rfl
    simp only [hne', Bool.false_eq_true, if_false, hl]
    exact ⟨_, ndGet_ndSet_same _ _ _, hk⟩
  · split
    · exact ⟨gs, h1, h2⟩
    · rw [ndGet_ndSet_ne _ _ _ _ (fun e => hl e.symm)]
      exact ⟨gs, h1, h2⟩

theorem step_creates (st : Stat) (r : Recorder) (f : Nat) (c : CaseRec) (hu : ndGet f st.unique = none)
    (hfind : r.cases.find? (caseHas f) = some c) (hnd : (r.cases.map (·.id)).Nodup) :
    (∃ gs g, ndGet r.label (onScenarioFinished st r).failures = some gs ∧ ndGet c.id gs = some g ∧ g.caseId = c.id ∧
      f ∈ g.failures ∧ g.resp = c.resp ∧ g.sample ∈ samplesOf c) ∧
    ndGet f (onScenarioFinished st r).unique = some c.id := by
  obtain ⟨⟨g, hg, hrest⟩, hun⟩ := caseLoop_creates f r.cases
    ⟨st.unique, (ndGet r.label st.failures).getD [], st.withFailures, st.withoutChecks⟩ c hu hfind hnd
  change ndGet c.id (acc st r).groups = some g at hg
  refine ⟨?_, hun⟩
  have hne' : (acc st r).groups.isEmpty = false := by
    cases hh : (acc st r).groups with
    | nil => rw [hh] at hg; simp [ndGet] at hg
    | cons _ _ => rfl
  rw [osf_failures]
  simp only [hne', Bool.false_eq_true, if_false]
  exact ⟨_, g, ndGet_ndSet_same _ _ _, hg, hrest⟩

theorem step_only (st : Stat) (r : Recorder) (f : Nat) (hu : ndGet f st.unique = none)
    (hfind : r.cases.find? (caseHas f) = none) : ndGet f (onScenarioFinished st r).unique = none := by
  rw [osf_unique]
  apply caseLoop_only f r.cases _ hu
  intro c hc
  have := List.find?_eq_none.1 hfind c hc
  simpa using this

theorem step_keeps (st : Stat) (r : Recorder) (f x : Nat) (h : ndGet f st.unique = some x) :
    ndGet f (onScenarioFinished st r).unique = some x := by
  rw [osf_unique]; exact caseLoop_keeps f x r.cases _ h

theorem step_adds (st : Stat) (r : Recorder) (f : Nat) (h : failsIn r f) :
    (ndGet f (onScenarioFinished st r).unique).isSome = true := by
  obtain ⟨c, hc, s, hs⟩ := h
  rw [osf_unique]; exact caseLoop_adds f s r.cases _ c hc hs

/-! ### the whole history -/

theorem foldl_keeps (f x : Nat) (h : List Recorder) : ∀ st : Stat, ndGet f st.unique = some x →
    ndGet f (h.foldl onScenarioFinished st).unique = some x := by
  induction h with
  | nil => intro st hx; exact hx
  | cons r rest ih => intro st hx; exact ih _ (step_keeps st r f x hx)

theorem foldl_adds (f : Nat) (h : List Recorder) : ∀ (st : Stat) (r : Recorder), r ∈ h → failsIn r f →
    (ndGet f (h.foldl onScenarioFinished st).unique).isSome = true := by
  induction h with
  | nil => intro st r hr; cases hr
  | cons r0 rest ih =>
    intro st r hr hf
    simp only [List.mem_cons] at hr
    rcases hr with rfl | hr
    · obtain ⟨x, hx⟩ := Option.isSome_iff_exists.1 (step_adds st r f hf)
      simp only [List.foldl_cons]
      rw [foldl_keeps f x rest _ hx]; rfl
    · exact ih _ r hr hf

theorem caseIds_cons (r : Recorder) (h : List Recorder) : caseIds (r :: h) = r.cases.map (·.id) ++ caseIds h := by
  simp [caseIds]

theorem foldl_inv (h : List Recorder) : ∀ (st : Stat) (S : List Nat), Inv st → KeysIn st.failures S →
    (S ++ caseIds h).Nodup → Inv (h.foldl onScenarioFinished st) := by
  induction h with
  | nil => intro st S hi _ _; exact hi
  | cons r rest ih =>
    intro st S hi hk hnd
    rw [caseIds_cons, ← List.append_assoc] at hnd
    have hnd1 := (List.nodup_append.1 hnd).1
    obtain ⟨_, hr, hdis⟩ := List.nodup_append.1 hnd1
    obtain ⟨hi', hk'⟩ := step_inv st r S hi hk
      (fun c hc hin => hdis c.id hin c.id (List.mem_map.2 ⟨c, hc, rfl⟩) rfl) hr
    exact ih _ _ hi' hk' hnd

theorem run_inv (h : List Recorder) (hnd : (caseIds h).Nodup) : Inv (run h) := by
  apply foldl_inv h Stat.init [] _ _ (by simpa using hnd)
  · intro f; simp [Stat.init, allF, ind, ndGet]
  · intro lg hlg; simp [Stat.init] at hlg

theorem foldl_preserves (l k : Nat) (g : Group) (h : List Recorder) : ∀ (st : Stat) (gs : List (Nat × Group)),
    ndGet l st.failures = some gs → ndGet k gs = some g → (∀ r ∈ h, ∀ c ∈ r.cases, c.id ≠ k) →
    ∃ gs', ndGet l (h.foldl onScenarioFinished st).failures = some gs' ∧ ndGet k gs' = some g := by
  induction h with
  | nil => intro st gs h1 h2 _; exact ⟨gs, h1, h2⟩
  | cons r rest ih =>
    intro st gs h1 h2 hne
    obtain ⟨gs', h1', h2'⟩ := step_preserves st r l k gs g h1 h2 (hne r (by simp))
    exact ih _ gs' h1' h2' (fun r' hr' => hne r' (by simp [hr']))

theorem foldl_location (f l : Nat) (c : CaseRec) (h : List Recorder) : ∀ st : Stat, ndGet f st.unique = none →
    firstSeen f h = some (l, c) → (caseIds h).Nodup →
    (∃ gs g, ndGet l (h.foldl onScenarioFinished st).failures = some gs ∧ ndGet c.id gs = some g ∧ g.caseId = c.id ∧
      f ∈ g.failures ∧ g.resp = c.resp ∧ g.sample ∈ samplesOf c) ∧
    ndGet f (h.foldl onScenarioFinished st).unique = some c.id := by
  induction h with
  | nil => intro st _ hfs; simp [firstSeen] at hfs
  | cons r rest ih =>
    intro st hu hfs hnd
    rw [caseIds_cons] at hnd
    obtain ⟨hr, hrest, hdis⟩ := List.nodup_append.1 hnd
    simp only [firstSeen] at hfs
    cases hfind : r.cases.find? (caseHas f) with
    | some c' =>
      rw [hfind] at hfs
      simp only [Option.some.injEq, Prod.mk.injEq] at hfs
      obtain ⟨rfl, rfl⟩ := hfs
      obtain ⟨⟨gs, g, h1, h2, hgood⟩, hun⟩ := step_creates st r f c' hu hfind hr
      have hc : c' ∈ r.cases := List.mem_of_find?_eq_some hfind
      have hne : ∀ r' ∈ rest, ∀ c'' ∈ r'.cases, c''.id ≠ c'.id := by
        intro r' hr' c'' hc'' e
        refine hdis c'.id (List.mem_map.2 ⟨c', hc, rfl⟩) c''.id ?_ e.symm
        simp only [caseIds, List.mem_flatMap, List.mem_map]
        exact ⟨r', hr', c'', hc'', rfl⟩
      obtain ⟨gs', h1', h2'⟩ := foldl_preserves r.label c'.id g rest _ gs h1 h2 hne
      exact ⟨⟨gs', g, h1', h2', hgood⟩, foldl_keeps f c'.id rest _ hun⟩
    | none =>
      rw [hfind] at hfs
      exact ih _ (step_only st r f hu hfind) hfs hrest

theorem firstSeen_of_failsIn (f : Nat) (h : List Recorder) (r : Recorder) (hr : r ∈ h) (hf : failsIn r f) :
    ∃ l c, firstSeen f h = some (l, c) ∧ (∃ r' ∈ h, r'.label = l ∧ c ∈ r'.cases) ∧ caseHas f c = true := by
  induction h with
  | nil => cases hr
  | cons r0 rest ih =>
    simp only [firstSeen]
    cases hfind : r0.cases.find? (caseHas f) with
    | some c =>
      exact ⟨r0.label, c, rfl, ⟨r0, by simp, rfl, List.mem_of_find?_eq_some hfind⟩, List.find?_some hfind⟩
    | none =>
      simp only [List.mem_cons] at hr
      rcases hr with rfl | hr
      · exfalso
        obtain ⟨c, hc, s, hs⟩ := hf
        have := List.find?_eq_none.1 hfind c hc
        apply this
        simp only [caseHas, List.any_eq_true]
        exact ⟨some (f, s), hs, by simp [checkHas]⟩
      · obtain ⟨l, c, h1, ⟨r', hr', h2⟩, h3⟩ := ih hr
        exact ⟨l, c, h1, ⟨r', by simp [hr'], h2⟩, h3⟩

/-- a failure in the map was carried by a failing check of the history -/
theorem foldl_unique_origin (f : Nat) (h : List Recorder) : ∀ st : Stat,
    (ndGet f (h.foldl onScenarioFinished st).unique).isSome = true →
    (ndGet f st.unique).isSome = true ∨ ∃ r ∈ h, failsIn r f := by
  induction h with
  | nil => intro st hx; exact Or.inl hx
  | cons r rest ih =>
    intro st hx
    rcases ih _ hx with h1 | ⟨r', hr', hf⟩
    · cases hu : ndGet f st.unique with
      | some x => exact Or.inl rfl
      | none =>
        right
        cases hfind : r.cases.find? (caseHas f) with
        | none => rw [step_only st r f hu hfind] at h1; cases h1
        | some c =>
          obtain ⟨s, hs⟩ := caseHas_true f c (List.find?_some hfind)
          exact ⟨r, by simp, c, List.mem_of_find?_eq_some hfind, s, hs⟩
    · exact Or.inr ⟨r', by simp [hr'], hf⟩

/-! ### counters -/

theorem foldl_total (h : List Recorder) : ∀ st : Stat,
    (h.foldl onScenarioFinished st).total = st.total + casesTotal h := by
  induction h with
  | nil => intro st; simp [casesTotal]
  | cons r rest ih => intro st; simp only [List.foldl_cons, ih, osf_total]; simp [casesTotal]; omega

theorem foldl_withoutChecks (h : List Recorder) : ∀ st : Stat,
    (h.foldl onScenarioFinished st).withoutChecks = st.withoutChecks + casesWithoutChecks h := by
  induction h with
  | nil => intro st; simp [casesWithoutChecks]
  | cons r rest ih =>
    intro st
    simp only [List.foldl_cons, ih, osf_withoutChecks, acc, caseLoop_withoutChecks]
    simp [casesWithoutChecks]; omega

theorem groupCount_ndSet (l : Nat) (gs' : List (Nat × Group)) (F : List (Nat × List (Nat × Group))) :
    groupCount (ndSet l gs' F) + ((ndGet l F).getD []).length = groupCount F + gs'.length := by
  induction F with
  | nil => simp [groupCount, ndSet, ndGet]
  | cons q F ih =>
    obtain ⟨l', g'⟩ := q
    simp only [ndSet, ndGet]
    split
    · simp [groupCount]; omega
    · simp [groupCount] at ih ⊢; omega

theorem caseLoop_withFailures_mono (cs : List CaseRec) : ∀ a : Acc, a.withFailures ≤ (caseLoop cs a).withFailures := by
  induction cs with
  | nil => intro a; simp [caseLoop]
  | cons c cs ih =>
    intro a
    simp only [caseLoop]
    split
    · exact ih { a with withoutChecks := a.withoutChecks + 1 }
    · split
      · exact ih { a with unique := (checkLoop c.id c.checks a.unique []).1 }
      · have := ih { a with unique := (checkLoop c.id c.checks a.unique []).1,
                            groups := ndSet c.id (mkGroup c (checkLoop c.id c.checks a.unique []).2) a.groups,
                            withFailures := a.withFailures + 1 }
        simp only at this
        omega

theorem step_withFailures (st : Stat) (r : Recorder) (S : List Nat) (hk : KeysIn st.failures S)
    (hfresh : ∀ c ∈ r.cases, c.id ∉ S) (hnd : (r.cases.map (·.id)).Nodup)
    (h : st.withFailures = groupCount st.failures) :
    (onScenarioFinished st r).withFailures = groupCount (onScenarioFinished st r).failures := by
  have hc := caseLoop_withFailures r.cases ⟨st.unique, (ndGet r.label st.failures).getD [], st.withFailures, st.withoutChecks⟩
    (fun c hc => fresh_of_keys _ S hk r.label c.id (hfresh c hc)) hnd
  change (acc st r).withFailures + ((ndGet r.label st.failures).getD []).length =
    st.withFailures + (acc st r).groups.length at hc
  rw [osf_withFailures, osf_failures]
  split
  · rename_i he
    have he' : (acc st r).groups = [] := by simpa using he
    rw [he'] at hc
    simp at hc
    have hm := caseLoop_withFailures_mono r.cases ⟨st.unique, (ndGet r.label st.failures).getD [], st.withFailures, st.withoutChecks⟩
    change st.withFailures ≤ (acc st r).withFailures at hm
    omega
  · have := groupCount_ndSet r.label (acc st r).groups st.failures
    omega

theorem foldl_withFailures (h : List Recorder) : ∀ (st : Stat) (S : List Nat), Inv st → KeysIn st.failures S →
    (S ++ caseIds h).Nodup → st.withFailures = groupCount st.failures →
    (h.foldl onScenarioFinished st).withFailures = groupCount (h.foldl onScenarioFinished st).failures := by
  induction h with
  | nil => intro st S _ _ _ h; exact h
  | cons r rest ih =>
    intro st S hi hk hnd hw
    rw [caseIds_cons, ← List.append_assoc] at hnd
    have hnd1 := (List.nodup_append.1 hnd).1
    obtain ⟨_, hr, hdis⟩ := List.nodup_append.1 hnd1
    have hfresh : ∀ c ∈ r.cases, c.id ∉ S := fun c hc hin => hdis c.id hin c.id (List.mem_map.2 ⟨c, hc, rfl⟩) rfl
    obtain ⟨hi', hk'⟩ := step_inv st r S hi hk hfresh hr
    exact ih _ _ hi' hk' hnd (step_withFailures st r S hk hfresh hr hw)

/-! ### `ExecutionContext.on_event` -/

open SV.Model.Plan SV.Model.Engine in
theorem foldl_onEvent_exit_one (enabled : Nat → Bool) (evs : List CEv) : ∀ c : Ctx, c.exit = 1 →
    (evs.foldl (onEvent enabled) c).exit = 1 := by
  induction evs with
  | nil => intro c h; exact h
  | cons e rest ih =>
    intro c h
    apply ih
    cases e with
    | scenario i k st r => exact h
    | plain e =>
      cases e with
      | inner i x => cases x <;> simp [onEvent, h]
      | phaseFinished i st r => simp only [onEvent]; split <;> simp [h]
      | _ => simp [onEvent, h]

open SV.Model.Plan SV.Model.Engine in
theorem foldl_onEvent_exit (enabled : Nat → Bool) (evs : List CEv) : ∀ c : Ctx, c.exit = 0 →
    (evs.foldl (onEvent enabled) c).exit = exitCode enabled (evs.map CEv.erase) := by
  induction evs with
  | nil => intro c h; simpa [exitCode] using h
  | cons e rest ih =>
    intro c h
    cases e with
    | scenario i k st r => simpa [onEvent, CEv.erase, exitCode] using ih { c with stat := onScenarioFinished c.stat r } h
    | plain e =>
      cases e with
      | inner i x =>
        cases x with
        | nonFatal j =>
          simp only [List.foldl_cons, onEvent, List.map_cons, CEv.erase, exitCode]
          exact foldl_onEvent_exit_one enabled rest _ rfl
        | _ => simpa [onEvent, CEv.erase, exitCode] using ih c h
      | phaseFinished i st r =>
        simp only [List.foldl_cons, onEvent, List.map_cons, CEv.erase, exitCode]
        split
        · exact foldl_onEvent_exit_one enabled rest _ rfl
        · exact ih c h
      | _ => simpa [onEvent, CEv.erase, exitCode] using ih c h

theorem foldl_onEvent_stat (enabled : Nat → Bool) (evs : List CEv) : ∀ c : Ctx,
    (evs.foldl (onEvent enabled) c).stat = (recorders evs).foldl onScenarioFinished c.stat := by
  induction evs with
  | nil => intro c; rfl
  | cons e rest ih =>
    intro c
    cases e with
    | scenario i k st r => simp only [List.foldl_cons, onEvent, recorders, ih]
    | plain e =>
      cases e with
      | inner i x => cases x <;> simp only [List.foldl_cons, onEvent, recorders, ih]
      | phaseFinished i st r =>
        simp only [List.foldl_cons, onEvent, recorders]
        split <;> simp only [ih]
      | _ => simp only [List.foldl_cons, onEvent, recorders, ih]

theorem mem_recorders (evs : List CEv) (i k : Nat) (st : SV.Model.Engine.Status) (r : Recorder)
    (h : CEv.scenario i k st r ∈ evs) : r ∈ recorders evs := by
  induction evs with
  | nil => cases h
  | cons e rest ih =>
    simp only [List.mem_cons] at h
    cases e with
    | scenario i' k' st' r' =>
      simp only [recorders, List.mem_cons]
      rcases h with h | h
      · left; cases h; rfl
      · exact Or.inr (ih h)
    | plain e =>
      simp only [recorders]
      rcases h with h | h
      · cases h
      · exact ih h

theorem failsIn_of_mem_failuresOf (h : List Recorder) (f : Nat) (hf : f ∈ failuresOf h) : ∃ r ∈ h, failsIn r f := by
  simp only [failuresOf, List.mem_flatMap, List.mem_filterMap] at hf
  obtain ⟨r, hr, c, hc, k, hk, hkf⟩ := hf
  cases k with
  | none => simp at hkf
  | some p =>
    obtain ⟨g, s⟩ := p
    simp at hkf
    subst hkf
    exact ⟨r, hr, c, hc, s, hk⟩

/-! ### `_execute` -/

theorem execLoop_none (enabled : Nat → Bool) (evs : List CEv) : ∀ (i : Nat) (c : Ctx),
    execLoop enabled none i c evs = (.exit (evs.foldl (onEvent enabled) c).exit, evs.foldl (onEvent enabled) c) := by
  induction evs with
  | nil => intro i c; rfl
  | cons e rest ih => intro i c; simp only [execLoop, List.foldl_cons, ih]

theorem execLoop_exit0 (enabled : Nat → Bool) (fault : Option (Nat × Bool)) (evs : List CEv) : ∀ (i : Nat) (c : Ctx),
    (execLoop enabled fault i c evs).1 = .exit 0 →
      (∀ k ab, fault = some (k, ab) → k < i ∨ i + evs.length ≤ k) ∧ (evs.foldl (onEvent enabled) c).exit = 0 := by
  induction evs with
  | nil =>
    intro i c h
    simp only [execLoop, Outcome.exit.injEq] at h
    exact ⟨fun k ab _ => (by simp only [List.length_nil]; omega), h⟩
  | cons e rest ih =>
    intro i c h
    cases fault with
    | none =>
      simp only [execLoop] at h
      obtain ⟨_, h2⟩ := ih (i + 1) _ h
      exact ⟨fun k ab hk => (by cases hk), h2⟩
    | some p =>
      obtain ⟨k0, ab0⟩ := p
      simp only [execLoop] at h
      split at h
      · cases ab0 <;> simp at h
      · rename_i hne
        obtain ⟨h1, h2⟩ := ih (i + 1) _ h
        refine ⟨?_, h2⟩
        intro k ab hk
        simp only [Option.some.injEq, Prod.mk.injEq] at hk
        obtain ⟨rfl, rfl⟩ := hk
        rcases h1 k0 ab0 rfl with h | h
        · left; omega
        · right; simp only [List.length_cons]; omega

end SV.Proofs.C05Stat
