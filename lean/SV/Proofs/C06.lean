/-
  Helper lemmas for C06 (not property statements).
-/
import SV.Spec.C06

namespace SV.Proofs.C06
open SV.Model.C06 SV.Spec.C06

theorem hexVal_hexDigit (n : Nat) (h : n < 16) : hexVal (hexDigit n) = some n := by
  unfold hexVal hexDigit
  by_cases h10 : n < 10
  · simp only [h10, if_true]
    have : 48 ≤ 48 + n ∧ 48 + n ≤ 57 := by omega
    simp only [this, and_self, if_true]
    congr 1; omega
  · simp only [h10, if_false]
    have h1 : ¬ (48 ≤ 55 + n ∧ 55 + n ≤ 57) := by omega
    have h2 : 65 ≤ 55 + n ∧ 55 + n ≤ 70 := by omega
    simp only [h1, if_false, h2, and_self, if_true]
    congr 1; omega

theorem isAlwaysSafe_ne_pct (b : Nat) (h : isAlwaysSafe b = true) : b ≠ 37 := by
  intro hb; subst hb; simp [isAlwaysSafe] at h

theorem pctDecode_pct (b : Nat) (hb : b < 256) (rest : Bytes) :
    pctDecode (pct b ++ rest) = (pctDecode rest).map (b :: ·) := by
  have h1 := hexVal_hexDigit (b / 16) (by omega)
  have h2 := hexVal_hexDigit (b % 16) (by omega)
  simp only [pct, List.cons_append, List.nil_append, pctDecode, h1, h2]
  have : 16 * (b / 16) + b % 16 = b := by omega
  cases pctDecode rest <;> simp [this]

theorem pctDecode_plain (c : Nat) (hc : c ≠ 37) (rest : Bytes) :
    pctDecode (c :: rest) = (pctDecode rest).map (c :: ·) := by
  conv => lhs; unfold pctDecode
  split <;> simp_all

theorem pctDecode_quoteByte (safe : Nat → Bool) (hs : safe 37 = false) (b : Nat) (hb : b < 256) (rest : Bytes) :
    pctDecode (quoteByte safe b ++ rest) = (pctDecode rest).map (b :: ·) := by
  unfold quoteByte
  by_cases h : (isAlwaysSafe b || safe b) = true
  · simp only [h, if_true, List.cons_append, List.nil_append]
    apply pctDecode_plain
    intro h37; subst h37
    simp [isAlwaysSafe, hs] at h
  · simp only [h]
    exact pctDecode_pct b hb rest

theorem pctDecode_quoteWith (safe : Nat → Bool) (hs : safe 37 = false) (bs : Bytes) (hb : IsBytes bs) :
    pctDecode (quoteWith safe bs) = some bs := by
  induction bs with
  | nil => simp [quoteWith, pctDecode]
  | cons b rest ih =>
    have hb0 : b < 256 := hb b (by simp)
    have hr : IsBytes rest := fun x hx => hb x (by simp [hx])
    simp only [quoteWith, pctDecode_quoteByte safe hs b hb0, ih hr, Option.map_some]

/-! ### the output of `quote` is a well-formed segment -/

theorem hexDigit_pchar (n : Nat) (h : n < 16) : isPchar (hexDigit n) = true := by
  unfold hexDigit
  by_cases h10 : n < 10
  · simp only [h10, if_true, isPchar, isAlwaysSafe]
    have : 48 ≤ 48 + n ∧ 48 + n ≤ 57 := by omega
    simp [this]
  · simp only [h10, if_false, isPchar, isAlwaysSafe]
    have : 65 ≤ 55 + n ∧ 55 + n ≤ 90 := by omega
    simp [this]

theorem quoteByte_pchar (b : Nat) (hb : b < 256) : (quoteByte safeNone b).all isPchar = true := by
  unfold quoteByte
  by_cases h : isAlwaysSafe b = true
  · simp [h, safeNone, isPchar]
  · have h1 := hexDigit_pchar (b / 16) (by omega)
    have h2 := hexDigit_pchar (b % 16) (by omega)
    simp only [Bool.not_eq_true] at h
    simp [h, safeNone, pct, h1, h2]
    simp [isPchar]

theorem quoteStrict_segment (bs : Bytes) (hb : IsBytes bs) : isSegment (quoteStrict bs) = true := by
  induction bs with
  | nil => simp [quoteStrict, quoteWith, isSegment]
  | cons b rest ih =>
    have hb0 : b < 256 := hb b (by simp)
    have hr : IsBytes rest := fun x hx => hb x (by simp [hx])
    have := quoteByte_pchar b hb0
    have ih' := ih hr
    simp only [quoteStrict, isSegment] at ih' ⊢
    simp only [quoteWith, List.all_append, this, ih', Bool.and_self]

/-! ### quote_plus: spaces become "+" and decode as "+" -/

theorem quoteByte_safeSpace_ne (b : Nat) (h : b ≠ 32) : quoteByte safeSpace b = quoteByte safeNone b := by
  simp [quoteByte, safeSpace, safeNone, h]

theorem hexDigit_ne_space (n : Nat) : hexDigit n ≠ 32 := by
  unfold hexDigit; split <;> omega

theorem map_quoteByte_safeNone (b : Nat) (h : b ≠ 32) :
    (quoteByte safeNone b).map (fun c => if c == 32 then 43 else c) = quoteByte safeNone b := by
  unfold quoteByte
  split
  · simp [h]
  · have h1 := hexDigit_ne_space (b / 16)
    have h2 := hexDigit_ne_space (b % 16)
    simp [pct, h1, h2]

/-- `quote(s, ' ').replace(' ', '+')` byte by byte -/
theorem quotePlusMap_eq (bs : Bytes) :
    (quoteWith safeSpace bs).map (fun c => if c == 32 then 43 else c) =
      (bs.map fun b => if b = 32 then [43] else quoteByte safeNone b).flatten := by
  induction bs with
  | nil => simp [quoteWith]
  | cons b rest ih =>
    simp only [quoteWith, List.map_append, ih, List.map_cons, List.flatten_cons]
    congr 1
    by_cases h : b = 32
    · subst h; simp [quoteByte, safeSpace, isAlwaysSafe]
    · simp only [h, if_false, quoteByte_safeSpace_ne b h, map_quoteByte_safeNone b h]

theorem quoteStrict_eq_flatten (bs : Bytes) :
    quoteWith safeNone bs = (bs.map fun b => quoteByte safeNone b).flatten := by
  induction bs with
  | nil => simp [quoteWith]
  | cons b rest ih => simp [quoteWith, ih]

theorem quotePlus_eq (bs : Bytes) :
    quotePlus bs = (bs.map fun b => if b = 32 then [43] else quoteByte safeNone b).flatten := by
  unfold quotePlus
  by_cases h : bs.contains 32 = true
  · simp only [h, if_true]; exact quotePlusMap_eq bs
  · have h' : bs.contains 32 = false := by simpa using h
    simp only [h', Bool.false_eq_true, if_false]
    rw [quoteStrict_eq_flatten]
    congr 1
    apply List.map_congr_left
    intro b hb
    have : b ≠ 32 := by
      intro h32; subst h32; simp at h; exact h hb
    simp [this]

theorem pctDecode_plusflat (bs : Bytes) (hb : IsBytes bs) :
    pctDecode (bs.map fun b => if b = 32 then [43] else quoteByte safeNone b).flatten = some (bs.map spaceToPlus) := by
  induction bs with
  | nil => simp [pctDecode]
  | cons b rest ih =>
    have hb0 : b < 256 := hb b (by simp)
    have hr : IsBytes rest := fun x hx => hb x (by simp [hx])
    simp only [List.map_cons, List.flatten_cons]
    by_cases h : b = 32
    · subst h
      simp only [if_true, List.cons_append, List.nil_append]
      rw [pctDecode_plain 43 (by omega), ih hr]
      simp [spaceToPlus]
    · simp only [h, if_false]
      rw [pctDecode_quoteByte safeNone rfl b hb0, ih hr]
      simp [spaceToPlus, h]

theorem plusflat_segment (bs : Bytes) (hb : IsBytes bs) :
    isSegment (bs.map fun b => if b = 32 then [43] else quoteByte safeNone b).flatten = true := by
  induction bs with
  | nil => simp [isSegment]
  | cons b rest ih =>
    have hb0 : b < 256 := hb b (by simp)
    have hr : IsBytes rest := fun x hx => hb x (by simp [hx])
    have ih' := ih hr
    simp only [isSegment] at ih' ⊢
    simp only [List.map_cons, List.flatten_cons, List.all_append, ih', Bool.and_true]
    by_cases h : b = 32
    · subst h; simp [isPchar]
    · simp only [h, if_false]; exact quoteByte_pchar b hb0

theorem map_spaceToPlus_id (bs : Bytes) (h : 32 ∉ bs) : bs.map spaceToPlus = bs := by
  induction bs with
  | nil => rfl
  | cons b rest ih =>
    simp only [List.mem_cons, not_or] at h
    have : b ≠ 32 := fun e => h.1 e.symm
    simp [spaceToPlus, this, ih h.2]

end SV.Proofs.C06
