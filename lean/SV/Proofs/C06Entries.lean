import SV.Spec.C06Entries
namespace SV.Proofs.C06Entries
open SV.Model.C06 SV.Spec.C06

theorem setKey_notin (k : Str) (v : Val) (c : Container) (h : hasKey k c = false) : setKey k v c = c ++ [(k, v)] := by
  induction c with
  | nil => rfl
  | cons x r ih =>
    obtain ⟨k', v'⟩ := x
    simp only [hasKey, Bool.or_eq_false_iff] at h
    simp only [setKey, h.1, Bool.false_eq_true, if_false, List.cons_append, ih h.2]

theorem hasKey_append (k : Str) (a b : Container) : hasKey k (a ++ b) = (hasKey k a || hasKey k b) := by
  induction a with
  | nil => simp [hasKey]
  | cons x r ih => obtain ⟨k', v'⟩ := x; simp [hasKey, ih, Bool.or_assoc]

/-- `dict.update` with pairwise different keys that are not in the dict yet appends them in order -/
theorem updateKeys_fresh (c : Container) (kvs : List (Str × Val))
    (hnd : (kvs.map (·.1)).Nodup) (hnew : ∀ kv ∈ kvs, hasKey kv.1 c = false) : updateKeys c kvs = c ++ kvs := by
  induction kvs generalizing c with
  | nil => simp [updateKeys]
  | cons kv r ih =>
    simp only [updateKeys, List.foldl_cons]
    have h1 := setKey_notin kv.1 kv.2 c (hnew kv (by simp))
    rw [h1]
    simp only [List.map_cons, List.nodup_cons] at hnd
    have := ih (c ++ [(kv.1, kv.2)]) hnd.2 (by
      intro x hx
      rw [hasKey_append]
      simp only [hasKey, Bool.or_false, Bool.or_eq_false_iff]
      refine ⟨hnew x (by simp [hx]), ?_⟩
      have : x.1 ≠ kv.1 := by
        intro e; exact hnd.1 (by rw [← e]; exact List.mem_map_of_mem (f := (·.1)) hx)
      simpa using this)
    simp only [updateKeys] at this
    rw [this]; simp

theorem queryEntries_prims (kvs : List (Str × Prim)) :
    queryEntries (kvs.map fun (k, p) => (k, Val.prim p)) = some (kvs.map fun (k, p) => (k, spell p)) := by
  induction kvs with
  | nil => rfl
  | cons x r ih => obtain ⟨k, p⟩ := x; simp [queryEntries, entriesOf, ih]


theorem nodup_map_inj {α β : Type} (f : α → β) (hf : ∀ a b, f a = f b → a = b) (l : List α) (h : l.Nodup) :
    (l.map f).Nodup := by
  simp only [List.Nodup, List.pairwise_map]
  exact List.Pairwise.imp (fun hab e => hab (hf _ _ e)) h

/-! ## the three spread cells -/

def arrayCell : Cell := ⟨.query, some .form, some true, .array⟩
def objectCell : Cell := ⟨.query, some .form, some true, .object⟩
def deepCell : Cell := ⟨.query, some .deepObject, some true, .object⟩

theorem defConvs_array (vt : Variant) (name : Str) : defConvs vt ⟨name, arrayCell, none⟩ = [] := by
  cases vt <;> rfl

theorem defConvs_object (vt : Variant) (name : Str) : defConvs vt ⟨name, objectCell, none⟩ = [.extractedObject] := by
  cases vt <;> rfl

theorem defConvs_deep (vt : Variant) (name : Str) : defConvs vt ⟨name, deepCell, none⟩ = [.deepObject] := by
  cases vt <;> rfl

theorem getKey_self (name : Str) (x : Val) : getKey name [(name, x)] = some x := by simp [getKey]
theorem popKey_self (name : Str) (x : Val) : popKey name [(name, x)] = [] := by simp [popKey]

/-- exploded array: one entry per item under the parameter's own name -/
theorem array_entries (vt vm vs : Variant) (name : Str) (xs : List Prim) :
    cellEntries vt vm vs arrayCell name (.arr xs) = some (xs.map fun p => (name, spell p)) := by
  simp [cellEntries, serializeOpenapi3, allConvs, defConvs_array, applyAll, queryEntries, entriesOf]

theorem array_decodes (name : Str) (xs : List Prim) :
    decodeFormExplodedArray name (xs.map fun p => (name, spell p)) = coerce (.arr xs) := by
  simp only [decodeFormExplodedArray, coerce, DVal.arr.injEq]
  induction xs with
  | nil => rfl
  | cons p r ih => simp [List.filterMap_cons, ih]

/-- exploded object: one entry per member under the member's name -/
theorem object_entries (vt vm vs : Variant) (name : Str) (kvs : List (Str × Prim)) (hne : kvs ≠ [])
    (hnd : (kvs.map (·.1)).Nodup) :
    cellEntries vt vm vs objectCell name (.obj kvs) = some (kvs.map fun (k, p) => (k, spell p)) := by
  have hk : kvs.isEmpty = false := by cases kvs <;> simp_all
  have hu := updateKeys_fresh [] (kvs.map fun (k, p) => (k, Val.prim p))
    (by simpa [List.map_map, Function.comp_def] using hnd) (by intro kv _; rfl)
  simp only [cellEntries, serializeOpenapi3, allConvs, defConvs_object, List.flatMap_cons, List.flatMap_nil, List.map_cons,
    List.map_nil, List.append_nil, List.reverse_cons, List.reverse_nil, List.nil_append, applyAll, applyConv, getKey_self,
    popKey_self, hk, Bool.false_eq_true, if_false, hu, Option.bind]
  exact queryEntries_prims kvs

theorem object_decodes (kvs : List (Str × Prim)) :
    decodeFormExplodedObject (kvs.map fun (k, p) => (k, spell p)) = coerce (.obj kvs) := rfl

theorem stripPrefix_append (p r : Str) : stripPrefix p (p ++ r) = some r := by
  induction p with
  | nil => rfl
  | cons c cs ih => simp [stripPrefix, ih]

theorem deepKey_mk (name k : Str) : deepKey name (name ++ 91 :: k ++ [93]) = some k := by
  have : name ++ 91 :: k ++ [93] = (name ++ [91]) ++ (k ++ [93]) := by simp
  simp only [deepKey]
  rw [this, stripPrefix_append]
  simp

/-- deepObject: `name[member]=value` per member -/
theorem deep_entries (vt vm vs : Variant) (name : Str) (kvs : List (Str × Prim)) (hne : kvs ≠ [])
    (hnd : (kvs.map (·.1)).Nodup) :
    cellEntries vt vm vs deepCell name (.obj kvs) = some (kvs.map fun (k, p) => (name ++ 91 :: k ++ [93], spell p)) := by
  have ht : truthy (.obj kvs) = true := by cases kvs <;> simp_all [truthy]
  have hinj : ((kvs.map fun (kp : Str × Prim) => ((name ++ 91 :: kp.1 ++ [93], Val.prim kp.2) : Str × Val)).map (·.1)).Nodup := by
    simp only [List.map_map, Function.comp_def]
    have : (kvs.map fun kp => name ++ 91 :: kp.1 ++ [93]) = (kvs.map (·.1)).map fun k => name ++ 91 :: k ++ [93] := by
      simp [List.map_map, Function.comp_def]
    rw [this]
    refine nodup_map_inj _ ?_ _ hnd
    intro a b hab
    have h1 : (name ++ [91]) ++ (a ++ [93]) = (name ++ [91]) ++ (b ++ [93]) := by simpa using hab
    have h2 := List.append_cancel_left h1
    exact List.append_cancel_right h2
  have hu := updateKeys_fresh [] (kvs.map fun (kp : Str × Prim) => ((name ++ 91 :: kp.1 ++ [93], Val.prim kp.2) : Str × Val))
    hinj (by intro kv _; rfl)
  simp only [cellEntries, serializeOpenapi3, allConvs, defConvs_deep, List.flatMap_cons, List.flatMap_nil, List.map_cons,
    List.map_nil, List.append_nil, List.reverse_cons, List.reverse_nil, List.nil_append, applyAll, applyConv, getKey_self,
    popKey_self, ht, if_true, dictItems, Option.map, hu, Option.bind]
  have := queryEntries_prims (kvs.map fun (kp : Str × Prim) => ((name ++ 91 :: kp.1 ++ [93], kp.2) : Str × Prim))
  simpa [List.map_map, Function.comp_def] using this

theorem deep_decodes (name : Str) (kvs : List (Str × Prim)) :
    decodeDeepObject name (kvs.map fun (k, p) => (name ++ 91 :: k ++ [93], spell p)) = coerce (.obj kvs) := by
  simp only [decodeDeepObject, coerce, DVal.obj.injEq]
  induction kvs with
  | nil => rfl
  | cons x r ih =>
    obtain ⟨k, p⟩ := x
    simp only [List.map_cons, List.filterMap_cons, deepKey_mk, Option.map]
    exact congrArg _ ih

end SV.Proofs.C06Entries
