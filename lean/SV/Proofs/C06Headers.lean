/-
  Helper lemmas for the header model of C06.
-/
import SV.Model.C06Headers

namespace SV.Proofs.C06
open SV.Model.C06

variable (norm : Str → Str)

theorem hGet_hSet (k k' v : Str) (h : Headers) :
    hGet norm k (hSet norm k' v h) = if norm k = norm k' then some v else hGet norm k h := by
  induction h with
  | nil => simp [hSet, hGet]
  | cons e rest ih =>
    obtain ⟨a, b⟩ := e
    by_cases h1 : norm k' = norm a
    · by_cases h2 : norm k = norm k'
      · simp [hSet, hGet, h1, h2]
      · have : ¬ norm k = norm a := fun e => h2 (e.trans h1.symm)
        simp [hSet, hGet, h1, this]
    · by_cases h2 : norm k = norm a
      · have : ¬ norm k = norm k' := fun e => h1 (e.symm.trans h2)
        have h3 : ¬ norm a = norm k' := fun e => h1 e.symm
        simp [hSet, hGet, h1, h2, h3]
      · simp [hSet, hGet, h1, h2, ih]

theorem hGet_hSetDefault (k k' v : Str) (h : Headers) :
    hGet norm k (hSetDefault norm k' v h) =
      match hGet norm k h with
      | some x => some x
      | none => if norm k = norm k' then some v else none := by
  unfold hSetDefault
  cases hk' : hGet norm k' h with
  | some y =>
    cases hk : hGet norm k h with
    | some x => simp
    | none =>
      by_cases e : norm k = norm k'
      · have : hGet norm k h = hGet norm k' h := by
          clear hk hk'
          induction h with
          | nil => rfl
          | cons a rest ih => simp [hGet, e, ih]
        rw [hk, hk'] at this; cases this
      · simp [e]
  | none =>
    simp only [hGet_hSet]
    cases hk : hGet norm k h with
    | some x =>
      by_cases e : norm k = norm k'
      · have : hGet norm k h = hGet norm k' h := by
          clear hk hk'
          induction h with
          | nil => rfl
          | cons a rest ih => simp [hGet, e, ih]
        rw [hk, hk'] at this; cases this
      · simp [e]
    | none => simp

/-- keys (normalised) after `hSet` -/
theorem keys_hSet (k v : Str) (h : Headers) :
    ∀ x ∈ (hSet norm k v h).map (fun e => norm e.1), x = norm k ∨ x ∈ h.map (fun e => norm e.1) := by
  induction h with
  | nil => intro x hx; simp [hSet] at hx; left; exact hx
  | cons e rest ih =>
    obtain ⟨a, b⟩ := e
    intro x hx
    by_cases h1 : norm k = norm a
    · simp only [hSet, h1, if_true, List.map_cons, List.mem_cons] at hx ⊢
      rcases hx with hx | hx
      · left; exact hx
      · right; right; exact hx
    · simp only [hSet, h1, if_false, List.map_cons, List.mem_cons] at hx ⊢
      rcases hx with hx | hx
      · right; left; exact hx
      · rcases ih x hx with h2 | h2
        · left; exact h2
        · right; right; exact h2

theorem keys_hSetDefault (k v : Str) (h : Headers) :
    ∀ x ∈ (hSetDefault norm k v h).map (fun e => norm e.1), x = norm k ∨ x ∈ h.map (fun e => norm e.1) := by
  intro x hx
  unfold hSetDefault at hx
  split at hx
  · right; exact hx
  · exact keys_hSet norm k v h x hx

theorem keys_hUpdate (h other : Headers) :
    ∀ x ∈ (hUpdate norm h other).map (fun e => norm e.1),
      x ∈ other.map (fun e => norm e.1) ∨ x ∈ h.map (fun e => norm e.1) := by
  unfold hUpdate
  induction other generalizing h with
  | nil => intro x hx; right; exact hx
  | cons e rest ih =>
    intro x hx
    simp only [List.foldl_cons] at hx
    rcases ih _ x hx with h1 | h1
    · left; simp only [List.map_cons, List.mem_cons]; right; exact h1
    · rcases keys_hSet norm e.1 e.2 h x h1 with h2 | h2
      · left; simp only [List.map_cons, List.mem_cons]; left; exact h2
      · right; exact h2

theorem keys_extra (extra h : Headers) :
    ∀ x ∈ (extraHeadersStep norm extra h).map (fun e => norm e.1),
      x ∈ extra.map (fun e => norm e.1) ∨ x ∈ h.map (fun e => norm e.1) := by
  unfold extraHeadersStep
  induction extra generalizing h with
  | nil => intro x hx; right; exact hx
  | cons e rest ih =>
    intro x hx
    simp only [List.foldl_cons] at hx
    rcases ih _ x hx with h1 | h1
    · left; simp only [List.map_cons, List.mem_cons]; right; exact h1
    · rcases keys_hSetDefault norm e.1 e.2 h x h1 with h2 | h2
      · left; simp only [List.map_cons, List.mem_cons]; left; exact h2
      · right; exact h2

theorem hGet_hUpdate_notin (k : Str) (h other : Headers) (hk : norm k ∉ other.map (fun e => norm e.1)) :
    hGet norm k (hUpdate norm h other) = hGet norm k h := by
  unfold hUpdate
  induction other generalizing h with
  | nil => rfl
  | cons e rest ih =>
    simp only [List.map_cons, List.mem_cons, not_or] at hk
    simp only [List.foldl_cons]
    rw [ih _ hk.2, hGet_hSet]
    simp [hk.1]

theorem hGet_extra_some (k v : Str) (extra h : Headers) (hk : hGet norm k h = some v) :
    hGet norm k (extraHeadersStep norm extra h) = some v := by
  unfold extraHeadersStep
  induction extra generalizing h with
  | nil => exact hk
  | cons e rest ih =>
    simp only [List.foldl_cons]
    apply ih
    rw [hGet_hSetDefault, hk]

theorem hGet_none_of_notin (k : Str) (h : Headers) (hk : norm k ∉ h.map (fun e => norm e.1)) :
    hGet norm k h = none := by
  induction h with
  | nil => rfl
  | cons e rest ih =>
    simp only [List.map_cons, List.mem_cons, not_or] at hk
    simp [hGet, hk.1, ih hk.2]

theorem hGet_some_of_mem_keys (k : Str) (h : Headers) (hk : norm k ∈ h.map (fun e => norm e.1)) :
    ∃ v, hGet norm k h = some v := by
  induction h with
  | nil => simp at hk
  | cons e rest ih =>
    by_cases h1 : norm k = norm e.1
    · exact ⟨e.2, by simp [hGet, h1]⟩
    · simp only [List.map_cons, List.mem_cons, h1, false_or] at hk
      obtain ⟨v, hv⟩ := ih hk
      exact ⟨v, by simp [hGet, h1, hv]⟩

/-- lookups in `prepare_headers` for a name that the configured headers do not mention -/
theorem hGet_prepareHeaders (k : Str) (caseH cfg : Option Headers) (ua tcid : Str × Str)
    (hcfg : norm k ∉ (cfg.getD []).map (fun e => norm e.1)) :
    hGet norm k (prepareHeaders norm caseH cfg ua tcid) =
      match hGet norm k (caseH.getD []) with
      | some x => some x
      | none => if norm k = norm ua.1 then some ua.2 else if norm k = norm tcid.1 then some tcid.2 else none := by
  have hmid : hGet norm k (applyCfg norm (caseH.getD []) cfg) = hGet norm k (caseH.getD []) := by
    cases cfg with
    | none => rfl
    | some c =>
      by_cases hc : c.isEmpty = true
      · simp [applyCfg, hc]
      · simp only [applyCfg, hc]
        exact hGet_hUpdate_notin norm k _ c (by simpa using hcfg)
  simp only [prepareHeaders, hGet_hSetDefault, hmid]
  cases hGet norm k (caseH.getD []) with
  | some x => rfl
  | none =>
    by_cases h1 : norm k = norm ua.1
    · simp [h1]
    · simp [h1]

end SV.Proofs.C06
