/-
  Helper lemmas for the history model of C06 (association-list dicts, cookie jars, merge_at).
-/
import SV.Spec.C06Session
import SV.Proofs.C06Headers

namespace SV.Proofs.C06
open SV.Model.C06 SV.Spec.C06

theorem dGet_dSet (k k' v : Str) (d : Dict) : dGet k (dSet k' v d) = if k = k' then some v else dGet k d := by
  simpa using hGet_hSet id k k' v d

theorem dGet_eq_none_iff (k : Str) (d : Dict) : dGet k d = none ↔ k ∉ dKeys d := by
  induction d with
  | nil => simp [dKeys, hGet]
  | cons e rest ih =>
    obtain ⟨a, b⟩ := e
    by_cases h : k = a
    · simp [hGet, dKeys, h]
    · have : dKeys ((a, b) :: rest) = a :: dKeys rest := rfl
      simp only [hGet, id, h, if_false, this, List.mem_cons, false_or]
      exact ih

theorem dGet_some_of_mem (k : Str) (d : Dict) (h : k ∈ dKeys d) : ∃ v, dGet k d = some v := by
  cases hg : dGet k d with
  | some v => exact ⟨v, rfl⟩
  | none => exact absurd h ((dGet_eq_none_iff k d).mp hg)

theorem mem_dKeys_dSet (x k v : Str) (d : Dict) : x ∈ dKeys (dSet k v d) ↔ x = k ∨ x ∈ dKeys d := by
  induction d with
  | nil => simp [dKeys, hSet]
  | cons e rest ih =>
    obtain ⟨a, b⟩ := e
    by_cases h : k = a
    · subst h
      simp [hSet, dKeys]
    · have h1 : dKeys ((a, b) :: hSet id k v rest) = a :: dKeys (dSet k v rest) := rfl
      have h2 : dKeys ((a, b) :: rest) = a :: dKeys rest := rfl
      simp only [dSet, hSet, id, h, if_false, h1, h2, List.mem_cons, ih]
      constructor
      · rintro (h3 | h3 | h3)
        · right; left; exact h3
        · left; exact h3
        · right; right; exact h3
      · rintro (h3 | h3 | h3)
        · right; left; exact h3
        · left; exact h3
        · right; right; exact h3

theorem WF_dSet (k v : Str) (d : Dict) (h : WF d) : WF (dSet k v d) := by
  induction d with
  | nil => simp [WF, dKeys, hSet]
  | cons e rest ih =>
    obtain ⟨a, b⟩ := e
    have h2 : dKeys ((a, b) :: rest) = a :: dKeys rest := rfl
    unfold WF at h
    rw [h2, List.nodup_cons] at h
    by_cases hk : k = a
    · subst hk
      have : dSet k v ((k, b) :: rest) = (k, v) :: rest := by simp [hSet]
      rw [this]
      unfold WF
      have h3 : dKeys ((k, v) :: rest) = k :: dKeys rest := rfl
      rw [h3, List.nodup_cons]
      exact h
    · have : dSet k v ((a, b) :: rest) = (a, b) :: dSet k v rest := by simp [hSet, hk]
      rw [this]
      unfold WF
      have h3 : dKeys ((a, b) :: dSet k v rest) = a :: dKeys (dSet k v rest) := rfl
      rw [h3, List.nodup_cons]
      refine ⟨?_, ih h.2⟩
      rw [mem_dKeys_dSet]
      rintro (h4 | h4)
      · exact hk h4.symm
      · exact h.1 h4

theorem WF_dUpdate (d o : Dict) (h : WF d) : WF (dUpdate d o) := by
  induction o generalizing d with
  | nil => exact h
  | cons e rest ih =>
    show WF (hUpdate id d (e :: rest))
    unfold hUpdate
    simp only [List.foldl_cons]
    exact ih _ (WF_dSet e.1 e.2 d h)

theorem dSet_of_notin (k v : Str) (d : Dict) (h : k ∉ dKeys d) : dSet k v d = d ++ [(k, v)] := by
  induction d with
  | nil => simp [hSet]
  | cons e rest ih =>
    obtain ⟨a, b⟩ := e
    have h2 : dKeys ((a, b) :: rest) = a :: dKeys rest := rfl
    rw [h2, List.mem_cons, not_or] at h
    have := ih h.2
    simp only [dSet] at this
    simp [hSet, h.1, this]

theorem dUpdate_append (acc o : Dict) (h : (dKeys (acc ++ o)).Nodup) : dUpdate acc o = acc ++ o := by
  induction o generalizing acc with
  | nil => simp [hUpdate]
  | cons e rest ih =>
    obtain ⟨k, v⟩ := e
    have hk : k ∉ dKeys acc := by
      intro hm
      have hd : dKeys (acc ++ (k, v) :: rest) = dKeys acc ++ k :: dKeys rest := by simp [dKeys]
      rw [hd] at h
      have := (List.nodup_append.mp h).2.2 k hm k (by simp)
      exact this rfl
    show hUpdate id acc ((k, v) :: rest) = _
    unfold hUpdate
    simp only [List.foldl_cons]
    have hs := dSet_of_notin k v acc hk
    simp only [dSet] at hs
    rw [hs]
    have := ih (acc ++ [(k, v)]) (by simpa using h)
    simp only [dUpdate, hUpdate] at this
    rw [this]
    simp

theorem dUpdate_nil_wf (x : Dict) (h : WF x) : dUpdate [] x = x := by
  have := dUpdate_append [] x (by simpa [WF] using h)
  simpa using this

theorem dGet_dUpdate_notin (k : Str) (d o : Dict) (h : k ∉ dKeys o) : dGet k (dUpdate d o) = dGet k d := by
  apply hGet_hUpdate_notin id k d o
  simpa [dKeys] using h

theorem dGet_dUpdate_of_get (k v : Str) (d o : Dict) (hw : WF o) (h : dGet k o = some v) :
    dGet k (dUpdate d o) = some v := by
  induction o generalizing d with
  | nil => simp [hGet] at h
  | cons e rest ih =>
    obtain ⟨a, b⟩ := e
    have h2 : dKeys ((a, b) :: rest) = a :: dKeys rest := rfl
    unfold WF at hw
    rw [h2, List.nodup_cons] at hw
    show hGet id k (hUpdate id d ((a, b) :: rest)) = some v
    unfold hUpdate
    simp only [List.foldl_cons]
    by_cases hk : k = a
    · subst hk
      simp [hGet] at h
      subst h
      have := dGet_dUpdate_notin k (dSet k b d) rest hw.1
      simp only [dGet, dUpdate, hUpdate, dSet] at this
      rw [this]
      have := dGet_dSet k k b d
      simpa using this
    · simp only [hGet, id, hk, if_false] at h
      have := ih (dSet a b d) hw.2 h
      simpa [dUpdate, hUpdate] using this

/-- lookups in `{**d, **o}` for a well-formed `o` -/
theorem dGet_dUpdate_wf (k : Str) (d o : Dict) (hw : WF o) :
    dGet k (dUpdate d o) = match dGet k o with
      | some v => some v
      | none => dGet k d := by
  cases h : dGet k o with
  | some v => exact dGet_dUpdate_of_get k v d o hw h
  | none => exact dGet_dUpdate_notin k d o ((dGet_eq_none_iff k o).mp h)

theorem mem_dKeys_dUpdate_left (x : Str) (d o : Dict) (h : x ∈ dKeys d) : x ∈ dKeys (dUpdate d o) := by
  induction o generalizing d with
  | nil => exact h
  | cons e rest ih =>
    show x ∈ dKeys (hUpdate id d (e :: rest))
    unfold hUpdate
    simp only [List.foldl_cons]
    exact ih _ ((mem_dKeys_dSet x e.1 e.2 d).mpr (Or.inr h))

theorem dGet_dDel (k k' : Str) (d : Dict) : dGet k (dDel k' d) = if k = k' then none else dGet k d := by
  induction d with
  | nil => simp [dDel, hGet]
  | cons e rest ih =>
    obtain ⟨a, b⟩ := e
    unfold dDel at ih ⊢
    by_cases h1 : a = k'
    · have hf : List.filter (fun e : Str × Str => e.1 != k') ((a, b) :: rest) =
          List.filter (fun e : Str × Str => e.1 != k') rest := by
        rw [List.filter_cons]; simp [h1]
      rw [hf, ih]
      by_cases h2 : k = k'
      · simp [h2]
      · have : ¬ k = a := fun e => h2 (e.trans h1)
        simp [h2, hGet, this]
    · have hf : List.filter (fun e : Str × Str => e.1 != k') ((a, b) :: rest) =
          (a, b) :: List.filter (fun e : Str × Str => e.1 != k') rest := by
        rw [List.filter_cons]; simp [h1]
      rw [hf]
      by_cases h2 : k = a
      · subst h2
        simp [hGet]
        intro e; exact absurd e h1
      · simp only [hGet, id, h2, if_false]
        exact ih

theorem dGet_dDelAll (k : Str) (ks : List Str) (d : Dict) :
    dGet k (dDelAll ks d) = if k ∈ ks then none else dGet k d := by
  induction ks generalizing d with
  | nil => simp [dDelAll]
  | cons k' rest ih =>
    unfold dDelAll at ih ⊢
    simp only [List.foldl_cons]
    rw [ih, dGet_dDel]
    by_cases h1 : k ∈ rest
    · simp [h1]
    · by_cases h2 : k = k'
      · simp [h2]
      · simp [h1, h2]

theorem eq_nil_of_all_none (d : Dict) (h : ∀ k, dGet k d = none) : d = [] := by
  cases d with
  | nil => rfl
  | cons e rest =>
    obtain ⟨a, b⟩ := e
    have := h a
    simp [hGet] at this

theorem dGet_applySetCookies (k v : Str) (scs : List SetCookie) (j : Dict)
    (h : dGet k (applySetCookies j scs) = some v) : dGet k j = some v ∨ (k, some v) ∈ scs := by
  induction scs generalizing j with
  | nil => left; exact h
  | cons sc rest ih =>
    obtain ⟨n, ov⟩ := sc
    unfold applySetCookies at h ih
    simp only [List.foldl_cons] at h
    rcases ih _ h with h1 | h1
    · cases ov with
      | some w =>
        simp only at h1
        rw [dGet_dSet] at h1
        by_cases hk : k = n
        · simp only [hk, if_true, Option.some.injEq] at h1
          right; simp [hk, h1]
        · simp only [hk, if_false] at h1
          left; exact h1
      | none =>
        simp only at h1
        rw [dGet_dDel] at h1
        by_cases hk : k = n
        · simp [hk] at h1
        · simp only [hk, if_false] at h1
          left; exact h1
    · right; exact List.mem_cons_of_mem _ h1

theorem dSet_of_get (k v : Str) (d : Dict) (h : dGet k d = some v) : dSet k v d = d := by
  induction d with
  | nil => simp [hGet] at h
  | cons e rest ih =>
    obtain ⟨a, b⟩ := e
    by_cases hk : k = a
    · subst hk
      simp [hGet] at h
      simp [hSet, h]
    · simp only [hGet, id, hk, if_false] at h
      have := ih h
      simp only [dSet] at this
      simp [hSet, hk, this]

theorem dUpdate_of_agree (d o : Dict) (h : ∀ kv ∈ o, dGet kv.1 d = some kv.2) : dUpdate d o = d := by
  induction o with
  | nil => rfl
  | cons e rest ih =>
    show hUpdate id d (e :: rest) = d
    unfold hUpdate
    simp only [List.foldl_cons]
    have h1 := dSet_of_get e.1 e.2 d (h e (by simp))
    simp only [dSet] at h1
    rw [h1]
    exact ih (fun kv hkv => h kv (List.mem_cons_of_mem _ hkv))

theorem wf_get_of_mem (d : Dict) (hw : WF d) : ∀ kv ∈ d, dGet kv.1 d = some kv.2 := by
  induction d with
  | nil => intro kv h; simp at h
  | cons e rest ih =>
    obtain ⟨a, b⟩ := e
    have h2 : dKeys ((a, b) :: rest) = a :: dKeys rest := rfl
    unfold WF at hw
    rw [h2, List.nodup_cons] at hw
    intro kv hkv
    rcases List.mem_cons.mp hkv with h1 | h1
    · subst h1; simp [hGet]
    · have hne : kv.1 ≠ a := by
        intro he
        apply hw.1
        rw [← he]
        exact List.mem_map_of_mem h1
      simp only [hGet, id, hne, if_false]
      exact ih hw.2 kv h1

/-- merging a dict into itself changes nothing -/
theorem dUpdate_self (d : Dict) (hw : WF d) : dUpdate d d = d := dUpdate_of_agree d d (wf_get_of_mem d hw)

theorem sameMap_of_forall (x y : Dict) (h : ∀ k, dGet k x = dGet k y) : sameMap x y = true := by
  simp [sameMap, h]

theorem sameMap_refl (x : Dict) : sameMap x x = true := sameMap_of_forall x x (fun _ => rfl)

/-- `merge_at` on a copy never changes the case's container -/
theorem mergeAt_repaired_own (own : Option Dict) (new : Dict) : (mergeAt .repaired own new).2 = own := by
  unfold mergeAt
  cases own with
  | none => rfl
  | some d => by_cases h : d.isEmpty = true <;> simp [h]

/-- what `merge_at` leaves in `data[key]`: the container updated with the new entries, in either variant -/
theorem mergeAt_fst (v : Variant) (own : Option Dict) (new : Dict) :
    (mergeAt v own new).1 = dUpdate (own.getD []) new := by
  unfold mergeAt
  cases own with
  | none => rfl
  | some d =>
    by_cases h : d.isEmpty = true
    · have : d = [] := by cases d with | nil => rfl | cons _ _ => simp at h
      subst this; simp
    · cases v <;> simp [h]

theorem subMap_iff (x y : Dict) : subMap x y = true ↔ ∀ kv ∈ x, dGet kv.1 y = some kv.2 := by
  simp [subMap, List.all_eq_true]

theorem subMap_self (x : Dict) (h : WF x) : subMap x x = true := (subMap_iff x x).mpr (wf_get_of_mem x h)

theorem dUpdate_nil_right (d : Dict) : dUpdate d [] = d := rfl

/-! ### one `send` -/

theorem wsgiQuery_fst (vm : Variant) (c : CaseS) (p : Option Dict) :
    (wsgiQuery vm c p).1 = dUpdate (c.query.getD []) (p.getD []) := by
  unfold wsgiQuery
  cases p with
  | none => rfl
  | some x => exact mergeAt_fst vm c.query x

theorem wsgiQuery_repaired_snd (c : CaseS) (p : Option Dict) : (wsgiQuery .repaired c p).2 = c.query := by
  unfold wsgiQuery
  cases p with
  | none => rfl
  | some x => exact mergeAt_repaired_own c.query x

theorem requestsSerialize_repaired_case (vp : Variant) (c : CaseS) (p k : Option Dict) :
    (requestsSerialize .repaired vp c p k).2 = c := by
  obtain ⟨q, ck⟩ := c
  unfold requestsSerialize
  cases vp <;> cases q <;> cases p <;> cases k <;> simp [mergeAt_repaired_own]

theorem requestsSerialize_repaired_sent (c : CaseS) (p k : Option Dict) :
    (requestsSerialize .repaired .repaired c p k).1 =
      ⟨dUpdate (c.query.getD []) (p.getD []), dUpdate (c.cookies.getD []) (k.getD [])⟩ := by
  obtain ⟨q, ck⟩ := c
  unfold requestsSerialize
  cases p <;> cases k <;> simp [mergeAt_fst, hUpdate]

/-- `send` with `merge_at` on a copy never changes the case -/
theorem send_repaired_case (via : Via) (pol : ClientPolicy) (vp : Variant) (cl : Clients) (c : CaseS) (a : Call) :
    (send via pol .repaired vp cl c a).2.1 = c := by
  cases via
  · simp only [send]
    rw [requestsSerialize_repaired_case]
    rw [wsgiQuery_repaired_snd]
  · simp only [send]; exact requestsSerialize_repaired_case vp c _ _
  · simp only [send]; exact requestsSerialize_repaired_case vp c _ _

/-- what the specification asks of one `send` (`HistoryIndependent` for a single entry) -/
def GoodSend (c : CaseS) (a : Call) (r : Out × CaseS × Clients) : Prop :=
  r.2.1 = c ∧
  (a.explicit = false →
    r.1.wire.cookies = ownCookies c a ∧ r.1.wire.query = ownQuery c a ∧ recordedOk c a r.1 = true)

theorem recordedOk_of (c : CaseS) (a : Call) (q rc : Dict) (hw : WF (c.cookies.getD []))
    (hrc : rc = ownCookies c a ∨ rc = dUpdate (c.cookies.getD []) (ownCookies c a)) :
    recordedOk c a ⟨⟨q, ownCookies c a⟩, ⟨q, rc⟩⟩ = true := by
  have hX : WF (ownCookies c a) := WF_dUpdate _ _ hw
  have hmem := wf_get_of_mem _ hX
  unfold recordedOk
  simp only [Bool.and_eq_true, sameMap_refl, true_and, List.all_eq_true, Bool.or_eq_true, bne_iff_ne, ne_eq,
    beq_iff_eq, subMap_iff]
  rcases hrc with h | h
  · subst h
    exact ⟨hmem, fun kv hkv => Or.inr (hmem kv hkv)⟩
  · subst h
    refine ⟨?_, fun kv hkv => Or.inr (dGet_dUpdate_of_get _ _ _ _ hX (hmem kv hkv))⟩
    intro kv hkv
    have h1 := wf_get_of_mem _ (WF_dUpdate (c.cookies.getD []) (ownCookies c a) hw) kv hkv
    rw [dGet_dUpdate_wf _ _ _ hX] at h1
    cases hg : dGet kv.1 (ownCookies c a) with
    | some v => rw [hg] at h1; exact h1
    | none =>
      rw [hg] at h1
      simp only at h1
      have hk : kv.1 ∈ dKeys (c.cookies.getD []) := by
        cases Decidable.em (kv.1 ∈ dKeys (c.cookies.getD [])) with
        | inl h => exact h
        | inr hn =>
          rw [(dGet_eq_none_iff _ _).mpr hn] at h1
          cases h1
      have := mem_dKeys_dUpdate_left kv.1 (c.cookies.getD []) (a.cookies.getD []) hk
      exact absurd this ((dGet_eq_none_iff _ _).mp hg)

/-- **one call, fresh client, `merge_at` on a copy, `params` honoured**: the request is the call's own -/
theorem goodSend_repaired (via : Via) (cl : Clients) (c : CaseS) (a : Call)
    (_hq : WF (c.query.getD [])) (hc : WF (c.cookies.getD [])) :
    GoodSend c a (send via .perCall .repaired .repaired cl c a) := by
  refine ⟨send_repaired_case via .perCall .repaired cl c a, ?_⟩
  intro hx
  have hX : WF (ownCookies c a) := WF_dUpdate _ _ hc
  cases via
  · -- wsgi
    have hout : (send .wsgi .perCall .repaired .repaired cl c a).1 =
        ⟨⟨ownQuery c a, ownCookies c a⟩, ⟨ownQuery c a, dUpdate (c.cookies.getD []) (ownCookies c a)⟩⟩ := by
      simp only [send, startJar, hx, Bool.false_eq_true, if_false]
      rw [requestsSerialize_repaired_sent, wsgiQuery_fst, wsgiQuery_repaired_snd]
      have h0 : dUpdate [] (dUpdate (c.cookies.getD []) (a.cookies.getD [])) =
          dUpdate (c.cookies.getD []) (a.cookies.getD []) := dUpdate_nil_wf _ hX
      simp [h0, ownQuery, ownCookies, callCookies]
    rw [hout]
    exact ⟨rfl, rfl, recordedOk_of c a _ _ hc (Or.inr rfl)⟩
  · -- requests
    have hout : (send .requests .perCall .repaired .repaired cl c a).1 =
        ⟨⟨ownQuery c a, ownCookies c a⟩, ⟨ownQuery c a, ownCookies c a⟩⟩ := by
      simp only [send, startJar, hx, Bool.false_eq_true, if_false]
      rw [requestsSerialize_repaired_sent]
      have h0 : dUpdate [] (dUpdate (c.cookies.getD []) (a.cookies.getD [])) =
          dUpdate (c.cookies.getD []) (a.cookies.getD []) := dUpdate_nil_wf _ hX
      simp [h0, ownQuery, ownCookies]
    rw [hout]
    exact ⟨rfl, rfl, recordedOk_of c a _ _ hc (Or.inl rfl)⟩
  · -- asgi
    have hout : (send .asgi .perCall .repaired .repaired cl c a).1 =
        ⟨⟨ownQuery c a, ownCookies c a⟩, ⟨ownQuery c a, ownCookies c a⟩⟩ := by
      simp only [send, startJar, Bool.false_eq_true, if_false]
      rw [requestsSerialize_repaired_sent]
      have h0 : dUpdate [] (dUpdate (c.cookies.getD []) (a.cookies.getD [])) =
          dUpdate (c.cookies.getD []) (a.cookies.getD []) := dUpdate_nil_wf _ hX
      simp [h0, ownQuery, ownCookies]
    rw [hout]
    exact ⟨rfl, rfl, recordedOk_of c a _ _ hc (Or.inl rfl)⟩

/-! ### histories -/

theorem set_of_getElem? (store : List CaseS) (ix : Nat) (c : CaseS) (h : store[ix]? = some c) : store.set ix c = store := by
  induction store generalizing ix with
  | nil => rfl
  | cons x rest ih =>
    cases ix with
    | zero => simp at h; simp [h]
    | succ n => simp at h; simp [ih n h]

/-- from single calls to histories: if every `send` of the history is good, every entry of the trace is -/
theorem trace_of_send (via : Via) (pol : ClientPolicy) (vm vp : Variant) (P : Call → Prop)
    (hsend : ∀ cl c a, WF (c.query.getD []) → WF (c.cookies.getD []) → P a → GoodSend c a (send via pol vm vp cl c a))
    (cl : Clients) (store : List CaseS) (calls : List (Nat × Call))
    (hs : ∀ c ∈ store, WF (c.query.getD []) ∧ WF (c.cookies.getD []))
    (hp : ∀ p ∈ calls, P p.2) :
    ∀ e ∈ runTrace via pol vm vp cl store calls, ∀ c, store[e.ix]? = some c →
      e.caseAfter = c ∧
      (e.call.explicit = false →
        e.out.wire.cookies = ownCookies c e.call ∧ e.out.wire.query = ownQuery c e.call ∧
        recordedOk c e.call e.out = true) := by
  induction calls generalizing cl with
  | nil => intro e he; simp [runTrace] at he
  | cons p rest ih =>
    obtain ⟨ix, a⟩ := p
    have hp' : ∀ p ∈ rest, P p.2 := fun p h => hp p (List.mem_cons_of_mem _ h)
    intro e he c hc
    unfold runTrace at he
    cases hix : store[ix]? with
    | none =>
      rw [hix] at he
      exact ih cl hp' e he c hc
    | some c0 =>
      rw [hix] at he
      have hwf := hs c0 (List.mem_of_getElem? hix)
      have hg := hsend cl c0 a hwf.1 hwf.2 (hp (ix, a) (by simp))
      simp only [List.mem_cons] at he
      rcases he with he | he
      · subst he
        simp only at hc
        rw [hix] at hc
        cases hc
        exact hg
      · rw [hg.1, set_of_getElem? store ix c0 hix] at he
        exact ih _ hp' e he c hc

/-- as found, a call that configures neither `params` nor `cookies` behaves as with the repaired `merge_at` / `params` -/
theorem send_asFound_unconfigured (via : Via) (pol : ClientPolicy) (cl : Clients) (c : CaseS) (a : Call)
    (hq : WF (c.query.getD [])) (hc : WF (c.cookies.getD [])) (hp : a.params = none) (hk : a.cookies = none) :
    send via pol .asFound .asFound cl c a = send via pol .repaired .repaired cl c a := by
  obtain ⟨q, ck⟩ := c
  obtain ⟨ap, ac, ex, sc⟩ := a
  simp only at hp hk
  subst hp hk
  have hself : ∀ d : Dict, WF d → dUpdate d d = d := dUpdate_self
  have hm : ∀ d : Dict, WF d → mergeAt .asFound (some d) d = mergeAt .repaired (some d) d := by
    intro d hd
    unfold mergeAt
    by_cases he : d.isEmpty = true
    · simp [he]
    · simp only [he]
      have := hself d hd
      simp only [dUpdate] at this
      simp [this]
  cases via <;> cases q <;> cases ck <;>
    simp_all [send, wsgiQuery, requestsSerialize, callCookies, hUpdate, mergeAt]
  all_goals (split <;> simp_all)


end SV.Proofs.C06
