/-
  Helper lemmas for the style layer of C06 (not property statements).
-/
import SV.Spec.C06Style
import SV.Spec.C06

namespace SV.Proofs.C06
open SV.Model.C06 SV.Spec.C06

/-! ### split / join -/

theorem splitOn_notMem (d : Nat) (p : Str) (h : d ∉ p) : splitOn d p = [p] := by
  induction p with
  | nil => rfl
  | cons c cs ih =>
    simp only [List.mem_cons, not_or] at h
    have hc : c ≠ d := fun e => h.1 e.symm
    simp [splitOn, hc, ih h.2]

theorem splitOn_append (d : Nat) (p s : Str) (h : d ∉ p) : splitOn d (p ++ d :: s) = p :: splitOn d s := by
  induction p with
  | nil => simp [splitOn]
  | cons c cs ih =>
    simp only [List.mem_cons, not_or] at h
    have hc : c ≠ d := fun e => h.1 e.symm
    simp [splitOn, hc, ih h.2]

theorem joinWith_cons2 (d : Str) (p q : Str) (rest : List Str) :
    joinWith d (p :: q :: rest) = p ++ d ++ joinWith d (q :: rest) := rfl

theorem splitOn_joinWith (d : Nat) (xs : List Str) (hne : xs ≠ []) (h : ∀ x ∈ xs, d ∉ x) :
    splitOn d (joinWith [d] xs) = xs := by
  induction xs with
  | nil => exact absurd rfl hne
  | cons p rest ih =>
    cases rest with
    | nil => simpa [joinWith] using splitOn_notMem d p (h p (by simp))
    | cons q rest' =>
      rw [joinWith_cons2]
      have hp := h p (by simp)
      have := ih (by simp) (fun x hx => h x (by simp [hx]))
      simp only [List.append_assoc, List.cons_append, List.nil_append]
      rw [splitOn_append d p _ hp, this]

theorem joinWith_eq_nil (d : Nat) (xs : List Str) (h : joinWith [d] xs = []) : xs = [] ∨ xs = [[]] := by
  cases xs with
  | nil => left; rfl
  | cons p rest =>
    cases rest with
    | nil => right; simpa [joinWith] using h
    | cons q rest' => simp [joinWith] at h

theorem stripPrefix_append (p s : Str) : stripPrefix p (p ++ s) = some s := by
  induction p with
  | nil => cases s <;> rfl
  | cons c cs ih => simp [stripPrefix, ih]

theorem stripPrefix_cons (c : Nat) (s : Str) : stripPrefix [c] (c :: s) = some s := by
  simpa using stripPrefix_append [c] s

/-! ### str(item) = JSON spelling under the stated hypothesis -/

theorem itemStr_spell (vs : Variant) (p : Prim) (h : vs = .repaired ∨ plain p = true) : itemStr vs p = spell p := by
  rcases h with h | h
  · subst h; rfl
  · cases vs
    · cases p <;> simp_all [itemStr, pyStr, spell, plain]
    · rfl

theorem map_itemStr (vs : Variant) (xs : List Prim) (h : vs = .repaired ∨ xs.all plain = true) :
    xs.map (itemStr vs) = xs.map spell := by
  apply List.map_congr_left
  intro p hp
  apply itemStr_spell
  rcases h with h | h
  · left; exact h
  · right; exact (List.all_eq_true.mp h) p hp

theorem flatKV_spell (vs : Variant) (kvs : List (Str × Prim))
    (h : vs = .repaired ∨ (kvs.all fun kv => plain kv.2) = true) : flatKV vs kvs = flatKV .repaired kvs := by
  induction kvs with
  | nil => rfl
  | cons kv rest ih =>
    obtain ⟨k, p⟩ := kv
    have h1 : vs = .repaired ∨ plain p = true := by
      rcases h with h | h
      · left; exact h
      · right; simp at h; exact h.1
    have h2 : vs = .repaired ∨ (rest.all fun kv => plain kv.2) = true := by
      rcases h with h | h
      · left; exact h
      · right; simp at h ⊢; exact h.2
    simp only [flatKV, itemStr_spell vs p h1, ih h2]
    rfl

theorem kvEq_spell (vs : Variant) (kvs : List (Str × Prim))
    (h : vs = .repaired ∨ (kvs.all fun kv => plain kv.2) = true) : kvs.map (kvEq vs) = kvs.map (kvEq .repaired) := by
  apply List.map_congr_left
  intro kv hkv
  have : vs = .repaired ∨ plain kv.2 = true := by
    rcases h with h | h
    · left; exact h
    · right; exact (List.all_eq_true.mp h) kv hkv
  simp only [kvEq, itemStr_spell vs kv.2 this]
  rfl

/-! ### lists -/

theorem mem_map_spell {d : Nat} {xs : List Prim} (h : ∀ x ∈ xs, d ∉ spell x) : ∀ s ∈ xs.map spell, d ∉ s := by
  intro s hs
  obtain ⟨x, hx, rfl⟩ := List.mem_map.mp hs
  exact h x hx

theorem dec_list (d : Nat) (xs : List Prim) (h : ListOk d xs) :
    splitOn d (joinWith [d] (xs.map spell)) = xs.map spell :=
  splitOn_joinWith d _ (by simpa using h.1) (mem_map_spell h.2)

/-! ### k,v,k,v -/

theorem pairUp_flatKV (kvs : List (Str × Prim)) :
    pairUp (flatKV .repaired kvs) = some (kvs.map fun kv => (kv.1, spell kv.2)) := by
  induction kvs with
  | nil => rfl
  | cons kv rest ih => obtain ⟨k, p⟩ := kv; simp [flatKV, pairUp, ih, itemStr]

theorem flatKV_ne_nil (kvs : List (Str × Prim)) (h : kvs ≠ []) : flatKV .repaired kvs ≠ [] := by
  cases kvs with
  | nil => exact absurd rfl h
  | cons kv rest => obtain ⟨k, p⟩ := kv; simp [flatKV]

theorem flatKV_noDelim (kvs : List (Str × Prim)) (h : ∀ kv ∈ kvs, 44 ∉ kv.1 ∧ 44 ∉ spell kv.2) :
    ∀ s ∈ flatKV .repaired kvs, 44 ∉ s := by
  induction kvs with
  | nil => intro s hs; simp [flatKV] at hs
  | cons kv rest ih =>
    obtain ⟨k, p⟩ := kv
    intro s hs
    simp only [flatKV, List.mem_cons] at hs
    have h0 := h (k, p) (by simp)
    rcases hs with hs | hs | hs
    · subst hs; exact h0.1
    · subst hs; exact h0.2
    · exact ih (fun kv hkv => h kv (by simp [hkv])) s hs

theorem dec_pairs (kvs : List (Str × Prim)) (h : PairsOk kvs) :
    decPairs 44 (joinWith [44] (flatKV .repaired kvs)) = some (coerce (.obj kvs)) := by
  unfold decPairs
  rw [splitOn_joinWith 44 _ (flatKV_ne_nil kvs h.1) (flatKV_noDelim kvs h.2), pairUp_flatKV]
  rfl

theorem flatKV_join_ne_nil (kvs : List (Str × Prim)) (h : kvs ≠ []) : joinWith [44] (flatKV .repaired kvs) ≠ [] := by
  cases kvs with
  | nil => exact absurd rfl h
  | cons kv rest =>
    obtain ⟨k, p⟩ := kv
    cases hr : flatKV .repaired rest <;> simp [flatKV, joinWith, hr]

/-! ### k=v<d>k=v -/

theorem splitKV_kvEq (k : Str) (v : Str) (h : 61 ∉ k) : splitKV (k ++ 61 :: v) = some (k, v) := by
  induction k with
  | nil => simp [splitKV]
  | cons c cs ih =>
    simp only [List.mem_cons, not_or] at h
    have hc : c ≠ 61 := fun e => h.1 e.symm
    simp [splitKV, hc, ih h.2]

theorem mapM_splitKV (kvs : List (Str × Prim)) (h : ∀ kv ∈ kvs, 61 ∉ kv.1) :
    mapM' splitKV (kvs.map (kvEq .repaired)) = some (kvs.map fun kv => (kv.1, spell kv.2)) := by
  induction kvs with
  | nil => rfl
  | cons kv rest ih =>
    obtain ⟨k, p⟩ := kv
    have h0 := h (k, p) (by simp)
    have := ih (fun kv hkv => h kv (by simp [hkv]))
    simp only [List.map_cons, mapM', kvEq, itemStr, splitKV_kvEq k (spell p) h0, this]

theorem kvEq_noDelim (d : Nat) (hd : d ≠ 61) (kvs : List (Str × Prim)) (h : ∀ kv ∈ kvs, d ∉ kv.1 ∧ 61 ∉ kv.1 ∧ d ∉ spell kv.2) :
    ∀ s ∈ kvs.map (kvEq .repaired), d ∉ s := by
  intro s hs
  obtain ⟨kv, hkv, rfl⟩ := List.mem_map.mp hs
  have := h kv hkv
  simp only [kvEq, itemStr, List.mem_append, List.mem_cons, not_or]
  exact ⟨this.1, hd, this.2.2⟩

theorem dec_kvs (d : Nat) (hd : d ≠ 61) (kvs : List (Str × Prim)) (h : KvsOk d kvs) :
    decKVs d (makeDelimited .repaired [d] kvs) = some (coerce (.obj kvs)) := by
  unfold decKVs makeDelimited
  rw [splitOn_joinWith d _ (by simpa using h.1) (kvEq_noDelim d hd kvs h.2),
    mapM_splitKV kvs (fun kv hkv => (h.2 kv hkv).2.1)]
  rfl

theorem makeDelimited_ne_nil (d : Nat) (kvs : List (Str × Prim)) (h : kvs ≠ []) :
    makeDelimited .repaired [d] kvs ≠ [] := by
  cases kvs with
  | nil => exact absurd rfl h
  | cons kv rest =>
    obtain ⟨k, p⟩ := kv
    cases rest with
    | nil => simp [makeDelimited, joinWith, kvEq]
    | cons kv' rest' => simp [makeDelimited, joinWith, kvEq]

/-! ### matrix, exploded array -/

theorem mapM_stripName (name : Str) (xs : List Prim) :
    mapM' (stripPrefix (name ++ [61])) (xs.map fun p => name ++ 61 :: spell p) = some (xs.map spell) := by
  induction xs with
  | nil => rfl
  | cons p rest ih =>
    have : stripPrefix (name ++ [61]) (name ++ 61 :: spell p) = some (spell p) := by
      have := stripPrefix_append (name ++ [61]) (spell p)
      simpa using this
    simp only [List.map_cons, mapM', this, ih]

/-! ### one lemma per conversion: the reference decoder of the shape undoes it -/

theorem conv_delimited (vt vs : Variant) (name : Str) (d : Nat) (xs : List Prim) (w : Str)
    (hd : ListOk d xs) (hs : StrOk vs (.arr xs)) (hw : convStr vt vs name (.delimited d) (.arr xs) = some w) :
    decodeShape name (.list d) w = some (coerce (.arr xs)) := by
  simp only [convStr, iterItems, Option.map_some, Option.some.injEq] at hw
  subst hw
  rw [map_itemStr vs xs hs]
  simp only [decodeShape, decList, dec_list d xs hd, coerce]

theorem conv_commaObject (vt vs : Variant) (name : Str) (kvs : List (Str × Prim)) (w : Str)
    (hd : PairsOk kvs) (hs : StrOk vs (.obj kvs)) (hw : convStr vt vs name .commaObject (.obj kvs) = some w) :
    decodeShape name .pairs w = some (coerce (.obj kvs)) := by
  simp only [convStr, dictItems, Option.map_some, Option.some.injEq] at hw
  subst hw
  rw [flatKV_spell vs kvs hs]
  exact dec_pairs kvs hd

theorem conv_delimitedObject (vt vs : Variant) (name : Str) (kvs : List (Str × Prim)) (w : Str)
    (hd : KvsOk 44 kvs) (hs : StrOk vs (.obj kvs)) (hw : convStr vt vs name .delimitedObject (.obj kvs) = some w) :
    decodeShape name (.kvs 44) w = some (coerce (.obj kvs)) := by
  simp only [convStr, dictItems, Option.map_some, Option.some.injEq] at hw
  subst hw
  unfold makeDelimited
  rw [kvEq_spell vs kvs hs]
  exact dec_kvs 44 (by decide) kvs hd

theorem conv_labelPrimitive (vt vs : Variant) (name : Str) (p : Prim) (w : Str)
    (hd : p ≠ .null) (hs : StrOk vs (.prim p)) (hw : convStr vt vs name .labelPrimitive (.prim p) = some w) :
    decodeShape name .labelPlain w = some (coerce (.prim p)) := by
  have hw' : w = 46 :: itemStr vs p := by
    cases p <;> simp_all [convStr]
  subst hw'
  rw [itemStr_spell vs p hs]
  simp [decodeShape, stripPrefix_cons, coerce]

theorem conv_labelArray (vt vs : Variant) (name : Str) (e : Option Bool) (xs : List Prim) (w : Str)
    (hd : ListOk (if isTrue e then 46 else 44) xs ∧ xs.map spell ≠ [[]]) (hs : StrOk vs (.arr xs))
    (hw : convStr vt vs name (.labelArray e) (.arr xs) = some w) :
    decodeShape name (.labelList (if isTrue e then 46 else 44)) w = some (coerce (.arr xs)) := by
  simp only [convStr, iterItems, Option.map_some, Option.some.injEq] at hw
  subst hw
  rw [map_itemStr vs xs hs]
  have hne : joinWith [if isTrue e then 46 else 44] (xs.map spell) ≠ [] := by
    intro h
    rcases joinWith_eq_nil _ _ h with h | h
    · exact hd.1.1 (by simpa using h)
    · exact hd.2 h
  have hne' : (joinWith [if isTrue e then 46 else 44] (xs.map spell)).isEmpty = false := by
    cases hj : joinWith [if isTrue e then 46 else 44] (xs.map spell) with
    | nil => exact absurd hj hne
    | cons a b => rfl
  simp only [dotIf, hne', Bool.false_eq_true, if_false, decodeShape, stripPrefix_cons, Option.map_some, decList,
    dec_list _ xs hd.1, coerce]

theorem isEmpty_false_of_ne {α} (l : List α) (h : l ≠ []) : l.isEmpty = false := by
  cases l with
  | nil => exact absurd rfl h
  | cons a b => rfl

theorem conv_labelObject_true (vt vs : Variant) (name : Str) (e : Option Bool) (he : isTrue e = true)
    (kvs : List (Str × Prim)) (w : Str)
    (hd : KvsOk 46 kvs) (hs : StrOk vs (.obj kvs)) (hw : convStr vt vs name (.labelObject e) (.obj kvs) = some w) :
    decodeShape name .labelKvs w = some (coerce (.obj kvs)) := by
  simp only [convStr, dictItems, he, if_true, Option.map_some, Option.some.injEq] at hw
  subst hw
  unfold makeDelimited
  rw [kvEq_spell vs kvs hs]
  have := isEmpty_false_of_ne _ (makeDelimited_ne_nil 46 kvs hd.1)
  unfold makeDelimited at this
  simp only [dotIf, this, Bool.false_eq_true, if_false, decodeShape, stripPrefix_cons, Option.bind_some]
  exact dec_kvs 46 (by decide) kvs hd

theorem conv_labelObject_false (vt vs : Variant) (name : Str) (e : Option Bool) (he : isTrue e = false)
    (kvs : List (Str × Prim)) (w : Str)
    (hd : PairsOk kvs) (hs : StrOk vs (.obj kvs)) (hw : convStr vt vs name (.labelObject e) (.obj kvs) = some w) :
    decodeShape name .labelPairs w = some (coerce (.obj kvs)) := by
  simp only [convStr, dictItems, he, Bool.false_eq_true, if_false, Option.map_some, Option.some.injEq] at hw
  subst hw
  rw [flatKV_spell vs kvs hs]
  have := isEmpty_false_of_ne _ (flatKV_join_ne_nil kvs hd.1)
  simp only [dotIf, this, Bool.false_eq_true, if_false, decodeShape, stripPrefix_cons, Option.bind_some]
  exact dec_pairs kvs hd

theorem conv_matrixPrimitive (vt vs : Variant) (name : Str) (p : Prim) (w : Str)
    (hd : p ≠ .null) (hs : StrOk vs (.prim p)) (hw : convStr vt vs name .matrixPrimitive (.prim p) = some w) :
    decodeShape name .matrixPlain w = some (coerce (.prim p)) := by
  have hw' : w = 59 :: name ++ 61 :: itemStr vs p := by
    cases p <;> simp_all [convStr]
  subst hw'
  rw [itemStr_spell vs p hs]
  have := stripPrefix_append (59 :: name ++ [61]) (spell p)
  simp only [List.cons_append, List.append_assoc, List.nil_append] at this
  simp [decodeShape, this, coerce]

theorem conv_matrixArray_true (vt vs : Variant) (name : Str) (e : Option Bool) (he : isTrue e = true)
    (xs : List Prim) (w : Str)
    (hd : ListOk 59 xs ∧ 59 ∉ name) (hs : StrOk vs (.arr xs))
    (hw : convStr vt vs name (.matrixArray e) (.arr xs) = some w) :
    decodeShape name .matrixExploded w = some (coerce (.arr xs)) := by
  simp only [convStr, iterItems, he, if_true, Option.map_some, Option.some.injEq] at hw
  subst hw
  have hmap : (xs.map fun p => name ++ 61 :: itemStr vs p) = (xs.map spell).map fun s => name ++ 61 :: s := by
    rw [List.map_map]
    apply List.map_congr_left
    intro p hp
    have : vs = .repaired ∨ plain p = true := by
      rcases hs with h | h
      · left; exact h
      · right; exact (List.all_eq_true.mp h) p hp
    simp [itemStr_spell vs p this]
  rw [hmap]
  have hne : (xs.map spell).map (fun s => name ++ 61 :: s) ≠ [] := by simpa using hd.1.1
  have hnd : ∀ s ∈ (xs.map spell).map (fun s => name ++ 61 :: s), 59 ∉ s := by
    intro s hs'
    obtain ⟨t, ht, rfl⟩ := List.mem_map.mp hs'
    have := mem_map_spell hd.1.2 t ht
    simp only [List.mem_append, List.mem_cons, not_or]
    exact ⟨hd.2, by decide, this⟩
  have hj : joinWith [59] ((xs.map spell).map fun s => name ++ 61 :: s) ≠ [] := by
    intro h
    rcases joinWith_eq_nil _ _ h with h | h
    · exact hne h
    · cases hx : xs.map spell with
      | nil => simp [hx] at hne
      | cons a b => simp [hx] at h
  simp only [dotIf, isEmpty_false_of_ne _ hj, Bool.false_eq_true, if_false, decodeShape, stripPrefix_cons,
    Option.bind_some, splitOn_joinWith 59 _ hne hnd]
  have := mapM_stripName name xs
  rw [List.map_map] at *
  simp only [Function.comp_def] at *
  rw [this]
  rfl

theorem conv_matrixObject_true (vt vs : Variant) (name : Str) (e : Option Bool) (he : isTrue e = true)
    (kvs : List (Str × Prim)) (w : Str)
    (hd : KvsOk 59 kvs) (hs : StrOk vs (.obj kvs)) (hw : convStr vt vs name (.matrixObject e) (.obj kvs) = some w) :
    decodeShape name .matrixKvs w = some (coerce (.obj kvs)) := by
  simp only [convStr, dictItems, he, if_true, Option.map_some, Option.some.injEq] at hw
  subst hw
  unfold makeDelimited
  rw [kvEq_spell vs kvs hs]
  have := isEmpty_false_of_ne _ (makeDelimited_ne_nil 59 kvs hd.1)
  unfold makeDelimited at this
  simp only [dotIf, this, Bool.false_eq_true, if_false, decodeShape, stripPrefix_cons, Option.bind_some]
  exact dec_kvs 59 (by decide) kvs hd

/-- the repaired non-exploded matrix array carries `name=` -/
theorem conv_matrixArray_false (vs : Variant) (name : Str) (e : Option Bool) (he : isTrue e = false)
    (xs : List Prim) (w : Str)
    (hd : ListOk 44 xs ∧ xs.map spell ≠ [[]]) (hs : StrOk vs (.arr xs))
    (hw : convStr .repaired vs name (.matrixArray e) (.arr xs) = some w) :
    decodeShape name .matrixList w = some (coerce (.arr xs)) := by
  simp only [convStr, iterItems, he, Bool.false_eq_true, if_false, Option.map_some, Option.some.injEq] at hw
  subst hw
  rw [map_itemStr vs xs hs]
  have hne : joinWith [44] (xs.map spell) ≠ [] := by
    intro h
    rcases joinWith_eq_nil _ _ h with h | h
    · exact hd.1.1 (by simpa using h)
    · exact hd.2 h
  have h1 := isEmpty_false_of_ne _ hne
  have h2 : (name ++ 61 :: joinWith [44] (xs.map spell)).isEmpty = false := by
    apply isEmpty_false_of_ne; simp
  have := stripPrefix_append (59 :: name ++ [61]) (joinWith [44] (xs.map spell))
  simp only [List.cons_append, List.append_assoc, List.nil_append] at this
  simp only [dotIf, h1, h2, Bool.false_eq_true, if_false, decodeShape, List.cons_append, this, Option.map_some, decList, dec_list 44 xs hd.1, coerce]

theorem conv_matrixObject_false (vs : Variant) (name : Str) (e : Option Bool) (he : isTrue e = false)
    (kvs : List (Str × Prim)) (w : Str)
    (hd : PairsOk kvs) (hs : StrOk vs (.obj kvs))
    (hw : convStr .repaired vs name (.matrixObject e) (.obj kvs) = some w) :
    decodeShape name .matrixPairs w = some (coerce (.obj kvs)) := by
  simp only [convStr, dictItems, he, Bool.false_eq_true, if_false, Option.map_some, Option.some.injEq] at hw
  subst hw
  rw [flatKV_spell vs kvs hs]
  have h1 := isEmpty_false_of_ne _ (flatKV_join_ne_nil kvs hd.1)
  have h2 : (name ++ 61 :: joinWith [44] (flatKV .repaired kvs)).isEmpty = false := by
    apply isEmpty_false_of_ne; simp
  have := stripPrefix_append (59 :: name ++ [61]) (joinWith [44] (flatKV .repaired kvs))
  simp only [List.cons_append, List.append_assoc, List.nil_append] at this
  simp only [dotIf, h1, h2, Bool.false_eq_true, if_false, decodeShape, List.cons_append, this, Option.bind_some]
  exact dec_pairs kvs hd

/-! ### which conversion realises which shape, and the master lemma -/

def realises (vt : Variant) : Conv → Shape → Bool
  | .delimited d, .list d' => d == d'
  | .commaObject, .pairs => true
  | .delimitedObject, .kvs d => d == 44
  | .labelPrimitive, .labelPlain => true
  | .labelArray e, .labelList d => d == (if isTrue e then 46 else 44)
  | .labelObject e, .labelKvs => isTrue e
  | .labelObject e, .labelPairs => !isTrue e
  | .matrixPrimitive, .matrixPlain => true
  | .matrixArray e, .matrixExploded => isTrue e
  | .matrixArray e, .matrixList => !isTrue e && vt == .repaired
  | .matrixObject e, .matrixKvs => isTrue e
  | .matrixObject e, .matrixPairs => !isTrue e && vt == .repaired
  | _, _ => false

theorem master (vt vs : Variant) (name : Str) (cv : Conv) (sh : Shape) (x : Val) (w : Str)
    (hr : realises vt cv sh = true) (hd : Decodable name sh x) (hs : StrOk vs x)
    (hw : convStr vt vs name cv x = some w) : decodeShape name sh w = some (coerce x) := by
  cases cv with
  | delimited d =>
    cases sh <;> simp [realises] at hr
    subst hr
    cases x <;> simp only [Decodable] at hd
    exact conv_delimited vt vs name _ _ w hd hs hw
  | commaObject =>
    cases sh <;> simp [realises] at hr
    cases x <;> simp only [Decodable] at hd
    exact conv_commaObject vt vs name _ w hd hs hw
  | delimitedObject =>
    cases sh <;> simp [realises] at hr
    subst hr
    cases x <;> simp only [Decodable] at hd
    exact conv_delimitedObject vt vs name _ w hd hs hw
  | labelPrimitive =>
    cases sh <;> simp [realises] at hr
    cases x <;> simp only [Decodable] at hd
    exact conv_labelPrimitive vt vs name _ w hd hs hw
  | labelArray e =>
    cases sh <;> simp [realises] at hr
    subst hr
    cases x <;> simp only [Decodable] at hd
    exact conv_labelArray vt vs name e _ w hd hs hw
  | labelObject e =>
    cases sh <;> simp [realises] at hr
    · cases x <;> simp only [Decodable] at hd
      exact conv_labelObject_false vt vs name e hr _ w hd hs hw
    · cases x <;> simp only [Decodable] at hd
      exact conv_labelObject_true vt vs name e hr _ w hd hs hw
  | matrixPrimitive =>
    cases sh <;> simp [realises] at hr
    cases x <;> simp only [Decodable] at hd
    exact conv_matrixPrimitive vt vs name _ w hd hs hw
  | matrixArray e =>
    cases sh <;> simp [realises] at hr
    · obtain ⟨he, hv⟩ := hr
      subst hv
      cases x <;> simp only [Decodable] at hd
      exact conv_matrixArray_false vs name e he _ w hd hs hw
    · cases x <;> simp only [Decodable] at hd
      exact conv_matrixArray_true vt vs name e hr _ w hd hs hw
  | matrixObject e =>
    cases sh <;> simp [realises] at hr
    · obtain ⟨he, hv⟩ := hr
      subst hv
      cases x <;> simp only [Decodable] at hd
      exact conv_matrixObject_false vs name e he _ w hd hs hw
    · cases x <;> simp only [Decodable] at hd
      exact conv_matrixObject_true vt vs name e hr _ w hd hs hw
  | _ => simp [realises] at hr

theorem convStr_defined (vt vs : Variant) (name : Str) (cv : Conv) (sh : Shape) (x : Val)
    (hr : realises vt cv sh = true) (hd : Decodable name sh x) : ∃ w, convStr vt vs name cv x = some w := by
  cases cv <;> cases sh <;> simp [realises] at hr <;> cases x <;> simp only [Decodable] at hd <;>
    simp [convStr, iterItems, dictItems]
  all_goals (rename_i p; cases p <;> simp_all)

/-! ### from a cell to its conversion list -/

theorem cellWire_single (vt vm vs : Variant) (c : Cell) (name : Str) (x : Val) (cv : Conv)
    (h : defConvs vt ⟨name, c, none⟩ = [cv]) : cellWire vt vm vs c name x = convStr vm vs name cv x := by
  simp only [cellWire, h, List.reverse_cons, List.reverse_nil, List.nil_append, applyConvsVal]
  cases convStr vm vs name cv x <;> simp [spell]

theorem cellWire_toString (vt vm vs : Variant) (c : Cell) (name : Str) (x : Val) (cv : Conv)
    (h : defConvs vt ⟨name, c, none⟩ = [.toString, cv]) : cellWire vt vm vs c name x = convStr vm vs name cv x := by
  simp only [cellWire, h, List.reverse_cons, List.reverse_nil, List.nil_append, List.cons_append, applyConvsVal]
  cases convStr vm vs name cv x with
  | none => simp
  | some s => cases vs <;> simp [convStr, itemStr, pyStr, spell]

theorem cell_via_single {vt vm vs : Variant} {c : Cell} {name : Str} {x : Val} {cv : Conv} {sh : Shape} {w : Str}
    (h : defConvs vt ⟨name, c, none⟩ = [cv]) (hr : realises vm cv sh = true) (hd : Decodable name sh x)
    (hs : StrOk vs x) (hw : cellWire vt vm vs c name x = some w) : decodeShape name sh w = some (coerce x) := by
  rw [cellWire_single vt vm vs c name x cv h] at hw
  exact master vm vs name cv sh x w hr hd hs hw

theorem cell_via_toString {vt vm vs : Variant} {c : Cell} {name : Str} {x : Val} {cv : Conv} {sh : Shape} {w : Str}
    (h : defConvs vt ⟨name, c, none⟩ = [.toString, cv]) (hr : realises vm cv sh = true) (hd : Decodable name sh x)
    (hs : StrOk vs x) (hw : cellWire vt vm vs c name x = some w) : decodeShape name sh w = some (coerce x) := by
  rw [cellWire_toString vt vm vs c name x cv h] at hw
  exact master vm vs name cv sh x w hr hd hs hw

theorem cell_plain_nil {vt vm vs : Variant} {c : Cell} {name : Str} {x : Val} {w : Str}
    (h : defConvs vt ⟨name, c, none⟩ = []) (hd : Decodable name .plain x)
    (hw : cellWire vt vm vs c name x = some w) : decodeShape name .plain w = some (coerce x) := by
  cases x <;> simp only [Decodable] at hd
  simp only [cellWire, h, List.reverse_nil, applyConvsVal, Option.some.injEq] at hw
  subst hw
  rfl

theorem cell_plain_toString {vt vm vs : Variant} {c : Cell} {name : Str} {x : Val} {w : Str}
    (h : defConvs vt ⟨name, c, none⟩ = [.toString]) (hd : Decodable name .plain x) (hs : StrOk vs x)
    (hw : cellWire vt vm vs c name x = some w) : decodeShape name .plain w = some (coerce x) := by
  cases x with
  | prim p =>
    simp only [cellWire, h, List.reverse_cons, List.reverse_nil, List.nil_append, applyConvsVal, convStr,
      Option.some.injEq, spell] at hw
    subst hw
    rw [itemStr_spell vs p hs]
    rfl
  | arr xs => simp only [Decodable] at hd
  | obj kvs => simp only [Decodable] at hd

/-- existence form: the wire text is defined and decodes to the coerced value -/
theorem cell_via_single' {vt vm vs : Variant} {c : Cell} {name : Str} {x : Val} {cv : Conv} {sh : Shape}
    (h : defConvs vt ⟨name, c, none⟩ = [cv]) (hr : realises vm cv sh = true) (hd : Decodable name sh x)
    (hs : StrOk vs x) : ∃ w, cellWire vt vm vs c name x = some w ∧ decodeShape name sh w = some (coerce x) := by
  obtain ⟨w, hw⟩ := convStr_defined vm vs name cv sh x hr hd
  exact ⟨w, by rw [cellWire_single vt vm vs c name x cv h, hw], master vm vs name cv sh x w hr hd hs hw⟩

theorem cell_via_toString' {vt vm vs : Variant} {c : Cell} {name : Str} {x : Val} {cv : Conv} {sh : Shape}
    (h : defConvs vt ⟨name, c, none⟩ = [.toString, cv]) (hr : realises vm cv sh = true) (hd : Decodable name sh x)
    (hs : StrOk vs x) : ∃ w, cellWire vt vm vs c name x = some w ∧ decodeShape name sh w = some (coerce x) := by
  obtain ⟨w, hw⟩ := convStr_defined vm vs name cv sh x hr hd
  exact ⟨w, by rw [cellWire_toString vt vm vs c name x cv h, hw], master vm vs name cv sh x w hr hd hs hw⟩

theorem cell_plain_nil' {vt vm vs : Variant} {c : Cell} {name : Str} {x : Val}
    (h : defConvs vt ⟨name, c, none⟩ = []) (hd : Decodable name .plain x) :
    ∃ w, cellWire vt vm vs c name x = some w ∧ decodeShape name .plain w = some (coerce x) := by
  cases x <;> simp only [Decodable] at hd
  rename_i p
  exact ⟨spell p, by simp [cellWire, h, applyConvsVal], rfl⟩

theorem cell_plain_toString' {vt vm vs : Variant} {c : Cell} {name : Str} {x : Val}
    (h : defConvs vt ⟨name, c, none⟩ = [.toString]) (hd : Decodable name .plain x) (hs : StrOk vs x) :
    ∃ w, cellWire vt vm vs c name x = some w ∧ decodeShape name .plain w = some (coerce x) := by
  cases x <;> simp only [Decodable] at hd
  rename_i p
  refine ⟨itemStr vs p, by simp [cellWire, h, applyConvsVal, convStr, spell], ?_⟩
  rw [itemStr_spell vs p hs]
  rfl

/-! ### UTF-8 round trip -/

theorem utf8Dec_char (cp : Nat) (h : isScalar cp = true) (rest : Bytes) :
    utf8Dec 0 0 0 (utf8Char cp ++ rest) = (utf8Dec 0 0 0 rest).map (cp :: ·) := by
  simp only [isScalar, Bool.and_eq_true, decide_eq_true_eq, Bool.not_eq_true', Bool.and_eq_false_iff,
    decide_eq_false_iff_not] at h
  obtain ⟨hmax, hsur⟩ := h
  unfold utf8Char
  by_cases h1 : cp < 128
  · simp only [h1, if_true, List.cons_append, List.nil_append, utf8Dec]
  · by_cases h2 : cp < 2048
    · have a1 : ¬ (192 + cp / 64 < 128) := by omega
      have a2 : 194 ≤ 192 + cp / 64 ∧ 192 + cp / 64 < 224 := by omega
      have a3 : 128 ≤ 128 + cp % 64 ∧ 128 + cp % 64 < 192 := by omega
      have a4 : (192 + cp / 64 - 192) * 64 + (128 + cp % 64 - 128) = cp := by omega
      have a5 : isScalar cp = true := by simp [isScalar]; omega
      simp only [h1, h2, if_false, if_true, List.cons_append, List.nil_append, utf8Dec, a1, a2, a3, and_self, a4]
      have a6 : 128 ≤ cp := by omega
      simp [a5, a6]
    · by_cases h3 : cp < 65536
      · have a1 : ¬ (224 + cp / 4096 < 128) := by omega
        have a2 : ¬ (194 ≤ 224 + cp / 4096 ∧ 224 + cp / 4096 < 224) := by omega
        have a3 : 224 ≤ 224 + cp / 4096 ∧ 224 + cp / 4096 < 240 := by omega
        have b1 : 128 ≤ 128 + cp / 64 % 64 ∧ 128 + cp / 64 % 64 < 192 := by omega
        have b2 : 128 ≤ 128 + cp % 64 ∧ 128 + cp % 64 < 192 := by omega
        have c1 : (224 + cp / 4096 - 224) * 64 + (128 + cp / 64 % 64 - 128) = cp / 64 := by omega
        have c2 : cp / 64 * 64 + (128 + cp % 64 - 128) = cp := by omega
        have a5 : isScalar cp = true := by simp [isScalar]; omega
        have a6 : 2048 ≤ cp := by omega
        simp only [h1, h2, h3, if_false, if_true, List.cons_append, List.nil_append, utf8Dec, a1, a2, a3, b1, b2,
          and_self, c1, c2]
        simp [a5, a6]
      · have a1 : ¬ (240 + cp / 262144 < 128) := by omega
        have a2 : ¬ (194 ≤ 240 + cp / 262144 ∧ 240 + cp / 262144 < 224) := by omega
        have a3 : ¬ (224 ≤ 240 + cp / 262144 ∧ 240 + cp / 262144 < 240) := by omega
        have a4 : 240 ≤ 240 + cp / 262144 ∧ 240 + cp / 262144 < 245 := by omega
        have b1 : 128 ≤ 128 + cp / 4096 % 64 ∧ 128 + cp / 4096 % 64 < 192 := by omega
        have b2 : 128 ≤ 128 + cp / 64 % 64 ∧ 128 + cp / 64 % 64 < 192 := by omega
        have b3 : 128 ≤ 128 + cp % 64 ∧ 128 + cp % 64 < 192 := by omega
        have c1 : (240 + cp / 262144 - 240) * 64 + (128 + cp / 4096 % 64 - 128) = cp / 4096 := by omega
        have c2 : cp / 4096 * 64 + (128 + cp / 64 % 64 - 128) = cp / 64 := by omega
        have c3 : cp / 64 * 64 + (128 + cp % 64 - 128) = cp := by omega
        have a5 : isScalar cp = true := by simp [isScalar]; omega
        have a6 : 65536 ≤ cp := by omega
        simp only [h1, h2, h3, if_false, if_true, List.cons_append, List.nil_append, utf8Dec, a1, a2, a3, a4, b1, b2, b3,
          and_self, c1, c2, c3]
        simp [a5, a6]

theorem utf8Decode_utf8 (s : Str) (h : ∀ c ∈ s, isScalar c = true) : utf8Decode (utf8 s) = some s := by
  unfold utf8Decode
  induction s with
  | nil => rfl
  | cons c t ih =>
    have hc := h c (by simp)
    have ht := ih (fun x hx => h x (by simp [hx]))
    simp only [utf8, List.flatMap_cons] at ht ⊢
    rw [utf8Dec_char c hc, ht]
    rfl

theorem utf8Char_isBytes (cp : Nat) (h : isScalar cp = true) : ∀ b ∈ utf8Char cp, b < 256 := by
  simp only [isScalar, Bool.and_eq_true, decide_eq_true_eq] at h
  intro b hb
  unfold utf8Char at hb
  split at hb
  · simp at hb; omega
  · split at hb
    · simp at hb; omega
    · split at hb
      · simp at hb; omega
      · simp at hb; omega

theorem utf8_isBytes (s : Str) (h : ∀ c ∈ s, isScalar c = true) : IsBytes (utf8 s) := by
  intro b hb
  simp only [utf8, List.mem_flatMap] at hb
  obtain ⟨c, hc, hbc⟩ := hb
  exact utf8Char_isBytes c (h c hc) b hbc

end SV.Proofs.C06
