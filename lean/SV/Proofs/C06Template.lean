import SV.Model.C06Template
namespace SV.Proofs.C06Template
open SV.Model.C06

theorem afterSerialize_entry (cfg : TplCfg) (loc : Loc) (c : Container) : afterSerialize .entry cfg loc c = c := rfl

theorem stepT_entry_state (cfg : TplCfg) (t : Tpl) (op : TOp) : (stepT .entry cfg t op).1 = t := by
  cases t with
  | mk conts =>
    simp only [stepT, afterSerialize_entry, Tpl.mk.injEq]
    induction conts with
    | nil => rfl
    | cons x r ih => obtain ⟨l, c⟩ := x; simp only [List.map_cons, ih]; split <;> rfl

theorem runT_entry (cfg : TplCfg) (t : Tpl) (ops : List TOp) :
    runT .entry cfg t ops = ops.map fun op => (stepT .entry cfg t op).2 := by
  induction ops with
  | nil => rfl
  | cons op rest ih => simp only [runT, List.map_cons, stepT_entry_state, ih]

end SV.Proofs.C06Template
