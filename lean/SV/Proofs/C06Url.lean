/-
  Helper lemmas for the URL-join statement of C06 (not property statements).
-/
import SV.Proofs.C06

namespace SV.Proofs.C06
open SV.Model.C06 SV.Spec.C06

/-! ### unquote (the lenient decoder used by `prepare_url`) undoes `quote` -/

theorem unhex_hexDigit (n : Nat) (h : n < 16) : unhex (hexDigit n) = some n := by
  unfold unhex hexDigit
  by_cases h10 : n < 10
  · have h1 : (decide (48 ≤ 48 + n) && decide (48 + n ≤ 57)) = true := by simp; omega
    simp only [h10, if_true, h1]
    congr 1; omega
  · have h1 : (decide (48 ≤ 55 + n) && decide (55 + n ≤ 57)) = false := by simp; omega
    have h2 : (decide (65 ≤ 55 + n) && decide (55 + n ≤ 70)) = true := by simp; omega
    simp only [h10, if_false, h1, Bool.false_eq_true, h2, if_true]
    congr 1; omega

theorem unquote_plain (c : Nat) (hc : c ≠ 37) (rest : Bytes) : unquote (c :: rest) = c :: unquote rest := by
  conv => lhs; unfold unquote
  split <;> simp_all

theorem unquote_pct (b : Nat) (hb : b < 256) (rest : Bytes) : unquote (pct b ++ rest) = b :: unquote rest := by
  have h1 := unhex_hexDigit (b / 16) (by omega)
  have h2 := unhex_hexDigit (b % 16) (by omega)
  have : 16 * (b / 16) + b % 16 = b := by omega
  simp only [pct, List.cons_append, List.nil_append, unquote, h1, h2, this]

theorem unquote_quoteByte (safe : Nat → Bool) (hs : safe 37 = false) (b : Nat) (hb : b < 256) (rest : Bytes) :
    unquote (quoteByte safe b ++ rest) = b :: unquote rest := by
  unfold quoteByte
  by_cases h : (isAlwaysSafe b || safe b) = true
  · simp only [h, if_true, List.cons_append, List.nil_append]
    apply unquote_plain
    intro h37; subst h37
    simp [isAlwaysSafe, hs] at h
  · simp only [h]
    exact unquote_pct b hb rest

theorem unquote_quoteWith_append (safe : Nat → Bool) (hs : safe 37 = false) (bs : Bytes) (hb : IsBytes bs) (rest : Bytes) :
    unquote (quoteWith safe bs ++ rest) = bs ++ unquote rest := by
  induction bs with
  | nil => simp [quoteWith]
  | cons b t ih =>
    have hb0 : b < 256 := hb b (by simp)
    have ht : IsBytes t := fun x hx => hb x (by simp [hx])
    simp only [quoteWith, List.append_assoc, unquote_quoteByte safe hs b hb0, ih ht, List.cons_append]

theorem unquote_noPct_append (s : Bytes) (h : 37 ∉ s) (rest : Bytes) : unquote (s ++ rest) = s ++ unquote rest := by
  induction s with
  | nil => simp
  | cons c t ih =>
    simp only [List.mem_cons, not_or] at h
    have hc : c ≠ 37 := fun e => h.1 e.symm
    simp only [List.cons_append, unquote_plain c hc, ih h.2]

theorem unquote_nil : unquote [] = [] := by simp [unquote]

/-! ### split / join on "/" -/

theorem splitSlash_notMem (p : Bytes) (h : 47 ∉ p) : splitSlash p = [p] := by
  induction p with
  | nil => rfl
  | cons c cs ih =>
    simp only [List.mem_cons, not_or] at h
    have hc : c ≠ 47 := fun e => h.1 e.symm
    simp [splitSlash, hc, ih h.2]

theorem splitSlash_append (p s : Bytes) (h : 47 ∉ p) : splitSlash (p ++ 47 :: s) = p :: splitSlash s := by
  induction p with
  | nil => simp [splitSlash]
  | cons c cs ih =>
    simp only [List.mem_cons, not_or] at h
    have hc : c ≠ 47 := fun e => h.1 e.symm
    simp [splitSlash, hc, ih h.2]

theorem joinSlash_cons2 (p q : Bytes) (rest : List Bytes) :
    joinSlash (p :: q :: rest) = p ++ 47 :: joinSlash (q :: rest) := rfl

theorem splitSlash_joinSlash (xs : List Bytes) (hne : xs ≠ []) (h : ∀ x ∈ xs, 47 ∉ x) :
    splitSlash (joinSlash xs) = xs := by
  induction xs with
  | nil => exact absurd rfl hne
  | cons p rest ih =>
    cases rest with
    | nil => simpa [joinSlash] using splitSlash_notMem p (h p (by simp))
    | cons q rest' =>
      rw [joinSlash_cons2, splitSlash_append p _ (h p (by simp)), ih (by simp) (fun x hx => h x (by simp [hx]))]

theorem joinSlash_append (xs ys : List Bytes) (hx : xs ≠ []) (hy : ys ≠ []) :
    joinSlash (xs ++ ys) = joinSlash xs ++ 47 :: joinSlash ys := by
  induction xs with
  | nil => exact absurd rfl hx
  | cons p rest ih =>
    cases rest with
    | nil =>
      cases ys with
      | nil => exact absurd rfl hy
      | cons y ys' => simp [joinSlash]
    | cons q rest' =>
      have := ih (by simp)
      simp only [List.cons_append] at this ⊢
      rw [joinSlash_cons2, this, joinSlash_cons2]
      simp

/-! ### quote keeps the segment structure -/

theorem quoteWith_append (safe : Nat → Bool) (a b : Bytes) :
    quoteWith safe (a ++ b) = quoteWith safe a ++ quoteWith safe b := by
  induction a with
  | nil => simp [quoteWith]
  | cons c t ih => simp [quoteWith, ih]

theorem quote_joinSlash (xs : List Bytes) :
    quote (joinSlash xs) = joinSlash (xs.map quote) := by
  induction xs with
  | nil => simp [joinSlash, quote, quoteWith]
  | cons p rest ih =>
    cases rest with
    | nil => simp [joinSlash]
    | cons q rest' =>
      rw [joinSlash_cons2]
      simp only [List.map_cons] at ih ⊢
      rw [joinSlash_cons2, ← ih]
      simp only [quote, quoteWith_append, quoteWith]
      simp [quoteByte, safeSlash, isAlwaysSafe]

theorem hexDigit_ne_slash (n : Nat) : hexDigit n ≠ 47 := by
  unfold hexDigit; split <;> omega

theorem quote_noSlash (s : Bytes) (h : 47 ∉ s) : 47 ∉ quote s := by
  induction s with
  | nil => simp [quote, quoteWith]
  | cons c t ih =>
    simp only [List.mem_cons, not_or] at h
    have hc : c ≠ 47 := fun e => h.1 e.symm
    have := ih h.2
    simp only [quote, quoteWith, List.mem_append, not_or] at this ⊢
    refine ⟨?_, this⟩
    unfold quoteByte
    split
    · simp [hc.symm]
    · have h1 := hexDigit_ne_slash (c / 16)
      have h2 := hexDigit_ne_slash (c % 16)
      simp [pct, h1.symm, h2.symm]

theorem quote_eq_nil (s : Bytes) (h : quote s = []) : s = [] := by
  cases s with
  | nil => rfl
  | cons c t =>
    simp only [quote, quoteWith, quoteByte] at h
    split at h <;> simp [pct] at h

theorem quoteByte_cases (safe : Nat → Bool) (c : Nat) :
    quoteByte safe c = [c] ∨ quoteByte safe c = pct c := by
  unfold quoteByte; split <;> simp

theorem quote_eq_dot (s : Bytes) (h : quote s = [46]) : s = [46] := by
  cases s with
  | nil => simp [quote, quoteWith] at h
  | cons c t =>
    simp only [quote, quoteWith] at h
    rcases quoteByte_cases safeSlash c with hc | hc
    · rw [hc] at h
      simp only [List.cons_append, List.nil_append, List.cons.injEq] at h
      have := quote_eq_nil t h.2
      rw [h.1, this]
    · rw [hc] at h; simp [pct] at h

theorem quote_eq_dotdot (s : Bytes) (h : quote s = [46, 46]) : s = [46, 46] := by
  cases s with
  | nil => simp [quote, quoteWith] at h
  | cons c t =>
    simp only [quote, quoteWith] at h
    rcases quoteByte_cases safeSlash c with hc | hc
    · rw [hc] at h
      simp only [List.cons_append, List.nil_append, List.cons.injEq] at h
      have := quote_eq_dot t h.2
      rw [h.1, this]
    · rw [hc] at h; simp [pct] at h

/-! ### the segment bookkeeping of urljoin -/

theorem lastD_append_singleton {α} (d : α) (xs : List α) (z : α) : lastD d (xs ++ [z]) = z := by
  induction xs with
  | nil => rfl
  | cons a t ih =>
    cases t with
    | nil => rfl
    | cons b t' => simpa [lastD] using ih

theorem dropLast_append_singleton {α} (xs : List α) (z : α) : dropLast (xs ++ [z]) = xs := by
  induction xs with
  | nil => rfl
  | cons a t ih =>
    cases t with
    | nil => rfl
    | cons b t' => simpa [dropLast] using ih

theorem dropLast_append_lastD {α} (d : α) (xs : List α) (h : xs ≠ []) : dropLast xs ++ [lastD d xs] = xs := by
  induction xs with
  | nil => exact absurd rfl h
  | cons a t ih =>
    cases t with
    | nil => rfl
    | cons b t' => simpa [dropLast, lastD] using ih (by simp)

theorem resolveDots_clean (acc segs : List Bytes) (h : ∀ s ∈ segs, s ≠ [46] ∧ s ≠ [46, 46]) :
    resolveDots acc segs = acc.reverse ++ segs := by
  induction segs generalizing acc with
  | nil => simp [resolveDots]
  | cons s rest ih =>
    have hs := h s (by simp)
    have := ih (s :: acc) (fun x hx => h x (by simp [hx]))
    simp [resolveDots, hs.1, hs.2, this]

theorem isEmpty_false_of_ne' {α} (l : List α) (h : l ≠ []) : l.isEmpty = false := by
  cases l with
  | nil => exact absurd rfl h
  | cons a b => rfl

theorem filter_nonempty_id (xs : List Bytes) (h : ∀ s ∈ xs, s ≠ []) : xs.filter (fun s => !s.isEmpty) = xs := by
  apply List.filter_eq_self.mpr
  intro s hs
  have := h s hs
  cases s with
  | nil => exact absurd rfl this
  | cons a b => rfl

theorem slashJoin_eq (xs : List Bytes) : slashJoin xs = joinSlash xs := by
  induction xs with
  | nil => rfl
  | cons p rest ih =>
    cases rest with
    | nil => rfl
    | cons q r => simp only [slashJoin, joinSlash_cons2, ih]

theorem unquote_joinSlash_gen (L : List (Bytes × Bytes))
    (h : ∀ p ∈ L, ∀ rest, unquote (p.1 ++ rest) = p.2 ++ unquote rest) :
    unquote (joinSlash (L.map (·.1))) = joinSlash (L.map (·.2)) := by
  induction L with
  | nil => simp [joinSlash, unquote_nil]
  | cons p rest ih =>
    cases rest with
    | nil =>
      have := h p (by simp) []
      simpa [joinSlash, unquote_nil] using this
    | cons q r =>
      have ih' := ih (fun x hx => h x (by simp [hx]))
      simp only [List.map_cons] at ih' ⊢
      rw [joinSlash_cons2, joinSlash_cons2, h p (by simp), unquote_plain 47 (by decide), ih']

theorem unquote_join_mixed (A P : List Bytes) (hA : ∀ s ∈ A, 37 ∉ s) (hP : ∀ s ∈ P, IsBytes s) :
    unquote (joinSlash (A ++ P.map quote)) = joinSlash (A ++ P) := by
  have := unquote_joinSlash_gen (A.map (fun s => (s, s)) ++ P.map (fun s => (quote s, s))) (by
    intro p hp rest
    rcases List.mem_append.mp hp with hp | hp
    · obtain ⟨s, hs, rfl⟩ := List.mem_map.mp hp
      exact unquote_noPct_append s (hA s hs) rest
    · obtain ⟨s, hs, rfl⟩ := List.mem_map.mp hp
      exact unquote_quoteWith_append safeSlash rfl s (hP s hs) rest)
  simpa [List.map_append, List.map_map, Function.comp_def] using this

theorem lstripSlash_id (s : Bytes) (h : s.head? ≠ some 47) : lstripSlash s = s := by
  cases s with
  | nil => rfl
  | cons c t =>
    have : c ≠ 47 := by simpa using h
    unfold lstripSlash
    split
    · rename_i heq; simp at heq; exact absurd heq.1 this
    · rfl

theorem head_ne_of_notMem (s : Bytes) (h : 47 ∉ s) : s.head? ≠ some 47 := by
  cases s with
  | nil => simp
  | cons c t =>
    simp only [List.mem_cons, not_or] at h
    simpa using fun e => h.1 e.symm

/-- the first character of a joined list is not "/" when the first segment is "/"-free and (non-empty or alone) -/
theorem head_joinSlash (xs : List Bytes) (h : ∀ x ∈ xs, 47 ∉ x) (hmid : ∀ x ∈ dropLast xs, x ≠ []) :
    (joinSlash xs).head? ≠ some 47 := by
  cases xs with
  | nil => simp [joinSlash]
  | cons p rest =>
    cases rest with
    | nil => simpa [joinSlash] using head_ne_of_notMem p (h p (by simp))
    | cons q r =>
      have hp : p ≠ [] := hmid p (by simp [dropLast])
      have hp' := h p (by simp)
      rw [joinSlash_cons2]
      cases p with
      | nil => exact absurd rfl hp
      | cons c t =>
        simp only [List.mem_cons, not_or] at hp'
        simpa using fun e => hp'.1 e.symm

theorem joinSlash_eq_nil (xs : List Bytes) (h : joinSlash xs = []) : xs = [] ∨ xs = [[]] := by
  cases xs with
  | nil => left; rfl
  | cons p rest =>
    cases rest with
    | nil => right; simpa [joinSlash] using h
    | cons q r => rw [joinSlash_cons2] at h; simp at h

theorem dropLast_map {α β} (f : α → β) (xs : List α) : dropLast (xs.map f) = (dropLast xs).map f := by
  induction xs with
  | nil => rfl
  | cons a t ih =>
    cases t with
    | nil => rfl
    | cons b t' => simpa [dropLast] using ih

theorem lastD_mem {α} (d : α) (xs : List α) (h : xs ≠ []) : lastD d xs ∈ xs := by
  induction xs with
  | nil => exact absurd rfl h
  | cons a t ih =>
    cases t with
    | nil => simp [lastD]
    | cons b t' =>
      have := ih (by simp)
      simp only [lastD] at this ⊢
      exact List.mem_cons_of_mem _ this

theorem noPct_joinSlash (xs : List Bytes) (h : ∀ s ∈ xs, 37 ∉ s) : 37 ∉ joinSlash xs := by
  induction xs with
  | nil => simp [joinSlash]
  | cons p rest ih =>
    cases rest with
    | nil => simpa [joinSlash] using h p (by simp)
    | cons q r =>
      rw [joinSlash_cons2]
      have := ih (fun s hs => h s (by simp [hs]))
      have hp := h p (by simp)
      simp only [List.mem_append, List.mem_cons, not_or]
      exact ⟨hp, by decide, this⟩

theorem finishJoin_clean (segs : List Bytes) (hne : segs ≠ []) (hclean : ∀ s ∈ segs, s ≠ [46] ∧ s ≠ [46, 46])
    (hnonempty : joinSlash segs ≠ []) : finishJoin segs = joinSlash segs := by
  have hl := hclean _ (lastD_mem [] segs hne)
  have h1 : (lastD [] segs == [46]) = false := by simpa using hl.1
  have h2 : (lastD [] segs == [46, 46]) = false := by simpa using hl.2
  have h3 : (joinSlash segs).isEmpty = false := isEmpty_false_of_ne' _ hnonempty
  simp only [finishJoin, resolveDots_clean [] segs hclean, List.reverse_nil, List.nil_append, h1, h2, Bool.or_self,
    Bool.false_eq_true, if_false, h3]

/-- **urljoin on clean segments is concatenation**; then `unquote` undoes `quote`. -/
theorem prepareUrlPath_clean (bsegs psegs : List Bytes) (hb : BaseOk bsegs) (hp : PathOk psegs) :
    prepareUrlPath (joinSlash ([] :: bsegs ++ [[]])) (47 :: joinSlash psegs) = joinSlash ([] :: bsegs ++ psegs) := by
  obtain ⟨hne, hseg, hmid⟩ := hp
  -- the base path ends with "/"
  have hbp : joinSlash ([] :: bsegs ++ [[]]) = joinSlash ([] :: bsegs) ++ [47] := by
    have := joinSlash_append ([] :: bsegs) [[]] (by simp) (by simp)
    simpa [joinSlash] using this
  have hlast : lastD 0 (joinSlash ([] :: bsegs ++ [[]])) = 47 := by
    rw [hbp]; exact lastD_append_singleton 0 _ 47
  have hnoslashB : ∀ x ∈ ([] :: bsegs ++ [[]] : List Bytes), 47 ∉ x := by
    intro x hx
    simp only [List.cons_append, List.mem_cons, List.mem_append, List.mem_nil_iff, or_false] at hx
    rcases hx with rfl | hx | rfl
    · simp
    · exact (hb x hx).2.2.2.1
    · simp
  have hnopctB : ∀ x ∈ ([] :: bsegs ++ [[]] : List Bytes), 37 ∉ x := by
    intro x hx
    simp only [List.cons_append, List.mem_cons, List.mem_append, List.mem_nil_iff, or_false] at hx
    rcases hx with rfl | hx | rfl
    · simp
    · exact (hb x hx).2.2.2.2
    · simp
  -- the relative reference
  have hstrip : lstripSlash (47 :: joinSlash psegs) = joinSlash psegs := by
    show lstripSlash (joinSlash psegs) = joinSlash psegs
    exact lstripSlash_id _ (head_joinSlash psegs (fun x hx => (hseg x hx).1) hmid)
  have hQ : ∀ q ∈ psegs.map quote, 47 ∉ q := by
    intro q hq
    obtain ⟨s, hs, rfl⟩ := List.mem_map.mp hq
    exact quote_noSlash s (hseg s hs).1
  have hQmid : ∀ q ∈ dropLast (psegs.map quote), q ≠ [] := by
    intro q hq
    rw [dropLast_map] at hq
    obtain ⟨s, hs, rfl⟩ := List.mem_map.mp hq
    exact fun e => hmid s hs (quote_eq_nil s e)
  have hQne : psegs.map quote ≠ [] := by simpa using hne
  have hQdots : ∀ q ∈ psegs.map quote, q ≠ [46] ∧ q ≠ [46, 46] := by
    intro q hq
    obtain ⟨s, hs, rfl⟩ := List.mem_map.mp hq
    exact ⟨fun e => (hseg s hs).2.1 (quote_eq_dot s e), fun e => (hseg s hs).2.2.1 (quote_eq_dotdot s e)⟩
  unfold prepareUrlPath
  simp only [hstrip, quote_joinSlash, hlast, beq_self_eq_true, if_true]
  by_cases hrel : (joinSlash (psegs.map quote)).isEmpty = true
  · -- path "/" : urljoin(base, "") = base
    simp only [hrel, if_true]
    have hnil : joinSlash (psegs.map quote) = [] := by simpa using hrel
    rcases joinSlash_eq_nil _ hnil with h | h
    · exact absurd h hQne
    · have hps : psegs = [[]] := by
        cases psegs with
        | nil => exact absurd rfl hne
        | cons s t =>
          cases t with
          | nil => simp at h; rw [quote_eq_nil s h]
          | cons u v => simp at h
      subst hps
      have := unquote_noPct_append (joinSlash ([] :: bsegs ++ [[]])) (noPct_joinSlash _ hnopctB) []
      simpa [unquote_nil] using this
  · simp only [hrel, Bool.false_eq_true, if_false]
    unfold urljoinPath joinSegments
    have hsplitB : splitSlash (joinSlash ([] :: bsegs ++ [[]])) = [] :: bsegs ++ [[]] :=
      splitSlash_joinSlash _ (by simp) hnoslashB
    have hsplitQ : splitSlash (joinSlash (psegs.map quote)) = psegs.map quote :=
      splitSlash_joinSlash _ hQne hQ
    have hlastB : lastD [] ([] :: bsegs ++ [[]] : List Bytes) = [] := by
      have := lastD_append_singleton ([] : Bytes) ([] :: bsegs) []
      simpa using this
    have hhead : ((joinSlash (psegs.map quote)).head? == some 47) = false := by
      have := head_joinSlash (psegs.map quote) hQ hQmid
      simpa using this
    simp only [hsplitB, hlastB, bne_self_eq_false, Bool.false_eq_true, if_false, hhead, hsplitQ]
    -- filterMiddle
    have hfm : filterMiddle (([] :: bsegs ++ [[]]) ++ psegs.map quote) = [] :: bsegs ++ psegs.map quote := by
      have hsplit : ([] :: bsegs ++ [[]]) ++ psegs.map quote
          = [] :: ((bsegs ++ [[]] ++ dropLast (psegs.map quote)) ++ [lastD [] (psegs.map quote)]) := by
        have := dropLast_append_lastD ([] : Bytes) (psegs.map quote) hQne
        simp only [List.cons_append, List.append_assoc, List.cons.injEq, true_and]
        rw [this]
      rw [hsplit]
      unfold filterMiddle
      split
      · rename_i heq; simp at heq
      · rename_i heq; simp at heq
      · rename_i a rest _ heq
        simp only [List.cons.injEq] at heq
        obtain ⟨rfl, rfl⟩ := heq
        rw [dropLast_append_singleton, lastD_append_singleton]
        have hfil : (bsegs ++ [[]] ++ dropLast (psegs.map quote)).filter (fun s => !s.isEmpty)
            = bsegs ++ dropLast (psegs.map quote) := by
          simp only [List.filter_append]
          rw [filter_nonempty_id bsegs (fun s hs => (hb s hs).1), filter_nonempty_id _ hQmid]
          simp
        rw [hfil, List.append_assoc, dropLast_append_lastD ([] : Bytes) _ hQne]
        rfl
    rw [hfm]
    have hclean : ∀ s ∈ ([] :: bsegs ++ psegs.map quote : List Bytes), s ≠ [46] ∧ s ≠ [46, 46] := by
      intro s hs
      simp only [List.cons_append, List.mem_cons, List.mem_append] at hs
      rcases hs with rfl | hs | hs
      · simp
      · exact ⟨(hb s hs).2.1, (hb s hs).2.2.1⟩
      · exact hQdots s hs
    have hnonempty : joinSlash ([] :: bsegs ++ psegs.map quote) ≠ [] := by
      cases hx : bsegs ++ psegs.map quote with
      | nil => simp at hx; exact absurd hx.2 (by simpa using hne)
      | cons y ys =>
        simp only [List.cons_append, hx, joinSlash_cons2]
        simp
    rw [finishJoin_clean _ (by simp) hclean hnonempty]
    have := unquote_join_mixed ([] :: bsegs) psegs (by
      intro s hs
      simp only [List.mem_cons] at hs
      rcases hs with rfl | hs
      · simp
      · exact (hb s hs).2.2.2.2) (fun s hs => (hseg s hs).2.2.2)
    simpa using this

/-! ### every quoted path value is a clean segment (so the URL-join theorem applies to all generated values) -/

/-- what one byte becomes under `quote(…, safe="")` (`plus = false`) / `quote_plus` (`plus = true`) -/
def chunk (plus : Bool) (b : Nat) : Bytes := if plus = true ∧ b = 32 then [43] else quoteByte safeNone b

theorem quoteStrict_chunks (bs : Bytes) : quoteStrict bs = (bs.map (chunk false)).flatten := by
  rw [quoteStrict, quoteStrict_eq_flatten]
  rfl

theorem quotePlus_chunks (bs : Bytes) : quotePlus bs = (bs.map (chunk true)).flatten := by
  rw [quotePlus_eq]
  congr 1
  apply List.map_congr_left
  intro b _
  simp [chunk]

theorem hexDigit_lt (n : Nat) (h : n < 16) : hexDigit n < 256 := by
  unfold hexDigit; split <;> omega

theorem chunk_props (plus : Bool) (b : Nat) (hb : b < 256) : ∀ c ∈ chunk plus b, c ≠ 47 ∧ c < 256 := by
  intro c hc
  unfold chunk at hc
  split at hc
  · simp at hc; omega
  · unfold quoteByte at hc
    split at hc
    · rename_i hs
      simp at hc; subst hc
      simp only [safeNone, Bool.or_false] at hs
      refine ⟨?_, hb⟩
      intro h47; subst h47; simp [isAlwaysSafe] at hs
    · simp only [pct, List.mem_cons, List.mem_nil_iff, or_false] at hc
      have h1 := hexDigit_ne_slash (b / 16)
      have h2 := hexDigit_ne_slash (b % 16)
      have h3 := hexDigit_lt (b / 16) (by omega)
      have h4 := hexDigit_lt (b % 16) (by omega)
      rcases hc with rfl | rfl | rfl
      · omega
      · exact ⟨h1, h3⟩
      · exact ⟨h2, h4⟩

theorem chunk_ne_nil (plus : Bool) (b : Nat) : chunk plus b ≠ [] := by
  unfold chunk
  split
  · simp
  · unfold quoteByte; split <;> simp [pct]

theorem chunk_head_dot (plus : Bool) (b : Nat) (r : Bytes) (h : chunk plus b = 46 :: r) : b = 46 ∧ r = [] := by
  unfold chunk at h
  split at h
  · simp at h
  · unfold quoteByte at h
    split at h
    · simp at h; exact ⟨h.1, h.2⟩
    · simp [pct] at h

theorem flatten_chunks_nil (plus : Bool) (bs : Bytes) (h : (bs.map (chunk plus)).flatten = []) : bs = [] := by
  cases bs with
  | nil => rfl
  | cons b t =>
    simp only [List.map_cons, List.flatten_cons, List.append_eq_nil_iff] at h
    exact absurd h.1 (chunk_ne_nil plus b)

theorem flatten_chunks_dot (plus : Bool) (bs : Bytes) (h : (bs.map (chunk plus)).flatten = [46]) : bs = [46] := by
  cases bs with
  | nil => simp at h
  | cons b t =>
    simp only [List.map_cons, List.flatten_cons] at h
    cases hc : chunk plus b with
    | nil => exact absurd hc (chunk_ne_nil plus b)
    | cons c r =>
      rw [hc] at h
      simp only [List.cons_append, List.cons.injEq, List.append_eq_nil_iff] at h
      obtain ⟨rfl, hr, ht⟩ := h
      have := chunk_head_dot plus b r hc
      rw [this.1, flatten_chunks_nil plus t ht]

theorem flatten_chunks_dotdot (plus : Bool) (bs : Bytes) (h : (bs.map (chunk plus)).flatten = [46, 46]) :
    bs = [46, 46] := by
  cases bs with
  | nil => simp at h
  | cons b t =>
    simp only [List.map_cons, List.flatten_cons] at h
    cases hc : chunk plus b with
    | nil => exact absurd hc (chunk_ne_nil plus b)
    | cons c r =>
      rw [hc] at h
      simp only [List.cons_append, List.cons.injEq] at h
      obtain ⟨rfl, h2⟩ := h
      have := chunk_head_dot plus b r hc
      rw [this.2] at h2
      simp only [List.nil_append] at h2
      rw [this.1, flatten_chunks_dot plus t h2]

theorem flatten_chunks_props (plus : Bool) (bs : Bytes) (hb : IsBytes bs) :
    ∀ c ∈ (bs.map (chunk plus)).flatten, c ≠ 47 ∧ c < 256 := by
  intro c hc
  simp only [List.mem_flatten, List.mem_map] at hc
  obtain ⟨l, ⟨b, hbm, rfl⟩, hcl⟩ := hc
  exact chunk_props plus b (hb b hbm) c hcl

/-- the segment written for a generated `str` path value (either variant of `quote_all`) is a clean segment -/
theorem pathSegment_clean (v : Variant) (bs : Bytes) (hb : IsBytes bs) (hne : bs ≠ []) :
    47 ∉ pathSegment v (.str bs) ∧ pathSegment v (.str bs) ≠ [46] ∧ pathSegment v (.str bs) ≠ [46, 46] ∧
    IsBytes (pathSegment v (.str bs)) ∧ pathSegment v (.str bs) ≠ [] := by
  simp only [pathSegment, quoteAll, jsonifyTop, formatVal, quoteAllStr]
  by_cases h1 : bs = [46]
  · subst h1; refine ⟨by simp, by simp, by simp, ?_, by simp⟩
    intro b hb'; simp at hb'; omega
  · by_cases h2 : bs = [46, 46]
    · subst h2; refine ⟨by simp, by simp, by simp, ?_, by simp⟩
      intro b hb'; simp at hb'; omega
    · simp only [beq_iff_eq, h1, h2, if_false]
      have key : ∀ plus, let w := (bs.map (chunk plus)).flatten
          47 ∉ w ∧ w ≠ [46] ∧ w ≠ [46, 46] ∧ IsBytes w ∧ w ≠ [] := by
        intro plus
        have hp := flatten_chunks_props plus bs hb
        refine ⟨fun h47 => (hp 47 h47).1 rfl, fun e => h1 (flatten_chunks_dot plus bs e),
          fun e => h2 (flatten_chunks_dotdot plus bs e), fun c hc => (hp c hc).2,
          fun e => hne (flatten_chunks_nil plus bs e)⟩
      cases v
      · simpa [quotePlus_chunks] using key true
      · simpa [quoteStrict_chunks] using key false

/-! ### template → URL → segments -/

theorem segments_eq_splitSlash (s : Bytes) : segments s = splitSlash s := by
  induction s with
  | nil => rfl
  | cons c cs ih =>
    by_cases h : c = 47
    · simp [segments, splitSlash, h, ih]
    · simp only [segments, splitSlash, h, if_false, ih, beq_iff_eq]
      cases splitSlash cs <;> rfl

theorem alwaysSafe_props (s : Bytes) (h : s.all isAlwaysSafe = true) : 47 ∉ s ∧ 37 ∉ s ∧ IsBytes s := by
  refine ⟨?_, ?_, ?_⟩
  · intro hm; have := List.all_eq_true.mp h 47 hm; simp [isAlwaysSafe] at this
  · intro hm; have := List.all_eq_true.mp h 37 hm; simp [isAlwaysSafe] at this
  · intro b hb
    have := List.all_eq_true.mp h b hb
    simp only [isAlwaysSafe, Bool.or_eq_true, Bool.and_eq_true, decide_eq_true_eq, beq_iff_eq] at this
    omega

theorem pctDecode_noPct (s : Bytes) (h : 37 ∉ s) : pctDecode s = some s := by
  induction s with
  | nil => rfl
  | cons c t ih =>
    simp only [List.mem_cons, not_or] at h
    rw [pctDecode_plain c (fun e => h.1 e.symm), ih h.2]
    rfl

theorem decodeSegment_lit (s : Bytes) (h : s.all isAlwaysSafe = true) : decodeSegment s = some s := by
  have hseg : isSegment s = true := by
    apply List.all_eq_true.mpr
    intro b hb
    have := List.all_eq_true.mp h b hb
    simp [isPchar, this]
  simp only [decodeSegment, hseg, if_true]
  exact pctDecode_noPct s (alwaysSafe_props s h).2.1

theorem instSeg_ok (v : Variant) (t : TSeg) (h : SegOk t) :
    47 ∉ instSeg v t ∧ instSeg v t ≠ [46] ∧ instSeg v t ≠ [46, 46] ∧ IsBytes (instSeg v t) := by
  cases t with
  | lit s =>
    have := alwaysSafe_props s h.1
    exact ⟨this.1, h.2.1, h.2.2, this.2.2⟩
  | val bs =>
    have := pathSegment_clean v bs h.1 h.2
    exact ⟨this.1, this.2.1, this.2.2.1, this.2.2.2.1⟩

theorem instSeg_ne_nil (v : Variant) (t : TSeg) (h : SegOk t) (hn : t ≠ .lit []) : instSeg v t ≠ [] := by
  cases t with
  | lit s => intro e; simp only [instSeg] at e; exact hn (by rw [e])
  | val bs => exact (pathSegment_clean v bs h.1 h.2).2.2.2.2

theorem pathOk_of_template (v : Variant) (ts : List TSeg) (h : TemplateOk ts) : PathOk (ts.map (instSeg v)) := by
  obtain ⟨hne, hall, hmid⟩ := h
  refine ⟨by simpa using hne, ?_, ?_⟩
  · intro s hs
    obtain ⟨t, ht, rfl⟩ := List.mem_map.mp hs
    exact instSeg_ok v t (hall t ht)
  · intro s hs
    rw [dropLast_map] at hs
    obtain ⟨t, ht, rfl⟩ := List.mem_map.mp hs
    have hmem : t ∈ ts := by
      have := dropLast_append_lastD (TSeg.lit []) ts hne
      rw [← this]; exact List.mem_append_left _ ht
    exact instSeg_ne_nil v t (hall t hmem) (hmid t ht)

end SV.Proofs.C06
