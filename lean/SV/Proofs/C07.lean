/-
  Helper lemmas for C07 (not property statements).
-/
import SV.Spec.C07

namespace SV.Proofs.C07
open SV.Model.C07 SV.Spec.C07

/-! ### ASCII upper-casing -/

theorem toUpper_idem (c : Char) : c.toUpper.toUpper = c.toUpper := by
  unfold Char.toUpper
  split
  · rename_i h
    split
    · rename_i h2
      exfalso
      obtain ⟨h2a, h2b⟩ := h2
      obtain ⟨ha, hb⟩ := h
      have e1 : 'a'.val.toNat = 97 := by decide
      have e2 : 'z'.val.toNat = 122 := by decide
      have e3 : 'A'.val.toNat = 65 := by decide
      simp only [UInt32.le_iff_toNat_le, UInt32.toNat_add, UInt32.toNat_sub, e1, e2, e3] at ha hb h2a h2b
      omega
    · rfl
  · rfl

theorem upper_idem (s : Str) : upper (upper s) = upper s := by
  simp [upper, toUpper_idem]

theorem isHttp_cases (m : Str) (h : isHttp m = true) :
    m = "get".toList ∨ m = "put".toList ∨ m = "post".toList ∨ m = "delete".toList ∨ m = "options".toList ∨
    m = "head".toList ∨ m = "patch".toList ∨ m = "trace".toList := by
  simpa [isHttp, httpMethods] using h

/-- `METHOD path` determines method and path (for the eight operation fields) -/
theorem oasLabel_inj (m1 m2 p1 p2 : Str) (h1 : isHttp m1 = true) (h2 : isHttp m2 = true)
    (h : oasLabel m1 p1 = oasLabel m2 p2) : m1 = m2 ∧ p1 = p2 := by
  rcases isHttp_cases m1 h1 with e1 | e1 | e1 | e1 | e1 | e1 | e1 | e1 <;>
  rcases isHttp_cases m2 h2 with e2 | e2 | e2 | e2 | e2 | e2 | e2 | e2 <;>
  subst e1 <;> subst e2 <;>
  (simp [oasLabel, upper] at h <;> exact ⟨rfl, h⟩)

/-! ### list helpers -/

theorem all_congr_mem {α} (l : List α) (p q : α → Bool) (h : ∀ x ∈ l, p x = q x) : l.all p = l.all q := by
  induction l with
  | nil => rfl
  | cons x xs ih =>
    simp only [List.all_cons]
    rw [h x (by simp), ih (fun y hy => h y (by simp [hy]))]

theorem any_congr_mem {α} (l : List α) (p q : α → Bool) (h : ∀ x ∈ l, p x = q x) : l.any p = l.any q := by
  induction l with
  | nil => rfl
  | cons x xs ih =>
    simp only [List.any_cons]
    rw [h x (by simp), ih (fun y hy => h y (by simp [hy]))]

theorem filter_congr_mem {α} (l : List α) (p q : α → Bool) (h : ∀ x ∈ l, p x = q x) : l.filter p = l.filter q := by
  induction l with
  | nil => rfl
  | cons x xs ih =>
    simp only [List.filter_cons]
    rw [h x (by simp), ih (fun y hy => h y (by simp [hy]))]

theorem length_filterMap_eq {α β} (l : List α) (f : α → Option β) (q : α → Bool)
    (h : ∀ x ∈ l, (f x).isSome = q x) : (l.filterMap f).length = (l.filter q).length := by
  induction l with
  | nil => rfl
  | cons x xs ih =>
    have hx := h x (by simp)
    have ih' := ih (fun y hy => h y (by simp [hy]))
    cases hf : f x with
    | none =>
      have : q x = false := by rw [← hx, hf]; rfl
      simp [hf, this, ih']
    | some b =>
      have : q x = true := by rw [← hx, hf]; rfl
      simp [hf, this, ih']

/-! ### matchers mean criteria -/

def valsOf : AttrVal → List Str
  | .absent => []
  | .one s => [s]
  | .many xs => xs

theorem attrOf_values (c : Ctx) (a : Attr) : valsOf (attrOf c a) = values (factsOfCtx c) a := by
  cases a <;> simp [attrOf, values, factsOfCtx, valsOf]
  · cases c.view.tags <;> simp [valsOf]
  · cases c.view.operationId <;> simp [valsOf]

theorem byValue_eq (v : AttrVal) (e : Str) : byValue v e = (valsOf v).any (· == e) := by
  cases v <;> simp [byValue, valsOf]

theorem byValueList_eq (v : AttrVal) (es : List Str) :
    byValueList v es = (valsOf v).any (fun x => es.any fun e => x == e) := by
  cases v <;> simp only [byValueList, valsOf, List.contains_eq_any_beq, List.any_nil, List.any_cons, Bool.or_false]

theorem byRegex_eq (r : Str → Bool) (v : AttrVal) : byRegex r v = (valsOf v).any r := by
  cases v <;> simp [byRegex, valsOf]

/-- how `_add_filter` stores a matcher stated by the user -/
def normMatcher : Matcher → Matcher
  | .value a e => .value a (normExpected a e)
  | m => m

theorem eval_criterion_ctx (rx : Rx) (c : Ctx) (m : Matcher) :
    (normMatcher m).eval rx c = (criterionOf m).holds rx (factsOfCtx c) := by
  cases m with
  | value a e =>
    cases e with
    | one s =>
      simp only [normMatcher, criterionOf, Criterion.holds, ← attrOf_values]
      cases a <;> simp [normExpected, normalizeMethod, Matcher.eval, byValue_eq, norm]
    | many xs =>
      simp only [normMatcher, criterionOf, Criterion.holds, ← attrOf_values]
      cases a <;> simp [normExpected, normalizeMethod, Matcher.eval, byValueList_eq, norm, List.any_map,
        Function.comp_def]
  | regex a i => simp [normMatcher, criterionOf, Criterion.holds, ← attrOf_values, Matcher.eval, byRegex_eq]
  | func f => cases f <;> simp [normMatcher, criterionOf, Criterion.holds, Matcher.eval, factsOfCtx]

theorem factsOf_eq (o : Op) (vs : ViewSel) : factsOf o vs = factsOfCtx (ctxOf o vs) := rfl
theorem gqlFactsOf_eq (o : Op) : gqlFactsOf o = factsOfCtx (gqlCtx o) := rfl

theorem normMatcher_idem (m : Matcher) : normMatcher (normMatcher m) = normMatcher m := by
  cases m with
  | value a e =>
    cases a <;> cases e <;> simp [normMatcher, normExpected, normalizeMethod, upper_idem, Function.comp_def]
  | regex a i => rfl
  | func f => rfl

/-- every stored matcher is in `_add_filter`'s normal form (method values upper-cased) -/
def FilterNorm (f : Filter) : Prop := ∀ m ∈ f, normMatcher m = m
def FSNorm (fs : FilterSet) : Prop := (∀ f ∈ fs.includes, FilterNorm f) ∧ (∀ f ∈ fs.excludes, FilterNorm f)

theorem evalFilter_norm (rx : Rx) (c : Ctx) (f : Filter) (h : FilterNorm f) :
    evalFilter rx c f = conjHolds rx (factsOfCtx c) (f.map criterionOf) := by
  unfold evalFilter conjHolds
  rw [List.all_map]
  apply all_congr_mem
  intro m hm
  have := eval_criterion_ctx rx c m
  rw [h m hm] at this
  simpa using this

theorem match_eq_selectedFS (rx : Rx) (fs : FilterSet) (c : Ctx) (h : FSNorm fs) :
    matchFS rx fs c = selectedFS rx fs (factsOfCtx c) := by
  unfold matchFS selectedFS selected
  have hi : fs.includes.any (evalFilter rx c) =
      (fs.includes.map (·.map criterionOf)).any (conjHolds rx (factsOfCtx c)) := by
    rw [List.any_map]
    exact any_congr_mem _ _ _ (fun f hf => evalFilter_norm rx c f (h.1 f hf))
  have he : fs.excludes.any (evalFilter rx c) =
      (fs.excludes.map (·.map criterionOf)).any (conjHolds rx (factsOfCtx c)) := by
    rw [List.any_map]
    exact any_congr_mem _ _ _ (fun f hf => evalFilter_norm rx c f (h.2 f hf))
  rw [← hi, ← he]
  cases fs.excludes.any (evalFilter rx c) <;> cases hin : fs.includes <;> simp

theorem matchFS_bool (rx : Rx) (fs : FilterSet) (c : Ctx) :
    matchFS rx fs c = ((fs.includes.isEmpty || fs.includes.any (evalFilter rx c)) && !(fs.excludes.any (evalFilter rx c))) := by
  unfold matchFS
  cases fs.excludes.any (evalFilter rx c) <;> cases fs.includes.isEmpty <;> simp

/-! ### `_add_filter` -/

theorem critMatchers_meaning (rx : Rx) (c : Ctx) (a : Attr) (cr : Crit) (l : List Matcher)
    (h : critMatchers a cr = some l) :
    l.all (fun m => m.eval rx c) = (critCriteria a cr).all (·.holds rx (factsOfCtx c)) ∧ FilterNorm l := by
  obtain ⟨e, r⟩ := cr
  cases e with
  | none =>
    cases r with
    | none => simp [critMatchers] at h; subst h; simp [critCriteria, FilterNorm]
    | some i =>
      simp [critMatchers] at h; subst h
      have := eval_criterion_ctx rx c (.regex a i)
      simp [critCriteria, FilterNorm, normMatcher, criterionOf] at this ⊢
      exact this
  | some e =>
    cases r with
    | some i => simp [critMatchers] at h
    | none =>
      simp [critMatchers] at h; subst h
      have := eval_criterion_ctx rx c (.value a e)
      have hn := normMatcher_idem (.value a e)
      cases e <;> simp [critCriteria, FilterNorm, normMatcher, criterionOf] at this hn ⊢ <;> exact ⟨this, hn⟩

theorem funcMatchers_meaning (rx : Rx) (c : Ctx) (f : Option Fn) :
    (funcMatchers f).all (fun m => m.eval rx c) = (funcCriteria f).all (·.holds rx (factsOfCtx c)) ∧
      FilterNorm (funcMatchers f) := by
  cases f with
  | none => simp [funcMatchers, funcCriteria, FilterNorm]
  | some f =>
    cases f <;> simp [funcMatchers, funcCriteria, FilterNorm, normMatcher, Matcher.eval, Criterion.holds, factsOfCtx]

theorem buildMatchers_meaning (rx : Rx) (c : Ctx) (a : FilterArgs) (ms : List Matcher)
    (h : buildMatchers a = .ok ms) :
    evalFilter rx c ms = conjHolds rx (factsOfCtx c) (argsCriteria a) := by
  unfold buildMatchers at h
  cases hn : critMatchers .label a.name <;> cases hm : critMatchers .method a.method <;>
    cases hp : critMatchers .path a.path <;> cases ht : critMatchers .tag a.tag <;>
    cases ho : critMatchers .operationId a.operationId <;> simp [hn, hm, hp, ht, ho] at h
  subst h
  have h1 := critMatchers_meaning rx c _ _ _ hn
  have h2 := critMatchers_meaning rx c _ _ _ hm
  have h3 := critMatchers_meaning rx c _ _ _ hp
  have h4 := critMatchers_meaning rx c _ _ _ ht
  have h5 := critMatchers_meaning rx c _ _ _ ho
  have h0 := funcMatchers_meaning rx c a.func
  simp only [evalFilter, conjHolds, argsCriteria, List.all_append, h0.1, h1.1, h2.1, h3.1, h4.1, h5.1, Bool.and_assoc]

theorem buildMatchers_norm (a : FilterArgs) (ms : List Matcher) (h : buildMatchers a = .ok ms) : FilterNorm ms := by
  have c0 : Ctx := ⟨[], [], [], ⟨none, none, false, []⟩⟩
  have rx0 : Rx := fun _ _ => false
  unfold buildMatchers at h
  cases hn : critMatchers .label a.name <;> cases hm : critMatchers .method a.method <;>
    cases hp : critMatchers .path a.path <;> cases ht : critMatchers .tag a.tag <;>
    cases ho : critMatchers .operationId a.operationId <;> simp [hn, hm, hp, ht, ho] at h
  subst h
  have h1 := (critMatchers_meaning rx0 c0 _ _ _ hn).2
  have h2 := (critMatchers_meaning rx0 c0 _ _ _ hm).2
  have h3 := (critMatchers_meaning rx0 c0 _ _ _ hp).2
  have h4 := (critMatchers_meaning rx0 c0 _ _ _ ht).2
  have h5 := (critMatchers_meaning rx0 c0 _ _ _ ho).2
  have h0 := (funcMatchers_meaning rx0 c0 a.func).2
  intro m hm'
  simp only [List.mem_append] at hm'
  rcases hm' with h' | h' | h' | h' | h' | h'
  all_goals first | exact h0 m h' | exact h1 m h' | exact h2 m h' | exact h3 m h' | exact h4 m h' | exact h5 m h'

/-- what a successful `_add_filter` did -/
theorem addFilter_ok (fs fs' : FilterSet) (inc : Bool) (a : FilterArgs) (h : addFilter fs inc a = .ok fs') :
    ∃ ms, buildMatchers a = .ok ms ∧ ms ≠ [] ∧ ms ∉ fs.includes ∧ ms ∉ fs.excludes ∧
      fs' = (if inc then { fs with includes := fs.includes ++ [ms] } else { fs with excludes := fs.excludes ++ [ms] }) := by
  unfold addFilter at h
  cases hb : buildMatchers a with
  | error e => simp [hb] at h
  | ok ms =>
    simp only [hb] at h
    by_cases he : ms.isEmpty = true
    · simp [he] at h
    · rw [if_neg he] at h
      by_cases hx : (fs.includes.contains ms || fs.excludes.contains ms) = true
      · rw [if_pos hx] at h; cases h
      · rw [if_neg hx] at h
        refine ⟨ms, rfl, ?_, ?_, ?_, ?_⟩
        · intro hnil; subst hnil; simp at he
        · intro hmem; apply hx; simp [hmem]
        · intro hmem; apply hx; simp [hmem]
        · cases inc <;> simp at h ⊢ <;> exact h.symm

theorem addFilter_norm (fs fs' : FilterSet) (inc : Bool) (a : FilterArgs) (hn : FSNorm fs)
    (h : addFilter fs inc a = .ok fs') : FSNorm fs' := by
  obtain ⟨ms, hb, _, _, _, rfl⟩ := addFilter_ok fs fs' inc a h
  have hms := buildMatchers_norm a ms hb
  cases inc
  · refine ⟨hn.1, ?_⟩
    intro f hf
    simp at hf
    rcases hf with hf | hf
    · exact hn.2 f hf
    · exact hf ▸ hms
  · refine ⟨?_, hn.2⟩
    intro f hf
    simp at hf
    rcases hf with hf | hf
    · exact hn.1 f hf
    · exact hf ▸ hms

theorem empty_norm : FSNorm FilterSet.empty := by
  constructor <;> intro f hf <;> simp [FilterSet.empty] at hf

theorem schemaExclude_norm (fs fs' : FilterSet) (a : FilterArgs) (d : Bool) (hn : FSNorm fs)
    (h : schemaExclude fs a d = .ok fs') : FSNorm fs' := by
  unfold schemaExclude at h
  cases d
  · exact addFilter_norm _ _ _ _ hn (by simpa using h)
  · simp only [if_true] at h
    cases hf : a.func with
    | none => simp only [hf] at h; exact addFilter_norm _ _ _ _ hn h
    | some f =>
      simp only [hf] at h
      cases h1 : addFilter fs false { FilterArgs.none with func := some .isDeprecated } with
      | error e => simp [h1] at h
      | ok fs1 =>
        simp only [h1] at h
        exact addFilter_norm _ _ _ _ (addFilter_norm _ _ _ _ hn h1) h

theorem applyCall_norm (fs fs' : FilterSet) (c : Call) (hn : FSNorm fs) (h : applyCall fs c = .ok fs') : FSNorm fs' := by
  unfold applyCall at h
  by_cases hi : c.isInclude = true
  · simp only [hi, if_true, schemaInclude] at h
    exact addFilter_norm _ _ _ _ hn h
  · simp only [hi, Bool.false_eq_true, if_false] at h
    exact schemaExclude_norm _ _ _ _ hn h

theorem applyCalls_norm (cs : List Call) (fs fs' : FilterSet) (hn : FSNorm fs) (h : applyCalls fs cs = .ok fs') :
    FSNorm fs' := by
  induction cs generalizing fs with
  | nil => simp [applyCalls] at h; exact h ▸ hn
  | cons c cs ih =>
    simp only [applyCalls] at h
    cases h1 : applyCall fs c with
    | error e => simp [h1] at h
    | ok fs1 =>
      simp only [h1] at h
      exact ih fs1 (applyCall_norm _ _ _ hn h1) h

/-- a run of same-side `_add_filter` calls appends one filter per call, each meaning its call's criteria -/
theorem addEach_meaning (inc : Bool) (as : List FilterArgs) (fs fs' : FilterSet) (hn : FSNorm fs)
    (h : addEach inc fs as = .ok fs') :
    FSNorm fs' ∧ ∃ fl : List Filter,
      fs' = (if inc then { fs with includes := fs.includes ++ fl } else { fs with excludes := fs.excludes ++ fl }) ∧
      ∀ (rx : Rx) (c : Ctx), fl.map (evalFilter rx c) = as.map (fun a => conjHolds rx (factsOfCtx c) (argsCriteria a)) := by
  induction as generalizing fs with
  | nil =>
    simp [addEach] at h
    subst h
    exact ⟨hn, [], by cases inc <;> simp, by simp⟩
  | cons a rest ih =>
    simp only [addEach] at h
    cases h1 : addFilter fs inc a with
    | error e => simp [h1] at h
    | ok fs1 =>
      simp only [h1] at h
      have hn1 := addFilter_norm _ _ _ _ hn h1
      obtain ⟨ms, hb, _, _, _, hfs1⟩ := addFilter_ok fs fs1 inc a h1
      obtain ⟨hn', fl, hfs', hev⟩ := ih fs1 hn1 h
      refine ⟨hn', ms :: fl, ?_, ?_⟩
      · subst hfs1
        cases inc <;> simp at hfs' ⊢ <;> exact hfs'
      · intro rx c
        simp only [List.map_cons, hev rx c, buildMatchers_meaning rx c a ms hb]

/-! ### command line -/

theorem valueArgs_criteria (a : Attr) (l : List Str) :
    List.map (argsCriteria ∘ valueArgs a) l = cliValueConjs a l := by
  unfold cliValueConjs
  apply List.map_congr_left
  intro s _
  cases a <;> rfl

theorem optFuncCall_criteria (r : Option Nat) : (optFuncCall r).map argsCriteria = optPred r := by
  cases r <;> rfl

theorem optRegexCall_criteria (a : Attr) (r : Option Nat) : (optRegexCall a r).map argsCriteria = optExclude a r := by
  cases r <;> cases a <;> rfl

theorem deprecatedCall_criteria (b : Bool) :
    (deprecatedCall b).map argsCriteria = (if b then [[Criterion.deprecated]] else []) := by
  cases b <;> rfl

theorem combinedRegexCall_criteria (n m p t o : Option Nat) :
    (combinedRegexCall n m p t o).map argsCriteria =
      (let rxs := optMatch .label n ++ optMatch .method m ++ optMatch .path p ++ optMatch .tag t ++ optMatch .operationId o
       if rxs.isEmpty then [] else [rxs]) := by
  cases n <;> cases m <;> cases p <;> cases t <;> cases o <;> rfl

theorem cliIncludes_eq (c : CliArgs) : cliIncludes c = (cliIncludeCalls c).map argsCriteria := by
  simp only [cliIncludes, cliIncludeCalls, List.map_append, List.map_map, valueArgs_criteria, optFuncCall_criteria,
    combinedRegexCall_criteria]

theorem cliExcludes_eq (c : CliArgs) : cliExcludes c = (cliExcludeCalls c).map argsCriteria := by
  simp only [cliExcludes, cliExcludeCalls, List.map_append, List.map_map, valueArgs_criteria, optFuncCall_criteria,
    optRegexCall_criteria, deprecatedCall_criteria]

/-! ### documents -/

theorem matchFS_empty (rx : Rx) (fs : FilterSet) (c : Ctx) (h : fs.isEmpty = true) : matchFS rx fs c = true := by
  obtain ⟨i, e⟩ := fs
  cases i <;> cases e <;> simp [FilterSet.isEmpty] at h
  simp [matchFS]

theorem shouldSkip_http (rx : Rx) (fs : FilterSet) (o : Op) (vs : ViewSel) (h : isHttp o.method = true) :
    shouldSkip rx fs o vs = !(matchFS rx fs (ctxOf o vs)) := by
  unfold shouldSkip
  by_cases he : fs.isEmpty = true
  · simp [h, he, matchFS_empty rx fs _ he]
  · simp [h, he]

theorem mem_linkPairs (ops : List Op) (p : Op × Link) : p ∈ linkPairs ops ↔ p.1 ∈ ops ∧ p.2 ∈ p.1.links := by
  unfold linkPairs
  simp only [List.mem_flatMap, List.mem_map]
  constructor
  · rintro ⟨o, ho, l, hl, rfl⟩
    exact ⟨ho, hl⟩
  · rintro ⟨h1, h2⟩
    exact ⟨p.1, h1, p.2, h2, rfl⟩

theorem mem_getAll (rx : Rx) (fs : FilterSet) (doc : Doc) (o : Op) :
    o ∈ getAllOperations rx fs doc ↔ o ∈ httpOps doc ∧ shouldSkip rx fs o .res = false := by
  simp [getAllOperations, httpOps, List.mem_filter, and_assoc]

/-- the document's operations have distinct (method, path) keys and distinct operationIds -/
structure WellKeyed (doc : Doc) : Prop where
  keys : ∀ o1 ∈ httpOps doc, ∀ o2 ∈ httpOps doc, o1.method = o2.method → o1.path = o2.path → o1 = o2
  ids : ∀ o1 ∈ httpOps doc, ∀ o2 ∈ httpOps doc, o1.raw.operationId.isSome = true →
    o1.raw.operationId = o2.raw.operationId → o1 = o2

theorem isHttp_of_mem_httpOps (doc : Doc) (o : Op) (h : o ∈ httpOps doc) : isHttp o.method = true := by
  simp [httpOps, List.mem_filter] at h; exact h.2

theorem label_mem_iff (rx : Rx) (fs : FilterSet) (doc : Doc) (hk : WellKeyed doc) (t : Op) (ht : t ∈ httpOps doc) :
    ((getAllOperations rx fs doc).map Op.oasLabel).contains t.oasLabel = true ↔ t ∈ getAllOperations rx fs doc := by
  simp only [List.contains_iff_mem, List.mem_map]
  constructor
  · rintro ⟨o, ho, hl⟩
    have ho' := ((mem_getAll rx fs doc o).1 ho).1
    have := oasLabel_inj o.method t.method o.path t.path (isHttp_of_mem_httpOps doc o ho')
      (isHttp_of_mem_httpOps doc t ht) hl
    have : o = t := hk.keys o ho' t ht this.1 this.2
    exact this ▸ ho
  · intro h
    exact ⟨t, h, rfl⟩

theorem findById_some (doc : Doc) (id : Str) (t : Op) (h : findById doc id = some t) :
    t ∈ httpOps doc ∧ t.raw.operationId = some id := by
  refine ⟨List.mem_of_find?_eq_some h, ?_⟩
  have := List.find?_some h
  simpa using this

theorem findByRef_some (doc : Doc) (m q : Str) (t : Op) (h : findByRef doc m q = some t) :
    t ∈ httpOps doc ∧ t.method = m ∧ t.path = q := by
  refine ⟨List.mem_of_find?_eq_some h, ?_⟩
  have := List.find?_some h
  simpa using this

theorem resolveTarget_mem (doc : Doc) (tg : LinkTarget) (t : Op) (h : resolveTarget doc tg = some t) :
    t ∈ httpOps doc := by
  cases tg with
  | byId id => exact (findById_some doc id t h).1
  | byRef m q => exact (findByRef_some doc m q t h).1
  | broken => simp [resolveTarget] at h

theorem keep_isSome_eq (rx : Rx) (fs : FilterSet) (doc : Doc) (hk : WellKeyed doc) (p : Op × Link)
    (hres : (resolveTarget doc p.2.target).isSome = true) :
    (keepTransition doc ((getAllOperations rx fs doc).map Op.oasLabel) p).isSome =
      isLinkSelected ((getAllOperations rx fs doc).filterMap fun o => o.raw.operationId)
        ((getAllOperations rx fs doc).map fun o => (o.method, o.path)) p.2.target := by
  generalize hsel' : getAllOperations rx fs doc = sel
  unfold keepTransition
  cases htgt : p.2.target with
  | broken => simp [htgt, resolveTarget] at hres
  | byId id =>
    simp only [htgt, resolveTarget] at hres ⊢
    cases hf : findById doc id with
    | none => simp [hf] at hres
    | some t =>
      obtain ⟨htmem, htid⟩ := findById_some doc id t hf
      have hl := label_mem_iff rx fs doc hk t htmem
      rw [hsel'] at hl
      simp only [isLinkSelected]
      by_cases hsel : t ∈ sel
      · have h1 : (sel.map Op.oasLabel).contains t.oasLabel = true := hl.2 hsel
        have h2 : (sel.filterMap fun o => o.raw.operationId).contains id = true := by
          simp only [List.contains_iff_mem, List.mem_filterMap]
          exact ⟨t, hsel, htid⟩
        rw [h1, h2]; rfl
      · have h1 : (sel.map Op.oasLabel).contains t.oasLabel = false := by
          cases h : (sel.map Op.oasLabel).contains t.oasLabel
          · rfl
          · exact absurd (hl.1 h) hsel
        have h2 : (sel.filterMap fun o => o.raw.operationId).contains id = false := by
          cases h : (sel.filterMap fun o => o.raw.operationId).contains id
          · rfl
          · exfalso
            simp only [List.contains_iff_mem, List.mem_filterMap] at h
            obtain ⟨o, ho, hoid⟩ := h
            have ho' := ((mem_getAll rx fs doc o).1 (hsel' ▸ ho)).1
            exact hsel (hk.ids o ho' t htmem (by simp [hoid]) (hoid.trans htid.symm) ▸ ho)
        rw [h1, h2]; rfl
  | byRef m q =>
    simp only [htgt, resolveTarget] at hres ⊢
    cases hf : findByRef doc m q with
    | none => simp [hf] at hres
    | some t =>
      obtain ⟨htmem, htk⟩ := findByRef_some doc m q t hf
      have hl := label_mem_iff rx fs doc hk t htmem
      rw [hsel'] at hl
      simp only [isLinkSelected]
      by_cases hsel : t ∈ sel
      · have h1 : (sel.map Op.oasLabel).contains t.oasLabel = true := hl.2 hsel
        have h2 : (sel.map fun o => (o.method, o.path)).contains (m, q) = true := by
          simp only [List.contains_iff_mem, List.mem_map]
          exact ⟨t, hsel, by simp [htk.1, htk.2]⟩
        rw [h1, h2]; rfl
      · have h1 : (sel.map Op.oasLabel).contains t.oasLabel = false := by
          cases h : (sel.map Op.oasLabel).contains t.oasLabel
          · rfl
          · exact absurd (hl.1 h) hsel
        have h2 : (sel.map fun o => (o.method, o.path)).contains (m, q) = false := by
          cases h : (sel.map fun o => (o.method, o.path)).contains (m, q)
          · rfl
          · exfalso
            simp only [List.contains_iff_mem, List.mem_map] at h
            obtain ⟨o, ho, hoid⟩ := h
            have ho' := ((mem_getAll rx fs doc o).1 (hsel' ▸ ho)).1
            simp only [Prod.mk.injEq] at hoid
            exact hsel (hk.keys o ho' t htmem (hoid.1.trans htk.1.symm) (hoid.2.trans htk.2.symm) ▸ ho)
        rw [h1, h2]; rfl

/-- `_measure_statistic` selects what `get_all_operations` offers when both see the same filter verdicts -/
theorem statSelected_eq (v : Variant) (rx : Rx) (fs : FilterSet) (doc : Doc)
    (hview : ∀ o ∈ doc, isHttp o.method = true → shouldSkip rx fs o (statView v) = shouldSkip rx fs o .res) :
    statSelected v rx fs doc = getAllOperations rx fs doc := by
  unfold statSelected httpOps getAllOperations
  rw [List.filter_filter]
  apply filter_congr_mem
  intro o ho
  by_cases h : isHttp o.method = true
  · simp [h, hview o ho h]
  · simp [h]

/-! ### lazy fixtures -/

theorem union_any (a b : List Filter) (p : Filter → Bool) :
    (unionFilters a b).any p = (a.any p || b.any p) := by
  unfold unionFilters
  rw [List.any_append]
  induction b with
  | nil => simp
  | cons f rest ih =>
    by_cases hc : a.contains f = true
    · have hf : p f = true → a.any p = true := by
        intro hp
        simp only [List.any_eq_true]
        exact ⟨f, by simpa using hc, hp⟩
      simp only [List.filter_cons, hc, Bool.not_true, Bool.false_eq_true, if_false, List.any_cons]
      rw [ih]
      cases hpf : p f
      · simp
      · simp [hf hpf]
    · simp only [List.filter_cons, hc, Bool.not_false, if_true, List.any_cons]
      rw [← Bool.or_assoc, Bool.or_comm (a.any p) (p f), Bool.or_assoc, ih, ← Bool.or_assoc, Bool.or_comm (p f),
        Bool.or_assoc]

theorem union_isEmpty (a b : List Filter) : (unionFilters a b).isEmpty = (a ++ b).isEmpty := by
  unfold unionFilters
  cases a with
  | nil => cases b <;> simp
  | cons x xs => simp

theorem union_norm (a b : List Filter) (ha : ∀ f ∈ a, FilterNorm f) (hb : ∀ f ∈ b, FilterNorm f) :
    ∀ f ∈ unionFilters a b, FilterNorm f := by
  intro f hf
  simp only [unionFilters, List.mem_append, List.mem_filter] at hf
  rcases hf with hf | hf
  · exact ha f hf
  · exact hb f hf.1

/-! ### witness data used by the property file -/

def noView : View := ⟨none, none, false, [false]⟩
def yesView : View := ⟨none, none, false, [true]⟩
/-- `GET /a` whose first parameter is a `$ref`: predicate 0 (`/parameters/0/name == "id"`) is false on the raw
    definition and true on the resolved one. -/
def refParamDoc : Doc := [⟨"get".toList, "/a".toList, [], noView, yesView, [], false, false⟩]
def predFilter : FilterSet := ⟨[[.func (.user 0)]], []⟩

/-- fixture schema: `schema.exclude(method="DELETE")`; lazy object: no filters; document: `DELETE /a` -/
def deleteDoc : Doc :=
  [⟨"delete".toList, "/a".toList, [], ⟨none, none, false, []⟩, ⟨none, none, false, []⟩, [], false, false⟩]
def excludeDelete : FilterSet := ⟨[], [[.value .method (.one "DELETE".toList)]]⟩

/-- `GET /a` (operationId getA) with a link `L` to operationId delA = `DELETE /a` -/
def linkDoc : Doc :=
  [⟨"get".toList, "/a".toList, [], ⟨none, some "getA".toList, false, []⟩, ⟨none, some "getA".toList, false, []⟩,
    [⟨"200".toList, "L".toList, .byId "delA".toList⟩], false, false⟩,
   ⟨"delete".toList, "/a".toList, [], ⟨none, some "delA".toList, false, []⟩, ⟨none, some "delA".toList, false, []⟩,
    [], false, false⟩]

def cliExample : CliArgs :=
  { includePath := [], includeMethod := ["get".toList], includeName := [], includeTag := [], includeOperationId := [],
    includePathRegex := some 0, includeMethodRegex := none, includeNameRegex := none, includeTagRegex := some 1,
    includeOperationIdRegex := none,
    excludePath := [], excludeMethod := [], excludeName := [], excludeTag := [], excludeOperationId := [],
    excludePathRegex := none, excludeMethodRegex := none, excludeNameRegex := none, excludeTagRegex := none,
    excludeOperationIdRegex := none, includeBy := none, excludeBy := none, excludeDeprecated := true }

end SV.Proofs.C07
