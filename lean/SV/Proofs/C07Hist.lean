/-
  Helper lemmas for C07, derivation histories: the heap semantics of `include`/`exclude`/`clone`/`get_schema`
  (objects, in-place `set.add`) refines the value semantics (one immutable filter set per object).
-/
import SV.Proofs.C07

namespace SV.Proofs.C07
open SV.Model.C07 SV.Spec.C07

/-- `h'` extends `h`: nothing allocated in `h` was changed -/
structure Ext (h h' : Heap) : Prop where
  next_le : h.next ≤ h'.next
  same : ∀ a, a < h.next → h'.cells a = h.cells a

theorem Ext.refl (h : Heap) : Ext h h := ⟨Nat.le_refl _, fun _ _ => rfl⟩

theorem Ext.trans {a b c : Heap} (h1 : Ext a b) (h2 : Ext b c) : Ext a c :=
  ⟨Nat.le_trans h1.next_le h2.next_le, fun x hx => by
    rw [h2.same x (Nat.lt_of_lt_of_le hx h1.next_le), h1.same x hx]⟩

/-- a `FilterSet` object none of whose sets existed in `h0`: two distinct `set` objects allocated since -/
structure FreshIn (h0 h : Heap) (r : FSRef) : Prop where
  inc_ge : h0.next ≤ r.inc
  exc_ge : h0.next ≤ r.exc
  inc_lt : r.inc < h.next
  exc_lt : r.exc < h.next
  ne : r.inc ≠ r.exc

theorem alloc_next (h : Heap) (v : List Filter) : (h.alloc v).1.next = h.next + 1 := rfl
theorem alloc_addr (h : Heap) (v : List Filter) : (h.alloc v).2 = h.next := rfl
theorem alloc_new (h : Heap) (v : List Filter) : (h.alloc v).1.cells h.next = v := by simp [Heap.alloc, upd]
theorem alloc_old (h : Heap) (v : List Filter) (a : Nat) (ha : a ≠ h.next) : (h.alloc v).1.cells a = h.cells a := by
  simp [Heap.alloc, upd, ha]

theorem alloc_ext (h : Heap) (v : List Filter) : Ext h (h.alloc v).1 :=
  ⟨by rw [alloc_next]; omega, fun a ha => alloc_old h v a (by omega)⟩

/-- `arg or set()`: the result is `arg` itself (heap untouched) or a new object; either way it holds `arg`'s contents -/
theorem orFresh_spec (h : Heap) (a : Nat) :
    Ext h (orFresh h a).1 ∧ (orFresh h a).1.cells (orFresh h a).2 = h.cells a ∧
    (((orFresh h a).2 = a ∧ (orFresh h a).1 = h) ∨
     ((orFresh h a).2 = h.next ∧ (orFresh h a).1.next = h.next + 1)) := by
  unfold orFresh
  by_cases he : (h.cells a).isEmpty = true
  · rw [if_pos he]
    refine ⟨alloc_ext h [], ?_, Or.inr ⟨rfl, rfl⟩⟩
    rw [alloc_addr, alloc_new]
    exact (List.isEmpty_iff.1 he).symm
  · rw [if_neg he]
    exact ⟨Ext.refl h, rfl, Or.inl ⟨rfl, rfl⟩⟩

/-- the constructor applied to two distinct `set` objects allocated since `n`: the new `FilterSet` holds their contents
    in two distinct objects allocated since `n` -/
theorem fsInit_spec (h : Heap) (i e n : Nat) (hi : i < h.next) (he : e < h.next) (hne : i ≠ e) (hni : n ≤ i)
    (hne' : n ≤ e) :
    Ext h (fsInit h i e).1 ∧
    n ≤ (fsInit h i e).2.inc ∧ n ≤ (fsInit h i e).2.exc ∧
    (fsInit h i e).2.inc < (fsInit h i e).1.next ∧ (fsInit h i e).2.exc < (fsInit h i e).1.next ∧
    (fsInit h i e).2.inc ≠ (fsInit h i e).2.exc ∧
    denote (fsInit h i e).1 (fsInit h i e).2 = ⟨h.cells i, h.cells e⟩ := by
  obtain ⟨x1, c1, k1⟩ := orFresh_spec h i
  obtain ⟨x2, c2, k2⟩ := orFresh_spec (orFresh h i).1 e
  simp only [fsInit, denote]
  generalize orFresh (orFresh h i).1 e = q at *
  generalize orFresh h i = p at *
  obtain ⟨p1, p2⟩ := p
  obtain ⟨q1, q2⟩ := q
  simp only at *
  have hx := x1.next_le
  have hy := x2.next_le
  have hce : p1.cells e = h.cells e := x1.same e he
  refine ⟨Ext.trans x1 x2, ?_, ?_, ?_, ?_, ?_, ?_⟩
  · rcases k1 with ⟨a, _⟩ | ⟨a, _⟩ <;> omega
  · rcases k2 with ⟨a, _⟩ | ⟨a, _⟩ <;> omega
  · rcases k1 with ⟨a, b⟩ | ⟨a, b⟩ <;> omega
  · rcases k2 with ⟨a, b⟩ | ⟨a, b⟩ <;> omega
  · rcases k1 with ⟨a, b⟩ | ⟨a, b⟩ <;> rcases k2 with ⟨a', b'⟩ | ⟨a', b'⟩ <;> omega
  · have hinc : q1.cells p2 = h.cells i := by
      rw [x2.same p2 (by rcases k1 with ⟨a, b⟩ | ⟨a, b⟩ <;> omega), c1]
    rw [hinc, c2, hce]

theorem fsNew_spec (h : Heap) :
    Ext h (fsNew h).1 ∧ FreshIn h (fsNew h).1 (fsNew h).2 ∧ denote (fsNew h).1 (fsNew h).2 = FilterSet.empty := by
  refine ⟨Ext.trans (alloc_ext h []) (alloc_ext _ []), ⟨?_, ?_, ?_, ?_, ?_⟩, ?_⟩
  all_goals simp [fsNew, Heap.alloc, upd, denote, FilterSet.empty]
  omega

/-- two fresh `set` objects holding `x` and `y`, then the constructor -/
theorem alloc2_init_spec (h : Heap) (x y : List Filter) :
    let a := h.alloc x
    let b := a.1.alloc y
    Ext h (fsInit b.1 a.2 b.2).1 ∧ FreshIn h (fsInit b.1 a.2 b.2).1 (fsInit b.1 a.2 b.2).2 ∧
      denote (fsInit b.1 a.2 b.2).1 (fsInit b.1 a.2 b.2).2 = ⟨x, y⟩ := by
  intro a b
  have ha : Ext h a.1 := alloc_ext h x
  have hb : Ext a.1 b.1 := alloc_ext a.1 y
  have hbn : b.1.next = h.next + 2 := rfl
  have ha2 : a.2 = h.next := rfl
  have hb2 : b.2 = h.next + 1 := rfl
  obtain ⟨e, g1, g2, l1, l2, ne, d⟩ := fsInit_spec b.1 a.2 b.2 h.next (by omega) (by omega) (by omega) (by omega) (by omega)
  refine ⟨Ext.trans (Ext.trans ha hb) e, ⟨g1, g2, l1, l2, ne⟩, ?_⟩
  rw [d]
  have : b.1.cells a.2 = x := by
    rw [ha2]
    show (a.1.alloc y).1.cells h.next = x
    rw [alloc_old a.1 y h.next (by show h.next ≠ h.next + 1; omega)]
    exact alloc_new h x
  have hy : b.1.cells b.2 = y := alloc_new a.1 y
  rw [this, hy]

theorem fsClone_spec (h : Heap) (r : FSRef) (he : r.exc < h.next) :
    Ext h (fsClone h r).1 ∧ FreshIn h (fsClone h r).1 (fsClone h r).2 ∧
      denote (fsClone h r).1 (fsClone h r).2 = denote h r := by
  have := alloc2_init_spec h (h.cells r.inc) (h.cells r.exc)
  have e : (h.alloc (h.cells r.inc)).1.cells r.exc = h.cells r.exc := alloc_old _ _ _ (by omega)
  simp only [fsClone, e]
  exact this

theorem fsMerge_spec (h : Heap) (r o : FSRef) (he : r.exc < h.next) (he' : o.exc < h.next) :
    Ext h (fsMerge h r o).1 ∧ FreshIn h (fsMerge h r o).1 (fsMerge h r o).2 ∧
      denote (fsMerge h r o).1 (fsMerge h r o).2 =
        ⟨unionFilters (h.cells r.inc) (h.cells o.inc), unionFilters (h.cells r.exc) (h.cells o.exc)⟩ := by
  have := alloc2_init_spec h (unionFilters (h.cells r.inc) (h.cells o.inc)) (unionFilters (h.cells r.exc) (h.cells o.exc))
  have e1 : (h.alloc (unionFilters (h.cells r.inc) (h.cells o.inc))).1.cells r.exc = h.cells r.exc :=
    alloc_old _ _ _ (by omega)
  have e2 : (h.alloc (unionFilters (h.cells r.inc) (h.cells o.inc))).1.cells o.exc = h.cells o.exc :=
    alloc_old _ _ _ (by omega)
  simp only [fsMerge, e1, e2]
  exact this

/-- `_add_filter` on an object with two distinct sets: only those two sets can change, and the object then denotes
    what the value-level `addFilter` returns (same refusals, heap untouched when refused) -/
theorem addFilterAt_spec (h : Heap) (r : FSRef) (hne : r.inc ≠ r.exc) (inc : Bool) (a : FilterArgs) :
    (addFilterAt h r inc a).1.next = h.next ∧
    (∀ x, x ≠ r.inc → x ≠ r.exc → (addFilterAt h r inc a).1.cells x = h.cells x) ∧
    (∀ e, addFilter (denote h r) inc a = .error e →
        (addFilterAt h r inc a).2 = some e ∧ (addFilterAt h r inc a).1 = h) ∧
    (∀ fs', addFilter (denote h r) inc a = .ok fs' →
        (addFilterAt h r inc a).2 = none ∧ denote (addFilterAt h r inc a).1 r = fs') := by
  unfold addFilterAt addFilter
  cases buildMatchers a with
  | error e => simp
  | ok ms =>
    simp only [denote]
    by_cases h1 : ms.isEmpty = true
    · simp only [h1, if_true]; simp
    · by_cases h2 : ((h.cells r.inc).contains ms || (h.cells r.exc).contains ms) = true
      · simp only [h1, h2, if_true, if_false, Bool.false_eq_true]; simp
      · have hne' : r.exc ≠ r.inc := Ne.symm hne
        cases inc
        · simp only [h1, h2, Bool.false_eq_true, if_false, Heap.write, upd]
          refine ⟨trivial, ?_, ?_, ?_⟩
          · intro x _ hx; simp [hx]
          · intro e he; cases he
          · intro fs' hfs
            cases hfs
            simp [hne]
        · simp only [h1, h2, Bool.false_eq_true, if_false, if_true, Heap.write, upd]
          refine ⟨trivial, ?_, ?_, ?_⟩
          · intro x hx _; simp [hx]
          · intro e he; cases he
          · intro fs' hfs
            cases hfs
            simp [hne']

/-- the body of `exclude(…, deprecated=…)` on an object refines `schemaExclude` on its value -/
theorem excludeAt_spec (h : Heap) (r : FSRef) (hne : r.inc ≠ r.exc) (a : FilterArgs) (d : Bool) :
    (excludeAt h r a d).1.next = h.next ∧
    (∀ x, x ≠ r.inc → x ≠ r.exc → (excludeAt h r a d).1.cells x = h.cells x) ∧
    (∀ e, schemaExclude (denote h r) a d = .error e → (excludeAt h r a d).2 = some e) ∧
    (∀ fs', schemaExclude (denote h r) a d = .ok fs' →
        (excludeAt h r a d).2 = none ∧ denote (excludeAt h r a d).1 r = fs') := by
  unfold excludeAt schemaExclude
  cases d
  · simp only [Bool.false_eq_true, if_false]
    obtain ⟨n, f, e, o⟩ := addFilterAt_spec h r hne false a
    exact ⟨n, f, fun e' he => (e e' he).1, o⟩
  · simp only [if_true]
    cases hf : a.func with
    | none =>
      simp only
      obtain ⟨n, f, e, o⟩ := addFilterAt_spec h r hne false { a with func := some .isDeprecated }
      exact ⟨n, f, fun e' he => (e e' he).1, o⟩
    | some g =>
      simp only
      obtain ⟨n1, f1, e1, o1⟩ := addFilterAt_spec h r hne false { FilterArgs.none with func := some .isDeprecated }
      cases h1 : addFilter (denote h r) false { FilterArgs.none with func := some .isDeprecated } with
      | error e =>
        obtain ⟨q1, q2⟩ := e1 e h1
        simp only [q1, q2]
        refine ⟨trivial, fun _ _ _ => trivial, ?_, ?_⟩
        · intro e' he'; cases he'; rfl
        · intro fs' hfs; cases hfs
      | ok fs1 =>
        obtain ⟨q1, q2⟩ := o1 fs1 h1
        simp only [q1]
        obtain ⟨n2, f2, e2, o2⟩ := addFilterAt_spec (addFilterAt h r false { FilterArgs.none with func := some .isDeprecated }).1
          r hne false a
        rw [q2] at e2 o2
        refine ⟨by rw [n2, n1], ?_, fun e' he => (e2 e' he).1, o2⟩
        intro x hx hx'
        rw [f2 x hx hx', f1 x hx hx']

/-- `include`/`exclude` of a schema: the parent's sets are untouched, the new object (if any) denotes what the
    value-level call returns from the parent's value, and it consists of sets allocated by this call -/
theorem deriveAt_spec (h : Heap) (p : FSRef) (hpe : p.exc < h.next) (c : Call) :
    Ext h (deriveAt h p c).1 ∧
    (∀ e, applyCall (denote h p) c = .error e → (deriveAt h p c).2 = .error e) ∧
    (∀ fs', applyCall (denote h p) c = .ok fs' →
      ∃ r, (deriveAt h p c).2 = .ok r ∧ FreshIn h (deriveAt h p c).1 r ∧ denote (deriveAt h p c).1 r = fs') := by
  obtain ⟨x, fr, d⟩ := fsClone_spec h p hpe
  have key : ∀ (res : Heap × Option Err),
      res.1.next = (fsClone h p).1.next →
      (∀ y, y ≠ (fsClone h p).2.inc → y ≠ (fsClone h p).2.exc → res.1.cells y = (fsClone h p).1.cells y) →
      Ext h res.1 := by
    intro res hn hf
    refine ⟨by rw [hn]; exact x.next_le, ?_⟩
    intro y hy
    rw [hf y (by have := fr.inc_ge; omega) (by have := fr.exc_ge; omega), x.same y hy]
  unfold deriveAt applyCall
  by_cases hi : c.isInclude = true
  · simp only [hi, if_true, schemaInclude]
    obtain ⟨n, f, e, o⟩ := addFilterAt_spec (fsClone h p).1 (fsClone h p).2 fr.ne true c.args
    rw [d] at e o
    refine ⟨?_, ?_, ?_⟩
    · have := key _ n f
      split <;> exact this
    · intro e' he
      simp only [(e e' he).1]
    · intro fs' hfs
      obtain ⟨q1, q2⟩ := o fs' hfs
      simp only [q1]
      exact ⟨_, rfl, ⟨fr.inc_ge, fr.exc_ge, by rw [n]; exact fr.inc_lt, by rw [n]; exact fr.exc_lt, fr.ne⟩, q2⟩
  · simp only [hi, Bool.false_eq_true, if_false]
    obtain ⟨n, f, e, o⟩ := excludeAt_spec (fsClone h p).1 (fsClone h p).2 fr.ne c.args c.deprecated
    rw [d] at e o
    refine ⟨?_, ?_, ?_⟩
    · have := key _ n f
      split <;> exact this
    · intro e' he
      simp only [e e' he]
    · intro fs' hfs
      obtain ⟨q1, q2⟩ := o fs' hfs
      simp only [q1]
      exact ⟨_, rfl, ⟨fr.inc_ge, fr.exc_ge, by rw [n]; exact fr.inc_lt, by rw [n]; exact fr.exc_lt, fr.ne⟩, q2⟩

/-- a run of in-place adds on one object refines `addEach` on its value -/
theorem addEachAt_spec (inc : Bool) (as : List FilterArgs) (h : Heap) (r : FSRef) (hne : r.inc ≠ r.exc) :
    (addEachAt inc h r as).1.next = h.next ∧
    (∀ x, x ≠ r.inc → x ≠ r.exc → (addEachAt inc h r as).1.cells x = h.cells x) ∧
    (∀ e, addEach inc (denote h r) as = .error e → (addEachAt inc h r as).2 = some e) ∧
    (∀ fs', addEach inc (denote h r) as = .ok fs' →
        (addEachAt inc h r as).2 = none ∧ denote (addEachAt inc h r as).1 r = fs') := by
  induction as generalizing h with
  | nil =>
    simp only [addEachAt, addEach]
    refine ⟨trivial, fun _ _ _ => trivial, ?_, ?_⟩
    · intro e he; cases he
    · intro fs' hfs; cases hfs; exact ⟨trivial, rfl⟩
  | cons a rest ih =>
    obtain ⟨n1, f1, e1, o1⟩ := addFilterAt_spec h r hne inc a
    simp only [addEachAt, addEach]
    cases h1 : addFilter (denote h r) inc a with
    | error e =>
      obtain ⟨q1, q2⟩ := e1 e h1
      simp only [q1, q2]
      refine ⟨trivial, fun _ _ _ => trivial, ?_, ?_⟩
      · intro e' he'; cases he'; rfl
      · intro fs' hfs; cases hfs
    | ok fs1 =>
      obtain ⟨q1, q2⟩ := o1 fs1 h1
      simp only [q1]
      obtain ⟨n2, f2, e2, o2⟩ := ih (addFilterAt h r inc a).1
      rw [q2] at e2 o2
      refine ⟨by rw [n2, n1], ?_, e2, o2⟩
      intro x hx hx'
      rw [f2 x hx hx', f1 x hx hx']

/-- `FilterArguments.into` builds its result in a `FilterSet` of its own: nothing else changes, and the object denotes
    what the value-level `cliInto` returns (same refusals) -/
theorem cliIntoAt_spec (h : Heap) (c : CliArgs) :
    Ext h (cliIntoAt h c).1 ∧
    (∀ e, cliInto c = .error e → (cliIntoAt h c).2 = .error e) ∧
    (∀ fs, cliInto c = .ok fs →
      ∃ r, (cliIntoAt h c).2 = .ok r ∧ FreshIn h (cliIntoAt h c).1 r ∧ denote (cliIntoAt h c).1 r = fs) := by
  unfold cliIntoAt cliInto
  split
  · refine ⟨Ext.refl h, ?_, ?_⟩
    · intro e he; cases he; rfl
    · intro fs hfs; cases hfs
  · obtain ⟨x, fr, d⟩ := fsNew_spec h
    obtain ⟨n1, f1, e1, o1⟩ := addEachAt_spec true (cliIncludeCalls c) (fsNew h).1 (fsNew h).2 fr.ne
    rw [d] at e1 o1
    have frame : ∀ (h' : Heap), h'.next = (fsNew h).1.next →
        (∀ y, y ≠ (fsNew h).2.inc → y ≠ (fsNew h).2.exc → h'.cells y = (fsNew h).1.cells y) → Ext h h' := by
      intro h' hn hf
      refine ⟨by rw [hn]; exact x.next_le, ?_⟩
      intro y hy
      rw [hf y (by have := fr.inc_ge; omega) (by have := fr.exc_ge; omega), x.same y hy]
    cases h1 : addEach true FilterSet.empty (cliIncludeCalls c) with
    | error e =>
      simp only [e1 e h1]
      refine ⟨frame _ n1 f1, ?_, ?_⟩
      · intro e' he'; cases he'; rfl
      · intro fs hfs; cases hfs
    | ok fs1 =>
      obtain ⟨q1, q2⟩ := o1 fs1 h1
      simp only [q1]
      obtain ⟨n2, f2, e2, o2⟩ := addEachAt_spec false (cliExcludeCalls c)
        (addEachAt true (fsNew h).1 (fsNew h).2 (cliIncludeCalls c)).1 (fsNew h).2 fr.ne
      rw [q2] at e2 o2
      have fr2 : Ext h (addEachAt false (addEachAt true (fsNew h).1 (fsNew h).2 (cliIncludeCalls c)).1 (fsNew h).2
          (cliExcludeCalls c)).1 := by
        apply frame _ (by rw [n2, n1])
        intro y hy hy'
        rw [f2 y hy hy', f1 y hy hy']
      cases h2 : addEach false fs1 (cliExcludeCalls c) with
      | error e =>
        simp only [e2 e h2]
        refine ⟨fr2, ?_, ?_⟩
        · intro e' he'; cases he'; rfl
        · intro fs hfs; cases hfs
      | ok fs2 =>
        obtain ⟨p1, p2⟩ := o2 fs2 h2
        simp only [p1]
        refine ⟨fr2, ?_, ?_⟩
        · intro e' he'; cases he'
        · intro fs hfs
          cases hfs
          exact ⟨_, rfl, ⟨fr.inc_ge, fr.exc_ge, by rw [n2, n1]; exact fr.inc_lt, by rw [n2, n1]; exact fr.exc_lt, fr.ne⟩, p2⟩

theorem cliInto_norm (c : CliArgs) (fs : FilterSet) (h : cliInto c = .ok fs) : FSNorm fs := by
  unfold cliInto at h
  split at h
  · cases h
  · cases h1 : addEach true FilterSet.empty (cliIncludeCalls c) with
    | error e => simp [h1] at h
    | ok fs1 =>
      simp only [h1] at h
      exact (addEach_meaning false _ _ _ (addEach_meaning true _ _ _ empty_norm h1).1 h).1

/-- the heap state of a history and the list of immutable values agree, and every object's sets are allocated -/
structure Refines (s : HState) (vals : List FilterSet) : Prop where
  vals_eq : s.values = vals
  bound : ∀ r ∈ s.objs, r.inc < s.heap.next ∧ r.exc < s.heap.next

theorem denote_ext {h h' : Heap} (x : Ext h h') (r : FSRef) (hi : r.inc < h.next) (he : r.exc < h.next) :
    denote h' r = denote h r := by
  simp only [denote, x.same r.inc hi, x.same r.exc he]

theorem values_ext {h h' : Heap} (x : Ext h h') (objs : List FSRef)
    (hb : ∀ r ∈ objs, r.inc < h.next ∧ r.exc < h.next) : objs.map (denote h') = objs.map (denote h) := by
  apply List.map_congr_left
  intro r hr
  exact denote_ext x r (hb r hr).1 (hb r hr).2

/-- appending one object whose value is `fs` -/
theorem refines_push {s : HState} {vals : List FilterSet} (R : Refines s vals) (h' : Heap) (x : Ext s.heap h')
    (r : FSRef) (fs : FilterSet) (hd : denote h' r = fs) (hi : r.inc < h'.next) (he : r.exc < h'.next) :
    Refines ⟨h', s.objs ++ [r]⟩ (vals ++ [fs]) := by
  constructor
  · simp only [HState.values, List.map_append, List.map_cons, List.map_nil, hd]
    rw [values_ext x s.objs R.bound]
    have := R.vals_eq
    simp only [HState.values] at this
    rw [this]
  · intro q hq
    simp only [List.mem_append, List.mem_singleton] at hq
    rcases hq with hq | hq
    · have := R.bound q hq
      have := x.next_le
      show q.inc < h'.next ∧ q.exc < h'.next
      constructor <;> omega
    · subst hq; exact ⟨hi, he⟩

/-- keeping the objects, extending the heap -/
theorem refines_keep {s : HState} {vals : List FilterSet} (R : Refines s vals) (h' : Heap) (x : Ext s.heap h') :
    Refines ⟨h', s.objs⟩ vals := by
  constructor
  · simp only [HState.values]
    rw [values_ext x s.objs R.bound]
    exact R.vals_eq
  · intro q hq
    have := R.bound q hq
    have := x.next_le
    show q.inc < h'.next ∧ q.exc < h'.next
    constructor <;> omega

theorem refines_get {s : HState} {vals : List FilterSet} (R : Refines s vals) (i : Nat) :
    vals[i]? = (s.objs[i]?).map (denote s.heap) := by
  rw [← R.vals_eq]
  simp [HState.values]

/-- one step of a history: the heap semantics does what the value semantics says, reports the same refusal, changes
    nothing that was allocated before, and keeps all existing objects -/
theorem hstep_refines (v : Variant) (s : HState) (vals : List FilterSet) (R : Refines s vals) (op : HOp) :
    Refines (hstep v s op).1 (vstep v vals op) ∧ (hstep v s op).2 = vstepErr vals op ∧
    Ext s.heap (hstep v s op).1.heap ∧ (∃ t, (hstep v s op).1.objs = s.objs ++ t) := by
  cases op with
  | derive p c =>
    simp only [hstep, vstep, vstepErr, refines_get R p]
    cases hp : s.objs[p]? with
    | none => exact ⟨R, by trivial, Ext.refl _, [], by simp⟩
    | some r =>
      have hr := R.bound r (List.mem_of_getElem? hp)
      obtain ⟨x, e, o⟩ := deriveAt_spec s.heap r hr.2 c
      simp only [Option.map_some]
      cases ha : applyCall (denote s.heap r) c with
      | error e' =>
        simp only [e e' ha]
        exact ⟨refines_keep R _ x, by trivial, x, [], by simp⟩
      | ok fs' =>
        obtain ⟨r', q1, q2, q3⟩ := o fs' ha
        simp only [q1]
        exact ⟨refines_push R _ x r' fs' q3 q2.inc_lt q2.exc_lt, by trivial, x, [r'], rfl⟩
  | share p =>
    simp only [hstep, vstep, vstepErr, refines_get R p]
    cases hp : s.objs[p]? with
    | none => exact ⟨R, by trivial, Ext.refl _, [], by simp⟩
    | some r =>
      have hr := R.bound r (List.mem_of_getElem? hp)
      simp only [Option.map_some]
      exact ⟨refines_push R _ (Ext.refl _) r _ rfl hr.1 hr.2, by trivial, Ext.refl _, [r], rfl⟩
  | resolve l f =>
    simp only [hstep, vstep, vstepErr, refines_get R l, refines_get R f]
    cases hl : s.objs[l]? with
    | none => exact ⟨R, by trivial, Ext.refl _, [], by simp⟩
    | some lz =>
      simp only [Option.map_some]
      cases hf : s.objs[f]? with
      | none => exact ⟨R, by trivial, Ext.refl _, [], by simp⟩
      | some fx =>
        simp only [Option.map_some]
        have hlz := R.bound lz (List.mem_of_getElem? hl)
        have hfx := R.bound fx (List.mem_of_getElem? hf)
        cases v with
        | asFound =>
          simp only [resolveAt, lazyFilterSet]
          exact ⟨refines_push R _ (Ext.refl _) lz _ rfl hlz.1 hlz.2, by trivial, Ext.refl _, [lz], rfl⟩
        | repaired =>
          simp only [resolveAt, lazyFilterSet]
          obtain ⟨x, fr, d⟩ := fsMerge_spec s.heap fx lz hfx.2 hlz.2
          exact ⟨refines_push R _ x _ _ d fr.inc_lt fr.exc_lt, by trivial, x, [_], rfl⟩

  | adopt c =>
    simp only [hstep, vstep, vstepErr]
    obtain ⟨x, e, o⟩ := cliIntoAt_spec s.heap c
    cases ha : cliInto c with
    | error e' =>
      simp only [e e' ha]
      exact ⟨refines_keep R _ x, by trivial, x, [], by simp⟩
    | ok fs' =>
      obtain ⟨r', q1, q2, q3⟩ := o fs' ha
      simp only [q1]
      exact ⟨refines_push R _ x r' fs' q3 q2.inc_lt q2.exc_lt, by trivial, x, [r'], rfl⟩

theorem roots_refines (n : Nat) : Refines (HState.roots n) (List.replicate n FilterSet.empty) := by
  induction n with
  | zero => exact ⟨rfl, by intro r hr; cases hr⟩
  | succ n ih =>
    obtain ⟨x, fr, d⟩ := fsNew_spec (HState.roots n).heap
    have := refines_push ih _ x _ _ d fr.inc_lt fr.exc_lt
    rw [List.replicate_succ']
    exact this

theorem hrun_refines (v : Variant) (ops : List HOp) (s : HState) (vals : List FilterSet) (R : Refines s vals) :
    Refines (hrun v s ops) (vrun v vals ops) := by
  induction ops generalizing s vals with
  | nil => exact R
  | cons op ops ih => exact ih _ _ (hstep_refines v s vals R op).1

theorem hrun_append (v : Variant) (s : HState) (ops ops' : List HOp) :
    hrun v s (ops ++ ops') = hrun v (hrun v s ops) ops' := by
  induction ops generalizing s with
  | nil => rfl
  | cons op ops ih => exact ih _

/-- later steps never touch what exists: the heap only grows and the object list only grows at the end -/
theorem hrun_frame (v : Variant) (ops : List HOp) (s : HState) (vals : List FilterSet) (R : Refines s vals) :
    Ext s.heap (hrun v s ops).heap ∧ ∃ t, (hrun v s ops).objs = s.objs ++ t := by
  induction ops generalizing s vals with
  | nil => exact ⟨Ext.refl _, [], by simp [hrun]⟩
  | cons op ops ih =>
    obtain ⟨R', _, x, t, ht⟩ := hstep_refines v s vals R op
    obtain ⟨x', t', ht'⟩ := ih _ _ R'
    refine ⟨Ext.trans x x', t ++ t', ?_⟩
    simp only [hrun]
    rw [ht', ht, List.append_assoc]

theorem vstep_prefix (v : Variant) (vals : List FilterSet) (op : HOp) : ∃ t, vstep v vals op = vals ++ t := by
  cases op with
  | derive p c =>
    simp only [vstep]
    cases vals[p]? with
    | none => exact ⟨[], by simp⟩
    | some fs =>
      simp only
      cases applyCall fs c with
      | error e => exact ⟨[], by simp⟩
      | ok fs' => exact ⟨[fs'], rfl⟩
  | share p =>
    simp only [vstep]
    cases vals[p]? with
    | none => exact ⟨[], by simp⟩
    | some fs => exact ⟨[fs], rfl⟩
  | resolve l f =>
    simp only [vstep]
    cases vals[l]? with
    | none => exact ⟨[], by simp⟩
    | some lz =>
      simp only
      cases vals[f]? with
      | none => exact ⟨[], by simp⟩
      | some fx => exact ⟨[_], rfl⟩

  | adopt c =>
    simp only [vstep]
    cases cliInto c with
    | error e => exact ⟨[], by simp⟩
    | ok fs => exact ⟨[fs], rfl⟩

theorem lazyFilterSet_norm (v : Variant) (fx lz : FilterSet) (hf : FSNorm fx) (hl : FSNorm lz) :
    FSNorm (lazyFilterSet v fx lz) := by
  cases v with
  | asFound => exact hl
  | repaired => exact ⟨union_norm _ _ hf.1 hl.1, union_norm _ _ hf.2 hl.2⟩

theorem vstep_norm (v : Variant) (vals : List FilterSet) (op : HOp) (hn : ∀ fs ∈ vals, FSNorm fs) :
    ∀ fs ∈ vstep v vals op, FSNorm fs := by
  have push : ∀ x, FSNorm x → ∀ fs ∈ vals ++ [x], FSNorm fs := by
    intro x hx fs hfs
    simp only [List.mem_append, List.mem_singleton] at hfs
    rcases hfs with h | h
    · exact hn fs h
    · exact h ▸ hx
  cases op with
  | derive p c =>
    simp only [vstep]
    cases hp : vals[p]? with
    | none => exact hn
    | some fs =>
      simp only
      cases ha : applyCall fs c with
      | error e => exact hn
      | ok fs' => exact push fs' (applyCall_norm fs fs' c (hn fs (List.mem_of_getElem? hp)) ha)
  | share p =>
    simp only [vstep]
    cases hp : vals[p]? with
    | none => exact hn
    | some fs => exact push fs (hn fs (List.mem_of_getElem? hp))
  | resolve l f =>
    simp only [vstep]
    cases hl : vals[l]? with
    | none => exact hn
    | some lz =>
      simp only
      cases hf : vals[f]? with
      | none => exact hn
      | some fx =>
        exact push _ (lazyFilterSet_norm v fx lz (hn fx (List.mem_of_getElem? hf)) (hn lz (List.mem_of_getElem? hl)))

  | adopt c =>
    simp only [vstep]
    cases ha : cliInto c with
    | error e => exact hn
    | ok fs => exact push fs (cliInto_norm c fs ha)

theorem vrun_norm (v : Variant) (ops : List HOp) (vals : List FilterSet) (hn : ∀ fs ∈ vals, FSNorm fs) :
    ∀ fs ∈ vrun v vals ops, FSNorm fs := by
  induction ops generalizing vals with
  | nil => exact hn
  | cons op ops ih => exact ih _ (vstep_norm v vals op hn)

theorem replicate_empty_norm (n : Nat) : ∀ fs ∈ List.replicate n FilterSet.empty, FSNorm fs := by
  intro fs hfs
  rw [(List.mem_replicate.1 hfs).2]
  exact empty_norm

/-! ### witness data for the history theorems -/

def tagArgs (t : String) : FilterArgs := { FilterArgs.none with tag := ⟨some (.one t.toList), none⟩ }

/-- `public = schema.include(tag="public")`, `staff = public.include(tag="admin")`, `safe = schema.exclude(tag="internal")`,
    a lazy object resolved against `public`, a clone, a refused repeat, a command-line run -/
def demoHistory : List HOp :=
  [.derive 0 ⟨true, false, tagArgs "public"⟩, .derive 2 ⟨true, false, tagArgs "admin"⟩,
   .derive 0 ⟨false, false, tagArgs "internal"⟩, .derive 1 ⟨false, true, FilterArgs.none⟩, .resolve 5 2, .share 2,
   .derive 2 ⟨true, false, tagArgs "public"⟩, .adopt cliExample]

def tagFilter (t : String) : Filter := [.value .tag (.one t.toList)]

end SV.Proofs.C07
