/-
  Helper lemmas for C08 (not property statements).
-/
import SV.Spec.C08

namespace SV.Proofs.C08
open SV.Model.C08 SV.Spec.C08

/-! ### `add_parameter` distributes the collected parameters by location -/

theorem addParam_fields (o : Operation) (p : Param) :
    (addParam o p).path = o.path ∧ (addParam o p).method = o.method ∧ (addParam o p).body = o.body := by
  unfold addParam
  cases p.loc with
  | none => simp
  | some l =>
    by_cases h1 : l = "path" <;> by_cases h2 : l = "header" <;> by_cases h3 : l = "cookie" <;>
      by_cases h4 : l = "query" <;> simp [h1, h2, h3, h4]

theorem addParam_containers (o : Operation) (p : Param) :
    (addParam o p).pathParams = o.pathParams ++ inLoc "path" [p] ∧
    (addParam o p).headers = o.headers ++ inLoc "header" [p] ∧
    (addParam o p).cookies = o.cookies ++ inLoc "cookie" [p] ∧
    (addParam o p).query = o.query ++ inLoc "query" [p] := by
  unfold addParam inLoc
  cases hl : p.loc with
  | none => simp [hl]
  | some l =>
    by_cases h1 : l = "path"
    · subst h1; simp [hl]
    · by_cases h2 : l = "header"
      · subst h2; simp [hl]
      · by_cases h3 : l = "cookie"
        · subst h3; simp [hl]
        · by_cases h4 : l = "query"
          · subst h4; simp [hl]
          · simp [hl, h1, h2, h3, h4]

theorem foldl_addParam (ps : List Param) (o : Operation) :
    (ps.foldl addParam o).pathParams = o.pathParams ++ inLoc "path" ps ∧
    (ps.foldl addParam o).headers = o.headers ++ inLoc "header" ps ∧
    (ps.foldl addParam o).cookies = o.cookies ++ inLoc "cookie" ps ∧
    (ps.foldl addParam o).query = o.query ++ inLoc "query" ps ∧
    (ps.foldl addParam o).path = o.path ∧ (ps.foldl addParam o).method = o.method ∧
    (ps.foldl addParam o).body = o.body := by
  induction ps generalizing o with
  | nil => simp [inLoc]
  | cons p ps ih =>
    obtain ⟨a1, a2, a3, a4⟩ := addParam_containers o p
    obtain ⟨b1, b2, b3⟩ := addParam_fields o p
    obtain ⟨i1, i2, i3, i4, i5, i6, i7⟩ := ih (addParam o p)
    simp only [List.foldl_cons]
    refine ⟨?_, ?_, ?_, ?_, ?_, ?_, ?_⟩
    · rw [i1, a1]; simp [inLoc, List.filter_cons]; split <;> simp
    · rw [i2, a2]; simp [inLoc, List.filter_cons]; split <;> simp
    · rw [i3, a3]; simp [inLoc, List.filter_cons]; split <;> simp
    · rw [i4, a4]; simp [inLoc, List.filter_cons]; split <;> simp
    · rw [i5, b1]
    · rw [i6, b2]
    · rw [i7, b3]

theorem foldl_addParam_empty (ps : List Param) (path method : String) :
    (ps.foldl addParam (emptyOp path method)).pathParams = inLoc "path" ps ∧
    (ps.foldl addParam (emptyOp path method)).headers = inLoc "header" ps ∧
    (ps.foldl addParam (emptyOp path method)).cookies = inLoc "cookie" ps ∧
    (ps.foldl addParam (emptyOp path method)).query = inLoc "query" ps ∧
    (ps.foldl addParam (emptyOp path method)).path = path ∧
    (ps.foldl addParam (emptyOp path method)).method = method := by
  obtain ⟨f1, f2, f3, f4, f5, f6, _⟩ := foldl_addParam ps (emptyOp path method)
  refine ⟨?_, ?_, ?_, ?_, ?_, ?_⟩
  · rw [f1]; simp [emptyOp]
  · rw [f2]; simp [emptyOp]
  · rw [f3]; simp [emptyOp]
  · rw [f4]; simp [emptyOp]
  · rw [f5]; simp [emptyOp]
  · rw [f6]; simp [emptyOp]

/-- a successful `collect_parameters` returns the definitions unchanged, in order -/
theorem collectParams_ok (ps qs : List Param) (h : collectParams (ps.map .param) = .ok qs) : qs = ps := by
  induction ps generalizing qs with
  | nil => simp [collectParams] at h; exact h
  | cons p ps ih =>
    simp only [List.map_cons, collectParams] at h
    split at h
    · cases h
    · split at h
      · cases h
      · split at h
        · cases h
        · rename_i rs hrs
          cases h
          rw [ih rs hrs]

/-! ### distinct keys -/

theorem filter_own (a s : List Param) (ha : ∀ p ∈ a, p.tag ≠ 0) (hs : ∀ p ∈ s, p.tag = 0) :
    (a ++ s).filter (fun p => p.tag ≠ 0) = a := by
  rw [List.filter_append]
  have h1 : a.filter (fun p => p.tag ≠ 0) = a := by
    apply List.filter_eq_self.mpr
    intro p hp; simpa using ha p hp
  have h2 : s.filter (fun p => p.tag ≠ 0) = [] := by
    apply List.filter_eq_nil_iff.mpr
    intro p hp; simp [hs p hp]
  rw [h1, h2, List.append_nil]

theorem mem_effective (op shared : List Param) (p : Param) (h : p ∈ effective op shared) : p ∈ op ++ shared := by
  simp only [effective, List.mem_append, List.mem_filter] at h ⊢
  rcases h with h | h
  · exact Or.inl h
  · exact Or.inr h.1

/-- among parameters with pairwise distinct (name, location), the ones named `n` in location `l` are one -/
theorem distinct_unique (L : List Param) (hd : distinctKeys L = true) (q : Param) (hq : q ∈ L) (n l : String)
    (hn : q.name = some n) (hl : q.loc = some l) :
    (inLoc l L).filter (fun p => p.name = some n) = [q] := by
  induction L with
  | nil => cases hq
  | cons p rest ih =>
    simp only [distinctKeys, Bool.and_eq_true, Bool.not_eq_true', List.any_eq_false] at hd
    obtain ⟨hp, hrest⟩ := hd
    have hnone : ∀ r ∈ rest, overrides p r = true → False := fun r hr h => by simpa [h] using hp r hr
    by_cases hpq : p = q
    · subst hpq
      have : (inLoc l rest).filter (fun r => r.name = some n) = [] := by
        apply List.filter_eq_nil_iff.mpr
        intro r hr
        simp only [inLoc, List.mem_filter, decide_eq_true_eq] at hr
        intro hrn
        simp only [decide_eq_true_eq] at hrn
        exact hnone r hr.1 (by simp [overrides, hn, hl, hrn, hr.2])
      simp [inLoc, List.filter_cons, hl, hn] at this ⊢
      exact this
    · have hq' : q ∈ rest := by
        rcases List.mem_cons.mp hq with h | h
        · exact absurd h.symm hpq
        · exact h
      have hskip : ¬ (p.loc = some l ∧ p.name = some n) := by
        intro ⟨h1, h2⟩
        exact hnone q hq' (by simp [overrides, hn, hl, h1, h2])
      have := ih hrest hq'
      simp only [inLoc, List.filter_cons] at this ⊢
      by_cases h1 : p.loc = some l
      · have h2 : ¬ p.name = some n := fun h => hskip ⟨h1, h⟩
        simp [h1, h2, List.filter_cons]
        simpa using this
      · simp [h1]
        simpa using this

theorem distinct_append (A B : List Param) (hA : distinctKeys A = true) (hB : distinctKeys B = true)
    (hx : ∀ a ∈ A, ∀ b ∈ B, overrides a b = false) : distinctKeys (A ++ B) = true := by
  induction A with
  | nil => simpa using hB
  | cons a rest ih =>
    simp only [distinctKeys, Bool.and_eq_true, Bool.not_eq_true', List.any_eq_false] at hA
    simp only [List.cons_append, distinctKeys, Bool.and_eq_true, Bool.not_eq_true', List.any_eq_false,
      List.mem_append]
    refine ⟨?_, ih hA.2 (fun x hx' b hb => hx x (List.mem_cons_of_mem _ hx') b hb)⟩
    intro r hr
    rcases hr with h | h
    · exact hA.1 r h
    · simpa using hx a (List.mem_cons_self) r h

theorem distinct_filter (f : Param → Bool) (B : List Param) (hB : distinctKeys B = true) :
    distinctKeys (B.filter f) = true := by
  induction B with
  | nil => simp [distinctKeys]
  | cons b rest ih =>
    simp only [distinctKeys, Bool.and_eq_true, Bool.not_eq_true', List.any_eq_false] at hB
    simp only [List.filter_cons]
    split
    · simp only [distinctKeys, Bool.and_eq_true, Bool.not_eq_true', List.any_eq_false]
      exact ⟨fun r hr => hB.1 r (List.mem_filter.mp hr).1, ih hB.2⟩
    · exact ih hB.2

theorem distinct_effective (op shared : List Param) (h1 : distinctKeys op = true) (h2 : distinctKeys shared = true) :
    distinctKeys (effective op shared) = true := by
  unfold effective
  apply distinct_append _ _ h1 (distinct_filter _ _ h2)
  intro a ha b hb
  simp only [List.mem_filter, Bool.not_eq_true', List.any_eq_false] at hb
  simpa using hb.2 a ha

/-! ### security parameters are only appended, and carry tag 0 -/

/-- `o'` is `o` with tag-0 parameters appended to its containers -/
def SecExt (o o' : Operation) : Prop :=
  o'.path = o.path ∧ o'.method = o.method ∧ o'.body = o.body ∧
  (∃ s, o'.pathParams = o.pathParams ++ s ∧ ∀ p ∈ s, p.tag = 0) ∧
  (∃ s, o'.headers = o.headers ++ s ∧ ∀ p ∈ s, p.tag = 0) ∧
  (∃ s, o'.cookies = o.cookies ++ s ∧ ∀ p ∈ s, p.tag = 0) ∧
  (∃ s, o'.query = o.query ++ s ∧ ∀ p ∈ s, p.tag = 0)

theorem SecExt.refl (o : Operation) : SecExt o o :=
  ⟨rfl, rfl, rfl, ⟨[], by simp⟩, ⟨[], by simp⟩, ⟨[], by simp⟩, ⟨[], by simp⟩⟩

theorem SecExt.trans {a b c : Operation} (h1 : SecExt a b) (h2 : SecExt b c) : SecExt a c := by
  obtain ⟨p1, m1, b1, ⟨s1, e1, t1⟩, ⟨s2, e2, t2⟩, ⟨s3, e3, t3⟩, ⟨s4, e4, t4⟩⟩ := h1
  obtain ⟨p2, m2, b2, ⟨u1, f1, v1⟩, ⟨u2, f2, v2⟩, ⟨u3, f3, v3⟩, ⟨u4, f4, v4⟩⟩ := h2
  refine ⟨p2.trans p1, m2.trans m1, b2.trans b1, ⟨s1 ++ u1, ?_, ?_⟩, ⟨s2 ++ u2, ?_, ?_⟩, ⟨s3 ++ u3, ?_, ?_⟩,
    ⟨s4 ++ u4, ?_, ?_⟩⟩
  · rw [f1, e1, List.append_assoc]
  · intro p hp; rcases List.mem_append.mp hp with h | h <;> first | exact t1 p h | exact v1 p h
  · rw [f2, e2, List.append_assoc]
  · intro p hp; rcases List.mem_append.mp hp with h | h <;> first | exact t2 p h | exact v2 p h
  · rw [f3, e3, List.append_assoc]
  · intro p hp; rcases List.mem_append.mp hp with h | h <;> first | exact t3 p h | exact v3 p h
  · rw [f4, e4, List.append_assoc]
  · intro p hp; rcases List.mem_append.mp hp with h | h <;> first | exact t4 p h | exact v4 p h

theorem SecExt.addParam (o : Operation) (p : Param) (ht : p.tag = 0) : SecExt o (addParam o p) := by
  obtain ⟨a1, a2, a3, a4⟩ := addParam_containers o p
  obtain ⟨b1, b2, b3⟩ := addParam_fields o p
  have hm : ∀ l, ∀ q ∈ inLoc l [p], q.tag = 0 := by
    intro l q hq
    simp only [inLoc, List.mem_filter, List.mem_singleton] at hq
    rw [hq.1]; exact ht
  exact ⟨b1, b2, b3, ⟨_, a1, hm _⟩, ⟨_, a2, hm _⟩, ⟨_, a3, hm _⟩, ⟨_, a4, hm _⟩⟩

theorem schemeParam_ext (o o' : Operation) (s : SecScheme) (h : schemeParam o s = .ok o') : SecExt o o' := by
  unfold schemeParam at h
  split at h
  · cases h
  · split at h
    · split at h
      · cases h; exact SecExt.addParam _ _ rfl
      · cases h
    · split at h
      · cases h; exact SecExt.addParam _ _ rfl
      · cases h; exact SecExt.refl _

theorem processScheme_ext (o o' : Operation) (s : SecScheme) (h : processScheme o s = .ok o') : SecExt o o' := by
  unfold processScheme at h
  split at h
  · cases h
  · cases h; exact SecExt.refl _
  · exact schemeParam_ext _ _ _ h

theorem processSchemes_ext (reqs : List String) (ss : List SecScheme) (o o' : Operation)
    (h : processSchemes reqs o ss = .ok o') : SecExt o o' := by
  induction ss generalizing o with
  | nil => simp [processSchemes] at h; subst h; exact SecExt.refl _
  | cons s rest ih =>
    simp only [processSchemes] at h
    split at h
    · split at h
      · cases h
      · rename_i o1 h1
        exact SecExt.trans (processScheme_ext _ _ _ h1) (ih _ h)
    · exact ih _ h

/-! ### get_all_operations: labels -/

theorem buildOp_path_method (cfg : Cfg) (d : Doc) (p m : String) (od : OpDef) (op sh : List REntry) (o : Operation)
    (h : buildOp cfg d p m od op sh = .ok o) : o.path = p ∧ o.method = m := by
  unfold buildOp at h
  split at h
  · cases h
  · split at h
    · cases h
    · rename_i ps _ _ _ _
      obtain ⟨e1, e2, _⟩ := processSchemes_ext _ _ _ _ h
      obtain ⟨_, _, _, _, f5, f6⟩ := foldl_addParam_empty ps p m
      exact ⟨by rw [e1]; exact f5, by rw [e2]; exact f6⟩

theorem label_err (p : String) (m : Option String) (e : Err) : label (.err p m e) = (p, m) := rfl
theorem label_ok (o : Operation) : label (.ok o) = (o.path, some o.method) := rfl

theorem itemResults_labels' (cfg : Cfg) (d : Doc) (p : String) (scope : Scope)
    (shared : List REntry) (entries : List (String × OpDef))
    (h : (itemResults cfg d p scope shared entries).2 = none) :
    (itemResults cfg d p scope shared entries).1.map label =
      (entries.filter fun e => httpMethods.contains e.1).map fun e => (p, some e.1) := by
  induction entries with
  | nil => simp [itemResults]
  | cons e rest ih =>
    obtain ⟨m, od⟩ := e
    simp only [itemResults] at h ⊢
    by_cases hm : httpMethods.contains m = true
    · simp only [hm, if_true, List.filter_cons, List.map_cons] at h ⊢
      cases hr : opResult cfg d p scope shared m od with
      | ok o =>
        have hpm : o.path = p ∧ o.method = m := by
          unfold opResult at hr
          split at hr
          · cases hr
          · exact buildOp_path_method _ _ _ _ _ _ _ _ hr
        simp only [hr] at h ⊢
        simp [ih h, label_ok, hpm.1, hpm.2]
      | error e =>
        simp only [hr] at h ⊢
        by_cases hc : e = Err.type ∧ cfg.typeErr = Variant.asFound
        · simp [hc] at h
        · simp only [hc, if_false] at h ⊢
          simp [ih h, label_err]
    · simp only [hm, Bool.false_eq_true, if_false, List.filter_cons] at h ⊢
      exact ih h


theorem itemResults_noraise (cfg : Cfg) (ht : cfg.typeErr = .repaired) (d : Doc) (p : String) (scope : Scope)
    (shared : List REntry) (entries : List (String × OpDef)) :
    (itemResults cfg d p scope shared entries).2 = none := by
  induction entries with
  | nil => simp [itemResults]
  | cons e rest ih =>
    obtain ⟨m, od⟩ := e
    simp only [itemResults]
    split
    · split
      · exact ih
      · rename_i e he
        have : ¬ (e = Err.type ∧ cfg.typeErr = Variant.asFound) := by
          intro ⟨_, h⟩; rw [ht] at h; cases h
        simp [this, ih]
    · exact ih

theorem iterPaths_labels' (cfg : Cfg) (d : Doc) (paths : List (String × PathEntry))
    (h : (iterPaths cfg d paths).2 = none) :
    (iterPaths cfg d paths).1.map (fun ev => label ev.1) = paths.flatMap fun x => documentedItem d x.1 x.2 := by
  induction paths with
  | nil => simp [iterPaths]
  | cons x rest ih =>
    obtain ⟨p, pe⟩ := x
    simp only [iterPaths, List.flatMap_cons] at h ⊢
    cases hres : resolvePathItem d base pe with
    | error e =>
      have hd : documentedItem d p pe = [(p, none)] := by simp [documentedItem, hres]
      simp only [hres] at h ⊢
      simp [ih h, label_err, hd]
    | ok si =>
      obtain ⟨scope, item⟩ := si
      simp only [hres] at h ⊢
      cases hsh : resolveEntries d scope item.shared with
      | error e =>
        have hd : documentedItem d p pe = [(p, none)] := by simp [documentedItem, hres, hsh]
        simp only [hsh] at h ⊢
        simp [ih h, label_err, hd]
      | ok shared =>
        have hd : documentedItem d p pe =
            (item.entries.filter fun e => httpMethods.contains e.1).map fun e => (p, some e.1) := by
          simp [documentedItem, hres, hsh]
        simp only [hsh] at h ⊢
        cases hraised : (itemResults cfg d p scope shared item.entries).2 with
        | some e =>
          cases hv : cfg.suspend <;> simp [hraised, hv] at h
        | none =>
          have h2 := itemResults_labels' cfg d p scope shared item.entries hraised
          rw [hd, ← h2]
          cases hv : cfg.suspend <;> simp only [hraised, hv] at h ⊢ <;>
            simp [ih h, List.map_map, Function.comp_def]

theorem iterPaths_noraise (cfg : Cfg) (ht : cfg.typeErr = .repaired) (d : Doc) (paths : List (String × PathEntry)) :
    (iterPaths cfg d paths).2 = none := by
  induction paths with
  | nil => simp [iterPaths]
  | cons x rest ih =>
    obtain ⟨p, pe⟩ := x
    simp only [iterPaths]
    split
    · exact ih
    · split
      · exact ih
      · rename_i scope item _ _ shared _
        have := itemResults_noraise cfg ht d p scope shared item.entries
        cases hv : cfg.suspend <;> simp [this, ih]

end SV.Proofs.C08
