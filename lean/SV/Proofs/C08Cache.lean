/-
  Helper lemmas for the look-up theorems of C08: association lists, the operationId table, the cache invariant.
-/
import SV.Proofs.C08

namespace SV.Proofs.C08
open SV.Model.C08 SV.Spec.C08

/-! ### association lists -/

theorem assoc_cons_self {α β : Type} [DecidableEq α] (k : α) (v : β) (l : List (α × β)) :
    assoc k ((k, v) :: l) = some v := by simp [assoc]

theorem assoc_cons_ne {α β : Type} [DecidableEq α] (k k' : α) (v : β) (l : List (α × β)) (h : k ≠ k') :
    assoc k ((k', v) :: l) = assoc k l := by simp [assoc, h]

theorem mem_of_assoc {α β : Type} [DecidableEq α] (k : α) (v : β) (l : List (α × β)) (h : assoc k l = some v) :
    (k, v) ∈ l := by
  induction l with
  | nil => simp [assoc] at h
  | cons x rest ih =>
    obtain ⟨k', v'⟩ := x
    by_cases hk : k = k'
    · subst hk; simp [assoc] at h; subst h; exact List.mem_cons_self
    · rw [assoc_cons_ne _ _ _ _ hk] at h; exact List.mem_cons_of_mem _ (ih h)

theorem assoc_none_of_not_mem {α β : Type} [DecidableEq α] (k : α) (l : List (α × β)) (h : ∀ v, (k, v) ∉ l) :
    assoc k l = none := by
  cases hc : assoc k l with
  | none => rfl
  | some v => exact absurd (mem_of_assoc _ _ _ hc) (h v)

theorem assoc_of_mem_nodup {α β : Type} [DecidableEq α] (k : α) (v : β) (l : List (α × β))
    (hn : nodupKeys l = true) (h : (k, v) ∈ l) : assoc k l = some v := by
  induction l with
  | nil => cases h
  | cons x rest ih =>
    obtain ⟨k', v'⟩ := x
    simp only [nodupKeys, Bool.and_eq_true, Option.isNone_iff_eq_none] at hn
    rcases List.mem_cons.mp h with h1 | h1
    · cases h1; exact assoc_cons_self _ _ _
    · by_cases hk : k = k'
      · subst hk
        rw [ih hn.2 h1] at hn
        cases hn.1
      · rw [assoc_cons_ne _ _ _ _ hk]; exact ih hn.2 h1

theorem nodupKeys_append_left {α β : Type} [DecidableEq α] (a b : List (α × β)) (h : nodupKeys (a ++ b) = true) :
    nodupKeys a = true := by
  induction a with
  | nil => rfl
  | cons x rest ih =>
    obtain ⟨k, v⟩ := x
    simp only [List.cons_append, nodupKeys, Bool.and_eq_true, Option.isNone_iff_eq_none] at h ⊢
    refine ⟨?_, ih h.2⟩
    apply assoc_none_of_not_mem
    intro v' hv
    have := assoc_of_mem_nodup k v' (rest ++ b) h.2 (List.mem_append_left _ hv)
    rw [h.1] at this; cases this

/-! ### the operationId table -/

theorem populate_acc (cfg : Cfg) (d : Doc) (top : Scope) (paths : List (String × PathEntry)) (acc : List (String × IdE)) :
    populate cfg d top paths acc =
      ((populate cfg d top paths []).1 ++ acc, (populate cfg d top paths []).2) := by
  induction paths generalizing acc with
  | nil => simp [populate]
  | cons x rest ih =>
    obtain ⟨p, pe⟩ := x
    simp only [populate]
    split
    · cases cfg.populate
      · simp
      · simp only []; rw [ih acc]
    · rename_i s it _
      rw [ih (idDefsOf p s it it.entries ++ acc), ih (idDefsOf p s it it.entries ++ [])]
      simp

theorem mem_idDefsOf (p : String) (s : Scope) (it : PathItem) (es : List (String × OpDef)) (i : String) (en : IdE) :
    (i, en) ∈ idDefsOf p s it es ↔
      ∃ m od, (m, od) ∈ es ∧ httpMethods.contains m = true ∧ od.opId = some i ∧ en = ⟨p, m, s, it, od⟩ := by
  induction es with
  | nil => simp [idDefsOf]
  | cons x rest ih =>
    obtain ⟨m, od⟩ := x
    simp only [idDefsOf]
    by_cases hm : httpMethods.contains m = true
    · simp only [hm, if_true]
      cases hid : od.opId with
      | none =>
        simp only [ih]
        constructor
        · rintro ⟨m', od', h1, h2, h3, h4⟩
          exact ⟨m', od', List.mem_cons_of_mem _ h1, h2, h3, h4⟩
        · rintro ⟨m', od', h1, h2, h3, h4⟩
          rcases List.mem_cons.mp h1 with h | h
          · cases h; rw [hid] at h3; cases h3
          · exact ⟨m', od', h, h2, h3, h4⟩
      | some j =>
        simp only [List.mem_append, ih, List.mem_singleton, Prod.mk.injEq]
        constructor
        · rintro (⟨m', od', h1, h2, h3, h4⟩ | ⟨h1, h2⟩)
          · exact ⟨m', od', List.mem_cons_of_mem _ h1, h2, h3, h4⟩
          · exact ⟨m, od, List.mem_cons_self, hm, by rw [hid, h1], h2⟩
        · rintro ⟨m', od', h1, h2, h3, h4⟩
          rcases List.mem_cons.mp h1 with h | h
          · cases h; right; rw [hid] at h3; cases h3; exact ⟨rfl, h4⟩
          · left; exact ⟨m', od', h, h2, h3, h4⟩
    · simp only [hm, Bool.false_eq_true, if_false, ih]
      constructor
      · rintro ⟨m', od', h1, h2, h3, h4⟩
        exact ⟨m', od', List.mem_cons_of_mem _ h1, h2, h3, h4⟩
      · rintro ⟨m', od', h1, h2, h3, h4⟩
        rcases List.mem_cons.mp h1 with h | h
        · cases h; exact absurd h2 hm
        · exact ⟨m', od', h, h2, h3, h4⟩

theorem mem_populate (cfg : Cfg) (d : Doc) (top : Scope) (paths : List (String × PathEntry))
    (hok : (populate cfg d top paths []).2 = none) (i : String) (en : IdE) :
    (i, en) ∈ (populate cfg d top paths []).1 ↔
      ∃ p pe s it, (p, pe) ∈ paths ∧ resolvePathItem d top pe = .ok (s, it) ∧ (i, en) ∈ idDefsOf p s it it.entries := by
  induction paths with
  | nil => simp [populate]
  | cons x rest ih =>
    obtain ⟨p, pe⟩ := x
    simp only [populate] at hok ⊢
    cases hres : resolvePathItem d top pe with
    | error e =>
      simp only [hres] at hok ⊢
      cases hv : cfg.populate with
      | asFound => simp [hv] at hok
      | repaired =>
        simp only [hv] at hok ⊢
        rw [ih hok]
        constructor
        · rintro ⟨p', pe', s, it, h1, h2, h3⟩
          exact ⟨p', pe', s, it, List.mem_cons_of_mem _ h1, h2, h3⟩
        · rintro ⟨p', pe', s, it, h1, h2, h3⟩
          rcases List.mem_cons.mp h1 with h | h
          · cases h; rw [hres] at h2; cases h2
          · exact ⟨p', pe', s, it, h, h2, h3⟩
    | ok si =>
      obtain ⟨s, it⟩ := si
      simp only [hres] at hok ⊢
      rw [populate_acc] at hok ⊢
      simp only [List.append_nil] at hok ⊢
      rw [List.mem_append, ih hok]
      constructor
      · rintro (⟨p', pe', s', it', h1, h2, h3⟩ | h)
        · exact ⟨p', pe', s', it', List.mem_cons_of_mem _ h1, h2, h3⟩
        · exact ⟨p, pe, s, it, List.mem_cons_self, hres, h⟩
      · rintro ⟨p', pe', s', it', h1, h2, h3⟩
        rcases List.mem_cons.mp h1 with h | h
        · cases h; rw [hres] at h2; cases h2; exact Or.inr h3
        · exact Or.inl ⟨p', pe', s', it', h, h2, h3⟩

theorem wf_paths (d : Doc) (h : wfDoc d = true) : nodupKeys d.paths = true := by
  simp only [wfDoc, Bool.and_eq_true] at h; exact h.1

theorem wf_item (d : Doc) (h : wfDoc d = true) (p : String) (pe : PathEntry) (hp : (p, pe) ∈ d.paths)
    (s : Scope) (it : PathItem) (hr : resolvePathItem d base pe = .ok (s, it)) : nodupKeys it.entries = true := by
  simp only [wfDoc, Bool.and_eq_true, List.all_eq_true] at h
  have := h.2 (p, pe) hp
  simp only [hr, wfItem] at this
  exact this

theorem itemOf_iff (d : Doc) (p : String) (me : MapE) :
    itemOf d p = .ok me ↔ ∃ pe, assoc p d.paths = some pe ∧ resolvePathItem d base pe = .ok (me.scope, me.item) := by
  unfold itemOf
  cases hp : assoc p d.paths with
  | none => simp
  | some pe =>
    cases hr : resolvePathItem d base pe with
    | error e => simp [hr]
    | ok si =>
      obtain ⟨s, it⟩ := si
      obtain ⟨s', it'⟩ := me
      simp [hr]

/-- a documented operation with an operationId is found in the table under that id -/
theorem assoc_allDefs (cfg : Cfg) (d : Doc) (hu : uniqueIds cfg d = true)
    (hp : populateOk cfg d = true) (p m i : String) (me : MapE) (od : OpDef)
    (h1 : itemOf d p = .ok me) (h2 : assoc m me.item.entries = some od) (h3 : httpMethods.contains m = true)
    (h4 : od.opId = some i) :
    assoc i (allDefs cfg d) = some ⟨p, m, me.scope, me.item, od⟩ := by
  obtain ⟨pe, ha, hr⟩ := (itemOf_iff d p me).mp h1
  have hok : (populate cfg d base d.paths []).2 = none := by
    simpa [populateOk, Option.isNone_iff_eq_none] using hp
  apply assoc_of_mem_nodup _ _ _ hu
  unfold allDefs
  rw [mem_populate cfg d base d.paths hok]
  refine ⟨p, pe, me.scope, me.item, mem_of_assoc _ _ _ ha, hr, ?_⟩
  rw [mem_idDefsOf]
  exact ⟨m, od, mem_of_assoc _ _ _ h2, h3, h4, rfl⟩

/-- every entry of the table is a documented operation carrying that id -/
theorem allDefs_sound (cfg : Cfg) (d : Doc) (hwf : wfDoc d = true) (hp : populateOk cfg d = true)
    (i : String) (en : IdE) (h : assoc i (allDefs cfg d) = some en) :
    itemOf d en.path = .ok ⟨en.scope, en.item⟩ ∧ assoc en.method en.item.entries = some en.op ∧
    httpMethods.contains en.method = true ∧ en.op.opId = some i := by
  have hok : (populate cfg d base d.paths []).2 = none := by
    simpa [populateOk, Option.isNone_iff_eq_none] using hp
  have hm := mem_of_assoc _ _ _ h
  unfold allDefs at hm
  rw [mem_populate cfg d base d.paths hok] at hm
  obtain ⟨p, pe, s, it, hpp, hr, hd⟩ := hm
  rw [mem_idDefsOf] at hd
  obtain ⟨m, od, hmo, hh, hid, rfl⟩ := hd
  refine ⟨?_, ?_, hh, hid⟩
  · rw [itemOf_iff]
    exact ⟨pe, assoc_of_mem_nodup _ _ _ (wf_paths d hwf) hpp, hr⟩
  · exact assoc_of_mem_nodup _ _ _ (wf_item d hwf p pe hpp s it hr) hmo

/-! ### the cache invariant -/

/-- the cache is consistent with the document (all look-ups made from the root scope) -/
structure Inv (cfg : Cfg) (d : Doc) (c : Cache) : Prop where
  key : ∀ k idx, assoc k c.byKey = some idx →
    ∃ o, c.ops[idx]? = some o ∧ abstractOp cfg d k.path k.method = .ok o ∧
      ∃ me, itemOf d k.path = .ok me ∧ me.scope = k.scope
  id : ∀ i idx, assoc i c.byId = some idx →
    ∃ k, assoc k c.byKey = some idx ∧ idAnswer cfg d i = abstractOp cfg d k.path k.method
  ref : ∀ r idx, assoc r c.byRef = some idx →
    ∃ k, assoc k c.byKey = some idx ∧ refAnswer cfg d r = abstractOp cfg d k.path k.method
  maps : ∀ p me, assoc p c.maps = some me → itemOf d p = .ok me
  defs : c.idDefs = [] ∨ c.idDefs = allDefs cfg d

theorem Inv.empty (cfg : Cfg) (d : Doc) : Inv cfg d Cache.empty :=
  ⟨by simp [Cache.empty, assoc], by simp [Cache.empty, assoc], by simp [Cache.empty, assoc],
   by simp [Cache.empty, assoc], Or.inl rfl⟩

/-- a hit in the traversal-key index answers with the abstract operation -/
theorem Inv.key_hit {cfg : Cfg} {d : Doc} {c : Cache} (h : Inv cfg d c) (k : Key) :
    (∃ idx o, assoc k c.byKey = some idx ∧ (assoc k c.byKey).bind (Model.C08.hit c) = some (.op idx o) ∧
        abstractOp cfg d k.path k.method = .ok o) ∨
    (assoc k c.byKey = none ∧ (assoc k c.byKey).bind (Model.C08.hit c) = none) := by
  cases hk : assoc k c.byKey with
  | none => right; simp
  | some idx =>
    left
    obtain ⟨o, ho, ha, _⟩ := h.key k idx hk
    exact ⟨idx, o, rfl, by simp [Option.bind, Model.C08.hit, ho], ha⟩

theorem Inv.insert {cfg : Cfg} {d : Doc} {c : Cache} (h : Inv cfg d c) (o : Operation) (k : Key)
    (id : Option String) (r : Option RefKey) (hmiss : assoc k c.byKey = none)
    (hk : abstractOp cfg d k.path k.method = .ok o) (hc : ∃ me, itemOf d k.path = .ok me ∧ me.scope = k.scope)
    (hid : ∀ i, id = some i → idAnswer cfg d i = abstractOp cfg d k.path k.method)
    (href : ∀ x, r = some x → refAnswer cfg d x = abstractOp cfg d k.path k.method) :
    Inv cfg d (c.insert o k id r) := by
  have hold : ∀ k' idx, assoc k' c.byKey = some idx → assoc k' ((k, c.ops.length) :: c.byKey) = some idx := by
    intro k' idx hk'
    have : k' ≠ k := by intro e; rw [e, hmiss] at hk'; cases hk'
    rw [assoc_cons_ne _ _ _ _ this]; exact hk'
  have hops : ∀ (idx : Nat) (o' : Operation), c.ops[idx]? = some o' → (c.ops ++ [o])[idx]? = some o' := by
    intro idx o' h'
    have hlt : idx < c.ops.length := by
      rcases Nat.lt_or_ge idx c.ops.length with h1 | h1
      · exact h1
      · rw [List.getElem?_eq_none h1] at h'; cases h'
    rw [List.getElem?_append_left hlt]; exact h'
  refine ⟨?_, ?_, ?_, ?_, ?_⟩
  · intro k' idx hk'
    simp only [Cache.insert] at hk' ⊢
    by_cases e : k' = k
    · subst e
      rw [assoc_cons_self] at hk'; cases hk'
      exact ⟨o, by simp, hk, hc⟩
    · rw [assoc_cons_ne _ _ _ _ e] at hk'
      obtain ⟨o', h1, h2, h3⟩ := h.key k' idx hk'
      exact ⟨o', hops _ _ h1, h2, h3⟩
  · intro i idx hi
    simp only [Cache.insert] at hi ⊢
    cases id with
    | none =>
      obtain ⟨k', h1, h2⟩ := h.id i idx hi
      exact ⟨k', hold _ _ h1, h2⟩
    | some j =>
      by_cases e : i = j
      · subst e
        rw [assoc_cons_self] at hi; cases hi
        exact ⟨k, assoc_cons_self _ _ _, hid _ rfl⟩
      · rw [assoc_cons_ne _ _ _ _ e] at hi
        obtain ⟨k', h1, h2⟩ := h.id i idx hi
        exact ⟨k', hold _ _ h1, h2⟩
  · intro x idx hx
    simp only [Cache.insert] at hx ⊢
    cases r with
    | none =>
      obtain ⟨k', h1, h2⟩ := h.ref x idx hx
      exact ⟨k', hold _ _ h1, h2⟩
    | some y =>
      by_cases e : x = y
      · subst e
        rw [assoc_cons_self] at hx; cases hx
        exact ⟨k, assoc_cons_self _ _ _, href _ rfl⟩
      · rw [assoc_cons_ne _ _ _ _ e] at hx
        obtain ⟨k', h1, h2⟩ := h.ref x idx hx
        exact ⟨k', hold _ _ h1, h2⟩
  · exact h.maps
  · exact h.defs

/-! ### schema[path][method] -/

theorem getMap_spec {cfg : Cfg} {d : Doc} {c : Cache} (h : Inv cfg d c) (p : String) :
    (∃ e, getMap d base c p = .error e ∧ itemOf d p = .error e) ∨
    (∃ c' me, getMap d base c p = .ok (c', me) ∧ itemOf d p = .ok me ∧ Inv cfg d c') := by
  unfold getMap
  cases hm : assoc p c.maps with
  | some e => right; exact ⟨c, e, rfl, h.maps p e hm, h⟩
  | none =>
    unfold itemOf
    cases hp : assoc p d.paths with
    | none => left; exact ⟨.key, rfl, rfl⟩
    | some pe =>
      cases hr : resolvePathItem d base pe with
      | error e => left; exact ⟨e, by simp [hr], by simp [hr]⟩
      | ok si =>
        obtain ⟨s, it⟩ := si
        right
        refine ⟨{ c with maps := (p, ⟨s, it⟩) :: c.maps }, ⟨s, it⟩, by simp [hr], by simp [hr], ⟨h.key, h.id, h.ref, ?_, h.defs⟩⟩
        intro p' me' hp'
        simp only at hp'
        by_cases e : p' = p
        · subst e
          rw [assoc_cons_self] at hp'; cases hp'
          simp [itemOf, hp, hr]
        · rw [assoc_cons_ne _ _ _ _ e] at hp'
          exact h.maps p' me' hp'

theorem abstractOp_none {cfg : Cfg} {d : Doc} {p m : String} {e : MapE} (h : itemOf d p = .ok e)
    (hm : assoc m e.item.entries = none) : abstractOp cfg d p m = .error .key := by
  simp [abstractOp, h, hm]

theorem abstractOp_some {cfg : Cfg} {d : Doc} {p m : String} {e : MapE} {od : OpDef} (h : itemOf d p = .ok e)
    (hm : assoc m e.item.entries = some od) :
    abstractOp cfg d p m = buildIn cfg d e.scope e.scope p m e.item od := by
  simp [abstractOp, h, hm]

theorem idAnswer_of_doc {cfg : Cfg} {d : Doc} (hu : uniqueIds cfg d = true) (hp : populateOk cfg d = true)
    {p m i : String} {e : MapE} {od : OpDef} (h1 : itemOf d p = .ok e) (h2 : assoc m e.item.entries = some od)
    (h3 : httpMethods.contains m = true) (h4 : od.opId = some i) :
    idAnswer cfg d i = abstractOp cfg d p m := by
  simp [idAnswer, assoc_allDefs cfg d hu hp p m i e od h1 h2 h3 h4]

theorem initOp_spec {cfg : Cfg} {d : Doc} {c : Cache} (h : Inv cfg d c) (hls : cfg.lookupScope = .repaired)
    (hu : uniqueIds cfg d = true) (hp : populateOk cfg d = true) (top : Scope)
    (p m : String) (e : MapE) (he : itemOf d p = .ok e) (hm : httpMethods.contains m = true) :
    Inv cfg d (initOp cfg d top c p m e).1 ∧ answer (initOp cfg d top c p m e).2 = abstractOp cfg d p m := by
  unfold initOp
  cases hod : assoc m e.item.entries with
  | none => exact ⟨h, by rw [abstractOp_none he hod]; rfl⟩
  | some od =>
    dsimp only
    have hab : abstractOp cfg d p m = buildIn cfg d e.scope e.scope p m e.item od := abstractOp_some he hod
    rcases h.key_hit ⟨e.scope, p, m⟩ with ⟨idx, o, _, hh, ha⟩ | ⟨hn, hh⟩
    · rw [hh]
      exact ⟨h, by simp only [answer]; exact ha.symm⟩
    · rw [hh]
      simp only [hls]
      cases hb : buildIn cfg d e.scope e.scope p m e.item od with
      | error x => exact ⟨h, by rw [hab, hb]; rfl⟩
      | ok o =>
        dsimp only
        refine ⟨?_, by rw [hab, hb]; rfl⟩
        apply h.insert o _ _ _ hn
        · rw [hab, hb]
        · exact ⟨e, he, rfl⟩
        · intro i hi
          exact idAnswer_of_doc hu hp he hod hm hi
        · intro x hx; cases hx

theorem byPM_spec {cfg : Cfg} {d : Doc} {c : Cache} (h : Inv cfg d c) (hls : cfg.lookupScope = .repaired)
    (hu : uniqueIds cfg d = true) (hp : populateOk cfg d = true)
    (p m : String) (hm : httpMethods.contains (lower m) = true) :
    Inv cfg d (byPM cfg d base c p m).1 ∧ answer (byPM cfg d base c p m).2 = abstractOp cfg d p (lower m) := by
  unfold byPM
  rcases getMap_spec h p with ⟨e, h1, h2⟩ | ⟨c', me, h1, h2, h3⟩
  · rw [h1]
    exact ⟨h, by simp [answer, abstractOp, h2]⟩
  · rw [h1]
    exact initOp_spec h3 hls hu hp base p (lower m) me h2 hm

/-! ### get_operation_by_id -/

theorem ensureDefs_spec {cfg : Cfg} {d : Doc} {c : Cache} (h : Inv cfg d c) (hp : populateOk cfg d = true) :
    ∃ c', ensureDefs cfg d base c = (c', none) ∧ Inv cfg d c' ∧ c'.idDefs = allDefs cfg d := by
  have hok : (populate cfg d base d.paths []).2 = none := by
    simpa [populateOk, Option.isNone_iff_eq_none] using hp
  unfold ensureDefs
  by_cases he : c.idDefs.isEmpty = true
  · simp only [he, if_true, hok]
    exact ⟨_, rfl, ⟨h.key, h.id, h.ref, h.maps, Or.inr rfl⟩, rfl⟩
  · simp only [he, Bool.false_eq_true, if_false]
    refine ⟨c, rfl, h, ?_⟩
    rcases h.defs with h1 | h1
    · rw [h1] at he; simp at he
    · exact h1

theorem idLookup_spec {cfg : Cfg} {d : Doc} {c : Cache} (h : Inv cfg d c) (hls : cfg.lookupScope = .repaired)
    (hwf : wfDoc d = true) (hp : populateOk cfg d = true) (hdefs : c.idDefs = allDefs cfg d) (top : Scope) (i : String) :
    Inv cfg d (idLookup cfg d top c i).1 ∧ answer (idLookup cfg d top c i).2 = idAnswer cfg d i := by
  unfold idLookup
  rw [hdefs]
  cases hen : assoc i (allDefs cfg d) with
  | none => exact ⟨h, by simp [idAnswer, hen, answer]⟩
  | some en =>
    dsimp only
    obtain ⟨s1, s2, s3, s4⟩ := allDefs_sound cfg d hwf hp i en hen
    have hid : idAnswer cfg d i = abstractOp cfg d en.path en.method := by simp [idAnswer, hen]
    have hab : abstractOp cfg d en.path en.method = buildIn cfg d en.scope en.scope en.path en.method en.item en.op :=
      abstractOp_some s1 s2
    rcases h.key_hit ⟨en.scope, en.path, en.method⟩ with ⟨idx, o, _, hh, ha⟩ | ⟨hn, hh⟩
    · rw [hh]
      exact ⟨h, by rw [hid]; exact ha.symm⟩
    · rw [hh]
      simp only [hls]
      cases hb : buildIn cfg d en.scope en.scope en.path en.method en.item en.op with
      | error x => exact ⟨h, by rw [hid, hab, hb]; rfl⟩
      | ok o =>
        dsimp only
        refine ⟨?_, by rw [hid, hab, hb]; rfl⟩
        apply h.insert o _ _ _ hn
        · rw [hab, hb]
        · exact ⟨⟨en.scope, en.item⟩, s1, rfl⟩
        · intro j hj; cases hj; exact hid
        · intro x hx; cases hx

theorem byId_spec {cfg : Cfg} {d : Doc} {c : Cache} (h : Inv cfg d c) (hls : cfg.lookupScope = .repaired)
    (hwf : wfDoc d = true) (hp : populateOk cfg d = true) (i : String) :
    Inv cfg d (byId cfg d base c i).1 ∧ answer (byId cfg d base c i).2 = idAnswer cfg d i := by
  unfold byId
  cases hi : assoc i c.byId with
  | some idx =>
    obtain ⟨k, hk, hans⟩ := h.id i idx hi
    obtain ⟨o, ho, ha, _⟩ := h.key k idx hk
    simp only [Option.bind, Model.C08.hit, ho]
    exact ⟨h, by rw [hans, ha]; rfl⟩
  | none =>
    simp only [Option.bind]
    obtain ⟨c', h1, h2, h3⟩ := ensureDefs_spec h hp
    rw [h1]
    exact idLookup_spec h2 hls hwf hp h3 base i

/-! ### get_operation_by_reference -/

theorem byRef_spec {cfg : Cfg} {d : Doc} {c : Cache} (h : Inv cfg d c) (r : RefKey) :
    Inv cfg d (byRef cfg d base c r).1 ∧ answer (byRef cfg d base c r).2 = refAnswer cfg d r := by
  unfold byRef
  cases hi : assoc r c.byRef with
  | some idx =>
    obtain ⟨k, hk, hans⟩ := h.ref r idx hi
    obtain ⟨o, ho, ha, _⟩ := h.key k idx hk
    simp only [Option.bind, Model.C08.hit, ho]
    exact ⟨h, by rw [hans, ha]; rfl⟩
  | none =>
    have hnb : (none : Option Nat).bind (Model.C08.hit c) = none := rfl
    rw [hnb]
    dsimp only
    have hf : (if r.full = true then 0 else base.file) = 0 := by simp [base]
    simp only [hf, ne_eq, not_true_eq_false, if_false]
    unfold refAnswer
    cases hp : assoc r.path d.paths with
    | none => exact ⟨h, rfl⟩
    | some pe =>
      cases pe with
      | ref f q => exact ⟨h, rfl⟩
      | inline item =>
        dsimp only
        cases hm : assoc r.method item.entries with
        | none => exact ⟨h, rfl⟩
        | some od =>
          dsimp only
          have hitem : itemOf d r.path = .ok ⟨base, item⟩ := by simp [itemOf, hp, resolvePathItem]
          have hab : abstractOp cfg d r.path r.method = buildIn cfg d base base r.path r.method item od :=
            abstractOp_some hitem hm
          have hra : refAnswer cfg d r = abstractOp cfg d r.path r.method := by simp [refAnswer, hp, hm]
          rcases h.key_hit ⟨base, r.path, r.method⟩ with ⟨idx, o, _, hh, ha⟩ | ⟨hn, hh⟩
          · rw [hh]
            exact ⟨h, by simp only [answer]; exact ha.symm⟩
          · rw [hh]
            have hb0 : (⟨0, none⟩ : Scope) = base := rfl
            rw [hb0]
            cases hb : buildIn cfg d base base r.path r.method item od with
            | error x => exact ⟨h, by rw [hab, hb]; rfl⟩
            | ok o =>
              dsimp only
              refine ⟨?_, by rw [hab, hb]; rfl⟩
              apply h.insert o _ _ _ hn
              · rw [hab, hb]
              · exact ⟨⟨base, item⟩, hitem, rfl⟩
              · intro j hj; cases hj
              · intro x hx; cases hx; exact hra

/-! ### reachable states -/

theorem iterPaths_scopes (cfg : Cfg) (hs : cfg.suspend = .repaired) (d : Doc) (paths : List (String × PathEntry)) :
    ∀ ev ∈ (iterPaths cfg d paths).1, ev.2 = none := by
  induction paths with
  | nil => simp [iterPaths]
  | cons x rest ih =>
    obtain ⟨p, pe⟩ := x
    simp only [iterPaths]
    split
    · intro ev hev
      rcases List.mem_cons.mp hev with h | h
      · rw [h]
      · exact ih ev h
    · split
      · intro ev hev
        rcases List.mem_cons.mp hev with h | h
        · rw [h]
        · exact ih ev h
      · rename_i scope item _ _ shared _
        rw [hs]
        cases (itemResults cfg d p scope shared item.entries).2 with
        | some e => simp
        | none =>
          intro ev hev
          simp only [List.mem_append, List.mem_map] at hev
          rcases hev with ⟨x, _, hx⟩ | h
          · rw [← hx]; simp
          · exact ih ev h

/-- the part of the state the look-up theorems need: consistent cache, nothing pushed on the resolver -/
structure Good (cfg : Cfg) (d : Doc) (s : St) : Prop where
  inv : Inv cfg d s.cache
  susp : s.susp = none
  pend : cfg.suspend = .repaired → ∀ evs e, s.pending = some (evs, e) → ∀ ev ∈ evs, ev.2 = none

theorem Good.top {cfg : Cfg} {d : Doc} {s : St} (h : Good cfg d s) : s.top = base := by
  simp [St.top, h.susp]

theorem reach_good (cfg : Cfg) (d : Doc) (hls : cfg.lookupScope = .repaired) (hwf : wfDoc d = true)
    (hu : uniqueIds cfg d = true) (hp : populateOk cfg d = true) (s : St) (hr : Reach cfg d s) : Good cfg d s := by
  induction hr with
  | init => exact ⟨Inv.empty cfg d, rfl, by intro _ evs e h; cases h⟩
  | step s a _ hhttp hsus ih =>
    have htop := ih.top
    cases a with
    | iterate => exact ih
    | iterStart =>
      refine ⟨ih.inv, ih.susp, ?_⟩
      intro hs evs e hpend
      simp only [step, Option.some.injEq] at hpend
      have := iterPaths_scopes cfg hs d d.paths
      unfold iterEvents at hpend
      rw [hpend] at this
      exact this
    | iterNext =>
      have hs : cfg.suspend = .repaired := by
        rcases hsus with h | h
        · exact h
        · exact absurd rfl h
      simp only [step]
      cases hpd : s.pending with
      | none => exact ih
      | some pe =>
        obtain ⟨evs, e⟩ := pe
        cases evs with
        | nil =>
          cases e with
          | none => exact ⟨ih.inv, rfl, by intro _ evs e h; simp [hpd] at h; obtain ⟨rfl, rfl⟩ := h; simp⟩
          | some x => exact ⟨ih.inv, rfl, by intro _ evs e h; simp at h; obtain ⟨rfl, rfl⟩ := h; simp⟩
        | cons ev rest =>
          obtain ⟨x, sc⟩ := ev
          have hall := ih.pend hs _ _ hpd
          refine ⟨ih.inv, ?_, ?_⟩
          · simpa using hall (x, sc) List.mem_cons_self
          · intro _ evs e' h
            simp at h
            obtain ⟨rfl, rfl⟩ := h
            intro ev hev
            exact hall ev (List.mem_cons_of_mem _ hev)
    | byPM p m =>
      simp only [step, htop]
      have := byPM_spec ih.inv hls hu hp p m (by simpa [Access.http] using hhttp)
      exact ⟨this.1, ih.susp, ih.pend⟩
    | byId i =>
      simp only [step, htop]
      have := byId_spec ih.inv hls hwf hp i
      exact ⟨this.1, ih.susp, ih.pend⟩
    | byRef r =>
      simp only [step, htop]
      have := byRef_spec (cfg := cfg) ih.inv r
      exact ⟨this.1, ih.susp, ih.pend⟩

/-! ### iteration and the abstract map -/

theorem opResult_eq_buildIn (cfg : Cfg) (d : Doc) (p m : String) (scope : Scope) (item : PathItem) (od : OpDef)
    (shared : List REntry) (hs : resolveEntries d scope item.shared = .ok shared) :
    opResult cfg d p scope shared m od = buildIn cfg d scope scope p m item od := by
  unfold opResult buildIn
  cases resolveEntries d scope od.params with
  | error e => rfl
  | ok op => simp [hs]

theorem mem_itemResults (cfg : Cfg) (d : Doc) (p : String) (scope : Scope) (shared : List REntry)
    (es : List (String × OpDef)) (o : Operation) (h : Item.ok o ∈ (itemResults cfg d p scope shared es).1) :
    ∃ m od, (m, od) ∈ es ∧ httpMethods.contains m = true ∧ opResult cfg d p scope shared m od = .ok o := by
  induction es with
  | nil => simp [itemResults] at h
  | cons e rest ih =>
    obtain ⟨m, od⟩ := e
    simp only [itemResults] at h
    by_cases hm : httpMethods.contains m = true
    · simp only [hm, if_true] at h
      cases hr : opResult cfg d p scope shared m od with
      | ok o' =>
        simp only [hr] at h
        rcases List.mem_cons.mp h with h1 | h1
        · cases h1; exact ⟨m, od, List.mem_cons_self, hm, hr⟩
        · obtain ⟨m', od', a, b, c⟩ := ih h1
          exact ⟨m', od', List.mem_cons_of_mem _ a, b, c⟩
      | error e =>
        simp only [hr] at h
        split at h
        · simp at h
        · rcases List.mem_cons.mp h with h1 | h1
          · cases h1
          · obtain ⟨m', od', a, b, c⟩ := ih h1
            exact ⟨m', od', List.mem_cons_of_mem _ a, b, c⟩
    · simp only [hm, Bool.false_eq_true, if_false] at h
      obtain ⟨m', od', a, b, c⟩ := ih h
      exact ⟨m', od', List.mem_cons_of_mem _ a, b, c⟩

theorem itemResults_complete (cfg : Cfg) (d : Doc) (p : String) (scope : Scope) (shared : List REntry)
    (es : List (String × OpDef)) (hn : (itemResults cfg d p scope shared es).2 = none)
    (m : String) (od : OpDef) (o : Operation) (hm : (m, od) ∈ es) (hh : httpMethods.contains m = true)
    (hr : opResult cfg d p scope shared m od = .ok o) : Item.ok o ∈ (itemResults cfg d p scope shared es).1 := by
  induction es with
  | nil => cases hm
  | cons e rest ih =>
    obtain ⟨m', od'⟩ := e
    simp only [itemResults] at hn ⊢
    by_cases hm' : httpMethods.contains m' = true
    · simp only [hm', if_true] at hn ⊢
      cases hr' : opResult cfg d p scope shared m' od' with
      | ok o' =>
        simp only [hr'] at hn ⊢
        rcases List.mem_cons.mp hm with h1 | h1
        · cases h1; rw [hr] at hr'; cases hr'; exact List.mem_cons_self
        · exact List.mem_cons_of_mem _ (ih hn h1)
      | error e =>
        simp only [hr'] at hn ⊢
        split at hn
        · simp at hn
        · rename_i hc
          simp only [hc, if_false]
          rcases List.mem_cons.mp hm with h1 | h1
          · cases h1; rw [hr] at hr'; cases hr'
          · exact List.mem_cons_of_mem _ (ih hn h1)
    · simp only [hm', Bool.false_eq_true, if_false] at hn ⊢
      rcases List.mem_cons.mp hm with h1 | h1
      · cases h1; exact absurd hh hm'
      · exact ih hn h1

theorem mem_iterPaths (cfg : Cfg) (d : Doc) (paths : List (String × PathEntry)) (o : Operation)
    (h : Item.ok o ∈ (iterPaths cfg d paths).1.map (·.1)) :
    ∃ p pe scope item m od, (p, pe) ∈ paths ∧ resolvePathItem d base pe = .ok (scope, item) ∧
      (m, od) ∈ item.entries ∧ httpMethods.contains m = true ∧ buildIn cfg d scope scope p m item od = .ok o := by
  induction paths with
  | nil => simp [iterPaths] at h
  | cons x rest ih =>
    obtain ⟨p, pe⟩ := x
    have lift : (∃ p' pe' scope item m od, (p', pe') ∈ rest ∧ resolvePathItem d base pe' = .ok (scope, item) ∧
        (m, od) ∈ item.entries ∧ httpMethods.contains m = true ∧ buildIn cfg d scope scope p' m item od = .ok o) →
        ∃ p' pe' scope item m od, (p', pe') ∈ (p, pe) :: rest ∧ resolvePathItem d base pe' = .ok (scope, item) ∧
        (m, od) ∈ item.entries ∧ httpMethods.contains m = true ∧ buildIn cfg d scope scope p' m item od = .ok o := by
      rintro ⟨p', pe', scope, item, m, od, a, b⟩
      exact ⟨p', pe', scope, item, m, od, List.mem_cons_of_mem _ a, b⟩
    simp only [iterPaths] at h
    cases hres : resolvePathItem d base pe with
    | error e =>
      simp only [hres, List.map_cons] at h
      rcases List.mem_cons.mp h with h1 | h1
      · cases h1
      · exact lift (ih h1)
    | ok si =>
      obtain ⟨scope, item⟩ := si
      simp only [hres] at h
      cases hsh : resolveEntries d scope item.shared with
      | error e =>
        simp only [hsh, List.map_cons] at h
        rcases List.mem_cons.mp h with h1 | h1
        · cases h1
        · exact lift (ih h1)
      | ok shared =>
        simp only [hsh] at h
        have here : Item.ok o ∈ (itemResults cfg d p scope shared item.entries).1 →
            ∃ p' pe' scope item m od, (p', pe') ∈ (p, pe) :: rest ∧ resolvePathItem d base pe' = .ok (scope, item) ∧
            (m, od) ∈ item.entries ∧ httpMethods.contains m = true ∧ buildIn cfg d scope scope p' m item od = .ok o := by
          intro hx
          obtain ⟨m, od, a, b, c⟩ := mem_itemResults cfg d p scope shared item.entries o hx
          rw [opResult_eq_buildIn cfg d p m scope item od shared hsh] at c
          exact ⟨p, pe, scope, item, m, od, List.mem_cons_self, hres, a, b, c⟩
        cases hraised : (itemResults cfg d p scope shared item.entries).2 with
        | some e =>
          cases hv : cfg.suspend with
          | asFound =>
            simp only [hraised, hv, List.map_map, Function.comp_def, List.map_id'] at h
            exact here h
          | repaired =>
            simp [hraised, hv] at h
        | none =>
          cases hv : cfg.suspend <;>
            simp only [hraised, hv, List.map_append, List.map_map, Function.comp_def, List.map_id'] at h <;>
            rcases List.mem_append.mp h with h1 | h1
          · exact here h1
          · exact lift (ih h1)
          · exact here h1
          · exact lift (ih h1)

theorem iterPaths_complete (cfg : Cfg) (d : Doc) (paths : List (String × PathEntry))
    (hn : (iterPaths cfg d paths).2 = none) (p : String) (pe : PathEntry) (scope : Scope) (item : PathItem)
    (m : String) (od : OpDef) (o : Operation) (hp : (p, pe) ∈ paths)
    (hres : resolvePathItem d base pe = .ok (scope, item)) (hm : (m, od) ∈ item.entries)
    (hh : httpMethods.contains m = true) (hb : buildIn cfg d scope scope p m item od = .ok o) :
    Item.ok o ∈ (iterPaths cfg d paths).1.map (·.1) := by
  induction paths with
  | nil => cases hp
  | cons x rest ih =>
    obtain ⟨p', pe'⟩ := x
    simp only [iterPaths] at hn ⊢
    cases hres' : resolvePathItem d base pe' with
    | error e =>
      simp only [hres'] at hn ⊢
      rcases List.mem_cons.mp hp with h1 | h1
      · cases h1; rw [hres] at hres'; cases hres'
      · simp only [List.map_cons, List.mem_cons]; exact Or.inr (ih hn h1)
    | ok si =>
      obtain ⟨scope', item'⟩ := si
      simp only [hres'] at hn ⊢
      cases hsh : resolveEntries d scope' item'.shared with
      | error e =>
        simp only [hsh] at hn ⊢
        rcases List.mem_cons.mp hp with h1 | h1
        · cases h1
          rw [hres] at hres'; cases hres'
          unfold buildIn at hb
          split at hb
          · cases hb
          · rw [hsh] at hb; cases hb
        · simp only [List.map_cons, List.mem_cons]; exact Or.inr (ih hn h1)
      | ok shared =>
        simp only [hsh] at hn ⊢
        cases hraised : (itemResults cfg d p' scope' shared item'.entries).2 with
        | some e => cases hv : cfg.suspend <;> simp [hraised, hv] at hn
        | none =>
          have hn' : (iterPaths cfg d rest).2 = none := by
            cases hv : cfg.suspend <;> simpa [hraised, hv] using hn
          rcases List.mem_cons.mp hp with h1 | h1
          · cases h1
            rw [hres] at hres'; cases hres'
            have hr : opResult cfg d p scope shared m od = .ok o := by
              rw [opResult_eq_buildIn cfg d p m scope item od shared hsh]; exact hb
            have := itemResults_complete cfg d p scope shared item.entries hraised m od o hm hh hr
            cases hv : cfg.suspend <;> simp only [hraised, hv, List.map_append, List.mem_append, List.map_map] <;>
              left <;> simpa [Function.comp_def] using this
          · have := ih hn' h1
            cases hv : cfg.suspend <;> simp only [hraised, hv, List.map_append, List.mem_append] <;>
              right <;> exact this

theorem buildIn_path_method (cfg : Cfg) (d : Doc) (s1 s2 : Scope) (p m : String) (item : PathItem) (od : OpDef)
    (o : Operation) (h : buildIn cfg d s1 s2 p m item od = .ok o) : o.path = p ∧ o.method = m := by
  unfold buildIn at h
  split at h
  · cases h
  · split at h
    · cases h
    · exact buildOp_path_method _ _ _ _ _ _ _ _ h

/-- what iteration offers is the abstract map's entry for that (path, method) -/
theorem iterate_sound (cfg : Cfg) (d : Doc) (hwf : wfDoc d = true) (o : Operation)
    (h : Item.ok o ∈ (iterate cfg d).1) :
    abstractOp cfg d o.path o.method = .ok o ∧ httpMethods.contains o.method = true := by
  obtain ⟨p, pe, scope, item, m, od, h1, h2, h3, h4, h5⟩ := mem_iterPaths cfg d d.paths o h
  obtain ⟨e1, e2⟩ := buildIn_path_method _ _ _ _ _ _ _ _ _ h5
  have hi : itemOf d p = .ok ⟨scope, item⟩ := by
    rw [itemOf_iff]; exact ⟨pe, assoc_of_mem_nodup _ _ _ (wf_paths d hwf) h1, h2⟩
  have hm : assoc m item.entries = some od := assoc_of_mem_nodup _ _ _ (wf_item d hwf p pe h1 scope item h2) h3
  rw [e1, e2]
  exact ⟨by rw [abstractOp_some hi hm]; exact h5, h4⟩

/-- every entry of the abstract map under an HTTP method is offered by an iteration that runs to completion -/
theorem iterate_complete (cfg : Cfg) (d : Doc) (hn : (iterate cfg d).2 = none) (p m : String) (o : Operation)
    (hm : httpMethods.contains m = true) (h : abstractOp cfg d p m = .ok o) : Item.ok o ∈ (iterate cfg d).1 := by
  unfold abstractOp at h
  cases hi : itemOf d p with
  | error e => rw [hi] at h; cases h
  | ok me =>
    rw [hi] at h
    dsimp only at h
    cases hod : assoc m me.item.entries with
    | none => rw [hod] at h; cases h
    | some od =>
      rw [hod] at h
      obtain ⟨pe, ha, hr⟩ := (itemOf_iff d p me).mp hi
      exact iterPaths_complete cfg d d.paths hn p pe me.scope me.item m od o (mem_of_assoc _ _ _ ha) hr
        (mem_of_assoc _ _ _ hod) hm h

/-- nothing is pushed on the resolver, and the suspended generator (if any) will not push anything -/
structure Calm (cfg : Cfg) (s : St) : Prop where
  susp : s.susp = none
  pend : cfg.suspend = .repaired → ∀ evs e, s.pending = some (evs, e) → ∀ ev ∈ evs, ev.2 = none

theorem reach_calm (cfg : Cfg) (d : Doc) (s : St) (hr : Reach cfg d s) : Calm cfg s := by
  induction hr with
  | init => exact ⟨rfl, by intro _ evs e h; cases h⟩
  | step s a _ hhttp hsus ih =>
    cases a with
    | iterate => exact ih
    | iterStart =>
      refine ⟨ih.susp, ?_⟩
      intro hs evs e hpend
      simp only [step, Option.some.injEq] at hpend
      have := iterPaths_scopes cfg hs d d.paths
      unfold iterEvents at hpend
      rw [hpend] at this
      exact this
    | iterNext =>
      have hs : cfg.suspend = .repaired := by
        rcases hsus with h | h
        · exact h
        · exact absurd rfl h
      simp only [step]
      cases hpd : s.pending with
      | none => exact ih
      | some pe =>
        obtain ⟨evs, e⟩ := pe
        cases evs with
        | nil =>
          cases e with
          | none => exact ⟨rfl, by intro _ evs e h; simp [hpd] at h; obtain ⟨rfl, rfl⟩ := h; simp⟩
          | some x => exact ⟨rfl, by intro _ evs e h; simp at h; obtain ⟨rfl, rfl⟩ := h; simp⟩
        | cons ev rest =>
          obtain ⟨x, sc⟩ := ev
          have hall := ih.pend hs _ _ hpd
          refine ⟨?_, ?_⟩
          · simpa using hall (x, sc) List.mem_cons_self
          · intro _ evs e' h
            simp at h
            obtain ⟨rfl, rfl⟩ := h
            intro ev hev
            exact hall ev (List.mem_cons_of_mem _ hev)
    | byPM p m => exact ⟨ih.susp, ih.pend⟩
    | byId i => exact ⟨ih.susp, ih.pend⟩
    | byRef r => exact ⟨ih.susp, ih.pend⟩

/-! ### identity of the returned instance -/

/-- what a look-up hands out is stored in the operation list under an index the traversal-key index knows,
    and no entry of the traversal-key index is ever lost or changed -/
structure Shape (c c' : Cache) (r : Res) : Prop where
  out : ∀ idx o, r = .op idx o → c'.ops[idx]? = some o ∧ ∃ k, assoc k c'.byKey = some idx
  mono : ∀ k idx, assoc k c.byKey = some idx → assoc k c'.byKey = some idx

theorem hit_out {c : Cache} {i idx : Nat} {o : Operation} (h : Model.C08.hit c i = some (.op idx o)) :
    idx = i ∧ c.ops[idx]? = some o := by
  unfold Model.C08.hit at h
  cases ho : c.ops[i]? with
  | none => rw [ho] at h; cases h
  | some o' => rw [ho] at h; simp at h; obtain ⟨rfl, rfl⟩ := h; exact ⟨rfl, ho⟩

theorem Shape.same (c : Cache) (r : Res) (h : ∀ idx o, r = .op idx o → c.ops[idx]? = some o ∧ ∃ k, assoc k c.byKey = some idx) :
    Shape c c r := ⟨h, fun _ _ h => h⟩

theorem Shape.err (c : Cache) (e : Err) : Shape c c (.err e) :=
  ⟨fun _ _ h => (by cases h), fun _ _ h => h⟩

theorem Shape.insert (c : Cache) (o : Operation) (k : Key) (id : Option String) (r : Option RefKey)
    (hmiss : assoc k c.byKey = none) : Shape c (c.insert o k id r) (.op c.ops.length o) := by
  refine ⟨?_, ?_⟩
  · intro idx o' h
    cases h
    exact ⟨by simp [Cache.insert], k, by simp [Cache.insert, assoc]⟩
  · intro k' idx h
    have : k' ≠ k := by intro e; rw [e, hmiss] at h; cases h
    simp only [Cache.insert]
    rw [assoc_cons_ne _ _ _ _ this]; exact h

theorem Shape.keyHit {c : Cache} {k : Key} {r : Res} (h : (assoc k c.byKey).bind (Model.C08.hit c) = some r) :
    Shape c c r := by
  apply Shape.same
  intro idx o hr
  subst hr
  cases hk : assoc k c.byKey with
  | none => rw [hk] at h; cases h
  | some i =>
    rw [hk] at h
    obtain ⟨rfl, ho⟩ := hit_out (by simpa [Option.bind] using h)
    exact ⟨ho, k, hk⟩

theorem initOp_shape {cfg : Cfg} {d : Doc} {c : Cache} (h : Inv cfg d c) (top : Scope) (p m : String) (e : MapE) :
    Shape c (initOp cfg d top c p m e).1 (initOp cfg d top c p m e).2 := by
  unfold initOp
  cases assoc m e.item.entries with
  | none => exact Shape.err _ _
  | some od =>
    dsimp only
    cases hh : (assoc (⟨e.scope, p, m⟩ : Key) c.byKey).bind (Model.C08.hit c) with
    | some r => exact Shape.keyHit hh
    | none =>
      dsimp only
      have hn : assoc (⟨e.scope, p, m⟩ : Key) c.byKey = none := by
        rcases h.key_hit ⟨e.scope, p, m⟩ with ⟨_, _, _, h2, _⟩ | ⟨h1, _⟩
        · rw [hh] at h2; cases h2
        · exact h1
      split
      · exact Shape.err _ _
      · dsimp only; exact Shape.insert _ _ _ _ _ hn

theorem byPM_shape {cfg : Cfg} {d : Doc} {c : Cache} (h : Inv cfg d c) (p m : String) :
    Shape c (byPM cfg d base c p m).1 (byPM cfg d base c p m).2 := by
  unfold byPM
  rcases getMap_spec h p with ⟨e, h1, _⟩ | ⟨c', me, h1, _, h3⟩
  · rw [h1]; exact Shape.err _ _
  · rw [h1]
    dsimp only
    have hk : c'.byKey = c.byKey := by
      unfold getMap at h1
      split at h1
      · cases h1; rfl
      · split at h1
        · cases h1
        · split at h1
          · cases h1
          · cases h1; rfl
    have := initOp_shape h3 base p (lower m) me
    exact ⟨this.out, fun k idx hki => this.mono k idx (by rw [hk]; exact hki)⟩

theorem idLookup_shape {cfg : Cfg} {d : Doc} {c : Cache} (h : Inv cfg d c) (top : Scope) (i : String) :
    Shape c (idLookup cfg d top c i).1 (idLookup cfg d top c i).2 := by
  unfold idLookup
  cases assoc i c.idDefs with
  | none => exact Shape.err _ _
  | some en =>
    dsimp only
    cases hh : (assoc (⟨en.scope, en.path, en.method⟩ : Key) c.byKey).bind (Model.C08.hit c) with
    | some r => exact Shape.keyHit hh
    | none =>
      dsimp only
      have hn : assoc (⟨en.scope, en.path, en.method⟩ : Key) c.byKey = none := by
        rcases h.key_hit ⟨en.scope, en.path, en.method⟩ with ⟨_, _, _, h2, _⟩ | ⟨h1, _⟩
        · rw [hh] at h2; cases h2
        · exact h1
      split
      · exact Shape.err _ _
      · dsimp only; exact Shape.insert _ _ _ _ _ hn

theorem byId_shape {cfg : Cfg} {d : Doc} {c : Cache} (h : Inv cfg d c) (hp : populateOk cfg d = true) (i : String) :
    Shape c (byId cfg d base c i).1 (byId cfg d base c i).2 := by
  unfold byId
  cases hi : assoc i c.byId with
  | some idx =>
    obtain ⟨k, hk, _⟩ := h.id i idx hi
    obtain ⟨o, ho, _, _⟩ := h.key k idx hk
    simp only [Option.bind, Model.C08.hit, ho]
    apply Shape.same
    intro idx' o' hr
    cases hr
    exact ⟨ho, k, hk⟩
  | none =>
    simp only [Option.bind]
    obtain ⟨c', h1, h2, _⟩ := ensureDefs_spec h hp
    rw [h1]
    dsimp only
    have hk : c'.byKey = c.byKey := by
      unfold ensureDefs at h1
      split at h1
      · have := congrArg Prod.fst h1; simp only at this; rw [← this]
      · have := congrArg Prod.fst h1; simp only at this; rw [← this]
    have := idLookup_shape h2 base i
    exact ⟨this.out, fun k idx hki => this.mono k idx (by rw [hk]; exact hki)⟩

theorem byRef_shape {cfg : Cfg} {d : Doc} {c : Cache} (h : Inv cfg d c) (r : RefKey) :
    Shape c (byRef cfg d base c r).1 (byRef cfg d base c r).2 := by
  unfold byRef
  cases hi : assoc r c.byRef with
  | some idx =>
    obtain ⟨k, hk, _⟩ := h.ref r idx hi
    obtain ⟨o, ho, _, _⟩ := h.key k idx hk
    simp only [Option.bind, Model.C08.hit, ho]
    apply Shape.same
    intro idx' o' hr
    cases hr
    exact ⟨ho, k, hk⟩
  | none =>
    have hnb : (none : Option Nat).bind (Model.C08.hit c) = none := rfl
    rw [hnb]
    dsimp only
    have hf : (if r.full = true then 0 else base.file) = 0 := by simp [base]
    simp only [hf, ne_eq, not_true_eq_false, if_false]
    cases assoc r.path d.paths with
    | none => exact Shape.err _ _
    | some pe =>
      cases pe with
      | ref f q => exact Shape.err _ _
      | inline item =>
        dsimp only
        cases assoc r.method item.entries with
        | none => exact Shape.err _ _
        | some od =>
          dsimp only
          cases hh : (assoc (⟨base, r.path, r.method⟩ : Key) c.byKey).bind (Model.C08.hit c) with
          | some x => exact Shape.keyHit hh
          | none =>
            dsimp only
            have hn : assoc (⟨base, r.path, r.method⟩ : Key) c.byKey = none := by
              rcases h.key_hit ⟨base, r.path, r.method⟩ with ⟨_, _, _, h2, _⟩ | ⟨h1, _⟩
              · rw [hh] at h2; cases h2
              · exact h1
            split
            · exact Shape.err _ _
            · dsimp only; exact Shape.insert _ _ _ _ _ hn

/-- an index entry for an operation list element names that element's own (path, method), in the path item's scope -/
theorem Inv.key_canonical {cfg : Cfg} {d : Doc} {c : Cache} (h : Inv cfg d c) (k : Key) (idx : Nat) (o : Operation)
    (hk : assoc k c.byKey = some idx) (ho : c.ops[idx]? = some o) :
    ∃ me, itemOf d o.path = .ok me ∧ k = ⟨me.scope, o.path, o.method⟩ := by
  obtain ⟨o', h1, h2, me, h3, h4⟩ := h.key k idx hk
  rw [ho] at h1; cases h1
  have hpm : o.path = k.path ∧ o.method = k.method := by
    unfold abstractOp at h2
    rw [h3] at h2
    dsimp only at h2
    split at h2
    · cases h2
    · exact buildIn_path_method _ _ _ _ _ _ _ _ _ h2
  refine ⟨me, by rw [hpm.1]; exact h3, ?_⟩
  obtain ⟨ks, kp, km⟩ := k
  simp only at hpm h4 ⊢
  rw [hpm.1, hpm.2, h4]

theorem step_shape (cfg : Cfg) (d : Doc) (hp : populateOk cfg d = true) (s : St) (g : Good cfg d s) (a : Access) :
    Shape s.cache (step cfg d s a).1.cache (step cfg d s a).2 := by
  have htop := g.top
  cases a with
  | iterate => exact ⟨fun _ _ h => (by cases h), fun _ _ h => h⟩
  | iterStart => exact ⟨fun _ _ h => (by cases h), fun _ _ h => h⟩
  | iterNext =>
    simp only [step]
    split <;> exact ⟨fun _ _ h => (by cases h), fun _ _ h => h⟩
  | byPM p m => simp only [step, htop]; exact byPM_shape g.inv p m
  | byId i => simp only [step, htop]; exact byId_shape g.inv hp i
  | byRef r => simp only [step, htop]; exact byRef_shape (cfg := cfg) g.inv r

theorem reach_runSt (cfg : Cfg) (d : Doc) (s : St) (hr : Reach cfg d s) (as : List Access)
    (hok : ∀ a ∈ as, Admitted cfg a) : Reach cfg d (runSt cfg d s as) := by
  induction as generalizing s with
  | nil => exact hr
  | cons a rest ih =>
    simp only [runSt]
    have ha := hok a List.mem_cons_self
    exact ih _ (.step s a hr ha.1 ha.2) (fun x hx => hok x (List.mem_cons_of_mem _ hx))

theorem mono_runSt (cfg : Cfg) (d : Doc) (hls : cfg.lookupScope = .repaired) (hwf : wfDoc d = true)
    (hu : uniqueIds cfg d = true) (hp : populateOk cfg d = true) (s : St) (hr : Reach cfg d s) (as : List Access)
    (hok : ∀ a ∈ as, Admitted cfg a) (k : Key) (idx : Nat) (h : assoc k s.cache.byKey = some idx) :
    assoc k (runSt cfg d s as).cache.byKey = some idx := by
  induction as generalizing s with
  | nil => exact h
  | cons a rest ih =>
    simp only [runSt]
    have ha := hok a List.mem_cons_self
    have g := reach_good cfg d hls hwf hu hp s hr
    exact ih _ (.step s a hr ha.1 ha.2) (fun x hx => hok x (List.mem_cons_of_mem _ hx))
      ((step_shape cfg d hp s g a).mono k idx h)

/-! ### security parameters -/

/-- a parameter called `n` is defined in location `l` of the operation (`operation.get_parameter(n, l) is not None`) -/
def Defined (o : Operation) (n l : String) : Prop := ∃ p, getParameter o n l = .ok (some p)

theorem container_addParam (o : Operation) (q : Param) (l : String) :
    container (addParam o q) l = (container o l).map (· ++ inLoc l [q]) := by
  obtain ⟨a1, a2, a3, a4⟩ := addParam_containers o q
  unfold container
  by_cases h1 : l = "path"
  · subst h1; simp [a1]
  · by_cases h2 : l = "header"
    · subst h2; simp [a2]
    · by_cases h3 : l = "cookie"
      · subst h3; simp [a3]
      · by_cases h4 : l = "query"
        · subst h4; simp [a4]
        · simp [h1, h2, h3, h4]

theorem setGet_append_some (n : String) (ps extra : List Param) (p : Param) (h : setGet n ps = .ok (some p)) :
    setGet n (ps ++ extra) = .ok (some p) := by
  induction ps with
  | nil => simp [setGet] at h
  | cons x rest ih =>
    simp only [List.cons_append, setGet] at h ⊢
    cases hx : x.name with
    | none => rw [hx] at h; cases h
    | some m =>
      rw [hx] at h
      dsimp only at h ⊢
      by_cases e : m = n
      · simp only [e, if_true] at h ⊢; exact h
      · simp only [e, if_false] at h ⊢; exact ih h

theorem setGet_append_none (n : String) (ps : List Param) (q : Param) (hq : q.name = some n)
    (h : setGet n ps = .ok none) : setGet n (ps ++ [q]) = .ok (some q) := by
  induction ps with
  | nil => simp [setGet, hq]
  | cons x rest ih =>
    simp only [List.cons_append, setGet] at h ⊢
    cases hx : x.name with
    | none => rw [hx] at h; cases h
    | some m =>
      rw [hx] at h
      dsimp only at h ⊢
      by_cases e : m = n
      · simp only [e, if_true] at h; cases h
      · simp only [e, if_false] at h ⊢; exact ih h

theorem Defined.addParam {o : Operation} {n l : String} (h : Defined o n l) (q : Param) : Defined (addParam o q) n l := by
  obtain ⟨p, hp⟩ := h
  unfold Defined
  unfold getParameter at hp ⊢
  rw [container_addParam]
  cases hc : container o l with
  | none => rw [hc] at hp; cases hp
  | some ps =>
    rw [hc] at hp
    exact ⟨p, setGet_append_some n ps _ p hp⟩

theorem Defined.schemeParam {o o' : Operation} {n l : String} (h : Defined o n l) (s : SecScheme)
    (hs : schemeParam o s = .ok o') : Defined o' n l := by
  unfold Model.C08.schemeParam at hs
  split at hs
  · cases hs
  · split at hs
    · split at hs
      · cases hs; exact h.addParam _
      · cases hs
    · split at hs
      · cases hs; exact h.addParam _
      · cases hs; exact h

theorem Defined.processScheme {o o' : Operation} {n l : String} (h : Defined o n l) (s : SecScheme)
    (hs : processScheme o s = .ok o') : Defined o' n l := by
  unfold Model.C08.processScheme at hs
  split at hs
  · cases hs
  · cases hs; exact h
  · exact h.schemeParam s hs

theorem Defined.processSchemes {n l : String} (reqs : List String) (ss : List SecScheme) (o o' : Operation)
    (h : Defined o n l) (hs : processSchemes reqs o ss = .ok o') : Defined o' n l := by
  induction ss generalizing o with
  | nil => simp [Model.C08.processSchemes] at hs; subst hs; exact h
  | cons s rest ih =>
    simp only [Model.C08.processSchemes] at hs
    split at hs
    · split at hs
      · cases hs
      · rename_i o1 h1
        exact ih o1 (h.processScheme s h1) hs
    · exact ih o h hs

/-- after its turn in `process_definitions`, an apiKey scheme's parameter is defined in the operation -/
theorem processScheme_defines (o o' : Operation) (s : SecScheme) (n l : String) (ht : s.type = some "apiKey")
    (hn : s.name = some n) (hl : s.loc = some l) (hloc : (container o l).isSome = true)
    (hs : processScheme o s = .ok o') : Defined o' n l := by
  unfold Model.C08.processScheme schemeDefined at hs
  rw [hn, hl] at hs
  dsimp only at hs
  cases hg : getParameter o n l with
  | error e => rw [hg] at hs; cases hs
  | ok r =>
    rw [hg] at hs
    dsimp only at hs
    cases r with
    | some p =>
      simp only [Option.isSome_some] at hs
      cases hs
      exact ⟨p, hg⟩
    | none =>
      simp only [Option.isSome_none] at hs
      unfold Model.C08.schemeParam at hs
      rw [ht, hn, hl] at hs
      simp only [if_true] at hs
      cases hs
      unfold Defined
      unfold getParameter at hg ⊢
      rw [container_addParam]
      cases hc : container o l with
      | none => rw [hc] at hloc; cases hloc
      | some ps =>
        rw [hc] at hg
        refine ⟨apiKeyParam n l, ?_⟩
        simp only [Option.map_some, inLoc, apiKeyParam, List.filter_cons, decide_true, if_true, List.filter_nil]
        exact setGet_append_none n ps _ rfl hg

theorem container_isSome_ext (o o' : Operation) (l : String) : (container o l).isSome = (container o' l).isSome := by
  unfold container
  by_cases h1 : l = "path" <;> by_cases h2 : l = "header" <;> by_cases h3 : l = "cookie" <;>
    by_cases h4 : l = "query" <;> simp [h1, h2, h3, h4]

theorem processSchemes_defines (reqs : List String) (ss : List SecScheme) (o o' : Operation) (s : SecScheme)
    (n l : String) (hmem : s ∈ ss) (hreq : reqs.contains s.key = true) (ht : s.type = some "apiKey")
    (hn : s.name = some n) (hl : s.loc = some l) (hloc : (container o l).isSome = true)
    (hs : processSchemes reqs o ss = .ok o') : Defined o' n l := by
  induction ss generalizing o with
  | nil => cases hmem
  | cons x rest ih =>
    simp only [Model.C08.processSchemes] at hs
    rcases List.mem_cons.mp hmem with h | h
    · subst h
      rw [hreq] at hs
      simp only [if_true] at hs
      split at hs
      · cases hs
      · rename_i o1 h1
        exact Defined.processSchemes reqs rest o1 o' (processScheme_defines o o1 s n l ht hn hl hloc h1) hs
    · split at hs
      · split at hs
        · cases hs
        · rename_i o1 h1
          exact ih o1 h (by rw [← container_isSome_ext o o1 l]; exact hloc) hs
      · exact ih o h hloc hs

theorem processSchemes_http (reqs : List String) (ss : List SecScheme) (o o' : Operation) (s : SecScheme)
    (hmem : s ∈ ss) (hreq : reqs.contains s.key = true) (ht : s.type = some "http") (hn : s.name = none)
    (hs : processSchemes reqs o ss = .ok o') : httpAuthParam ∈ o'.headers := by
  induction ss generalizing o with
  | nil => cases hmem
  | cons x rest ih =>
    simp only [Model.C08.processSchemes] at hs
    rcases List.mem_cons.mp hmem with h | h
    · subst h
      rw [hreq] at hs
      simp only [if_true] at hs
      split at hs
      · cases hs
      · rename_i o1 h1
        have h1' : o1 = addParam o httpAuthParam := by
          unfold Model.C08.processScheme schemeDefined at h1
          rw [hn] at h1
          dsimp only at h1
          unfold Model.C08.schemeParam at h1
          rw [ht] at h1
          simp at h1
          exact h1.symm
        obtain ⟨_, _, _, _, ⟨ex, hex, _⟩, _⟩ := processSchemes_ext _ _ _ _ hs
        rw [hex, h1', (addParam_containers o httpAuthParam).2.1]
        simp [inLoc, httpAuthParam]
    · split at hs
      · split at hs
        · cases hs
        · rename_i o1 h1
          exact ih o1 h hs
      · exact ih o h hs

end SV.Proofs.C08
