/-
  Concrete documents used by the witness theorems and non-vacuity examples of C08 (definitions only).
-/
import SV.Spec.C08

namespace SV.Proofs.C08
open SV.Model.C08 SV.Spec.C08

def pP (n : String) (t : Nat) : PEntry := .inline ⟨some n, some "query", false, t⟩

def wOp : List Param := [⟨some "q", some "query", false, 1⟩]

def wShared : List Param := [⟨some "q", some "query", true, 2⟩]

def wMergeDoc : Doc :=
  { paths := [("/a", .inline ⟨wShared.map .inline, [("get", ⟨some "getA", wOp.map .inline, .absent, none⟩)]⟩)],
    files := [⟨[], []⟩], links := [], schemes := [], globalSec := [] }

def wSecDoc : Doc :=
  { paths := [("/a", .inline ⟨[], [("get", ⟨some "getA", [.inline ⟨some "key", some "query", false, 5⟩], .absent, none⟩),
                                  ("post", ⟨none, [], .absent, some ["k2"]⟩)]⟩)],
    files := [⟨[], []⟩], links := [],
    schemes := [⟨"k1", some "apiKey", some "key", some "query"⟩, ⟨"k2", some "http", none, none⟩],
    globalSec := ["k1"] }

def chainDoc (n : Nat) : Doc :=
  { paths := [("/a", .inline ⟨[.ref "" "C0"], [("get", ⟨none, [], .absent, none⟩)]⟩)],
    files := [⟨(List.range n).map (fun i => (s!"C{i}", PEntry.ref "" s!"C{i + 1}")) ++ [(s!"C{n}", pP "p" 7)], []⟩],
    links := [], schemes := [], globalSec := [] }

def wTypeDoc : Doc :=
  { paths := [("/a", .inline ⟨[], [("get", ⟨some "getA", [.junk], .absent, none⟩)]⟩),
              ("/b", .inline ⟨[], [("get", ⟨some "getB", [], .absent, none⟩)]⟩)],
    files := [⟨[], []⟩], links := [], schemes := [], globalSec := [] }

/-- root `schema.json`, path item of `/a` in `sub/items.json`, its parameters in `sub/common.json`; a second
    `common.json` next to the root document holds different definitions under the same pointers -/
def wScopeDoc : Doc :=
  { paths := [("/a", .ref "sub/items.json" "/items/I1"),
              ("/b", .inline ⟨[], [("get", ⟨some "getB", [.ref "common.json" "/params/P1"], .absent, none⟩)]⟩)],
    files := [⟨[], []⟩,
              ⟨[], [("/items/I1", ⟨[.ref "common.json" "/params/P1"],
                                   [("get", ⟨some "getA", [.ref "common.json" "/params/P2"], .absent, none⟩)]⟩)]⟩,
              ⟨[("/params/P1", pP "p" 1), ("/params/P2", pP "q" 2)], []⟩,
              ⟨[("/params/P1", pP "p" 3), ("/params/P2", pP "q" 4)], []⟩],
    links := [((0, "common.json"), 3), ((0, "sub/items.json"), 1), ((1, "common.json"), 2)],
    schemes := [], globalSec := [] }

def qp (a b : Nat) : List Param := [⟨some "q", some "query", false, a⟩, ⟨some "p", some "query", false, b⟩]

def wPopulateDoc : Doc :=
  { paths := [("/b", .inline ⟨[], [("get", ⟨some "getB", [], .absent, none⟩)]⟩),
              ("/0", .ref "nope.json" "/items/X"),
              ("/c", .inline ⟨[], [("get", ⟨some "getC", [], .absent, none⟩)]⟩)],
    files := [⟨[], []⟩], links := [], schemes := [], globalSec := [] }

end SV.Proofs.C08
