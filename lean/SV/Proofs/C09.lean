/-
  C09 — helper lemmas (not property statements): character classes, the accumulator lemmas of the shell parser,
  the fold lemmas of the curl argument machine.
-/
import SV.Spec.C09

namespace SV.Proofs.C09
open SV.Model.C09 SV.Spec.C09

/-! ### characters -/

theorem safe_facts (c : Char) (h : isSafe c = true) :
    c ≠ NUL ∧ c ≠ ' ' ∧ c ≠ '\t' ∧ c ≠ '\'' ∧ c ≠ '"' ∧ c ≠ '\\' ∧ shSpecial c = false := by
  refine ⟨?_, ?_, ?_, ?_, ?_, ?_, ?_⟩
  · rintro rfl; revert h; decide
  · rintro rfl; revert h; decide
  · rintro rfl; revert h; decide
  · rintro rfl; revert h; decide
  · rintro rfl; revert h; decide
  · rintro rfl; revert h; decide
  · cases hs : shSpecial c with
    | false => rfl
    | true =>
      exfalso
      simp only [shSpecial, Bool.or_eq_true, beq_iff_eq] at hs
      rcases hs with ((((((((((((((((((((rfl | rfl) | rfl) | rfl) | rfl) | rfl) | rfl) | rfl) | rfl) | rfl) | rfl) | rfl)
        | rfl) | rfl) | rfl) | rfl) | rfl) | rfl) | rfl) | rfl) | rfl) <;> revert h <;> decide

theorem noNul_iff (s : Str) : noNul s = true ↔ ∀ c ∈ s, c ≠ NUL := by
  simp only [noNul, Bool.not_eq_true', List.contains_eq_mem, decide_eq_false_iff_not]
  constructor
  · intro h c hc e; exact h (e ▸ hc)
  · intro h hc; exact h _ hc rfl

theorem noNul_cons (c : Char) (s : Str) : noNul (c :: s) = true ↔ c ≠ NUL ∧ noNul s = true := by
  simp only [noNul_iff, List.mem_cons, forall_eq_or_imp]

/-! ### the shell parser on what `shlex.quote` emits -/

/-- inside single quotes: the escaped text followed by the closing quote yields exactly the text -/
theorem shGo_sq (s : Str) (hs : noNul s = true) (cur : Str) (done : List Str) (rest : Str) :
    shGo .sq true cur done (escSq s ++ '\'' :: rest) = shGo .un true (s.reverse ++ cur) done rest := by
  induction s generalizing cur with
  | nil => simp [escSq, shGo, NUL]
  | cons c cs ih =>
    obtain ⟨hc, hcs⟩ := (noNul_cons c cs).1 hs
    by_cases hq : c = '\''
    · subst hq
      have := ih hcs ('\'' :: cur)
      simp [escSq, shGo, NUL, this]
    · have := ih hcs (c :: cur)
      simp [escSq, shGo, hq, hc, this]

/-- a run of safe characters outside quotes is taken literally -/
theorem shGo_safe (s : Str) (hs : s.all isSafe = true) (w : Bool) (cur : Str) (done : List Str) (rest : Str) :
    shGo .un w cur done (s ++ rest) = shGo .un (w || !s.isEmpty) (s.reverse ++ cur) done rest := by
  induction s generalizing w cur with
  | nil => simp
  | cons c cs ih =>
    simp only [List.all_cons, Bool.and_eq_true] at hs
    obtain ⟨h0, h1, h2, h3, h4, h5, h6⟩ := safe_facts c hs.1
    have := ih hs.2 true (c :: cur)
    simp [shGo, h0, h1, h2, h3, h4, h5, h6, this]

/-- one quoted word, in any context -/
theorem shGo_quote (s : Str) (hs : noNul s = true) (w : Bool) (cur : Str) (done : List Str) (rest : Str) :
    shGo .un w cur done (shlexQuote s ++ rest) = shGo .un true (s.reverse ++ cur) done rest := by
  unfold shlexQuote
  by_cases he : s.isEmpty = true
  · have : s = [] := by simpa using he
    subst this
    simp [shGo, NUL]
  · by_cases ha : s.all isSafe = true
    · have hne : (!s.isEmpty) = true := by simpa using he
      simp only [he, ha, if_true, Bool.false_eq_true, if_false]
      rw [shGo_safe s ha, hne, Bool.or_true]
    · simp only [he, ha, Bool.false_eq_true, if_false]
      have := shGo_sq s hs cur done rest
      simp [shGo, NUL, this]

/-- the tail of a rendered command: each further word is a separator followed by a quoted word -/
theorem shGo_renderTail (ws : List Str) (hws : ∀ w ∈ ws, noNul w = true) (cur : Str) (done : List Str) :
    shGo .un true cur done (renderTail ws) = some (done.reverse ++ cur.reverse :: ws) := by
  induction ws generalizing cur done with
  | nil => simp [renderTail, shGo, pushWord]
  | cons x xs ih =>
    have hx := hws x (by simp)
    have ih' := ih (fun w hw => hws w (by simp [hw])) x.reverse (cur.reverse :: done)
    have hq := shGo_quote x hx false [] (cur.reverse :: done) (renderTail xs)
    simp only [List.append_nil] at hq
    have hrt : renderTail (x :: xs) = ' ' :: (shlexQuote x ++ renderTail xs) := by simp [renderTail]
    rw [hrt]
    simp only [shGo, NUL, pushWord]
    simp [hq, ih']

/-! ### `generate` is the rendering of `argvOf` -/

theorem renderTail_append (a b : List Str) : renderTail (a ++ b) = renderTail a ++ renderTail b := by
  simp [renderTail]

theorem renderTail_headerArgs (v : Variant) (hs : List (Str × Str)) :
    renderTail (headerArgs v hs) = headersPart v hs := by
  induction hs with
  | nil => rfl
  | cons kv rest ih =>
    have hq : shlexQuote ['-', 'H'] = ['-', 'H'] := by decide
    have : headerArgs v (kv :: rest) = [['-', 'H'], headerArg v kv.1 kv.2] ++ headerArgs v rest := by
      simp [headerArgs]
    rw [this, renderTail_append, ih]
    simp [renderTail, headersPart, hq]

theorem renderTail_dataArgs (v : Variant) (b : Option Str) : renderTail (dataArgs v b) = dataPart v b := by
  have hd : shlexQuote ['-', 'd'] = ['-', 'd'] := by decide
  have hr : shlexQuote "--data-raw".toList = "--data-raw".toList := by decide
  simp only [String.reduceToList] at hr
  cases b with
  | none => rfl
  | some b =>
    by_cases he : b.isEmpty = true
    · simp [dataArgs, dataPart, he, renderTail]
    · cases v with
      | asFound => simp [dataArgs, dataPart, he, renderTail, hd]
      | repaired =>
        by_cases ha : startsWithAt b = true
        · simp [dataArgs, dataPart, he, ha, renderTail, hr]
        · simp [dataArgs, dataPart, he, ha, renderTail, hd]

theorem renderTail_insecureArgs (verify : Bool) : renderTail (insecureArgs verify) = insecurePart verify := by
  have hi : shlexQuote "--insecure".toList = "--insecure".toList := by decide
  simp only [String.reduceToList] at hi
  cases verify <;> simp [insecureArgs, insecurePart, renderTail, hi]

theorem quote_safe (m : Str) (h : methodOk m = true) : shlexQuote m = m := by
  simp only [methodOk, Bool.and_eq_true, Bool.not_eq_true'] at h
  simp [shlexQuote, h.1, h.2]

theorem generate_eq_render (vs : Variants) (tbl : Table) (r : Req) (hm : methodOk r.method = true) :
    generate vs tbl r = render (argvOf vs tbl r) := by
  have hc : shlexQuote "curl".toList = "curl".toList := by decide
  have hx : shlexQuote ['-', 'X'] = ['-', 'X'] := by decide
  have hcons : ∀ (a b : Str) (t : List Str), renderTail (a :: b :: t) = renderTail [a, b] ++ renderTail t := by
    intro a b t; simp [renderTail]
  unfold generate argvOf
  simp only [render]
  rw [hcons, renderTail_append, renderTail_append, renderTail_append, renderTail_headerArgs, renderTail_dataArgs,
    renderTail_insecureArgs, hc]
  simp [renderTail, hx, quote_safe r.method hm]

/-! ### the curl argument machine -/

theorem startsWithAt_append (k t : Str) (hk : k.isEmpty = false) : startsWithAt (k ++ t) = startsWithAt k := by
  cases k with
  | nil => simp at hk
  | cons c cs => by_cases hc : c = '@' <;> simp [startsWithAt, hc]

theorem splitFirst_append (p : Char) (k rest : Str) (hk : p ∉ k) : splitFirst p (k ++ p :: rest) = some (k, rest) := by
  induction k with
  | nil => simp [splitFirst]
  | cons c cs ih =>
    have hc : c ≠ p := fun e => hk (by simp [e])
    have := ih (fun h => hk (by simp [h]))
    simp [splitFirst, hc, this]

theorem splitFirst_none (p : Char) (k : Str) (hk : p ∉ k) : splitFirst p k = none := by
  induction k with
  | nil => rfl
  | cons c cs ih =>
    have hc : c ≠ p := fun e => hk (by simp [e])
    have := ih (fun h => hk (by simp [h]))
    simp [splitFirst, hc, this]

theorem nameOk_facts (k : Str) (h : nameOk k = true) :
    k.isEmpty = false ∧ ':' ∉ k ∧ ';' ∉ k ∧ startsWithAt k = false ∧ noNul k = true := by
  simpa [nameOk, and_assoc] using h

/-- what the header text of the code as found puts on the wire -/
theorem headerSent_colon (k v : Str) (hk : nameOk k = true) (hv : valueOk v = true) :
    headerSent (k ++ ':' :: ' ' :: v) = if v.isEmpty then none else some (k, v) := by
  obtain ⟨hne, hcol, _, _, _⟩ := nameOk_facts k hk
  unfold headerSent
  rw [splitFirst_append ':' k _ hcol]
  cases v with
  | nil => simp [hne, isCurlSpace]
  | cons c cs =>
    have hc : isCurlSpace c = false := by
      have : noNul (c :: cs) = true ∧ isCurlSpace c = false := by simpa [valueOk] using hv
      exact this.2
    have hsp : isCurlSpace ' ' = true := by decide
    simp [hne, List.dropWhile, hc, hsp]

/-- what the header text of the repaired code puts on the wire -/
theorem headerSent_repaired (k v : Str) (hk : nameOk k = true) (hv : valueOk v = true) :
    headerSent (headerArg .repaired k v) = some (k, v) := by
  obtain ⟨hne, hcol, hsemi, _, _⟩ := nameOk_facts k hk
  cases v with
  | nil =>
    have h1 : splitFirst ':' (k ++ [';']) = none :=
      splitFirst_none ':' _ (by simp [hcol])
    have h2 : splitFirst ';' (k ++ [';']) = some (k, []) := splitFirst_append ';' k [] hsemi
    simp [headerArg, headerSent, h1, h2]
  | cons c cs =>
    have := headerSent_colon k (c :: cs) hk hv
    simpa [headerArg] using this

theorem headerArg_noAt (v : Variant) (k val : Str) (hk : nameOk k = true) : startsWithAt (headerArg v k val) = false := by
  obtain ⟨hne, _, _, hat, _⟩ := nameOk_facts k hk
  cases v with
  | asFound => simp [headerArg, startsWithAt_append k _ hne, hat]
  | repaired =>
    by_cases he : val.isEmpty = true <;> simp [headerArg, he, startsWithAt_append k _ hne, hat]

/-- the custom headers a list of kept headers puts on the wire -/
def sentOf (v : Variant) (kv : Str × Str) : Option (Str × Str) := headerSent (headerArg v kv.1 kv.2)

theorem fold_headerArgs (v : Variant) (hs : List (Str × Str)) (hok : ∀ kv ∈ hs, nameOk kv.1 = true)
    (m : Option Str) (hd : List (Str × Str)) (d : Option Str) (i g : Bool) (u : List Str) (rf un : Bool) :
    (headerArgs v hs).foldl curlStep ⟨.none, m, hd, d, i, g, u, rf, un⟩
      = ⟨.none, m, hd ++ hs.filterMap (sentOf v), d, i, g, u, rf, un⟩ := by
  induction hs generalizing hd with
  | nil => simp [headerArgs]
  | cons kv rest ih =>
    have hk := hok kv (by simp)
    have hat := headerArg_noAt v kv.1 kv.2 hk
    have hcl : classify ['-', 'H'] = .header := by decide
    have hsplit : headerArgs v (kv :: rest) = ['-', 'H'] :: headerArg v kv.1 kv.2 :: headerArgs v rest := by
      simp [headerArgs]
    rw [hsplit, List.foldl_cons, List.foldl_cons]
    have ih' := ih (fun x hx => hok x (by simp [hx]))
    cases hsent : headerSent (headerArg v kv.1 kv.2) with
    | none =>
      have : sentOf v kv = none := hsent
      simp [curlStep, hcl, hat, hsent, ih', this]
    | some x =>
      have : sentOf v kv = some x := hsent
      simp [curlStep, hcl, hat, hsent, ih', this]

theorem classify_url (u : Str) (hu : urlOk u = true) : classify u = .positional := by
  cases u with
  | nil => simp [urlOk] at hu
  | cons c cs =>
    have hc : c ≠ '-' := by
      simp only [urlOk, Bool.and_eq_true, bne_iff_ne] at hu
      exact hu.2
    simp [classify, hc]

def bodyStartsAt : Option Str → Bool
  | some b => startsWithAt b
  | none => false

theorem bodyOf_some (b : Str) (h : b.isEmpty = false) : bodyOf (some b) = some b := by
  cases b with
  | nil => simp at h
  | cons c cs => rfl

/-- the argument vector of the command, interpreted by curl -/
theorem curlSem_argvOf (vs : Variants) (tbl : Table) (r : Req) (hwf : wf r = true) :
    curlSem (argvOf vs tbl r) =
      if vs.dataAt = .asFound ∧ bodyStartsAt (bodyOf r.body) = true then .readsFile
      else .request r.method r.url ((filterHeaders vs.filter tbl r.known r.headers).filterMap (sentOf vs.emptyHeader))
        (bodyOf r.body) (!r.verify) := by
  obtain ⟨method, url, body, verify, headers, known⟩ := r
  obtain ⟨ve, vd, vf⟩ := vs
  simp only [wf, Bool.and_eq_true, List.all_eq_true] at hwf
  obtain ⟨⟨⟨_, hurl⟩, _⟩, hhs⟩ := hwf
  simp only at hurl hhs ⊢
  have hkept : ∀ kv ∈ filterHeaders vf tbl known headers, nameOk kv.1 = true := by
    intro kv hkv
    have : kv ∈ headers := (List.mem_filter.1 hkv).1
    exact (hhs kv this).1
  have hglob : globSafe url = true := by
    simp only [urlOk, Bool.and_eq_true] at hurl
    exact hurl.1.2
  have hX : classify ['-', 'X'] = .request := by decide
  have hd : classify ['-', 'd'] = .data := by decide
  have hraw : classify "--data-raw".toList = .dataRaw := by decide
  have hins : classify "--insecure".toList = .insecure := by decide
  simp only [String.reduceToList] at hraw hins
  have hu := classify_url url hurl
  unfold curlSem argvOf curlArgs
  simp only [if_true, List.foldl_cons, List.foldl_append, List.foldl_nil]
  have h0 : curlStep (curlStep CurlSt.init ['-', 'X']) method = ⟨.none, some method, [], none, false, false, [], false, false⟩ := by
    simp [curlStep, CurlSt.init, hX]
  rw [h0, fold_headerArgs ve _ hkept]
  simp only [List.nil_append]
  cases body with
  | none =>
    cases verify <;> simp [dataArgs, insecureArgs, bodyOf, bodyStartsAt, curlStep, hins, hu, curlFinish, hglob]
  | some b =>
    cases b with
    | nil => cases verify <;> simp [dataArgs, insecureArgs, bodyOf, bodyStartsAt, curlStep, hins, hu, curlFinish, hglob]
    | cons c cs =>
      by_cases hat : startsWithAt (c :: cs) = true
      · cases vd <;> cases verify <;>
          simp [dataArgs, insecureArgs, bodyOf, bodyStartsAt, curlStep, hins, hd, hraw, hu, curlFinish, hglob, hat, addData]
      · cases vd <;> cases verify <;>
          simp [dataArgs, insecureArgs, bodyOf, bodyStartsAt, curlStep, hins, hd, hu, curlFinish, hglob, hat, addData]

/-! ### from the two halves to `reproduces` -/

theorem shParse_render (ws : List Str) (hws : ∀ w ∈ ws, noNul w = true) : shParse (render ws) = some ws := by
  cases ws with
  | nil => rfl
  | cons w rest =>
    have hq := shGo_quote w (hws w (by simp)) false [] [] (renderTail rest)
    have ht := shGo_renderTail rest (fun x hx => hws x (by simp [hx])) w.reverse []
    simp only [List.append_nil] at hq
    simp [shParse, render, hq, ht]

theorem noNul_append (a b : Str) : noNul (a ++ b) = true ↔ noNul a = true ∧ noNul b = true := by
  simp only [noNul_iff, List.mem_append]
  constructor
  · intro h; exact ⟨fun c hc => h c (Or.inl hc), fun c hc => h c (Or.inr hc)⟩
  · rintro ⟨h1, h2⟩ c (hc | hc)
    · exact h1 c hc
    · exact h2 c hc

theorem noNul_safe (m : Str) (h : m.all isSafe = true) : noNul m = true := by
  rw [noNul_iff]
  intro c hc
  exact (safe_facts c (List.all_eq_true.1 h c hc)).1

theorem valueOk_noNul (v : Str) (h : valueOk v = true) : noNul v = true := by
  simp only [valueOk, Bool.and_eq_true] at h
  exact h.1

theorem headerArg_noNul (v : Variant) (k val : Str) (hk : nameOk k = true) (hv : valueOk val = true) :
    noNul (headerArg v k val) = true := by
  obtain ⟨_, _, _, _, hkn⟩ := nameOk_facts k hk
  have hvn := valueOk_noNul val hv
  have h2 : noNul (':' :: ' ' :: val) = true := by
    rw [noNul_cons, noNul_cons]; exact ⟨by decide, by decide, hvn⟩
  have h3 : noNul [';'] = true := by decide
  cases v with
  | asFound => simp only [headerArg]; exact (noNul_append _ _).2 ⟨hkn, h2⟩
  | repaired =>
    by_cases he : val.isEmpty = true
    · simp only [headerArg, he, if_true]; exact (noNul_append _ _).2 ⟨hkn, h3⟩
    · simp only [headerArg, he, Bool.false_eq_true, if_false]; exact (noNul_append _ _).2 ⟨hkn, h2⟩

theorem argvOf_noNul (vs : Variants) (tbl : Table) (r : Req) (hwf : wf r = true) :
    ∀ w ∈ argvOf vs tbl r, noNul w = true := by
  obtain ⟨method, url, body, verify, headers, known⟩ := r
  obtain ⟨ve, vd, vf⟩ := vs
  simp only [wf, Bool.and_eq_true, List.all_eq_true] at hwf
  obtain ⟨⟨⟨hm, hurl⟩, hb⟩, hhs⟩ := hwf
  have hmn : noNul method = true := by
    simp only [methodOk, Bool.and_eq_true] at hm
    exact noNul_safe method hm.2
  have hun : noNul url = true := by
    simp only [urlOk, Bool.and_eq_true] at hurl
    exact hurl.1.1
  intro w hw
  simp only [argvOf, List.mem_cons, List.mem_append, List.mem_nil_iff, or_false] at hw
  rcases hw with rfl | rfl | rfl | ((hw | hw) | hw) | rfl
  · decide
  · decide
  · exact hmn
  · simp only [headerArgs, List.mem_flatMap, List.mem_cons, List.mem_nil_iff, or_false] at hw
    obtain ⟨kv, hkv, rfl | rfl⟩ := hw
    · decide
    · have hmem : kv ∈ headers := (List.mem_filter.1 hkv).1
      exact headerArg_noNul ve kv.1 kv.2 (hhs kv hmem).1 (hhs kv hmem).2
  · cases body with
    | none => simp [dataArgs] at hw
    | some b =>
      have hbn : noNul b = true := hb
      by_cases he : b.isEmpty = true
      · simp [dataArgs, he] at hw
      · cases vd with
        | asFound =>
          simp only [dataArgs, he, Bool.false_eq_true, if_false, List.mem_cons, List.mem_nil_iff, or_false] at hw
          rcases hw with rfl | rfl
          · decide
          · exact hbn
        | repaired =>
          by_cases ha : startsWithAt b = true
          · simp only [dataArgs, he, ha, if_true, Bool.false_eq_true, if_false, List.mem_cons, List.mem_nil_iff,
              or_false] at hw
            rcases hw with rfl | rfl
            · decide
            · exact hbn
          · simp only [dataArgs, he, ha, Bool.false_eq_true, if_false, List.mem_cons, List.mem_nil_iff,
              or_false] at hw
            rcases hw with rfl | rfl
            · decide
            · exact hbn
  · cases verify with
    | true => simp [insecureArgs] at hw
    | false =>
      simp only [insecureArgs, Bool.false_eq_true, if_false, List.mem_cons, List.mem_nil_iff, or_false] at hw
      subst hw; decide
  · exact hun

theorem filterMap_id_of {α} (f : α → Option α) (l : List α) (h : ∀ x ∈ l, f x = some x) : l.filterMap f = l := by
  induction l with
  | nil => rfl
  | cons a as ih =>
    have ha := h a (by simp)
    have := ih (fun x hx => h x (by simp [hx]))
    simp [ha, this]

theorem filterMap_filter_of {α} (f : α → Option α) (p : α → Bool) (l : List α)
    (h : ∀ x ∈ l, f x = if p x then some x else none) : l.filterMap f = l.filter p := by
  induction l with
  | nil => rfl
  | cons a as ih =>
    have ha := h a (by simp)
    have := ih (fun x hx => h x (by simp [hx]))
    by_cases hp : p a = true <;> simp [ha, hp, this]

theorem sentOf_repaired (kv : Str × Str) (hk : nameOk kv.1 = true) (hv : valueOk kv.2 = true) :
    sentOf .repaired kv = some kv := by
  simp [sentOf, headerSent_repaired kv.1 kv.2 hk hv]

theorem sentOf_asFound (kv : Str × Str) (hk : nameOk kv.1 = true) (hv : valueOk kv.2 = true) :
    sentOf .asFound kv = if !kv.2.isEmpty then some kv else none := by
  have := headerSent_colon kv.1 kv.2 hk hv
  by_cases he : kv.2.isEmpty = true <;> simp [sentOf, headerArg, this, he]

/-- the headers on the wire are a sub-list of the kept headers, whatever the variant -/
theorem sent_eq (ve : Variant) (kept : List (Str × Str)) (h : ∀ kv ∈ kept, nameOk kv.1 = true ∧ valueOk kv.2 = true) :
    kept.filterMap (sentOf ve) = match ve with
      | .repaired => kept
      | .asFound => kept.filter fun kv => !kv.2.isEmpty := by
  cases ve with
  | repaired => exact filterMap_id_of _ _ fun kv hkv => sentOf_repaired kv (h kv hkv).1 (h kv hkv).2
  | asFound => exact filterMap_filter_of _ _ _ fun kv hkv => sentOf_asFound kv (h kv hkv).1 (h kv hkv).2

theorem bodyOf_idem (b : Option Str) : bodyOf (bodyOf b) = bodyOf b := by
  cases b with
  | none => rfl
  | some s => cases s <;> rfl

/-- `reproduces` reduced to a statement about the headers on the wire -/
theorem reproduces_iff (vs : Variants) (tbl auto : Table) (r : Req) (hwf : wf r = true) :
    reproduces auto (original r) (generate vs tbl r) =
      (!(decide (vs.dataAt = .asFound) && bodyStartsAt (bodyOf r.body)) &&
        headersOk auto r.headers ((filterHeaders vs.filter tbl r.known r.headers).filterMap (sentOf vs.emptyHeader))) := by
  have hm : methodOk r.method = true := by
    simp only [wf, Bool.and_eq_true] at hwf
    exact hwf.1.1.1
  unfold reproduces
  rw [generate_eq_render vs tbl r hm, shParse_render _ (argvOf_noNul vs tbl r hwf)]
  simp only [curlSem_argvOf vs tbl r hwf]
  by_cases hc : vs.dataAt = .asFound ∧ bodyStartsAt (bodyOf r.body) = true
  · simp [hc, sameRequest]
  · have : (decide (vs.dataAt = .asFound) && bodyStartsAt (bodyOf r.body)) = false := by
      simp only [not_and, Bool.not_eq_true] at hc
      by_cases hd : vs.dataAt = .asFound
      · simp [hd, hc hd]
      · simp [hd]
    simp [hc, this, sameRequest, original, bodyOf_idem]

/-! ### UTF-8: decoding the encoding of a text -/

theorem char_valid (c : Char) : c.toNat < 0xd800 ∨ (0xdfff < c.toNat ∧ c.toNat < 0x110000) := by
  have := c.valid
  simp only [Char.toNat, UInt32.isValidChar, Nat.isValidChar] at *
  omega

theorem ofNat_toNat (c : Char) : Char.ofNat c.toNat = c := by
  simp

theorem utf8Go_enc (c : Char) (fuel : Nat) (rest : List Nat) :
    utf8Go (fuel + 1) (utf8Enc c ++ rest) = c :: utf8Go fuel rest := by
  have hv := char_valid c
  have hc := ofNat_toNat c
  generalize hvv : c.toNat = v at hv hc
  unfold utf8Enc
  simp only [hvv]
  have fin : ∀ n, n = v → Char.ofNat n = c := by intro n hn; rw [hn]; exact hc
  by_cases h1 : v ≤ 0x7f
  · have : v < 0x80 := by omega
    simp [h1, utf8Go, this, hc]
  · by_cases h2 : v ≤ 0x7ff
    · have a1 : ¬ (v / 64 % 32 + 192 < 128) := by omega
      have a2 : ¬ (v / 64 % 32 + 192 < 194) := by omega
      have a3 : v / 64 % 32 + 192 < 224 := by omega
      have a4 : isCont (v % 64 + 128) = true := by simp [isCont]; omega
      simp [h1, h2, utf8Go, a1, a2, a3, a4]
      apply fin; omega
    · by_cases h3 : v ≤ 0xffff
      · have a1 : ¬ (v / 4096 % 16 + 224 < 128) := by omega
        have a2 : ¬ (v / 4096 % 16 + 224 < 194) := by omega
        have a3 : ¬ (v / 4096 % 16 + 224 < 224) := by omega
        have a4 : v / 4096 % 16 + 224 < 240 := by omega
        have a5 : (lo3 (v / 4096 % 16 + 224) ≤ v / 64 % 64 + 128 && v / 64 % 64 + 128 ≤ hi3 (v / 4096 % 16 + 224)) = true := by
          simp only [lo3, hi3, Bool.and_eq_true, decide_eq_true_eq, beq_iff_eq]
          constructor
          · split <;> omega
          · split <;> omega
        have a6 : isCont (v % 64 + 128) = true := by simp [isCont]; omega
        simp [h1, h2, h3, utf8Go, a1, a2, a3, a4, a5, a6]
        apply fin; omega
      · have a1 : ¬ (v / 262144 % 8 + 240 < 128) := by omega
        have a2 : ¬ (v / 262144 % 8 + 240 < 194) := by omega
        have a3 : ¬ (v / 262144 % 8 + 240 < 224) := by omega
        have a4 : ¬ (v / 262144 % 8 + 240 < 240) := by omega
        have a4' : v / 262144 % 8 + 240 < 245 := by omega
        have a5 : (lo4 (v / 262144 % 8 + 240) ≤ v / 4096 % 64 + 128 && v / 4096 % 64 + 128 ≤ hi4 (v / 262144 % 8 + 240)) = true := by
          simp only [lo4, hi4, Bool.and_eq_true, decide_eq_true_eq, beq_iff_eq]
          constructor
          · split <;> omega
          · split <;> omega
        have a6 : isCont (v / 64 % 64 + 128) = true := by simp [isCont]; omega
        have a7 : isCont (v % 64 + 128) = true := by simp [isCont]; omega
        simp [h1, h2, h3, utf8Go, a1, a2, a3, a4, a4', a5, a6, a7]
        apply fin; omega

theorem enc_length_pos (c : Char) : 1 ≤ (utf8Enc c).length := by
  unfold utf8Enc; simp only; split
  · simp
  · split
    · simp
    · split <;> simp

theorem utf8Go_text (s : Str) (fuel : Nat) (h : s.length ≤ fuel) : utf8Go fuel (s.flatMap utf8Enc) = s := by
  induction s generalizing fuel with
  | nil => cases fuel <;> simp [utf8Go]
  | cons c cs ih =>
    cases fuel with
    | zero => simp at h
    | succ f =>
      simp only [List.flatMap_cons]
      rw [utf8Go_enc, ih f (by simp at h; omega)]

theorem flatMap_len (s : Str) : s.length ≤ (s.flatMap utf8Enc).length := by
  induction s with
  | nil => simp
  | cons c cs ih =>
    have := enc_length_pos c
    simp only [List.flatMap_cons, List.length_append, List.length_cons]
    omega

/-! ### the recorder: dict lemmas, last-write-wins -/

theorem dGet_dSet {α : Type} (d : List (Str × α)) (k k' : Str) (v : α) :
    dGet (dSet d k v) k' = if k = k' then some v else dGet d k' := by
  induction d with
  | nil => simp [dSet, dGet]
  | cons e rest ih =>
    obtain ⟨k0, v0⟩ := e
    by_cases h0 : k0 = k
    · subst h0
      by_cases h1 : k0 = k' <;> simp [dSet, dGet, h1]
    · by_cases h1 : k0 = k'
      · subst h1
        simp [dSet, dGet, h0, Ne.symm h0]
      · simp [dSet, dGet, h0, h1, ih]

theorem failingId_eq (p : Str) (f : Option Str) : reportedId p f = failingId p f := by
  unfold reportedId failingId
  cases f with
  | none => rfl
  | some n => cases n <;> rfl

theorem step_cases {σ : Type} (mk : FailureData → σ) (st : Recorder σ) (op : Op) (id : Str) :
    (dGet (step mk st op).cases id).map (·.value) = (caseWrite id op).or ((dGet st.cases id).map (·.value)) := by
  cases op with
  | recordCase p c =>
    by_cases h : c.id = id <;> simp [step, caseWrite, dGet_dSet, h]
  | recordResponse i r v => simp [step, caseWrite]
  | recordRequest i r => simp [step, caseWrite]
  | checkSuccess n i => simp [step, caseWrite]
  | onFailure n pid f =>
    simp only [step, caseWrite]
    cases findFailureData st pid f <;> simp

theorem step_interactions {σ : Type} (mk : FailureData → σ) (st : Recorder σ) (op : Op) (id : Str) :
    dGet (step mk st op).interactions id = (sentWrite id op).or (dGet st.interactions id) := by
  cases op with
  | recordCase p c => simp [step, sentWrite]
  | recordResponse i r v => by_cases h : i = id <;> simp [step, sentWrite, dGet_dSet, h]
  | recordRequest i r => by_cases h : i = id <;> simp [step, sentWrite, dGet_dSet, h]
  | checkSuccess n i => simp [step, sentWrite]
  | onFailure n pid f =>
    simp only [step, sentWrite]
    cases findFailureData st pid f <;> simp

theorem foldl_cases {σ : Type} (mk : FailureData → σ) (h : List Op) (st : Recorder σ) (id : Str) :
    (dGet (h.foldl (step mk) st).cases id).map (·.value)
      = (h.reverse.findSome? (caseWrite id)).or ((dGet st.cases id).map (·.value)) := by
  induction h generalizing st with
  | nil => simp
  | cons op rest ih =>
    simp only [List.foldl_cons, List.reverse_cons, List.findSome?_append]
    rw [ih, step_cases]
    simp only [List.findSome?_cons, List.findSome?_nil]
    generalize List.findSome? (caseWrite id) rest.reverse = a
    generalize caseWrite id op = b
    cases a <;> cases b <;> simp

theorem foldl_interactions {σ : Type} (mk : FailureData → σ) (h : List Op) (st : Recorder σ) (id : Str) :
    dGet (h.foldl (step mk) st).interactions id
      = (h.reverse.findSome? (sentWrite id)).or (dGet st.interactions id) := by
  induction h generalizing st with
  | nil => simp
  | cons op rest ih =>
    simp only [List.foldl_cons, List.reverse_cons, List.findSome?_append]
    rw [ih, step_interactions]
    simp only [List.findSome?_cons, List.findSome?_nil]
    generalize List.findSome? (sentWrite id) rest.reverse = a
    generalize sentWrite id op = b
    cases a <;> cases b <;> simp

theorem run_cases {σ : Type} (mk : FailureData → σ) (h : List Op) (id : Str) :
    (dGet (run mk h).cases id).map (·.value) = lastCase h id := by
  simp [run, lastCase, foldl_cases, Recorder.empty, dGet]

theorem run_interactions {σ : Type} (mk : FailureData → σ) (h : List Op) (id : Str) :
    dGet (run mk h).interactions id = lastSent h id := by
  simp [run, lastSent, foldl_interactions, Recorder.empty, dGet]

theorem findFailureData_run {σ : Type} (mk : FailureData → σ) (h : List Op) (pid : Str) (f : Option Str) :
    findFailureData (run mk h) pid f = expectedData h (failingId pid f) := by
  unfold findFailureData expectedData
  simp only [failingId_eq]
  rw [← run_cases mk h, ← run_interactions mk h]
  cases hc : dGet (run mk h).cases (failingId pid f) with
  | none => simp
  | some node =>
    simp only [Option.map_some]
    cases hi : dGet (run mk h).interactions (failingId pid f) with
    | none => rfl
    | some ia =>
      cases hv : ia.verify with
      | none => simp [hv]
      | some v =>
        simp only [hv]
        cases hh : firstValues ia.request.headers <;> simp

theorem lastCase_id (h : List Op) (id : Str) (c : CaseVal) (hc : lastCase h id = some c) : c.id = id := by
  unfold lastCase at hc
  obtain ⟨op, _, hop⟩ := List.exists_of_findSome?_eq_some hc
  cases op <;> simp [caseWrite] at hop
  obtain ⟨h1, h2⟩ := hop
  subst h2; exact h1

theorem expectedData_id (h : List Op) (id : Str) (fd : FailureData) (hfd : expectedData h id = .ok fd) :
    fd.case.id = id := by
  unfold expectedData at hfd
  split at hfd
  · cases hfd
  · rename_i c hc
    split at hfd
    · cases hfd
    · split at hfd
      · cases hfd
      · split at hfd
        · cases hfd; exact lastCase_id h id c hc
        · cases hfd

/-! ### every stored sample was built for the case it is stored under -/

theorem dGet_appendCheck {σ : Type} (d : List (Str × List (CheckNode σ))) (k0 k : Str) (node : CheckNode σ) :
    dGet (appendCheck d k0 node) k = if k0 = k then some ((dGet d k0).getD [] ++ [node]) else dGet d k := by
  unfold appendCheck
  exact dGet_dSet d k0 k _

/-- every failed check stored under `k` carries the sample built from what the specification selects for `k`
    after some prefix of the history -/
def SamplesOk {σ : Type} (mk : FailureData → σ) (h : List Op) (st : Recorder σ) : Prop :=
  ∀ k nodes node s, dGet st.checks k = some nodes → node ∈ nodes → node.sample = some s →
    ∃ n fd, n ≤ h.length ∧ expectedData (h.take n) k = .ok fd ∧ s = mk fd

theorem run_snoc {σ : Type} (mk : FailureData → σ) (h : List Op) (op : Op) :
    run mk (h ++ [op]) = step mk (run mk h) op := by
  simp [run, List.foldl_append]

theorem samplesOk_mono {σ : Type} (mk : FailureData → σ) (h : List Op) (op : Op) (k : Str) (s : σ)
    (hx : ∃ n fd, n ≤ h.length ∧ expectedData (h.take n) k = .ok fd ∧ s = mk fd) :
    ∃ n fd, n ≤ (h ++ [op]).length ∧ expectedData ((h ++ [op]).take n) k = .ok fd ∧ s = mk fd := by
  obtain ⟨n, fd, hn, he, hs⟩ := hx
  refine ⟨n, fd, by simp; omega, ?_, hs⟩
  rw [List.take_append_of_le_length hn]
  exact he

theorem mem_getD_append {σ : Type} (old : Option (List (CheckNode σ))) (new node : CheckNode σ)
    (hm : node ∈ old.getD [] ++ [new]) : (∃ nodes, old = some nodes ∧ node ∈ nodes) ∨ node = new := by
  rcases List.mem_append.1 hm with h | h
  · cases old with
    | none => simp at h
    | some nodes => exact Or.inl ⟨nodes, rfl, by simpa using h⟩
  · exact Or.inr (by simpa using h)

theorem samplesOk_step {σ : Type} (mk : FailureData → σ) (h : List Op) (op : Op)
    (hinv : SamplesOk mk h (run mk h)) : SamplesOk mk (h ++ [op]) (run mk (h ++ [op])) := by
  rw [run_snoc]
  intro k nodes node s hk hmem hs
  cases op with
  | recordCase p c => exact samplesOk_mono mk h _ k s (hinv k nodes node s (by simpa [step] using hk) hmem hs)
  | recordResponse i r v => exact samplesOk_mono mk h _ k s (hinv k nodes node s (by simpa [step] using hk) hmem hs)
  | recordRequest i r => exact samplesOk_mono mk h _ k s (hinv k nodes node s (by simpa [step] using hk) hmem hs)
  | checkSuccess n i =>
    simp only [step, dGet_appendCheck] at hk
    by_cases hik : i = k
    · simp only [hik, if_true, Option.some.injEq] at hk
      subst hk
      rcases mem_getD_append _ _ _ hmem with ⟨old, ho, hm⟩ | hnew
      · exact samplesOk_mono mk h _ k s (hinv k old node s ho hm hs)
      · subst hnew; simp at hs
    · simp only [hik, if_false] at hk
      exact samplesOk_mono mk h _ k s (hinv k nodes node s hk hmem hs)
  | onFailure n pid f =>
    simp only [step] at hk
    cases hfd : findFailureData (run mk h) pid f with
    | error e =>
      simp only [hfd] at hk
      exact samplesOk_mono mk h _ k s (hinv k nodes node s hk hmem hs)
    | ok fd =>
      simp only [hfd, dGet_appendCheck] at hk
      rw [findFailureData_run] at hfd
      have hid := expectedData_id h _ fd hfd
      by_cases hik : fd.case.id = k
      · simp only [hik, if_true, Option.some.injEq] at hk
        subst hk
        rcases mem_getD_append _ _ _ hmem with ⟨old, ho, hm⟩ | hnew
        · exact samplesOk_mono mk h _ k s (hinv k old node s ho hm hs)
        · subst hnew
          simp only [Option.some.injEq] at hs
          refine ⟨h.length, fd, by simp, ?_, hs.symm⟩
          rw [List.take_append_of_le_length (Nat.le_refl _), List.take_length, ← hik, hid]
          exact hfd
      · simp only [hik, if_false] at hk
        exact samplesOk_mono mk h _ k s (hinv k nodes node s hk hmem hs)

theorem samplesOk_append {σ : Type} (mk : FailureData → σ) (h1 h0 : List Op)
    (hinv : SamplesOk mk h0 (run mk h0)) : SamplesOk mk (h0 ++ h1) (run mk (h0 ++ h1)) := by
  induction h1 generalizing h0 with
  | nil => simpa using hinv
  | cons op rest ih =>
    have := ih (h0 ++ [op]) (samplesOk_step mk h0 op hinv)
    simpa using this

theorem samplesOk_run {σ : Type} (mk : FailureData → σ) (h : List Op) : SamplesOk mk h (run mk h) := by
  have := samplesOk_append mk h [] (by intro k nodes node s hk; simp [run, Recorder.empty, dGet] at hk)
  simpa using this

/-! ### a concrete scenario of the `ignored_auth` shape (used by the witnesses and non-vacuity examples) -/

def wUrl : Str := "http://h/reports?page=1".toList
def wParentReq : RecRequest :=
  ⟨"GET".toList, wUrl, none, [("X-API-Key".toList, ["valid-key".toList]), ("X-Tenant".toList, ["it's acme".toList])]⟩
def wDerivedReq : RecRequest := ⟨"GET".toList, wUrl, none, [("X-Tenant".toList, ["it's acme".toList])]⟩

/-- the case is sent with the user's key and passes; the check derives a case without the key, sends it, and reports
    the failure for the derived case -/
def wHistory : List Op :=
  [.recordCase none ⟨"P".toList, 0⟩, .recordResponse "P".toList wParentReq true,
   .recordCase (some "P".toList) ⟨"D".toList, 1⟩, .recordResponse "D".toList wDerivedReq false,
   .onFailure "ignored_auth".toList "P".toList (some "D".toList)]

/-- a `prepare_request` that puts the passed headers on a fixed GET -/
def wPrep : Nat → List (Str × Str) → Prepared := fun _ hs => ⟨"GET".toList, wUrl, none, hs, []⟩

/-- what the command is built from when the request is taken from the parent's exchange -/
def wParentData : FailureData :=
  ⟨⟨"D".toList, 1⟩, [("X-API-Key".toList, "valid-key".toList), ("X-Tenant".toList, "it's acme".toList)], false⟩

/-- `reproduces` for a command printed for one prepared request, judged against any original -/
theorem reproduces_generate (vs : Variants) (tbl auto : Table) (r : Req) (hwf : wf r = true) (o : Original) :
    reproduces auto o (generate vs tbl r) =
      sameRequest auto o (if vs.dataAt = .asFound ∧ bodyStartsAt (bodyOf r.body) = true then .readsFile
        else .request r.method r.url ((filterHeaders vs.filter tbl r.known r.headers).filterMap (sentOf vs.emptyHeader))
          (bodyOf r.body) (!r.verify)) := by
  have hm : methodOk r.method = true := by
    simp only [wf, Bool.and_eq_true] at hwf
    exact hwf.1.1.1
  unfold reproduces
  rw [generate_eq_render vs tbl r hm, shParse_render _ (argvOf_noNul vs tbl r hwf)]
  simp only [curlSem_argvOf vs tbl r hwf]

theorem codeSample_eq (vs : Variants) (tbl : Table) (prep : Nat → List (Str × Str) → Prepared) (fd : FailureData) :
    codeSample vs tbl prep fd = generate vs tbl (preparedReq (prep fd.case.obj fd.headers) fd.verify) := rfl

theorem headersOk_congr (auto : Table) (o1 o2 sent : List (Str × Str)) (h : ∀ kv, kv ∈ o1 ↔ kv ∈ o2) :
    headersOk auto o1 sent = headersOk auto o2 sent := by
  rw [Bool.eq_iff_iff]
  simp only [headersOk, Bool.and_eq_true, List.all_eq_true, List.contains_eq_mem, decide_eq_true_eq, Bool.or_eq_true]
  constructor
  · rintro ⟨h1, h2⟩
    exact ⟨fun kv hkv => (h kv).1 (h1 kv hkv), fun kv hkv => h2 kv ((h kv).2 hkv)⟩
  · rintro ⟨h1, h2⟩
    exact ⟨fun kv hkv => (h kv).2 (h1 kv hkv), fun kv hkv => h2 kv ((h kv).1 hkv)⟩

/-- `reproduces` does not depend on the order (or multiplicity) of the original's header fields -/
theorem reproduces_congr_headers (auto : Table) (m u : Str) (b : Option Str) (v : Bool) (o1 o2 : List (Str × Str))
    (h : ∀ kv, kv ∈ o1 ↔ kv ∈ o2) (cmd : Str) :
    reproduces auto ⟨m, u, o1, b, v⟩ cmd = reproduces auto ⟨m, u, o2, b, v⟩ cmd := by
  unfold reproduces
  cases shParse cmd with
  | none => rfl
  | some argv =>
    simp only
    cases curlSem argv with
    | request m' u' hs' b' k' => simp only [sameRequest, headersOk_congr auto o1 o2 hs' h]
    | readsFile => rfl
    | globbed => rfl
    | unsupported => rfl

theorem reproduces_of_faithful (vs : Variants) (hall : ReproducesAll vs) (tbl : Table) (p : Prepared) (v : Bool)
    (ia : Interaction) (hs : List (Str × Str)) (hm : p.method = ia.request.method) (hu : p.url = ia.request.uri)
    (hb : p.body = ia.request.body) (hh : ∀ kv, kv ∈ p.headers ↔ kv ∈ hs) (hwf : wf (preparedReq p v) = true) :
    reproduces tbl (sentOriginal ia hs v) (generate vs tbl (preparedReq p v)) = true := by
  have e : sentOriginal ia hs v = ⟨p.method, p.url, hs, p.body, v⟩ := by
    simp [sentOriginal, hm, hu, hb]
  rw [e, ← reproduces_congr_headers tbl p.method p.url p.body v p.headers hs hh]
  exact hall tbl (preparedReq p v) hwf

end SV.Proofs.C09
