/-
  C09 — helper lemmas (not property statements): character classes, the accumulator lemmas of the shell parser,
  the fold lemmas of the curl argument machine.
-/
import SV.Spec.C09

namespace SV.Proofs.C09
open SV.Model.C09 SV.Spec.C09

/-! ### characters -/

theorem safe_facts (c : Char) (h : isSafe c = true) :
    c ≠ NUL ∧ c ≠ ' ' ∧ c ≠ '\t' ∧ c ≠ '\'' ∧ c ≠ '"' ∧ c ≠ '\\' ∧ shSpecial c = false := by
  refine ⟨?_, ?_, ?_, ?_, ?_, ?_, ?_⟩
  · rintro rfl; revert h; decide
  · rintro rfl; revert h; decide
  · rintro rfl; revert h; decide
  · rintro rfl; revert h; decide
  · rintro rfl; revert h; decide
  · rintro rfl; revert h; decide
  · cases hs : shSpecial c with
    | false => rfl
    | true =>
      exfalso
      simp only [shSpecial, Bool.or_eq_true, beq_iff_eq] at hs
      rcases hs with ((((((((((((((((((((rfl | rfl) | rfl) | rfl) | rfl) | rfl) | rfl) | rfl) | rfl) | rfl) | rfl) | rfl)
        | rfl) | rfl) | rfl) | rfl) | rfl) | rfl) | rfl) | rfl) | rfl) <;> revert h <;> decide

theorem noNul_iff (s : Str) : noNul s = true ↔ ∀ c ∈ s, c ≠ NUL := by
  simp only [noNul, Bool.not_eq_true', List.contains_eq_mem, decide_eq_false_iff_not]
  constructor
  · intro h c hc e; exact h (e ▸ hc)
  · intro h hc; exact h _ hc rfl

theorem noNul_cons (c : Char) (s : Str) : noNul (c :: s) = true ↔ c ≠ NUL ∧ noNul s = true := by
  simp only [noNul_iff, List.mem_cons, forall_eq_or_imp]

/-! ### the shell parser on what `shlex.quote` emits -/

/-- inside single quotes: the escaped text followed by the closing quote yields exactly the text -/
theorem shGo_sq (s : Str) (hs : noNul s = true) (cur : Str) (done : List Str) (rest : Str) :
    shGo .sq true cur done (escSq s ++ '\'' :: rest) = shGo .un true (s.reverse ++ cur) done rest := by
  induction s generalizing cur with
  | nil => simp [escSq, shGo, NUL]
  | cons c cs ih =>
    obtain ⟨hc, hcs⟩ := (noNul_cons c cs).1 hs
    by_cases hq : c = '\''
    · subst hq
      have := ih hcs ('\'' :: cur)
      simp [escSq, shGo, NUL, this]
    · have := ih hcs (c :: cur)
      simp [escSq, shGo, hq, hc, this]

/-- a run of safe characters outside quotes is taken literally -/
theorem shGo_safe (s : Str) (hs : s.all isSafe = true) (w : Bool) (cur : Str) (done : List Str) (rest : Str) :
    shGo .un w cur done (s ++ rest) = shGo .un (w || !s.isEmpty) (s.reverse ++ cur) done rest := by
  induction s generalizing w cur with
  | nil => simp
  | cons c cs ih =>
    simp only [List.all_cons, Bool.and_eq_true] at hs
    obtain ⟨h0, h1, h2, h3, h4, h5, h6⟩ := safe_facts c hs.1
    have := ih hs.2 true (c :: cur)
    simp [shGo, h0, h1, h2, h3, h4, h5, h6, this]

/-- one quoted word, in any context -/
theorem shGo_quote (s : Str) (hs : noNul s = true) (w : Bool) (cur : Str) (done : List Str) (rest : Str) :
    shGo .un w cur done (shlexQuote s ++ rest) = shGo .un true (s.reverse ++ cur) done rest := by
  unfold shlexQuote
  by_cases he : s.isEmpty = true
  · have : s = [] := by simpa using he
    subst this
    simp [shGo, NUL]
  · by_cases ha : s.all isSafe = true
    · have hne : (!s.isEmpty) = true := by simpa using he
      simp only [he, ha, if_true, Bool.false_eq_true, if_false]
      rw [shGo_safe s ha, hne, Bool.or_true]
    · simp only [he, ha, Bool.false_eq_true, if_false]
      have := shGo_sq s hs cur done rest
      simp [shGo, NUL, this]

/-- the tail of a rendered command: each further word is a separator followed by a quoted word -/
theorem shGo_renderTail (ws : List Str) (hws : ∀ w ∈ ws, noNul w = true) (cur : Str) (done : List Str) :
    shGo .un true cur done (renderTail ws) = some (done.reverse ++ cur.reverse :: ws) := by
  induction ws generalizing cur done with
  | nil => simp [renderTail, shGo, pushWord]
  | cons x xs ih =>
    have hx := hws x (by simp)
    have ih' := ih (fun w hw => hws w (by simp [hw])) x.reverse (cur.reverse :: done)
    have hq := shGo_quote x hx false [] (cur.reverse :: done) (renderTail xs)
    simp only [List.append_nil] at hq
    have hrt : renderTail (x :: xs) = ' ' :: (shlexQuote x ++ renderTail xs) := by simp [renderTail]
    rw [hrt]
    simp only [shGo, NUL, pushWord]
    simp [hq, ih']

/-! ### `generate` is the rendering of `argvOf` -/

theorem renderTail_append (a b : List Str) : renderTail (a ++ b) = renderTail a ++ renderTail b := by
  simp [renderTail]

theorem renderTail_headerArgs (v : Variant) (hs : List (Str × Str)) :
    renderTail (headerArgs v hs) = headersPart v hs := by
  induction hs with
  | nil => rfl
  | cons kv rest ih =>
    have hq : shlexQuote ['-', 'H'] = ['-', 'H'] := by decide
    have : headerArgs v (kv :: rest) = [['-', 'H'], headerArg v kv.1 kv.2] ++ headerArgs v rest := by
      simp [headerArgs]
    rw [this, renderTail_append, ih]
    simp [renderTail, headersPart, hq]

theorem renderTail_dataArgs (v : Variant) (b : Option Str) : renderTail (dataArgs v b) = dataPart v b := by
  have hd : shlexQuote ['-', 'd'] = ['-', 'd'] := by decide
  have hr : shlexQuote "--data-raw".toList = "--data-raw".toList := by decide
  simp only [String.reduceToList] at hr
  cases b with
  | none => rfl
  | some b =>
    by_cases he : b.isEmpty = true
    · simp [dataArgs, dataPart, he, renderTail]
    · cases v with
      | asFound => simp [dataArgs, dataPart, he, renderTail, hd]
      | repaired =>
        by_cases ha : startsWithAt b = true
        · simp [dataArgs, dataPart, he, ha, renderTail, hr]
        · simp [dataArgs, dataPart, he, ha, renderTail, hd]

theorem renderTail_insecureArgs (verify : Bool) : renderTail (insecureArgs verify) = insecurePart verify := by
  have hi : shlexQuote "--insecure".toList = "--insecure".toList := by decide
  simp only [String.reduceToList] at hi
  cases verify <;> simp [insecureArgs, insecurePart, renderTail, hi]

theorem quote_safe (m : Str) (h : methodOk m = true) : shlexQuote m = m := by
  simp only [methodOk, Bool.and_eq_true, Bool.not_eq_true'] at h
  simp [shlexQuote, h.1, h.2]

theorem generate_eq_render (vs : Variants) (tbl : Table) (r : Req) (hm : methodOk r.method = true) :
    generate vs tbl r = render (argvOf vs tbl r) := by
  have hc : shlexQuote "curl".toList = "curl".toList := by decide
  have hx : shlexQuote ['-', 'X'] = ['-', 'X'] := by decide
  have hcons : ∀ (a b : Str) (t : List Str), renderTail (a :: b :: t) = renderTail [a, b] ++ renderTail t := by
    intro a b t; simp [renderTail]
  unfold generate argvOf
  simp only [render]
  rw [hcons, renderTail_append, renderTail_append, renderTail_append, renderTail_headerArgs, renderTail_dataArgs,
    renderTail_insecureArgs, hc]
  simp [renderTail, hx, quote_safe r.method hm]

/-! ### the curl argument machine -/

theorem startsWithAt_append (k t : Str) (hk : k.isEmpty = false) : startsWithAt (k ++ t) = startsWithAt k := by
  cases k with
  | nil => simp at hk
  | cons c cs => by_cases hc : c = '@' <;> simp [startsWithAt, hc]

theorem splitFirst_append (p : Char) (k rest : Str) (hk : p ∉ k) : splitFirst p (k ++ p :: rest) = some (k, rest) := by
  induction k with
  | nil => simp [splitFirst]
  | cons c cs ih =>
    have hc : c ≠ p := fun e => hk (by simp [e])
    have := ih (fun h => hk (by simp [h]))
    simp [splitFirst, hc, this]

theorem splitFirst_none (p : Char) (k : Str) (hk : p ∉ k) : splitFirst p k = none := by
  induction k with
  | nil => rfl
  | cons c cs ih =>
    have hc : c ≠ p := fun e => hk (by simp [e])
    have := ih (fun h => hk (by simp [h]))
    simp [splitFirst, hc, this]

theorem nameOk_facts (k : Str) (h : nameOk k = true) :
    k.isEmpty = false ∧ ':' ∉ k ∧ ';' ∉ k ∧ startsWithAt k = false ∧ noNul k = true := by
  simpa [nameOk, and_assoc] using h

/-- what the header text of the code as found puts on the wire -/
theorem headerSent_colon (k v : Str) (hk : nameOk k = true) (hv : valueOk v = true) :
    headerSent (k ++ ':' :: ' ' :: v) = if v.isEmpty then none else some (k, v) := by
  obtain ⟨hne, hcol, _, _, _⟩ := nameOk_facts k hk
  unfold headerSent
  rw [splitFirst_append ':' k _ hcol]
  cases v with
  | nil => simp [hne, isCurlSpace]
  | cons c cs =>
    have hc : isCurlSpace c = false := by
      have : noNul (c :: cs) = true ∧ isCurlSpace c = false := by simpa [valueOk] using hv
      exact this.2
    have hsp : isCurlSpace ' ' = true := by decide
    simp [hne, List.dropWhile, hc, hsp]

/-- what the header text of the repaired code puts on the wire -/
theorem headerSent_repaired (k v : Str) (hk : nameOk k = true) (hv : valueOk v = true) :
    headerSent (headerArg .repaired k v) = some (k, v) := by
  obtain ⟨hne, hcol, hsemi, _, _⟩ := nameOk_facts k hk
  cases v with
  | nil =>
    have h1 : splitFirst ':' (k ++ [';']) = none :=
      splitFirst_none ':' _ (by simp [hcol])
    have h2 : splitFirst ';' (k ++ [';']) = some (k, []) := splitFirst_append ';' k [] hsemi
    simp [headerArg, headerSent, h1, h2]
  | cons c cs =>
    have := headerSent_colon k (c :: cs) hk hv
    simpa [headerArg] using this

theorem headerArg_noAt (v : Variant) (k val : Str) (hk : nameOk k = true) : startsWithAt (headerArg v k val) = false := by
  obtain ⟨hne, _, _, hat, _⟩ := nameOk_facts k hk
  cases v with
  | asFound => simp [headerArg, startsWithAt_append k _ hne, hat]
  | repaired =>
    by_cases he : val.isEmpty = true <;> simp [headerArg, he, startsWithAt_append k _ hne, hat]

/-- the custom headers a list of kept headers puts on the wire -/
def sentOf (v : Variant) (kv : Str × Str) : Option (Str × Str) := headerSent (headerArg v kv.1 kv.2)

theorem fold_headerArgs (v : Variant) (hs : List (Str × Str)) (hok : ∀ kv ∈ hs, nameOk kv.1 = true)
    (m : Option Str) (hd : List (Str × Str)) (d : Option Str) (i g : Bool) (u : List Str) (rf un : Bool) :
    (headerArgs v hs).foldl curlStep ⟨.none, m, hd, d, i, g, u, rf, un⟩
      = ⟨.none, m, hd ++ hs.filterMap (sentOf v), d, i, g, u, rf, un⟩ := by
  induction hs generalizing hd with
  | nil => simp [headerArgs]
  | cons kv rest ih =>
    have hk := hok kv (by simp)
    have hat := headerArg_noAt v kv.1 kv.2 hk
    have hcl : classify ['-', 'H'] = .header := by decide
    have hsplit : headerArgs v (kv :: rest) = ['-', 'H'] :: headerArg v kv.1 kv.2 :: headerArgs v rest := by
      simp [headerArgs]
    rw [hsplit, List.foldl_cons, List.foldl_cons]
    have ih' := ih (fun x hx => hok x (by simp [hx]))
    cases hsent : headerSent (headerArg v kv.1 kv.2) with
    | none =>
      have : sentOf v kv = none := hsent
      simp [curlStep, hcl, hat, hsent, ih', this]
    | some x =>
      have : sentOf v kv = some x := hsent
      simp [curlStep, hcl, hat, hsent, ih', this]

theorem classify_url (u : Str) (hu : urlOk u = true) : classify u = .positional := by
  cases u with
  | nil => simp [urlOk] at hu
  | cons c cs =>
    have hc : c ≠ '-' := by
      simp only [urlOk, Bool.and_eq_true, bne_iff_ne] at hu
      exact hu.2
    simp [classify, hc]

def bodyStartsAt : Option Str → Bool
  | some b => startsWithAt b
  | none => false

theorem bodyOf_some (b : Str) (h : b.isEmpty = false) : bodyOf (some b) = some b := by
  cases b with
  | nil => simp at h
  | cons c cs => rfl

/-- the argument vector of the command, interpreted by curl -/
theorem curlSem_argvOf (vs : Variants) (tbl : Table) (r : Req) (hwf : wf r = true) :
    curlSem (argvOf vs tbl r) =
      if vs.dataAt = .asFound ∧ bodyStartsAt (bodyOf r.body) = true then .readsFile
      else .request r.method r.url ((filterHeaders vs.filter tbl r.known r.headers).filterMap (sentOf vs.emptyHeader))
        (bodyOf r.body) (!r.verify) := by
  obtain ⟨method, url, body, verify, headers, known⟩ := r
  obtain ⟨ve, vd, vf⟩ := vs
  simp only [wf, Bool.and_eq_true, List.all_eq_true] at hwf
  obtain ⟨⟨⟨_, hurl⟩, _⟩, hhs⟩ := hwf
  simp only at hurl hhs ⊢
  have hkept : ∀ kv ∈ filterHeaders vf tbl known headers, nameOk kv.1 = true := by
    intro kv hkv
    have : kv ∈ headers := (List.mem_filter.1 hkv).1
    exact (hhs kv this).1
  have hglob : globSafe url = true := by
    simp only [urlOk, Bool.and_eq_true] at hurl
    exact hurl.1.2
  have hX : classify ['-', 'X'] = .request := by decide
  have hd : classify ['-', 'd'] = .data := by decide
  have hraw : classify "--data-raw".toList = .dataRaw := by decide
  have hins : classify "--insecure".toList = .insecure := by decide
  simp only [String.reduceToList] at hraw hins
  have hu := classify_url url hurl
  unfold curlSem argvOf curlArgs
  simp only [if_true, List.foldl_cons, List.foldl_append, List.foldl_nil]
  have h0 : curlStep (curlStep CurlSt.init ['-', 'X']) method = ⟨.none, some method, [], none, false, false, [], false, false⟩ := by
    simp [curlStep, CurlSt.init, hX]
  rw [h0, fold_headerArgs ve _ hkept]
  simp only [List.nil_append]
  cases body with
  | none =>
    cases verify <;> simp [dataArgs, insecureArgs, bodyOf, bodyStartsAt, curlStep, hins, hu, curlFinish, hglob]
  | some b =>
    cases b with
    | nil => cases verify <;> simp [dataArgs, insecureArgs, bodyOf, bodyStartsAt, curlStep, hins, hu, curlFinish, hglob]
    | cons c cs =>
      by_cases hat : startsWithAt (c :: cs) = true
      · cases vd <;> cases verify <;>
          simp [dataArgs, insecureArgs, bodyOf, bodyStartsAt, curlStep, hins, hd, hraw, hu, curlFinish, hglob, hat, addData]
      · cases vd <;> cases verify <;>
          simp [dataArgs, insecureArgs, bodyOf, bodyStartsAt, curlStep, hins, hd, hu, curlFinish, hglob, hat, addData]

/-! ### from the two halves to `reproduces` -/

theorem shParse_render (ws : List Str) (hws : ∀ w ∈ ws, noNul w = true) : shParse (render ws) = some ws := by
  cases ws with
  | nil => rfl
  | cons w rest =>
    have hq := shGo_quote w (hws w (by simp)) false [] [] (renderTail rest)
    have ht := shGo_renderTail rest (fun x hx => hws x (by simp [hx])) w.reverse []
    simp only [List.append_nil] at hq
    simp [shParse, render, hq, ht]

theorem noNul_append (a b : Str) : noNul (a ++ b) = true ↔ noNul a = true ∧ noNul b = true := by
  simp only [noNul_iff, List.mem_append]
  constructor
  · intro h; exact ⟨fun c hc => h c (Or.inl hc), fun c hc => h c (Or.inr hc)⟩
  · rintro ⟨h1, h2⟩ c (hc | hc)
    · exact h1 c hc
    · exact h2 c hc

theorem noNul_safe (m : Str) (h : m.all isSafe = true) : noNul m = true := by
  rw [noNul_iff]
  intro c hc
  exact (safe_facts c (List.all_eq_true.1 h c hc)).1

theorem valueOk_noNul (v : Str) (h : valueOk v = true) : noNul v = true := by
  simp only [valueOk, Bool.and_eq_true] at h
  exact h.1

theorem headerArg_noNul (v : Variant) (k val : Str) (hk : nameOk k = true) (hv : valueOk val = true) :
    noNul (headerArg v k val) = true := by
  obtain ⟨_, _, _, _, hkn⟩ := nameOk_facts k hk
  have hvn := valueOk_noNul val hv
  have h2 : noNul (':' :: ' ' :: val) = true := by
    rw [noNul_cons, noNul_cons]; exact ⟨by decide, by decide, hvn⟩
  have h3 : noNul [';'] = true := by decide
  cases v with
  | asFound => simp only [headerArg]; exact (noNul_append _ _).2 ⟨hkn, h2⟩
  | repaired =>
    by_cases he : val.isEmpty = true
    · simp only [headerArg, he, if_true]; exact (noNul_append _ _).2 ⟨hkn, h3⟩
    · simp only [headerArg, he, Bool.false_eq_true, if_false]; exact (noNul_append _ _).2 ⟨hkn, h2⟩

theorem argvOf_noNul (vs : Variants) (tbl : Table) (r : Req) (hwf : wf r = true) :
    ∀ w ∈ argvOf vs tbl r, noNul w = true := by
  obtain ⟨method, url, body, verify, headers, known⟩ := r
  obtain ⟨ve, vd, vf⟩ := vs
  simp only [wf, Bool.and_eq_true, List.all_eq_true] at hwf
  obtain ⟨⟨⟨hm, hurl⟩, hb⟩, hhs⟩ := hwf
  have hmn : noNul method = true := by
    simp only [methodOk, Bool.and_eq_true] at hm
    exact noNul_safe method hm.2
  have hun : noNul url = true := by
    simp only [urlOk, Bool.and_eq_true] at hurl
    exact hurl.1.1
  intro w hw
  simp only [argvOf, List.mem_cons, List.mem_append, List.mem_nil_iff, or_false] at hw
  rcases hw with rfl | rfl | rfl | ((hw | hw) | hw) | rfl
  · decide
  · decide
  · exact hmn
  · simp only [headerArgs, List.mem_flatMap, List.mem_cons, List.mem_nil_iff, or_false] at hw
    obtain ⟨kv, hkv, rfl | rfl⟩ := hw
    · decide
    · have hmem : kv ∈ headers := (List.mem_filter.1 hkv).1
      exact headerArg_noNul ve kv.1 kv.2 (hhs kv hmem).1 (hhs kv hmem).2
  · cases body with
    | none => simp [dataArgs] at hw
    | some b =>
      have hbn : noNul b = true := hb
      by_cases he : b.isEmpty = true
      · simp [dataArgs, he] at hw
      · cases vd with
        | asFound =>
          simp only [dataArgs, he, Bool.false_eq_true, if_false, List.mem_cons, List.mem_nil_iff, or_false] at hw
          rcases hw with rfl | rfl
          · decide
          · exact hbn
        | repaired =>
          by_cases ha : startsWithAt b = true
          · simp only [dataArgs, he, ha, if_true, Bool.false_eq_true, if_false, List.mem_cons, List.mem_nil_iff,
              or_false] at hw
            rcases hw with rfl | rfl
            · decide
            · exact hbn
          · simp only [dataArgs, he, ha, Bool.false_eq_true, if_false, List.mem_cons, List.mem_nil_iff,
              or_false] at hw
            rcases hw with rfl | rfl
            · decide
            · exact hbn
  · cases verify with
    | true => simp [insecureArgs] at hw
    | false =>
      simp only [insecureArgs, Bool.false_eq_true, if_false, List.mem_cons, List.mem_nil_iff, or_false] at hw
      subst hw; decide
  · exact hun

theorem filterMap_id_of {α} (f : α → Option α) (l : List α) (h : ∀ x ∈ l, f x = some x) : l.filterMap f = l := by
  induction l with
  | nil => rfl
  | cons a as ih =>
    have ha := h a (by simp)
    have := ih (fun x hx => h x (by simp [hx]))
    simp [ha, this]

theorem filterMap_filter_of {α} (f : α → Option α) (p : α → Bool) (l : List α)
    (h : ∀ x ∈ l, f x = if p x then some x else none) : l.filterMap f = l.filter p := by
  induction l with
  | nil => rfl
  | cons a as ih =>
    have ha := h a (by simp)
    have := ih (fun x hx => h x (by simp [hx]))
    by_cases hp : p a = true <;> simp [ha, hp, this]

theorem sentOf_repaired (kv : Str × Str) (hk : nameOk kv.1 = true) (hv : valueOk kv.2 = true) :
    sentOf .repaired kv = some kv := by
  simp [sentOf, headerSent_repaired kv.1 kv.2 hk hv]

theorem sentOf_asFound (kv : Str × Str) (hk : nameOk kv.1 = true) (hv : valueOk kv.2 = true) :
    sentOf .asFound kv = if !kv.2.isEmpty then some kv else none := by
  have := headerSent_colon kv.1 kv.2 hk hv
  by_cases he : kv.2.isEmpty = true <;> simp [sentOf, headerArg, this, he]

/-- the headers on the wire are a sub-list of the kept headers, whatever the variant -/
theorem sent_eq (ve : Variant) (kept : List (Str × Str)) (h : ∀ kv ∈ kept, nameOk kv.1 = true ∧ valueOk kv.2 = true) :
    kept.filterMap (sentOf ve) = match ve with
      | .repaired => kept
      | .asFound => kept.filter fun kv => !kv.2.isEmpty := by
  cases ve with
  | repaired => exact filterMap_id_of _ _ fun kv hkv => sentOf_repaired kv (h kv hkv).1 (h kv hkv).2
  | asFound => exact filterMap_filter_of _ _ _ fun kv hkv => sentOf_asFound kv (h kv hkv).1 (h kv hkv).2

theorem bodyOf_idem (b : Option Str) : bodyOf (bodyOf b) = bodyOf b := by
  cases b with
  | none => rfl
  | some s => cases s <;> rfl

/-- `reproduces` reduced to a statement about the headers on the wire -/
theorem reproduces_iff (vs : Variants) (tbl auto : Table) (r : Req) (hwf : wf r = true) :
    reproduces auto (original r) (generate vs tbl r) =
      (!(decide (vs.dataAt = .asFound) && bodyStartsAt (bodyOf r.body)) &&
        headersOk auto r.headers ((filterHeaders vs.filter tbl r.known r.headers).filterMap (sentOf vs.emptyHeader))) := by
  have hm : methodOk r.method = true := by
    simp only [wf, Bool.and_eq_true] at hwf
    exact hwf.1.1.1
  unfold reproduces
  rw [generate_eq_render vs tbl r hm, shParse_render _ (argvOf_noNul vs tbl r hwf)]
  simp only [curlSem_argvOf vs tbl r hwf]
  by_cases hc : vs.dataAt = .asFound ∧ bodyStartsAt (bodyOf r.body) = true
  · simp [hc, sameRequest]
  · have : (decide (vs.dataAt = .asFound) && bodyStartsAt (bodyOf r.body)) = false := by
      simp only [not_and, Bool.not_eq_true] at hc
      by_cases hd : vs.dataAt = .asFound
      · simp [hd, hc hd]
      · simp [hd]
    simp [hc, this, sameRequest, original, bodyOf_idem]

/-! ### UTF-8: decoding the encoding of a text -/

theorem char_valid (c : Char) : c.toNat < 0xd800 ∨ (0xdfff < c.toNat ∧ c.toNat < 0x110000) := by
  have := c.valid
  simp only [Char.toNat, UInt32.isValidChar, Nat.isValidChar] at *
  omega

theorem ofNat_toNat (c : Char) : Char.ofNat c.toNat = c := by
  simp

theorem utf8Go_enc (c : Char) (fuel : Nat) (rest : List Nat) :
    utf8Go (fuel + 1) (utf8Enc c ++ rest) = c :: utf8Go fuel rest := by
  have hv := char_valid c
  have hc := ofNat_toNat c
  generalize hvv : c.toNat = v at hv hc
  unfold utf8Enc
  simp only [hvv]
  have fin : ∀ n, n = v → Char.ofNat n = c := by intro n hn; rw [hn]; exact hc
  by_cases h1 : v ≤ 0x7f
  · have : v < 0x80 := by omega
    simp [h1, utf8Go, this, hc]
  · by_cases h2 : v ≤ 0x7ff
    · have a1 : ¬ (v / 64 % 32 + 192 < 128) := by omega
      have a2 : ¬ (v / 64 % 32 + 192 < 194) := by omega
      have a3 : v / 64 % 32 + 192 < 224 := by omega
      have a4 : isCont (v % 64 + 128) = true := by simp [isCont]; omega
      simp [h1, h2, utf8Go, a1, a2, a3, a4]
      apply fin; omega
    · by_cases h3 : v ≤ 0xffff
      · have a1 : ¬ (v / 4096 % 16 + 224 < 128) := by omega
        have a2 : ¬ (v / 4096 % 16 + 224 < 194) := by omega
        have a3 : ¬ (v / 4096 % 16 + 224 < 224) := by omega
        have a4 : v / 4096 % 16 + 224 < 240 := by omega
        have a5 : (lo3 (v / 4096 % 16 + 224) ≤ v / 64 % 64 + 128 && v / 64 % 64 + 128 ≤ hi3 (v / 4096 % 16 + 224)) = true := by
          simp only [lo3, hi3, Bool.and_eq_true, decide_eq_true_eq, beq_iff_eq]
          constructor
          · split <;> omega
          · split <;> omega
        have a6 : isCont (v % 64 + 128) = true := by simp [isCont]; omega
        simp [h1, h2, h3, utf8Go, a1, a2, a3, a4, a5, a6]
        apply fin; omega
      · have a1 : ¬ (v / 262144 % 8 + 240 < 128) := by omega
        have a2 : ¬ (v / 262144 % 8 + 240 < 194) := by omega
        have a3 : ¬ (v / 262144 % 8 + 240 < 224) := by omega
        have a4 : ¬ (v / 262144 % 8 + 240 < 240) := by omega
        have a4' : v / 262144 % 8 + 240 < 245 := by omega
        have a5 : (lo4 (v / 262144 % 8 + 240) ≤ v / 4096 % 64 + 128 && v / 4096 % 64 + 128 ≤ hi4 (v / 262144 % 8 + 240)) = true := by
          simp only [lo4, hi4, Bool.and_eq_true, decide_eq_true_eq, beq_iff_eq]
          constructor
          · split <;> omega
          · split <;> omega
        have a6 : isCont (v / 64 % 64 + 128) = true := by simp [isCont]; omega
        have a7 : isCont (v % 64 + 128) = true := by simp [isCont]; omega
        simp [h1, h2, h3, utf8Go, a1, a2, a3, a4, a4', a5, a6, a7]
        apply fin; omega

theorem enc_length_pos (c : Char) : 1 ≤ (utf8Enc c).length := by
  unfold utf8Enc; simp only; split
  · simp
  · split
    · simp
    · split <;> simp

theorem utf8Go_text (s : Str) (fuel : Nat) (h : s.length ≤ fuel) : utf8Go fuel (s.flatMap utf8Enc) = s := by
  induction s generalizing fuel with
  | nil => cases fuel <;> simp [utf8Go]
  | cons c cs ih =>
    cases fuel with
    | zero => simp at h
    | succ f =>
      simp only [List.flatMap_cons]
      rw [utf8Go_enc, ih f (by simp at h; omega)]

theorem flatMap_len (s : Str) : s.length ≤ (s.flatMap utf8Enc).length := by
  induction s with
  | nil => simp
  | cons c cs ih =>
    have := enc_length_pos c
    simp only [List.flatMap_cons, List.length_append, List.length_cons]
    omega

/-! ### the recorder: dict lemmas, last-write-wins -/

theorem dGet_dSet {α : Type} (d : List (Str × α)) (k k' : Str) (v : α) :
    dGet (dSet d k v) k' = if k = k' then some v else dGet d k' := by
  induction d with
  | nil => simp [dSet, dGet]
  | cons e rest ih =>
    obtain ⟨k0, v0⟩ := e
    by_cases h0 : k0 = k
    · subst h0
      by_cases h1 : k0 = k' <;> simp [dSet, dGet, h1]
    · by_cases h1 : k0 = k'
      · subst h1
        simp [dSet, dGet, h0, Ne.symm h0]
      · simp [dSet, dGet, h0, h1, ih]

theorem failingId_eq (p : Str) (f : Option Str) : reportedId p f = failingId p f := by
  unfold reportedId failingId
  cases f with
  | none => rfl
  | some n => cases n <;> rfl

theorem step_cases {σ : Type} (mk : FailureData → σ) (st : Recorder σ) (op : Op) (id : Str) :
    (dGet (step mk st op).cases id).map (·.value) = (caseWrite id op).or ((dGet st.cases id).map (·.value)) := by
  cases op with
  | recordCase p c =>
    by_cases h : c.id = id <;> simp [step, caseWrite, dGet_dSet, h]
  | recordResponse i r v => simp [step, caseWrite]
  | recordRequest i r => simp [step, caseWrite]
  | checkSuccess n i => simp [step, caseWrite]
  | onFailure n pid f =>
    simp only [step, caseWrite]
    cases findFailureData st pid f <;> simp

theorem step_interactions {σ : Type} (mk : FailureData → σ) (st : Recorder σ) (op : Op) (id : Str) :
    dGet (step mk st op).interactions id = (sentWrite id op).or (dGet st.interactions id) := by
  cases op with
  | recordCase p c => simp [step, sentWrite]
  | recordResponse i r v => by_cases h : i = id <;> simp [step, sentWrite, dGet_dSet, h]
  | recordRequest i r => by_cases h : i = id <;> simp [step, sentWrite, dGet_dSet, h]
  | checkSuccess n i => simp [step, sentWrite]
  | onFailure n pid f =>
    simp only [step, sentWrite]
    cases findFailureData st pid f <;> simp

theorem foldl_cases {σ : Type} (mk : FailureData → σ) (h : List Op) (st : Recorder σ) (id : Str) :
    (dGet (h.foldl (step mk) st).cases id).map (·.value)
      = (h.reverse.findSome? (caseWrite id)).or ((dGet st.cases id).map (·.value)) := by
  induction h generalizing st with
  | nil => simp
  | cons op rest ih =>
    simp only [List.foldl_cons, List.reverse_cons, List.findSome?_append]
    rw [ih, step_cases]
    simp only [List.findSome?_cons, List.findSome?_nil]
    generalize List.findSome? (caseWrite id) rest.reverse = a
    generalize caseWrite id op = b
    cases a <;> cases b <;> simp

theorem foldl_interactions {σ : Type} (mk : FailureData → σ) (h : List Op) (st : Recorder σ) (id : Str) :
    dGet (h.foldl (step mk) st).interactions id
      = (h.reverse.findSome? (sentWrite id)).or (dGet st.interactions id) := by
  induction h generalizing st with
  | nil => simp
  | cons op rest ih =>
    simp only [List.foldl_cons, List.reverse_cons, List.findSome?_append]
    rw [ih, step_interactions]
    simp only [List.findSome?_cons, List.findSome?_nil]
    generalize List.findSome? (sentWrite id) rest.reverse = a
    generalize sentWrite id op = b
    cases a <;> cases b <;> simp

theorem run_cases {σ : Type} (mk : FailureData → σ) (h : List Op) (id : Str) :
    (dGet (run mk h).cases id).map (·.value) = lastCase h id := by
  simp [run, lastCase, foldl_cases, Recorder.empty, dGet]

theorem run_interactions {σ : Type} (mk : FailureData → σ) (h : List Op) (id : Str) :
    dGet (run mk h).interactions id = lastSent h id := by
  simp [run, lastSent, foldl_interactions, Recorder.empty, dGet]

theorem findFailureData_run {σ : Type} (mk : FailureData → σ) (h : List Op) (pid : Str) (f : Option Str) :
    findFailureData (run mk h) pid f = expectedData h (failingId pid f) := by
  unfold findFailureData expectedData
  simp only [failingId_eq]
  rw [← run_cases mk h, ← run_interactions mk h]
  cases hc : dGet (run mk h).cases (failingId pid f) with
  | none => simp
  | some node =>
    simp only [Option.map_some]
    cases hi : dGet (run mk h).interactions (failingId pid f) with
    | none => rfl
    | some ia =>
      cases hv : ia.verify with
      | none => simp [hv]
      | some v =>
        simp only [hv]
        cases hh : firstValues ia.request.headers <;> simp

theorem lastCase_id (h : List Op) (id : Str) (c : CaseVal) (hc : lastCase h id = some c) : c.id = id := by
  unfold lastCase at hc
  obtain ⟨op, _, hop⟩ := List.exists_of_findSome?_eq_some hc
  cases op <;> simp [caseWrite] at hop
  obtain ⟨h1, h2⟩ := hop
  subst h2; exact h1

theorem expectedData_id (h : List Op) (id : Str) (fd : FailureData) (hfd : expectedData h id = .ok fd) :
    fd.case.id = id := by
  unfold expectedData at hfd
  split at hfd
  · cases hfd
  · rename_i c hc
    split at hfd
    · cases hfd
    · split at hfd
      · cases hfd
      · split at hfd
        · cases hfd; exact lastCase_id h id c hc
        · cases hfd

/-! ### every stored sample was built for the case it is stored under -/

theorem dGet_appendCheck {σ : Type} (d : List (Str × List (CheckNode σ))) (k0 k : Str) (node : CheckNode σ) :
    dGet (appendCheck d k0 node) k = if k0 = k then some ((dGet d k0).getD [] ++ [node]) else dGet d k := by
  unfold appendCheck
  exact dGet_dSet d k0 k _

/-- every failed check stored under `k` carries the sample built from what the specification selects for `k`
    after some prefix of the history -/
def SamplesOk {σ : Type} (mk : FailureData → σ) (h : List Op) (st : Recorder σ) : Prop :=
  ∀ k nodes node s, dGet st.checks k = some nodes → node ∈ nodes → node.sample = some s →
    ∃ n fd, n ≤ h.length ∧ expectedData (h.take n) k = .ok fd ∧ s = mk fd

theorem run_snoc {σ : Type} (mk : FailureData → σ) (h : List Op) (op : Op) :
    run mk (h ++ [op]) = step mk (run mk h) op := by
  simp [run, List.foldl_append]

theorem samplesOk_mono {σ : Type} (mk : FailureData → σ) (h : List Op) (op : Op) (k : Str) (s : σ)
    (hx : ∃ n fd, n ≤ h.length ∧ expectedData (h.take n) k = .ok fd ∧ s = mk fd) :
    ∃ n fd, n ≤ (h ++ [op]).length ∧ expectedData ((h ++ [op]).take n) k = .ok fd ∧ s = mk fd := by
  obtain ⟨n, fd, hn, he, hs⟩ := hx
  refine ⟨n, fd, by simp; omega, ?_, hs⟩
  rw [List.take_append_of_le_length hn]
  exact he

theorem mem_getD_append {σ : Type} (old : Option (List (CheckNode σ))) (new node : CheckNode σ)
    (hm : node ∈ old.getD [] ++ [new]) : (∃ nodes, old = some nodes ∧ node ∈ nodes) ∨ node = new := by
  rcases List.mem_append.1 hm with h | h
  · cases old with
    | none => simp at h
    | some nodes => exact Or.inl ⟨nodes, rfl, by simpa using h⟩
  · exact Or.inr (by simpa using h)

theorem samplesOk_step {σ : Type} (mk : FailureData → σ) (h : List Op) (op : Op)
    (hinv : SamplesOk mk h (run mk h)) : SamplesOk mk (h ++ [op]) (run mk (h ++ [op])) := by
  rw [run_snoc]
  intro k nodes node s hk hmem hs
  cases op with
  | recordCase p c => exact samplesOk_mono mk h _ k s (hinv k nodes node s (by simpa [step] using hk) hmem hs)
  | recordResponse i r v => exact samplesOk_mono mk h _ k s (hinv k nodes node s (by simpa [step] using hk) hmem hs)
  | recordRequest i r => exact samplesOk_mono mk h _ k s (hinv k nodes node s (by simpa [step] using hk) hmem hs)
  | checkSuccess n i =>
    simp only [step, dGet_appendCheck] at hk
    by_cases hik : i = k
    · simp only [hik, if_true, Option.some.injEq] at hk
      subst hk
      rcases mem_getD_append _ _ _ hmem with ⟨old, ho, hm⟩ | hnew
      · exact samplesOk_mono mk h _ k s (hinv k old node s ho hm hs)
      · subst hnew; simp at hs
    · simp only [hik, if_false] at hk
      exact samplesOk_mono mk h _ k s (hinv k nodes node s hk hmem hs)
  | onFailure n pid f =>
    simp only [step] at hk
    cases hfd : findFailureData (run mk h) pid f with
    | error e =>
      simp only [hfd] at hk
      exact samplesOk_mono mk h _ k s (hinv k nodes node s hk hmem hs)
    | ok fd =>
      simp only [hfd, dGet_appendCheck] at hk
      rw [findFailureData_run] at hfd
      have hid := expectedData_id h _ fd hfd
      by_cases hik : fd.case.id = k
      · simp only [hik, if_true, Option.some.injEq] at hk
        subst hk
        rcases mem_getD_append _ _ _ hmem with ⟨old, ho, hm⟩ | hnew
        · exact samplesOk_mono mk h _ k s (hinv k old node s ho hm hs)
        · subst hnew
          simp only [Option.some.injEq] at hs
          refine ⟨h.length, fd, by simp, ?_, hs.symm⟩
          rw [List.take_append_of_le_length (Nat.le_refl _), List.take_length, ← hik, hid]
          exact hfd
      · simp only [hik, if_false] at hk
        exact samplesOk_mono mk h _ k s (hinv k nodes node s hk hmem hs)

theorem samplesOk_append {σ : Type} (mk : FailureData → σ) (h1 h0 : List Op)
    (hinv : SamplesOk mk h0 (run mk h0)) : SamplesOk mk (h0 ++ h1) (run mk (h0 ++ h1)) := by
  induction h1 generalizing h0 with
  | nil => simpa using hinv
  | cons op rest ih =>
    have := ih (h0 ++ [op]) (samplesOk_step mk h0 op hinv)
    simpa using this

theorem samplesOk_run {σ : Type} (mk : FailureData → σ) (h : List Op) : SamplesOk mk h (run mk h) := by
  have := samplesOk_append mk h [] (by intro k nodes node s hk; simp [run, Recorder.empty, dGet] at hk)
  simpa using this

/-! ### a concrete scenario of the `ignored_auth` shape (used by the witnesses and non-vacuity examples) -/

def wUrl : Str := "http://h/reports?page=1".toList
def wParentReq : RecRequest :=
  ⟨"GET".toList, wUrl, none, [("X-API-Key".toList, ["valid-key".toList]), ("X-Tenant".toList, ["it's acme".toList])]⟩
def wDerivedReq : RecRequest := ⟨"GET".toList, wUrl, none, [("X-Tenant".toList, ["it's acme".toList])]⟩

/-- the case is sent with the user's key and passes; the check derives a case without the key, sends it, and reports
    the failure for the derived case -/
def wHistory : List Op :=
  [.recordCase none ⟨"P".toList, 0⟩, .recordResponse "P".toList wParentReq true,
   .recordCase (some "P".toList) ⟨"D".toList, 1⟩, .recordResponse "D".toList wDerivedReq false,
   .onFailure "ignored_auth".toList "P".toList (some "D".toList)]

/-- a `prepare_request` that puts the passed headers on a fixed GET -/
def wPrep : Nat → List (Str × Str) → Prepared := fun _ hs => ⟨"GET".toList, wUrl, none, hs, []⟩

/-- what the command is built from when the request is taken from the parent's exchange -/
def wParentData : FailureData :=
  ⟨⟨"D".toList, 1⟩, [("X-API-Key".toList, "valid-key".toList), ("X-Tenant".toList, "it's acme".toList)], false⟩

/-- `reproduces` for a command printed for one prepared request, judged against any original -/
theorem reproduces_generate (vs : Variants) (tbl auto : Table) (r : Req) (hwf : wf r = true) (o : Original) :
    reproduces auto o (generate vs tbl r) =
      sameRequest auto o (if vs.dataAt = .asFound ∧ bodyStartsAt (bodyOf r.body) = true then .readsFile
        else .request r.method r.url ((filterHeaders vs.filter tbl r.known r.headers).filterMap (sentOf vs.emptyHeader))
          (bodyOf r.body) (!r.verify)) := by
  have hm : methodOk r.method = true := by
    simp only [wf, Bool.and_eq_true] at hwf
    exact hwf.1.1.1
  unfold reproduces
  rw [generate_eq_render vs tbl r hm, shParse_render _ (argvOf_noNul vs tbl r hwf)]
  simp only [curlSem_argvOf vs tbl r hwf]

theorem codeSample_eq (vs : Variants) (tbl : Table) (prep : Nat → List (Str × Str) → Prepared) (fd : FailureData) :
    codeSample vs tbl prep fd = generate vs tbl (preparedReq (prep fd.case.obj fd.headers) fd.verify) := rfl

theorem headersOk_congr (auto : Table) (o1 o2 sent : List (Str × Str)) (h : ∀ kv, kv ∈ o1 ↔ kv ∈ o2) :
    headersOk auto o1 sent = headersOk auto o2 sent := by
  rw [Bool.eq_iff_iff]
  simp only [headersOk, Bool.and_eq_true, List.all_eq_true, List.contains_eq_mem, decide_eq_true_eq, Bool.or_eq_true]
  constructor
  · rintro ⟨h1, h2⟩
    exact ⟨fun kv hkv => (h kv).1 (h1 kv hkv), fun kv hkv => h2 kv ((h kv).2 hkv)⟩
  · rintro ⟨h1, h2⟩
    exact ⟨fun kv hkv => (h kv).2 (h1 kv hkv), fun kv hkv => h2 kv ((h kv).1 hkv)⟩

/-- `reproduces` does not depend on the order (or multiplicity) of the original's header fields -/
theorem reproduces_congr_headers (auto : Table) (m u : Str) (b : Option Str) (v : Bool) (o1 o2 : List (Str × Str))
    (h : ∀ kv, kv ∈ o1 ↔ kv ∈ o2) (cmd : Str) :
    reproduces auto ⟨m, u, o1, b, v⟩ cmd = reproduces auto ⟨m, u, o2, b, v⟩ cmd := by
  unfold reproduces
  cases shParse cmd with
  | none => rfl
  | some argv =>
    simp only
    cases curlSem argv with
    | request m' u' hs' b' k' => simp only [sameRequest, headersOk_congr auto o1 o2 hs' h]
    | readsFile => rfl
    | globbed => rfl
    | unsupported => rfl

theorem reproduces_of_faithful (vs : Variants) (hall : ReproducesAll vs) (tbl : Table) (p : Prepared) (v : Bool)
    (ia : Interaction) (hs : List (Str × Str)) (hm : p.method = ia.request.method) (hu : p.url = ia.request.uri)
    (hb : p.body = ia.request.body) (hh : ∀ kv, kv ∈ p.headers ↔ kv ∈ hs) (hwf : wf (preparedReq p v) = true) :
    reproduces tbl (sentOriginal ia hs v) (generate vs tbl (preparedReq p v)) = true := by
  have e : sentOriginal ia hs v = ⟨p.method, p.url, hs, p.body, v⟩ := by
    simp [sentOriginal, hm, hu, hb]
  rw [e, ← reproduces_congr_headers tbl p.method p.url p.body v p.headers hs hh]
  exact hall tbl (preparedReq p v) hwf

/-! ### `get_excluded_headers()`: which entries the table can have -/

/-- the two "set item" functions are one function of the key normalisation -/
def gSet {α : Type} (f : Str → Str) : List (Str × α) → Str → α → List (Str × α)
  | [], k, v => [(k, v)]
  | (k', v') :: rest, k, v => if f k' = f k then (k, v) :: rest else (k', v') :: gSet f rest k v

theorem dSet_eq_gSet {α : Type} (t : List (Str × α)) (k : Str) (v : α) : dSet t k v = gSet id t k v := by
  induction t with
  | nil => rfl
  | cons e rest ih => obtain ⟨k', v'⟩ := e; simp [dSet, gSet, ih]

theorem cidSet_eq_gSet (t : Table) (k : Str) (v : Option Str) : cidSet t k v = gSet lower t k v := by
  induction t with
  | nil => rfl
  | cons e rest ih => obtain ⟨k', v'⟩ := e; simp [cidSet, gSet, ih]

def Uniq {α : Type} (f : Str → Str) (t : List (Str × α)) : Prop := t.Pairwise fun a b => f a.1 ≠ f b.1

theorem gSet_mem {α : Type} (f : Str → Str) (t : List (Str × α)) (k : Str) (v : α) (x : Str × α)
    (hx : x ∈ gSet f t k v) : x = (k, v) ∨ x ∈ t := by
  induction t with
  | nil => simp [gSet] at hx; exact Or.inl hx
  | cons e rest ih =>
    obtain ⟨k', v'⟩ := e
    by_cases h : f k' = f k
    · simp only [gSet, h, if_true, List.mem_cons] at hx
      rcases hx with hx | hx
      · exact Or.inl hx
      · exact Or.inr (by simp [hx])
    · simp only [gSet, h, if_false, List.mem_cons] at hx
      rcases hx with hx | hx
      · exact Or.inr (by simp [hx])
      · rcases ih hx with h1 | h1
        · exact Or.inl h1
        · exact Or.inr (by simp [h1])

theorem gSet_uniq {α : Type} (f : Str → Str) (t : List (Str × α)) (k : Str) (v : α) (hu : Uniq f t) :
    Uniq f (gSet f t k v) := by
  induction t with
  | nil => simp [gSet, Uniq]
  | cons e rest ih =>
    obtain ⟨k', v'⟩ := e
    have hu' := List.pairwise_cons.1 hu
    by_cases h : f k' = f k
    · simp only [gSet, h, if_true]
      exact List.pairwise_cons.2 ⟨fun b hb => by have := hu'.1 b hb; simpa [h] using this, hu'.2⟩
    · simp only [gSet, h, if_false]
      refine List.pairwise_cons.2 ⟨fun b hb => ?_, ih hu'.2⟩
      rcases gSet_mem f rest k v b hb with rfl | hb'
      · exact h
      · exact hu'.1 b hb'

/-- in a dict with unique keys the entry under the key just set is the one just set -/
theorem gSet_mem_key {α : Type} (f : Str → Str) (t : List (Str × α)) (k : Str) (v : α) (x : Str × α) (hu : Uniq f t)
    (hx : x ∈ gSet f t k v) (hk : f x.1 = f k) : x = (k, v) := by
  induction t with
  | nil => simpa [gSet] using hx
  | cons e rest ih =>
    obtain ⟨k', v'⟩ := e
    have hu' := List.pairwise_cons.1 hu
    by_cases h : f k' = f k
    · simp only [gSet, h, if_true, List.mem_cons] at hx
      rcases hx with hx | hx
      · exact hx
      · exact absurd (h.trans hk.symm) (hu'.1 x hx)
    · simp only [gSet, h, if_false, List.mem_cons] at hx
      rcases hx with hx | hx
      · subst hx; exact absurd hk h
      · exact ih hu'.2 hx

theorem gFold_mem {α : Type} (f : Str → Str) (items acc : List (Str × α)) (x : Str × α)
    (hx : x ∈ items.foldl (fun t kv => gSet f t kv.1 kv.2) acc) : x ∈ acc ∨ x ∈ items := by
  induction items generalizing acc with
  | nil => exact Or.inl hx
  | cons kv rest ih =>
    rcases ih _ hx with h | h
    · rcases gSet_mem f acc kv.1 kv.2 x h with h1 | h1
      · exact Or.inr (by simp [h1])
      · exact Or.inl h1
    · exact Or.inr (by simp [h])

theorem gFold_uniq {α : Type} (f : Str → Str) (items acc : List (Str × α)) (hu : Uniq f acc) :
    Uniq f (items.foldl (fun t kv => gSet f t kv.1 kv.2) acc) := by
  induction items generalizing acc with
  | nil => exact hu
  | cons kv rest ih => exact ih _ (gSet_uniq f acc kv.1 kv.2 hu)

theorem pyDict_eq {α : Type} (items : List (Str × α)) :
    pyDict items = items.foldl (fun t kv => gSet id t kv.1 kv.2) [] := by
  unfold pyDict
  congr 1
  funext t kv
  exact dSet_eq_gSet t kv.1 kv.2

theorem cidOf_eq (items : List (Str × Option Str)) :
    cidOf items = items.foldl (fun t kv => gSet lower t kv.1 kv.2) [] := by
  unfold cidOf
  congr 1
  funext t kv
  exact cidSet_eq_gSet t kv.1 kv.2

theorem sameName_iff (a b : Str) : sameName a b = true ↔ lower a = lower b := by simp [sameName]

/-- every entry of the table `get_excluded_headers()` builds: one of the three "never shown" names, the transport's
    own `User-Agent`, or one of the defaults `requests` reports (other than its `User-Agent`, which is overwritten) -/
theorem excludedTable_entry (defaults : List (Str × Str)) (ua h : Str) (e : Str × Option Str)
    (hspell : ∀ kv ∈ defaults, sameName kv.1 userAgent = true → kv.1 = userAgent)
    (he : e ∈ excludedTable defaults ua h) :
    (e.2 = none ∧ (e.1 = contentLength ∨ e.1 = transferEncoding ∨ e.1 = h)) ∨ e = (userAgent, some ua)
      ∨ ∃ kv ∈ defaults, e = (kv.1, some kv.2) ∧ sameName kv.1 userAgent = false := by
  unfold excludedTable at he
  rw [cidOf_eq] at he
  have h1 : e ∈ pyDict (excludedItems defaults ua h) := by
    rcases gFold_mem lower _ [] e he with h0 | h0
    · simp at h0
    · exact h0
  unfold excludedItems at h1
  rw [pyDict_eq, List.foldl_append] at h1
  simp only [List.foldl_cons, List.foldl_nil] at h1
  by_cases hk : e.1 = userAgent
  · right; left
    exact gSet_mem_key id _ userAgent (some ua) e (gFold_uniq id _ [] (by simp [Uniq])) h1 (by simpa using hk)
  · rcases gSet_mem id _ _ _ e h1 with h2 | h2
    · exact absurd (by rw [h2]) hk
    · rcases gFold_mem id _ [] e h2 with h3 | h3
      · simp at h3
      · rcases List.mem_append.1 h3 with h4 | h4
        · left
          simp only [List.mem_cons, List.mem_nil_iff, or_false] at h4
          rcases h4 with rfl | rfl | rfl <;> simp
        · right; right
          obtain ⟨kv, hkv, rfl⟩ := List.mem_map.1 h4
          refine ⟨kv, hkv, rfl, ?_⟩
          cases hs : sameName kv.1 userAgent with
          | false => rfl
          | true => exact absurd (hspell kv hkv hs) hk

theorem isArtefact_congr (c : Clients) (k1 k2 v : Str) (h : lower k1 = lower k2) :
    isArtefact c (k1, v) = isArtefact c (k2, v) := by
  simp only [isArtefact, sameName, h]

theorem onWire_congr (w : List (Str × Str)) (k1 k2 v : Str) (h : lower k1 = lower k2) :
    onWire w (k1, v) = onWire w (k2, v) := by
  simp only [onWire, sameName, h]

theorem mayOmit_congr (c : Clients) (o : Original) (k1 k2 v : Str) (h : lower k1 = lower k2) :
    mayOmit c o (k1, v) = mayOmit c o (k2, v) := by
  simp only [mayOmit, curlAddsSame, onWire_congr _ k1 k2 v h, isArtefact_congr c k1 k2 v h]

theorem isAutoValued_iff (tbl : Table) (k v : Str) :
    isAutoValued tbl k v = true ↔ ∃ e ∈ tbl, lower e.1 = lower k ∧ (e.2 = none ∨ e.2 = some v) := by
  simp only [isAutoValued, List.any_eq_true, Bool.and_eq_true, beq_iff_eq]
  constructor
  · rintro ⟨e, he, h1, h2⟩
    refine ⟨e, he, h1, ?_⟩
    cases h : e.2 with
    | none => exact Or.inl rfl
    | some d => simp only [h, beq_iff_eq] at h2; exact Or.inr (by rw [h2])
  · rintro ⟨e, he, h1, h2⟩
    refine ⟨e, he, h1, ?_⟩
    rcases h2 with h2 | h2 <;> simp [h2]

/-- the specification's table says exactly `mayOmit` -/
theorem specAuto_isAuto (c : Clients) (o : Original) (kv : Str × Str) :
    isAuto (specAuto c o) kv = mayOmit c o kv := by
  simp only [isAuto, isAutoValued, specAuto, mayOmit, curlAddsSame, onWire, isArtefact, sameName, List.any_append,
    List.any_map, Function.comp_def, Bool.and_true, List.any_cons, List.any_nil, Bool.or_false]
  generalize (framingNames.any fun n => lower n == lower kv.1) = a
  generalize (lower c.caseIdHeader == lower kv.1) = b
  generalize (c.requestsOwn.any fun o => lower o.1 == lower kv.1 && o.2 == kv.2) = d
  generalize ((curlOwn c o.url (bodyOf o.body)).any fun w => lower w.1 == lower kv.1 && w.2 == kv.2) = e
  cases a <;> cases b <;> cases d <;> cases e <;> rfl

/-- the two fields curl adds to every request are in its own list whatever the URL and the data -/
theorem curlOwn_static (c : Clients) (url : Str) (data : Option Str) (kv : Str × Str)
    (h : kv = (userAgent, c.curlAgent) ∨ kv = ("Accept".toList, "*/*".toList)) : kv ∈ curlOwn c url data := by
  unfold curlOwn
  rcases h with rfl | rfl <;> simp

theorem staticAuto_sub (c : Clients) (o : Original) (k v : Str) (h : isAutoValued (staticAuto c) k v = true) :
    mayOmit c o (k, v) = true := by
  rw [← specAuto_isAuto]
  simp only [isAuto]
  rw [isAutoValued_iff] at h ⊢
  obtain ⟨e, he, h1, h2⟩ := h
  refine ⟨e, ?_, h1, h2⟩
  simp only [staticAuto, specAuto, List.mem_append, List.mem_map] at he ⊢
  rcases he with he | ⟨kv, hkv, rfl⟩
  · exact Or.inl he
  · right
    rcases hkv with hkv | hkv
    · exact ⟨kv, Or.inl hkv, rfl⟩
    · refine ⟨kv, Or.inr (curlOwn_static c _ _ kv ?_), rfl⟩
      simpa using hkv

/-! ### every header field curl sends for the command's argument vector -/

theorem headerTextsGo_append (st : CurlSt) (a b : List Str) :
    headerTextsGo st (a ++ b) = headerTextsGo st a ++ headerTextsGo (a.foldl curlStep st) b := by
  induction a generalizing st with
  | nil => simp [headerTextsGo]
  | cons x xs ih => simp [headerTextsGo, ih, List.append_assoc]

theorem headerTextsGo_headerArgs (v : Variant) (hs : List (Str × Str)) (hok : ∀ kv ∈ hs, nameOk kv.1 = true)
    (m : Option Str) (hd : List (Str × Str)) (d : Option Str) (i g : Bool) (u : List Str) (rf un : Bool) :
    headerTextsGo ⟨.none, m, hd, d, i, g, u, rf, un⟩ (headerArgs v hs) = hs.map fun kv => headerArg v kv.1 kv.2 := by
  induction hs generalizing hd with
  | nil => simp [headerArgs, headerTextsGo]
  | cons kv rest ih =>
    have hk := hok kv (by simp)
    have hat := headerArg_noAt v kv.1 kv.2 hk
    have hcl : classify ['-', 'H'] = .header := by decide
    have hsplit : headerArgs v (kv :: rest) = ['-', 'H'] :: headerArg v kv.1 kv.2 :: headerArgs v rest := by
      simp [headerArgs]
    rw [hsplit]
    have ih' := ih (fun x hx => hok x (by simp [hx]))
    cases hsent : headerSent (headerArg v kv.1 kv.2) with
    | none => simp [headerTextsGo, curlStep, hcl, hat, hsent, ih']
    | some x => simp [headerTextsGo, curlStep, hcl, hat, hsent, ih']

/-- the `-H` texts of the command are the texts printed for the kept headers, nothing else -/
theorem headerTexts_argvOf (vs : Variants) (tbl : Table) (r : Req) (hwf : wf r = true) :
    headerTexts (argvOf vs tbl r)
      = (filterHeaders vs.filter tbl r.known r.headers).map fun kv => headerArg vs.emptyHeader kv.1 kv.2 := by
  obtain ⟨method, url, body, verify, headers, known⟩ := r
  obtain ⟨ve, vd, vf⟩ := vs
  simp only [wf, Bool.and_eq_true, List.all_eq_true] at hwf
  obtain ⟨⟨⟨_, hurl⟩, _⟩, hhs⟩ := hwf
  simp only at hurl hhs ⊢
  have hkept : ∀ kv ∈ filterHeaders vf tbl known headers, nameOk kv.1 = true := by
    intro kv hkv
    exact (hhs kv (List.mem_filter.1 hkv).1).1
  have hX : classify ['-', 'X'] = .request := by decide
  have hd : classify ['-', 'd'] = .data := by decide
  have hraw : classify "--data-raw".toList = .dataRaw := by decide
  have hins : classify "--insecure".toList = .insecure := by decide
  simp only [String.reduceToList] at hraw hins
  have hu := classify_url url hurl
  unfold headerTexts argvOf
  simp only [headerTextsGo]
  have h0 : curlStep (curlStep CurlSt.init ['-', 'X']) method = ⟨.none, some method, [], none, false, false, [], false, false⟩ := by
    simp [curlStep, CurlSt.init, hX]
  have hp0 : CurlSt.init.pending = .none := rfl
  have hp1 : (curlStep CurlSt.init ['-', 'X']).pending = .request := by simp [curlStep, CurlSt.init, hX]
  simp only [hp0, hp1, h0, List.append_assoc]
  rw [headerTextsGo_append, headerTextsGo_headerArgs ve _ hkept, fold_headerArgs ve _ hkept]
  have htail : ∀ hd0 : List (Str × Str),
      headerTextsGo ⟨.none, some method, hd0, none, false, false, [], false, false⟩
        (dataArgs vd body ++ (insecureArgs verify ++ [url])) = [] := by
    intro hd0
    cases body with
    | none => cases verify <;> simp [dataArgs, insecureArgs, headerTextsGo, curlStep, hins]
    | some b =>
      cases b with
      | nil => cases verify <;> simp [dataArgs, insecureArgs, headerTextsGo, curlStep, hins]
      | cons ch cs =>
        by_cases hat : startsWithAt (ch :: cs) = true
        · cases vd <;> cases verify <;>
            simp [dataArgs, insecureArgs, headerTextsGo, curlStep, hins, hd, hraw, hat, addData]
        · cases vd <;> cases verify <;>
            simp [dataArgs, insecureArgs, headerTextsGo, curlStep, hins, hd, hat, addData]
  simp [htail]

theorem takeWhile_stop (p : Char → Bool) (k : Str) (x : Char) (t : Str) (hk : ∀ c ∈ k, p c = true) (hx : p x = false) :
    (k ++ x :: t).takeWhile p = k := by
  induction k with
  | nil => simp [hx]
  | cons c cs ih =>
    have := ih (fun y hy => hk y (by simp [hy]))
    simp [hk c (by simp), this]

/-- the text printed for a kept header addresses the field of that name -/
theorem textName_headerArg (v : Variant) (k val : Str) (hk : nameOk k = true) : textName (headerArg v k val) = k := by
  obtain ⟨_, hcol, hsemi, _, _⟩ := nameOk_facts k hk
  have hall : ∀ c ∈ k, (!(c == ':' || c == ';')) = true := by
    intro c hc
    have h1 : c ≠ ':' := fun e => hcol (e ▸ hc)
    have h2 : c ≠ ';' := fun e => hsemi (e ▸ hc)
    simp [h1, h2]
  unfold textName
  cases v with
  | asFound => exact takeWhile_stop _ k ':' _ hall (by decide)
  | repaired =>
    by_cases he : val.isEmpty = true
    · simp only [headerArg, he, if_true]; exact takeWhile_stop _ k ';' [] hall (by decide)
    · simp only [headerArg, he, Bool.false_eq_true, if_false]; exact takeWhile_stop _ k ':' _ hall (by decide)

theorem sameName_symm (a b : Str) : sameName a b = sameName b a := by
  rw [Bool.eq_iff_iff, sameName_iff, sameName_iff]; exact eq_comm

theorem namesUnique_eq (l : List (Str × Str)) (h : namesUnique l = true) (a b : Str × Str) (ha : a ∈ l) (hb : b ∈ l)
    (hs : sameName a.1 b.1 = true) : a = b := by
  induction l with
  | nil => simp at ha
  | cons x rest ih =>
    simp only [namesUnique, Bool.and_eq_true, Bool.not_eq_true', List.any_eq_false] at h
    obtain ⟨h1, h2⟩ := h
    simp only [List.mem_cons] at ha hb
    rcases ha with rfl | ha <;> rcases hb with rfl | hb
    · rfl
    · exact absurd (by rw [sameName_symm]; exact hs) (h1 b hb)
    · exact absurd hs (h1 a ha)
    · exact ih h2 ha hb

/-- For the commands `generate` prints (empty values as `k;`): the verdict of the table form of the property,
    taken with the specification's own table, is a verdict about the fields on the wire. -/
theorem onWire_of_table (c : Clients) (vd vf : Variant) (tbl : Table) (r : Req) (hwf : wf r = true)
    (hu : namesUnique r.headers = true)
    (h : reproduces (specAuto c (original r)) (original r) (generate ⟨.repaired, vd, vf⟩ tbl r) = true) :
    reproducesOnWire c (original r) (generate ⟨.repaired, vd, vf⟩ tbl r) = true := by
  have hm : methodOk r.method = true := by
    simp only [wf, Bool.and_eq_true] at hwf
    exact hwf.1.1.1
  have hall : ∀ kv ∈ r.headers, nameOk kv.1 = true ∧ valueOk kv.2 = true := by
    simp only [wf, Bool.and_eq_true, List.all_eq_true] at hwf
    exact hwf.2
  have hkept : ∀ kv ∈ filterHeaders vf tbl r.known r.headers, nameOk kv.1 = true ∧ valueOk kv.2 = true :=
    fun kv hkv => hall kv (List.mem_filter.1 hkv).1
  rw [reproduces_iff _ tbl _ r hwf] at h
  have hs := sent_eq .repaired _ hkept
  simp only at hs
  simp only [hs, Bool.and_eq_true, Bool.not_eq_true', headersOk, List.all_eq_true, Bool.or_eq_true] at h
  obtain ⟨hnf, hsub, hcov⟩ := h
  have hcond : ¬ (vd = .asFound ∧ bodyStartsAt (bodyOf r.body) = true) := by
    rintro ⟨h1, h2⟩
    simp [h1, h2] at hnf
  unfold reproducesOnWire
  rw [generate_eq_render _ tbl r hm, shParse_render _ (argvOf_noNul _ tbl r hwf)]
  simp only [curlSem_argvOf _ tbl r hwf, hcond, if_false, hs, headerTexts_argvOf _ tbl r hwf]
  simp only [original, bodyOf_idem, beq_self_eq_true, Bool.true_and, Bool.and_eq_true, List.all_eq_true, Bool.or_eq_true]
  refine ⟨hsub, ?_⟩
  intro kv hkv
  by_cases hin : kv ∈ filterHeaders vf tbl r.known r.headers
  · left
    simp only [onWire, wireOf, List.any_append, Bool.or_eq_true, List.any_eq_true, Bool.and_eq_true, beq_iff_eq]
    exact Or.inr ⟨kv, hin, by simp [sameName], rfl⟩
  · rcases hcov kv hkv with ha | ha
    · have hmo : mayOmit c (original r) kv = true := by rw [← specAuto_isAuto]; exact ha
      simp only [mayOmit, Bool.or_eq_true] at hmo
      rcases hmo with hc | hc
      · left
        simp only [curlAddsSame, onWire, List.any_eq_true, Bool.and_eq_true, beq_iff_eq, original] at hc
        obtain ⟨d, hd, hdn, hdv⟩ := hc
        simp only [onWire, wireOf, List.any_append, Bool.or_eq_true, List.any_eq_true, Bool.and_eq_true, beq_iff_eq,
          List.mem_filter, Bool.not_eq_true']
        refine Or.inl ⟨d, ⟨hd, ?_⟩, hdn, hdv⟩
        simp only [addressed, List.any_eq_false, List.mem_map]
        rintro t ⟨kv', hkv', rfl⟩
        rw [textName_headerArg _ _ _ (hkept kv' hkv').1]
        cases hsn : sameName kv'.1 d.1 with
        | false => simp
        | true =>
          exfalso
          have h1 : sameName kv'.1 kv.1 = true := by
            rw [sameName_iff] at hsn hdn ⊢
            exact hsn.trans hdn
          have := namesUnique_eq r.headers hu kv' kv (List.mem_filter.1 hkv').1 hkv h1
          exact hin (this ▸ hkv')
      · exact Or.inr hc
    · exact absurd (by simpa using ha) hin

/-! ### the clients as measured on this machine, and the explicit `Accept-Encoding` scenario (witnesses, non-vacuity) -/

def wDefaults : List (Str × Str) :=
  [("User-Agent".toList, "python-requests/2.34.2".toList), ("Accept-Encoding".toList, "gzip, deflate".toList),
   ("Accept".toList, "*/*".toList), ("Connection".toList, "keep-alive".toList)]

def wCaseId : Str := "X-Schemathesis-TestCaseId".toList

def wClients : Clients :=
  ⟨"curl/7.88.1".toList,
   [("User-Agent".toList, "schemathesis/dev".toList), ("Accept-Encoding".toList, "gzip, deflate".toList),
    ("Accept".toList, "*/*".toList), ("Connection".toList, "keep-alive".toList)], wCaseId⟩

/-- the table `get_excluded_headers()` builds from them -/
def wTable : Table := excludedTable wDefaults "schemathesis/dev".toList wCaseId

/-- the same with `"Accept-Encoding": None` added after the defaults -/
def wTableNeverShown : Table := cidSet wTable "Accept-Encoding".toList none

/-- a PUT with a text body, a header of the case and two headers passed to the call (`Accept-Encoding: identity`) -/
def wIdentityReq : Req :=
  ⟨"PUT".toList, "http://127.0.0.1:8080/reports/7".toList, some "it's $HOME".toList, true,
   [("X-Tenant".toList, "blue team".toList), ("User-Agent".toList, "schemathesis/dev".toList),
    ("Accept-Encoding".toList, "identity".toList), ("Accept".toList, "*/*".toList),
    ("Connection".toList, "keep-alive".toList), ("Content-Type".toList, "text/plain".toList),
    ("Content-Length".toList, "10".toList)], []⟩

/-! ### sanitization: redaction-tolerant judgement -/

theorem valueRedacted_refl (ms : List Str) (v : Str) : valueRedacted ms v v = true := by simp [valueRedacted]

theorem queryPairsRedacted_refl (ms : List Str) (l : List (Str × Str)) : queryPairsRedacted ms l l = true := by
  induction l with
  | nil => rfl
  | cons kv rest ih => obtain ⟨k, v⟩ := kv; simp [queryPairsRedacted, queryValueRedacted, ih]

theorem urlRedacted_refl (ms : List Str) (u : Str) : urlRedacted ms u u = true := by
  unfold urlRedacted
  cases h : urlQuery u with
  | none => simp [queryRedacted]
  | some q => simp [queryRedacted, queryPairsRedacted_refl]

theorem headersOk_redacted (ms : List Str) (auto : Table) (orig sent : List (Str × Str))
    (h : headersOk auto orig sent = true) : headersOkRedacted ms auto orig sent = true := by
  simp only [headersOk, headersOkRedacted, Bool.and_eq_true, List.all_eq_true, Bool.or_eq_true, List.any_eq_true,
    List.contains_eq_mem, decide_eq_true_eq] at h ⊢
  refine ⟨fun kv hkv => ⟨kv, h.1 kv hkv, by simp [fieldRedacted, valueRedacted_refl]⟩, fun o ho => ?_⟩
  rcases h.2 o ho with ha | hs
  · exact Or.inl ha
  · exact Or.inr ⟨o, hs, by simp [fieldRedacted, valueRedacted_refl]⟩

theorem reproduces_redacted_of_reproduces (ms : List Str) (auto : Table) (o : Original) (cmd : Str)
    (h : reproduces auto o cmd = true) : reproducesRedacted ms auto o cmd = true := by
  unfold reproduces at h
  unfold reproducesRedacted
  cases hp : shParse cmd with
  | none => simp [hp] at h
  | some argv =>
    simp only [hp] at h ⊢
    cases hc : curlSem argv with
    | request m u hs b k =>
      simp only [hc, sameRequest, Bool.and_eq_true, beq_iff_eq] at h
      obtain ⟨⟨⟨⟨h1, h2⟩, h3⟩, h4⟩, h5⟩ := h
      simp [sameRequestRedacted, h1, h2, h3, h4, urlRedacted_refl, headersOk_redacted ms auto _ _ h5]
    | readsFile => simp [hc, sameRequest] at h
    | globbed => simp [hc, sameRequest] at h
    | unsupported => simp [hc, sameRequest] at h

/-- what acceptance means -/
theorem redacted_accepts_only (ms : List Str) (auto : Table) (o : Original) (cmd : Str) (argv : List Str)
    (m u : Str) (hs : List (Str × Str)) (b : Option Str) (k : Bool)
    (hp : shParse cmd = some argv) (hc : curlSem argv = .request m u hs b k)
    (h : reproducesRedacted ms auto o cmd = true) :
    m = o.method ∧ bodyOf b = bodyOf o.body ∧ k = !o.verify ∧ urlBase u = urlBase o.url
      ∧ ∀ kv ∈ hs, ∃ ov ∈ o.headers, ov.1 = kv.1 ∧ (ov.2 = kv.2 ∨ kv.2 ∈ ms) := by
  simp only [reproducesRedacted, hp, hc, sameRequestRedacted, Bool.and_eq_true, beq_iff_eq, urlRedacted,
    headersOkRedacted, List.all_eq_true, List.any_eq_true] at h
  obtain ⟨⟨⟨⟨h1, ⟨h2, _⟩, _⟩, h3⟩, h4⟩, h5, _⟩ := h
  refine ⟨h1, h3, h4, h2.symm, fun kv hkv => ?_⟩
  obtain ⟨ov, hov, hf⟩ := h5 kv hkv
  simp only [fieldRedacted, valueRedacted, Bool.and_eq_true, beq_iff_eq, Bool.or_eq_true, List.contains_eq_mem,
    decide_eq_true_eq] at hf
  exact ⟨ov, hov, hf.1, hf.2⟩


theorem sanitizeFlat_mem (cfg : SanConfig) (hs : List (Str × Str)) (kv' : Str × Str) (h : kv' ∈ sanitizeFlat cfg hs) :
    ∃ kv ∈ hs, kv' = (if sensitive cfg kv.1 then (kv.1, cfg.replacement) else kv) := by
  simp only [sanitizeFlat, List.mem_map] at h
  obtain ⟨kv, hkv, rfl⟩ := h
  exact ⟨kv, hkv, rfl⟩

theorem fieldRedacted_san (cfg : SanConfig) (ms : List Str) (hm : cfg.replacement ∈ ms) (kv : Str × Str) :
    fieldRedacted ms kv (if sensitive cfg kv.1 then (kv.1, cfg.replacement) else kv) = true := by
  by_cases hs : sensitive cfg kv.1 = true
  · simp [fieldRedacted, valueRedacted, hs, hm]
  · simp [fieldRedacted, valueRedacted, hs]

/-- the command printed for a request whose header values were redacted by key (and whose URL is a redaction of the
    original's) sends the original request up to the redacted values -/
theorem sanitized_reproduces_redacted (cfg : SanConfig) (ms : List Str) (hm : cfg.replacement ∈ ms) (tbl auto : Table)
    (r : Req) (url' : Str)
    (hwf : wf ⟨r.method, url', r.body, r.verify, sanitizeFlat cfg r.headers, r.known⟩ = true)
    (hurl : urlRedacted ms r.url url' = true)
    (hsub : ∀ k v, isAutoValued tbl k v = true → isAuto auto (k, v) = true)
    (hrep : ∀ e ∈ tbl, e.2 ≠ some cfg.replacement) :
    reproducesRedacted ms auto (original r)
      (generate ⟨.repaired, .repaired, .repaired⟩ tbl ⟨r.method, url', r.body, r.verify, sanitizeFlat cfg r.headers, r.known⟩) = true := by
  have hm' : methodOk r.method = true := by
    simp only [wf, Bool.and_eq_true] at hwf
    exact hwf.1.1.1
  have hall : ∀ kv ∈ sanitizeFlat cfg r.headers, nameOk kv.1 = true ∧ valueOk kv.2 = true := by
    simp only [wf, Bool.and_eq_true, List.all_eq_true] at hwf
    exact hwf.2
  have hkept : ∀ kv ∈ filterHeaders .repaired tbl r.known (sanitizeFlat cfg r.headers), nameOk kv.1 = true ∧ valueOk kv.2 = true :=
    fun kv hkv => hall kv (List.mem_filter.1 hkv).1
  have hs := sent_eq .repaired _ hkept
  simp only at hs
  unfold reproducesRedacted
  rw [generate_eq_render _ tbl ⟨r.method, url', r.body, r.verify, sanitizeFlat cfg r.headers, r.known⟩ hm',
    shParse_render _ (argvOf_noNul _ tbl _ hwf)]
  simp only [curlSem_argvOf _ tbl _ hwf, hs]
  have hc : ¬ ((Variant.repaired = Variant.asFound) ∧ bodyStartsAt (bodyOf r.body) = true) := by simp
  simp only [hc, if_false, sameRequestRedacted, original, bodyOf_idem, beq_self_eq_true, Bool.true_and, hurl,
    Bool.and_eq_true, headersOkRedacted, List.all_eq_true, List.any_eq_true, Bool.or_eq_true]
  refine ⟨?_, ?_⟩
  · intro kv' hkv'
    obtain ⟨kv, hkv, rfl⟩ := sanitizeFlat_mem cfg r.headers kv' (List.mem_filter.1 hkv').1
    exact ⟨kv, hkv, fieldRedacted_san cfg ms hm kv⟩
  · intro o ho
    have hmem : (if sensitive cfg o.1 then (o.1, cfg.replacement) else o) ∈ sanitizeFlat cfg r.headers := by
      simp only [sanitizeFlat, List.mem_map]
      exact ⟨o, ho, rfl⟩
    by_cases hk : (if sensitive cfg o.1 then (o.1, cfg.replacement) else o)
        ∈ filterHeaders .repaired tbl r.known (sanitizeFlat cfg r.headers)
    · exact Or.inr ⟨_, hk, fieldRedacted_san cfg ms hm o⟩
    · left
      simp only [filterHeaders, List.mem_filter, hmem, true_and, Bool.or_eq_true, Bool.not_eq_true', not_or,
        Bool.not_eq_false] at hk
      obtain ⟨_, hauto⟩ := hk
      by_cases hsn : sensitive cfg o.1 = true
      · simp only [hsn, if_true] at hauto
        obtain ⟨e, he, hname, hval⟩ := (isAutoValued_iff tbl o.1 cfg.replacement).1 hauto
        rcases hval with hval | hval
        · exact hsub o.1 o.2 ((isAutoValued_iff tbl o.1 o.2).2 ⟨e, he, hname, Or.inl hval⟩)
        · exact absurd hval (hrep e he)
      · simp only [hsn, Bool.false_eq_true, if_false] at hauto
        exact hsub o.1 o.2 hauto


/-! ### a request with credentials (witness of the sanitization clause) -/

def wSanCfg : SanConfig := ⟨["authorization".toList, "api_key".toList], ["key".toList, "token".toList], "[Filtered]".toList⟩
def wMarkers : List Str := ["[Filtered]".toList]

def wSecretReq : Req :=
  ⟨"GET".toList, "http://h/reports?page=1&api_key=s3cr3t&q=a%20b".toList, none, true,
   [("X-Tenant".toList, "blue team".toList), ("Authorization".toList, "Bearer it's".toList),
    ("X-Monkey".toList, "banana".toList)], []⟩

/-- what `prepare_request(…, sanitize=True)` hands to `generate` for it -/
def wSecretShown : Req :=
  ⟨"GET".toList, "http://h/reports?page=1&api_key=%5BFiltered%5D&q=a%20b".toList, none, true,
   [("X-Tenant".toList, "blue team".toList), ("Authorization".toList, "[Filtered]".toList),
    ("X-Monkey".toList, "[Filtered]".toList)], []⟩

/-- the same with a value changed that is not shown as redacted -/
def wSecretWrong : Req :=
  ⟨"GET".toList, "http://h/reports?page=1&api_key=%5BFiltered%5D&q=a%20b".toList, none, true,
   [("X-Tenant".toList, "red team".toList), ("Authorization".toList, "[Filtered]".toList),
    ("X-Monkey".toList, "[Filtered]".toList)], []⟩

end SV.Proofs.C09
