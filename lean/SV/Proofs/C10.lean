/-
  Helper lemmas for C10 (not property statements).
-/
import SV.Spec.C10

namespace SV.Proofs.C10
open SV.Model.C10 SV.Spec.C10

/-! ## lexer -/

theorem run_append (stop : Char → Bool) (s : Str) : runOf stop s ++ afterRun stop s = s := by
  simp [runOf, afterRun, List.takeWhile_append_dropWhile]

theorem run_length (stop : Char → Bool) (s : Str) : (runOf stop s).length + (afterRun stop s).length = s.length := by
  have := congrArg List.length (run_append stop s)
  simpa using this

theorem afterRun_length_le (stop : Char → Bool) (s : Str) : (afterRun stop s).length ≤ s.length := by
  have := run_length stop s
  omega

/-- one step of the cursor machine, with the fuel abstracted -/
theorem lexF_cons (f cur : Nat) (c : Char) (rest : Str) :
    lexF (f + 1) cur (c :: rest) =
      if c == '$' then
        ⟨c :: runOf isStop rest, cur + (runOf isStop rest).length, .variable⟩ ::
          lexF f (cur + 1 + (runOf isStop rest).length) (afterRun isStop rest)
      else if c == '.' then ⟨['.'], cur, .dot⟩ :: lexF f (cur + 1) rest
      else if c == '{' then ⟨['{'], cur, .lbracket⟩ :: lexF f (cur + 1) rest
      else if c == '}' then ⟨['}'], cur, .rbracket⟩ :: lexF f (cur + 1) rest
      else if c == '#' then
        ⟨c :: runOf isRBrace rest, cur + (runOf isRBrace rest).length, .pointer⟩ ::
          lexF f (cur + 1 + (runOf isRBrace rest).length) (afterRun isRBrace rest)
      else
        ⟨c :: runOf isStop rest, cur + (runOf isStop rest).length, .string⟩ ::
          lexF f (cur + 1 + (runOf isStop rest).length) (afterRun isStop rest) := by
  rw [lexF]

theorem lexF_values (f cur : Nat) (s : Str) (h : s.length ≤ f) :
    ((lexF f cur s).map (·.value)).flatten = s := by
  induction f generalizing cur s with
  | zero => cases s <;> simp_all [lexF]
  | succ f ih =>
    cases s with
    | nil => simp [lexF]
    | cons c rest =>
      have hr : rest.length ≤ f := by simpa using h
      have h1 : ∀ stop, (afterRun stop rest).length ≤ f :=
        fun stop => Nat.le_trans (afterRun_length_le stop rest) hr
      rw [lexF_cons]
      split
      · simp [ih _ _ (h1 isStop), run_append]
      · split
        · simp_all
        · split
          · simp_all
          · split
            · simp_all
            · split
              · simp [ih _ _ (h1 isRBrace), run_append]
              · simp [ih _ _ (h1 isStop), run_append]

/-! ## RFC 6901 escaping -/

theorem replace2_step (a b r x y : Char) (t : Str) :
    replace2 a b r (x :: y :: t) =
      if x == a && y == b then r :: replace2 a b r t else x :: replace2 a b r (y :: t) := by
  rw [replace2]

theorem replace2_cons_ne (a b r x : Char) (t : Str) (h : x ≠ a) :
    replace2 a b r (x :: t) = x :: replace2 a b r t := by
  cases t with
  | nil => simp [replace2]
  | cons y t => rw [replace2_step]; simp [h]

/-- the first symbol after replacing `~1` by `/`: unchanged, or `/` where a `~` stood -/
theorem replace2_head (y : Char) (t : Str) :
    ∃ w, replace2 '~' '1' '/' (y :: t) = y :: w ∨ (y = '~' ∧ replace2 '~' '1' '/' (y :: t) = '/' :: w) := by
  cases t with
  | nil => exact ⟨[], Or.inl (by simp [replace2])⟩
  | cons z t =>
    rw [replace2_step]
    by_cases h : (y == '~' && z == '1') = true
    · refine ⟨replace2 '~' '1' '/' t, Or.inr ⟨?_, by simp [h]⟩⟩
      simp at h; exact h.1
    · exact ⟨replace2 '~' '1' '/' (z :: t), Or.inl (by simp [h])⟩

theorem unescape_eq_decode (s : Str) : unescape s = decode s := by
  fun_induction decode s with
  | case1 => simp [unescape, replace2]
  | case2 x => simp [unescape, replace2]
  | case3 x y t h ih =>
    simp only [Bool.and_eq_true, beq_iff_eq] at h
    obtain ⟨hx, hy⟩ := h
    subst hx; subst hy
    unfold unescape at ih ⊢
    rw [replace2_step]
    simp only [show (('~' : Char) == '~' && ('0' : Char) == '1') = false by decide, Bool.false_eq_true, if_false]
    rw [replace2_cons_ne _ _ _ '0' t (by decide), replace2_step]
    simp [ih]
  | case4 x y t h1 h2 ih =>
    simp only [Bool.and_eq_true, beq_iff_eq] at h2
    obtain ⟨hx, hy⟩ := h2
    subst hx; subst hy
    unfold unescape at ih ⊢
    rw [replace2_step]
    simp only [show (('~' : Char) == '~' && ('1' : Char) == '1') = true by decide, if_true]
    rw [replace2_cons_ne _ _ _ '/' _ (by decide), ih]
  | case5 x y t h1 h2 ih =>
    unfold unescape at ih ⊢
    rw [replace2_step]
    simp only [h2, Bool.false_eq_true, if_false]
    obtain ⟨w, hw | ⟨hy, hw⟩⟩ := replace2_head y t
    · rw [hw] at ih ⊢
      rw [replace2_step]
      simp only [h1, Bool.false_eq_true, if_false, ih]
    · rw [hw] at ih ⊢
      rw [replace2_step]
      simp only [show ((x == '~' && ('/' : Char) == '0')) = false by simp, Bool.false_eq_true, if_false, ih]

theorem decode_cons_ne (x : Char) (t : Str) (h : x ≠ '~') : decode (x :: t) = x :: decode t := by
  cases t with
  | nil => simp [decode]
  | cons y t => rw [decode]; simp [h]

theorem decode_escape (s : Str) : decode (escape s) = s := by
  induction s with
  | nil => simp [escape, decode]
  | cons c t ih =>
    unfold escape
    by_cases h1 : c = '~'
    · subst h1; simp [decode, ih]
    · by_cases h2 : c = '/'
      · subst h2; simp [decode, ih]
      · simp only [beq_iff_eq, h1, h2, if_false]
        rw [decode_cons_ne c _ h1, ih]

theorem escape_no_slash (s : Str) : ∀ c ∈ escape s, c ≠ '/' := by
  induction s with
  | nil => simp [escape]
  | cons x t ih =>
    intro c hc
    unfold escape at hc
    by_cases h1 : x = '~'
    · simp [h1] at hc
      rcases hc with rfl | rfl | hc
      · decide
      · decide
      · exact ih c hc
    · by_cases h2 : x = '/'
      · simp [h2] at hc
        rcases hc with rfl | rfl | hc
        · decide
        · decide
        · exact ih c hc
      · simp [h1, h2] at hc
        rcases hc with rfl | hc
        · exact h2
        · exact ih c hc

theorem splitOn_ne_nil (c : Char) (s : Str) : splitOn c s ≠ [] := by
  cases s with
  | nil => simp [splitOn]
  | cons x xs =>
    unfold splitOn
    split
    · simp
    · split <;> simp

theorem splitOn_cons_sep (c : Char) (s : Str) : splitOn c (c :: s) = [] :: splitOn c s := by
  simp [splitOn]

theorem splitOn_noSep (c : Char) (a : Str) (h : ∀ x ∈ a, x ≠ c) : splitOn c a = [a] := by
  induction a with
  | nil => simp [splitOn]
  | cons x xs ih =>
    have hx : x ≠ c := h x (by simp)
    have := ih (fun y hy => h y (by simp [hy]))
    simp [splitOn, hx, this]

theorem splitOn_append_sep (c : Char) (a rest : Str) (h : ∀ x ∈ a, x ≠ c) :
    splitOn c (a ++ c :: rest) = a :: splitOn c rest := by
  induction a with
  | nil => simp [splitOn]
  | cons x xs ih =>
    have hx : x ≠ c := h x (by simp)
    have := ih (fun y hy => h y (by simp [hy]))
    simp [splitOn, hx, this]

theorem mkPointer_cons (t : Str) (ts : List Str) : mkPointer (t :: ts) = '/' :: (escape t ++ mkPointer ts) := by
  simp [mkPointer]

theorem splitOn_mkPointer (t : Str) (ts : List Str) :
    splitOn '/' (escape t ++ mkPointer ts) = (t :: ts).map escape := by
  induction ts generalizing t with
  | nil => simp [mkPointer, splitOn_noSep '/' (escape t) (escape_no_slash t)]
  | cons u us ih =>
    rw [mkPointer_cons, splitOn_append_sep '/' _ _ (escape_no_slash t), ih u]
    simp

theorem unescape_escape (s : Str) : unescape (escape s) = s := by
  rw [unescape_eq_decode, decode_escape]

theorem pointer_tokens_roundtrip (t : Str) (ts : List Str) :
    ((splitOn '/' (mkPointer (t :: ts))).drop 1).map unescape = t :: ts := by
  rw [mkPointer_cons, splitOn_cons_sep, List.drop_one, List.tail_cons, splitOn_mkPointer]
  simp [List.map_map, Function.comp_def, unescape_escape]

/-- `rawTokens` (single scan) and `split("/")` cut the same pieces -/
theorem rawTokens_eq_split (cur : Str) (t : Str) :
    ∃ p ps, splitOn '/' t = p :: ps ∧ rawTokens cur t = (cur.reverse ++ p) :: ps := by
  induction t generalizing cur with
  | nil => exact ⟨[], [], by simp [splitOn], by simp [rawTokens]⟩
  | cons c t ih =>
    by_cases hc : c = '/'
    · subst hc
      obtain ⟨p, ps, h1, h2⟩ := ih []
      refine ⟨[], p :: ps, by simp [splitOn, h1], ?_⟩
      simp [rawTokens, h2]
    · obtain ⟨p, ps, h1, h2⟩ := ih (c :: cur)
      refine ⟨c :: p, ps, by simp [splitOn, hc, h1], ?_⟩
      simp [rawTokens, hc, h2]

theorem rawTokens_nil_eq_split (t : Str) : rawTokens [] t = splitOn '/' t := by
  obtain ⟨p, ps, h1, h2⟩ := rawTokens_eq_split [] t
  simp [h1, h2]

theorem walk_repaired_eq_spec (doc : J) (toks : List Str) : walk .repaired doc toks = specWalk doc toks := by
  induction toks generalizing doc with
  | nil => simp [walk, specWalk]
  | cons tok rest ih =>
    have hs : stepInto .repaired doc tok = specStep doc tok := by
      cases doc <;> simp [stepInto, specStep, arrayItem]
    simp only [walk, specWalk, hs]
    cases specStep doc tok with
    | none => rfl
    | some d => exact ih d

theorem resolve_repaired_spec (doc : J) (p : Str) : resolvePointer .repaired doc p = specResolve doc p := by
  cases p with
  | nil => rfl
  | cons c t =>
    simp only [resolvePointer, specResolve, refTokens]
    by_cases hc : c = '/'
    · subst hc
      simp only [beq_self_eq_true, if_true, splitOn_cons_sep, List.drop_one, List.tail_cons,
        rawTokens_nil_eq_split]
      rw [walk_repaired_eq_spec]
      congr 1
      apply List.map_congr_left
      intro a _
      exact unescape_eq_decode a
    · have : (c == '/') = false := by simpa using hc
      simp [this]

/-! ## `int()` on canonical indices -/

theorem digit_props (c : Char) (h : isAsciiDigit c = true) :
    isPyWs c = false ∧ c ≠ '_' ∧ c ≠ '-' ∧ c ≠ '+' ∧ pyDigit c = some (digitVal c) := by
  simp only [isAsciiDigit, Bool.and_eq_true, decide_eq_true_eq] at h
  obtain ⟨h1, h2⟩ := h
  refine ⟨?_, ?_, ?_, ?_, ?_⟩
  · simp only [isPyWs]
    have : c.toNat ≠ 32 := by omega
    simp
    omega
  · rintro rfl; simp at h2
  · rintro rfl; simp at h1
  · rintro rfl; simp at h1
  · simp only [digitVal, pyDigit, digitZeros, digitIn]
    have : (48 ≤ c.toNat && decide (c.toNat < 48 + 10)) = true := by simp; omega
    simp [this]

theorem dropWhile_none {α} (p : α → Bool) (l : List α) (h : ∀ x ∈ l, p x = false) : l.dropWhile p = l := by
  cases l with
  | nil => rfl
  | cons x xs => simp [List.dropWhile, h x (by simp)]

theorem stripWs_digits (l : Str) (h : ∀ c ∈ l, isAsciiDigit c = true) : stripWs l = l := by
  have hw : ∀ c ∈ l, isPyWs c = false := fun c hc => (digit_props c (h c hc)).1
  unfold stripWs
  rw [dropWhile_none _ l hw, dropWhile_none _ l.reverse (fun c hc => hw c (by simpa using hc))]
  simp

theorem digitsF_nil (acc : Nat) (ad : Bool) : digitsF acc ad [] = if ad then some acc else none := rfl

theorem digitsF_cons (acc : Nat) (ad : Bool) (c : Char) (t : Str) :
    digitsF acc ad (c :: t) =
      if c == '_' then (if ad then digitsF acc false t else none)
      else match pyDigit c with
        | some d => digitsF (acc * 10 + d) true t
        | none => none := rfl

theorem natOfAscii_nil (acc : Nat) : natOfAscii acc [] = acc := rfl
theorem natOfAscii_cons (acc : Nat) (c : Char) (t : Str) :
    natOfAscii acc (c :: t) = natOfAscii (acc * 10 + digitVal c) t := rfl

theorem digitsF_digits (acc : Nat) (ad : Bool) (l : Str) (hne : l ≠ []) (h : ∀ c ∈ l, isAsciiDigit c = true) :
    digitsF acc ad l = some (natOfAscii acc l) := by
  induction l generalizing acc ad with
  | nil => exact absurd rfl hne
  | cons c t ih =>
    obtain ⟨_, h2, _, _, h5⟩ := digit_props c (h c (by simp))
    rw [digitsF_cons, natOfAscii_cons]
    simp only [beq_iff_eq, h2, if_false, h5]
    cases t with
    | nil => rw [digitsF_nil, natOfAscii_nil]; rfl
    | cons d t' =>
      exact ih _ _ (by simp) (fun x hx => h x (by simp [hx]))

theorem rfcIndex_digits (tok : Str) (n : Nat) (h : rfcIndex tok = some n) :
    tok ≠ [] ∧ (∀ c ∈ tok, isAsciiDigit c = true) ∧ n = natOfAscii 0 tok := by
  cases tok with
  | nil => simp [rfcIndex] at h
  | cons c t =>
    unfold rfcIndex at h
    by_cases hc : c = '0'
    · subst hc
      cases t with
      | nil =>
        simp only [beq_self_eq_true, List.isEmpty_nil, if_true, Option.some.injEq] at h
        subst h
        refine ⟨by simp, ?_, by simp [natOfAscii_cons, natOfAscii_nil]; decide⟩
        intro c hc
        simp only [List.mem_singleton] at hc
        subst hc
        simp [isAsciiDigit]
      | cons d t' => simp at h
    · simp only [beq_iff_eq, hc, if_false] at h
      by_cases hd : (isAsciiDigit c && t.all isAsciiDigit) = true
      · simp only [hd, if_true, Option.some.injEq] at h
        simp only [Bool.and_eq_true, List.all_eq_true] at hd
        refine ⟨by simp, ?_, h.symm⟩
        intro x hx
        simp at hx
        rcases hx with rfl | hx
        · exact hd.1
        · exact hd.2 x hx
      · simp [hd] at h

theorem pyInt_of_rfcIndex (tok : Str) (n : Nat) (h : rfcIndex tok = some n) : pyInt tok = some (n : Int) := by
  obtain ⟨hne, hd, hn⟩ := rfcIndex_digits tok n h
  unfold pyInt
  rw [stripWs_digits tok hd]
  cases tok with
  | nil => exact absurd rfl hne
  | cons c t =>
    obtain ⟨_, _, h3, h4, _⟩ := digit_props c (hd c (by simp))
    have := digitsF_digits 0 false (c :: t) hne hd
    split
    · rename_i r heq; simp at heq; exact absurd heq.1 h3
    · rename_i r heq; simp at heq; exact absurd heq.1 h4
    · simp [this, hn]

theorem pyIndex_nat (xs : List J) (n : Nat) : pyIndex xs (n : Int) = xs[n]? := by
  unfold pyIndex
  have h0 : ¬ ((n : Int) < 0) := by omega
  simp only [h0, if_false]
  by_cases h : n < xs.length
  · have : ¬ ((n : Int) ≥ (xs.length : Int)) := by omega
    simp [this]
  · have h' : (n : Int) ≥ (xs.length : Int) := by omega
    have : xs[n]? = none := by simp; omega
    simp [h', this]

theorem arrayItem_not_lenient (xs : List J) (tok : Str) (h : lenientIndex tok = false) :
    arrayItem .asFound xs tok = arrayItem .repaired xs tok := by
  unfold arrayItem
  cases hr : rfcIndex tok with
  | some n => simp [pyInt_of_rfcIndex tok n hr, pyIndex_nat]
  | none =>
    simp only [lenientIndex, hr, Option.isNone_none, Bool.and_true] at h
    cases hp : pyInt tok with
    | none => simp
    | some i => simp [hp] at h

theorem walk_asFound_eq_repaired (doc : J) (toks : List Str) (h : ∀ t ∈ toks, lenientIndex t = false) :
    walk .asFound doc toks = walk .repaired doc toks := by
  induction toks generalizing doc with
  | nil => simp [walk]
  | cons tok rest ih =>
    have hs : stepInto .asFound doc tok = stepInto .repaired doc tok := by
      cases doc <;> simp [stepInto, arrayItem_not_lenient _ tok (h tok (by simp))]
    simp only [walk, hs]
    cases stepInto .repaired doc tok with
    | none => rfl
    | some d => exact ih d (fun t ht => h t (by simp [ht]))

/-! ## status keys -/

theorem pyDigit_ascii (c : Char) (h : isAsciiDigit c = true) : pyDigit c = some (c.toNat - 48) := by
  simp only [isAsciiDigit, Bool.and_eq_true, decide_eq_true_eq] at h
  simp only [pyDigit, digitZeros, digitIn]
  have : (48 ≤ c.toNat && decide (c.toNat < 48 + 10)) = true := by simp; omega
  simp [this]

theorem digitVal_lt (c : Char) (h : isAsciiDigit c = true) : digitVal c < 10 := by
  have h' := h
  simp only [isAsciiDigit, Bool.and_eq_true, decide_eq_true_eq] at h'
  simp only [digitVal, pyDigit_ascii c h, Option.getD_some]
  omega

theorem expandF_nil (acc : List Nat) : expandF acc [] = some acc := rfl
theorem expandF_cons (acc : List Nat) (c : Char) (t : Str) :
    expandF acc (c :: t) = match charOptions c with
      | none => none
      | some opts => expandF (expandStep acc opts) t := rfl

theorem expandF_append (acc : List Nat) (k : Str) (c : Char) :
    expandF acc (k ++ [c]) = (expandF acc k).bind fun L => (charOptions c).map (expandStep L) := by
  induction k generalizing acc with
  | nil =>
    simp only [List.nil_append, expandF_cons, expandF_nil]
    cases charOptions c <;> simp
  | cons d k ih =>
    simp only [List.cons_append, expandF_cons]
    cases charOptions d with
    | none => simp
    | some o => exact ih _

theorem mem_expandStep (L opts : List Nat) (s : Nat) :
    s ∈ expandStep L opts ↔ ∃ a ∈ L, ∃ d ∈ opts, s = a * 10 + d := by
  simp only [expandStep, List.mem_flatMap, List.mem_map]
  constructor
  · rintro ⟨a, ha, d, hd, rfl⟩; exact ⟨a, ha, d, hd, rfl⟩
  · rintro ⟨a, ha, d, hd, rfl⟩; exact ⟨a, ha, d, hd, rfl⟩

def validChar (c : Char) : Bool := isX c || isAsciiDigit c

theorem mem_asciiDigits (d : Nat) : d ∈ asciiDigits ↔ d < 10 := by
  simp only [asciiDigits, List.mem_cons, List.mem_nil_iff, or_false]
  omega

theorem expand_rev (r : Str) (hv : r.all validChar = true) :
    ∃ L, expandF [0] r.reverse = some L ∧ ∀ s, s ∈ L ↔ patMatchR r s = true := by
  induction r with
  | nil => exact ⟨[0], rfl, by intro s; simp [patMatchR]⟩
  | cons c r ih =>
    simp only [List.all_cons, Bool.and_eq_true] at hv
    obtain ⟨L', hL', hmem⟩ := ih hv.2
    rw [List.reverse_cons, expandF_append, hL']
    by_cases hx : isX c = true
    · have hco : charOptions c = some asciiDigits := by
        simp only [isX] at hx
        simp [charOptions, hx]
      refine ⟨expandStep L' asciiDigits, by simp [hco], ?_⟩
      intro s
      rw [mem_expandStep]
      simp only [patMatchR, hx, Bool.true_or, Bool.true_and]
      constructor
      · rintro ⟨a, ha, d, hd, rfl⟩
        rw [mem_asciiDigits] at hd
        have : (a * 10 + d) / 10 = a := by omega
        rw [this]; exact (hmem a).1 ha
      · intro h
        refine ⟨s / 10, (hmem _).2 h, s % 10, (mem_asciiDigits _).2 (Nat.mod_lt _ (by decide)), by omega⟩
    · have hd : isAsciiDigit c = true := by
        simp only [validChar, Bool.or_eq_true] at hv
        rcases hv.1 with h | h
        · exact absurd h hx
        · exact h
      have hx' : (c == 'X' || c == 'x') = false := by
        simp only [isX] at hx
        simpa using hx
      have hco : charOptions c = some [digitVal c] := by
        simp [charOptions, hx', hd]
      have hlt := digitVal_lt c hd
      refine ⟨expandStep L' [digitVal c], by simp [hco], ?_⟩
      intro s
      rw [mem_expandStep]
      have hxf : isX c = false := by simpa using hx
      simp only [patMatchR, hxf, Bool.false_or, hd, Bool.true_and, Bool.and_eq_true, beq_iff_eq,
        List.mem_singleton]
      constructor
      · rintro ⟨a, ha, d, rfl, rfl⟩
        have h1 : (a * 10 + digitVal c) / 10 = a := by omega
        have h2 : (a * 10 + digitVal c) % 10 = digitVal c := by omega
        rw [h1, h2]; exact ⟨rfl, (hmem a).1 ha⟩
      · rintro ⟨h1, h2⟩
        exact ⟨s / 10, (hmem _).2 h2, digitVal c, rfl, by omega⟩

theorem validKey_all (k : Str) (h : validKey k = true) : k ≠ [] ∧ k.reverse.all validChar = true := by
  simp only [validKey, Bool.and_eq_true, Bool.not_eq_true', List.isEmpty_eq_false_iff] at h
  refine ⟨h.1, ?_⟩
  simp only [List.all_eq_true, List.mem_reverse] at h ⊢
  intro c hc
  simpa [validChar] using h.2 c hc

theorem expandStatus_spec (k : Str) (h : validKey k = true) :
    ∃ L, expandStatus k = some L ∧ ∀ s, s ∈ L ↔ keyMatches k s = true := by
  obtain ⟨hne, hall⟩ := validKey_all k h
  obtain ⟨L, hL, hmem⟩ := expand_rev k.reverse hall
  rw [List.reverse_reverse] at hL
  refine ⟨L, ?_, fun s => by simpa [keyMatches] using hmem s⟩
  simp [expandStatus, hne, hL]

theorem matchStatus_spec (k : Str) (s : Nat) (h : validKey k = true) :
    matchStatus k s = some (keyMatches k s) := by
  obtain ⟨L, hL, hmem⟩ := expandStatus_spec k h
  simp only [matchStatus, hL, Option.map_some, Option.some.injEq]
  rw [Bool.eq_iff_iff]
  simpa using hmem s

theorem matchDefault_nil (s : Nat) : matchDefault [] s = some true := rfl
theorem matchDefault_cons (k : Str) (ks : List Str) (s : Nat) :
    matchDefault (k :: ks) s =
      if k == sDefault then matchDefault ks s
      else match expandStatus k, matchDefault ks s with
        | some codes, some r => some (!codes.contains s && r)
        | _, _ => none := rfl

theorem matchDefault_spec (ks : List Str) (s : Nat) (h : ∀ k ∈ ks, k = sDefault ∨ validKey k = true) :
    matchDefault ks s = some (ks.all fun k => k == sDefault || !keyMatches k s) := by
  induction ks with
  | nil => simp [matchDefault_nil]
  | cons k ks ih =>
    have ih' := ih (fun k' hk' => h k' (by simp [hk']))
    rw [matchDefault_cons]
    by_cases hd : k = sDefault
    · simp [hd, ih']
    · have hv : validKey k = true := by
        rcases h k (by simp) with h' | h'
        · exact absurd h' hd
        · exact h'
      obtain ⟨L, hL, hmem⟩ := expandStatus_spec k hv
      have hc : decide (s ∈ L) = keyMatches k s := by
        rw [Bool.eq_iff_iff]; simpa using hmem s
      have hd' : (k == sDefault) = false := by simpa using hd
      simp [hd', hL, ih', hc]

theorem firstMatch_sound (allKeys : List Str) (s : Nat) (links : List Str) (k : Str)
    (h : firstMatch allKeys s links = some k) :
    ∃ pre post, links = pre ++ k :: post ∧ responseFilter k allKeys s = some true ∧
      ∀ k' ∈ pre, responseFilter k' allKeys s ≠ some true := by
  induction links with
  | nil => simp [firstMatch] at h
  | cons x xs ih =>
    unfold firstMatch at h
    by_cases hx : responseFilter x allKeys s = some true
    · simp only [hx, beq_self_eq_true, if_true, Option.some.injEq] at h
      subst h
      exact ⟨[], xs, rfl, hx, by simp⟩
    · have hx' : (responseFilter x allKeys s == some true) = false := by
        cases hr : responseFilter x allKeys s with
        | none => rfl
        | some b => cases b <;> simp_all
      simp only [hx', Bool.false_eq_true, if_false] at h
      obtain ⟨pre, post, h1, h2, h3⟩ := ih h
      refine ⟨x :: pre, post, by simp [h1], h2, ?_⟩
      intro k' hk'
      simp at hk'
      rcases hk' with rfl | hk'
      · exact hx
      · exact h3 k' hk'

/-! ## lexer: positions and fuel -/

theorem lexF_zero (cur : Nat) (s : Str) : lexF 0 cur s = [] := by
  cases s <;> rfl

theorem lexF_nil (f cur : Nat) : lexF f cur [] = [] := by
  cases f <;> rfl

theorem step_run (f cur : Nat) (c : Char) (rest : Str) (stop : Char → Bool) (ty : TokType) :
    ∃ tok s', (⟨c :: runOf stop rest, cur + (runOf stop rest).length, ty⟩ : Token) ::
        lexF f (cur + 1 + (runOf stop rest).length) (afterRun stop rest) = tok :: lexF f (cur + tok.value.length) s' ∧
      c :: rest = tok.value ++ s' ∧ tok.end_ + 1 = cur + tok.value.length ∧ tok.value ≠ [] ∧
      s'.length ≤ rest.length := by
  refine ⟨⟨c :: runOf stop rest, cur + (runOf stop rest).length, ty⟩, afterRun stop rest, ?_, ?_, ?_, ?_, ?_⟩
  · have : cur + 1 + (runOf stop rest).length = cur + (c :: runOf stop rest).length := by simp; omega
    rw [this]
  · simp [run_append]
  · simp; omega
  · simp
  · exact afterRun_length_le stop rest

/-- one iteration of the cursor machine, uniformly: a non-empty token that is a prefix of the input, whose `end`
    is the index of its last symbol, and the machine continues right after it -/
theorem lexF_step (f cur : Nat) (c : Char) (rest : Str) :
    ∃ tok s', lexF (f + 1) cur (c :: rest) = tok :: lexF f (cur + tok.value.length) s' ∧
      c :: rest = tok.value ++ s' ∧ tok.end_ + 1 = cur + tok.value.length ∧ tok.value ≠ [] ∧
      s'.length ≤ rest.length := by
  rw [lexF_cons]
  split
  · exact step_run f cur c rest isStop .variable
  · split
    · rename_i h; simp at h; subst h
      exact ⟨⟨['.'], cur, .dot⟩, rest, rfl, rfl, rfl, by simp, Nat.le_refl _⟩
    · split
      · rename_i h; simp at h; subst h
        exact ⟨⟨['{'], cur, .lbracket⟩, rest, rfl, rfl, rfl, by simp, Nat.le_refl _⟩
      · split
        · rename_i h; simp at h; subst h
          exact ⟨⟨['}'], cur, .rbracket⟩, rest, rfl, rfl, rfl, by simp, Nat.le_refl _⟩
        · split
          · exact step_run f cur c rest isRBrace .pointer
          · exact step_run f cur c rest isStop .string

/-- the termination argument: any fuel at least the number of remaining symbols gives the same tokens -/
theorem lexF_fuel2 (n m cur : Nat) (s : Str) (hn : s.length ≤ n) (hm : s.length ≤ m) :
    lexF n cur s = lexF m cur s := by
  induction n generalizing m cur s with
  | zero =>
    have : s = [] := by cases s <;> simp_all
    subst this; rw [lexF_nil, lexF_nil]
  | succ n ih =>
    cases s with
    | nil => rw [lexF_nil, lexF_nil]
    | cons c rest =>
      cases m with
      | zero => simp at hm
      | succ m =>
        have hr : rest.length ≤ n := by simpa using hn
        have hr' : rest.length ≤ m := by simpa using hm
        have e : ∀ cur' X, X.length ≤ rest.length → lexF n cur' X = lexF m cur' X :=
          fun cur' X hX => ih m cur' X (Nat.le_trans hX hr) (Nat.le_trans hX hr')
        rw [lexF_cons, lexF_cons, e _ _ (afterRun_length_le isStop rest), e _ _ (afterRun_length_le isRBrace rest),
          e _ rest (Nat.le_refl _)]

theorem lexF_fuel (n cur : Nat) (s : Str) (h : s.length ≤ n) : lexF n cur s = lexF s.length cur s :=
  lexF_fuel2 n s.length cur s h (Nat.le_refl _)

theorem lexF_positions (f cur : Nat) (s : Str) (h : s.length ≤ f) (pre : List Token) (t : Token)
    (post : List Token) (heq : lexF f cur s = pre ++ t :: post) :
    t.end_ + 1 = cur + ((pre.map (·.value)).flatten).length + t.value.length ∧
      (post.map (·.value)).flatten = s.drop (((pre.map (·.value)).flatten).length + t.value.length) := by
  induction f generalizing cur s pre with
  | zero => rw [lexF_zero] at heq; simp at heq
  | succ f ih =>
    cases s with
    | nil => rw [lexF_nil] at heq; simp at heq
    | cons c rest =>
      obtain ⟨tok, s', hstep, hs, hend, hne, hlen⟩ := lexF_step f cur c rest
      have hs'f : s'.length ≤ f := Nat.le_trans hlen (by simpa using h)
      rw [hstep] at heq
      cases pre with
      | nil =>
        simp only [List.nil_append, List.cons.injEq] at heq
        obtain ⟨rfl, hpost⟩ := heq
        refine ⟨by simpa using hend, ?_⟩
        rw [← hpost, lexF_values f _ s' hs'f, hs]
        simp
      | cons p pre' =>
        simp only [List.cons_append, List.cons.injEq] at heq
        obtain ⟨rfl, hrest⟩ := heq
        obtain ⟨h1, h2⟩ := ih _ s' hs'f pre' hrest
        refine ⟨by simp only [List.map_cons, List.flatten_cons, List.length_append]; omega, ?_⟩
        rw [h2, hs]
        simp only [List.map_cons, List.flatten_cons, List.length_append, Nat.add_assoc]
        rw [List.drop_append]
        simp

theorem lexF_nonempty (f cur : Nat) (s : Str) : ∀ t ∈ lexF f cur s, t.value ≠ [] := by
  induction f generalizing cur s with
  | zero => rw [lexF_zero]; simp
  | succ f ih =>
    cases s with
    | nil => rw [lexF_nil]; simp
    | cons c rest =>
      obtain ⟨tok, s', hstep, _, _, hne, _⟩ := lexF_step f cur c rest
      rw [hstep]
      intro t ht
      simp at ht
      rcases ht with rfl | ht
      · exact hne
      · exact ih _ _ t ht

end SV.Proofs.C10
