/-
  C10 — helper lemmas about the dict-shaped data of link extraction and step input.
-/
import SV.Spec.C10

namespace SV.Proofs.C10
open SV.Model.C10 SV.Spec.C10

theorem lookup_dictSet_same {α} (k : Str) (v : α) (d : List (Str × α)) : lookup k (dictSet k v d) = some v := by
  induction d with
  | nil => simp [dictSet, lookup]
  | cons kv rest ih =>
    obtain ⟨k', v'⟩ := kv
    by_cases h : k = k'
    · subst h; simp [dictSet, lookup]
    · simp [dictSet, lookup, h, ih]

theorem lookup_dictSet_other {α} (k k' : Str) (v : α) (d : List (Str × α)) (h : k' ≠ k) :
    lookup k' (dictSet k v d) = lookup k' d := by
  induction d with
  | nil => simp [dictSet, lookup, h]
  | cons kv rest ih =>
    obtain ⟨k₀, v₀⟩ := kv
    by_cases h0 : k = k₀
    · subst h0; simp [dictSet, lookup, h]
    · by_cases h1 : k' = k₀
      · subst h1; simp [dictSet, lookup, h0]
      · simp [dictSet, lookup, h0, h1, ih]

/-- keys of an association list are pairwise different (it is a dict) -/
def keysNodup {α} : List (Str × α) → Prop
  | [] => True
  | (k, _) :: rest => lookup k rest = none ∧ keysNodup rest

theorem lookup_none_dictSet {α} (k k' : Str) (v : α) (d : List (Str × α)) (h : k' ≠ k)
    (hn : lookup k' d = none) : lookup k' (dictSet k v d) = none := by
  rw [lookup_dictSet_other k k' v d h]; exact hn

theorem keysNodup_dictSet {α} (k : Str) (v : α) (d : List (Str × α)) (h : keysNodup d) :
    keysNodup (dictSet k v d) := by
  induction d with
  | nil => simp [dictSet, keysNodup, lookup]
  | cons kv rest ih =>
    obtain ⟨k', v'⟩ := kv
    obtain ⟨h1, h2⟩ := h
    by_cases hk : k = k'
    · subst hk; simp only [dictSet, beq_self_eq_true, if_true]; exact ⟨h1, h2⟩
    · simp only [dictSet, beq_iff_eq, hk, if_false]
      exact ⟨lookup_none_dictSet k k' v rest (Ne.symm hk) h1, ih h2⟩

/-- the expression of the last link parameter defined for (container, name) -/
def lastParam : List Param → Str → Str → Option J
  | [], _, _ => none
  | p :: ps, c, n =>
    match lastParam ps c n with
    | some e => some e
    | none => if p.container = c ∧ p.name = n then some p.expr else none

theorem extractParams_spec (ev : J → Extracted) (ps : List Param) (acc : List (Str × List (Str × Extracted)))
    (c n : Str) :
    (lookup c (extractParams ev ps acc)).bind (lookup n) =
      match lastParam ps c n with
      | some e => some (ev e)
      | none => (lookup c acc).bind (lookup n) := by
  induction ps generalizing acc with
  | nil => simp [extractParams, lastParam]
  | cons p ps ih =>
    simp only [extractParams, lastParam]
    rw [ih]
    cases lastParam ps c n with
    | some e => rfl
    | none =>
      simp only
      by_cases hc : p.container = c
      · subst hc
        rw [lookup_dictSet_same]
        by_cases hn : p.name = n
        · subst hn; simp [lookup_dictSet_same]
        · have hn' : n ≠ p.name := fun h => hn h.symm
          simp only [Option.bind_some, hn, and_false, if_false]
          rw [lookup_dictSet_other _ _ _ _ hn']
          cases lookup p.container acc <;> simp [lookup]
      · have hc' : c ≠ p.container := fun h => hc h.symm
        rw [lookup_dictSet_other _ _ _ _ hc']
        simp [hc]

theorem extractParams_nodup (ev : J → Extracted) (ps : List Param) (acc : List (Str × List (Str × Extracted)))
    (h : ∀ c d, lookup c acc = some d → keysNodup d) :
    ∀ c d, lookup c (extractParams ev ps acc) = some d → keysNodup d := by
  induction ps generalizing acc with
  | nil => simpa [extractParams] using h
  | cons p ps ih =>
    simp only [extractParams]
    apply ih
    intro c d hd
    by_cases hc : c = p.container
    · subst hc
      rw [lookup_dictSet_same] at hd
      cases hd
      apply keysNodup_dictSet
      cases hl : lookup p.container acc with
      | none => simp [keysNodup]
      | some d' => exact h _ _ hl
    · rw [lookup_dictSet_other _ _ _ _ hc] at hd
      exact h c d hd

theorem lookup_map_snd {α β} (f : α → β) (k : Str) (d : List (Str × α)) :
    lookup k (d.map fun (c, x) => (c, f x)) = (lookup k d).map f := by
  induction d with
  | nil => rfl
  | cons kv rest ih =>
    obtain ⟨k', v'⟩ := kv
    by_cases h : k = k' <;> simp [lookup, h, ih]

theorem keepValue_name (kv : Str × Extracted) (r : Str × J) (h : keepValue kv = some r) : r.1 = kv.1 := by
  obtain ⟨n, x⟩ := kv
  cases x with
  | error e => simp [keepValue] at h
  | ok v =>
    cases v with
    | unres => simp [keepValue] at h
    | ok j =>
      simp only [keepValue] at h
      split at h
      · cases h
      · cases h; rfl

theorem lookup_filterMap_none (n : Str) (data : List (Str × Extracted)) (h : lookup n data = none) :
    lookup n (data.filterMap keepValue) = none := by
  induction data with
  | nil => rfl
  | cons kv rest ih =>
    obtain ⟨k, x⟩ := kv
    have hk : ¬ n = k := by
      intro hk; subst hk; simp [lookup] at h
    have hr : lookup n rest = none := by simpa [lookup, hk] using h
    simp only [List.filterMap_cons]
    cases hkv : keepValue (k, x) with
    | none => exact ih hr
    | some r =>
      have := keepValue_name (k, x) r hkv
      obtain ⟨r1, r2⟩ := r
      simp only at this
      subst this
      simp [lookup, hk, ih hr]

theorem lookup_kept (n : Str) (data : List (Str × Extracted)) (h : keysNodup data) :
    lookup n (data.filterMap keepValue) = supplied data n := by
  induction data with
  | nil => rfl
  | cons kv rest ih =>
    obtain ⟨k, x⟩ := kv
    obtain ⟨h1, h2⟩ := h
    simp only [List.filterMap_cons]
    by_cases hk : n = k
    · subst hk
      simp only [supplied, lookup, beq_self_eq_true, if_true]
      cases hkv : keepValue (n, x) with
      | none =>
        simp only
        rw [lookup_filterMap_none n rest h1]
        cases x with
        | error e => rfl
        | ok v =>
          cases v with
          | unres => rfl
          | ok j =>
            simp only [keepValue] at hkv
            split at hkv
            · rename_i hj; simp [hj]
            · cases hkv
      | some r =>
        cases x with
        | error e => simp [keepValue] at hkv
        | ok v =>
          cases v with
          | unres => simp [keepValue] at hkv
          | ok j =>
            simp only [keepValue] at hkv
            split at hkv
            · cases hkv
            · rename_i hj
              cases hkv
              simp [lookup, hj]
    · have : supplied ((k, x) :: rest) n = supplied rest n := by
        simp [supplied, lookup, hk]
      rw [this, ← ih h2]
      cases hkv : keepValue (k, x) with
      | none => rfl
      | some r =>
        have := keepValue_name (k, x) r hkv
        obtain ⟨r1, r2⟩ := r
        simp only at this
        subst this
        simp [lookup, hk]

theorem lookup_dictMerge_absent (n : Str) (a b : List (Str × J)) (h : lookup n b = none) :
    lookup n (dictMerge a b) = lookup n a := by
  unfold dictMerge
  induction b generalizing a with
  | nil => rfl
  | cons kv rest ih =>
    obtain ⟨k, v⟩ := kv
    have hk : ¬ n = k := by
      intro hk; subst hk; simp [lookup] at h
    have hr : lookup n rest = none := by simpa [lookup, hk] using h
    simp only [List.foldl_cons]
    rw [ih _ hr, lookup_dictSet_other _ _ _ _ hk]

theorem lookup_dictMerge_present (n : Str) (v : J) (a b : List (Str × J)) (hb : keysNodup b)
    (h : lookup n b = some v) : lookup n (dictMerge a b) = some v := by
  unfold dictMerge
  induction b generalizing a with
  | nil => simp [lookup] at h
  | cons kv rest ih =>
    obtain ⟨k, x⟩ := kv
    obtain ⟨h1, h2⟩ := hb
    simp only [List.foldl_cons]
    by_cases hk : n = k
    · subst hk
      simp only [lookup, beq_self_eq_true, if_true, Option.some.injEq] at h
      subst h
      have := lookup_dictMerge_absent n (dictSet n x a) rest h1
      unfold dictMerge at this
      rw [this, lookup_dictSet_same]
    · have hr : lookup n rest = some v := by simpa [lookup, hk] using h
      exact ih _ h2 hr

end SV.Proofs.C10
