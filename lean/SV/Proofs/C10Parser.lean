/-
  C10 — the parser without positions.
  `take_extractor` looks at `expr[current_end + 1:]`; by `lexF_positions` that text is the concatenation of the
  remaining tokens, so the parser's result depends on the tokens' texts and types only.  `parseT` is that
  position-free reading; `parse_eq_parseT` ties it to the model.  Helper definitions and lemmas, no property
  statements.
-/
import SV.Proofs.C10

namespace SV.Proofs.C10
open SV.Model.C10 SV.Spec.C10

abbrev VT := Str × TokType

def vt (t : Token) : VT := (t.value, t.type)

def skipDotT : List VT → Except PErr (List VT)
  | [] => .error .stopIteration
  | t :: ts => if t.2 == .dot then .ok ts else .error .runtimeExpr

def takeStringT : List VT → Except PErr (Str × List VT)
  | [] => .error .stopIteration
  | t :: ts => if t.2 == .string then .ok (t.1, ts) else .error .runtimeExpr

def headIsRBrace : Str → Bool
  | c :: _ => c == '}'
  | [] => false

def takeExtractorT (rx : RxOracle) : List VT → Except PErr (Option Str × List VT)
  | [] => .ok (none, [])
  | x :: ts' =>
    if headIsRBrace x.1 then .ok (none, x :: ts') else
    if !(startsWith regexPrefix x.1) then .error .runtimeExpr else
    match rx (x.1.drop regexPrefix.length) with
    | none => .error .runtimeExpr
    | some g => if g != 1 then .error .runtimeExpr else .ok (some (x.1.drop regexPrefix.length), ts')

def parseBodyRefT (embBody : Variant) (mk : Option Str → Node) : List VT → Except PErr (Node × List VT)
  | [] => .ok (mk none, [])
  | t :: ts =>
    if t.2 == .pointer then .ok (mk (some t.1), ts)
    else if embBody == .repaired && t.2 == .rbracket then .ok (mk none, t :: ts)
    else .error .runtimeExpr

def parseRequestT (embBody : Variant) (rx : RxOracle) (ts : List VT) : Except PErr (Node × List VT) :=
  match skipDotT ts with
  | .error err => .error err
  | .ok ts =>
    match ts with
    | [] => .error .stopIteration
    | loc :: ts =>
      if loc.1 == sQuery || loc.1 == sPath || loc.1 == sHeader then
        match skipDotT ts with
        | .error err => .error err
        | .ok ts =>
          match takeStringT ts with
          | .error err => .error err
          | .ok (p, ts) =>
            match takeExtractorT rx ts with
            | .error err => .error err
            | .ok (ex, ts) => .ok (.nonBodyRequest loc.1 p ex, ts)
      else if loc.1 == sBody then parseBodyRefT embBody .bodyRequest ts
      else .error .runtimeExpr

def parseResponseT (embBody : Variant) (rx : RxOracle) (ts : List VT) : Except PErr (Node × List VT) :=
  match skipDotT ts with
  | .error err => .error err
  | .ok ts =>
    match ts with
    | [] => .error .stopIteration
    | loc :: ts =>
      if loc.1 == sHeader then
        match skipDotT ts with
        | .error err => .error err
        | .ok ts =>
          match takeStringT ts with
          | .error err => .error err
          | .ok (p, ts) =>
            match takeExtractorT rx ts with
            | .error err => .error err
            | .ok (ex, ts) => .ok (.headerResponse p ex, ts)
      else if loc.1 == sBody then parseBodyRefT embBody .bodyResponse ts
      else .error .runtimeExpr

def parseVariableT (embBody : Variant) (rx : RxOracle) (v : Str) (ts : List VT) : Except PErr (Node × List VT) :=
  if v == kwUrl then .ok (.url, ts)
  else if v == kwMethod then .ok (.method, ts)
  else if v == kwStatusCode then .ok (.statusCode, ts)
  else if v == kwRequest then parseRequestT embBody rx ts
  else if v == kwResponse then parseResponseT embBody rx ts
  else .error .unknownToken

def parseFT (cfg : PCfg) (rx : RxOracle) : Nat → Bool → List VT → Except PErr (List Node)
  | 0, _, _ => .error .runtimeExpr
  | _ + 1, opened, [] => if opened then .error .runtimeExpr else .ok []
  | f + 1, opened, t :: ts =>
    match t.2 with
    | .string => consOk (.str t.1) (parseFT cfg rx f opened ts)
    | .dot => consOk (.str t.1) (parseFT cfg rx f opened ts)
    | .variable =>
      match parseVariableT cfg.embBody rx t.1 ts with
      | .error err => .error err
      | .ok (n, ts') => consOk n (parseFT cfg rx f opened ts')
    | .lbracket => if opened then .error .runtimeExpr else parseFT cfg rx f true ts
    | .rbracket => if opened then parseFT cfg rx f false ts else .error .runtimeExpr
    | .pointer =>
      match cfg.stray with
      | .asFound => parseFT cfg rx f opened ts
      | .repaired => consOk (.str t.1) (parseFT cfg rx f opened ts)

def parseT (cfg : PCfg) (rx : RxOracle) (vts : List VT) : Except PErr (List Node) :=
  parseFT cfg rx (vts.length + 1) false vts

/-! ## correspondence of the sub-parsers -/

/-- a sub-parser's result on tokens corresponds to the position-free result on their (text, type) pairs, and what
    is left is a suffix of what was given -/
def Corr {α : Type} (ts : List Token) (R : Except PErr (α × List Token)) (RT : Except PErr (α × List VT)) : Prop :=
  match R, RT with
  | .ok (a, ts'), .ok (b, vts') => a = b ∧ vts' = ts'.map vt ∧ ts' <:+ ts
  | .error x, .error y => x = y
  | _, _ => False

theorem skipDot_corr (ts : List Token) :
    (match skipDot ts, skipDotT (ts.map vt) with
     | .ok ts', .ok vts' => vts' = ts'.map vt ∧ ts' <:+ ts
     | .error x, .error y => x = y
     | _, _ => False) := by
  cases ts with
  | nil => simp [skipDot, skipDotT]
  | cons t ts =>
    simp only [skipDot, List.map_cons, skipDotT, vt]
    by_cases h : (t.type == TokType.dot) = true
    · simp [h, List.suffix_cons]
    · simp [h]

theorem takeString_corr (ts : List Token) :
    (match takeString ts, takeStringT (ts.map vt) with
     | .ok (p, ts'), .ok (v, vts') => v = p.value ∧ vts' = ts'.map vt ∧ ts' <:+ ts ∧ p :: ts' = ts
     | .error x, .error y => x = y
     | _, _ => False) := by
  cases ts with
  | nil => simp [takeString, takeStringT]
  | cons t ts =>
    simp only [takeString, List.map_cons, takeStringT, vt]
    by_cases h : (t.type == TokType.string) = true
    · simp [h, List.suffix_cons]
    · simp [h]

theorem flatten_values_head (x : Token) (ts : List Token) (hne : x.value ≠ []) :
    ∃ c r, ((x :: ts).map (·.value)).flatten = c :: r ∧ x.value = c :: (x.value.drop 1) := by
  cases hv : x.value with
  | nil => exact absurd hv hne
  | cons c r => exact ⟨c, r ++ (ts.map (·.value)).flatten, by simp [hv], by simp⟩

theorem takeExtractor_corr (rx : RxOracle) (e : Str) (pre : List Token) (p : Token) (ts : List Token)
    (h : tokenize e = pre ++ p :: ts) :
    Corr ts (takeExtractor rx e p.end_ ts) (takeExtractorT rx (ts.map vt)) := by
  have hpos := (lexF_positions e.length 0 e (Nat.le_refl _) pre p ts h)
  have hdrop : e.drop (p.end_ + 1) = (ts.map (·.value)).flatten := by
    rw [hpos.2]; congr 1; omega
  have hne : ∀ t ∈ ts, t.value ≠ [] := by
    intro t ht
    apply lexF_nonempty e.length 0 e t
    show t ∈ tokenize e
    rw [h]; simp [ht]
  unfold takeExtractor
  rw [hdrop]
  cases ts with
  | nil => simp [takeExtractorT, Corr]
  | cons x ts' =>
    obtain ⟨c, r, hfl, hxv⟩ := flatten_values_head x ts' (hne x (by simp))
    rw [hfl]
    simp only [List.map_cons, takeExtractorT, vt]
    have hh : headIsRBrace x.value = (c == '}') := by rw [hxv]; rfl
    rw [hh]
    by_cases hc : (c == '}') = true
    · simp [hc, Corr, vt]
    · simp only [hc, Bool.false_eq_true, if_false]
      by_cases hs : startsWith regexPrefix x.value = true
      · simp only [hs, Bool.not_true, Bool.false_eq_true, if_false]
        cases rx (List.drop regexPrefix.length x.value) with
        | none => simp [Corr]
        | some g =>
          by_cases hg : (g != 1) = true
          · simp [hg, Corr]
          · simp [hg, Corr, List.suffix_cons]
      · simp [hs, Corr]

theorem parseBodyRef_corr (embBody : Variant) (mk : Option Str → Node) (ts : List Token) :
    Corr ts (parseBodyRef embBody mk ts) (parseBodyRefT embBody mk (ts.map vt)) := by
  cases ts with
  | nil => simp [parseBodyRef, parseBodyRefT, Corr]
  | cons t ts =>
    simp only [parseBodyRef, List.map_cons, parseBodyRefT, vt]
    by_cases h1 : (t.type == TokType.pointer) = true
    · simp [h1, Corr, List.suffix_cons]
    · by_cases h2 : (embBody == Variant.repaired && t.type == TokType.rbracket) = true
      · simp [h1, h2, Corr, vt]
      · simp [h1, h2, Corr]

theorem Corr_mono {α : Type} {ts ts0 : List Token} {R : Except PErr (α × List Token)}
    {RT : Except PErr (α × List VT)} (h : Corr ts R RT) (hs : ts <:+ ts0) : Corr ts0 R RT := by
  unfold Corr at h ⊢
  split <;> simp_all
  rename_i a ts' b vts' h1 h2
  exact List.IsSuffix.trans h.2.2 hs

/-- the `skip_dot; take_string; take_extractor` tail shared by `$request.<loc>.` and `$response.header.` -/
theorem namedTail_corr (rx : RxOracle) (e : Str) (mk : Str → Option Str → Node) (ts : List Token)
    (hal : ts <:+ tokenize e) :
    Corr ts
      (match skipDot ts with
        | .error err => .error err
        | .ok ts =>
          match takeString ts with
          | .error err => .error err
          | .ok (p, ts) =>
            match takeExtractor rx e p.end_ ts with
            | .error err => .error err
            | .ok (ex, ts) => .ok (mk p.value ex, ts))
      (match skipDotT (ts.map vt) with
        | .error err => .error err
        | .ok ts =>
          match takeStringT ts with
          | .error err => .error err
          | .ok (p, ts) =>
            match takeExtractorT rx ts with
            | .error err => .error err
            | .ok (ex, ts) => .ok (mk p ex, ts)) := by
  cases ts with
  | nil => simp [skipDot, skipDotT, Corr]
  | cons d r =>
    by_cases hd : (d.type == TokType.dot) = true
    · simp only [skipDot, List.map_cons, skipDotT, vt, hd, if_true]
      cases r with
      | nil => simp [takeString, takeStringT, Corr]
      | cons p r4 =>
        by_cases hp : (p.type == TokType.string) = true
        · simp only [takeString, List.map_cons, takeStringT, vt, hp, if_true]
          obtain ⟨pre, hpre⟩ := hal
          have hc := takeExtractor_corr rx e (pre ++ [d]) p r4 (by rw [← hpre]; simp)
          unfold Corr at hc
          cases h1 : takeExtractor rx e p.end_ r4 with
          | error x =>
            cases h2 : takeExtractorT rx (r4.map vt) with
            | error y => simp [h1, h2] at hc; simp [Corr, hc]
            | ok b => simp [h1, h2] at hc
          | ok a =>
            cases h2 : takeExtractorT rx (r4.map vt) with
            | error y => simp [h1, h2] at hc
            | ok b =>
              obtain ⟨a1, a2⟩ := a
              obtain ⟨b1, b2⟩ := b
              simp only [h1, h2] at hc
              obtain ⟨rfl, rfl, hsuf⟩ := hc
              simp only [Corr, true_and]
              exact List.IsSuffix.trans hsuf (List.suffix_append [d, p] r4)
        · simp [takeString, takeStringT, vt, hp, Corr]
    · simp [skipDot, skipDotT, vt, hd, Corr]

theorem parseRequest_corr (embBody : Variant) (rx : RxOracle) (e : Str) (ts : List Token)
    (hal : ts <:+ tokenize e) :
    Corr ts (parseRequest embBody rx e ts) (parseRequestT embBody rx (ts.map vt)) := by
  cases ts with
  | nil => simp [parseRequest, parseRequestT, skipDot, skipDotT, Corr]
  | cons d r =>
    by_cases hd : (d.type == TokType.dot) = true
    · cases r with
      | nil => simp [parseRequest, parseRequestT, skipDot, skipDotT, vt, hd, Corr]
      | cons loc r2 =>
        have hal2 : r2 <:+ tokenize e := List.IsSuffix.trans (List.suffix_append [d, loc] r2) hal
        have hs2 : r2 <:+ d :: loc :: r2 := List.suffix_append [d, loc] r2
        simp only [parseRequest, parseRequestT, skipDot, List.map_cons, skipDotT, vt, hd, if_true]
        by_cases hl : (loc.value == sQuery || loc.value == sPath || loc.value == sHeader) = true
        · simp only [hl, if_true]
          exact Corr_mono (namedTail_corr rx e (Node.nonBodyRequest loc.value) r2 hal2) hs2
        · simp only [hl, Bool.false_eq_true, if_false]
          by_cases hb : (loc.value == sBody) = true
          · simp only [hb, if_true]
            exact Corr_mono (parseBodyRef_corr embBody .bodyRequest r2) hs2
          · simp [hb, Corr]
    · simp [parseRequest, parseRequestT, skipDot, skipDotT, vt, hd, Corr]

theorem parseResponse_corr (embBody : Variant) (rx : RxOracle) (e : Str) (ts : List Token)
    (hal : ts <:+ tokenize e) :
    Corr ts (parseResponse embBody rx e ts) (parseResponseT embBody rx (ts.map vt)) := by
  cases ts with
  | nil => simp [parseResponse, parseResponseT, skipDot, skipDotT, Corr]
  | cons d r =>
    by_cases hd : (d.type == TokType.dot) = true
    · cases r with
      | nil => simp [parseResponse, parseResponseT, skipDot, skipDotT, vt, hd, Corr]
      | cons loc r2 =>
        have hal2 : r2 <:+ tokenize e := List.IsSuffix.trans (List.suffix_append [d, loc] r2) hal
        have hs2 : r2 <:+ d :: loc :: r2 := List.suffix_append [d, loc] r2
        simp only [parseResponse, parseResponseT, skipDot, List.map_cons, skipDotT, vt, hd, if_true]
        by_cases hl : (loc.value == sHeader) = true
        · simp only [hl, if_true]
          exact Corr_mono (namedTail_corr rx e (fun p ex => Node.headerResponse p ex) r2 hal2) hs2
        · simp only [hl, Bool.false_eq_true, if_false]
          by_cases hb : (loc.value == sBody) = true
          · simp only [hb, if_true]
            exact Corr_mono (parseBodyRef_corr embBody .bodyResponse r2) hs2
          · simp [hb, Corr]
    · simp [parseResponse, parseResponseT, skipDot, skipDotT, vt, hd, Corr]

theorem parseVariable_corr (embBody : Variant) (rx : RxOracle) (e : Str) (t : Token) (ts : List Token)
    (hal : ts <:+ tokenize e) :
    Corr ts (parseVariable embBody rx e t ts) (parseVariableT embBody rx t.value (ts.map vt)) := by
  unfold parseVariable parseVariableT
  split
  · simp [Corr]
  · split
    · simp [Corr]
    · split
      · simp [Corr]
      · split
        · exact parseRequest_corr embBody rx e ts hal
        · split
          · exact parseResponse_corr embBody rx e ts hal
          · simp [Corr]

theorem parseF_eq (cfg : PCfg) (rx : RxOracle) (e : Str) (f : Nat) (opened : Bool) (ts : List Token)
    (hal : ts <:+ tokenize e) :
    parseF cfg rx e f opened ts = parseFT cfg rx f opened (ts.map vt) := by
  induction f generalizing opened ts with
  | zero => rfl
  | succ f ih =>
    cases ts with
    | nil => rfl
    | cons t ts =>
      have hal' : ts <:+ tokenize e := List.IsSuffix.trans (List.suffix_cons t ts) hal
      simp only [parseF, List.map_cons, parseFT, vt]
      cases ht : t.type
      case «variable» =>
        have hc := parseVariable_corr cfg.embBody rx e t ts hal'
        unfold Corr at hc
        cases h1 : parseVariable cfg.embBody rx e t ts with
        | error x =>
          cases h2 : parseVariableT cfg.embBody rx t.value (ts.map vt) with
          | error y => simp [h1, h2] at hc; simp [hc]
          | ok b => simp [h1, h2] at hc
        | ok a =>
          cases h2 : parseVariableT cfg.embBody rx t.value (ts.map vt) with
          | error y => simp [h1, h2] at hc
          | ok b =>
            obtain ⟨a1, a2⟩ := a
            obtain ⟨b1, b2⟩ := b
            simp only [h1, h2] at hc
            obtain ⟨rfl, rfl, hsuf⟩ := hc
            simp only [ih _ _ (List.IsSuffix.trans hsuf hal')]
      all_goals first
        | (simp only [ih _ _ hal']; done)
        | (simp only [ih _ _ hal']; cases cfg.stray <;> rfl)

/-- the (text, type) pairs of the tokens of an expression -/
def lexVT (e : Str) : List VT := (tokenize e).map vt

/-- the parser's result is a function of the tokens' texts and types -/
theorem parse_eq_parseT (cfg : PCfg) (rx : RxOracle) (e : Str) : parse cfg rx e = parseT cfg rx (lexVT e) := by
  unfold parse parseT lexVT
  rw [parseF_eq cfg rx e _ false (tokenize e) (List.suffix_refl _)]
  simp

/-! ## the lexer without positions -/

theorem lexF_vt_indep (n m cur cur' : Nat) (s : Str) (hn : s.length ≤ n) (hm : s.length ≤ m) :
    (lexF n cur s).map vt = (lexF m cur' s).map vt := by
  induction n generalizing m cur cur' s with
  | zero =>
    have : s = [] := by cases s <;> simp_all
    subst this; rw [lexF_nil, lexF_nil]
  | succ n ih =>
    cases s with
    | nil => rw [lexF_nil, lexF_nil]
    | cons c rest =>
      cases m with
      | zero => simp at hm
      | succ m =>
        have hr : rest.length ≤ n := by simpa using hn
        have hr' : rest.length ≤ m := by simpa using hm
        have e : ∀ c1 c2 X, X.length ≤ rest.length → (lexF n c1 X).map vt = (lexF m c2 X).map vt :=
          fun c1 c2 X hX => ih m c1 c2 X (Nat.le_trans hX hr) (Nat.le_trans hX hr')
        have e1 := fun c1 c2 => e c1 c2 _ (afterRun_length_le isStop rest)
        have e2 := fun c1 c2 => e c1 c2 _ (afterRun_length_le isRBrace rest)
        have e3 := fun c1 c2 => e c1 c2 rest (Nat.le_refl _)
        rw [lexF_cons, lexF_cons]
        by_cases h1 : (c == '$') = true
        · simp only [h1, if_true, List.map_cons, vt, e1 _ (cur' + 1 + (runOf isStop rest).length)]
        · by_cases h2 : (c == '.') = true
          · simp only [h1, h2, if_true, if_false, Bool.false_eq_true, List.map_cons, vt, e3 _ (cur' + 1)]
          · by_cases h3 : (c == '{') = true
            · simp only [h1, h2, h3, if_true, if_false, Bool.false_eq_true, List.map_cons, vt, e3 _ (cur' + 1)]
            · by_cases h4 : (c == '}') = true
              · simp only [h1, h2, h3, h4, if_true, if_false, Bool.false_eq_true, List.map_cons, vt,
                  e3 _ (cur' + 1)]
              · by_cases h5 : (c == '#') = true
                · simp only [h1, h2, h3, h4, h5, if_true, if_false, Bool.false_eq_true, List.map_cons, vt,
                    e2 _ (cur' + 1 + (runOf isRBrace rest).length)]
                · simp only [h1, h2, h3, h4, h5, if_false, Bool.false_eq_true, List.map_cons, vt,
                    e1 _ (cur' + 1 + (runOf isStop rest).length)]

theorem lexVT_nil : lexVT [] = [] := rfl

theorem lexVT_cons (c : Char) (rest : Str) :
    lexVT (c :: rest) =
      if c == '$' then (c :: runOf isStop rest, .variable) :: lexVT (afterRun isStop rest)
      else if c == '.' then (['.'], .dot) :: lexVT rest
      else if c == '{' then (['{'], .lbracket) :: lexVT rest
      else if c == '}' then (['}'], .rbracket) :: lexVT rest
      else if c == '#' then (c :: runOf isRBrace rest, .pointer) :: lexVT (afterRun isRBrace rest)
      else (c :: runOf isStop rest, .string) :: lexVT (afterRun isStop rest) := by
  have e : ∀ cur X, X.length ≤ rest.length → (lexF rest.length cur X).map vt = lexVT X :=
    fun cur X hX => lexF_vt_indep _ _ _ _ X hX (Nat.le_refl _)
  have e1 := fun cur => e cur _ (afterRun_length_le isStop rest)
  have e2 := fun cur => e cur _ (afterRun_length_le isRBrace rest)
  have e3 := fun cur => e cur rest (Nat.le_refl _)
  show (lexF (rest.length + 1) 0 (c :: rest)).map vt = _
  rw [lexF_cons]
  by_cases h1 : (c == '$') = true
  · simp only [h1, if_true, List.map_cons, vt, e1]
  · by_cases h2 : (c == '.') = true
    · simp only [h1, h2, if_true, if_false, Bool.false_eq_true, List.map_cons, vt, e3]
    · by_cases h3 : (c == '{') = true
      · simp only [h1, h2, h3, if_true, if_false, Bool.false_eq_true, List.map_cons, vt, e3]
      · by_cases h4 : (c == '}') = true
        · simp only [h1, h2, h3, h4, if_true, if_false, Bool.false_eq_true, List.map_cons, vt, e3]
        · by_cases h5 : (c == '#') = true
          · simp only [h1, h2, h3, h4, h5, if_true, if_false, Bool.false_eq_true, List.map_cons, vt, e2]
          · simp only [h1, h2, h3, h4, h5, if_false, Bool.false_eq_true, List.map_cons, vt, e1]

/-- the text that follows is empty or starts with a symbol on which the current run stops -/
def bd (stop : Char → Bool) : Str → Bool
  | [] => true
  | c :: _ => stop c

theorem run_prefix (stop : Char → Bool) (w rest : Str) (hw : ∀ c ∈ w, stop c = false) (hb : bd stop rest = true) :
    runOf stop (w ++ rest) = w ∧ afterRun stop (w ++ rest) = rest := by
  induction w with
  | nil =>
    cases rest with
    | nil => simp [runOf, afterRun]
    | cons c r =>
      simp only [bd] at hb
      simp [runOf, afterRun, hb]
  | cons x xs ih =>
    have hx := hw x (by simp)
    have := ih (fun c hc => hw c (by simp [hc]))
    simp only [runOf, afterRun] at this ⊢
    simp [hx, this]

theorem isStop_false_ne (c : Char) (h : isStop c = false) :
    (c == '$') = false ∧ (c == '.') = false ∧ (c == '{') = false ∧ (c == '}') = false ∧ (c == '#') = false := by
  simp only [isStop, Bool.or_eq_false_iff] at h
  obtain ⟨⟨⟨⟨h1, h2⟩, h3⟩, h4⟩, h5⟩ := h
  exact ⟨h1, h2, h3, h4, h5⟩

theorem lexVT_string (c : Char) (w rest : Str) (hc : isStop c = false) (hw : ∀ x ∈ w, isStop x = false)
    (hb : bd isStop rest = true) : lexVT ((c :: w) ++ rest) = (c :: w, .string) :: lexVT rest := by
  obtain ⟨h1, h2, h3, h4, h5⟩ := isStop_false_ne c hc
  obtain ⟨r1, r2⟩ := run_prefix isStop w rest hw hb
  rw [List.cons_append, lexVT_cons]
  simp only [h1, h2, h3, h4, h5, Bool.false_eq_true, if_false, r1, r2]

theorem lexVT_variable (w rest : Str) (hw : ∀ x ∈ w, isStop x = false) (hb : bd isStop rest = true) :
    lexVT (('$' :: w) ++ rest) = ('$' :: w, .variable) :: lexVT rest := by
  obtain ⟨r1, r2⟩ := run_prefix isStop w rest hw hb
  rw [List.cons_append, lexVT_cons]
  simp only [beq_self_eq_true, if_true, r1, r2]

theorem lexVT_pointer (w rest : Str) (hw : ∀ x ∈ w, isRBrace x = false) (hb : bd isRBrace rest = true) :
    lexVT (('#' :: w) ++ rest) = ('#' :: w, .pointer) :: lexVT rest := by
  obtain ⟨r1, r2⟩ := run_prefix isRBrace w rest hw hb
  rw [List.cons_append, lexVT_cons]
  have h1 : (('#' : Char) == '$') = false := by decide
  have h2 : (('#' : Char) == '.') = false := by decide
  have h3 : (('#' : Char) == '{') = false := by decide
  have h4 : (('#' : Char) == '}') = false := by decide
  simp only [h1, h2, h3, h4, beq_self_eq_true, Bool.false_eq_true, if_false, if_true, r1, r2]

theorem lexVT_dot (rest : Str) : lexVT ('.' :: rest) = (['.'], .dot) :: lexVT rest := by
  rw [lexVT_cons]
  have h1 : (('.' : Char) == '$') = false := by decide
  simp only [h1, beq_self_eq_true, Bool.false_eq_true, if_false, if_true]

theorem lexVT_lbrace (rest : Str) : lexVT ('{' :: rest) = (['{'], .lbracket) :: lexVT rest := by
  rw [lexVT_cons]
  have h1 : (('{' : Char) == '$') = false := by decide
  have h2 : (('{' : Char) == '.') = false := by decide
  simp only [h1, h2, beq_self_eq_true, Bool.false_eq_true, if_false, if_true]

theorem lexVT_rbrace (rest : Str) : lexVT ('}' :: rest) = (['}'], .rbracket) :: lexVT rest := by
  rw [lexVT_cons]
  have h1 : (('}' : Char) == '$') = false := by decide
  have h2 : (('}' : Char) == '.') = false := by decide
  have h3 : (('}' : Char) == '{') = false := by decide
  simp only [h1, h2, h3, beq_self_eq_true, Bool.false_eq_true, if_false, if_true]

/-! ## tokens of rendered syntax -/

def vtsRx : Option Str → List VT
  | none => []
  | some p => [(regexPrefix ++ p, .pointer)]

def vtsSource : Source → List VT
  | .header n rx => [(sHeader, .string), (['.'], .dot), (n, .string)] ++ vtsRx rx
  | .query n rx => [(sQuery, .string), (['.'], .dot), (n, .string)] ++ vtsRx rx
  | .path n rx => [(sPath, .string), (['.'], .dot), (n, .string)] ++ vtsRx rx
  | .body none => [(sBody, .string)]
  | .body (some p) => [(sBody, .string), ('#' :: p, .pointer)]

def vtsExpr : Expr → List VT
  | .url => [(kwUrl, .variable)]
  | .method => [(kwMethod, .variable)]
  | .statusCode => [(kwStatusCode, .variable)]
  | .request s => [(kwRequest, .variable), (['.'], .dot)] ++ vtsSource s
  | .response s => [(kwResponse, .variable), (['.'], .dot)] ++ vtsSource s

theorem bd_weaken (rest : Str) (h : bd isRBrace rest = true) : bd isStop rest = true := by
  cases rest with
  | nil => rfl
  | cons c r =>
    simp only [bd, isRBrace] at h
    simp [bd, isStop, h]

theorem wfName_cons (n : Str) (h : wfName n = true) :
    ∃ c w, n = c :: w ∧ isStop c = false ∧ ∀ x ∈ w, isStop x = false := by
  cases n with
  | nil => simp [wfName] at h
  | cons c w =>
    simp only [wfName, List.isEmpty_cons, Bool.not_false, List.all_cons, Bool.true_and, Bool.and_eq_true,
      Bool.not_eq_true', List.all_eq_true] at h
    exact ⟨c, w, rfl, h.1, fun x hx => by simpa using h.2 x hx⟩

theorem lexVT_name (n rest : Str) (h : wfName n = true) (hb : bd isStop rest = true) :
    lexVT (n ++ rest) = (n, .string) :: lexVT rest := by
  obtain ⟨c, w, rfl, hc, hw⟩ := wfName_cons n h
  exact lexVT_string c w rest hc hw hb

theorem lexVT_named (rx : RxOracle) (n : Str) (r : Option Str) (rest : Str) (hn : wfName n = true)
    (hr : wfRx rx r = true) (hb : bd isRBrace rest = true) :
    lexVT (n ++ renderRx r ++ rest) = (n, .string) :: (vtsRx r ++ lexVT rest) := by
  cases r with
  | none =>
    simp only [renderRx, List.append_nil, vtsRx, List.nil_append]
    exact lexVT_name n rest hn (bd_weaken rest hb)
  | some p =>
    have hp : ∀ x ∈ "regex:".toList ++ p, isRBrace x = false := by
      simp only [wfRx, noRBrace, Bool.and_eq_true, List.all_eq_true, Bool.not_eq_true'] at hr
      intro x hx
      rw [List.mem_append] at hx
      rcases hx with hx | hx
      · revert x; decide
      · exact hr.1 x hx
    have e : regexPrefix ++ p = '#' :: ("regex:".toList ++ p) := rfl
    have key := lexVT_pointer ("regex:".toList ++ p) rest hp hb
    simp only [renderRx, vtsRx, List.append_assoc, e]
    rw [lexVT_name n _ hn (by simp [bd, isStop])]
    simp only [List.cons_append, List.append_assoc, List.nil_append] at key ⊢
    rw [key]

theorem lexVT_word_dot (w rest : Str) (hw : wfName w = true) :
    lexVT (w ++ '.' :: rest) = (w, .string) :: (['.'], .dot) :: lexVT rest := by
  rw [lexVT_name w _ hw (by simp [bd, isStop]), lexVT_dot]

theorem lexVT_source (rx : RxOracle) (resp : Bool) (s : Source) (rest : Str) (hwf : wfSource rx resp s = true)
    (hb : bd isRBrace rest = true) : lexVT (renderSource s ++ rest) = vtsSource s ++ lexVT rest := by
  cases s with
  | header n r =>
    simp only [wfSource, Bool.and_eq_true] at hwf
    simp only [renderSource, vtsSource, List.append_assoc, List.cons_append, List.nil_append]
    rw [lexVT_word_dot sHeader _ (by decide), ← List.append_assoc, lexVT_named rx n r rest hwf.1 hwf.2 hb]
  | query n r =>
    simp only [wfSource, Bool.and_eq_true] at hwf
    simp only [renderSource, vtsSource, List.append_assoc, List.cons_append, List.nil_append]
    rw [lexVT_word_dot sQuery _ (by decide), ← List.append_assoc, lexVT_named rx n r rest hwf.1.2 hwf.2 hb]
  | path n r =>
    simp only [wfSource, Bool.and_eq_true] at hwf
    simp only [renderSource, vtsSource, List.append_assoc, List.cons_append, List.nil_append]
    rw [lexVT_word_dot sPath _ (by decide), ← List.append_assoc, lexVT_named rx n r rest hwf.1.2 hwf.2 hb]
  | body p =>
    cases p with
    | none =>
      simp only [renderSource, vtsSource, List.cons_append, List.nil_append]
      exact lexVT_name sBody rest (by decide) (bd_weaken rest hb)
    | some p =>
      have hp : ∀ x ∈ p, isRBrace x = false := by
        simp only [wfSource, noRBrace, List.all_eq_true, Bool.not_eq_true'] at hwf
        exact hwf
      have key := lexVT_pointer p rest hp hb
      simp only [renderSource, vtsSource, List.append_assoc, List.cons_append, List.nil_append] at key ⊢
      rw [lexVT_name sBody _ (by decide) (by simp [bd, isStop]), key]

theorem lexVT_kw_dot (w rest : Str) (hw : ∀ x ∈ w, isStop x = false) :
    lexVT (('$' :: w) ++ '.' :: rest) = ('$' :: w, .variable) :: (['.'], .dot) :: lexVT rest := by
  rw [lexVT_variable w _ hw (by simp [bd, isStop]), lexVT_dot]

theorem lexVT_expr (rx : RxOracle) (e : Expr) (rest : Str) (hwf : wfExpr rx e = true)
    (hb : bd isRBrace rest = true) : lexVT (renderExpr e ++ rest) = vtsExpr e ++ lexVT rest := by
  have hs := bd_weaken rest hb
  cases e with
  | url => exact lexVT_variable "url".toList rest (by decide) hs
  | method => exact lexVT_variable "method".toList rest (by decide) hs
  | statusCode => exact lexVT_variable "statusCode".toList rest (by decide) hs
  | request s =>
    simp only [wfExpr] at hwf
    have key := lexVT_kw_dot "request".toList (renderSource s ++ rest) (by decide)
    rw [lexVT_source rx false s rest hwf hb] at key
    simp only [renderExpr, vtsExpr, List.append_assoc, List.cons_append, List.nil_append]
    exact key
  | response s =>
    simp only [wfExpr] at hwf
    have key := lexVT_kw_dot "response".toList (renderSource s ++ rest) (by decide)
    rw [lexVT_source rx true s rest hwf hb] at key
    simp only [renderExpr, vtsExpr, List.append_assoc, List.cons_append, List.nil_append]
    exact key

/-! ## parts -/

def vtsPart : Part → List VT
  | .lit s => [(s, .string)]
  | .dot => [(['.'], .dot)]
  | .emb e => (['{'], .lbracket) :: vtsExpr e ++ [(['}'], .rbracket)]

def headNotLit : List Part → Bool
  | .lit _ :: _ => false
  | _ => true

theorem bd_parts (ps : List Part) (h : headNotLit ps = true) : bd isStop ((ps.map renderPart).flatten) = true := by
  cases ps with
  | nil => rfl
  | cons p rest =>
    cases p with
    | lit s => simp [headNotLit] at h
    | dot => simp [renderPart, bd, isStop]
    | emb e => simp [renderPart, bd, isStop]

theorem noAdjacentLits_cons (p : Part) (rest : List Part) (h : noAdjacentLits (p :: rest) = true) :
    noAdjacentLits rest = true ∧ (∀ s, p = .lit s → headNotLit rest = true) := by
  cases p with
  | lit s =>
    simp only [noAdjacentLits, Bool.and_eq_true] at h
    refine ⟨h.2, fun _ _ => ?_⟩
    cases rest with
    | nil => rfl
    | cons q r => cases q <;> simp_all [headNotLit]
  | dot => simp only [noAdjacentLits] at h; exact ⟨h, fun s hs => by cases hs⟩
  | emb e => simp only [noAdjacentLits] at h; exact ⟨h, fun s hs => by cases hs⟩

theorem lexVT_parts (rx : RxOracle) (ps : List Part) (hwf : ps.all (wfPart rx) = true)
    (hadj : noAdjacentLits ps = true) : lexVT ((ps.map renderPart).flatten) = ps.flatMap vtsPart := by
  induction ps with
  | nil => rfl
  | cons p rest ih =>
    simp only [List.all_cons, Bool.and_eq_true] at hwf
    obtain ⟨hadj', hlit⟩ := noAdjacentLits_cons p rest hadj
    have ih' := ih hwf.2 hadj'
    simp only [List.map_cons, List.flatten_cons, List.flatMap_cons]
    cases p with
    | lit s =>
      simp only [renderPart, vtsPart]
      rw [lexVT_name s _ hwf.1 (bd_parts rest (hlit s rfl)), ih']
      rfl
    | dot =>
      simp only [renderPart, vtsPart, List.cons_append, List.nil_append]
      rw [lexVT_dot, ih']
    | emb e =>
      simp only [renderPart, vtsPart, List.cons_append, List.append_assoc, List.nil_append]
      rw [lexVT_lbrace, lexVT_expr rx e _ hwf.1 (by simp [bd, isRBrace]), lexVT_rbrace, ih']

/-! ## parsing the tokens of rendered syntax -/

def moreOk : List VT → Bool
  | [] => true
  | x :: _ => x.1 == ['}'] && x.2 == .rbracket

theorem regexPrefix_eq : regexPrefix = ['#', 'r', 'e', 'g', 'e', 'x', ':'] := by decide

theorem takeExtractorT_rx (rx : RxOracle) (r : Option Str) (more : List VT) (hr : wfRx rx r = true)
    (hm : moreOk more = true) : takeExtractorT rx (vtsRx r ++ more) = .ok (r, more) := by
  cases r with
  | none =>
    simp only [vtsRx, List.nil_append]
    cases more with
    | nil => rfl
    | cons x m =>
      simp only [moreOk, Bool.and_eq_true, beq_iff_eq] at hm
      simp [takeExtractorT, hm.1, headIsRBrace]
  | some p =>
    simp only [wfRx, Bool.and_eq_true, beq_iff_eq] at hr
    have h1 : headIsRBrace (regexPrefix ++ p) = false := by rw [regexPrefix_eq]; rfl
    have h2 : startsWith regexPrefix (regexPrefix ++ p) = true := by
      simp [startsWith]
    have h3 : (regexPrefix ++ p).drop regexPrefix.length = p := by simp
    simp [vtsRx, takeExtractorT, h1, h2, h3, hr.2]

def wholeBody : Expr → Bool
  | .request (.body none) => true
  | .response (.body none) => true
  | _ => false

theorem kw_ne :
    (kwMethod == kwUrl) = false ∧ (kwStatusCode == kwUrl) = false ∧ (kwStatusCode == kwMethod) = false ∧
    (kwRequest == kwUrl) = false ∧ (kwRequest == kwMethod) = false ∧ (kwRequest == kwStatusCode) = false ∧
    (kwResponse == kwUrl) = false ∧ (kwResponse == kwMethod) = false ∧ (kwResponse == kwStatusCode) = false ∧
    (kwResponse == kwRequest) = false := by decide

theorem loc_facts :
    (sHeader == sQuery) = false ∧ (sHeader == sPath) = false ∧ (sPath == sQuery) = false ∧
    (sBody == sQuery) = false ∧ (sBody == sPath) = false ∧ (sBody == sHeader) = false := by decide

theorem parseBodyRefT_vts (embBody : Variant) (mk : Option Str → Node) (p : Option Str) (more : List VT)
    (hm : moreOk more = true) (hb : embBody = .repaired ∨ more = [] ∨ p.isSome = true) :
    parseBodyRefT embBody mk ((match p with | none => [] | some q => [('#' :: q, TokType.pointer)]) ++ more) =
      .ok (mk (p.map ('#' :: ·)), more) := by
  cases p with
  | some q => simp [parseBodyRefT]
  | none =>
    simp only [List.nil_append, Option.map_none]
    cases more with
    | nil => rfl
    | cons x m =>
      simp only [moreOk, Bool.and_eq_true, beq_iff_eq] at hm
      have hv : embBody = .repaired := by
        rcases hb with h | h | h
        · exact h
        · cases h
        · simp at h
      simp [parseBodyRefT, hm.2, hv]

theorem parseVariableT_vts (embBody : Variant) (rx : RxOracle) (e : Expr) (more : List VT)
    (hwf : wfExpr rx e = true) (hm : moreOk more = true)
    (hb : embBody = .repaired ∨ more = [] ∨ wholeBody e = false) :
    ∃ v tl, vtsExpr e = (v, .variable) :: tl ∧
      parseVariableT embBody rx v (tl ++ more) = .ok (nodeOfExpr e, more) := by
  obtain ⟨k1, k2, k3, k4, k5, k6, k7, k8, k9, k10⟩ := kw_ne
  obtain ⟨l1, l2, l3, l4, l5, l6⟩ := loc_facts
  cases e with
  | url => exact ⟨kwUrl, [], rfl, by simp [parseVariableT, nodeOfExpr]⟩
  | method => exact ⟨kwMethod, [], rfl, by simp [parseVariableT, nodeOfExpr, k1]⟩
  | statusCode => exact ⟨kwStatusCode, [], rfl, by simp [parseVariableT, nodeOfExpr, k2, k3]⟩
  | request s =>
    refine ⟨kwRequest, (['.'], .dot) :: vtsSource s, rfl, ?_⟩
    simp only [parseVariableT, k4, k5, k6, beq_self_eq_true, Bool.false_eq_true, if_false, if_true,
      List.cons_append, parseRequestT, skipDotT]
    simp only [wfExpr] at hwf
    cases s with
    | header n r =>
      simp only [wfSource, Bool.and_eq_true] at hwf
      simp [vtsSource, l1, l2, takeStringT, takeExtractorT_rx rx r more hwf.2 hm, nodeOfExpr]
    | query n r =>
      simp only [wfSource, Bool.and_eq_true] at hwf
      simp [vtsSource, takeStringT, takeExtractorT_rx rx r more hwf.2 hm, nodeOfExpr]
    | path n r =>
      simp only [wfSource, Bool.and_eq_true] at hwf
      simp [vtsSource, l3, takeStringT, takeExtractorT_rx rx r more hwf.2 hm, nodeOfExpr]
    | body p =>
      have hb' : embBody = .repaired ∨ more = [] ∨ p.isSome = true := by
        rcases hb with h | h | h
        · exact Or.inl h
        · exact Or.inr (Or.inl h)
        · cases p <;> simp_all [wholeBody]
      have key := parseBodyRefT_vts embBody .bodyRequest p more hm hb'
      cases p <;> simpa [vtsSource, l4, l5, l6, nodeOfExpr] using key
  | response s =>
    refine ⟨kwResponse, (['.'], .dot) :: vtsSource s, rfl, ?_⟩
    simp only [parseVariableT, k7, k8, k9, k10, beq_self_eq_true, Bool.false_eq_true, if_false, if_true,
      List.cons_append, parseResponseT, skipDotT]
    simp only [wfExpr] at hwf
    cases s with
    | header n r =>
      simp only [wfSource, Bool.and_eq_true] at hwf
      simp [vtsSource, takeStringT, takeExtractorT_rx rx r more hwf.2 hm, nodeOfExpr]
    | query n r => simp [wfSource] at hwf
    | path n r => simp [wfSource] at hwf
    | body p =>
      have hb' : embBody = .repaired ∨ more = [] ∨ p.isSome = true := by
        rcases hb with h | h | h
        · exact Or.inl h
        · exact Or.inr (Or.inl h)
        · cases p <;> simp_all [wholeBody]
      have key := parseBodyRefT_vts embBody .bodyResponse p more hm hb'
      cases p <;> simpa [vtsSource, l6, nodeOfExpr] using key

def fuelOf : List Part → Nat
  | [] => 0
  | .emb _ :: rest => fuelOf rest + 3
  | _ :: rest => fuelOf rest + 1

theorem vtsExpr_ne (e : Expr) : 1 ≤ (vtsExpr e).length := by
  cases e <;> simp [vtsExpr]

theorem fuelOf_le (ps : List Part) : fuelOf ps ≤ (ps.flatMap vtsPart).length := by
  induction ps with
  | nil => simp [fuelOf]
  | cons p rest ih =>
    cases p with
    | lit s => simp only [List.flatMap_cons, List.length_append, fuelOf, vtsPart, List.length_cons, List.length_nil]; omega
    | dot => simp only [List.flatMap_cons, List.length_append, fuelOf, vtsPart, List.length_cons, List.length_nil]; omega
    | emb e =>
      have := vtsExpr_ne e
      simp only [List.flatMap_cons, List.length_append, fuelOf, vtsPart, List.length_cons, List.length_nil]; omega

theorem parseFT_parts (cfg : PCfg) (rx : RxOracle) (ps : List Part) (hwf : ps.all (wfPart rx) = true)
    (hb : cfg.embBody = .repaired ∨ ps.all (fun p => !isWholeBody p) = true) (f : Nat) (hf : fuelOf ps < f) :
    parseFT cfg rx f false (ps.flatMap vtsPart) = .ok (ps.map nodeOfPart) := by
  induction ps generalizing f with
  | nil =>
    cases f with
    | zero => simp [fuelOf] at hf
    | succ f => rfl
  | cons p rest ih =>
    simp only [List.all_cons, Bool.and_eq_true] at hwf
    have hb' : cfg.embBody = .repaired ∨ rest.all (fun p => !isWholeBody p) = true := by
      rcases hb with h | h
      · exact Or.inl h
      · simp only [List.all_cons, Bool.and_eq_true] at h; exact Or.inr h.2
    cases p with
    | lit s =>
      cases f with
      | zero => simp at hf
      | succ f =>
        have := ih hwf.2 hb' f (by simp [fuelOf] at hf; omega)
        simp [vtsPart, parseFT, this, consOk, nodeOfPart]
    | dot =>
      cases f with
      | zero => simp at hf
      | succ f =>
        have := ih hwf.2 hb' f (by simp [fuelOf] at hf; omega)
        simp [vtsPart, parseFT, this, consOk, nodeOfPart]
    | emb e =>
      obtain ⟨f', rfl⟩ : ∃ f', f = f' + 3 := ⟨f - 3, by simp [fuelOf] at hf; omega⟩
      have ihr := ih hwf.2 hb' f' (by simp [fuelOf] at hf; omega)
      have hbe : cfg.embBody = .repaired ∨ ((['}'], TokType.rbracket) :: rest.flatMap vtsPart) = [] ∨
          wholeBody e = false := by
        rcases hb with h | h
        · exact Or.inl h
        · simp only [List.all_cons, Bool.and_eq_true, Bool.not_eq_true'] at h
          refine Or.inr (Or.inr ?_)
          have := h.1
          cases e with
          | request s => cases s with
            | body p => cases p <;> simp_all [isWholeBody, wholeBody]
            | _ => rfl
          | response s => cases s with
            | body p => cases p <;> simp_all [isWholeBody, wholeBody]
            | _ => rfl
          | _ => rfl
      obtain ⟨v, tl, hv, hp⟩ := parseVariableT_vts cfg.embBody rx e
        ((['}'], TokType.rbracket) :: rest.flatMap vtsPart) hwf.1 (by simp [moreOk]) hbe
      simp only [List.flatMap_cons, vtsPart, hv, List.cons_append, List.append_assoc, List.nil_append]
      simp [parseFT, hp, ihr, consOk, nodeOfPart]

theorem wfTemplate_bare_lex (rx : RxOracle) (e : Expr) (hwf : wfExpr rx e = true) :
    lexVT (renderExpr e) = vtsExpr e := by
  have := lexVT_expr rx e [] hwf rfl
  simpa [lexVT_nil] using this

def noWholeBody : Template → Bool
  | .bare _ => true
  | .parts ps => ps.all fun p => !isWholeBody p

/-- parser ∘ printer = identity on the abstract syntax -/
theorem parse_render (cfg : PCfg) (rx : RxOracle) (t : Template) (hwf : wfTemplate rx t = true)
    (hb : cfg.embBody = .repaired ∨ noWholeBody t = true) : parse cfg rx (render t) = .ok (nodesOf t) := by
  rw [parse_eq_parseT]
  cases t with
  | bare e =>
    simp only [wfTemplate] at hwf
    simp only [render, nodesOf, wfTemplate_bare_lex rx e hwf, parseT]
    obtain ⟨v, tl, hv, hp⟩ := parseVariableT_vts cfg.embBody rx e [] hwf rfl (Or.inr (Or.inl rfl))
    simp only [List.append_nil] at hp
    simp [hv, parseFT, hp, consOk]
  | parts ps =>
    simp only [wfTemplate, Bool.and_eq_true] at hwf
    simp only [render, nodesOf, lexVT_parts rx ps hwf.1 hwf.2, parseT]
    exact parseFT_parts cfg rx ps hwf.1 hb _ (Nat.lt_succ_of_le (fuelOf_le ps))

/-! ## evaluation of the denoted nodes = reference evaluation of the syntax -/

theorem evalNode_expr (rx : RxOracle) (ext : ExtOracle) (ctx : Ctx) (e : Expr) (hwf : wfExpr rx e = true) :
    evalNode .repaired ext ctx (nodeOfExpr e) = specExpr ext ctx e := by
  obtain ⟨l1, l2, l3, l4, l5, l6⟩ := loc_facts
  cases e with
  | url => rfl
  | method => rfl
  | statusCode => rfl
  | request s =>
    cases s with
    | header n r => simp [nodeOfExpr, evalNode, specExpr, specSource, containerGet, l1, l2]
    | query n r => simp [nodeOfExpr, evalNode, specExpr, specSource, containerGet]
    | path n r => simp [nodeOfExpr, evalNode, specExpr, specSource, containerGet, l3]
    | body p =>
      cases p with
      | none => simp [nodeOfExpr, evalNode, specExpr, specSource]
      | some q => simp [nodeOfExpr, evalNode, specExpr, specSource, resolve_repaired_spec]
  | response s =>
    cases s with
    | header n r =>
      simp only [nodeOfExpr, evalNode, specExpr, specSource, if_true]
      cases lookup (lower n) ctx.respHeaders with
      | none => rfl
      | some vs => cases vs <;> rfl
    | query n r => simp [wfExpr, wfSource] at hwf
    | path n r => simp [wfExpr, wfSource] at hwf
    | body p =>
      cases p with
      | none =>
        simp only [nodeOfExpr, Option.map_none, evalNode, specExpr, specSource, if_true]
        cases ctx.respBody <;> rfl
      | some q =>
        simp only [nodeOfExpr, Option.map_some, evalNode, specExpr, specSource, if_true, List.drop_one,
          List.tail_cons, resolve_repaired_spec]
        cases ctx.respBody <;> rfl

theorem evalNode_part (rx : RxOracle) (ext : ExtOracle) (ctx : Ctx) (p : Part) (hwf : wfPart rx p = true) :
    evalNode .repaired ext ctx (nodeOfPart p) = specPart ext ctx p := by
  cases p with
  | lit s => rfl
  | dot => rfl
  | emb e => exact evalNode_expr rx ext ctx e hwf

theorem evalNodes_parts (rx : RxOracle) (ext : ExtOracle) (ctx : Ctx) (ps : List Part)
    (hwf : ps.all (wfPart rx) = true) :
    evalNodes .repaired ext ctx (ps.map nodeOfPart) = specParts ext ctx ps := by
  induction ps with
  | nil => rfl
  | cons p rest ih =>
    simp only [List.all_cons, Bool.and_eq_true] at hwf
    simp only [List.map_cons, evalNodes, specParts, evalNode_part rx ext ctx p hwf.1, ih hwf.2]
    cases specPart ext ctx p with
    | error x => rfl
    | ok v => cases specParts ext ctx rest <;> rfl

/-- evaluating the rendered text = reference evaluation of the syntax (array indices and the embedded whole-body
    reference repaired) -/
theorem evalStr_render (cfg : Cfg) (rx : RxOracle) (ext : ExtOracle) (ctx : Ctx) (t : Template)
    (hidx : cfg.idx = .repaired) (hwf : wfTemplate rx t = true)
    (hb : cfg.p.embBody = .repaired ∨ noWholeBody t = true) :
    evalStr cfg rx ext ctx (render t) = specEval ext ctx t := by
  unfold evalStr
  rw [parse_render cfg.p rx t hwf hb, hidx]
  cases t with
  | bare e =>
    simp only [wfTemplate] at hwf
    simp only [nodesOf, evalNodes, evalNode_expr rx ext ctx e hwf, specEval]
    cases specExpr ext ctx e <;> rfl
  | parts ps =>
    simp only [wfTemplate, Bool.and_eq_true] at hwf
    simp only [nodesOf, evalNodes_parts rx ext ctx ps hwf.1, specEval]
    cases specParts ext ctx ps with
    | error x => rfl
    | ok vals =>
      cases vals with
      | nil => rfl
      | cons v vs => cases vs <;> rfl

/-! ## unknown `$`-words are rejected -/

def isKw (v : Str) : Bool := v == kwUrl || v == kwMethod || v == kwStatusCode || v == kwRequest || v == kwResponse

def startsDollar : Str → Bool
  | c :: _ => c == '$'
  | [] => false

/-- variable-typed tokens start with `$`, bracket-typed tokens are a single brace (true of everything the lexer
    emits) -/
def VarOK (ts : List VT) : Prop :=
  ∀ x ∈ ts, (x.2 = .variable → startsDollar x.1 = true) ∧ (x.2 = .lbracket → x.1 = ['{']) ∧ (x.2 = .rbracket → x.1 = ['}'])

/-- neither a variable nor a brace -/
def plain (x : VT) : Prop := x.2 ≠ .variable ∧ x.2 ≠ .lbracket ∧ x.2 ≠ .rbracket

/-- `ts'` is what is left of `ts` after dropping a prefix of plain tokens -/
def Consumed (ts ts' : List VT) : Prop := ∃ c, ts = c ++ ts' ∧ ∀ x ∈ c, plain x

theorem plain_of_type (x : VT) (h : x.2 = .dot ∨ x.2 = .string ∨ x.2 = .pointer) : plain x := by
  rcases h with h | h | h <;> (unfold plain; rw [h]; decide)

theorem Consumed.refl (ts : List VT) : Consumed ts ts := ⟨[], rfl, by simp⟩

theorem Consumed.cons {x : VT} {r ts' : List VT} (hx : plain x) (h : Consumed r ts') :
    Consumed (x :: r) ts' := by
  obtain ⟨c, hc, hv⟩ := h
  refine ⟨x :: c, by simp [hc], ?_⟩
  intro y hy
  simp at hy
  rcases hy with rfl | hy
  · exact hx
  · exact hv y hy

theorem VarOK_tail {x : VT} {r : List VT} (h : VarOK (x :: r)) : VarOK r :=
  fun y hy => h y (by simp [hy])

theorem plain_of_word (x : VT) (r : List VT) (h : VarOK (x :: r)) (hs : startsDollar x.1 = false)
    (h1 : x.1 ≠ ['{']) (h2 : x.1 ≠ ['}']) : plain x := by
  obtain ⟨a, b, c⟩ := h x (by simp)
  refine ⟨fun hv => ?_, fun hv => h1 (b hv), fun hv => h2 (c hv)⟩
  have := a hv
  rw [hs] at this
  cases this

theorem lexVT_varOK (n : Nat) (e : Str) (hn : e.length ≤ n) : VarOK (lexVT e) := by
  induction n generalizing e with
  | zero =>
    have : e = [] := by cases e <;> simp_all
    subst this; intro x hx; simp [lexVT_nil] at hx
  | succ n ih =>
    cases e with
    | nil => intro x hx; simp [lexVT_nil] at hx
    | cons c rest =>
      have hr : rest.length ≤ n := by simpa using hn
      have i1 := ih (afterRun isStop rest) (Nat.le_trans (afterRun_length_le _ _) hr)
      have i2 := ih (afterRun isRBrace rest) (Nat.le_trans (afterRun_length_le _ _) hr)
      have i3 := ih rest hr
      rw [lexVT_cons]
      intro x hx
      by_cases h1 : (c == '$') = true
      · simp only [h1, if_true, List.mem_cons] at hx
        rcases hx with rfl | hx
        · exact ⟨(fun _ => by simpa [startsDollar] using h1), (fun h => nomatch h), (fun h => nomatch h)⟩
        · exact i1 x hx
      · by_cases h2 : (c == '.') = true
        · simp only [h1, h2, if_true, if_false, Bool.false_eq_true, List.mem_cons] at hx
          rcases hx with rfl | hx
          · exact ⟨(fun h => nomatch h), (fun h => nomatch h), (fun h => nomatch h)⟩
          · exact i3 x hx
        · by_cases h3 : (c == '{') = true
          · simp only [h1, h2, h3, if_true, if_false, Bool.false_eq_true, List.mem_cons] at hx
            rcases hx with rfl | hx
            · exact ⟨(fun h => nomatch h), (fun _ => rfl), (fun h => nomatch h)⟩
            · exact i3 x hx
          · by_cases h4 : (c == '}') = true
            · simp only [h1, h2, h3, h4, if_true, if_false, Bool.false_eq_true, List.mem_cons] at hx
              rcases hx with rfl | hx
              · exact ⟨(fun h => nomatch h), (fun h => nomatch h), (fun _ => rfl)⟩
              · exact i3 x hx
            · by_cases h5 : (c == '#') = true
              · simp only [h1, h2, h3, h4, h5, if_true, if_false, Bool.false_eq_true, List.mem_cons] at hx
                rcases hx with rfl | hx
                · exact ⟨(fun h => nomatch h), (fun h => nomatch h), (fun h => nomatch h)⟩
                · exact i2 x hx
              · simp only [h1, h2, h3, h4, h5, if_false, Bool.false_eq_true, List.mem_cons] at hx
                rcases hx with rfl | hx
                · exact ⟨(fun h => nomatch h), (fun h => nomatch h), (fun h => nomatch h)⟩
                · exact i1 x hx

theorem startsWith_regex_brace : startsWith regexPrefix ['{'] = false ∧ startsWith regexPrefix ['}'] = false := by
  decide

theorem startsWith_regex_dollar (s : Str) (h : startsDollar s = true) : startsWith regexPrefix s = false := by
  cases s with
  | nil => simp [startsDollar] at h
  | cons c w =>
    simp only [startsDollar, beq_iff_eq] at h
    subst h
    rw [regexPrefix_eq]
    simp [startsWith]

theorem takeExtractorT_consumed (rx : RxOracle) (ts : List VT) (ex : Option Str) (ts' : List VT)
    (hv : VarOK ts) (h : takeExtractorT rx ts = .ok (ex, ts')) : Consumed ts ts' := by
  cases ts with
  | nil => simp [takeExtractorT] at h; rw [← h.2]; exact Consumed.refl _
  | cons x r =>
    simp only [takeExtractorT] at h
    by_cases h1 : headIsRBrace x.1 = true
    · simp only [h1, if_true, Except.ok.injEq, Prod.mk.injEq] at h
      rw [← h.2]; exact Consumed.refl _
    · simp only [h1, Bool.false_eq_true, if_false] at h
      by_cases h2 : startsWith regexPrefix x.1 = true
      · have hx : plain x := by
          obtain ⟨a, b, c⟩ := hv x (by simp)
          refine ⟨fun hvx => ?_, fun hvx => ?_, fun hvx => ?_⟩
          · have := startsWith_regex_dollar x.1 (a hvx)
            rw [h2] at this; cases this
          · rw [b hvx, startsWith_regex_brace.1] at h2; cases h2
          · rw [c hvx, startsWith_regex_brace.2] at h2; cases h2
        simp only [h2, Bool.not_true, Bool.false_eq_true, if_false] at h
        cases hrx : rx (List.drop regexPrefix.length x.1) with
        | none => simp [hrx] at h
        | some g =>
          simp only [hrx] at h
          by_cases hg : (g != 1) = true
          · simp [hg] at h
          · simp only [hg, Bool.false_eq_true, if_false, Except.ok.injEq, Prod.mk.injEq] at h
            rw [← h.2]; exact Consumed.cons hx (Consumed.refl _)
      · simp [h2] at h

theorem parseBodyRefT_consumed (emb : Variant) (mk : Option Str → Node) (ts : List VT) (n : Node) (ts' : List VT)
    (h : parseBodyRefT emb mk ts = .ok (n, ts')) : Consumed ts ts' := by
  cases ts with
  | nil => simp [parseBodyRefT] at h; rw [← h.2]; exact Consumed.refl _
  | cons t r =>
    simp only [parseBodyRefT] at h
    by_cases h1 : (t.2 == TokType.pointer) = true
    · simp only [h1, if_true, Except.ok.injEq, Prod.mk.injEq] at h
      rw [← h.2]
      exact Consumed.cons (plain_of_type t (by simp only [beq_iff_eq] at h1; simp [h1])) (Consumed.refl _)
    · simp only [h1, Bool.false_eq_true, if_false] at h
      by_cases h2 : (emb == Variant.repaired && t.2 == TokType.rbracket) = true
      · simp only [h2, if_true, Except.ok.injEq, Prod.mk.injEq] at h
        rw [← h.2]; exact Consumed.refl _
      · simp [h2] at h

/-- the `skip_dot; take_string; take_extractor` tail consumes no variable token -/
theorem namedTailT_consumed (rx : RxOracle) (mk : Str → Option Str → Node) (ts : List VT) (n : Node)
    (ts' : List VT) (hv : VarOK ts)
    (h : (match skipDotT ts with
        | .error err => .error err
        | .ok ts =>
          match takeStringT ts with
          | .error err => .error err
          | .ok (p, ts) =>
            match takeExtractorT rx ts with
            | .error err => .error err
            | .ok (ex, ts) => .ok (mk p ex, ts)) = Except.ok (n, ts')) : Consumed ts ts' := by
  cases ts with
  | nil => simp [skipDotT] at h
  | cons d r =>
    by_cases hd : (d.2 == TokType.dot) = true
    · simp only [skipDotT, hd, if_true] at h
      have hdv : plain d := plain_of_type d (by simp only [beq_iff_eq] at hd; simp [hd])
      cases r with
      | nil => simp [takeStringT] at h
      | cons p r4 =>
        by_cases hp : (p.2 == TokType.string) = true
        · simp only [takeStringT, hp, if_true] at h
          have hpv : plain p := plain_of_type p (by simp only [beq_iff_eq] at hp; simp [hp])
          cases hte : takeExtractorT rx r4 with
          | error x => simp [hte] at h
          | ok a =>
            obtain ⟨ex, ts4⟩ := a
            simp only [hte, Except.ok.injEq, Prod.mk.injEq] at h
            have := takeExtractorT_consumed rx r4 ex ts4 (VarOK_tail (VarOK_tail hv)) hte
            rw [← h.2]
            exact Consumed.cons hdv (Consumed.cons hpv this)
        · simp [takeStringT, hp] at h
    · simp [skipDotT, hd] at h

theorem word_not_dollar : startsDollar sQuery = false ∧ startsDollar sPath = false ∧ startsDollar sHeader = false ∧
    startsDollar sBody = false := by decide

theorem word_not_brace : ∀ w ∈ [sQuery, sPath, sHeader, sBody], w ≠ ['{'] ∧ w ≠ ['}'] := by decide

theorem plain_loc (loc : VT) (r : List VT) (h : VarOK (loc :: r)) (w : Str) (hw : w ∈ [sQuery, sPath, sHeader, sBody])
    (hl : loc.1 = w) : plain loc := by
  have hb := word_not_brace w hw
  have hd : startsDollar w = false := by
    obtain ⟨w1, w2, w3, w4⟩ := word_not_dollar
    simp only [List.mem_cons, List.mem_nil_iff, or_false] at hw
    rcases hw with rfl | rfl | rfl | rfl <;> assumption
  exact plain_of_word loc r h (by rw [hl]; exact hd) (by rw [hl]; exact hb.1) (by rw [hl]; exact hb.2)

theorem parseRequestT_consumed (emb : Variant) (rx : RxOracle) (ts : List VT) (n : Node) (ts' : List VT)
    (hv : VarOK ts) (h : parseRequestT emb rx ts = .ok (n, ts')) : Consumed ts ts' := by
  obtain ⟨w1, w2, w3, w4⟩ := word_not_dollar
  cases ts with
  | nil => simp [parseRequestT, skipDotT] at h
  | cons d r =>
    by_cases hd : (d.2 == TokType.dot) = true
    · have hdv : plain d := plain_of_type d (by simp only [beq_iff_eq] at hd; simp [hd])
      cases r with
      | nil => simp [parseRequestT, skipDotT, hd] at h
      | cons loc r2 =>
        have hv2 : VarOK (loc :: r2) := VarOK_tail hv
        simp only [parseRequestT, skipDotT, hd, if_true] at h
        by_cases hl : (loc.1 == sQuery || loc.1 == sPath || loc.1 == sHeader) = true
        · have hlv : plain loc := by
            simp only [Bool.or_eq_true, beq_iff_eq] at hl
            rcases hl with (hl | hl) | hl
            · exact plain_loc loc r2 hv2 sQuery (by simp) hl
            · exact plain_loc loc r2 hv2 sPath (by simp) hl
            · exact plain_loc loc r2 hv2 sHeader (by simp) hl
          simp only [hl, if_true] at h
          exact Consumed.cons hdv (Consumed.cons hlv
            (namedTailT_consumed rx (Node.nonBodyRequest loc.1) r2 n ts' (VarOK_tail hv2) h))
        · simp only [hl, Bool.false_eq_true, if_false] at h
          by_cases hb : (loc.1 == sBody) = true
          · have hlv : plain loc := plain_loc loc r2 hv2 sBody (by simp) (by simpa using hb)
            simp only [hb, if_true] at h
            exact Consumed.cons hdv (Consumed.cons hlv (parseBodyRefT_consumed emb _ r2 n ts' h))
          · simp [hb] at h
    · simp [parseRequestT, skipDotT, hd] at h

theorem parseResponseT_consumed (emb : Variant) (rx : RxOracle) (ts : List VT) (n : Node) (ts' : List VT)
    (hv : VarOK ts) (h : parseResponseT emb rx ts = .ok (n, ts')) : Consumed ts ts' := by
  obtain ⟨w1, w2, w3, w4⟩ := word_not_dollar
  cases ts with
  | nil => simp [parseResponseT, skipDotT] at h
  | cons d r =>
    by_cases hd : (d.2 == TokType.dot) = true
    · have hdv : plain d := plain_of_type d (by simp only [beq_iff_eq] at hd; simp [hd])
      cases r with
      | nil => simp [parseResponseT, skipDotT, hd] at h
      | cons loc r2 =>
        have hv2 : VarOK (loc :: r2) := VarOK_tail hv
        simp only [parseResponseT, skipDotT, hd, if_true] at h
        by_cases hl : (loc.1 == sHeader) = true
        · have hlv : plain loc := plain_loc loc r2 hv2 sHeader (by simp) (by simpa using hl)
          simp only [hl, if_true] at h
          exact Consumed.cons hdv (Consumed.cons hlv
            (namedTailT_consumed rx (fun p ex => Node.headerResponse p ex) r2 n ts' (VarOK_tail hv2) h))
        · simp only [hl, Bool.false_eq_true, if_false] at h
          by_cases hb : (loc.1 == sBody) = true
          · have hlv : plain loc := plain_loc loc r2 hv2 sBody (by simp) (by simpa using hb)
            simp only [hb, if_true] at h
            exact Consumed.cons hdv (Consumed.cons hlv (parseBodyRefT_consumed emb _ r2 n ts' h))
          · simp [hb] at h
    · simp [parseResponseT, skipDotT, hd] at h

theorem parseVariableT_ok (emb : Variant) (rx : RxOracle) (v : Str) (ts : List VT) (n : Node) (ts' : List VT)
    (hv : VarOK ts) (h : parseVariableT emb rx v ts = .ok (n, ts')) : isKw v = true ∧ Consumed ts ts' := by
  unfold parseVariableT at h
  unfold isKw
  split at h
  · rename_i hk; simp only [Except.ok.injEq, Prod.mk.injEq] at h; rw [← h.2]; exact ⟨by simp [hk], Consumed.refl _⟩
  · split at h
    · rename_i hk; simp only [Except.ok.injEq, Prod.mk.injEq] at h; rw [← h.2]; exact ⟨by simp [hk], Consumed.refl _⟩
    · split at h
      · rename_i hk; simp only [Except.ok.injEq, Prod.mk.injEq] at h; rw [← h.2]
        exact ⟨by simp [hk], Consumed.refl _⟩
      · split at h
        · rename_i hk; exact ⟨by simp [hk], parseRequestT_consumed emb rx ts n ts' hv h⟩
        · split at h
          · rename_i hk; exact ⟨by simp [hk], parseResponseT_consumed emb rx ts n ts' hv h⟩
          · cases h

theorem consOk_ok {n : Node} {r : Except PErr (List Node)} {ns : List Node} (h : consOk n r = .ok ns) :
    ∃ ns', r = .ok ns' := by
  cases r with
  | error e => simp [consOk] at h
  | ok ns' => exact ⟨ns', rfl⟩

theorem parseFT_variables_known (cfg : PCfg) (rx : RxOracle) (f : Nat) (o : Bool) (vts : List VT) (ns : List Node)
    (hv : VarOK vts) (h : parseFT cfg rx f o vts = .ok ns) : ∀ x ∈ vts, x.2 = .variable → isKw x.1 = true := by
  induction f generalizing o vts ns with
  | zero => simp [parseFT] at h
  | succ f ih =>
    cases vts with
    | nil => simp
    | cons t ts =>
      have hvt := VarOK_tail hv
      simp only [parseFT] at h
      intro x hx hxv
      simp only [List.mem_cons] at hx
      cases ht : t.2
      case «variable» =>
        simp only [ht] at h
        cases hp : parseVariableT cfg.embBody rx t.1 ts with
        | error e => simp [hp] at h
        | ok a =>
          obtain ⟨n, ts'⟩ := a
          simp only [hp] at h
          obtain ⟨hk, c, hc, hcv⟩ := parseVariableT_ok cfg.embBody rx t.1 ts n ts' hvt hp
          obtain ⟨ns', hns'⟩ := consOk_ok h
          have hv' : VarOK ts' := fun y hy => hvt y (by rw [hc]; simp [hy])
          rcases hx with rfl | hx
          · exact hk
          · rw [hc, List.mem_append] at hx
            rcases hx with hx | hx
            · exact absurd hxv (hcv x hx).1
            · exact ih _ _ _ hv' hns' x hx hxv
      all_goals
        simp only [ht] at h
        have hx' : x ∈ ts := by
          rcases hx with rfl | hx
          · rw [ht] at hxv; cases hxv
          · exact hx
        first
          | (obtain ⟨ns', hns'⟩ := consOk_ok h; exact ih _ _ _ hvt hns' x hx' hxv)
          | (split at h
             · cases h
             · exact ih _ _ _ hvt h x hx' hxv)
          | (split at h
             · exact ih _ _ _ hvt h x hx' hxv
             · cases h)
          | (split at h
             · exact ih _ _ _ hvt h x hx' hxv
             · obtain ⟨ns', hns'⟩ := consOk_ok h; exact ih _ _ _ hvt hns' x hx' hxv)

/-- a successfully parsed expression contains no `$`-word other than the five keywords -/
theorem parse_variables_known (cfg : PCfg) (rx : RxOracle) (e : Str) (ns : List Node)
    (h : parse cfg rx e = .ok ns) : ∀ t ∈ tokenize e, t.type = .variable → isKw t.value = true := by
  rw [parse_eq_parseT] at h
  intro t ht htv
  have := parseFT_variables_known cfg rx _ false (lexVT e) ns (lexVT_varOK e.length e (Nat.le_refl _)) h
    (vt t) (by simp only [lexVT, List.mem_map]; exact ⟨t, ht, rfl⟩) htv
  exact this

/-! ## unbalanced or nested braces are rejected -/

theorem braceBalanced_plain (o : Bool) (x : VT) (rest : List VT) (h : plain x) :
    braceBalanced o ((x :: rest).map (·.2)) = braceBalanced o (rest.map (·.2)) := by
  obtain ⟨h1, h2, h3⟩ := h
  simp only [List.map_cons]
  cases hx : x.2 <;> simp_all [braceBalanced]

theorem braceBalanced_consumed (o : Bool) (ts ts' : List VT) (h : Consumed ts ts') :
    braceBalanced o (ts.map (·.2)) = braceBalanced o (ts'.map (·.2)) := by
  obtain ⟨c, rfl, hc⟩ := h
  induction c with
  | nil => rfl
  | cons x c ih =>
    rw [List.cons_append, braceBalanced_plain o x _ (hc x (by simp))]
    exact ih (fun y hy => hc y (by simp [hy]))

theorem parseFT_balanced (cfg : PCfg) (rx : RxOracle) (f : Nat) (o : Bool) (vts : List VT) (ns : List Node)
    (hv : VarOK vts) (h : parseFT cfg rx f o vts = .ok ns) : braceBalanced o (vts.map (·.2)) = true := by
  induction f generalizing o vts ns with
  | zero => simp [parseFT] at h
  | succ f ih =>
    cases vts with
    | nil =>
      simp only [parseFT] at h
      cases o <;> simp_all [braceBalanced]
    | cons t ts =>
      have hvt := VarOK_tail hv
      simp only [parseFT] at h
      cases ht : t.2
      case «variable» =>
        simp only [ht] at h
        cases hp : parseVariableT cfg.embBody rx t.1 ts with
        | error e => simp [hp] at h
        | ok a =>
          obtain ⟨n, ts'⟩ := a
          simp only [hp] at h
          obtain ⟨_, hcons⟩ := parseVariableT_ok cfg.embBody rx t.1 ts n ts' hvt hp
          obtain ⟨ns', hns'⟩ := consOk_ok h
          obtain ⟨c, hc, hcv⟩ := hcons
          have hv' : VarOK ts' := fun y hy => hvt y (by rw [hc]; simp [hy])
          simp only [List.map_cons, ht, braceBalanced]
          rw [braceBalanced_consumed o ts ts' ⟨c, hc, hcv⟩]
          exact ih _ _ _ hv' hns'
      case lbracket =>
        simp only [ht] at h
        simp only [List.map_cons, ht, braceBalanced]
        cases o
        · simp only [Bool.false_eq_true, if_false] at h
          simpa using ih _ _ _ hvt h
        · simp at h
      case rbracket =>
        simp only [ht] at h
        simp only [List.map_cons, ht, braceBalanced]
        cases o
        · simp at h
        · simp only [if_true] at h
          simpa using ih _ _ _ hvt h
      case string =>
        simp only [ht] at h
        obtain ⟨ns', hns'⟩ := consOk_ok h
        simp only [List.map_cons, ht, braceBalanced]
        exact ih _ _ _ hvt hns'
      case dot =>
        simp only [ht] at h
        obtain ⟨ns', hns'⟩ := consOk_ok h
        simp only [List.map_cons, ht, braceBalanced]
        exact ih _ _ _ hvt hns'
      case pointer =>
        simp only [ht] at h
        simp only [List.map_cons, ht, braceBalanced]
        cases hs : cfg.stray with
        | asFound => simp only [hs] at h; exact ih _ _ _ hvt h
        | repaired =>
          simp only [hs] at h
          obtain ⟨ns', hns'⟩ := consOk_ok h
          exact ih _ _ _ hvt hns'

/-- a successfully parsed expression has balanced, un-nested braces -/
theorem parse_balanced (cfg : PCfg) (rx : RxOracle) (e : Str) (ns : List Node) (h : parse cfg rx e = .ok ns) :
    braceBalanced false ((tokenize e).map (·.type)) = true := by
  rw [parse_eq_parseT] at h
  have := parseFT_balanced cfg rx _ false (lexVT e) ns (lexVT_varOK e.length e (Nat.le_refl _)) h
  simpa [lexVT, vt, List.map_map, Function.comp_def] using this

end SV.Proofs.C10
