/-
  Helper lemmas for C13's shared-state theorems (not property statements).
-/
import SV.Spec.C13
import SV.Generated.C13Shared

namespace SV.Proofs.C13
open SV.Model.C13 SV.Spec.C13

/-! ### shared stack -/

/-- the lock holder's private stack is the shared one; every other thread's private stack is at `base` -/
def SInv (base : List Scope) (lk : Option (Tid × Nat)) (cur : List Scope) (pv : Tid → List Scope) : Prop :=
  match lk with
  | none => cur = base ∧ ∀ t, pv t = base
  | some (h, _) => pv h = cur ∧ ∀ t, t ≠ h → pv t = base

theorem discStep_inv (base : List Scope) (lk : Option (Tid × Nat)) (cur : List Scope) (pv : Tid → List Scope)
    (t : Tid) (a : SAct) (lk' : Option (Tid × Nat)) (cur' : List Scope)
    (h : discStep base lk cur t a = some (lk', cur')) (hi : SInv base lk cur pv) :
    stackStep (pv t) a = stackStep cur a ∧ cur' = (stackStep cur a).1 ∧
      SInv base lk' cur' (upd pv t (stackStep (pv t) a).1) := by
  unfold discStep at h
  cases lk with
  | none =>
    obtain ⟨hc, hp⟩ := hi
    cases a <;> simp at h
    obtain ⟨rfl, rfl⟩ := h
    refine ⟨by simp [stackStep, hp t, hc], by simp [stackStep], ?_⟩
    simp only [SInv, stackStep]
    subst hc
    refine ⟨by simp [upd, hp t], ?_⟩
    intro u hu; simp [upd, hu, hp]
  | some hd =>
    obtain ⟨hh, d⟩ := hd
    obtain ⟨hc, hp⟩ := hi
    by_cases hth : t = hh
    · subst hth
      simp only [ne_eq, not_true_eq_false, if_false] at h
      have hpv : stackStep (pv t) a = stackStep cur a := by rw [hc]
      refine ⟨hpv, ?_⟩
      cases a with
      | acq =>
        simp at h; obtain ⟨rfl, rfl⟩ := h
        refine ⟨by simp [stackStep], ?_⟩
        simp only [SInv, stackStep]
        exact ⟨by simp [upd, hc], fun u hu => by simp [upd, hu, hp u hu]⟩
      | rel =>
        by_cases hd1 : d ≤ 1
        · by_cases hcb : cur = base
          · subst hcb
            simp [hd1] at h; obtain ⟨rfl, rfl⟩ := h
            refine ⟨by simp [stackStep], ?_⟩
            simp only [SInv, stackStep]
            refine ⟨trivial, ?_⟩
            intro u
            by_cases hu : u = t
            · subst hu; simp [upd, hc]
            · simp [upd, hu, hp u hu]
          · simp [hd1, hcb] at h
        · simp [hd1] at h; obtain ⟨rfl, rfl⟩ := h
          refine ⟨by simp [stackStep], ?_⟩
          simp only [SInv, stackStep]
          exact ⟨by simp [upd, hc], fun u hu => by simp [upd, hu, hp u hu]⟩
      | push s =>
        simp at h; obtain ⟨rfl, rfl⟩ := h
        refine ⟨rfl, ?_⟩
        simp only [SInv]
        exact ⟨by simp [upd, hc], fun u hu => by simp [upd, hu, hp u hu]⟩
      | pop =>
        simp at h; obtain ⟨rfl, rfl⟩ := h
        refine ⟨rfl, ?_⟩
        simp only [SInv]
        exact ⟨by simp [upd, hc], fun u hu => by simp [upd, hu, hp u hu]⟩
      | readTop =>
        simp at h; obtain ⟨rfl, rfl⟩ := h
        refine ⟨rfl, ?_⟩
        simp only [SInv]
        exact ⟨by simp [upd, hc], fun u hu => by simp [upd, hu, hp u hu]⟩
      | readAll =>
        simp at h; obtain ⟨rfl, rfl⟩ := h
        refine ⟨rfl, ?_⟩
        simp only [SInv]
        exact ⟨by simp [upd, hc], fun u hu => by simp [upd, hu, hp u hu]⟩
    · simp [hth] at h

theorem disc_obs (base : List Scope) (tr : List SEv) :
    ∀ (lk : Option (Tid × Nat)) (cur : List Scope) (pv : Tid → List Scope),
      disc base lk cur tr = true → SInv base lk cur pv → sharedObs cur tr = privObs pv tr := by
  induction tr with
  | nil => intros; rfl
  | cons e rest ih =>
    intro lk cur pv hd hi
    obtain ⟨t, a⟩ := e
    unfold disc at hd
    cases hs : discStep base lk cur t a with
    | none => simp [hs] at hd
    | some r =>
      obtain ⟨lk', cur'⟩ := r
      simp only [hs] at hd
      obtain ⟨h1, h2, h3⟩ := discStep_inv base lk cur pv t a lk' cur' hs hi
      have := ih lk' cur' _ hd h3
      rw [h2, h1] at this
      simp only [sharedObs, privObs, h1]
      cases (stackStep cur a).2 <;> simp [this]

/-! ### lazily initialised cell -/

structure LInv (c : LCfg) (s : LState) : Prop where
  have_full : ∀ w o, s.pc w = .have o → s.objs o = c.parts
  done_full : ∀ w n, s.pc w = .done n → n = c.parts
  cell_ok : ∀ o, s.cell = some o → s.objs o = c.parts ∨ (c.locked = true ∧ s.lock = some o)
  build_ok : ∀ w f p, s.pc w = .building f p →
    s.objs w = f ∧ f ≤ c.parts ∧ (c.locked = true → s.lock = some w)
  start_ok : ∀ w, s.pc w = .start → s.objs w = 0

theorem linv_init (c : LCfg) : LInv c LState.init := by
  constructor <;> simp [LState.init]

theorem lstep_inv (c : LCfg) (hc : c.parts ≤ c.publishAt ∨ c.locked = true) (s : LState) (w : Tid)
    (hi : LInv c s) : LInv c (lstep c s w) := by
  obtain ⟨h1, h2, h3, h4, h7⟩ := hi
  unfold lstep
  split
  · -- start
    rename_i hpc
    split
    · exact ⟨h1, h2, h3, h4, h7⟩
    · rename_i hblk
      split
      · -- hit
        rename_i o hcell
        have hfull : s.objs o = c.parts := by
          rcases h3 o hcell with h | ⟨hl, hk⟩
          · exact h
          · simp [hl, hk] at hblk
        constructor <;> simp only [upd] <;> grind
      · -- miss
        rename_i hcell
        constructor <;> simp only [upd] <;> grind
  · -- building
    rename_i f p hpc
    obtain ⟨hb1, hb2, hb3⟩ := h4 w f p hpc
    split
    · -- publish
      rename_i hpub
      constructor <;> simp only [upd] <;> grind
    · split
      · -- fill
        rename_i hnp hlt
        constructor <;> simp only [upd] <;> grind
      · -- finish
        rename_i hnp hge
        have hf : f = c.parts := by omega
        have hget : s.objs (s.cell.getD w) = c.parts := by
          cases hcell : s.cell with
          | none => simp [hb1, hf]
          | some o =>
            simp only [Option.getD_some]
            rcases h3 o hcell with h | ⟨hl, hk⟩
            · exact h
            · have := hb3 hl
              rw [hk] at this
              cases this
              rw [hb1, hf]
        constructor <;> simp only [upd] <;> grind
  · -- have
    rename_i o hpc
    have := h1 w o hpc
    constructor <;> simp only [upd] <;> grind
  · exact ⟨h1, h2, h3, h4, h7⟩

theorem lrun_inv (c : LCfg) (hc : c.parts ≤ c.publishAt ∨ c.locked = true) (sched : List Tid) :
    LInv c (lrun c sched) := by
  unfold lrun
  suffices h : ∀ s, LInv c s → LInv c (sched.foldl (lstep c) s) from h _ (linv_init c)
  induction sched with
  | nil => intro s hs; exact hs
  | cons w rest ih => intro s hs; exact ih _ (lstep_inv c hc s w hs)

/-! ### reading the tables regenerated from the source -/

abbrev LazyRow := String × String × String × String × Bool × String

def LazyRow.member (m : LazyRow) : String := m.2.2.1
def LazyRow.publishAfterBuild (m : LazyRow) : Bool := m.2.2.2.2.1
def LazyRow.lock (m : LazyRow) : String := m.2.2.2.2.2

/-- the cell configuration that a row of the table describes (one building step stands for the whole loop) -/
def LazyRow.cfg (m : LazyRow) : LCfg := ⟨1, if m.publishAfterBuild then 1 else 0, m.lock != ""⟩

/-- accesses to the resolver that move or read its scope stack -/
def touchesStack (what : String) : Bool :=
  what == "resolving" || what == "resolve" || what == "resolve_all" || what == "push_scope" || what == "pop_scope" ||
    what == "resolve_in_scope" || what == "in_scope" || what == "in_scopes" || what == "_scopes_stack" ||
    what == "resolution_scope" || what == "base_uri"

def isInlining (fn : String) : Bool := fn == "_rewrite_references"

end SV.Proofs.C13
