/-
  Helper lemmas for C14 (not property statements): dict / CaseInsensitiveDict algebra, `_for_parameters`.
-/
import SV.Model.C14
import SV.Spec.C14

namespace SV.Proofs.C14
open SV.Model.C14 SV.Spec.C14

theorem lookup_set_same (d : Dict) (k : Key) (v : String) : dlookup k (dset d k v) = some v := by
  induction d with
  | nil => simp [dset, dlookup]
  | cons kv r ih =>
    obtain ⟨k', v'⟩ := kv
    by_cases h : (k == k') = true
    · simp [dset, dlookup, h]
    · simp [dset, dlookup, h, ih]

theorem lookup_set_other (d : Dict) (k k2 : Key) (v : String) (hne : (k2 == k) = false) :
    dlookup k2 (dset d k v) = dlookup k2 d := by
  induction d with
  | nil => simp [dset, dlookup, hne]
  | cons kv r ih =>
    obtain ⟨k', v'⟩ := kv
    by_cases h : (k == k') = true
    · have hk : k = k' := by simpa using h
      subst hk
      simp [dset, dlookup, hne]
    · simp only [dset, h, dlookup]
      by_cases h2 : (k2 == k') = true
      · simp [dlookup, h2]
      · simp [dlookup, h2, ih]

theorem update_spec (d other : Dict) (k : Key) :
    dlookup k (dupdate d other) = match lastIn k other with | some v => some v | none => dlookup k d := by
  unfold dupdate
  induction other generalizing d with
  | nil => simp [lastIn]
  | cons kv rest ih =>
    simp only [List.foldl_cons, lastIn]
    rw [ih]
    cases hl : lastIn k rest with
    | some v => rfl
    | none =>
      simp only
      by_cases hk : (k == kv.1) = true
      · have : k = kv.1 := by simpa using hk
        simp only [hk, if_true]
        rw [this]; exact lookup_set_same _ _ _
      · simp only [hk]
        exact lookup_set_other _ _ _ _ (by simpa using hk)

theorem lastIn_none_of_absent (k : Key) (other : Dict) (h : ∀ kv ∈ other, (k == kv.1) = false) :
    lastIn k other = none := by
  induction other with
  | nil => rfl
  | cons kv rest ih =>
    simp only [lastIn, ih (fun x hx => h x (by simp [hx])), h kv (by simp)]
    simp

theorem lookupCI_setCI_same (d : Dict) (k k2 : Key) (v : String) (h : lower k2 = lower k) :
    lookupCI k2 (setCI d k v) = some v := by
  induction d with
  | nil => simp [setCI, lookupCI, h]
  | cons kv r ih =>
    obtain ⟨k', v'⟩ := kv
    by_cases hk : (lower k == lower k') = true
    · simp [setCI, lookupCI, hk, h]
    · have : (lower k2 == lower k') = false := by rw [h]; simpa using hk
      simp [setCI, lookupCI, hk, this, ih]

theorem lookupCI_setCI_other (d : Dict) (k k2 : Key) (v : String) (hne : lower k2 ≠ lower k) :
    lookupCI k2 (setCI d k v) = lookupCI k2 d := by
  induction d with
  | nil => simp [setCI, lookupCI, hne]
  | cons kv r ih =>
    obtain ⟨k', v'⟩ := kv
    by_cases hk : (lower k == lower k') = true
    · have e : lower k = lower k' := by simpa using hk
      have h1 : (lower k2 == lower k') = false := by rw [← e]; simpa using hne
      have h2 : (lower k2 == lower k) = false := by simpa using hne
      simp [setCI, lookupCI, hk, h1, h2]
    · simp only [setCI, hk, lookupCI]
      by_cases h2 : (lower k2 == lower k') = true
      · simp [lookupCI, h2]
      · simp [lookupCI, h2, ih]

theorem updateCI_spec (d other : Dict) (k : Key) :
    lookupCI k (updateCI d other) = match lastInCI k other with | some v => some v | none => lookupCI k d := by
  unfold updateCI
  induction other generalizing d with
  | nil => simp [lastInCI]
  | cons kv rest ih =>
    simp only [List.foldl_cons, lastInCI]
    rw [ih]
    cases hl : lastInCI k rest with
    | some v => rfl
    | none =>
      simp only
      by_cases hk : (lower k == lower kv.1) = true
      · simp only [hk, if_true]
        exact lookupCI_setCI_same _ _ _ _ (by simpa using hk)
      · simp only [hk]
        exact lookupCI_setCI_other _ _ _ _ (by simpa using hk)

theorem lookupCI_congr (d : Dict) (k k2 : Key) (h : lower k2 = lower k) : lookupCI k2 d = lookupCI k d := by
  induction d with
  | nil => rfl
  | cons kv r ih => obtain ⟨k', v'⟩ := kv; simp [lookupCI, h, ih]

theorem lookupCI_setdefault (d : Dict) (k k2 : Key) (v v2 : String) (h : lookupCI k2 d = some v2) :
    lookupCI k2 (setdefaultCI d k v) = some v2 := by
  unfold setdefaultCI
  cases hl : lookupCI k d with
  | some _ => exact h
  | none =>
    simp only
    by_cases he : lower k2 = lower k
    · exfalso
      rw [lookupCI_congr d k k2 he, hl] at h; cases h
    · rw [lookupCI_setCI_other _ _ _ _ he]; exact h


/-! ### membership / last-binding facts -/

theorem mem_dset (d : Dict) (k : Key) (v : String) (x : Key × String) (h : x ∈ dset d k v) : x ∈ d ∨ x = (k, v) := by
  induction d with
  | nil => simp [dset] at h; exact Or.inr h
  | cons kv r ih =>
    obtain ⟨k', v'⟩ := kv
    cases hk : (k == k')
    case true =>
      have e : k = k' := by simpa using hk
      simp only [dset, hk, if_true, List.mem_cons] at h
      rcases h with h | h
      · right; rw [h, e]
      · left; simp [h]
    case false =>
      simp only [dset, hk, Bool.false_eq_true, if_false, List.mem_cons] at h
      rcases h with h | h
      · left; simp [h]
      · rcases ih h with h | h
        · left; simp [h]
        · right; exact h

theorem mem_dupdate (d other : Dict) (x : Key × String) (h : x ∈ dupdate d other) : x ∈ d ∨ x ∈ other := by
  unfold dupdate at h
  induction other generalizing d with
  | nil => left; simpa using h
  | cons kv rest ih =>
    simp only [List.foldl_cons] at h
    rcases ih _ h with h | h
    · rcases mem_dset _ _ _ _ h with h | h
      · left; exact h
      · right; rw [h]; simp
    · right; simp [h]

theorem dlookup_some_mem (d : Dict) (k : Key) (v : String) (h : dlookup k d = some v) : (k, v) ∈ d := by
  induction d with
  | nil => simp [dlookup] at h
  | cons kv r ih =>
    obtain ⟨k', v'⟩ := kv
    by_cases hk : (k == k') = true
    · have e : k = k' := by simpa using hk
      simp only [dlookup, hk, if_true, Option.some.injEq] at h
      rw [e, h]; simp
    · simp only [dlookup, hk] at h
      simp [ih h]

theorem dlookup_none_not_mem (d : Dict) (k : Key) (h : dlookup k d = none) (v : String) : (k, v) ∉ d := by
  induction d with
  | nil => simp
  | cons kv r ih =>
    obtain ⟨k', v'⟩ := kv
    by_cases hk : (k == k') = true
    · simp [dlookup, hk] at h
    · simp only [dlookup, hk] at h
      have hne : k ≠ k' := by simpa using hk
      intro hm
      simp only [List.mem_cons, Prod.mk.injEq] at hm
      rcases hm with ⟨e, _⟩ | hm
      · exact hne e
      · exact ih h hm

theorem lastIn_some_mem (d : Dict) (k : Key) (v : String) (h : lastIn k d = some v) : (k, v) ∈ d := by
  induction d with
  | nil => simp [lastIn] at h
  | cons kv r ih =>
    simp only [lastIn] at h
    cases hl : lastIn k r with
    | some w => rw [hl] at h; simp only [Option.some.injEq] at h; subst h; simp [ih hl]
    | none =>
      rw [hl] at h
      by_cases hk : (k == kv.1) = true
      · have e : k = kv.1 := by simpa using hk
        simp only [hk, if_true, Option.some.injEq] at h
        rw [e, ← h]; simp
      · simp [hk] at h

theorem lastIn_ne_none_of_mem (d : Dict) (k : Key) (v : String) (h : (k, v) ∈ d) : ∃ w, lastIn k d = some w := by
  induction d with
  | nil => simp at h
  | cons kv r ih =>
    simp only [lastIn]
    cases hl : lastIn k r with
    | some w => exact ⟨w, rfl⟩
    | none =>
      simp only [List.mem_cons] at h
      rcases h with h | h
      · refine ⟨kv.2, ?_⟩; rw [← h]; simp
      · obtain ⟨w, hw⟩ := ih h; rw [hl] at hw; cases hw

theorem lastInCI_some_mem (d : Dict) (k : Key) (v : String) (h : lastInCI k d = some v) :
    ∃ k', (k', v) ∈ d ∧ lower k = lower k' := by
  induction d with
  | nil => simp [lastInCI] at h
  | cons kv r ih =>
    simp only [lastInCI] at h
    cases hl : lastInCI k r with
    | some w =>
      rw [hl] at h; simp only [Option.some.injEq] at h; subst h
      obtain ⟨k', hm, he⟩ := ih hl
      exact ⟨k', by simp [hm], he⟩
    | none =>
      rw [hl] at h
      by_cases hk : (lower k == lower kv.1) = true
      · simp only [hk, if_true, Option.some.injEq] at h
        exact ⟨kv.1, by rw [← h]; simp, by simpa using hk⟩
      · simp [hk] at h

theorem lastInCI_ne_none_of_mem (d : Dict) (k k' : Key) (v : String) (h : (k', v) ∈ d) (he : lower k = lower k') :
    ∃ w, lastInCI k d = some w := by
  induction d with
  | nil => simp at h
  | cons kv r ih =>
    simp only [lastInCI]
    cases hl : lastInCI k r with
    | some w => exact ⟨w, rfl⟩
    | none =>
      simp only [List.mem_cons] at h
      rcases h with h | h
      · refine ⟨kv.2, ?_⟩; rw [← h]; simp [he]
      · obtain ⟨w, hw⟩ := ih h; rw [hl] at hw; cases hw

/-- if every binding of a name equal to `k` up to case carries `v`, the case-insensitive last binding is `v` -/
theorem lastInCI_of_consistent (d : Dict) (k : Key) (v : String) (hm : (k, v) ∈ d)
    (hc : ∀ k' v', (k', v') ∈ d → lower k' = lower k → v' = v) : lastInCI k d = some v := by
  obtain ⟨w, hw⟩ := lastInCI_ne_none_of_mem d k k v hm rfl
  obtain ⟨k', hm', he⟩ := lastInCI_some_mem d k w hw
  rw [hw, hc k' w hm' he.symm]

/-! ### CaseInsensitiveDict well-formedness -/

theorem mem_setCI (d : Dict) (k : Key) (v : String) (x : Key × String) (h : x ∈ setCI d k v) : x ∈ d ∨ x = (k, v) := by
  induction d with
  | nil => simp [setCI] at h; exact Or.inr h
  | cons kv r ih =>
    obtain ⟨k', v'⟩ := kv
    cases hk : (lower k == lower k')
    case true =>
      simp only [setCI, hk, if_true, List.mem_cons] at h
      rcases h with h | h
      · right; exact h
      · left; simp [h]
    case false =>
      simp only [setCI, hk, Bool.false_eq_true, if_false, List.mem_cons] at h
      rcases h with h | h
      · left; simp [h]
      · rcases ih h with h | h
        · left; simp [h]
        · right; exact h

theorem ciunique_setCI (d : Dict) (k : Key) (v : String) (h : CIUnique d) : CIUnique (setCI d k v) := by
  unfold CIUnique at *
  induction d with
  | nil => simp [setCI]
  | cons kv r ih =>
    obtain ⟨k', v'⟩ := kv
    rw [List.pairwise_cons] at h
    by_cases hk : (lower k == lower k') = true
    · have e : lower k = lower k' := by simpa using hk
      simp only [setCI, hk, if_true]
      rw [List.pairwise_cons]
      exact ⟨fun b hb => by rw [e]; exact h.1 b hb, h.2⟩
    · have hne : lower k ≠ lower k' := by simpa using hk
      have hk' : (lower k == lower k') = false := by simpa using hk
      simp only [setCI, hk', Bool.false_eq_true, if_false]
      rw [List.pairwise_cons]
      refine ⟨?_, ih h.2⟩
      intro b hb
      rcases mem_setCI _ _ _ _ hb with hb | hb
      · exact h.1 b hb
      · rw [hb]; exact fun e => hne e.symm

theorem ciunique_updateCI (d other : Dict) (h : CIUnique d) : CIUnique (updateCI d other) := by
  unfold updateCI
  induction other generalizing d with
  | nil => simpa using h
  | cons kv rest ih => simp only [List.foldl_cons]; exact ih _ (ciunique_setCI _ _ _ h)

theorem lastInCI_eq_lookupCI (d : Dict) (k : Key) (h : CIUnique d) : lastInCI k d = lookupCI k d := by
  unfold CIUnique at h
  induction d with
  | nil => rfl
  | cons kv r ih =>
    obtain ⟨k', v'⟩ := kv
    rw [List.pairwise_cons] at h
    simp only [lastInCI, lookupCI]
    rw [ih h.2]
    by_cases hk : (lower k == lower k') = true
    · have e : lower k = lower k' := by simpa using hk
      simp only [hk, if_true]
      cases hl : lookupCI k r with
      | none => rfl
      | some w =>
        exfalso
        rw [← ih h.2] at hl
        obtain ⟨k2, hm, he⟩ := lastInCI_some_mem r k w hl
        exact h.1 (k2, w) hm (by rw [← e, he])
    · simp only [hk]
      cases lookupCI k r <;> simp

/-- what `CaseInsensitiveDict(c)` answers for `k` is the case-insensitive last binding of `k` in `c` -/
theorem wire_headers_eq (c : Dict) (k : Key) : lookupCI k (updateCI [] c) = lastInCI k c := by
  rw [updateCI_spec]
  cases lastInCI k c <;> simp [lookupCI]

/-! ### `_for_parameters` -/

theorem forParameters_lookup_aux (ov : Dict) (defined : List Key) (acc : Dict) (n : Key) :
    dlookup n (defined.foldl (fpStep ov) acc) =
    if n ∈ defined then (match dlookup n ov with | some v => some v | none => dlookup n acc) else dlookup n acc := by
  induction defined generalizing acc with
  | nil => simp
  | cons m rest ih =>
    simp only [List.foldl_cons]
    rw [ih]
    have hstep : ∀ (hnm : n ≠ m), dlookup n (fpStep ov acc m) = dlookup n acc := by
      intro hnm
      unfold fpStep
      cases dlookup m ov with
      | none => rfl
      | some v => exact lookup_set_other _ _ _ _ (by simpa using hnm)
    by_cases hnm : n = m
    · subst hnm
      simp only [List.mem_cons, true_or, if_true]
      unfold fpStep
      cases ho : dlookup n ov with
      | none => simp
      | some v => simp [lookup_set_same]
    · simp only [List.mem_cons, hnm, false_or]
      rw [hstep hnm]

theorem forParameters_lookup (ov : Dict) (defined : List Key) (n : Key) :
    dlookup n (forParameters ov defined) = if n ∈ defined then dlookup n ov else none := by
  unfold forParameters
  rw [forParameters_lookup_aux]
  simp only [dlookup]
  split
  · cases dlookup n ov <;> rfl
  · rfl

theorem forParameters_mem_aux (ov : Dict) (defined : List Key) (acc : Dict) (x : Key × String)
    (h : x ∈ defined.foldl (fpStep ov) acc) : x ∈ acc ∨ (x.1 ∈ defined ∧ dlookup x.1 ov = some x.2) := by
  induction defined generalizing acc with
  | nil => left; simpa using h
  | cons m rest ih =>
    simp only [List.foldl_cons] at h
    rcases ih _ h with h | ⟨h1, h2⟩
    · unfold fpStep at h
      cases ho : dlookup m ov with
      | none => rw [ho] at h; left; exact h
      | some v =>
        rw [ho] at h
        rcases mem_dset _ _ _ _ h with h | h
        · left; exact h
        · right; rw [h]; exact ⟨by simp, ho⟩
    · right; exact ⟨by simp [h1], h2⟩

/-- every entry `for_operation` hands out is a configured value of a declared name -/
theorem forParameters_mem (ov : Dict) (defined : List Key) (x : Key × String) (h : x ∈ forParameters ov defined) :
    x.1 ∈ defined ∧ dlookup x.1 ov = some x.2 := by
  rcases forParameters_mem_aux ov defined [] x h with h | h
  · simp at h
  · exact h

theorem mem_declared (op : Op) (l : Loc) (n : Key) : n ∈ op.declared l ↔ (l, n) ∈ op.params := by
  unfold Op.declared
  simp only [List.mem_map, List.mem_filter]
  constructor
  · rintro ⟨⟨l', n'⟩, ⟨hm, hl⟩, rfl⟩
    have : l' = l := by simpa using hl
    subst this; exact hm
  · intro h; exact ⟨(l, n), ⟨h, by simp⟩, rfl⟩

theorem forOperation_lookup (o : Overrides) (op : Op) (l : Loc) (n : Key) :
    dlookup n (forOperation o op l) = if (l, n) ∈ op.params then dlookup n (o l) else none := by
  unfold forOperation
  rw [forParameters_lookup]
  by_cases h : (l, n) ∈ op.params
  · simp [h, (mem_declared op l n).2 h]
  · have : n ∉ op.declared l := fun hm => h ((mem_declared op l n).1 hm)
    simp [h, this]

theorem forOperation_mem (o : Overrides) (op : Op) (l : Loc) (x : Key × String) (h : x ∈ forOperation o op l) :
    Applies o op l x.1 x.2 := by
  obtain ⟨h1, h2⟩ := forParameters_mem _ _ _ h
  exact ⟨(mem_declared op l x.1).1 h1, h2⟩

theorem forOperation_lastIn (o : Overrides) (op : Op) (l : Loc) (n : Key) (v : String) (h : Applies o op l n v) :
    lastIn n (forOperation o op l) = some v := by
  have hl : dlookup n (forOperation o op l) = some v := by rw [forOperation_lookup]; simp [h.1, h.2]
  obtain ⟨w, hw⟩ := lastIn_ne_none_of_mem _ n v (dlookup_some_mem _ _ _ hl)
  have := forOperation_mem o op l (n, w) (lastIn_some_mem _ _ _ hw)
  rw [hw]
  have h2 := this.2
  simp only at h2
  rw [h.2] at h2
  exact h2.symm ▸ rfl

theorem forOperation_lastInCI (o : Overrides) (op : Op) (n : Key) (v : String) (h : Applies o op .headers n v)
    (hc : HeaderConsistent o op n v) : lastInCI n (forOperation o op .headers) = some v := by
  have hl : dlookup n (forOperation o op .headers) = some v := by rw [forOperation_lookup]; simp [h.1, h.2]
  apply lastInCI_of_consistent _ _ _ (dlookup_some_mem _ _ _ hl)
  intro k' v' hm he
  exact hc k' v' (forOperation_mem o op .headers (k', v') hm) he

theorem forOperation_nonempty (o : Overrides) (op : Op) (l : Loc) (n : Key) (v : String) (h : Applies o op l n v) :
    (forOperation o op l).isEmpty = false := by
  have hl : dlookup n (forOperation o op l) = some v := by rw [forOperation_lookup]; simp [h.1, h.2]
  cases hf : forOperation o op l with
  | nil => rw [hf] at hl; simp [dlookup] at hl
  | cons _ _ => rfl

/-! ### sites -/

theorem containerUpdate_plain_wins (l : Loc) (c : Option Dict) (entry : Dict) (n : Key) (v : String)
    (hl : l ≠ .headers) (h : lastIn n entry = some v) : dlookup n (containerUpdate l c entry) = some v := by
  unfold containerUpdate
  cases c with
  | none => (rw [update_spec, h])
  | some d =>
    simp only
    split
    · (rw [update_spec, h])
    · cases l <;> first | exact absurd rfl hl | (rw [update_spec, h])


theorem memoGet_cons_ok {K : Type} [DecidableEq K] (o : Overrides) (S : Op → Prop) (key : Op → K)
    (hk : KeySound o S key) (c : List (K × Overrides)) (op : Op) (hS : S op)
    (hc : ∀ k a, memoGet k c = some a → ∀ op', S op' → key op' = k → a = forOperation o op') :
    (resolve (.memo key) o c op).1 = forOperation o op ∧
    ∀ k a, memoGet k (resolve (.memo key) o c op).2 = some a → ∀ op', S op' → key op' = k → a = forOperation o op' := by
  unfold resolve
  simp only
  cases hg : memoGet (key op) c with
  | some a => exact ⟨hc _ a hg op hS rfl, hc⟩
  | none =>
    refine ⟨rfl, ?_⟩
    intro k a hm op' hS' hkey
    simp only [memoGet] at hm
    split at hm
    · rename_i heq
      simp only [Option.some.injEq] at hm
      rw [← hm]
      exact hk op op' hS hS' (by rw [hkey, heq])
    · exact hc k a hm op' hS' hkey


end SV.Proofs.C14
