/-
  Helper lemmas for C15 (not property statements).
-/
import SV.Spec.C15

namespace SV.Proofs.C15
open SV.Model.C15 SV.Spec.C15

theorem isInfix_iff (m s : Str) : isInfix m s = true ↔ m <:+: s := by
  induction s with
  | nil => simp [isInfix]
  | cons c cs ih =>
    simp only [isInfix, Bool.or_eq_true, ih, List.isPrefixOf_iff_prefix, List.infix_cons_iff]

theorem occursIn_iff (m s : Str) : occursIn m s = true ↔ m <:+: s := by
  unfold occursIn
  simp only [List.any_eq_true, List.mem_range, List.isPrefixOf_iff_prefix]
  constructor
  · rintro ⟨i, _, hp⟩
    exact List.IsPrefix.isInfix hp |>.trans (List.drop_suffix i s).isInfix
  · intro h
    obtain ⟨t, hp, ht⟩ := List.infix_iff_prefix_suffix.mp h
    obtain ⟨pre, rfl⟩ := ht
    refine ⟨pre.length, by simp only [List.length_append]; omega, ?_⟩
    simpa using hp

theorem occursIn_eq (m s : Str) : occursIn m s = isInfix m s := by
  rw [Bool.eq_iff_iff, occursIn_iff, isInfix_iff]

theorem any_beq_eq_contains (ks : List Str) (l : Str) : ks.any (· == l) = ks.contains l := by
  induction ks with
  | nil => rfl
  | cons k ks ih =>
    simp only [List.any_cons, List.contains_cons, ih]
    rw [BEq.comm]

theorem sensitiveB_eq (cfg : Config) (n : Str) : sensitiveB cfg n = isSensitive cfg n := by
  unfold sensitiveB isSensitive lower
  simp only [occursIn_eq, any_beq_eq_contains]

/-! ### redact -/

theorem redact_isList (cfg : Config) (v : Val) : (redact cfg v).isList = v.isList := by
  unfold redact; cases h : v.isList <;> simp [Val.isList]

theorem redact_congr (cfg : Config) (a b : Val) (h : a.isList = b.isList) : redact cfg a = redact cfg b := by
  unfold redact; rw [h]

theorem redact_inj (cfg : Config) (a b : Val) (h : redact cfg a = redact cfg b) : a.isList = b.isList := by
  unfold redact at h
  cases ha : a.isList <;> cases hb : b.isList <;> simp [ha, hb] at h <;> rfl

/-! ### multi-maps -/

theorem sanMulti_cons (cfg : Config) (k : Str) (vs : List Str) (rest : List (Str × List Str)) :
    sanMulti cfg ((k, vs) :: rest) = (k, if isSensitive cfg k then [cfg.replacement] else vs) :: sanMulti cfg rest := by
  simp [sanMulti]

theorem sanMulti_ni (cfg : Config) : ∀ a b, lowEqMulti cfg a b = true → sanMulti cfg a = sanMulti cfg b
  | [], [], _ => rfl
  | (k, vs) :: xs, (k', ws) :: ys, h => by
    simp only [lowEqMulti, Bool.and_eq_true, Bool.or_eq_true, beq_iff_eq] at h
    obtain ⟨⟨hk, hv⟩, hr⟩ := h
    subst hk
    rw [sanMulti_cons, sanMulti_cons, sanMulti_ni cfg xs ys hr]
    rcases hv with hv | hv
    · simp [hv]
    · simp [hv]
  | [], _ :: _, h => by simp [lowEqMulti] at h
  | _ :: _, [], h => by simp [lowEqMulti] at h

theorem sanHeaders_ni (cfg : Config) : ∀ a b, lowEqPairs cfg a b = true → sanHeaders cfg a = sanHeaders cfg b
  | [], [], _ => rfl
  | (k, v) :: xs, (k', w) :: ys, h => by
    simp only [lowEqPairs, Bool.and_eq_true, Bool.or_eq_true, beq_iff_eq] at h
    obtain ⟨⟨hk, hv⟩, hr⟩ := h
    subst hk
    have ih := sanHeaders_ni cfg xs ys hr
    simp only [sanHeaders, List.map_cons] at ih ⊢
    rw [ih]
    rcases hv with hv | hv
    · simp [hv]
    · simp [hv]
  | [], _ :: _, h => by simp [lowEqPairs] at h
  | _ :: _, [], h => by simp [lowEqPairs] at h

/-! ### authority -/

/-- `splitAt` computes (text after the last `@`, whether an `@` occurs) -/
theorem splitAt_spec (s acc : Str) (seen : Bool) :
    splitAt s acc seen =
      (if s.contains '@' then hostOf s else acc.reverse ++ s, seen || s.contains '@') := by
  induction s generalizing acc seen with
  | nil => simp [splitAt]
  | cons c cs ih =>
    unfold splitAt
    by_cases hc : c = '@'
    · subst hc
      simp only [beq_self_eq_true, if_true, ih, List.contains_cons, Bool.true_or, Bool.or_true, hostOf]
      simp
    · have hc' : (c == '@') = false := by simpa using hc
      have hc'' : ('@' == c) = false := by simpa using fun h => hc h.symm
      simp only [hc', Bool.false_eq_true, if_false, ih, List.contains_cons, hc'', Bool.false_or, hostOf]
      by_cases h2 : '@' ∈ cs
      · simp [h2]
      · simp [h2]

theorem sanNetloc_spec (cfg : Config) (n : Str) :
    sanNetloc cfg n = if hasUserinfo n then cfg.replacement ++ '@' :: hostOf n else n := by
  unfold sanNetloc hasUserinfo
  rw [splitAt_spec]
  by_cases h : '@' ∈ n
  · simp [h]
  · simp [h]

theorem hostOf_of_not_mem (n : Str) (h : '@' ∉ n) : hostOf n = n := by
  induction n with
  | nil => rfl
  | cons c cs ih =>
    simp only [List.mem_cons, not_or] at h
    have h1 : (c == '@') = false := by simpa using fun e => h.1 e.symm
    simp [hostOf, h.2, h1]

theorem hostOf_userinfo (u host : Str) (h : '@' ∉ host) : hostOf (u ++ '@' :: host) = host := by
  induction u with
  | nil => simp [hostOf, h]
  | cons c cs ih => simp [hostOf, ih]

theorem hasUserinfo_userinfo (u host : Str) : hasUserinfo (u ++ '@' :: host) = true := by
  simp [hasUserinfo]

/-! ### query -/

theorem qsInsert_lowEq (cfg : Config) (k v w : Str) (hvw : isSensitive cfg k = true ∨ v = w) :
    ∀ a b, lowEqMulti cfg a b = true → lowEqMulti cfg (qsInsert k v a) (qsInsert k w b) = true
  | [], [], _ => by
    rcases hvw with h | h <;> simp [qsInsert, lowEqMulti, h]
  | (k1, vs) :: xs, (k2, ws) :: ys, h => by
    simp only [lowEqMulti, Bool.and_eq_true, Bool.or_eq_true, beq_iff_eq] at h
    obtain ⟨⟨hk, hv⟩, hr⟩ := h
    subst hk
    unfold qsInsert
    by_cases hkk : (k == k1) = true
    · have : k = k1 := by simpa using hkk
      subst this
      simp only [beq_self_eq_true, if_true, lowEqMulti, Bool.true_and, hr, Bool.and_true, Bool.or_eq_true, beq_iff_eq]
      rcases hvw with h | h
      · exact Or.inl h
      · rcases hv with hv | hv
        · exact Or.inl hv
        · right; rw [hv, h]
    · simp only [hkk, Bool.false_eq_true, if_false, lowEqMulti, beq_self_eq_true, Bool.true_and, Bool.and_eq_true,
        Bool.or_eq_true, beq_iff_eq]
      exact ⟨hv, qsInsert_lowEq cfg k v w hvw xs ys hr⟩
  | [], _ :: _, h => by simp [lowEqMulti] at h
  | _ :: _, [], h => by simp [lowEqMulti] at h

theorem parseQs_lowEq_aux (cfg : Config) :
    ∀ (q1 q2 : List (Str × Str)) (a b : List (Str × List Str)), lowEqPairs cfg q1 q2 = true → lowEqMulti cfg a b = true →
      lowEqMulti cfg (q1.foldl (fun acc (kv : Str × Str) => qsInsert kv.1 kv.2 acc) a)
                     (q2.foldl (fun acc (kv : Str × Str) => qsInsert kv.1 kv.2 acc) b) = true
  | [], [], _, _, _, hab => by simpa using hab
  | (k, v) :: xs, (k', w) :: ys, a, b, h, hab => by
    simp only [lowEqPairs, Bool.and_eq_true, Bool.or_eq_true, beq_iff_eq] at h
    obtain ⟨⟨hk, hv⟩, hr⟩ := h
    subst hk
    simp only [List.foldl_cons]
    exact parseQs_lowEq_aux cfg xs ys _ _ hr (qsInsert_lowEq cfg k v w hv a b hab)
  | [], _ :: _, _, _, h, _ => by simp [lowEqPairs] at h
  | _ :: _, [], _, _, h, _ => by simp [lowEqPairs] at h

theorem parseQs_lowEq (cfg : Config) (q1 q2 : List (Str × Str)) (h : lowEqPairs cfg q1 q2 = true) :
    lowEqMulti cfg (parseQs q1) (parseQs q2) = true := by
  unfold parseQs
  exact parseQs_lowEq_aux cfg q1 q2 [] [] h rfl

theorem lowEqPairs_point (cfg : Config) (pre post : List (Str × Str)) (k s₁ s₂ : Str) (hk : isSensitive cfg k = true) :
    lowEqPairs cfg (pre ++ (k, s₁) :: post) (pre ++ (k, s₂) :: post) = true := by
  have refl : ∀ l : List (Str × Str), lowEqPairs cfg l l = true := by
    intro l; induction l with
    | nil => rfl
    | cons p l ih => obtain ⟨a, b⟩ := p; simp [lowEqPairs, ih]
  induction pre with
  | nil => simp [lowEqPairs, hk, refl]
  | cons p pre ih => obtain ⟨a, b⟩ := p; simp [lowEqPairs, ih]

theorem lowEqMulti_refl (cfg : Config) : ∀ l : List (Str × List Str), lowEqMulti cfg l l = true
  | [] => rfl
  | (k, vs) :: l => by simp [lowEqMulti, lowEqMulti_refl cfg l]

/-- the whole URL sanitizer from its two halves -/
theorem sanitizeUrl_ni (cfg : Config) (a b : Url) (h : lowEqUrl cfg a b = true) : sanitizeUrl cfg a = sanitizeUrl cfg b := by
  unfold lowEqUrl at h
  simp only [Bool.and_eq_true, beq_iff_eq] at h
  obtain ⟨⟨⟨⟨⟨hs, hp⟩, hf⟩, hu⟩, hh⟩, hq⟩ := h
  obtain ⟨s1, n1, p1, q1, f1⟩ := a
  obtain ⟨s2, n2, p2, q2, f2⟩ := b
  simp only at hs hp hf hu hh hq
  subst hs hp hf
  simp only [sanitizeUrl, Url.mk.injEq, true_and, and_true]
  refine ⟨?_, by rw [sanMulti_ni cfg _ _ hq]⟩
  rw [sanNetloc_spec, sanNetloc_spec, ← hu, hh]
  by_cases hx : hasUserinfo n1 = true
  · simp [hx]
  · have h1 : '@' ∉ n1 := by simpa [hasUserinfo] using hx
    have h2 : '@' ∉ n2 := by
      have : hasUserinfo n2 = false := by rw [← hu]; simpa using hx
      simpa [hasUserinfo] using this
    rw [hostOf_of_not_mem n1 h1, hostOf_of_not_mem n2 h2] at hh
    simp [hh]

/-! ### prepared requests -/

theorem truthy_sanOptDict (cfg : Config) (d : Option (List (Str × Val))) : truthy (sanOptDict cfg d) = truthy d := by
  unfold sanOptDict
  cases d with
  | none => rfl
  | some l => cases l with
    | nil => rfl
    | cons p l => obtain ⟨k, v⟩ := p; simp [truthy, sanKvs]

theorem redactHeader_fst (cfg : Config) (h : Str × HVal) : (redactHeader cfg h).1 = h.1 := rfl

theorem redactHeader_sensitive (cfg : Config) (n : Str) (v w : HVal) (hn : isSensitive cfg n = true) :
    redactHeader cfg (n, v) = redactHeader cfg (n, w) := by
  simp [redactHeader, hn]

/-- `setHeader` under the redaction: the written value is invisible, the base lists need only agree after redaction -/
theorem map_setHeader_congr (cfg : Config) (n : Str) (v w : HVal) (hn : isSensitive cfg n = true) :
    ∀ hs1 hs2 : List (Str × HVal), hs1.map (redactHeader cfg) = hs2.map (redactHeader cfg) →
      (setHeader n v hs1).map (redactHeader cfg) = (setHeader n w hs2).map (redactHeader cfg)
  | [], [], _ => by simp [setHeader, redactHeader_sensitive cfg n v w hn]
  | (k, x) :: r1, (k', y) :: r2, h => by
    simp only [List.map_cons, List.cons.injEq] at h
    obtain ⟨h1, h2⟩ := h
    have hk : k = k' := by simpa [redactHeader] using congrArg Prod.fst h1
    subst hk
    unfold setHeader
    by_cases hkk : (lower k == lower n) = true
    · simp [hkk, h2, redactHeader_sensitive cfg n v w hn]
    · simp [hkk, h1, map_setHeader_congr cfg n v w hn r1 r2 h2]
  | [], _ :: _, h => by simp at h
  | _ :: _, [], h => by simp at h

theorem map_authStage_congr (cfg : Config) (a1 a2 : Option (Str × Str)) (hs1 hs2 : List (Str × HVal))
    (hauth : isSensitive cfg "Authorization".toList = true) (ha : a1.isSome = a2.isSome)
    (h : hs1.map (redactHeader cfg) = hs2.map (redactHeader cfg)) :
    (authStage a1 hs1).map (redactHeader cfg) = (authStage a2 hs2).map (redactHeader cfg) := by
  cases a1 with
  | none => cases a2 with
    | none => simpa [authStage] using h
    | some _ => simp at ha
  | some p1 => cases a2 with
    | none => simp at ha
    | some p2 =>
      obtain ⟨u1, q1⟩ := p1; obtain ⟨u2, q2⟩ := p2
      simpa [authStage] using map_setHeader_congr cfg _ (.basic u1 q1) (.basic u2 q2) hauth hs1 hs2 h

theorem map_cookieStage_congr (cfg : Config) (c1 c2 : Option (List (Str × Val))) (hs : List (Str × HVal))
    (hcookie : isSensitive cfg "Cookie".toList = true) (hc : truthy c1 = truthy c2) :
    (cookieStage c1 hs).map (redactHeader cfg) = (cookieStage c2 hs).map (redactHeader cfg) := by
  unfold cookieStage
  cases c1 with
  | none => cases c2 with
    | none => rfl
    | some l2 => cases l2 with
      | nil => rfl
      | cons _ _ => simp [truthy] at hc
  | some l1 => cases l1 with
    | nil => cases c2 with
      | none => rfl
      | some l2 => cases l2 with
        | nil => rfl
        | cons _ _ => simp [truthy] at hc
    | cons x xs => cases c2 with
      | none => simp [truthy] at hc
      | some l2 => cases l2 with
        | nil => simp [truthy] at hc
        | cons y ys =>
          by_cases hh : hasHeader "Cookie".toList hs = true
          · show List.map _ (if _ then _ else _) = List.map _ (if _ then _ else _)
            rw [if_pos hh, if_pos hh]
          · show List.map _ (if _ then _ else _) = List.map _ (if _ then _ else _)
            rw [if_neg hh, if_neg hh, List.map_append, List.map_append, List.map_cons, List.map_cons,
              redactHeader_sensitive cfg "Cookie".toList (.cookies (x :: xs)) (.cookies (y :: ys)) hcookie]

theorem partitionColon_name (name s : Str) (h : ':' ∉ name) :
    ∀ acc, partitionColon (name ++ ':' :: s) acc = (acc.reverse ++ name, some s) := by
  induction name with
  | nil => intro acc; simp [partitionColon]
  | cons c cs ih =>
    intro acc
    simp only [List.mem_cons, not_or] at h
    have hc : (c == ':') = false := by simpa using fun e => h.1 e.symm
    simp [partitionColon, hc, ih h.2 (c :: acc)]

/-! ### the sanitized query read back (`parse_qs` of `urlencode`) -/

def keysOf (d : List (Str × List Str)) : List Str := d.map (·.1)

/-- well-formed multi-map: distinct keys, no empty value list -/
def WF : List (Str × List Str) → Prop
  | [] => True
  | (k, vs) :: rest => vs ≠ [] ∧ k ∉ keysOf rest ∧ WF rest

theorem qsInsert_fresh (k v : Str) : ∀ acc : List (Str × List Str), k ∉ keysOf acc → qsInsert k v acc = acc ++ [(k, [v])]
  | [], _ => rfl
  | (k', vs) :: rest, h => by
    simp only [keysOf, List.map_cons, List.mem_cons, not_or] at h
    have hk : (k == k') = false := by simpa using h.1
    simp [qsInsert, hk, qsInsert_fresh k v rest (by simpa [keysOf] using h.2)]

theorem qsInsert_last (k v : Str) (ws : List Str) : ∀ acc : List (Str × List Str), k ∉ keysOf acc →
    qsInsert k v (acc ++ [(k, ws)]) = acc ++ [(k, ws ++ [v])]
  | [], _ => by simp [qsInsert]
  | (k', vs) :: rest, h => by
    simp only [keysOf, List.map_cons, List.mem_cons, not_or] at h
    have hk : (k == k') = false := by simpa using h.1
    simp [qsInsert, hk, qsInsert_last k v ws rest (by simpa [keysOf] using h.2)]

theorem foldl_values (k : Str) (acc : List (Str × List Str)) (hk : k ∉ keysOf acc) :
    ∀ (vs ws : List Str), (vs.map fun v => (k, v)).foldl (fun a (kv : Str × Str) => qsInsert kv.1 kv.2 a) (acc ++ [(k, ws)])
      = acc ++ [(k, ws ++ vs)]
  | [], ws => by simp
  | v :: vs, ws => by
    simp only [List.map_cons, List.foldl_cons, qsInsert_last k v ws acc hk]
    rw [foldl_values k acc hk vs (ws ++ [v])]
    simp

theorem foldl_flatten : ∀ (d acc : List (Str × List Str)), WF d → (∀ k ∈ keysOf d, k ∉ keysOf acc) →
    (flattenQs d).foldl (fun a (kv : Str × Str) => qsInsert kv.1 kv.2 a) acc = acc ++ d
  | [], acc, _, _ => by simp [flattenQs]
  | (k, vs) :: rest, acc, hwf, hdis => by
    obtain ⟨hne, hk, hrest⟩ := hwf
    have hka : k ∉ keysOf acc := hdis k (by simp [keysOf])
    cases vs with
    | nil => exact absurd rfl hne
    | cons v vs =>
      have : flattenQs ((k, v :: vs) :: rest) = (k, v) :: ((vs.map fun x => (k, x)) ++ flattenQs rest) := by
        simp [flattenQs]
      rw [this, List.foldl_cons, List.foldl_append]
      simp only
      rw [qsInsert_fresh k v acc hka, foldl_values k acc hka vs [v]]
      rw [foldl_flatten rest (acc ++ [(k, [v] ++ vs)]) hrest]
      · simp
      · intro k' hk' hmem
        simp only [keysOf, List.map_append, List.map_cons, List.map_nil, List.mem_append, List.mem_singleton] at hmem
        rcases hmem with hmem | hmem
        · exact hdis k' (by simp [keysOf] at hk' ⊢; exact Or.inr hk') (by simpa [keysOf] using hmem)
        · subst hmem; exact hk hk'

theorem parseQs_flatten (d : List (Str × List Str)) (h : WF d) : parseQs (flattenQs d) = d := by
  unfold parseQs
  have := foldl_flatten d [] h (by simp [keysOf])
  simpa using this

theorem keysOf_qsInsert (k v : Str) : ∀ acc : List (Str × List Str),
    keysOf (qsInsert k v acc) = if k ∈ keysOf acc then keysOf acc else keysOf acc ++ [k]
  | [] => by simp [qsInsert, keysOf]
  | (k', vs) :: rest => by
    have ih := keysOf_qsInsert k v rest
    by_cases hk : k = k'
    · subst hk; simp [qsInsert, keysOf]
    · have hk' : (k == k') = false := by simpa using hk
      simp only [qsInsert, hk', Bool.false_eq_true, if_false, keysOf, List.map_cons, List.mem_cons, hk, false_or] at ih ⊢
      rw [ih]
      by_cases hm : k ∈ List.map (fun x => x.fst) rest <;> simp [hm]

theorem qsInsert_wf (k v : Str) : ∀ acc : List (Str × List Str), WF acc → WF (qsInsert k v acc)
  | [], _ => by simp [qsInsert, WF, keysOf]
  | (k', vs) :: rest, h => by
    obtain ⟨hne, hk', hrest⟩ := h
    by_cases hk : k = k'
    · subst hk
      simp only [qsInsert, beq_self_eq_true, if_true, WF]
      exact ⟨by simp, hk', hrest⟩
    · have hkb : (k == k') = false := by simpa using hk
      simp only [qsInsert, hkb, Bool.false_eq_true, if_false, WF]
      refine ⟨hne, ?_, qsInsert_wf k v rest hrest⟩
      rw [keysOf_qsInsert]
      split
      · exact hk'
      · simp only [List.mem_append, List.mem_singleton, not_or]
        exact ⟨hk', fun e => hk e.symm⟩

theorem parseQs_wf (q : List (Str × Str)) : WF (parseQs q) := by
  unfold parseQs
  have : ∀ (q : List (Str × Str)) (acc : List (Str × List Str)), WF acc →
      WF (q.foldl (fun a (kv : Str × Str) => qsInsert kv.1 kv.2 a) acc) := by
    intro q
    induction q with
    | nil => intro acc h; simpa using h
    | cons p q ih => intro acc h; simp only [List.foldl_cons]; exact ih _ (qsInsert_wf p.1 p.2 acc h)
  exact this q [] (by simp [WF])

theorem sanMulti_wf (cfg : Config) : ∀ d, WF d → WF (sanMulti cfg d)
  | [], _ => by simp [sanMulti, WF]
  | (k, vs) :: rest, h => by
    obtain ⟨hne, hk, hrest⟩ := h
    rw [sanMulti_cons]
    refine ⟨?_, ?_, sanMulti_wf cfg rest hrest⟩
    · split <;> simp [hne]
    · have : keysOf (sanMulti cfg rest) = keysOf rest := by
        simp [keysOf, sanMulti, Function.comp_def]
      rw [this]; exact hk

theorem okMulti_sanMulti (cfg : Config) : ∀ d, okMulti cfg d (sanMulti cfg d) = true
  | [] => rfl
  | (k, vs) :: rest => by
    rw [sanMulti_cons]
    simp only [okMulti, okMulti_sanMulti cfg rest, sensitiveB_eq, beq_self_eq_true, Bool.true_and, Bool.and_true]
    by_cases hs : isSensitive cfg k = true <;> simp [hs]

theorem sanitizeUrl_ok (cfg : Config) (u : Url) : okUrl cfg u (sanitizeUrl cfg u) = true := by
  have hn : okNetloc cfg u.netloc (sanNetloc cfg u.netloc) = true := by
    unfold okNetloc; rw [sanNetloc_spec]
    by_cases h : hasUserinfo u.netloc = true <;> simp [h]
  simp only [okUrl, sanitizeUrl, beq_self_eq_true, Bool.true_and, hn,
    parseQs_flatten _ (sanMulti_wf cfg _ (parseQs_wf u.query)), okMulti_sanMulti]

end SV.Proofs.C15

