/-
  Helper lemmas for C16 (not property statements).
-/
import SV.Spec.C16

namespace SV.Proofs.C16
open SV.Model.C16 SV.Spec.C16

theorem hexVal_hexDigit (d : Nat) (h : d < 16) : hexVal (hexDigit d) = some d := by
  unfold hexVal hexDigit
  split <;> (split <;> try split) <;> first | (congr 1; omega) | omega

theorem readHex2 (c : Nat) (rest : Str) (h : c < 256) : readHex 2 (hex2 c ++ rest) 0 = some (c, rest) := by
  simp only [hex2, List.cons_append, List.nil_append, readHex,
    hexVal_hexDigit _ (Nat.mod_lt _ (by decide : 16 > 0))]
  congr 2; omega

theorem readHex4 (c : Nat) (rest : Str) (h : c < 65536) : readHex 4 (hex4 c ++ rest) 0 = some (c, rest) := by
  simp only [hex4, List.cons_append, List.nil_append, readHex,
    hexVal_hexDigit _ (Nat.mod_lt _ (by decide : 16 > 0))]
  congr 2; omega

theorem readHex8 (c : Nat) (rest : Str) (h : c < 4294967296) : readHex 8 (hex8 c ++ rest) 0 = some (c, rest) := by
  simp only [hex8, List.cons_append, List.nil_append, readHex,
    hexVal_hexDigit _ (Nat.mod_lt _ (by decide : 16 > 0))]
  congr 2; omega

theorem escRepl_mem (c r : Nat) (h : escRepl c = some r) : (c, r) ∈ escapeTable := by
  unfold escRepl at h
  cases hf : escapeTable.find? (fun p => p.1 == c) with
  | none => simp [hf] at h
  | some p =>
    simp only [hf, Option.map_some, Option.some.injEq] at h
    have h1 := List.mem_of_find?_eq_some hf
    have h2 := List.find?_some hf
    simp only [beq_iff_eq] at h2
    obtain ⟨a, b⟩ := p
    simp_all

/-- the reader inverts the emitter's table -/
theorem unescape_escRepl (c r : Nat) (h : escRepl c = some r) : unescape1 r = some c := by
  have hm := escRepl_mem c r h
  have : ∀ p ∈ escapeTable, unescape1 p.2 = some p.1 := by decide
  exact this (c, r) hm

theorem escRepl_not_hexmark (c r : Nat) (h : escRepl c = some r) : r ≠ 120 ∧ r ≠ 117 ∧ r ≠ 85 := by
  have hm := escRepl_mem c r h
  have : ∀ p ∈ escapeTable, p.2 ≠ 120 ∧ p.2 ≠ 117 ∧ p.2 ≠ 85 := by decide
  exact this (c, r) hm

/-! ### double-quoted round trip: one step per source character -/

theorem plain_facts (c : Nat) (h : needsEscape c = false) : c ≠ 34 ∧ c ≠ 92 ∧ inlineCh c = true := by
  simp only [needsEscape, inlineCh, printable, isBreak, Bool.or_eq_false_iff, Bool.not_eq_false', Bool.or_eq_true,
    Bool.and_eq_true, beq_eq_false_iff_ne, decide_eq_true_eq, beq_iff_eq, Bool.not_eq_true', Bool.or_eq_false_iff] at h ⊢
  omega

theorem decodeF_plain (c : Nat) (f : Nat) (t acc : Str) (h : needsEscape c = false) :
    decodeF (f + 1) (c :: t) acc = decodeF f t (c :: acc) := by
  obtain ⟨h1, h2, h3⟩ := plain_facts c h
  simp [decodeF, h1, h2, h3]

theorem decodeF_escape (c : Nat) (f : Nat) (t acc : Str) (hc : c < 0x110000) :
    decodeF (f + 1) (escapeOf c ++ t) acc = decodeF f t (c :: acc) := by
  unfold escapeOf
  cases he : escRepl c with
  | some r =>
    obtain ⟨a1, a2, a3⟩ := escRepl_not_hexmark c r he
    have hu := unescape_escRepl c r he
    simp [decodeF, a1, a2, a3, hu]
  | none =>
    simp only
    by_cases h1 : c ≤ 0xFF
    · simp [h1, decodeF, readHex2 c t (by omega), afterHex, hc]
    · by_cases h2 : c ≤ 0xFFFF
      · simp [h1, h2, decodeF, readHex4 c t (by omega), afterHex, hc]
      · simp [h1, h2, decodeF, readHex8 c t (by omega), afterHex, hc]

theorem dqChar_len (c : Nat) : 1 ≤ (dqChar c).length := by
  unfold dqChar escapeOf
  split
  · split <;> (try split) <;> (try split) <;> simp
  · simp

theorem dqBody_len (s : Str) : s.length ≤ (dqBody s).length := by
  induction s with
  | nil => simp [dqBody]
  | cons c s ih => simp only [dqBody, List.length_cons, List.length_append]; have := dqChar_len c; omega

theorem decodeF_dqBody (s : Str) : ∀ (f : Nat) (acc rest : Str), (∀ c ∈ s, c < 0x110000) → s.length < f →
    decodeF f (dqBody s ++ 34 :: rest) acc = some (acc.reverse ++ s, rest) := by
  induction s with
  | nil =>
    intro f acc rest _ hf
    cases f with
    | zero => omega
    | succ f => simp [dqBody, decodeF]
  | cons c s ih =>
    intro f acc rest hs hf
    cases f with
    | zero => omega
    | succ f =>
      have hc : c < 0x110000 := hs c (by simp)
      have hs' : ∀ x ∈ s, x < 0x110000 := fun x hx => hs x (by simp [hx])
      have hf' : s.length < f := by simp at hf; omega
      simp only [dqBody, dqChar]
      by_cases hn : needsEscape c = true
      · simp only [hn, if_true, List.append_assoc]
        rw [decodeF_escape c f _ acc hc, ih f (c :: acc) rest hs' hf']
        simp
      · have hn' : needsEscape c = false := by simpa using hn
        simp only [hn', Bool.false_eq_true, if_false, List.cons_append, List.nil_append]
        rw [decodeF_plain c f _ acc hn', ih f (c :: acc) rest hs' hf']
        simp

/-! ### the emitted characters -/

theorem hexDigit_inline (d : Nat) (h : d < 16) : inlineCh (hexDigit d) = true := by
  unfold hexDigit inlineCh printable isBreak
  split <;> simp <;> omega

theorem escTable_inline (c r : Nat) (h : escRepl c = some r) : inlineCh r = true := by
  have hm := escRepl_mem c r h
  have : ∀ p ∈ escapeTable, inlineCh p.2 = true := by decide
  exact this (c, r) hm

theorem dqChar_inline (c : Nat) : ∀ x ∈ dqChar c, inlineCh x = true := by
  intro x hx
  unfold dqChar at hx
  by_cases hn : needsEscape c = true
  · simp only [hn, if_true] at hx
    unfold escapeOf at hx
    cases he : escRepl c with
    | some r =>
      simp only [he, List.mem_cons, List.not_mem_nil, or_false] at hx
      rcases hx with rfl | rfl
      · decide
      · exact escTable_inline c _ he
    | none =>
      simp only [he] at hx
      have hd : ∀ n, inlineCh (hexDigit (n % 16)) = true := fun n => hexDigit_inline _ (Nat.mod_lt _ (by decide))
      split at hx
      · simp only [hex2, List.mem_cons, List.not_mem_nil, or_false] at hx
        rcases hx with rfl | rfl | rfl | rfl <;> first | decide | exact hd _
      · split at hx
        · simp only [hex4, List.mem_cons, List.not_mem_nil, or_false] at hx
          rcases hx with rfl | rfl | rfl | rfl | rfl | rfl <;> first | decide | exact hd _
        · simp only [hex8, List.mem_cons, List.not_mem_nil, or_false] at hx
          rcases hx with rfl | rfl | rfl | rfl | rfl | rfl | rfl | rfl | rfl | rfl <;> first | decide | exact hd _
  · have hn' : needsEscape c = false := by simpa using hn
    simp only [hn', Bool.false_eq_true, if_false, List.mem_cons, List.not_mem_nil, or_false] at hx
    subst hx
    exact (plain_facts x hn').2.2

theorem dqBody_inline (s : Str) : ∀ x ∈ dqBody s, inlineCh x = true := by
  induction s with
  | nil => simp [dqBody]
  | cons c s ih =>
    intro x hx
    simp only [dqBody, List.mem_append] at hx
    rcases hx with hx | hx
    · exact dqChar_inline c x hx
    · exact ih x hx

/-! ### HAR header look-ups -/
/-! HAR -/
theorem lowerCp_ne_upper (c : Nat) : ¬ (65 ≤ lowerCp c ∧ lowerCp c ≤ 90) := by
  unfold lowerCp; split <;> (try split) <;> omega

theorem dictGet_none_of_keys {α : Type} (k : Str) (d : List (Str × α)) (h : ∀ p ∈ d, p.1 ≠ k) : dictGet k d = none := by
  induction d with
  | nil => rfl
  | cons p d ih =>
    obtain ⟨k', v⟩ := p
    have h1 : k' ≠ k := h (k', v) (by simp)
    have h1' : ¬ k = k' := fun e => h1 e.symm
    simp only [dictGet, h1', if_false]
    exact ih (fun p hp => h p (by simp [hp]))

theorem dictSet_keys {α : Type} (k : Str) (v : α) (d : List (Str × α)) (P : Str → Prop) (hk : P k) (hd : ∀ p ∈ d, P p.1) :
    ∀ p ∈ dictSet k v d, P p.1 := by
  induction d with
  | nil => intro p hp; simp [dictSet] at hp; subst hp; exact hk
  | cons q d ih =>
    obtain ⟨k', v'⟩ := q
    intro p hp
    simp only [dictSet] at hp
    split at hp
    · simp only [List.mem_cons] at hp
      rcases hp with rfl | hp
      · exact hk
      · exact hd p (by simp [hp])
    · simp only [List.mem_cons] at hp
      rcases hp with rfl | hp
      · exact hd (k', v') (by simp)
      · exact ih (fun p hp => hd p (by simp [hp])) p hp

theorem lower_noUpper (s : Str) : noUpper (lower s) := by
  intro c hc
  simp only [lower, List.mem_map] at hc
  obtain ⟨a, _, rfl⟩ := hc
  exact lowerCp_ne_upper a

theorem lowerHeaders_keys (hs acc : List (Str × List Str)) (hacc : ∀ p ∈ acc, noUpper p.1) :
    ∀ p ∈ lowerHeaders hs acc, noUpper p.1 := by
  induction hs generalizing acc with
  | nil => simpa [lowerHeaders] using hacc
  | cons h hs ih =>
    obtain ⟨k, v⟩ := h
    simp only [lowerHeaders]
    exact ih _ (dictSet_keys (lower k) v acc noUpper (lower_noUpper k) hacc)

theorem dictGet_dictSet_same {α : Type} (k : Str) (v : α) (d : List (Str × α)) : dictGet k (dictSet k v d) = some v := by
  induction d with
  | nil => simp [dictSet, dictGet]
  | cons q d ih =>
    obtain ⟨k', v'⟩ := q
    simp only [dictSet]
    split
    · simp [dictGet]
    · simp [dictGet, *]

theorem dictGet_dictSet_isSome {α : Type} (k k2 : Str) (v : α) (d : List (Str × α)) (h : (dictGet k d).isSome) :
    (dictGet k (dictSet k2 v d)).isSome := by
  induction d with
  | nil => simp [dictGet] at h
  | cons q d ih =>
    obtain ⟨k', v'⟩ := q
    simp only [dictSet]
    by_cases e2 : k2 = k'
    · simp only [e2, if_true, dictGet]
      simp only [dictGet] at h
      split <;> simp_all
    · simp only [e2, if_false, dictGet]
      simp only [dictGet] at h
      split
      · simp
      · simp_all

theorem lowerHeaders_finds (hs acc : List (Str × List Str)) (name : Str)
    (h : (∃ p ∈ hs, lower p.1 = lower name) ∨ (dictGet (lower name) acc).isSome) :
    (dictGet (lower name) (lowerHeaders hs acc)).isSome := by
  induction hs generalizing acc with
  | nil =>
    rcases h with ⟨p, hp, _⟩ | h
    · simp at hp
    · simpa [lowerHeaders] using h
  | cons q hs ih =>
    obtain ⟨k, v⟩ := q
    simp only [lowerHeaders]
    apply ih
    rcases h with ⟨p, hp, he⟩ | h
    · simp only [List.mem_cons] at hp
      rcases hp with rfl | hp
      · right; simp only at he; rw [← he, dictGet_dictSet_same]; rfl
      · left; exact ⟨p, hp, he⟩
    · right; exact dictGet_dictSet_isSome _ _ _ _ h

/-! ### Statistic / JUnit -/
theorem checkLoop_cur_mono (id : Nat) (cs : List (Option Nat)) : ∀ (u : List (Nat × Nat)) (cur : List Nat),
    (checkLoop id cs u cur).2 = [] → cur = [] := by
  induction cs with
  | nil => intro u cur h; simpa [checkLoop] using h
  | cons c cs ih =>
    intro u cur h
    cases c with
    | none => exact ih u cur (by simpa [checkLoop] using h)
    | some f =>
      simp only [checkLoop] at h
      split at h
      · exact ih u cur h
      · have := ih _ _ h; simp at this

theorem checkLoop_empty (id : Nat) (cs : List (Option Nat)) : ∀ (u : List (Nat × Nat)) (cur : List Nat),
    (checkLoop id cs u cur).2 = [] → (checkLoop id cs u cur).1 = u ∧ ∀ f, some f ∈ cs → (ndGet f u).isSome := by
  induction cs with
  | nil => intro u cur _; simp [checkLoop]
  | cons c cs ih =>
    intro u cur h
    cases c with
    | none =>
      have := ih u cur (by simpa [checkLoop] using h)
      simp only [checkLoop]
      refine ⟨this.1, ?_⟩
      intro f hf
      simp only [List.mem_cons, reduceCtorEq, false_or] at hf
      exact this.2 f hf
    | some f' =>
      simp only [checkLoop] at h ⊢
      split at h
      · rename_i x hx
        have := ih u cur h
        refine ⟨this.1, ?_⟩
        intro f hf
        simp only [List.mem_cons, Option.some.injEq] at hf
        rcases hf with rfl | hf
        · simp [hx]
        · exact this.2 f hf
      · have := checkLoop_cur_mono id cs _ _ h; simp at this

theorem ndSet_ne_nil {α : Type} (k : Nat) (v : α) (d : List (Nat × α)) : ndSet k v d ≠ [] := by
  cases d with
  | nil => simp [ndSet]
  | cons q d => obtain ⟨k', v'⟩ := q; simp only [ndSet]; split <;> simp

theorem ndGet_ndSet_same {α : Type} (k : Nat) (v : α) (d : List (Nat × α)) : ndGet k (ndSet k v d) = some v := by
  induction d with
  | nil => simp [ndSet, ndGet]
  | cons q d ih =>
    obtain ⟨k', v'⟩ := q
    simp only [ndSet]
    split
    · simp [ndGet]
    · simp [ndGet, *]

theorem caseLoop_mono (cs : List CaseRec) : ∀ (u : List (Nat × Nat)) (fs : List (Nat × Group)),
    fs ≠ [] → (caseLoop cs u fs).2 ≠ [] := by
  induction cs with
  | nil => intro u fs h; simpa [caseLoop] using h
  | cons c cs ih =>
    intro u fs h
    simp only [caseLoop]
    split
    · exact ih u fs h
    · apply ih
      split
      · exact h
      · exact ndSet_ne_nil _ _ _

theorem caseLoop_fresh (cs : List CaseRec) : ∀ (u : List (Nat × Nat)) (fs : List (Nat × Group)),
    (∃ c ∈ cs, ∃ f, some f ∈ c.checks ∧ ndGet f u = none) → (caseLoop cs u fs).2 ≠ [] := by
  induction cs with
  | nil => intro u fs h; obtain ⟨c, hc, _⟩ := h; simp at hc
  | cons c cs ih =>
    intro u fs h
    obtain ⟨c', hc', f, hf, hfu⟩ := h
    simp only [caseLoop]
    by_cases hE : c.checks.isEmpty = true
    · simp only [hE, if_true]
      apply ih
      simp only [List.mem_cons] at hc'
      rcases hc' with rfl | hc'
      · simp only [List.isEmpty_iff] at hE; rw [hE] at hf; simp at hf
      · exact ⟨c', hc', f, hf, hfu⟩
    · simp only [hE, Bool.false_eq_true, if_false]
      by_cases hR : (checkLoop c.id c.checks u []).2.isEmpty = true
      · simp only [hR, if_true]
        have hR' : (checkLoop c.id c.checks u []).2 = [] := by simpa using hR
        obtain ⟨h1, h2⟩ := checkLoop_empty c.id c.checks u [] hR'
        rw [h1]
        apply ih
        simp only [List.mem_cons] at hc'
        rcases hc' with rfl | hc'
        · have := h2 f hf; simp [hfu] at this
        · exact ⟨c', hc', f, hf, hfu⟩
      · simp only [hR, Bool.false_eq_true, if_false]
        exact caseLoop_mono cs _ _ (ndSet_ne_nil _ _ _)

theorem onScenarioFinished_label (st : Stat) (r : Recorder)
    (h : (ndGet r.label st.failures).isSome ∨ freshIn st.unique r) :
    (ndGet r.label (onScenarioFinished st r).failures).isSome := by
  unfold onScenarioFinished
  simp only
  split
  · rename_i hE
    rcases h with h | h
    · exact h
    · have := caseLoop_fresh r.cases st.unique ((ndGet r.label st.failures).getD []) h
      simp only [List.isEmpty_iff] at hE
      exact absurd hE this
  · simp [ndGet_ndSet_same]

theorem junitStep_repaired_some (st : Stat) (j : JUnit) (ev : Event) : (junitStep .repaired st j ev).isSome := by
  cases ev with
  | scenarioFinished status hasSkip r =>
    cases status <;> simp only [junitStep] <;> (try split) <;> rfl
  | nonFatalError l => rfl
  | engineFinished => rfl
  | other => rfl

/-! ### base64 -/
theorem b64Val_b64Char (i : Nat) (h : i < 64) : b64Val (b64Char i) = some i := by
  unfold b64Char b64Val
  split
  · rw [if_pos (by omega)]; simp
  · split
    · rw [if_neg (by omega), if_pos (by omega)]; simp
    · split
      · rw [if_neg (by omega), if_neg (by omega), if_pos (by omega)]; simp; omega
      · split
        · subst_vars; decide
        · have : i = 63 := by omega
          subst this; decide

theorem b64Char_ne_pad (i : Nat) (h : i < 64) : b64Char i ≠ 61 := by
  unfold b64Char
  split <;> (try split) <;> (try split) <;> (try split) <;> omega

end SV.Proofs.C16
